import GixModel.Model.C13
/-
C13 — helper lemmas: forests of alternates (first-child / next-sibling encoding), the work-stack
loop and git's recursion on a forest, the insertion-order argument for cycles.
-/
namespace GixModel.C13
open GixModel

/-- A forest of object directories: `cons d kids rest` is a directory `d` whose alternates file
names the roots of `kids`, followed by its siblings `rest`. Any fan-out, any depth. -/
inductive F (D : Type) where
  | nil
  | cons (d : D) (kids : F D) (rest : F D)
  deriving Repr

namespace F
variable {D : Type}

def roots : F D → List D
  | nil => []
  | cons d _ r => d :: roots r

/-- pre-order: a directory, then everything below it, then its siblings -/
def pre : F D → List D
  | nil => []
  | cons d k r => d :: (pre k ++ pre r)

/-- everything below the roots, in the order `resolve` gets to remember it -/
def added : F D → List D
  | nil => []
  | cons _ k r => roots k ++ (added k ++ added r)

def size : F D → Nat
  | nil => 0
  | cons _ k r => 1 + size k + size r

/-- number of levels (a forest of leaves has height 1) -/
def height : F D → Nat
  | nil => 0
  | cons _ k r => max (1 + height k) (height r)

end F

set_option linter.unusedSectionVars false
section Generic
variable {D : Type} [DecidableEq D]

/-- the world says exactly what the forest says: for both parsers, and every directory exists -/
def Unfolds (w : World D) : F D → Prop
  | .nil => True
  | .cons d k r =>
    w.kids d d = .ok k.roots ∧ w.gkids d = k.roots ∧ w.isDir d = true ∧ Unfolds w k ∧ Unfolds w r

theorem pushKids_nodup (seen cs : List D) (h : (seen ++ cs).Nodup) :
    pushKids seen cs = some (seen ++ cs) := by
  induction cs generalizing seen with
  | nil => simp [pushKids]
  | cons c cs ih =>
    have hc : c ∉ seen := by
      intro hm
      rw [List.nodup_append] at h
      exact h.2.2 c hm c (by simp) rfl
    simp only [pushKids, hc, if_false]
    have : seen ++ c :: cs = (seen ++ [c]) ++ cs := by simp
    rw [this] at h ⊢
    exact ih (seen ++ [c]) h

theorem pushKids_some (seen cs seen' : List D) (h : pushKids seen cs = some seen') :
    seen' = seen ++ cs ∧ ∀ c ∈ cs, c ∉ seen := by
  induction cs generalizing seen with
  | nil => simp [pushKids] at h; exact ⟨by rw [← h]; simp, fun _ hc => by cases hc⟩
  | cons c cs ih =>
    simp only [pushKids] at h
    split at h
    · cases h
    · rename_i hc
      obtain ⟨h1, h2⟩ := ih (seen ++ [c]) h
      refine ⟨by rw [h1]; simp, ?_⟩
      intro x hx
      cases hx with
      | head => exact hc
      | tail _ hx' =>
        intro hm
        exact h2 x hx' (by simp [hm])

/-- The work-stack loop on a forest whose directories are all new: it consumes exactly the
forest, returns its pre-order, and needs `size` iterations. -/
theorem loop_forest (w : World D) : ∀ (f : F D) (stack seen out : List D) (n : Nat),
    Unfolds w f → (seen ++ f.added).Nodup →
    loop w (n + f.size) (f.roots ++ stack) seen out = loop w n stack (seen ++ f.added) (out ++ f.pre) := by
  intro f
  induction f with
  | nil => intro stack seen out n _ _; simp [F.size, F.roots, F.added, F.pre]
  | cons d k r ihk ihr =>
    intro stack seen out n hu hn
    obtain ⟨hk, _, _, huk, hur⟩ := hu
    simp only [F.added] at hn
    have hn1 : (seen ++ k.roots).Nodup := by
      have : seen ++ (k.roots ++ (k.added ++ r.added)) = (seen ++ k.roots) ++ (k.added ++ r.added) := by simp
      rw [this] at hn
      exact (List.nodup_append.mp hn).1
    have hn2 : ((seen ++ k.roots) ++ k.added).Nodup := by
      have : seen ++ (k.roots ++ (k.added ++ r.added)) = ((seen ++ k.roots) ++ k.added) ++ r.added := by simp
      rw [this] at hn
      exact (List.nodup_append.mp hn).1
    have hn3 : (((seen ++ k.roots) ++ k.added) ++ r.added).Nodup := by
      have : seen ++ (k.roots ++ (k.added ++ r.added)) = ((seen ++ k.roots) ++ k.added) ++ r.added := by simp
      rw [this] at hn; exact hn
    have hfuel : n + (F.cons d k r).size = ((n + r.size) + k.size) + 1 := by simp [F.size]; omega
    rw [hfuel]
    simp only [F.roots, List.cons_append, loop, hk, pushKids_nodup seen k.roots hn1]
    have hstack : k.roots ++ (r.roots ++ stack) = k.roots ++ (r.roots ++ stack) := rfl
    rw [ihk (r.roots ++ stack) (seen ++ k.roots) (out ++ [d]) (n + r.size) huk hn2]
    rw [ihr stack ((seen ++ k.roots) ++ k.added) ((out ++ [d]) ++ k.pre) n hur hn3]
    simp [F.added, F.pre]

/-- one step of git's `link_alt_odb_entries` loop at remaining depth `n` -/
def gitStep (w : World D) (n : Nat) (st : List D × List D) (c : D) : List D × List D :=
  if c ∈ st.1 then st
  else if w.isDir c then gitLink w n c (st.1 ++ [c], st.2 ++ [c])
  else st

theorem gitLink_succ (w : World D) (n : Nat) (dir : D) (st : List D × List D) :
    gitLink w (n + 1) dir st = (w.gkids dir).foldl (gitStep w n) st := rfl

/-- git's recursion on a forest whose directories are all new and which fits into the remaining
depth: it appends exactly the pre-order. -/
theorem git_forest (w : World D) : ∀ (f : F D) (n : Nat) (seen out : List D),
    Unfolds w f → (seen ++ f.pre).Nodup → f.height ≤ n + 1 →
    f.roots.foldl (gitStep w n) (seen, out) = (seen ++ f.pre, out ++ f.pre) := by
  intro f
  induction f with
  | nil => intro n seen out _ _ _; simp [F.roots, F.pre]
  | cons d k r ihk ihr =>
    intro n seen out hu hn hh
    obtain ⟨_, hg, hd, huk, hur⟩ := hu
    simp only [F.pre] at hn
    have hdn : d ∉ seen := by
      intro hm
      rw [List.nodup_append] at hn
      exact hn.2.2 d hm d (by simp) rfl
    have hn2 : ((seen ++ [d]) ++ k.pre).Nodup := by
      have : seen ++ d :: (k.pre ++ r.pre) = ((seen ++ [d]) ++ k.pre) ++ r.pre := by simp
      rw [this] at hn
      exact (List.nodup_append.mp hn).1
    have hn3 : (((seen ++ [d]) ++ k.pre) ++ r.pre).Nodup := by
      have : seen ++ d :: (k.pre ++ r.pre) = ((seen ++ [d]) ++ k.pre) ++ r.pre := by simp
      rw [this] at hn; exact hn
    simp only [F.height] at hh
    have hhr : r.height ≤ n + 1 := by omega
    simp only [F.roots, List.foldl_cons]
    have hstep : gitStep w n (seen, out) d = ((seen ++ [d]) ++ k.pre, (out ++ [d]) ++ k.pre) := by
      unfold gitStep
      simp only [hdn, if_false, hd, if_true]
      cases n with
      | zero =>
        -- no depth left: then there is nothing below `d`
        have hk0 : k.height = 0 := by omega
        cases k with
        | nil => simp [gitLink, F.pre]
        | cons d' k' r' => exact absurd hk0 (by simp only [F.height]; omega)
      | succ m =>
        rw [gitLink_succ, hg]
        exact ihk m (seen ++ [d]) (out ++ [d]) huk hn2 (by omega)
    rw [hstep, ihr n ((seen ++ [d]) ++ k.pre) ((out ++ [d]) ++ k.pre) hur hn3 hhr]
    simp [F.pre]

/-- `roots ++ added` is a rearrangement of the pre-order -/
theorem roots_added_perm (f : F D) : (f.roots ++ f.added).Perm f.pre := by
  induction f with
  | nil => simp [F.roots, F.added, F.pre]
  | cons d k r ihk ihr =>
    simp only [F.roots, F.added, F.pre, List.cons_append]
    apply List.Perm.cons
    -- r.roots ++ (k.roots ++ (k.added ++ r.added))  ~  k.pre ++ r.pre
    have h1 : (r.roots ++ (k.roots ++ (k.added ++ r.added))).Perm ((k.roots ++ k.added) ++ (r.roots ++ r.added)) := by
      have e1 : r.roots ++ (k.roots ++ (k.added ++ r.added)) = r.roots ++ ((k.roots ++ k.added) ++ r.added) := by simp
      rw [e1]
      have e2 : (k.roots ++ k.added) ++ (r.roots ++ r.added) = ((k.roots ++ k.added) ++ r.roots) ++ r.added := by simp
      rw [e2, ← List.append_assoc]
      exact List.Perm.append_right _ List.perm_append_comm
    exact h1.trans (List.Perm.append ihk ihr)

/-! ### cycles: `resolve` never answers `ok` when a directory can reach itself -/

/-- `c` is named by the alternates file of `x` -/
def Edge (w : World D) (x c : D) : Prop := ∃ cs, w.kids x x = .ok cs ∧ c ∈ cs

inductive Reach (w : World D) : D → D → Prop where
  | refl (a : D) : Reach w a a
  | step {a b c : D} : Reach w a b → Edge w b c → Reach w a c

inductive ReachPlus (w : World D) : D → D → Prop where
  | one {a b : D} : Edge w a b → ReachPlus w a b
  | step {a b c : D} : ReachPlus w a b → Edge w b c → ReachPlus w a c

/-- `x` was remembered strictly before `c` -/
def Before (l : List D) (x c : D) : Prop := ∃ l1 l2 l3, l = l1 ++ x :: l2 ++ c :: l3

theorem Before.append {l : List D} {x c : D} (h : Before l x c) (t : List D) : Before (l ++ t) x c := by
  obtain ⟨l1, l2, l3, rfl⟩ := h
  exact ⟨l1, l2, l3 ++ t, by simp⟩

theorem split_unique (l1 l2 m1 m2 : List D) (b : D) (e : l1 ++ b :: l2 = m1 ++ b :: m2)
    (h1 : b ∉ l1) (h2 : b ∉ m1) : l1 = m1 := by
  induction l1 generalizing m1 with
  | nil =>
    cases m1 with
    | nil => rfl
    | cons x xs =>
      simp at e
      exact absurd (by simp [e.1]) h2
  | cons y ys ih =>
    cases m1 with
    | nil =>
      simp at e
      exact absurd (by simp [e.1]) h1
    | cons x xs =>
      simp at e
      rw [e.1, ih xs e.2 (fun h => h1 (by simp [h])) (fun h => h2 (by simp [h]))]

theorem Before.trans_nodup {l : List D} (hn : l.Nodup) {a b c : D} (h1 : Before l a b) (h2 : Before l b c) :
    Before l a c := by
  obtain ⟨l1, l2, l3, e1⟩ := h1
  obtain ⟨m1, m2, m3, e2⟩ := h2
  -- `b` occurs once: the two decompositions agree on where it is
  have hb : l1 ++ a :: l2 = m1 := by
    have e : (l1 ++ a :: l2) ++ b :: l3 = m1 ++ b :: (m2 ++ c :: m3) := by
      rw [← e1, e2]; simp
    have hnb1 : b ∉ l1 ++ a :: l2 := by
      intro hm
      have : l = (l1 ++ a :: l2) ++ b :: l3 := by rw [e1]
      rw [this, List.nodup_append] at hn
      exact hn.2.2 b hm b (by simp) rfl
    have hnb2 : b ∉ m1 := by
      intro hm
      have : l = m1 ++ (b :: (m2 ++ c :: m3)) := by rw [e2]; simp
      rw [this, List.nodup_append] at hn
      exact hn.2.2 b hm b (by simp) rfl
    exact split_unique _ _ _ _ b e hnb1 hnb2
  refine ⟨l1, l2 ++ b :: m2, m3, ?_⟩
  rw [e2, ← hb]; simp

theorem Before.irrefl_nodup {l : List D} (hn : l.Nodup) (a : D) : ¬ Before l a a := by
  intro ⟨l1, l2, l3, e⟩
  rw [e] at hn
  have : (l1 ++ a :: l2 ++ a :: l3) = l1 ++ (a :: (l2 ++ a :: l3)) := by simp
  rw [this, List.nodup_append] at hn
  have := hn.2.1
  rw [List.nodup_cons] at this
  exact this.1 (by simp)

/-- The invariant of the loop that an `ok` answer needs: `seen` has no repetition; everything
remembered is either visited (`out`) or waiting (`stack`); every visited directory's entries were
remembered after the directory itself. -/
structure LoopInv (w : World D) (stack seen out : List D) : Prop where
  nodup : seen.Nodup
  cover : ∀ x ∈ seen, x ∈ out ∨ x ∈ stack
  sub : ∀ x ∈ out, x ∈ seen
  subs : ∀ x ∈ stack, x ∈ seen
  edges : ∀ x ∈ out, ∀ c, Edge w x c → Before seen x c

theorem pushKids_nodup_of_some (seen cs seen' : List D) (hn : seen.Nodup)
    (h : pushKids seen cs = some seen') : seen'.Nodup := by
  induction cs generalizing seen with
  | nil => simp [pushKids] at h; rw [← h]; exact hn
  | cons c cs ih =>
    simp only [pushKids] at h
    split at h
    · cases h
    · rename_i hc
      apply ih (seen ++ [c]) _ h
      rw [List.nodup_append]
      refine ⟨hn, by simp, ?_⟩
      intro a ha b hb
      simp at hb
      subst hb
      intro e; subst e; exact hc ha

theorem loop_ok_inv (w : World D) : ∀ (n : Nat) (stack seen out res : List D),
    LoopInv w stack seen out → loop w n stack seen out = .ok res →
    ∃ seen', LoopInv w [] seen' res ∧ (∀ x ∈ seen, x ∈ seen') := by
  intro n
  induction n with
  | zero =>
    intro stack seen out res hi h
    cases stack with
    | nil => simp only [loop] at h; injection h with h; subst h; exact ⟨seen, hi, fun _ hx => hx⟩
    | cons d st => simp [loop] at h
  | succ n ih =>
    intro stack seen out res hi h
    cases stack with
    | nil => simp only [loop] at h; injection h with h; subst h; exact ⟨seen, hi, fun _ hx => hx⟩
    | cons d st =>
      simp only [loop] at h
      split at h
      · cases h
      · rename_i cs hk
        split at h
        · cases h
        · rename_i seen' hp
          obtain ⟨hs', hfresh⟩ := pushKids_some seen cs seen' hp
          have hdseen : d ∈ seen := hi.subs d (by simp)
          have hinv : LoopInv w (cs ++ st) seen' (out ++ [d]) := by
            refine ⟨pushKids_nodup_of_some seen cs seen' hi.nodup hp, ?_, ?_, ?_, ?_⟩
            · intro x hx
              rw [hs', List.mem_append] at hx
              cases hx with
              | inl hx =>
                cases hi.cover x hx with
                | inl ho => exact Or.inl (by simp [ho])
                | inr hst =>
                  cases hst with
                  | head => exact Or.inl (by simp)
                  | tail _ h' => exact Or.inr (List.mem_append_right _ h')
              | inr hx => exact Or.inr (by simp [hx])
            · intro x hx
              rw [List.mem_append] at hx
              rw [hs']
              cases hx with
              | inl hx => exact List.mem_append_left _ (hi.sub x hx)
              | inr hx => simp at hx; subst hx; exact List.mem_append_left _ hdseen
            · intro x hx
              rw [List.mem_append] at hx
              rw [hs']
              cases hx with
              | inl hx => exact List.mem_append_right _ hx
              | inr hx => exact List.mem_append_left _ (hi.subs x (by simp [hx]))
            · intro x hx c he
              rw [List.mem_append] at hx
              rw [hs']
              cases hx with
              | inl hx => exact (hi.edges x hx c he).append cs
              | inr hx =>
                simp at hx; subst hx
                obtain ⟨cs', hk', hc⟩ := he
                rw [hk] at hk'
                injection hk' with hk'
                subst hk'
                -- x ∈ seen, c ∈ cs: split both
                obtain ⟨s1, s2, rfl⟩ := List.append_of_mem hdseen
                obtain ⟨c1, c2, rfl⟩ := List.append_of_mem hc
                exact ⟨s1, s2 ++ c1, c2, by simp⟩
          obtain ⟨sf, hf, hsub⟩ := ih (cs ++ st) seen' (out ++ [d]) res hinv h
          exact ⟨sf, hf, fun x hx => hsub x (by rw [hs']; exact List.mem_append_left _ hx)⟩

theorem Before.mem {l : List D} {x c : D} (h : Before l x c) : x ∈ l ∧ c ∈ l := by
  obtain ⟨l1, l2, l3, rfl⟩ := h
  exact ⟨by simp, by simp⟩

/-! ### the loop terminates within `|U|` iterations on any closed set `U` of directories -/

structure FuelInv (U stack seen out : List D) : Prop where
  nodup : seen.Nodup
  nd2 : (out ++ stack).Nodup
  sub : ∀ x ∈ out ++ stack, x ∈ seen
  inU : ∀ x ∈ seen, x ∈ U

theorem loop_total (w : World D) (U : List D)
    (hclosed : ∀ x ∈ U, ∀ cs, w.kids x x = .ok cs → ∀ c ∈ cs, c ∈ U)
    (hok : ∀ x ∈ U, ∃ cs, w.kids x x = .ok cs) :
    ∀ (n : Nat) (stack seen out : List D), FuelInv U stack seen out → U.length < n + out.length →
      (∃ res, loop w n stack seen out = .ok res) ∨ loop w n stack seen out = .cycle := by
  intro n
  induction n with
  | zero =>
    intro stack seen out hi hlt
    cases stack with
    | nil => exact Or.inl ⟨out, by simp [loop]⟩
    | cons d st =>
      have h1 : (out ++ d :: st).length ≤ seen.length :=
        List.Nodup.length_le_of_subset hi.nd2 (fun x hx => hi.sub x hx)
      have h2 : seen.length ≤ U.length := List.Nodup.length_le_of_subset hi.nodup (fun x hx => hi.inU x hx)
      simp at h1
      omega
  | succ n ih =>
    intro stack seen out hi hlt
    cases stack with
    | nil => exact Or.inl ⟨out, by simp [loop]⟩
    | cons d st =>
      have hdseen : d ∈ seen := hi.sub d (by simp)
      have hdU : d ∈ U := hi.inU d hdseen
      obtain ⟨cs, hk⟩ := hok d hdU
      simp only [loop, hk]
      cases hp : pushKids seen cs with
      | none => exact Or.inr rfl
      | some seen' =>
        simp only
        obtain ⟨hs', hfresh⟩ := pushKids_some seen cs seen' hp
        have hnd' := pushKids_nodup_of_some seen cs seen' hi.nodup hp
        have hcsnd : cs.Nodup := by rw [hs'] at hnd'; exact (List.nodup_append.mp hnd').2.1
        apply ih (cs ++ st) seen' (out ++ [d])
        · refine ⟨hnd', ?_, ?_, ?_⟩
          · have hA : (out ++ [d] ++ st).Nodup := by
              have : out ++ d :: st = out ++ [d] ++ st := by simp
              rw [← this]; exact hi.nd2
            obtain ⟨hA1, hA2, hA3⟩ := List.nodup_append.mp hA
            rw [List.nodup_append]
            refine ⟨hA1, ?_, ?_⟩
            · rw [List.nodup_append]
              refine ⟨hcsnd, hA2, ?_⟩
              intro a ha b hb e
              subst e
              exact hfresh a ha (hi.sub a (by simp [hb]))
            · intro a ha b hb
              rw [List.mem_append] at hb
              cases hb with
              | inl hb =>
                intro e; subst e
                exact hfresh a hb (hi.sub a (by
                  rw [List.mem_append] at ha
                  cases ha with
                  | inl h => simp [h]
                  | inr h => simp at h; simp [h]))
              | inr hb => exact hA3 a ha b hb
          · intro x hx
            rw [hs']
            simp only [List.mem_append, List.mem_singleton] at hx ⊢
            rcases hx with (hx | hx) | (hx | hx)
            · exact Or.inl (hi.sub x (by simp [hx]))
            · exact Or.inl (by rw [hx]; exact hdseen)
            · exact Or.inr hx
            · exact Or.inl (hi.sub x (by simp [hx]))
          · intro x hx
            rw [hs', List.mem_append] at hx
            cases hx with
            | inl hx => exact hi.inU x hx
            | inr hx => exact hclosed d hdU cs hk x hx
        · simp; omega

end Generic
/-! ### concrete worlds and line descriptions used by the property statements -/

def demoWorld : World Nat where
  kids := fun base dir =>
    if dir = 0 then .ok [1, 2]
    else if dir = 1 then .ok [if base = 1 then 3 else 9]
    else .ok []
  gkids := fun dir => if dir = 0 then [1, 2] else if dir = 1 then [3] else []
  isDir := fun d => d < 4

def demoForest : F Nat := .cons 1 (.cons 3 .nil .nil) (.cons 2 .nil .nil)

-- a two-directory cycle 0 → 1 → 0 and a self reference: reported, with the hypotheses of `cycle_reported` met
def cycWorld : World Nat where
  kids := fun _ dir => if dir = 0 then .ok [1] else if dir = 1 then .ok [0] else .ok []
  gkids := fun _ => []
  isDir := fun _ => true

/-- what one line contributes -/
inductive LineKind where
  | blank
  | comment (text : Bytes)
  | plain (p : Bytes)
  | quoted (q : Bytes) (p : Bytes)

def LineKind.bytes : LineKind → Bytes
  | .blank => []
  | .comment t => 35 :: t
  | .plain p => p
  | .quoted q _ => q

def LineKind.entry : LineKind → Option Bytes
  | .blank => none
  | .comment _ => none
  | .plain p => some p
  | .quoted _ p => some p

/-- well-formedness of a line description: a plain entry is non-empty and starts with neither `#`
nor `"`; a quoted entry starts with `"` and `ansi_c::undo` turns it into `p` -/
def LineKind.Ok : LineKind → Prop
  | .blank => True
  | .comment _ => True
  | .plain p => ∃ b rest, p = b :: rest ∧ b ≠ 35 ∧ b ≠ 34
  | .quoted q p => (∃ rest, q = 34 :: rest) ∧ undoQuoted q = .ok p


/-- a file made of these lines, each terminated by a newline -/
def joinLines : List Bytes → Bytes
  | [] => []
  | l :: ls => l ++ 10 :: joinLines ls

/-- what git's parser additionally needs of a line: no raw newline (it is a line), no NUL (git
reads a C string), a quoted line is unquoted by `unquote_c_style` to the same non-empty bytes -/
def LineKind.GitOk : LineKind → Prop
  | .blank => True
  | .comment t => 10 ∉ t
  | .plain p => ∃ b rest, p = b :: rest ∧ b ≠ 35 ∧ b ≠ 34 ∧ b ≠ 0 ∧ b ≠ 10 ∧ 10 ∉ rest
  | .quoted q p => ∃ body, q = 34 :: body ∧ 10 ∉ body ∧ p ≠ [] ∧ undoQuoted q = .ok p ∧
      ∀ rest, gitUnquoteBody (body ++ 10 :: rest) = some (p, 10 :: rest)

theorem untilNl_append (t r : Bytes) (h : 10 ∉ t) : untilNl (t ++ 10 :: r) = (t, r) := by
  induction t with
  | nil => simp [untilNl]
  | cons b t ih =>
    have hb : b ≠ 10 := fun e => h (by simp [e])
    have ht : 10 ∉ t := fun m => h (by simp [m])
    simp [untilNl, hb, ih ht]

theorem splitNl_append (t r : Bytes) (h : 10 ∉ t) : splitNl (t ++ 10 :: r) = t :: splitNl r := by
  induction t with
  | nil => simp [splitNl]
  | cons b t ih =>
    have hb : b ≠ 10 := fun e => h (by simp [e])
    have ht : 10 ∉ t := fun m => h (by simp [m])
    simp [splitNl, hb, ih ht]

theorem LineKind.GitOk.noNl {l : LineKind} (h : l.GitOk) : 10 ∉ l.bytes := by
  cases l with
  | blank => simp [LineKind.bytes]
  | comment t => simp only [LineKind.bytes]; intro hm; cases hm with | tail _ hm => exact h hm
  | plain p =>
    obtain ⟨b, rest, rfl, _, _, _, hb, hr⟩ := h
    simp only [LineKind.bytes]
    intro hm
    cases hm with
    | head => exact hb rfl
    | tail _ hm => exact hr hm
  | quoted q p =>
    obtain ⟨body, rfl, hb, _⟩ := h
    simp only [LineKind.bytes]
    intro hm
    cases hm with
    | tail _ hm => exact hb hm

theorem splitNl_joinLines (ls : List LineKind) (h : ∀ l ∈ ls, l.GitOk) :
    splitNl (joinLines (ls.map LineKind.bytes)) = ls.map LineKind.bytes ++ [[]] := by
  induction ls with
  | nil => rfl
  | cons l ls ih =>
    simp only [List.map_cons, joinLines]
    rw [splitNl_append _ _ (h l (by simp)).noNl, ih (fun x hx => h x (by simp [hx]))]
    rfl

theorem LineKind.GitOk.ok {l : LineKind} (h : l.GitOk) : l.Ok := by
  cases l with
  | blank => trivial
  | comment t => trivial
  | plain p => obtain ⟨b, rest, e, h1, h2, _⟩ := h; exact ⟨b, rest, e, h1, h2⟩
  | quoted q p => obtain ⟨body, e, _, _, hu, _⟩ := h; exact ⟨⟨body, e⟩, hu⟩

theorem gitParse_joinLines (ls : List LineKind) (h : ∀ l ∈ ls, l.GitOk) :
    ∀ n, ls.length < n → gitParse n (joinLines (ls.map LineKind.bytes)) = ls.filterMap LineKind.entry := by
  induction ls with
  | nil => intro n hn; cases n with | zero => omega | succ n => rfl
  | cons l ls ih =>
    intro n hn
    cases n with
    | zero => omega
    | succ n =>
      have ih' := ih (fun x hx => h x (by simp [hx])) n (by simp at hn; omega)
      have hl := h l (by simp)
      simp only [List.map_cons, joinLines]
      cases l with
      | blank =>
        simp only [LineKind.bytes, List.nil_append, gitParse]
        simp [untilNl, ih', List.filterMap_cons, LineKind.entry]
      | comment t =>
        simp only [LineKind.bytes, List.cons_append, gitParse]
        simp [untilNl_append _ _ hl, ih', List.filterMap_cons, LineKind.entry]
      | plain p =>
        obtain ⟨b, rest, rfl, h1, h2, h3, h4, h5⟩ := hl
        simp only [LineKind.bytes, List.cons_append, gitParse]
        have hu : untilNl (b :: (rest ++ 10 :: joinLines (ls.map LineKind.bytes)))
            = (b :: rest, joinLines (ls.map LineKind.bytes)) := by
          have := untilNl_append (b :: rest) (joinLines (ls.map LineKind.bytes))
            (by intro hm; cases hm with | head => exact h4 rfl | tail _ hm => exact h5 hm)
          simpa using this
        simp [h1, h2, h3, hu, ih', LineKind.entry]
      | quoted q p =>
        obtain ⟨body, rfl, _, hp, _, hg⟩ := hl
        simp only [LineKind.bytes, List.cons_append, gitParse]
        have hpe : p.isEmpty = false := by cases p with | nil => exact absurd rfl hp | cons _ _ => rfl
        simp [hg, hpe, ih', LineKind.entry]

theorem gub_plain (b : UInt8) (r : Bytes) (h1 : b ≠ 34) (h2 : b ≠ 92) (h3 : b ≠ 0) :
    gitUnquoteBody (b :: r) = (gitUnquoteBody r).map fun (o, r') => (b :: o, r') := by
  rw [gitUnquoteBody.eq_def]
  simp [h1, h2, h3]

theorem gub_quote (r : Bytes) : gitUnquoteBody (34 :: r) = some ([], r) := by
  rw [gitUnquoteBody.eq_def]; simp

theorem gub_esc (n x : UInt8) (r : Bytes) (h : unescape n = some x) :
    gitUnquoteBody (92 :: n :: r) = (gitUnquoteBody r).map fun (o, r') => (x :: o, r') := by
  rw [gitUnquoteBody.eq_def]; simp [h]

end GixModel.C13
