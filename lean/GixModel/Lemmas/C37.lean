import GixModel.Model.C37
/-
C37 — helper lemmas: gitoxide's space trimming is git's; list / group / stack matching of the
model equals the loops of git's dir.c for any one-pattern matcher; the directory walk.
-/
namespace GixModel.C37
open GixModel GixModel.C36 GixModel.Spec.C37

theorem last_eq (last : Option Nat) (pos : Nat) :
    (if last.isSome then last else some pos) = (if last.isNone then some pos else last) := by
  cases last <;> rfl

theorem truncScan_eq (buf : Bytes) (pos : Nat) (last : Option Nat) :
    truncScan buf pos last = trimScan buf pos last := by
  fun_induction truncScan buf pos last with
  | case1 => rfl
  | case2 c r pos last h ih => conv => rhs; unfold trimScan
                               simp only [h, if_true]; rw [ih, last_eq]
  | case3 c pos last h1 h2 => conv => rhs; unfold trimScan
                              simp [h1, h2]
  | case4 c pos last h1 h2 a r' ih => conv => rhs; unfold trimScan
                                      simp [h1, h2, ih]
  | case5 c r pos last h1 h2 ih => conv => rhs; unfold trimScan
                                   simp [h1, h2, ih]

/-- `truncate_non_escaped_trailing_spaces` is git's `trim_trailing_spaces` -/
theorem truncate_eq_trim (buf : Bytes) : truncateNonEscapedTrailingSpaces buf = trimTrailingSpaces buf := by
  unfold truncateNonEscapedTrailingSpaces trimTrailingSpaces
  rw [truncScan_eq]
  cases trimScan buf 0 none with
  | none => rfl
  | some x => cases x <;> rfl


variable {α : Type} (matchOne : α → Bytes → Bytes → Bool → Bool) (neg : α → Bool)

theorem go_eq (path : Bytes) (isDir : Bool) (pl : PList α) :
    ∀ (ps : List (α × Nat)) (found : Option Hit),
      lastMatchingFromList.go matchOne neg path isDir pl ps found =
        ((ps.reverse.find? (fun pn => matchOne pn.1 pl.base path isDir)).map
          (fun pn => (⟨pl.source, pn.2, neg pn.1⟩ : Hit))).or found := by
  intro ps
  induction ps with
  | nil => intro found; simp [lastMatchingFromList.go]
  | cons x rest ih =>
    intro found
    obtain ⟨p, n⟩ := x
    simp only [lastMatchingFromList.go, ih, List.reverse_cons, List.find?_append]
    cases hr : rest.reverse.find? (fun pn => matchOne pn.1 pl.base path isDir) with
    | some y => simp
    | none =>
      by_cases hm : matchOne p pl.base path isDir = true
      · simp [hm]
      · simp [hm]

theorem listMatch_eq (path : Bytes) (isDir : Bool) (pl : PList α) :
    listMatch matchOne neg path isDir pl = lastMatchingFromList matchOne neg path isDir pl := by
  unfold listMatch lastMatchingFromList
  rw [go_eq]
  simp

theorem searchMatch_eq (path : Bytes) (isDir : Bool) (lists : List (PList α)) :
    searchMatch matchOne neg path isDir lists = lastMatchingFromGroup matchOne neg path isDir lists := by
  unfold searchMatch
  induction lists with
  | nil => simp [lastMatchingFromGroup]
  | cons pl rest ih =>
    simp only [List.reverse_cons, List.findSome?_append, lastMatchingFromGroup, ih]
    cases lastMatchingFromGroup matchOne neg path isDir rest with
    | some h => simp
    | none => simp [listMatch_eq]

theorem groupsMatch_eq (overrides stack globals : List (PList α)) (path : Bytes) (isDir : Bool) :
    groupsMatch matchOne neg overrides stack globals path isDir =
      lastMatchingFromLists matchOne neg overrides stack globals path isDir := by
  unfold groupsMatch lastMatchingFromLists
  simp only [List.reverse_cons, List.reverse_nil, List.nil_append, List.cons_append, List.findSome?_cons,
    List.findSome?_nil, searchMatch_eq]
  cases lastMatchingFromGroup matchOne neg path isDir overrides <;>
    cases lastMatchingFromGroup matchOne neg path isDir stack <;>
    cases lastMatchingFromGroup matchOne neg path isDir globals <;> rfl


/-- what `push_directory` records for every directory of the path (root excluded), top-down -/
def dirMatches (overrides globals : List (PList α)) : List (Bytes × PList α) → List (PList α) → List (Option Hit)
  | [], _ => []
  | (d, pl) :: rest, stack =>
    groupsMatch matchOne neg overrides stack globals d true :: dirMatches overrides globals rest (stack ++ [pl])

theorem pushDirectories_eq (overrides globals : List (PList α)) :
    ∀ (dirs : List (Bytes × PList α)) (stack : List (PList α)) (matched : List (Option Hit)),
      pushDirectories matchOne neg overrides globals dirs stack matched =
        (matched ++ dirMatches matchOne neg overrides globals dirs stack, stack ++ dirs.map (·.2)) := by
  intro dirs
  induction dirs with
  | nil => intro stack matched; simp [pushDirectories, dirMatches]
  | cons x rest ih =>
    intro stack matched
    obtain ⟨d, pl⟩ := x
    simp [pushDirectories, dirMatches, ih, List.append_assoc]

/-- the first (top-most) positive entry -/
def firstPositive : List (Option Hit) → Option Hit
  | [] => none
  | some h :: rest => if !h.negative then some h else firstPositive rest
  | none :: rest => firstPositive rest


theorem prepExclude_eq (cmdl file : List (PList α)) :
    ∀ (dirs : List (Bytes × PList α)) (loaded : List (PList α)),
      prepExclude matchOne neg cmdl file dirs loaded =
        match firstPositive (dirMatches matchOne neg cmdl file dirs loaded) with
        | some h => .inl h
        | none => .inr (loaded ++ dirs.map (·.2)) := by
  intro dirs
  induction dirs with
  | nil => intro loaded; simp [prepExclude, dirMatches, firstPositive]
  | cons x rest ih =>
    intro loaded
    obtain ⟨d, pl⟩ := x
    simp only [prepExclude, dirMatches, groupsMatch_eq]
    cases hm : lastMatchingFromLists matchOne neg cmdl loaded file d true with
    | none => simp [firstPositive, ih, List.append_assoc]
    | some h =>
      by_cases hn : h.negative = true
      · simp [firstPositive, hn, ih, List.append_assoc]
      · simp [firstPositive, hn]

/-- excluded = matched by a positive pattern -/
def isExcluded : Option Hit → Bool
  | some h => !h.negative
  | none => false

theorem choose_of_firstPositive_some : ∀ (ms : List (Option Hit)) (h : Hit),
    firstPositive ms = some h → ∃ h', chooseDirMatch ms = some h' ∧ h'.negative = false := by
  intro ms
  induction ms with
  | nil => intro h hf; simp [firstPositive] at hf
  | cons m rest ih =>
    intro h hf
    cases hc : chooseDirMatch rest with
    | some best =>
      by_cases hb : best.negative = true
      · -- the deeper ones are all negative: then the positive one is `m`
        cases m with
        | none =>
          simp [firstPositive] at hf
          obtain ⟨h', h1, h2⟩ := ih h hf
          rw [hc] at h1; cases h1; rw [hb] at h2; cases h2
        | some hm =>
          by_cases hmn : hm.negative = true
          · simp [firstPositive, hmn] at hf
            obtain ⟨h', h1, h2⟩ := ih h hf
            rw [hc] at h1; cases h1; rw [hb] at h2; cases h2
          · exact ⟨hm, by simp [chooseDirMatch, hc, hb, hmn], by simpa using hmn⟩
      · exact ⟨best, by simp [chooseDirMatch, hc, hb], by simpa using hb⟩
    | none =>
      cases m with
      | none =>
        simp [firstPositive] at hf
        obtain ⟨h', h1, _⟩ := ih h hf
        rw [hc] at h1; cases h1
      | some hm =>
        by_cases hmn : hm.negative = true
        · simp [firstPositive, hmn] at hf
          obtain ⟨h', h1, _⟩ := ih h hf
          rw [hc] at h1; cases h1
        · exact ⟨hm, by simp [chooseDirMatch, hc], by simpa using hmn⟩

theorem choose_of_firstPositive_none : ∀ (ms : List (Option Hit)),
    firstPositive ms = none → chooseDirMatch ms = none ∨ ∃ h', chooseDirMatch ms = some h' ∧ h'.negative = true := by
  intro ms
  induction ms with
  | nil => intro _; left; rfl
  | cons m rest ih =>
    intro hf
    have hrest : firstPositive rest = none := by
      cases m with
      | none => simpa [firstPositive] using hf
      | some hm =>
        by_cases hmn : hm.negative = true
        · simpa [firstPositive, hmn] using hf
        · simp [firstPositive, hmn] at hf
    have hm_neg : ∀ hm, m = some hm → hm.negative = true := by
      intro hm e
      subst e
      by_cases hmn : hm.negative = true
      · exact hmn
      · simp [firstPositive, hmn] at hf
    rcases ih hrest with hc | ⟨best, hc, hb⟩
    · cases m with
      | none => left; simp [chooseDirMatch, hc]
      | some hm => right; exact ⟨hm, by simp [chooseDirMatch, hc], hm_neg hm rfl⟩
    · right
      refine ⟨best, ?_, hb⟩
      cases m with
      | none => simp [chooseDirMatch, hc, hb]
      | some hm => simp [chooseDirMatch, hc, hb, hm_neg hm rfl]

/-- The decision agrees with git for ANY one-pattern matcher. -/
theorem excluded_eq (overrides globals : List (PList α)) (rootList : PList α)
    (dirs : List (Bytes × PList α)) (path : Bytes) (isDir : Bool) :
    isExcluded (decide matchOne neg overrides globals rootList dirs path isDir) =
      isExcluded (gitDecide matchOne neg overrides globals rootList dirs path isDir) := by
  unfold decide gitDecide
  rw [pushDirectories_eq, prepExclude_eq]
  simp only [List.nil_append]
  cases hf : firstPositive (dirMatches matchOne neg overrides globals dirs [rootList]) with
  | some h =>
    obtain ⟨h', h1, h2⟩ := choose_of_firstPositive_some _ h hf
    have hpos : h.negative = false := by
      -- firstPositive only returns positive hits
      have : ∀ (ms : List (Option Hit)) (h : Hit), firstPositive ms = some h → h.negative = false := by
        intro ms
        induction ms with
        | nil => intro h e; simp [firstPositive] at e
        | cons m rest ih =>
          intro h e
          cases m with
          | none => exact ih h (by simpa [firstPositive] using e)
          | some hm =>
            by_cases hmn : hm.negative = true
            · exact ih h (by simpa [firstPositive, hmn] using e)
            · simp [firstPositive, hmn] at e; subst e; simpa using hmn
      exact this _ h hf
    simp [h1, h2, isExcluded, hpos]
  | none =>
    rcases choose_of_firstPositive_none _ hf with hc | ⟨h', hc, hn⟩
    · simp [hc, groupsMatch_eq]
    · simp only [hc, hn, groupsMatch_eq]
      cases lastMatchingFromLists matchOne neg overrides ([rootList] ++ dirs.map (·.2)) globals path isDir with
      | some x => simp [isExcluded]
      | none => simp [isExcluded, hn]



theorem firstPositive_mem : ∀ (ms : List (Option Hit)) (h : Hit),
    firstPositive ms = some h → some h ∈ ms ∧ h.negative = false := by
  intro ms
  induction ms with
  | nil => intro h e; simp [firstPositive] at e
  | cons m rest ih =>
    intro h e
    cases m with
    | none =>
      obtain ⟨h1, h2⟩ := ih h (by simpa [firstPositive] using e)
      exact ⟨by simp [h1], h2⟩
    | some hm =>
      by_cases hmn : hm.negative = true
      · obtain ⟨h1, h2⟩ := ih h (by simpa [firstPositive, hmn] using e)
        exact ⟨by simp [h1], h2⟩
      · simp [firstPositive, hmn] at e; subst e; exact ⟨by simp, by simpa using hmn⟩

theorem choose_mem : ∀ (ms : List (Option Hit)) (h : Hit), chooseDirMatch ms = some h → some h ∈ ms := by
  intro ms
  induction ms with
  | nil => intro h e; simp [chooseDirMatch] at e
  | cons m rest ih =>
    intro h e
    cases hc : chooseDirMatch rest with
    | none => simp [chooseDirMatch, hc] at e; simp [e]
    | some best =>
      have hb := ih best hc
      by_cases hbn : best.negative = true
      · cases m with
        | none => simp [chooseDirMatch, hc, hbn] at e; subst e; simp [hb]
        | some hm =>
          by_cases hmn : hm.negative = true
          · simp [chooseDirMatch, hc, hbn, hmn] at e; subst e; simp [hb]
          · simp [chooseDirMatch, hc, hbn, hmn] at e; subst e; simp
      · simp [chooseDirMatch, hc, hbn] at e; subst e; simp [hb]

/-- The reported pattern: identical to git's whenever at most one positive directory match exists
(e.g. at most one excluded directory on the way); otherwise both report a positive pattern. When
nothing excludes the path, gitoxide may additionally report a negative pattern that matched a
parent directory where git reports nothing (documented upstream). -/
theorem hit_eq (overrides globals : List (PList α)) (rootList : PList α)
    (dirs : List (Bytes × PList α)) (path : Bytes) (isDir : Bool)
    (huniq : ∀ h1 h2 : Hit, some h1 ∈ dirMatches matchOne neg overrides globals dirs [rootList] →
      some h2 ∈ dirMatches matchOne neg overrides globals dirs [rootList] →
      h1.negative = false → h2.negative = false → h1 = h2) :
    decide matchOne neg overrides globals rootList dirs path isDir =
        gitDecide matchOne neg overrides globals rootList dirs path isDir
    ∨ (gitDecide matchOne neg overrides globals rootList dirs path isDir = none
        ∧ ∃ h, decide matchOne neg overrides globals rootList dirs path isDir = some h ∧ h.negative = true) := by
  unfold decide gitDecide
  rw [pushDirectories_eq, prepExclude_eq]
  simp only [List.nil_append]
  cases hf : firstPositive (dirMatches matchOne neg overrides globals dirs [rootList]) with
  | some h =>
    obtain ⟨h', h1, h2⟩ := choose_of_firstPositive_some _ h hf
    obtain ⟨hm, hp⟩ := firstPositive_mem _ h hf
    have := huniq h h' hm (choose_mem _ h' h1) hp h2
    subst this
    left
    simp [h1, h2]
  | none =>
    rcases choose_of_firstPositive_none _ hf with hc | ⟨h', hc, hn⟩
    · left; simp [hc, groupsMatch_eq]
    · simp only [hc, hn, groupsMatch_eq]
      cases hl : lastMatchingFromLists matchOne neg overrides ([rootList] ++ dirs.map (·.2)) globals path isDir with
      | some x => left; simp
      | none => right; exact ⟨rfl, h', by simp, hn⟩



/-! ### parsing one line -/

theorem take_len_sub_one (p : Bytes) : p.take (p.length - 1) = p.dropLast := by
  rw [List.dropLast_eq_take]

theorem getLast?_cons_ne (c : UInt8) (r : Bytes) (h : r ≠ []) : (c :: r).getLast? = r.getLast? := by
  cases r with
  | nil => exact absurd rfl h
  | cons a b => simp [List.getLast?_cons_cons]

theorem dropLast_cons_ne (c : UInt8) (r : Bytes) (h : r ≠ []) : (c :: r).dropLast = c :: r.dropLast := by
  cases r with
  | nil => exact absurd rfl h
  | cons a b => simp

/-- stages 2–4 of `parse::pattern` (leading `/`, trailing `/`, flags) against git's treatment of the same bytes -/
theorem stage_a (p1 : Bytes) (hne : p1 ≠ []) (negative : Bool) :
    let x := mkPattern negative (stripAbsolute p1).1 (stripMustBeDir (stripAbsolute p1).2).1
      (stripMustBeDir (stripAbsolute p1).2).2
    let mustBeDir := p1.getLast? == some 47
    let len := if mustBeDir then p1.length - 1 else p1.length
    (x.text = [] ∧ (p1.take len = [] ∨ p1.take len = [47])) ∨
      (x.mode.mustBeDir = mustBeDir ∧
        (if x.mode.absolute then p1.take len = 47 :: x.text
         else p1.take len = x.text ∧ x.text.head? ≠ some 47)) := by
  intro x mustBeDir len
  cases p1 with
  | nil => exact absurd rfl hne
  | cons c r2 =>
    by_cases hc : c = 47
    · subst hc
      cases hr : r2 with
      | nil =>
        left
        simp [x, len, mustBeDir, mkPattern, stripAbsolute, stripMustBeDir, hr]
      | cons a b =>
        have hne2 : r2 ≠ [] := by simp [hr]
        right
        have hl : ((47 : UInt8) :: r2).getLast? = r2.getLast? := getLast?_cons_ne 47 r2 hne2
        by_cases hlast : r2.getLast? = some 47
        · have hd : ((47 : UInt8) :: r2).dropLast = 47 :: r2.dropLast := dropLast_cons_ne 47 r2 hne2
          rw [← hr]
          simp [x, len, mustBeDir, mkPattern, stripAbsolute, stripMustBeDir, hl, hlast]
          rw [← hd, List.dropLast_eq_take]; simp
        · rw [← hr]
          simp [x, len, mustBeDir, mkPattern, stripAbsolute, stripMustBeDir, hl, hlast]
    · right
      have hsa : stripAbsolute (c :: r2) = (false, c :: r2) := by
        unfold stripAbsolute
        split
        · rename_i heq; simp at heq; exact absurd heq.1 hc
        · rfl
      by_cases hlast : (c :: r2).getLast? = some 47
      · have hr2 : r2 ≠ [] := by
          intro e; subst e; simp at hlast; exact hc hlast
        have hd := dropLast_cons_ne c r2 hr2
        simp [x, len, mustBeDir, mkPattern, hsa, stripMustBeDir, hlast]
        refine ⟨?_, ?_⟩
        · rw [List.dropLast_eq_take]; simp
        · rw [hd]; simpa using hc
      · simp [x, len, mustBeDir, mkPattern, hsa, stripMustBeDir, hlast]
        exact hc


/-- the line starts with `\!` or `\#`: gitoxide drops the backslash when parsing, git leaves it to wildmatch -/
def escapedStart : Bytes → Bool
  | 92 :: 33 :: _ => true
  | 92 :: 35 :: _ => true
  | _ => false

/-- how a parsed gitoxide pattern `x` corresponds to git's pattern `g` of the same trimmed line `e` -/
structure Corr (e : Bytes) (g : Spec.C37.Pattern) (x : C36.Pattern) : Prop where
  negative : x.mode.negative = g.negative
  shape : (x.text = [] ∧ (g.pattern = [] ∨ g.pattern = [47])) ∨
    (x.mode.mustBeDir = g.mustBeDir ∧
      (if escapedStart e then x.mode.absolute = false ∧ g.pattern = 92 :: x.text
       else if x.mode.absolute then g.pattern = 47 :: x.text
       else g.pattern = x.text ∧ x.text.head? ≠ some 47))

/-- git's `parse_path_pattern` on bytes that do not start with `!` -/
theorem stripBang_plain (p : Bytes) (h : p.head? ≠ some 33) : stripBang p = (false, p) := by
  unfold stripBang
  split
  · simp at h
  · rfl

theorem parsePathPattern_plain (p : Bytes) (h : p.head? ≠ some 33) :
    (parsePathPattern p).negative = false ∧
    (parsePathPattern p).mustBeDir = (p.getLast? == some 47) ∧
    (parsePathPattern p).pattern = p.take (if (p.getLast? == some 47) then p.length - 1 else p.length) := by
  unfold parsePathPattern
  simp [stripBang_plain p h]

theorem parsePathPattern_bang (r : Bytes) :
    (parsePathPattern (33 :: r)).negative = true ∧
    (parsePathPattern (33 :: r)).mustBeDir = (r.getLast? == some 47) ∧
    (parsePathPattern (33 :: r)).pattern = r.take (if (r.getLast? == some 47) then r.length - 1 else r.length) := by
  unfold parsePathPattern
  simp [stripBang]

theorem corr_of_stage_a (e p1 : Bytes) (negative : Bool) (hne : p1 ≠ []) (hesc : escapedStart e = false)
    (g : Spec.C37.Pattern) (hneg : g.negative = negative)
    (hdir : g.mustBeDir = (p1.getLast? == some 47))
    (hpat : g.pattern = p1.take (if (p1.getLast? == some 47) then p1.length - 1 else p1.length)) :
    Corr e g (mkPattern negative (stripAbsolute p1).1 (stripMustBeDir (stripAbsolute p1).2).1
      (stripMustBeDir (stripAbsolute p1).2).2) := by
  have h := stage_a p1 hne negative
  simp only at h
  refine ⟨by simp [mkPattern, hneg], ?_⟩
  rw [hesc, hdir, hpat]
  simpa using h

/-- the core: `gix_glob::parse::pattern(e, true)` against `parse_path_pattern(e)` -/
theorem parsePattern_corr (e : Bytes) :
    match parsePattern e true with
    | some x => Corr e (parsePathPattern e) x
    | none => (parsePathPattern e).pattern = [] ∨
        (∃ p1, p1 ≠ [] ∧ p1.all isAsciiWhitespace = true ∧ (e = p1 ∨ e = 33 :: p1)) := by
  unfold parsePattern
  cases e with
  | nil => simp [parsePathPattern, stripBang]
  | cons c r =>
    simp only [List.isEmpty_cons, Bool.false_eq_true, if_false]
    by_cases hc33 : c = 33
    · -- negated
      subst hc33
      obtain ⟨g1, g2, g3⟩ := parsePathPattern_bang r
      have hs : stripNegation (33 :: r) true = (true, r) := by simp [stripNegation]
      simp only [hs]
      by_cases hws : r.all isAsciiWhitespace = true
      · simp only [hws, if_true]
        by_cases hr : r = []
        · left; rw [g3, hr]; simp
        · right; exact ⟨r, hr, hws, Or.inr rfl⟩
      · simp only [hws, Bool.false_eq_true, if_false]
        have hr : r ≠ [] := by intro e; subst e; simp at hws
        exact corr_of_stage_a (33 :: r) r true hr (by simp [escapedStart]) _ g1 g2 g3
    · by_cases hesc : escapedStart (c :: r) = true
      · -- `\!` or `\#`
        have : ∃ s r', (s = 33 ∨ s = 35) ∧ c = 92 ∧ r = s :: r' := by
          unfold escapedStart at hesc
          split at hesc
          · rename_i r' heq; simp at heq; exact ⟨33, r', Or.inl rfl, heq.1, heq.2⟩
          · rename_i r' heq; simp at heq; exact ⟨35, r', Or.inr rfl, heq.1, heq.2⟩
          · cases hesc
        obtain ⟨s, r', hs, hc, hr⟩ := this
        subst hc hr
        have hsn : stripNegation (92 :: s :: r') true = (false, s :: r') := by
          rcases hs with h | h <;> subst h <;> simp [stripNegation]
        have hnws : (s :: r').all isAsciiWhitespace = false := by
          rcases hs with h | h <;> subst h <;> simp [isAsciiWhitespace]
        simp only [hsn, hnws, Bool.false_eq_true, if_false]
        obtain ⟨g1, g2, g3⟩ := parsePathPattern_plain (92 :: s :: r') (by simp)
        have hs47 : s ≠ 47 := by rcases hs with h | h <;> subst h <;> decide
        have hl : ((92 : UInt8) :: s :: r').getLast? = (s :: r').getLast? := getLast?_cons_ne 92 (s :: r') (by simp)
        have h := stage_a (s :: r') (by simp) false
        simp only at h
        have hsa : stripAbsolute (s :: r') = (false, s :: r') := by
          unfold stripAbsolute
          split
          · rename_i heq; simp at heq; exact absurd heq.1 hs47
          · rfl
        refine ⟨by simp [mkPattern, g1], ?_⟩
        right
        rw [hesc]
        simp only [if_true]
        rw [g2, g3, hl]
        rcases h with ⟨hx, _⟩ | ⟨hd, hrest⟩
        · -- x.text = [] is impossible here: the text starts with `s`
          exfalso
          simp only [hsa, mkPattern, stripMustBeDir] at hx
          split at hx
          · rename_i hlast
            have : r' ≠ [] := by
              intro e; subst e; simp at hlast; exact hs47 hlast
            rw [dropLast_cons_ne s r' this] at hx; simp at hx
          · simp at hx
        · simp only [hsa, mkPattern] at hd hrest ⊢
          refine ⟨hd, ?_⟩
          simp only [Bool.false_eq_true, if_false] at hrest
          refine ⟨trivial, ?_⟩
          rw [← hrest.1]
          by_cases hlast : (s :: r').getLast? = some 47
          · simp [hlast]
          · simp [hlast]
      · -- nothing special in front
        simp only [Bool.not_eq_true] at hesc
        have hsn : stripNegation (c :: r) true = (false, c :: r) := by
          unfold stripNegation
          simp only [if_true]
          split
          · rename_i heq; simp at heq; exact absurd heq.1 hc33
          · rename_i r' heq; simp at heq; obtain ⟨h1, h2⟩ := heq; subst h1 h2; simp [escapedStart] at hesc
          · rename_i r' heq; simp at heq; obtain ⟨h1, h2⟩ := heq; subst h1 h2; simp [escapedStart] at hesc
          · rfl
        simp only [hsn]
        obtain ⟨g1, g2, g3⟩ := parsePathPattern_plain (c :: r) (by simpa using hc33)
        by_cases hws : (c :: r).all isAsciiWhitespace = true
        · simp only [hws, if_true]
          right; exact ⟨c :: r, by simp, hws, Or.inl rfl⟩
        · simp only [hws, Bool.false_eq_true, if_false]
          exact corr_of_stage_a (c :: r) (c :: r) false (by simp) hesc _ g1 g2 g3


/-- lines that use gitoxide's precious-file syntax (`$…`, `\$…`, `!$…`) — git reads them literally -/
def DollarLine : Bytes → Bool
  | 36 :: _ => true
  | 92 :: 36 :: _ => true
  | 33 :: 36 :: _ => true
  | _ => false

theorem parseLine_plain (l : Bytes) (hd : DollarLine l = false) (hne : l ≠ []) (hc : l.head? ≠ some 35) :
    parseLine l = (parsePattern (truncateNonEscapedTrailingSpaces l) true).map (fun p => (p, Kind.expendable)) := by
  cases l with
  | nil => exact absurd rfl hne
  | cons first rest =>
    have h35 : first ≠ 35 := by simpa using hc
    have h36 : first ≠ 36 := by
      intro e; subst e; simp [DollarLine] at hd
    have hsec : ¬ ((first = 33 ∨ first = 92) ∧ rest.head? = some 36) := by
      intro ⟨h1, h2⟩
      cases rest with
      | nil => simp at h2
      | cons s r =>
        simp at h2; subst h2
        rcases h1 with e | e <;> subst e <;> simp [DollarLine] at hd
    rw [parseLine.eq_3 first rest (by intro e; exact h35 e)]
    simp only [h36, beq_iff_eq, if_false]
    have c1 : ¬ (first = 33 ∧ rest.head? = some 36) := fun h => hsec ⟨Or.inl h.1, h.2⟩
    have c2 : ¬ (first = 92 ∧ rest.head? = some 36) := fun h => hsec ⟨Or.inr h.1, h.2⟩
    simp only [Bool.and_eq_true, beq_iff_eq, c1, c2, if_false, Bool.false_eq_true]
    cases parsePattern (truncateNonEscapedTrailingSpaces (first :: rest)) true <;> rfl



/-! ### closed forms of the two decisions -/

/-- the deepest positive entry -/
def lastPositive : List (Option Hit) → Option Hit
  | [] => none
  | m :: rest =>
    match lastPositive rest with
    | some h => some h
    | none => match m with
      | some h => if !h.negative then some h else none
      | none => none

/-- the deepest entry at all -/
def lastSome : List (Option Hit) → Option Hit
  | [] => none
  | m :: rest =>
    match lastSome rest with
    | some h => some h
    | none => m

/-- `chooseDirMatch` (the fold of `matching_exclude_pattern`) in closed form -/
theorem choose_closed : ∀ (ms : List (Option Hit)),
    chooseDirMatch ms = (match lastPositive ms with
      | some h => some h
      | none => lastSome ms) ∧
    (lastPositive ms = none → ∀ h, lastSome ms = some h → h.negative = true) ∧
    (∀ h, lastPositive ms = some h → h.negative = false) := by
  intro ms
  induction ms with
  | nil => simp [chooseDirMatch, lastPositive, lastSome]
  | cons m rest ih =>
    obtain ⟨ih1, ih2, ih3⟩ := ih
    cases hp : lastPositive rest with
    | some hpos =>
      have hn := ih3 hpos hp
      rw [hp] at ih1
      refine ⟨?_, ?_, ?_⟩
      · simp [chooseDirMatch, ih1, hn, lastPositive, hp]
      · intro h; simp [lastPositive, hp] at h
      · intro h e; simp [lastPositive, hp] at e; subst e; exact hn
    | none =>
      rw [hp] at ih1
      simp only at ih1
      cases hs : lastSome rest with
      | none =>
        rw [hs] at ih1
        cases m with
        | none => simp [chooseDirMatch, ih1, lastPositive, hp, lastSome, hs]
        | some hm =>
          by_cases hmn : hm.negative = true
          · simp [chooseDirMatch, ih1, lastPositive, hp, lastSome, hs, hmn]
          · simp [chooseDirMatch, ih1, lastPositive, hp, lastSome, hs, hmn]
      | some hd =>
        rw [hs] at ih1
        have hdn := ih2 hp hd hs
        cases m with
        | none => simp [chooseDirMatch, ih1, lastPositive, hp, lastSome, hs, hdn]
        | some hm =>
          by_cases hmn : hm.negative = true
          · simp [chooseDirMatch, ih1, lastPositive, hp, lastSome, hs, hdn, hmn]
          · simp [chooseDirMatch, ih1, lastPositive, hp, lastSome, hs, hdn, hmn]



theorem lastPositive_isSome (ms : List (Option Hit)) : (lastPositive ms).isSome = (firstPositive ms).isSome := by
  induction ms with
  | nil => rfl
  | cons m rest ih =>
    cases m with
    | none => simp only [lastPositive, firstPositive]; cases h : lastPositive rest <;> simp [h] at ih ⊢ <;> exact ih
    | some hm =>
      by_cases hmn : hm.negative = true
      · simp only [lastPositive, firstPositive, hmn]
        cases h : lastPositive rest <;> simp [h] at ih ⊢ <;> exact ih
      · simp only [lastPositive, firstPositive, hmn]
        cases h : lastPositive rest <;> simp

/-- what gitoxide reports, in closed form: the pattern of the DEEPEST excluded directory, else what
matches the path itself, else the deepest negative directory match -/
theorem decide_closed (overrides globals : List (PList α)) (rootList : PList α)
    (dirs : List (Bytes × PList α)) (path : Bytes) (isDir : Bool) :
    C37.decide matchOne neg overrides globals rootList dirs path isDir =
      match lastPositive (dirMatches matchOne neg overrides globals dirs [rootList]) with
      | some h => some h
      | none => (lastMatchingFromLists matchOne neg overrides ([rootList] ++ dirs.map (·.2)) globals path isDir).or
          (lastSome (dirMatches matchOne neg overrides globals dirs [rootList])) := by
  unfold C37.decide
  rw [pushDirectories_eq]
  simp only [List.nil_append]
  obtain ⟨h1, h2, h3⟩ := choose_closed (dirMatches matchOne neg overrides globals dirs [rootList])
  rw [h1]
  cases hp : lastPositive (dirMatches matchOne neg overrides globals dirs [rootList]) with
  | some h => simp [h3 h hp]
  | none =>
    simp only [groupsMatch_eq]
    cases hs : lastSome (dirMatches matchOne neg overrides globals dirs [rootList]) with
    | none => simp
    | some h => simp [h2 hp h hs]

/-- what git reports, in closed form: the pattern of the TOP-MOST excluded directory, else what matches the path itself -/
theorem gitDecide_closed (overrides globals : List (PList α)) (rootList : PList α)
    (dirs : List (Bytes × PList α)) (path : Bytes) (isDir : Bool) :
    gitDecide matchOne neg overrides globals rootList dirs path isDir =
      match firstPositive (dirMatches matchOne neg overrides globals dirs [rootList]) with
      | some h => some h
      | none => lastMatchingFromLists matchOne neg overrides ([rootList] ++ dirs.map (·.2)) globals path isDir := by
  unfold gitDecide
  rw [prepExclude_eq]
  cases firstPositive (dirMatches matchOne neg overrides globals dirs [rootList]) <;> rfl

/-- EXACTLY when the two reports coincide: the deepest and the top-most excluded directory are matched
by the same pattern, and — when no directory is excluded and nothing matches the path itself — no
negative pattern matched a directory on the way. No side condition. -/
theorem decide_eq_git_iff' (overrides globals : List (PList α)) (rootList : PList α)
    (dirs : List (Bytes × PList α)) (path : Bytes) (isDir : Bool) :
    C37.decide matchOne neg overrides globals rootList dirs path isDir =
        gitDecide matchOne neg overrides globals rootList dirs path isDir ↔
      (lastPositive (dirMatches matchOne neg overrides globals dirs [rootList]) =
          firstPositive (dirMatches matchOne neg overrides globals dirs [rootList]) ∧
        (firstPositive (dirMatches matchOne neg overrides globals dirs [rootList]) = none →
          lastMatchingFromLists matchOne neg overrides ([rootList] ++ dirs.map (·.2)) globals path isDir = none →
          lastSome (dirMatches matchOne neg overrides globals dirs [rootList]) = none)) := by
  rw [decide_closed, gitDecide_closed]
  have hs := lastPositive_isSome (dirMatches matchOne neg overrides globals dirs [rootList])
  cases hl : lastPositive (dirMatches matchOne neg overrides globals dirs [rootList]) with
  | some a =>
    cases hf : firstPositive (dirMatches matchOne neg overrides globals dirs [rootList]) with
    | none => rw [hl, hf] at hs; cases hs
    | some b => simp
  | none =>
    cases hf : firstPositive (dirMatches matchOne neg overrides globals dirs [rootList]) with
    | some b => rw [hl, hf] at hs; cases hs
    | none =>
      simp only [true_and, forall_const]
      cases hp : lastMatchingFromLists matchOne neg overrides ([rootList] ++ dirs.map (·.2)) globals path isDir with
      | some x => simp
      | none => simp


end GixModel.C37
