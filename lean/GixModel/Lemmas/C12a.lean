import GixModel.Model.C12Core
/-
C12 — inversion lemmas: what `step s ev = some s'` means, event by event (the guards that held and
the state that results), so that the invariant proofs never have to unfold `step` again.
-/
namespace GixModel.C12

@[simp] theorem setPackAt_ident (b : Bundle) (j : Nat) (st : LoadSt) : (b.setPackAt j st).ident = b.ident := by
  cases j <;> rfl
@[simp] theorem setPackAt_stamp (b : Bundle) (j : Nat) (st : LoadSt) : (b.setPackAt j st).stamp = b.stamp := by
  cases j <;> rfl
@[simp] theorem setPackAt_file (b : Bundle) (j : Nat) (st : LoadSt) : (b.setPackAt j st).file = b.file := by
  cases j <;> rfl
@[simp] theorem setPackAt_multi (b : Bundle) (j : Nat) (st : LoadSt) : (b.setPackAt j st).multi = b.multi := by
  cases j <;> rfl
@[simp] theorem setPackAt_idx (b : Bundle) (j : Nat) (st : LoadSt) : (b.setPackAt j st).idx = b.idx := by
  cases j <;> rfl
theorem mem_entriesOf {k : Nat} {b : Bundle} {e : Entry} (h : e ∈ entriesOf k b) :
    e.slot = k ∧ e.id = b.ident ∧ e.multi = b.multi ∧ ∀ p, e.pack = some p → p = b.ident := by
  simp only [entriesOf, List.mem_map] at h
  obtain ⟨j, _, rfl⟩ := h
  refine ⟨rfl, rfl, rfl, ?_⟩
  intro p hp
  simp only [entryAt] at hp
  split at hp
  · cases hp; rfl
  · cases hp
@[simp] theorem setSlot_slots (s : Sys) (k : Nat) (sl : Slot) (j : Nat) :
    (s.setSlot k sl).slots j = if j = k then sl else s.slots j := rfl
@[simp] theorem setSlot_handles (s : Sys) (k : Nat) (sl : Slot) : (s.setSlot k sl).handles = s.handles := rfl
@[simp] theorem setSlot_pubGen (s : Sys) (k : Nat) (sl : Slot) : (s.setSlot k sl).pubGen = s.pubGen := rfl
@[simp] theorem setSlot_pubSlots (s : Sys) (k : Nat) (sl : Slot) : (s.setSlot k sl).pubSlots = s.pubSlots := rfl
@[simp] theorem setSlot_cons (s : Sys) (k : Nat) (sl : Slot) : (s.setSlot k sl).cons = s.cons := rfl
@[simp] theorem setSlot_cfg (s : Sys) (k : Nat) (sl : Slot) : (s.setSlot k sl).cfg = s.cfg := rfl
@[simp] theorem setSlot_rets (s : Sys) (k : Nat) (sl : Slot) : (s.setSlot k sl).rets = s.rets := rfl
@[simp] theorem setSlot_panicked (s : Sys) (k : Nat) (sl : Slot) : (s.setSlot k sl).panicked = s.panicked := rfl
@[simp] theorem setHandle_handles (s : Sys) (h : Nat) (hd : Handle) (j : Nat) :
    (s.setHandle h hd).handles j = if j = h then hd else s.handles j := rfl
@[simp] theorem setHandle_slots (s : Sys) (h : Nat) (hd : Handle) : (s.setHandle h hd).slots = s.slots := rfl
@[simp] theorem setHandle_pubGen (s : Sys) (h : Nat) (hd : Handle) : (s.setHandle h hd).pubGen = s.pubGen := rfl
@[simp] theorem setHandle_pubSlots (s : Sys) (h : Nat) (hd : Handle) : (s.setHandle h hd).pubSlots = s.pubSlots := rfl
@[simp] theorem setHandle_cons (s : Sys) (h : Nat) (hd : Handle) : (s.setHandle h hd).cons = s.cons := rfl
@[simp] theorem setHandle_cfg (s : Sys) (h : Nat) (hd : Handle) : (s.setHandle h hd).cfg = s.cfg := rfl
@[simp] theorem setHandle_rets (s : Sys) (h : Nat) (hd : Handle) : (s.setHandle h hd).rets = s.rets := rfl
@[simp] theorem setHandle_panicked (s : Sys) (h : Nat) (hd : Handle) : (s.setHandle h hd).panicked = s.panicked := rfl
@[simp] theorem ret_slots (s : Sys) (h : Nat) (hd : Handle) (i : Nat) (e : Entry) (g : Ident) :
    (s.ret h hd i e g).slots = s.slots := rfl
@[simp] theorem ret_pubGen (s : Sys) (h : Nat) (hd : Handle) (i : Nat) (e : Entry) (g : Ident) :
    (s.ret h hd i e g).pubGen = s.pubGen := rfl
@[simp] theorem ret_pubSlots (s : Sys) (h : Nat) (hd : Handle) (i : Nat) (e : Entry) (g : Ident) :
    (s.ret h hd i e g).pubSlots = s.pubSlots := rfl
@[simp] theorem ret_cons (s : Sys) (h : Nat) (hd : Handle) (i : Nat) (e : Entry) (g : Ident) :
    (s.ret h hd i e g).cons = s.cons := rfl
@[simp] theorem ret_cfg (s : Sys) (h : Nat) (hd : Handle) (i : Nat) (e : Entry) (g : Ident) :
    (s.ret h hd i e g).cfg = s.cfg := rfl
@[simp] theorem ret_panicked (s : Sys) (h : Nat) (hd : Handle) (i : Nat) (e : Entry) (g : Ident) :
    (s.ret h hd i e g).panicked = s.panicked := rfl
@[simp] theorem ret_rets (s : Sys) (h : Nat) (hd : Handle) (i : Nat) (e : Entry) (g : Ident) :
    (s.ret h hd i e g).rets = { h := h, want := e.id, got := g } :: s.rets := rfl
@[simp] theorem ret_handles (s : Sys) (h : Nat) (hd : Handle) (i : Nat) (e : Entry) (g : Ident) (j : Nat) :
    (s.ret h hd i e g).handles j
      = if j = h then { hd with pc := RPc.idle, entries := setPack hd.entries i g } else s.handles j := rfl

/-- the part of the state the environment events and `newHandle` leave alone -/
def SameCore (s s' : Sys) : Prop :=
  s'.cfg = s.cfg ∧ s'.slots = s.slots ∧ s'.pubGen = s.pubGen ∧ s'.pubSlots = s.pubSlots
  ∧ s'.handles = s.handles ∧ s'.cons = s.cons ∧ s'.rets = s.rets ∧ s'.panicked = s.panicked

theorem inv_env {s s' : Sys} {ev : Ev} (hs : step s ev = some s')
    (hev : (∃ f o, ev = Ev.envAdd f o) ∨ (∃ f, ev = Ev.envRemove f) ∨ (∃ o, ev = Ev.envAddLoose o)
      ∨ (∃ o, ev = Ev.envRemoveLoose o) ∨ ev = Ev.newHandle) : SameCore s s' := by
  rcases hev with ⟨f, o, rfl⟩ | ⟨f, rfl⟩ | ⟨o, rfl⟩ | ⟨o, rfl⟩ | rfl <;> simp only [step] at hs
  · split at hs <;> cases hs; exact ⟨rfl, rfl, rfl, rfl, rfl, rfl, rfl, rfl⟩
  · split at hs <;> cases hs; exact ⟨rfl, rfl, rfl, rfl, rfl, rfl, rfl, rfl⟩
  · cases hs; exact ⟨rfl, rfl, rfl, rfl, rfl, rfl, rfl, rfl⟩
  · split at hs <;> cases hs; exact ⟨rfl, rfl, rfl, rfl, rfl, rfl, rfl, rfl⟩
  · cases hs; exact ⟨rfl, rfl, rfl, rfl, rfl, rfl, rfl, rfl⟩

theorem inv_collBegin {s s' : Sys} {h : Nat} (hs : step s (Ev.collBegin h) = some s') :
    (s.handles h).pc = RPc.idle ∧ (s.handles h).coll = none ∧
    s' = s.setHandle h { s.handles h with
      coll := some { g := s.pubGen, todo := if s.pubInit then s.pubSlots else [], acc := [] } } := by
  simp only [step] at hs
  split at hs
  · rename_i hc; cases hs; exact ⟨hc.2.1, hc.2.2, rfl⟩
  · cases hs

theorem inv_collSlot {s s' : Sys} {h : Nat} (hs : step s (Ev.collSlot h) = some s') :
    ∃ c k rest, (s.handles h).coll = some c ∧ c.todo = k :: rest ∧
      s' = s.setHandle h { s.handles h with coll := some { c with todo := rest, acc :=
        match (s.slots k).files with
        | some b => if b.idx.isLoaded then c.acc ++ entriesOf k b else c.acc
        | none => c.acc } } := by
  simp only [step] at hs
  split at hs
  · rename_i c hc
    split at hs
    · rename_i k rest hk; cases hs; exact ⟨c, k, rest, hc, hk, rfl⟩
    · cases hs
  · cases hs

theorem inv_collEnd {s s' : Sys} {h : Nat} (hs : step s (Ev.collEnd h) = some s') :
    ∃ c, (s.handles h).coll = some c ∧ c.todo = [] ∧
      s' = s.setHandle h { s.handles h with g := c.g, entries := c.acc, coll := none } := by
  simp only [step] at hs
  split at hs
  · rename_i c hc
    split at hs
    · rename_i ht; cases hs; exact ⟨c, hc, ht, rfl⟩
    · cases hs
  · cases hs

theorem inv_promote {s s' : Sys} {h i : Nat} (hs : step s (Ev.promote h i) = some s') :
    (s.handles h).pc = RPc.idle ∧ (s.handles h).coll = none ∧
    s' = s.setHandle h { s.handles h with entries := swap0 (s.handles h).entries i } := by
  simp only [step] at hs
  split at hs
  · rename_i hc; cases hs; exact ⟨hc.2.1, hc.2.2, rfl⟩
  · cases hs

theorem inv_retCached {s s' : Sys} {h i : Nat} (hs : step s (Ev.retCached h i) = some s') :
    ∃ e p, (s.handles h).entries[i]? = some e ∧ e.pack = some p ∧
      s' = { s with rets := { h := h, want := e.id, got := p } :: s.rets } := by
  simp only [step] at hs
  split at hs
  · split at hs
    · rename_i e he
      split at hs
      · rename_i p hp; cases hs; exact ⟨e, p, he, hp, rfl⟩
      · cases hs
    · cases hs
  · cases hs

theorem inv_lp1 {s s' : Sys} {h i : Nat} (hs : step s (Ev.lp1 h i) = some s') :
    (s.handles h).pc = RPc.idle ∧ (s.handles h).coll = none ∧
    (s' = s ∨ s' = s.setHandle h { s.handles h with pc := RPc.lp1 i }) := by
  simp only [step] at hs
  split at hs
  · rename_i hc
    split at hs
    · split at hs
      · split at hs <;> cases hs
        · exact ⟨hc.2.1, hc.2.2, Or.inr rfl⟩
        · exact ⟨hc.2.1, hc.2.2, Or.inl rfl⟩
      · cases hs
    · cases hs
  · cases hs

theorem inv_lp2 {s s' : Sys} {h : Nat} (hs : step s (Ev.lp2 h) = some s') :
    ∃ i e, (s.handles h).pc = RPc.lp1 i ∧ (s.handles h).entries[i]? = some e ∧
      s' = s.setHandle h { s.handles h with pc := RPc.pinned i (s.slots e.slot).files } := by
  simp only [step] at hs
  split at hs
  · rename_i i hpc
    split at hs
    · rename_i e he; cases hs; exact ⟨i, e, hpc, he, rfl⟩
    · cases hs
  · cases hs

theorem inv_lp3 {s s' : Sys} {h : Nat} (hs : step s (Ev.lp3 h) = some s') :
    ∃ i p e, (s.handles h).pc = RPc.pinned i p ∧ (s.handles h).entries[i]? = some e ∧
      (((s.handles h).g < (s.slots e.slot).gen ∧ s' = s.setHandle h { s.handles h with pc := RPc.idle })
       ∨ ((s.slots e.slot).gen ≤ (s.handles h).g
          ∧ s' = s.setHandle h { s.handles h with pc := RPc.checked i p })) := by
  simp only [step] at hs
  split at hs
  · rename_i i p hpc
    split at hs
    · rename_i e he
      split at hs
      · rename_i hg; cases hs; exact ⟨i, p, e, hpc, he, Or.inl ⟨hg, rfl⟩⟩
      · rename_i hg; cases hs; exact ⟨i, p, e, hpc, he, Or.inr ⟨by omega, rfl⟩⟩
    · cases hs
  · cases hs

theorem inv_lp4 {s s' : Sys} {h : Nat} (hs : step s (Ev.lp4 h) = some s') :
    ∃ i p e, (s.handles h).pc = RPc.checked i p ∧ (s.handles h).entries[i]? = some e ∧
      ((p = none ∧ s' = { (s.setHandle h { s.handles h with pc := RPc.idle }) with panicked := true })
       ∨ (∃ b, p = some b ∧ s' = s.setHandle h { s.handles h with pc := RPc.idle })
       ∨ (∃ b, p = some b ∧ s' = s.ret h (s.handles h) i e b.ident)) := by
  simp only [step] at hs
  split at hs
  · rename_i i p hpc
    split at hs
    · rename_i e he
      split at hs
      · cases hs; exact ⟨i, none, e, hpc, he, Or.inl ⟨rfl, rfl⟩⟩
      · rename_i b
        split at hs
        · cases hs; exact ⟨i, some b, e, hpc, he, Or.inr (Or.inl ⟨b, rfl, rfl⟩)⟩
        · split at hs
          · cases hs; exact ⟨i, some b, e, hpc, he, Or.inr (Or.inr ⟨b, rfl, rfl⟩)⟩
          · cases hs
    · cases hs
  · cases hs

/-- the critical section of `load_pack` -/
theorem inv_lp5 {s s' : Sys} {h : Nat} (hs : step s (Ev.lp5 h) = some s') :
    ∃ i b e, (s.handles h).pc = RPc.checked i (some b) ∧ (s.handles h).entries[i]? = some e ∧
      (s' = s.setHandle h { s.handles h with pc := RPc.idle }
       ∨ ((s.cfg.recheck = true → (s.slots e.slot).gen ≤ (s.handles h).g) ∧ (s.slots e.slot).files = none
            ∧ s' = { (s.setHandle h { s.handles h with pc := RPc.idle }) with panicked := true })
       ∨ (∃ b', (s.cfg.recheck = true → (s.slots e.slot).gen ≤ (s.handles h).g)
            ∧ (s.slots e.slot).files = some b'
            ∧ (s' = s.ret h (s.handles h) i e b'.ident
               ∨ s' = (s.setSlot e.slot { s.slots e.slot with files := some (b'.setPackAt e.pk LoadSt.loaded) }).ret
                        h (s.handles h) i e b'.ident
               ∨ s' = (s.setSlot e.slot { s.slots e.slot with files := some (b'.setPackAt e.pk LoadSt.missing) }).setHandle
                        h { s.handles h with pc := RPc.idle }))) := by
  simp only [step] at hs
  split at hs
  · rename_i i b hpc
    split at hs
    · rename_i e he
      split at hs
      · split at hs
        · cases hs; exact ⟨i, b, e, hpc, he, Or.inl rfl⟩
        · rename_i hre
          have hre' : s.cfg.recheck = true → (s.slots e.slot).gen ≤ (s.handles h).g := by
            intro hr
            simp only [hr, Bool.true_and, decide_eq_true_eq] at hre
            omega
          split at hs
          · rename_i hf; cases hs; exact ⟨i, b, e, hpc, he, Or.inr (Or.inl ⟨hre', hf, rfl⟩)⟩
          · rename_i b' hf
            split at hs
            · cases hs; exact ⟨i, b, e, hpc, he, Or.inl rfl⟩
            · split at hs
              · cases hs; exact ⟨i, b, e, hpc, he, Or.inr (Or.inr ⟨b', hre', hf, Or.inl rfl⟩)⟩
              · cases hs; exact ⟨i, b, e, hpc, he, Or.inr (Or.inr ⟨b', hre', hf, Or.inl rfl⟩)⟩
              · cases hs; exact ⟨i, b, e, hpc, he, Or.inl rfl⟩
              · split at hs
                · cases hs; exact ⟨i, b, e, hpc, he, Or.inr (Or.inr ⟨b', hre', hf, Or.inr (Or.inl rfl)⟩)⟩
                · cases hs; exact ⟨i, b, e, hpc, he, Or.inr (Or.inr ⟨b', hre', hf, Or.inr (Or.inr rfl)⟩)⟩
      · cases hs
    · cases hs
  · cases hs

theorem inv_loadIdx {s s' : Sys} {k gIx : Nat} (hs : step s (Ev.loadIdx k gIx) = some s') :
    gIx ≤ s.pubGen ∧ (s.slots k).wlock = false ∧
    (s' = s ∨ ∃ b b', (s.slots k).gen ≤ gIx ∧ (s.slots k).files = some b
        ∧ b'.ident = b.ident
        ∧ s' = s.setSlot k { s.slots k with files := some b' }) := by
  simp only [step] at hs
  split at hs
  · rename_i hc
    refine ⟨hc.2.1, hc.2.2, ?_⟩
    split at hs
    · cases hs; exact Or.inl rfl
    · rename_i hg
      split at hs
      · cases hs; exact Or.inl rfl
      · rename_i b hf
        split at hs
        · split at hs
          · cases hs; exact Or.inr ⟨b, b.resetPacks, by omega, hf, rfl, rfl⟩
          · cases hs; exact Or.inl rfl
        · split at hs
          · cases hs; exact Or.inr ⟨b, { (if b.multi then b.resetPacks else b) with idx := LoadSt.loaded }, by omega, hf, by (split <;> rfl), rfl⟩
          · cases hs; exact Or.inr ⟨b, { b with idx := LoadSt.missing }, by omega, hf, rfl, rfl⟩
  · cases hs

theorem inv_consBegin {s s' : Sys} {h : Nat} (hs : step s (Ev.consBegin h) = some s') :
    s.cons = none ∧
    s' = { s with cons := some { owner := h, G := s.pubGen, bumped := false, published := false,
                                 newGen := s.pubGen, pending := none } } := by
  simp only [step] at hs
  split at hs
  · rename_i hc; cases hs; exact ⟨hc.2, rfl⟩
  · cases hs

theorem inv_consSetGen {s s' : Sys} {k : Nat} (hs : step s (Ev.consSetGen k) = some s') :
    ∃ c, s.cons = some c ∧ c.published = false ∧ c.pending = none ∧
      (((s.slots k).files.isSome = true ∧
          s' = { (s.setSlot k { s.slots k with gen := c.G + 1, wlock := true }) with
                 cons := some { c with bumped := true, pending := some k } })
       ∨ ((s.slots k).files = none ∧
          s' = { (s.setSlot k { s.slots k with gen := c.G, wlock := true }) with
                 cons := some { c with pending := some k } })) := by
  simp only [step] at hs
  split at hs
  · rename_i c hc
    split at hs
    · rename_i hg
      split at hs
      · rename_i hf; cases hs; exact ⟨c, hc, hg.2.1, hg.2.2, Or.inl ⟨hf, rfl⟩⟩
      · rename_i hf; cases hs
        refine ⟨c, hc, hg.2.1, hg.2.2, Or.inr ⟨?_, rfl⟩⟩
        cases hff : (s.slots k).files <;> simp_all
    · cases hs
  · cases hs

theorem inv_consSetFilesM {s s' : Sys} {k file extra : Nat}
    (hs : step s (Ev.consSetFilesM k file extra) = some s') :
    ∃ c, s.cons = some c ∧ c.published = false ∧ c.pending = some k ∧
      s' = { (s.setSlot k { s.slots k with
                files := some { stamp := s.nextStamp, file := file, multi := true,
                                idx := LoadSt.loaded, pack := LoadSt.unloaded,
                                more := List.replicate extra LoadSt.unloaded },
                wlock := false }) with
             cons := some { c with pending := none }, nextStamp := s.nextStamp + 1 } := by
  simp only [step] at hs
  split at hs
  · rename_i c hc
    split at hs
    · rename_i hg; cases hs; exact ⟨c, hc, hg.1, hg.2, rfl⟩
    · cases hs
  · cases hs

theorem replicate_unloaded_not_disposable (n : Nat) :
    (List.replicate n LoadSt.unloaded).any LoadSt.isDisposable = false := by
  induction n with
  | zero => rfl
  | succ n ih => simp [List.replicate_succ, LoadSt.isDisposable, ih]

theorem inv_consSetFiles {s s' : Sys} {k file : Nat} {multi : Bool}
    (hs : step s (Ev.consSetFiles k file multi) = some s') :
    ∃ c, s.cons = some c ∧ c.published = false ∧ c.pending = some k ∧
      s' = { (s.setSlot k { s.slots k with
                files := some { stamp := s.nextStamp, file := file, multi := multi,
                                idx := if multi then LoadSt.loaded else LoadSt.unloaded,
                                pack := LoadSt.unloaded },
                wlock := false }) with
             cons := some { c with pending := none }, nextStamp := s.nextStamp + 1 } := by
  simp only [step] at hs
  split at hs
  · rename_i c hc
    split at hs
    · rename_i hg; cases hs; exact ⟨c, hc, hg.1, hg.2, rfl⟩
    · cases hs
  · cases hs

theorem inv_consPutBack {s s' : Sys} {k : Nat} (hs : step s (Ev.consPutBack k) = some s') :
    ∃ c b, s.cons = some c ∧ c.published = false ∧ c.pending = none ∧ (s.slots k).files = some b
      ∧ b.isDisposable = true
      ∧ s' = s.setSlot k { s.slots k with gen := c.G, files := some b.putBack } := by
  simp only [step] at hs
  split at hs
  · rename_i c hc
    split at hs
    · rename_i hg
      split at hs
      · rename_i b hf
        split at hs
        · rename_i hd; cases hs; exact ⟨c, b, hc, hg.2.1, hg.2.2, hf, hd, rfl⟩
        · cases hs
      · cases hs
    · cases hs
  · cases hs

theorem inv_consPublish {s s' : Sys} {slots : List Nat} {bump : Bool}
    (hs : step s (Ev.consPublish slots bump) = some s') :
    ∃ c, s.cons = some c ∧ c.published = false ∧ c.pending = none ∧
      s' = { s with pubGen := (if c.bumped || bump then c.G + 1 else c.G), pubSlots := slots,
                    pubPtr := s.nextPtr, pubInit := true, nextPtr := s.nextPtr + 1,
                    cons := some { c with published := true,
                                          newGen := (if c.bumped || bump then c.G + 1 else c.G) } } := by
  simp only [step] at hs
  split at hs
  · rename_i c hc
    split at hs
    · rename_i hg; cases hs; exact ⟨c, hc, hg.1, hg.2, rfl⟩
    · cases hs
  · cases hs

theorem inv_consTrash {s s' : Sys} {k : Nat} (hs : step s (Ev.consTrash k) = some s') :
    ∃ c, s.cons = some c ∧ c.published = true ∧ c.pending = none ∧
      (s' = s ∨ ∃ b, (s.slots k).files = some b ∧ s' = s.setSlot k { s.slots k with files := some b.trash }) := by
  simp only [step] at hs
  split at hs
  · rename_i c hc
    split at hs
    · rename_i hg
      split at hs
      · rename_i b hf; cases hs; exact ⟨c, hc, hg.2.1, hg.2.2, Or.inr ⟨b, hf, rfl⟩⟩
      · cases hs; exact ⟨c, hc, hg.2.1, hg.2.2, Or.inl rfl⟩
    · cases hs
  · cases hs

theorem inv_consClearGen {s s' : Sys} {k : Nat} (hs : step s (Ev.consClearGen k) = some s') :
    ∃ c, s.cons = some c ∧ c.published = true ∧ c.pending = none ∧ k ∉ s.pubSlots
      ∧ (s.cfg.bumpOnClear = true → c.newGen = c.G + 1)
      ∧ s' = { (s.setSlot k { s.slots k with gen := c.newGen, wlock := true }) with
               cons := some { c with pending := some k } } := by
  simp only [step] at hs
  split at hs
  · rename_i c hc
    split at hs
    · rename_i hg; cases hs; exact ⟨c, hc, hg.2.1, hg.2.2.1, hg.2.2.2.1, hg.2.2.2.2, rfl⟩
    · cases hs
  · cases hs

theorem inv_consClearFiles {s s' : Sys} {k : Nat} (hs : step s (Ev.consClearFiles k) = some s') :
    ∃ c, s.cons = some c ∧ c.published = true ∧ c.pending = some k ∧
      s' = { (s.setSlot k { s.slots k with files := none, wlock := false }) with
             cons := some { c with pending := none } } := by
  simp only [step] at hs
  split at hs
  · rename_i c hc
    split at hs
    · rename_i hg; cases hs; exact ⟨c, hc, hg.1, hg.2, rfl⟩
    · cases hs
  · cases hs

theorem inv_consEnd {s s' : Sys} (hs : step s Ev.consEnd = some s') :
    ∃ c, s.cons = some c ∧ c.pending = none ∧ (c.published = true ∨ c.bumped = false)
      ∧ s' = { s with cons := none } := by
  simp only [step] at hs
  split at hs
  · rename_i c hc
    split at hs
    · rename_i hg; cases hs; exact ⟨c, hc, hg.1, hg.2, rfl⟩
    · cases hs
  · cases hs

end GixModel.C12
