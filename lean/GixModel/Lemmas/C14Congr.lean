import GixModel.Lemmas.C14Round
/-
C14 helper lemmas, part 8: the accessors only look at the four tables of a file, so the byte-level
round trip composes with the chunk-level theorems.
-/
namespace GixModel.C14
open GixModel

/-- two files with the same fan-out, id, commit-data and extra-edge tables -/
def SameTables (f g : File) : Prop := f.fan = g.fan ∧ f.oidl = g.oidl ∧ f.cdat = g.cdat ∧ f.edges = g.edges

/-- two chains, file by file with the same tables -/
inductive AllSame : List File → List File → Prop
  | nil : AllSame [] []
  | cons {f g : File} {fs gs : List File} : SameTables f g → AllSame fs gs → AllSame (f :: fs) (g :: gs)

theorem SameTables.numCommits {f g : File} (h : SameTables f g) : f.numCommits = g.numCommits := by
  simp only [File.numCommits, h.1]

theorem SameTables.idAt {f g : File} (h : SameTables f g) (pos : Nat) : f.idAt pos = g.idAt pos := by
  simp only [File.idAt, h.numCommits, h.2.1]

theorem SameTables.seen {f g : File} (h : SameTables f g) (pos : Nat) : f.seen pos = g.seen pos := by
  simp only [File.seen, File.commitAt, File.commitDataBytes, h.numCommits, h.2.2.1, h.2.2.2]

theorem SameTables.lookup {f g : File} (h : SameTables f g) (id : Bytes) : f.lookup id = g.lookup id := by
  have : f.idAt = g.idAt := funext h.idAt
  simp only [File.lookup, h.1, this]

theorem lookupByPos_congr : ∀ (fs gs : List File), AllSame fs gs → ∀ idx pos,
    lookupByPos fs idx pos = lookupByPos gs idx pos := by
  intro fs gs h
  induction h with
  | nil => intro _ _; rfl
  | cons hfg _ ih => intro idx pos; simp only [lookupByPos, hfg.numCommits, ih]

theorem lookupById_congr : ∀ (fs gs : List File), AllSame fs gs → ∀ idx start id,
    lookupById fs idx start id = lookupById gs idx start id := by
  intro fs gs h
  induction h with
  | nil => intro _ _ _; rfl
  | cons hfg _ ih => intro idx start id; simp only [lookupById, hfg.lookup, hfg.numCommits, ih]

theorem forall₂_getElem? : ∀ (fs gs : List File), AllSame fs gs → ∀ (k : Nat),
    (fs[k]? = none ∧ gs[k]? = none) ∨ ∃ f g, fs[k]? = some f ∧ gs[k]? = some g ∧ SameTables f g := by
  intro fs gs h
  induction h with
  | nil => intro k; left; simp
  | cons hfg _ ih =>
    intro k
    cases k with
    | zero => right; exact ⟨_, _, rfl, rfl, hfg⟩
    | succ j => simpa using ih j

theorem Graph.commitById_congr (fs gs : List File) (h : AllSame fs gs) (id : Bytes) :
    Graph.commitById ⟨fs⟩ id = Graph.commitById ⟨gs⟩ id := by
  simp only [Graph.commitById, lookupById_congr fs gs h]
  cases lookupById gs 0 0 id with
  | none => rfl
  | some r =>
    cases r with
    | none => rfl
    | some t =>
      obtain ⟨k, lex, gp⟩ := t
      rcases forall₂_getElem? fs gs h k with ⟨h1, h2⟩ | ⟨f, g, h1, h2, h3⟩
      · simp [h1, h2]
      · simp [h1, h2, h3.seen]

theorem Graph.commitAt_congr (fs gs : List File) (h : AllSame fs gs) (pos : Nat) :
    Graph.commitAt ⟨fs⟩ pos = Graph.commitAt ⟨gs⟩ pos := by
  simp only [Graph.commitAt, lookupByPos_congr fs gs h]
  cases lookupByPos gs 0 pos with
  | none => rfl
  | some t =>
    obtain ⟨k, p⟩ := t
    rcases forall₂_getElem? fs gs h k with ⟨h1, h2⟩ | ⟨f, g, h1, h2, h3⟩
    · simp [h1, h2]
    · simp [h1, h2, h3.seen]

theorem Graph.idAt_congr (fs gs : List File) (h : AllSame fs gs) (pos : Nat) :
    Graph.idAt ⟨fs⟩ pos = Graph.idAt ⟨gs⟩ pos := by
  simp only [Graph.idAt, lookupByPos_congr fs gs h]
  cases lookupByPos gs 0 pos with
  | none => rfl
  | some t =>
    obtain ⟨k, p⟩ := t
    rcases forall₂_getElem? fs gs h k with ⟨h1, h2⟩ | ⟨f, g, h1, h2, h3⟩
    · simp [h1, h2]
    · simp [h1, h2, h3.idAt]

end GixModel.C14
