import GixModel.Lemmas.C04g
/-
C04 helper lemmas, part w: the literal stack loop of `write_at_pathbuf` (`writeLoop`) against the
bottom-up recursion (`writeTree`) the theorems are about.
-/
namespace GixModel.C04
open GixModel GixModel.Tree

/-- `retain(|e| !e.oid.is_null())`, per entry -/
def keepE (e : Entry) : Option Entry := if e.oid == nullId then none else some e

theorem filterMap_keepE (t : List Entry) :
    (t.map keepE).filterMap id = t.filter (fun e => e.oid != nullId) := by
  induction t with
  | nil => rfl
  | cons e es ih =>
    by_cases h : e.oid == nullId
    · have h2 : (e.oid != nullId) = false := by simp [bne, h]
      simp only [List.map_cons, keepE, h, if_true, List.filterMap_cons, id, List.filter, h2, ih]
    · have h1 : (e.oid == nullId) = false := by simpa using h
      have h2 : (e.oid != nullId) = true := by simp [bne, h1]
      simp only [List.map_cons, keepE, h1, Bool.false_eq_true, if_false, List.filterMap_cons, id,
        List.filter, h2, ih]

/-- no directory entry of `t` (at `P`) has a cached tree -/
def NoCachedKids (cache : Assoc Path (List Entry)) (P : Path) (t : List Entry) : Prop :=
  ∀ e ∈ t, e.isTree = true → aget (P ++ [e.name]) cache = none

theorem mapAccum_nokids (hash : List Entry → Bytes)
    (rec : WState → Path → List Entry → WState × List Entry) (P : Path) :
    ∀ (es : List Entry) (st : WState), NoCachedKids st.cache P es →
      mapAccum (wstep hash rec P) st es = (st, es.map keepE) := by
  intro es
  induction es with
  | nil => intro st _; rfl
  | cons e es ih =>
    intro st h
    have h1 : wstep hash rec P st e = (st, keepE e) := by
      by_cases hd : e.isTree = true
      · simp [wstep, hd, h e (by simp) hd, keepE]
      · simp [wstep, hd, keepE]
    simp only [mapAccum, h1, ih st (fun x hx => h x (List.mem_cons_of_mem _ hx)), List.map_cons]

theorem writeTree_nokids (hash : List Entry → Bytes) (fuel : Nat) (st : WState) (P : Path)
    (t : List Entry) (h : NoCachedKids st.cache P t) :
    writeTree hash (fuel + 1) st P t = (st, t.filter (fun e => e.oid != nullId)) := by
  simp only [writeTree, mapAccum_nokids hash _ P t st h, filterMap_keepE]

theorem scanChildren_nokids (P : Path) (idx : Nat) :
    ∀ (es : List Entry) (acc : Assoc Path (List Entry) × List LItem), NoCachedKids acc.1 P es →
      scanChildren P idx es acc = acc := by
  intro es
  induction es with
  | nil => intro acc _; rfl
  | cons e es ih =>
    intro acc h
    by_cases hd : e.isTree = true
    · simp only [scanChildren, hd, if_true, h e (by simp) hd]
      exact ih acc (fun x hx => h x (List.mem_cons_of_mem _ hx))
    · simp only [scanChildren, hd, Bool.false_eq_true, if_false]
      exact ih acc (fun x hx => h x (List.mem_cons_of_mem _ hx))

theorem popLast_nil {α : Type} : popLast ([] : List α) = none := rfl

theorem popLast_snoc {α : Type} (l : List α) (x : α) : popLast (l ++ [x]) = some (x, l) := by
  simp [popLast]

/-- Depth 0: when no sub-tree of the tree being written is cached, the literal loop and the
recursion return the same id, the same number of `out` calls, the same cache and the same store
(syntactically). -/
theorem write_loop_eq_recursion_depth0 (hash : List Entry → Bytes) (ed : Ed) (fromCursor : Bool)
    (root0 : List Entry) (hP : aget ed.pathBuf ed.trees = some root0)
    (hk : NoCachedKids (aerase ed.pathBuf ed.trees) ed.pathBuf root0) :
    ∃ id calls ed', writeAt hash ed fromCursor = .ok id calls ed' ∧
      writeAtLoop hash ed fromCursor = .done id calls ed'.trees ed'.store := by
  have hrec := writeTree_nokids hash (aerase ed.pathBuf ed.trees).length
    ⟨aerase ed.pathBuf ed.trees, ed.store, 0⟩ ed.pathBuf root0 hk
  have hw : writeAt hash ed fromCursor = .ok (hash (root0.filter (fun e => e.oid != nullId))) 1
      { ed with trees := (if fromCursor then aset ed.pathBuf (root0.filter (fun e => e.oid != nullId))
                            (aerase ed.pathBuf ed.trees)
                          else [(ed.pathBuf, root0.filter (fun e => e.oid != nullId))]),
                store := aset (hash (root0.filter (fun e => e.oid != nullId)))
                  (root0.filter (fun e => e.oid != nullId)) ed.store } := by
    simp only [writeAt, hP, hrec]
  refine ⟨_, _, _, hw, ?_⟩
  have hfuel : 4 * (aerase ed.pathBuf ed.trees).length + 8 =
      (4 * (aerase ed.pathBuf ed.trees).length + 7) + 1 := by omega
  have hp : popLast [(⟨none, ed.pathBuf, root0⟩ : LItem)] = some (⟨none, ed.pathBuf, root0⟩, []) :=
    popLast_snoc [] _
  simp only [writeAtLoop, hP]
  rw [hfuel, writeLoop]
  simp only [popLast_nil, hp, List.length_nil,
    scanChildren_nokids ed.pathBuf 0 root0 (aerase ed.pathBuf ed.trees, []) hk, List.isEmpty_nil,
    if_true]

/-! ### patching a parent through the binary search = a `filterMap` by name -/

/-- what `finalize` does to the parent's entry list: the entry `name` is removed (sub-tree ended up
empty) or gets the id of the written sub-tree -/
def patch (hash : List Entry → Bytes) (name : Bytes) (o : List Entry) (t : List Entry) : List Entry :=
  t.filterMap (fun e => if e.name = name then (if o.isEmpty then none else some { e with oid := hash o })
                        else some e)

theorem filterMap_split {L R : List Entry} {e : Entry} {name : Bytes} (f : Entry → Option Entry)
    (hL : ∀ x ∈ L, f x = some x) (hR : ∀ x ∈ R, f x = some x) :
    (L ++ e :: R).filterMap f = L ++ (f e).toList ++ R := by
  have h1 : ∀ (l : List Entry), (∀ x ∈ l, f x = some x) → l.filterMap f = l := by
    intro l
    induction l with
    | nil => intro _; rfl
    | cons a as ih =>
      intro h
      simp [List.filterMap_cons, h a (by simp), ih (fun x hx => h x (List.mem_cons_of_mem _ hx))]
  rw [List.filterMap_append, List.filterMap_cons, h1 L hL, h1 R hR]
  cases f e <;> simp

/-- the binary search of `finalize` finds the directory entry, and removing / overwriting it there
is the `patch` -/
theorem patch_by_search {hash : List Entry → Bytes} {t : List Entry} (ht : TreeOk t) {name : Bytes}
    (hn : ValidName name) {e : Entry} (hf : findName t name = some e) (hd : e.isTree = true) :
    ∃ i, binarySearchBy t (fun x => cmpEntryWithName x name true) = .found i ∧ t[i]? = some e ∧
      t.eraseIdx i = patch hash name [] t ∧
      ∀ o, o ≠ [] → t.set i { e with oid := hash o } = patch hash name o t := by
  obtain ⟨hmem, hname⟩ := (findName_eq_some_iff ht.uniq).1 hf
  rcases bs_cases ht hn true with ⟨i, hb, hi, hni, _⟩ | ⟨di, _, hpd⟩
  · have hti : t[i] = e := uniq_name_eq ht.uniq (List.getElem_mem hi) hmem (hni.trans hname.symm)
    have hsplit := split_at hi
    rw [hti] at hsplit
    have ht' := ht
    rw [hsplit] at ht'
    obtain ⟨_, _, _, hfresh⟩ := treeOk_unsplice ht'
    have hL : ∀ x ∈ t.take i, x.name ≠ name := fun x hx => by
      rw [← hname]; exact hfresh x (List.mem_append_left _ hx)
    have hR : ∀ x ∈ t.drop (i + 1), x.name ≠ name := fun x hx => by
      rw [← hname]; exact hfresh x (List.mem_append_right _ hx)
    refine ⟨i, hb, by rw [List.getElem?_eq_getElem hi, hti], ?_, ?_⟩
    · rw [List.eraseIdx_eq_take_drop_succ]
      conv => rhs; rw [hsplit]
      unfold patch
      rw [filterMap_split (name := name) _ (fun x hx => by simp [hL x hx]) (fun x hx => by simp [hR x hx])]
      simp [hname]
    · intro o ho
      rw [List.set_eq_take_append_cons_drop, if_pos hi]
      conv => rhs; rw [hsplit]
      unfold patch
      rw [filterMap_split (name := name) _ (fun x hx => by simp [hL x hx]) (fun x hx => by simp [hR x hx])]
      have : o.isEmpty = false := by
        cases o with
        | nil => exact absurd rfl ho
        | cons _ _ => rfl
      simp [hname, this]
  · exfalso
    exact partAt_no_match hpd hmem ((probe_eq ht hn hmem).2 ⟨hname, hd⟩)

/-! ### one finalized leaf child -/

/-- `retain(|e| !e.oid.is_null())` -/
local macro "fltr " t:term:max : term => `(List.filter (fun (e : Entry) => e.oid != nullId) $t)

/-- a cached child: its entry in the parent and its cached tree -/
abbrev Kid := Entry × List Entry

def kidItem (P : Path) (idx : Nat) (k : Kid) : LItem := ⟨some idx, P ++ [k.1.name], k.2⟩

theorem hash_ne_empty {hash : List Entry → Bytes} (hh : HashOk hash) {o : List Entry} (ho : o ≠ []) :
    hash o ≠ emptyTreeId := fun h => ho (hh.inj _ _ (h.trans hh.empty.symm))

theorem patch_treeOk {hash : List Entry → Bytes} (hh : HashOk hash) {t : List Entry} (ht : TreeOk t)
    {e : Entry} (he : e ∈ t) (hd : e.isTree = true) (o : List Entry) :
    TreeOk (patch hash e.name o t) := by
  have hf : findName t e.name = some e := (findName_eq_some_iff ht.uniq).2 ⟨he, rfl⟩
  obtain ⟨i, hb, hi, her, hset⟩ := patch_by_search (hash := hash) ht (ht.names e he) hf hd
  have hil : i < t.length := by
    rcases Nat.lt_or_ge i t.length with h | h
    · exact h
    · rw [List.getElem?_eq_none h] at hi; cases hi
  have hti : t[i] = e := by
    rw [List.getElem?_eq_getElem hil] at hi; exact Option.some.inj hi
  by_cases ho : o = []
  · subst ho; rw [← her]; exact treeOk_eraseIdx ht hil
  · rw [← hset o ho]
    refine treeOk_set_same ht hil _ (by rw [hti]) (by rw [hti]; rfl) ?_
    intro _
    exact ⟨hash_ne_empty hh ho, (ht.good e he hd).2⟩

theorem loop_kid_step (hash : List Entry → Bytes) (fc : Bool) (f : Nat) (P : Path) (T : List Entry)
    (cs : List LItem) (k : Kid) (c : Assoc Path (List Entry)) (s : Assoc Bytes (List Entry)) (n : Nat)
    (hT : TreeOk T) (hk : k.1 ∈ T) (hd : k.1.isTree = true)
    (hnc : NoCachedKids c (P ++ [k.1.name]) k.2) :
    writeLoop hash fc (f + 1) ⟨[⟨none, P, T⟩], cs ++ [kidItem P 0 k], c, s, n⟩ =
    writeLoop hash fc f ⟨[⟨none, P, patch hash k.1.name (fltr k.2) T⟩], cs, c,
      if (fltr k.2).isEmpty then s else aset (hash (fltr k.2)) (fltr k.2) s,
      if (fltr k.2).isEmpty then n else n + 1⟩ := by
  have hf : findName T k.1.name = some k.1 := (findName_eq_some_iff hT.uniq).2 ⟨hk, rfl⟩
  obtain ⟨i, hb, hi, her, hset⟩ := patch_by_search (hash := hash) hT (hT.names _ hk) hf hd
  have hsc : scanChildren (P ++ [k.1.name]) 1 k.2 (c, []) = (c, []) :=
    scanChildren_nokids _ _ _ _ hnc
  rw [writeLoop]
  simp only [popLast_snoc, kidItem, List.length_singleton, hsc, List.isEmpty_nil, if_true,
    List.getElem?_cons_zero, List.getLast?_concat, Option.getD_some, hb, hi, List.set_cons_zero]
  by_cases he : (fltr k.2).isEmpty = true
  · have he' : (fltr k.2) = [] := List.isEmpty_iff.1 he
    simp only [he', List.isEmpty_nil, if_true, ← her]
  · have hne : (fltr k.2) ≠ [] := fun h => he (by rw [h]; rfl)
    simp only [he, if_false, Bool.false_eq_true, ← hset _ hne]

/-! ### all leaf children of one parent -/

theorem mem_patch_of_ne {hash : List Entry → Bytes} {name : Bytes} {o t : List Entry} {x : Entry}
    (hx : x ∈ t) (hne : x.name ≠ name) : x ∈ patch hash name o t :=
  List.mem_filterMap.2 ⟨x, hx, by simp [hne]⟩

theorem mem_patch_shape {hash : List Entry → Bytes} {name : Bytes} {o t : List Entry} {x : Entry}
    (hx : x ∈ patch hash name o t) : ∃ y ∈ t, y.name = x.name ∧ y.isTree = x.isTree := by
  obtain ⟨y, hy, hyx⟩ := List.mem_filterMap.1 hx
  refine ⟨y, hy, ?_⟩
  by_cases h : y.name = name
  · rw [if_pos h] at hyx
    by_cases ho : o.isEmpty = true
    · rw [if_pos ho] at hyx; cases hyx
    · rw [if_neg ho] at hyx; cases hyx; exact ⟨rfl, rfl⟩
  · rw [if_neg h] at hyx; cases hyx; exact ⟨rfl, rfl⟩

/-- store and call counter after `out` for one child -/
def kst (hash : List Entry → Bytes) (a : Assoc Bytes (List Entry) × Nat) (k : Kid) :
    Assoc Bytes (List Entry) × Nat :=
  if (fltr k.2).isEmpty then a else (aset (hash (fltr k.2)) (fltr k.2) a.1, a.2 + 1)

def kidStep (hash : List Entry → Bytes) (a : List Entry × Assoc Bytes (List Entry) × Nat) (k : Kid) :
    List Entry × Assoc Bytes (List Entry) × Nat :=
  (patch hash k.1.name (fltr k.2) a.1, kst hash a.2 k)

theorem foldl_kidStep_fst (hash : List Entry → Bytes) : ∀ (Kr : List Kid) (a : List Entry × Assoc Bytes (List Entry) × Nat),
    (Kr.foldl (kidStep hash) a).1 = Kr.foldl (fun T k => patch hash k.1.name (fltr k.2) T) a.1
  | [], _ => rfl
  | k :: Kr, a => by simp only [List.foldl_cons]; rw [foldl_kidStep_fst hash Kr]; rfl

theorem foldl_kidStep_snd (hash : List Entry → Bytes) : ∀ (Kr : List Kid) (a : List Entry × Assoc Bytes (List Entry) × Nat),
    (Kr.foldl (kidStep hash) a).2 = Kr.foldl (kst hash) a.2
  | [], _ => rfl
  | k :: Kr, a => by simp only [List.foldl_cons]; rw [foldl_kidStep_snd hash Kr]; rfl

theorem loop_kids {hash : List Entry → Bytes} (hh : HashOk hash) (fc : Bool) (P : Path)
    (c : Assoc Path (List Entry)) :
    ∀ (Kr : List Kid) (T : List Entry) (s : Assoc Bytes (List Entry)) (n f : Nat), TreeOk T →
      (∀ k ∈ Kr, k.1 ∈ T ∧ k.1.isTree = true ∧ NoCachedKids c (P ++ [k.1.name]) k.2) →
      (Kr.map (·.1.name)).Nodup →
      writeLoop hash fc (f + Kr.length) ⟨[⟨none, P, T⟩], Kr.reverse.map (kidItem P 0), c, s, n⟩ =
      writeLoop hash fc f ⟨[⟨none, P, (Kr.foldl (kidStep hash) (T, s, n)).1⟩], [], c,
        (Kr.foldl (kidStep hash) (T, s, n)).2.1, (Kr.foldl (kidStep hash) (T, s, n)).2.2⟩
  | [], T, s, n, f, _, _, _ => rfl
  | k :: Kr, T, s, n, f, hT, hK, hnd => by
    obtain ⟨hk, hd, hnc⟩ := hK k (by simp)
    rw [List.map_cons] at hnd
    have hnd' := List.nodup_cons.1 hnd
    rw [List.reverse_cons, List.map_append, List.map_singleton, List.length_cons, ← Nat.add_assoc,
      loop_kid_step hash fc _ P T _ k c s n hT hk hd hnc]
    have hT' : TreeOk (patch hash k.1.name (fltr k.2) T) := patch_treeOk hh hT hk hd _
    have hK' : ∀ k' ∈ Kr, k'.1 ∈ patch hash k.1.name (fltr k.2) T ∧ k'.1.isTree = true ∧
        NoCachedKids c (P ++ [k'.1.name]) k'.2 := by
      intro k' hk'
      obtain ⟨h1, h2, h3⟩ := hK k' (List.mem_cons_of_mem _ hk')
      refine ⟨mem_patch_of_ne h1 ?_, h2, h3⟩
      intro heq
      exact hnd'.1 (List.mem_map.2 ⟨k', hk', heq⟩)
    rw [loop_kids hh fc P c Kr _ _ _ f hT' hK' hnd'.2]
    simp only [List.foldl_cons, kidStep, kst]
    by_cases he : (fltr k.2).isEmpty = true <;> simp only [he, if_true, if_false, Bool.false_eq_true]

/-! ### the scan for cached children -/

/-- the cached children of `es` (entries of the tree at `P`), with their cached trees -/
def kidsOf (P : Path) (c : Assoc Path (List Entry)) (es : List Entry) : List Kid :=
  es.filterMap (fun e => if e.isTree then (aget (P ++ [e.name]) c).map (fun sub => (e, sub)) else none)

def eraseKids (P : Path) (K : List Kid) (c : Assoc Path (List Entry)) : Assoc Path (List Entry) :=
  K.foldl (fun c k => aerase (P ++ [k.1.name]) c) c

theorem mem_kidsOf {P : Path} {c : Assoc Path (List Entry)} {es : List Entry} {k : Kid} :
    k ∈ kidsOf P c es ↔ k.1 ∈ es ∧ k.1.isTree = true ∧ aget (P ++ [k.1.name]) c = some k.2 := by
  unfold kidsOf
  rw [List.mem_filterMap]
  constructor
  · rintro ⟨e, he, hek⟩
    by_cases hd : e.isTree = true
    · rw [if_pos hd] at hek
      cases hg : aget (P ++ [e.name]) c with
      | none => rw [hg] at hek; cases hek
      | some sub => rw [hg] at hek; cases hek; exact ⟨he, hd, hg⟩
    · rw [if_neg hd] at hek; cases hek
  · rintro ⟨he, hd, hg⟩
    exact ⟨k.1, he, by rw [if_pos hd, hg]; rfl⟩

theorem path_snoc_ne {P : Path} {a b : Bytes} (h : a ≠ b) : P ++ [a] ≠ P ++ [b] := fun heq =>
  h (by simpa using List.append_cancel_left heq)

theorem filterMap_congr' {α β : Type} {f g : α → Option β} : ∀ {l : List α},
    (∀ x ∈ l, f x = g x) → l.filterMap f = l.filterMap g
  | [], _ => rfl
  | a :: l, h => by
    rw [List.filterMap_cons, List.filterMap_cons, h a (by simp),
      filterMap_congr' (fun x hx => h x (List.mem_cons_of_mem _ hx))]

theorem kidsOf_congr {P : Path} {c c' : Assoc Path (List Entry)} {es : List Entry}
    (h : ∀ e ∈ es, aget (P ++ [e.name]) c' = aget (P ++ [e.name]) c) : kidsOf P c' es = kidsOf P c es := by
  unfold kidsOf
  apply filterMap_congr'
  intro e he
  rw [h e he]

theorem kidsOf_names_sublist (P : Path) (c : Assoc Path (List Entry)) : ∀ es : List Entry,
    ((kidsOf P c es).map (·.1.name)).Sublist (es.map (·.name))
  | [] => List.Sublist.slnil
  | e :: es => by
    have ih := kidsOf_names_sublist P c es
    unfold kidsOf at ih ⊢
    rw [List.filterMap_cons]
    by_cases hd : e.isTree = true
    · cases hg : aget (P ++ [e.name]) c with
      | none => simp only [hd, hg, if_true, Option.map_none]; exact ih.cons _
      | some sub => simp only [hd, hg, if_true, Option.map_some, List.map_cons]; exact ih.cons_cons _
    · simp only [hd, if_false, Bool.false_eq_true]; exact ih.cons _

theorem aget_aerase_none {κ β : Type} [DecidableEq κ] {K k : κ} {c : Assoc κ β} (h : aget K c = none) :
    aget K (aerase k c) = none := by
  by_cases hk : K = k
  · subst hk; exact aget_aerase_self _ _
  · rw [aget_aerase_ne _ hk]; exact h

theorem aget_eraseKids_none (P : Path) {K' : Path} : ∀ (K : List Kid) (c : Assoc Path (List Entry)),
    aget K' c = none → aget K' (eraseKids P K c) = none
  | [], _, h => h
  | k :: K, c, h => by
    unfold eraseKids
    rw [List.foldl_cons]
    exact aget_eraseKids_none P K _ (aget_aerase_none h)

theorem aget_eraseKids_mem (P : Path) : ∀ (K : List Kid) (c : Assoc Path (List Entry)) (k : Kid), k ∈ K →
    aget (P ++ [k.1.name]) (eraseKids P K c) = none
  | k' :: K, c, k, hk => by
    unfold eraseKids
    rw [List.foldl_cons]
    rcases List.mem_cons.1 hk with rfl | hk'
    · exact aget_eraseKids_none P K _ (aget_aerase_self _ _)
    · exact aget_eraseKids_mem P K _ k hk'

theorem scan_eq (P : Path) (idx : Nat) : ∀ (es : List Entry) (c : Assoc Path (List Entry)) (acc : List LItem),
    (es.map (·.name)).Nodup →
    scanChildren P idx es (c, acc) =
      (eraseKids P (kidsOf P c es) c, acc ++ (kidsOf P c es).map (kidItem P idx))
  | [], c, acc, _ => by simp [scanChildren, kidsOf, eraseKids]
  | e :: es, c, acc, hnd => by
    rw [List.map_cons] at hnd
    have hnd' := List.nodup_cons.1 hnd
    have hcongr : kidsOf P (aerase (P ++ [e.name]) c) es = kidsOf P c es := by
      apply kidsOf_congr
      intro x hx
      apply aget_aerase_ne
      apply path_snoc_ne
      intro heq
      exact hnd'.1 (List.mem_map.2 ⟨x, hx, heq⟩)
    unfold scanChildren
    by_cases hd : e.isTree = true
    · cases hg : aget (P ++ [e.name]) c with
      | none =>
        simp only [hd, if_true, hg]
        rw [scan_eq P idx es c acc hnd'.2]
        simp only [kidsOf, List.filterMap_cons, hd, hg, if_true, Option.map_none]
      | some sub =>
        simp only [hd, if_true, hg]
        rw [scan_eq P idx es _ _ hnd'.2, hcongr]
        simp only [kidsOf, List.filterMap_cons, hd, hg, if_true, Option.map_some, eraseKids,
          List.foldl_cons, List.map_cons, List.append_assoc, List.singleton_append, kidItem]
    · simp only [hd, if_false, Bool.false_eq_true]
      rw [scan_eq P idx es c acc hnd'.2]
      simp only [kidsOf, List.filterMap_cons, hd, if_false, Bool.false_eq_true]

/-! ### the root item: pushed back once, finalized at the end -/

theorem loop_root_final (hash : List Entry → Bytes) (fc : Bool) (f : Nat) (P : Path) (T : List Entry)
    (c : Assoc Path (List Entry)) (s : Assoc Bytes (List Entry)) (n : Nat) (hk : NoCachedKids c P T) :
    writeLoop hash fc (f + 1) ⟨[⟨none, P, T⟩], [], c, s, n⟩ =
      .done (hash (fltr T)) (n + 1) (if fc then aset P (fltr T) c else [(P, fltr T)])
        (aset (hash (fltr T)) (fltr T) s) := by
  have hp : popLast [(⟨none, P, T⟩ : LItem)] = some (⟨none, P, T⟩, []) := popLast_snoc [] _
  rw [writeLoop]
  simp only [popLast_nil, hp, List.length_nil, scanChildren_nokids P 0 T (c, []) hk, List.isEmpty_nil,
    if_true]

theorem loop_root_push (hash : List Entry → Bytes) (fc : Bool) (f : Nat) (P : Path) (T : List Entry)
    (c c1 : Assoc Path (List Entry)) (items : List LItem) (s : Assoc Bytes (List Entry)) (n : Nat)
    (hsc : scanChildren P 0 T (c, []) = (c1, items)) (hne : items ≠ []) :
    writeLoop hash fc (f + 1) ⟨[⟨none, P, T⟩], [], c, s, n⟩ =
      writeLoop hash fc f ⟨[⟨none, P, T⟩], items, c1, s, n⟩ := by
  have hp : popLast [(⟨none, P, T⟩ : LItem)] = some (⟨none, P, T⟩, []) := popLast_snoc [] _
  have hie : items.isEmpty = false := by
    cases items with
    | nil => exact absurd rfl hne
    | cons _ _ => rfl
  rw [writeLoop]
  simp only [popLast_nil, hp, List.length_nil, hsc, hie, Bool.false_eq_true, if_false, List.nil_append]

/-- at most one level of cached sub-trees below the tree `t0` at `P` -/
def Depth1 (c : Assoc Path (List Entry)) (P : Path) (t0 : List Entry) : Prop :=
  ∀ k ∈ kidsOf P c t0, NoCachedKids c (P ++ [k.1.name]) k.2

theorem nokids_of_shape {c : Assoc Path (List Entry)} {P : Path} {t t' : List Entry}
    (h : NoCachedKids c P t) (hs : ∀ x ∈ t', ∃ y ∈ t, y.name = x.name ∧ y.isTree = x.isTree) :
    NoCachedKids c P t' := by
  intro x hx hd
  obtain ⟨y, hy, hn, ht⟩ := hs x hx
  rw [← hn]
  exact h y hy (ht.trans hd)

theorem foldl_patch_shape (hash : List Entry → Bytes) : ∀ (Kr : List Kid) (T : List Entry) (x : Entry),
    x ∈ Kr.foldl (fun T k => patch hash k.1.name (fltr k.2) T) T →
    ∃ y ∈ T, y.name = x.name ∧ y.isTree = x.isTree
  | [], _, x, hx => ⟨x, hx, rfl, rfl⟩
  | k :: Kr, T, x, hx => by
    rw [List.foldl_cons] at hx
    obtain ⟨y, hy, hn, ht⟩ := foldl_patch_shape hash Kr _ x hx
    obtain ⟨z, hz, hn', ht'⟩ := mem_patch_shape hy
    exact ⟨z, hz, hn'.trans hn, ht'.trans ht⟩

theorem loop_depth1 {hash : List Entry → Bytes} (hh : HashOk hash) (fc : Bool) (P : Path)
    (c : Assoc Path (List Entry)) (s : Assoc Bytes (List Entry)) (t0 : List Entry) (g : Nat)
    (ht : TreeOk t0) (hd1 : Depth1 c P t0) (hne : kidsOf P c t0 ≠ []) :
    writeLoop hash fc (((g + 1) + (kidsOf P c t0).length) + 1) ⟨[⟨none, P, t0⟩], [], c, s, 0⟩ =
      .done (hash (fltr ((kidsOf P c t0).reverse.foldl (kidStep hash) (t0, s, 0)).1))
        (((kidsOf P c t0).reverse.foldl (kidStep hash) (t0, s, 0)).2.2 + 1)
        (if fc then aset P (fltr ((kidsOf P c t0).reverse.foldl (kidStep hash) (t0, s, 0)).1)
            (eraseKids P (kidsOf P c t0) c)
          else [(P, fltr ((kidsOf P c t0).reverse.foldl (kidStep hash) (t0, s, 0)).1)])
        (aset (hash (fltr ((kidsOf P c t0).reverse.foldl (kidStep hash) (t0, s, 0)).1))
          (fltr ((kidsOf P c t0).reverse.foldl (kidStep hash) (t0, s, 0)).1)
          ((kidsOf P c t0).reverse.foldl (kidStep hash) (t0, s, 0)).2.1) := by
  have hsc := scan_eq P 0 t0 c [] ht.uniq
  rw [List.nil_append] at hsc
  have hne' : (kidsOf P c t0).map (kidItem P 0) ≠ [] := by
    intro h; exact hne (List.map_eq_nil_iff.1 h)
  rw [loop_root_push hash fc _ P t0 c _ _ s 0 hsc hne']
  -- the children
  have hnd : ((kidsOf P c t0).reverse.map (·.1.name)).Nodup := by
    have h0 : ((kidsOf P c t0).map (·.1.name)).Nodup :=
      List.Nodup.sublist (kidsOf_names_sublist P c t0) ht.uniq
    rw [List.map_reverse]
    exact List.pairwise_reverse.2 (List.Pairwise.imp (fun h => Ne.symm h) h0)
  have hK : ∀ k ∈ (kidsOf P c t0).reverse, k.1 ∈ t0 ∧ k.1.isTree = true ∧
      NoCachedKids (eraseKids P (kidsOf P c t0) c) (P ++ [k.1.name]) k.2 := by
    intro k hk
    have hk' := List.mem_reverse.1 hk
    obtain ⟨h1, h2, _⟩ := mem_kidsOf.1 hk'
    refine ⟨h1, h2, ?_⟩
    intro e he hd
    exact aget_eraseKids_none P _ _ (hd1 k hk' e he hd)
  have hlen : (kidsOf P c t0).length = (kidsOf P c t0).reverse.length := by simp
  have hrev : (kidsOf P c t0).map (kidItem P 0) = (kidsOf P c t0).reverse.reverse.map (kidItem P 0) := by
    simp
  rw [hrev, hlen, loop_kids hh fc P _ _ t0 s 0 (g + 1) ht hK hnd]
  -- the root again: nothing cached any more
  apply loop_root_final
  apply nokids_of_shape (t := t0)
  · intro e he hd
    cases hg : aget (P ++ [e.name]) c with
    | none => exact aget_eraseKids_none P _ _ hg
    | some sub =>
      exact aget_eraseKids_mem P _ c (e, sub) (mem_kidsOf.2 ⟨he, hd, hg⟩)
  · intro x hx
    rw [foldl_kidStep_fst] at hx
    exact foldl_patch_shape hash _ _ x hx

/-! ### the recursion with one level of cached sub-trees -/

/-- what the recursion makes of the entry `e` of the tree at `P` (one level) -/
def gE (hash : List Entry → Bytes) (P : Path) (c : Assoc Path (List Entry)) (e : Entry) : Option Entry :=
  if e.isTree then
    match aget (P ++ [e.name]) c with
    | some sub => if (fltr sub).isEmpty then none else keepE { e with oid := hash (fltr sub) }
    | none => keepE e
  else keepE e

theorem nokids_aerase {c : Assoc Path (List Entry)} {P : Path} {t : List Entry} (k : Path)
    (h : NoCachedKids c P t) : NoCachedKids (aerase k c) P t :=
  fun e he hd => aget_aerase_none (h e he hd)

theorem wstep_kid (hash : List Entry → Bytes) (f : Nat) (P : Path) (st : WState) (e : Entry)
    (sub : List Entry) (hd : e.isTree = true) (hg : aget (P ++ [e.name]) st.cache = some sub)
    (hnc : NoCachedKids st.cache (P ++ [e.name]) sub) :
    wstep hash (writeTree hash (f + 1)) P st e =
      (⟨aerase (P ++ [e.name]) st.cache, (kst hash (st.store, st.calls) (e, sub)).1,
        (kst hash (st.store, st.calls) (e, sub)).2⟩, gE hash P st.cache e) := by
  have hrec := writeTree_nokids hash f { st with cache := aerase (P ++ [e.name]) st.cache }
    (P ++ [e.name]) sub (nokids_aerase _ hnc)
  by_cases he : (fltr sub).isEmpty = true
  · simp [wstep, hd, hg, hrec, gE, kst, he]
  · simp [wstep, hd, hg, hrec, gE, kst, he, keepE]

theorem wstep_nokid (hash : List Entry → Bytes)
    (rec : WState → Path → List Entry → WState × List Entry) (P : Path) (st : WState) (e : Entry)
    (h : e.isTree = true → aget (P ++ [e.name]) st.cache = none) :
    wstep hash rec P st e = (st, gE hash P st.cache e) := by
  by_cases hd : e.isTree = true
  · simp [wstep, hd, h hd, keepE, gE]
  · simp [wstep, hd, keepE, gE]

theorem gE_congr {hash : List Entry → Bytes} {P : Path} {c c' : Assoc Path (List Entry)} {e : Entry}
    (h : aget (P ++ [e.name]) c' = aget (P ++ [e.name]) c) : gE hash P c' e = gE hash P c e := by
  unfold gE; rw [h]

theorem mapAccum_d1 (hash : List Entry → Bytes) (f : Nat) (P : Path) :
    ∀ (es : List Entry) (st : WState), (es.map (·.name)).Nodup →
      (∀ k ∈ kidsOf P st.cache es, NoCachedKids st.cache (P ++ [k.1.name]) k.2) →
      mapAccum (wstep hash (writeTree hash (f + 1)) P) st es =
        (⟨eraseKids P (kidsOf P st.cache es) st.cache,
          ((kidsOf P st.cache es).foldl (kst hash) (st.store, st.calls)).1,
          ((kidsOf P st.cache es).foldl (kst hash) (st.store, st.calls)).2⟩,
         es.map (gE hash P st.cache))
  | [], st, _, _ => rfl
  | e :: es, st, hnd, hK => by
    rw [List.map_cons] at hnd
    have hnd' := List.nodup_cons.1 hnd
    have hne : ∀ x ∈ es, P ++ [x.name] ≠ P ++ [e.name] := by
      intro x hx
      apply path_snoc_ne
      intro heq
      exact hnd'.1 (List.mem_map.2 ⟨x, hx, heq⟩)
    by_cases hkid : e.isTree = true ∧ ∃ sub, aget (P ++ [e.name]) st.cache = some sub
    · obtain ⟨hd, sub, hg⟩ := hkid
      have hmem : ((e, sub) : Kid) ∈ kidsOf P st.cache (e :: es) := mem_kidsOf.2 ⟨by simp, hd, hg⟩
      have hcongr : kidsOf P (aerase (P ++ [e.name]) st.cache) es = kidsOf P st.cache es :=
        kidsOf_congr (fun x hx => aget_aerase_ne _ (hne x hx))
      have hK' : ∀ k ∈ kidsOf P (aerase (P ++ [e.name]) st.cache) es,
          NoCachedKids (aerase (P ++ [e.name]) st.cache) (P ++ [k.1.name]) k.2 := by
        intro k hk
        rw [hcongr] at hk
        obtain ⟨h1, h2, h3⟩ := mem_kidsOf.1 hk
        exact nokids_aerase _ (hK k (mem_kidsOf.2 ⟨List.mem_cons_of_mem _ h1, h2, h3⟩))
      have hcons : kidsOf P st.cache (e :: es) = (e, sub) :: kidsOf P st.cache es := by
        simp only [kidsOf, List.filterMap_cons, hd, hg, if_true, Option.map_some]
      have hmap : es.map (gE hash P (aerase (P ++ [e.name]) st.cache)) = es.map (gE hash P st.cache) :=
        List.map_congr_left (fun x hx => gE_congr (aget_aerase_ne _ (hne x hx)))
      simp only [mapAccum]
      rw [wstep_kid hash f P st e sub hd hg (hK _ hmem)]
      rw [mapAccum_d1 hash f P es _ hnd'.2 hK']
      simp only [hcongr, hcons, hmap, eraseKids, List.foldl_cons, List.map_cons]
    · have hn : e.isTree = true → aget (P ++ [e.name]) st.cache = none := by
        intro hd
        cases hg : aget (P ++ [e.name]) st.cache with
        | none => rfl
        | some sub => exact absurd ⟨hd, sub, hg⟩ hkid
      have hcons : kidsOf P st.cache (e :: es) = kidsOf P st.cache es := by
        by_cases hd : e.isTree = true
        · simp only [kidsOf, List.filterMap_cons, hd, hn hd, if_true, Option.map_none]
        · simp only [kidsOf, List.filterMap_cons, hd, if_false, Bool.false_eq_true]
      have hK' : ∀ k ∈ kidsOf P st.cache es, NoCachedKids st.cache (P ++ [k.1.name]) k.2 := by
        intro k hk
        rw [← hcons] at hk
        exact hK k hk
      simp only [mapAccum]
      rw [wstep_nokid hash _ P st e hn, mapAccum_d1 hash f P es st hnd'.2 hK']
      simp only [hcons, List.map_cons]

/-! ### loop result = recursion result: the tree -/

def pfun (hash : List Entry → Bytes) (name : Bytes) (o : List Entry) (e : Entry) : Option Entry :=
  if e.name = name then (if o.isEmpty then none else some { e with oid := hash o }) else some e

theorem patch_eq_pfun (hash : List Entry → Bytes) (name : Bytes) (o t : List Entry) :
    patch hash name o t = t.filterMap (pfun hash name o) := rfl

theorem pfun_ne {hash : List Entry → Bytes} {name : Bytes} {o : List Entry} {x : Entry}
    (h : x.name ≠ name) : pfun hash name o x = some x := by simp [pfun, h]

theorem pfun_name {hash : List Entry → Bytes} {name : Bytes} {o : List Entry} {x y : Entry}
    (h : pfun hash name o x = some y) : y.name = x.name := by
  unfold pfun at h
  by_cases hn : x.name = name
  · rw [if_pos hn] at h
    by_cases ho : o.isEmpty = true
    · rw [if_pos ho] at h; cases h
    · rw [if_neg ho] at h; cases h; rfl
  · rw [if_neg hn] at h; cases h; rfl

def composeK (hash : List Entry → Bytes) (Kr : List Kid) (φ : Entry → Option Entry) : Entry → Option Entry :=
  Kr.foldl (fun φ k e => (φ e).bind (pfun hash k.1.name (fltr k.2))) φ

theorem foldl_patch_filterMap (hash : List Entry → Bytes) :
    ∀ (Kr : List Kid) (φ : Entry → Option Entry) (t : List Entry),
      Kr.foldl (fun T k => patch hash k.1.name (fltr k.2) T) (t.filterMap φ) =
        t.filterMap (composeK hash Kr φ)
  | [], _, _ => rfl
  | k :: Kr, φ, t => by
    have h1 : patch hash k.1.name (fltr k.2) (t.filterMap φ) =
        t.filterMap (fun e => (φ e).bind (pfun hash k.1.name (fltr k.2))) := by
      rw [patch_eq_pfun, List.filterMap_filterMap]
    rw [List.foldl_cons, h1, foldl_patch_filterMap hash Kr]
    rfl

theorem composeK_skip (hash : List Entry → Bytes) (e : Entry) (nm : Bytes) :
    ∀ (Kr : List Kid) (φ : Entry → Option Entry), (∀ k ∈ Kr, k.1.name ≠ nm) →
      (∀ x, φ e = some x → x.name = nm) → composeK hash Kr φ e = φ e
  | [], _, _, _ => rfl
  | k :: Kr, φ, hK, hφ => by
    have h1 : (φ e).bind (pfun hash k.1.name (fltr k.2)) = φ e := by
      cases hx : φ e with
      | none => rfl
      | some x =>
        have : x.name ≠ k.1.name := by
          rw [hφ x hx]; exact fun h => hK k (by simp) h.symm
        simp [pfun_ne this]
    have := composeK_skip hash e nm Kr (fun e => (φ e).bind (pfun hash k.1.name (fltr k.2)))
      (fun k' hk' => hK k' (List.mem_cons_of_mem _ hk')) (by rw [h1]; exact hφ)
    unfold composeK at this ⊢
    rw [List.foldl_cons, this, h1]

theorem composeK_hit (hash : List Entry → Bytes) (e x : Entry) (k : Kid) :
    ∀ (Kr : List Kid) (φ : Entry → Option Entry), (Kr.map (·.1.name)).Nodup → k ∈ Kr →
      φ e = some x → x.name = k.1.name →
      composeK hash Kr φ e = pfun hash k.1.name (fltr k.2) x
  | k' :: Kr, φ, hnd, hk, hx, hn => by
    rw [List.map_cons] at hnd
    have hnd' := List.nodup_cons.1 hnd
    unfold composeK
    rw [List.foldl_cons]
    rcases List.mem_cons.1 hk with rfl | hk'
    · have h1 : (φ e).bind (pfun hash k.1.name (fltr k.2)) = pfun hash k.1.name (fltr k.2) x := by
        rw [hx]; rfl
      have := composeK_skip hash e k.1.name Kr (fun e => (φ e).bind (pfun hash k.1.name (fltr k.2)))
        (fun k2 hk2 heq => hnd'.1 (List.mem_map.2 ⟨k2, hk2, heq⟩))
        (by
          intro y hy
          rw [h1] at hy
          exact (pfun_name hy).trans hn)
      unfold composeK at this
      rw [this, h1]
    · have hne : x.name ≠ k'.1.name := by
        rw [hn]
        intro heq
        exact hnd'.1 (List.mem_map.2 ⟨k, hk', heq⟩)
      have h1 : (φ e).bind (pfun hash k'.1.name (fltr k'.2)) = some x := by
        rw [hx]; exact pfun_ne hne
      have := composeK_hit hash e x k Kr (fun e => (φ e).bind (pfun hash k'.1.name (fltr k'.2)))
        hnd'.2 hk' h1 hn
      unfold composeK at this
      exact this

theorem filter_eq_filterMap_keepE (t : List Entry) : (fltr t) = t.filterMap keepE := by
  rw [← filterMap_keepE, List.filterMap_map]
  rfl

theorem loop_tree_eq {hash : List Entry → Bytes} (P : Path) (c : Assoc Path (List Entry))
    (t0 : List Entry) (ht : TreeOk t0) :
    (fltr ((kidsOf P c t0).reverse.foldl (fun T k => patch hash k.1.name (fltr k.2) T) t0)) =
      t0.filterMap (gE hash P c) := by
  have h := foldl_patch_filterMap hash (kidsOf P c t0).reverse some t0
  rw [List.filterMap_some] at h
  rw [h, filter_eq_filterMap_keepE, List.filterMap_filterMap]
  apply filterMap_congr'
  intro e he
  have hnd : ((kidsOf P c t0).reverse.map (·.1.name)).Nodup := by
    have h0 : ((kidsOf P c t0).map (·.1.name)).Nodup :=
      List.Nodup.sublist (kidsOf_names_sublist P c t0) ht.uniq
    rw [List.map_reverse]
    exact List.pairwise_reverse.2 (List.Pairwise.imp (fun h => Ne.symm h) h0)
  by_cases hkid : e.isTree = true ∧ ∃ sub, aget (P ++ [e.name]) c = some sub
  · obtain ⟨hd, sub, hg⟩ := hkid
    have hmem : ((e, sub) : Kid) ∈ (kidsOf P c t0).reverse :=
      List.mem_reverse.2 (mem_kidsOf.2 ⟨he, hd, hg⟩)
    rw [composeK_hit hash e e (e, sub) _ some hnd hmem rfl rfl]
    by_cases hem : (fltr sub).isEmpty = true
    · simp [pfun, gE, hd, hg, hem]
    · simp [pfun, gE, hd, hg, hem]
  · have hsk : ∀ k ∈ (kidsOf P c t0).reverse, k.1.name ≠ e.name := by
      intro k hk heq
      obtain ⟨h1, h2, h3⟩ := mem_kidsOf.1 (List.mem_reverse.1 hk)
      have : k.1 = e := uniq_name_eq ht.uniq h1 he heq
      rw [this] at h2 h3
      exact hkid ⟨h2, k.2, h3⟩
    rw [composeK_skip hash e e.name _ some hsk (fun x hx => by cases hx; rfl)]
    by_cases hd : e.isTree = true
    · cases hg : aget (P ++ [e.name]) c with
      | none => simp [gE, hd, hg]
      | some sub => exact absurd ⟨hd, sub, hg⟩ hkid
    · simp [gE, hd]

/-! ### loop result = recursion result: calls and store (the loop writes the children in reverse) -/

theorem kst_calls (hash : List Entry → Bytes) : ∀ (K : List Kid) (a : Assoc Bytes (List Entry) × Nat),
    (K.foldl (kst hash) a).2 = a.2 + (K.filter (fun k => !(fltr k.2).isEmpty)).length
  | [], _ => rfl
  | k :: K, a => by
    rw [List.foldl_cons, kst_calls hash K]
    by_cases he : (fltr k.2).isEmpty = true
    · simp [kst, he, List.filter_cons]
    · simp [kst, he, List.filter_cons]; omega

theorem kst_calls_reverse (hash : List Entry → Bytes) (K : List Kid) (a : Assoc Bytes (List Entry) × Nat) :
    (K.reverse.foldl (kst hash) a).2 = (K.foldl (kst hash) a).2 := by
  rw [kst_calls, kst_calls, List.filter_reverse, List.length_reverse]

theorem kst_store_other (hash : List Entry → Bytes) (i : Bytes) :
    ∀ (K : List Kid) (a : Assoc Bytes (List Entry) × Nat),
      (∀ k ∈ K, (fltr k.2).isEmpty = false → hash (fltr k.2) ≠ i) →
      aget i (K.foldl (kst hash) a).1 = aget i a.1
  | [], _, _ => rfl
  | k :: K, a, h => by
    rw [List.foldl_cons, kst_store_other hash i K _ (fun k' hk' => h k' (List.mem_cons_of_mem _ hk'))]
    by_cases he : (fltr k.2).isEmpty = true
    · simp [kst, he]
    · have he' : (fltr k.2).isEmpty = false := by simpa using he
      simp only [kst, he, if_false, Bool.false_eq_true]
      exact aget_aset_ne _ _ (fun heq => h k (by simp) he' heq.symm)

theorem kst_store_mem {hash : List Entry → Bytes} (hh : HashOk hash) :
    ∀ (K : List Kid) (a : Assoc Bytes (List Entry) × Nat) (k : Kid), k ∈ K →
      (fltr k.2).isEmpty = false →
      aget (hash (fltr k.2)) (K.foldl (kst hash) a).1 = some (fltr k.2)
  | k' :: K, a, k, hk, he => by
    rw [List.foldl_cons]
    by_cases hlater : ∃ k2 ∈ K, (fltr k2.2).isEmpty = false ∧ hash (fltr k2.2) = hash (fltr k.2)
    · obtain ⟨k2, hk2, he2, hh2⟩ := hlater
      have := kst_store_mem hh K (kst hash a k') k2 hk2 he2
      rw [hh2, hh.inj _ _ hh2] at this
      exact this
    · rcases List.mem_cons.1 hk with rfl | hk'
      · rw [kst_store_other hash _ K _ (fun k2 hk2 he2 heq => hlater ⟨k2, hk2, he2, heq⟩)]
        simp only [kst, he, if_false, Bool.false_eq_true]
        exact aget_aset_self _ _ _
      · exact absurd ⟨k, hk', he, rfl⟩ hlater

theorem kst_store_reverse {hash : List Entry → Bytes} (hh : HashOk hash) (K : List Kid)
    (a : Assoc Bytes (List Entry) × Nat) (i : Bytes) :
    aget i (K.reverse.foldl (kst hash) a).1 = aget i (K.foldl (kst hash) a).1 := by
  by_cases hex : ∃ k ∈ K, (fltr k.2).isEmpty = false ∧ hash (fltr k.2) = i
  · obtain ⟨k, hk, he, rfl⟩ := hex
    rw [kst_store_mem hh K a k hk he, kst_store_mem hh K.reverse a k (List.mem_reverse.2 hk) he]
  · rw [kst_store_other hash i K a (fun k hk he heq => hex ⟨k, hk, he, heq⟩),
      kst_store_other hash i K.reverse a
        (fun k hk he heq => hex ⟨k, List.mem_reverse.1 hk, he, heq⟩)]

/-! ### depth 1 -/

theorem kids_length_le (P : Path) : ∀ (K : List Kid) (c : Assoc Path (List Entry)),
    (K.map (·.1.name)).Nodup → (∀ k ∈ K, ∃ v, aget (P ++ [k.1.name]) c = some v) →
    K.length ≤ c.length
  | [], _, _, _ => Nat.zero_le _
  | k :: K, c, hnd, h => by
    rw [List.map_cons] at hnd
    have hnd' := List.nodup_cons.1 hnd
    obtain ⟨v, hv⟩ := h k (by simp)
    have hlt := aerase_length_lt hv
    have ih := kids_length_le P K (aerase (P ++ [k.1.name]) c) hnd'.2 (by
      intro k' hk'
      obtain ⟨v', hv'⟩ := h k' (List.mem_cons_of_mem _ hk')
      refine ⟨v', ?_⟩
      rw [aget_aerase_ne _ (path_snoc_ne (fun heq => hnd'.1 (List.mem_map.2 ⟨k', hk', heq⟩)))]
      exact hv')
    rw [List.length_cons]
    omega

theorem aget_aset_congr {κ β : Type} [DecidableEq κ] {A B : Assoc κ β} (k : κ) (v : β)
    (h : ∀ i, aget i A = aget i B) (i : κ) : aget i (aset k v A) = aget i (aset k v B) := by
  by_cases hi : i = k
  · subst hi; rw [aget_aset_self, aget_aset_self]
  · rw [aget_aset_ne _ _ hi, aget_aset_ne _ _ hi]; exact h i

theorem writeTree_succ (hash : List Entry → Bytes) (fuel : Nat) (st : WState) (P : Path) (t : List Entry) :
    writeTree hash (fuel + 1) st P t =
      ((mapAccum (wstep hash (writeTree hash fuel) P) st t).1,
       (mapAccum (wstep hash (writeTree hash fuel) P) st t).2.filterMap id) := rfl

/-- Depth 1: when the cached sub-trees of the tree being written have no cached sub-trees
themselves, the literal loop and the recursion return the same id, the same number of `out` calls,
the same cache, and stores with the same content (the loop calls `out` for the children in reverse
order, so the two association lists are permutations of each other). -/
theorem write_loop_eq_recursion_depth1 {hash : List Entry → Bytes} (hh : HashOk hash) (ed : Ed)
    (fromCursor : Bool) (root0 : List Entry) (hP : aget ed.pathBuf ed.trees = some root0)
    (ht : TreeOk root0) (hd1 : Depth1 (aerase ed.pathBuf ed.trees) ed.pathBuf root0) :
    ∃ id calls ed' trees2 store2, writeAt hash ed fromCursor = .ok id calls ed' ∧
      writeAtLoop hash ed fromCursor = .done id calls trees2 store2 ∧
      ed'.trees = trees2 ∧ ∀ i, aget i ed'.store = aget i store2 := by
  by_cases hK : kidsOf ed.pathBuf (aerase ed.pathBuf ed.trees) root0 = []
  · have hnk : NoCachedKids (aerase ed.pathBuf ed.trees) ed.pathBuf root0 := by
      intro e he hd
      cases hg : aget (ed.pathBuf ++ [e.name]) (aerase ed.pathBuf ed.trees) with
      | none => rfl
      | some sub =>
        have : ((e, sub) : Kid) ∈ kidsOf ed.pathBuf (aerase ed.pathBuf ed.trees) root0 :=
          mem_kidsOf.2 ⟨he, hd, hg⟩
        rw [hK] at this
        cases this
    obtain ⟨id, calls, ed', hw, hl⟩ := write_loop_eq_recursion_depth0 hash ed fromCursor root0 hP hnk
    exact ⟨id, calls, ed', _, _, hw, hl, rfl, fun _ => rfl⟩
  · have hnd : ((kidsOf ed.pathBuf (aerase ed.pathBuf ed.trees) root0).map (·.1.name)).Nodup :=
      List.Nodup.sublist (kidsOf_names_sublist _ _ root0) ht.uniq
    have hle := kids_length_le ed.pathBuf _ (aerase ed.pathBuf ed.trees) hnd
      (fun k hk => ⟨k.2, (mem_kidsOf.1 hk).2.2⟩)
    have hpos : 0 < (kidsOf ed.pathBuf (aerase ed.pathBuf ed.trees) root0).length :=
      List.length_pos_iff.2 hK
    obtain ⟨f, hf⟩ : ∃ f, (aerase ed.pathBuf ed.trees).length = f + 1 := ⟨_, (Nat.succ_pred_eq_of_pos (by omega)).symm⟩
    obtain ⟨g, hg⟩ : ∃ g, 4 * (aerase ed.pathBuf ed.trees).length + 8 =
        ((g + 1) + (kidsOf ed.pathBuf (aerase ed.pathBuf ed.trees) root0).length) + 1 :=
      ⟨4 * (aerase ed.pathBuf ed.trees).length + 6 -
        (kidsOf ed.pathBuf (aerase ed.pathBuf ed.trees) root0).length, by omega⟩
    have hrec := mapAccum_d1 hash f ed.pathBuf root0 ⟨aerase ed.pathBuf ed.trees, ed.store, 0⟩ ht.uniq hd1
    dsimp only at hrec
    have hfm : (root0.map (gE hash ed.pathBuf (aerase ed.pathBuf ed.trees))).filterMap id =
        root0.filterMap (gE hash ed.pathBuf (aerase ed.pathBuf ed.trees)) := by
      rw [List.filterMap_map]; rfl
    have hw : writeAt hash ed fromCursor = .ok
        (hash (root0.filterMap (gE hash ed.pathBuf (aerase ed.pathBuf ed.trees))))
        (((kidsOf ed.pathBuf (aerase ed.pathBuf ed.trees) root0).foldl (kst hash) (ed.store, 0)).2 + 1)
        { ed with
          trees := (if fromCursor then aset ed.pathBuf
                (root0.filterMap (gE hash ed.pathBuf (aerase ed.pathBuf ed.trees)))
                (eraseKids ed.pathBuf (kidsOf ed.pathBuf (aerase ed.pathBuf ed.trees) root0)
                  (aerase ed.pathBuf ed.trees))
              else [(ed.pathBuf, root0.filterMap (gE hash ed.pathBuf (aerase ed.pathBuf ed.trees)))]),
          store := aset (hash (root0.filterMap (gE hash ed.pathBuf (aerase ed.pathBuf ed.trees))))
            (root0.filterMap (gE hash ed.pathBuf (aerase ed.pathBuf ed.trees)))
            ((kidsOf ed.pathBuf (aerase ed.pathBuf ed.trees) root0).foldl (kst hash) (ed.store, 0)).1 } := by
      simp only [writeAt, hP, hf]
      rw [writeTree_succ, hrec]
      simp only [hfm]
    have hl := loop_depth1 hh fromCursor ed.pathBuf (aerase ed.pathBuf ed.trees) ed.store root0 g ht hd1 hK
    simp only [foldl_kidStep_fst, foldl_kidStep_snd, loop_tree_eq ed.pathBuf _ root0 ht,
      kst_calls_reverse] at hl
    rw [← hg] at hl
    have hl2 : writeAtLoop hash ed fromCursor =
        writeLoop hash fromCursor (4 * (aerase ed.pathBuf ed.trees).length + 8)
          ⟨[⟨none, ed.pathBuf, root0⟩], [], aerase ed.pathBuf ed.trees, ed.store, 0⟩ := by
      simp only [writeAtLoop, hP]
    refine ⟨_, _, _, _, _, hw, hl2.trans hl, rfl, ?_⟩
    exact aget_aset_congr _ _ (fun i => (kst_store_reverse hh _ _ i).symm)

end GixModel.C04
