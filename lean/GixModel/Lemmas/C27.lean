import GixModel.Model.C27Core
import GixModel.Spec.C27
/-
Helper lemmas for C27: `normalize` is the plain unquote loop; both integer readers reduce to one
canonical decimal reading (`decRead`) on plain decimals; the range checks coincide except at i64::MIN.
-/
namespace GixModel.C27
open GixModel GixModel.C26

theorem unescLoop_plain : ∀ (v out : Bytes), v.all (fun b => b != 92 && b != 34) = true → unescLoop v out = out ++ v := by
  intro v out
  fun_induction unescLoop v out <;> intro h <;> simp_all

theorem normTail_eq (v : Bytes) : normTail v = unescLoop v [] := by
  unfold normTail
  split
  · rename_i h; rw [unescLoop_plain v [] h]; simp
  · rfl

theorem getLast?_tail2 {c d : UInt8} {r : Bytes} (h : (c :: d :: r).getLast? ≠ some 92) :
    r.getLast? ≠ some 92 := by
  cases r with
  | nil => simp
  | cons x t => simpa [List.getLast?_cons_cons] using h

theorem getLast?_tail1 {c d : UInt8} {r : Bytes} (h : (c :: d :: r).getLast? ≠ some 92) :
    (d :: r).getLast? ≠ some 92 := by
  simpa [List.getLast?_cons_cons] using h

/-- appending a closing quote to text that does not end in a backslash changes nothing -/
theorem unescLoop_snoc_quote : ∀ (m out : Bytes), m.getLast? ≠ some 92 →
    unescLoop (m ++ [34]) out = unescLoop m out := by
  intro m out
  fun_induction unescLoop m out <;> intro h
  · simp [unescLoop]
  · rename_i hc; simp at hc; simp [hc] at h
  · rename_i hc hq; simp at hc hq; subst hq; simp [unescLoop]
  · rename_i hc hq; simp at hc hq; simp [unescLoop, hc, hq]
  all_goals
    rename_i ih
    first
      | (have := ih (getLast?_tail2 h); simp only [List.cons_append] at this ⊢; rw [unescLoop]; simp_all)
      | (have := ih (getLast?_tail1 h); simp only [List.cons_append] at this ⊢; rw [unescLoop]; simp_all)

theorem unescLoop_cons_quote (rest out : Bytes) : unescLoop (34 :: rest) out = unescLoop rest out := by
  cases rest with
  | nil => simp [unescLoop]
  | cons d r => rw [unescLoop]; simp

theorem stripCond_decomp {v : Bytes} (h : stripCond v = true) :
    ∃ m : Bytes, v = 34 :: (m ++ [34]) ∧ m.getLast? ≠ some 92 := by
  unfold stripCond at h
  simp only [Bool.and_eq_true, decide_eq_true_eq, beq_iff_eq, bne_iff_ne, ne_eq] at h
  obtain ⟨⟨⟨hlen, hhead⟩, hlast⟩, hpen⟩ := h
  cases v with
  | nil => simp at hlen
  | cons a t =>
    simp at hhead; subst hhead
    have htne : t ≠ [] := by intro ht; subst ht; simp at hlen
    have hdl := List.dropLast_concat_getLast htne
    have hl : t.getLast htne = 34 := by
      have : (34 :: t).getLast? = t.getLast? := by
        cases t with
        | nil => exact absurd rfl htne
        | cons x y => simp [List.getLast?_cons_cons]
      rw [this, List.getLast?_eq_some_getLast htne] at hlast
      simpa using hlast
    have ht : t = t.dropLast ++ [34] := by rw [← hl]; exact hdl.symm
    generalize t.dropLast = m at ht
    subst ht
    refine ⟨m, rfl, ?_⟩
    intro hm
    apply hpen
    have hmne : m ≠ [] := by intro h0; rw [h0] at hm; simp at hm
    have hpos : 0 < m.length := List.length_pos_iff.mpr hmne
    have hlen2 : (34 :: (m ++ [34])).length - 2 = (m.length - 1) + 1 := by simp; omega
    rw [hlen2, List.getElem?_cons_succ, List.getElem?_append_left (by omega)]
    rw [← hm, List.getLast?_eq_getElem?]

theorem strip_eq {v : Bytes} (h : stripCond v = true) :
    unescLoop ((v.drop 1).dropLast) [] = unescLoop v [] := by
  obtain ⟨m, rfl, hm⟩ := stripCond_decomp h
  simp only [List.drop_succ_cons, List.drop_zero, List.dropLast_concat]
  rw [unescLoop_cons_quote, unescLoop_snoc_quote m [] hm]

theorem stripLoop_eq : ∀ (f : Nat) (v : Bytes), stripLoop f v = unescLoop v [] := by
  intro f
  induction f with
  | zero => intro v; simp [stripLoop, normTail_eq]
  | succ f ih =>
    intro v
    simp only [stripLoop]
    split
    · rename_i hc
      have := strip_eq hc
      split
      · rename_i h2
        simp only [beq_iff_eq] at h2
        rw [← this, h2]; simp [unescLoop]
      · rw [ih, this]
    · exact normTail_eq v

/-- `normalize` is the plain unquote/unescape loop: the quote-stripping and the borrowed fast
path never change the result -/
theorem normalize_eq (v : Bytes) : normalize v = unescLoop v [] := by
  unfold normalize
  split
  · rename_i h; simp at h; subst h; simp [unescLoop]
  · exact stripLoop_eq _ _

theorem forall_uint8 (p : UInt8 → Bool) (h : (List.range 256).all (fun n => p (UInt8.ofNat n)) = true) :
    ∀ c : UInt8, p c = true := by
  intro c
  have := List.all_eq_true.mp h c.toNat (by simp [List.mem_range]; exact c.toNat_lt)
  simpa using this

def sval (neg : Bool) (ds : Bytes) : Int := if neg then -(decNat ds : Int) else (decNat ds : Int)

def inI64 (v : Int) : Prop := i64Min ≤ v ∧ v ≤ i64Max
instance (v : Int) : Decidable (inI64 v) := by unfold inI64; infer_instance

/-- canonical reading of a decimal: sign, digits, rest -/
def decRead (s : Bytes) : Option (Int × Bytes) :=
  let ds := (signOf s).2.takeWhile isDig
  if ds.isEmpty then none
  else if inI64 (sval (signOf s).1 ds) then some (sval (signOf s).1 ds, (signOf s).2.dropWhile isDig) else none

theorem all_iff_dropWhile_nil (p : UInt8 → Bool) (l : Bytes) : l.all p = true ↔ l.dropWhile p = [] := by
  induction l with
  | nil => simp
  | cons a t ih =>
    by_cases h : p a = true
    · simp [List.dropWhile_cons, h, ih]
    · simp [List.dropWhile_cons, h]

theorem takeWhile_eq_self_of_all (p : UInt8 → Bool) (l : Bytes) (h : l.all p = true) : l.takeWhile p = l := by
  induction l with
  | nil => simp
  | cons a t ih => simp at h; simp [List.takeWhile_cons, h.1, ih (by simpa using h.2)]

theorem rust_eq_decRead (s : Bytes) :
    rustParseI64 s = match decRead s with
      | some (v, []) => some v
      | _ => none := by
  have key : ∀ (neg : Bool) (body : Bytes), signOf s = (neg, body) →
      rustDigits neg body = match decRead s with | some (v, []) => some v | _ => none := by
    intro neg body hs
    unfold rustDigits decRead
    simp only [hs]
    by_cases hall : body.all isDig = true
    · have h1 := takeWhile_eq_self_of_all isDig body hall
      have h2 := (all_iff_dropWhile_nil isDig body).mp hall
      rw [h1, h2]
      by_cases he : body.isEmpty = true
      · simp [he]
      · simp only [he, hall, Bool.not_true, Bool.or_false, Bool.false_eq_true, ↓reduceIte]
        unfold sval inI64
        split <;> (split <;> simp_all)
    · have h2 : body.dropWhile isDig ≠ [] := fun h => hall ((all_iff_dropWhile_nil isDig body).mpr h)
      simp only [hall, Bool.not_false, Bool.or_true, ↓reduceIte]
      split
      · rename_i v heq
        split at heq
        · simp at heq
        · split at heq
          · simp at heq; exact absurd heq.2 h2
          · simp at heq
      · rfl
  unfold rustParseI64
  split
  · exact key false _ rfl
  · exact key true _ rfl
  · rename_i ds h1 h2
    apply key false s
    unfold signOf
    split
    · exact absurd rfl (h2 _)
    · exact absurd rfl (h1 _)
    · rfl

theorem digit10_isSome : ∀ c : UInt8, ((digitVal 10 c).isSome == isDig c) = true :=
  forall_uint8 _ (by decide +kernel)

theorem digit10_val : ∀ c : UInt8, (!isDig c || (digitVal 10 c).getD 0 == c.toNat - 48) = true :=
  forall_uint8 _ (by decide +kernel)

theorem digit10_fun : (fun c => (digitVal 10 c).isSome) = isDig := by
  funext c; have := digit10_isSome c; simpa using this

theorem foldl_dec (ds : Bytes) (h : ∀ c ∈ ds, isDig c = true) (a : Nat) :
    ds.foldl (fun a c => a * 10 + (digitVal 10 c).getD 0) a = ds.foldl (fun acc b => acc * 10 + (b.toNat - 48)) a := by
  induction ds generalizing a with
  | nil => rfl
  | cons c t ih =>
    have hc := h c (by simp)
    have hv := digit10_val c
    simp [hc] at hv
    simp only [List.foldl_cons, hv]
    exact ih (fun x hx => h x (by simp [hx])) _

/-- the text does not start with C whitespace and is not `0`-prefixed (octal / hex for git) -/
def plainDecimal (s : Bytes) : Bool :=
  !(s.head?.any cIsSpace) && !(decide ((signOf s).2.length > 1) && (signOf s).2.head? == some 48)

theorem takeWhile_all' (p : UInt8 → Bool) (l : Bytes) : ∀ x ∈ l.takeWhile p, p x = true := by
  induction l with
  | nil => simp
  | cons a l ih =>
    intro x hx
    simp only [List.takeWhile_cons] at hx
    split at hx
    · simp at hx; rcases hx with rfl | hx
      · assumption
      · exact ih x hx
    · simp at hx

theorem strtoimax_eq_decRead (s : Bytes) (h : plainDecimal s = true) : strtoimax s = decRead s := by
  unfold plainDecimal at h
  simp only [Bool.and_eq_true, Bool.not_eq_true', Bool.and_eq_false_imp, decide_eq_true_eq] at h
  obtain ⟨h1, h2⟩ := h
  have hs1 : s.dropWhile cIsSpace = s := by
    cases s with
    | nil => rfl
    | cons a t => simp at h1; simp [List.dropWhile_cons, h1]
  unfold strtoimax decRead
  simp only [hs1]
  generalize hb : signOf s = sb at *
  obtain ⟨neg, body⟩ := sb
  simp only at h2 ⊢
  by_cases h48 : body = [48]
  · subst h48
    cases neg <;> decide
  · have hbase : baseOf body = (10, body) := by
      unfold baseOf
      split
      · rename_i x hh r
        exact absurd (h2 (by simp)) (by simp)
      · rename_i t hnot
        cases t with
        | nil => exact absurd rfl h48
        | cons y t' => exact absurd (h2 (by simp)) (by simp)
      · rfl
    rw [hbase]
    simp only [spanP, digit10_fun]
    by_cases he : (body.takeWhile isDig).isEmpty = true
    · simp [he]
    · simp only [he, Bool.false_eq_true, ↓reduceIte]
      have := foldl_dec (body.takeWhile isDig) (takeWhile_all' isDig body) 0
      rw [this]
      rfl

theorem range_check (v : Int) (f : Nat) (hf : f = 1 ∨ f = 1024 ∨ f = 1048576 ∨ f = 1073741824) :
    ((v < 0 ∧ Int.tdiv (-i64Max) f > v) ∨ (v > 0 ∧ i64Max / f < v)) ↔ ¬ (i64Min < v * f ∧ v * f ≤ i64Max) := by
  unfold i64Max i64Min
  rcases hf with rfl | rfl | rfl | rfl
  · have : Int.tdiv (-9223372036854775807) ((1 : Nat) : Int) = -9223372036854775807 := by decide
    rw [this]; omega
  · have : Int.tdiv (-9223372036854775807) ((1024 : Nat) : Int) = -9007199254740991 := by decide
    rw [this]; omega
  · have : Int.tdiv (-9223372036854775807) ((1048576 : Nat) : Int) = -8796093022207 := by decide
    rw [this]; omega
  · have : Int.tdiv (-9223372036854775807) ((1073741824 : Nat) : Int) = -8589934591 := by decide
    rw [this]; omega
def isUnit (u : UInt8) : Bool := u == 107 || u == 75 || u == 109 || u == 77 || u == 103 || u == 71

/-- the extracted suffix table agrees with `get_unit_factor` on every byte -/
def suffixTableOk (t : List (UInt8 × Nat)) : Bool :=
  (List.range 256).all fun n => suffixMul t (UInt8.ofNat n) == unitFactor [UInt8.ofNat n]

theorem suffixTable_spec {t : List (UInt8 × Nat)} (h : suffixTableOk t = true) (c : UInt8) :
    suffixMul t c = unitFactor [c] := by
  have := forall_uint8 (fun c => suffixMul t c == unitFactor [c]) h c
  simpa using this

theorem digit_facts : ∀ c : UInt8, (!isDig c || (c != 45 && c != 43 && !cIsSpace c && !isUnit c)) = true :=
  forall_uint8 _ (by decide +kernel)

theorem unit_facts : ∀ c : UInt8, (!isUnit c || (!isDig c && (unitFactor [c] == some 1024 || unitFactor [c] == some 1048576 || unitFactor [c] == some 1073741824))) = true :=
  forall_uint8 _ (by decide +kernel)

/-- a decimal spelling: optional sign, digits (no leading zero unless it is the single digit 0
without suffix), optional unit letter -/
structure Spelled where
  pre : Bytes
  ds : Bytes
  suf : Bytes

def Spelled.bytes (x : Spelled) : Bytes := x.pre ++ x.ds ++ x.suf

def Spelled.ok (x : Spelled) : Prop :=
  (x.pre = [] ∨ x.pre = [45] ∨ x.pre = [43]) ∧ x.ds ≠ [] ∧ (∀ c ∈ x.ds, isDig c = true) ∧
  (x.ds.head? ≠ some 48 ∨ (x.ds = [48] ∧ x.suf = [])) ∧ (x.suf = [] ∨ ∃ u, x.suf = [u] ∧ isUnit u = true)

def Spelled.neg (x : Spelled) : Bool := x.pre == [45]

theorem takeWhile_append_stop (p : UInt8 → Bool) (ds suf : Bytes) (h : ∀ c ∈ ds, p c = true)
    (hs : suf.head?.all (fun c => !p c) = true) :
    (ds ++ suf).takeWhile p = ds ∧ (ds ++ suf).dropWhile p = suf := by
  induction ds with
  | nil =>
    cases suf with
    | nil => simp
    | cons u t => simp at hs; simp [List.takeWhile_cons, List.dropWhile_cons, hs]
  | cons c t ih =>
    have hc := h c (by simp)
    have := ih (fun x hx => h x (by simp [hx]))
    simp [List.takeWhile_cons, List.dropWhile_cons, hc, this]

theorem signOf_spelled (x : Spelled) (h : x.ok) : signOf x.bytes = (x.neg, x.ds ++ x.suf) := by
  obtain ⟨hpre, hne, hall, _, _⟩ := h
  unfold Spelled.bytes Spelled.neg
  rcases hpre with hp | hp | hp <;> rw [hp]
  · cases hd : x.ds with
    | nil => exact absurd hd hne
    | cons c t =>
      have := digit_facts c
      have hc := hall c (by simp [hd])
      simp [hc] at this
      unfold signOf
      simp only [List.nil_append, List.cons_append]
      split
      · rename_i heq; simp at heq; exact absurd heq.1 this.1.1.1
      · rename_i heq; simp at heq; exact absurd heq.1 this.1.1.2
      · rfl
  · rfl
  · rfl

theorem decRead_spelled (x : Spelled) (h : x.ok) :
    decRead x.bytes = if inI64 (sval x.neg x.ds) then some (sval x.neg x.ds, x.suf) else none := by
  have hs := signOf_spelled x h
  obtain ⟨_, hne, hall, _, hsuf⟩ := h
  have hstop : x.suf.head?.all (fun c => !isDig c) = true := by
    rcases hsuf with h0 | ⟨u, hu, hunit⟩
    · simp [h0]
    · have := unit_facts u; simp [hunit] at this; simp [hu, this.1]
  obtain ⟨h1, h2⟩ := takeWhile_append_stop isDig x.ds x.suf hall hstop
  unfold decRead
  simp only [hs, h1, h2]
  have : x.ds.isEmpty = false := by cases hd : x.ds with | nil => exact absurd hd hne | cons _ _ => rfl
  simp [this]

theorem plain_spelled (x : Spelled) (h : x.ok) : plainDecimal x.bytes = true := by
  have hs := signOf_spelled x h
  obtain ⟨hpre, hne, hall, hz, hsuf⟩ := h
  unfold plainDecimal
  simp only [hs, Bool.and_eq_true, Bool.not_eq_true']
  constructor
  · unfold Spelled.bytes
    rcases hpre with hp | hp | hp <;> rw [hp]
    · cases hd : x.ds with
      | nil => exact absurd hd hne
      | cons c t =>
        have := digit_facts c
        have hc := hall c (by simp [hd])
        simp [hc] at this
        simp [this.1.2]
    · simp [cIsSpace]
    · simp [cIsSpace]
  · rcases hz with hz | ⟨h48, hs0⟩
    · cases hd : x.ds with
      | nil => exact absurd hd hne
      | cons c t => rw [hd] at hz; simp at hz; simp [hz]
    · simp [h48, hs0]


theorem digit_not_unit : ∀ c : UInt8, (!isDig c || unitFactor [c] == none) = true :=
  forall_uint8 _ (by decide +kernel)

def dropMin (o : Option Int) : Option Int := o.bind fun v => if v = i64Min then none else some v

theorem unitFactor_vals {e : Bytes} {f : Nat} (h : unitFactor e = some f) :
    f = 1 ∨ f = 1024 ∨ f = 1048576 ∨ f = 1073741824 := by
  unfold unitFactor at h
  split at h
  · simp at h; omega
  · split at h
    · simp at h; omega
    · split at h
      · simp at h; omega
      · split at h
        · simp at h; omega
        · simp at h
  · simp at h

/-- `git_parse_signed`'s overflow test says: the product lies in `(i64::MIN, i64::MAX]` -/
theorem signed_check (v : Int) (e : Bytes) :
    (match unitFactor e with
      | none => none
      | some f => if (v < 0 ∧ Int.tdiv (-i64Max) f > v) ∨ (v > 0 ∧ i64Max / f < v) then none else some (v * f)) =
    (match unitFactor e with
      | none => none
      | some f => if i64Min < v * f ∧ v * f ≤ i64Max then some (v * f) else none) := by
  cases hu : unitFactor e with
  | none => rfl
  | some f =>
    have := range_check v f (unitFactor_vals hu)
    simp only
    by_cases hc : (v < 0 ∧ Int.tdiv (-i64Max) f > v) ∨ (v > 0 ∧ i64Max / f < v)
    · have h2 := this.mp hc
      rw [if_pos hc, if_neg h2]
    · have h2 : i64Min < v * f ∧ v * f ≤ i64Max :=
        Decidable.byContradiction fun hcon => hc (this.mpr hcon)
      rw [if_neg hc, if_pos h2]

theorem gitInt_spelled (x : Spelled) (h : x.ok) :
    gitInt x.bytes = if inI64 (sval x.neg x.ds) then
        (match unitFactor x.suf with
         | none => none
         | some f => if i64Min < sval x.neg x.ds * f ∧ sval x.neg x.ds * f ≤ i64Max then some (sval x.neg x.ds * f) else none)
      else none := by
  have hne : x.bytes.isEmpty = false := by
    obtain ⟨_, hne, _⟩ := h
    unfold Spelled.bytes
    cases hd : x.ds with
    | nil => exact absurd hd hne
    | cons c t => simp
  unfold gitInt gitParseSigned
  rw [strtoimax_eq_decRead _ (plain_spelled x h), decRead_spelled x h]
  simp only [hne, Bool.false_eq_true, ↓reduceIte]
  by_cases hin : inI64 (sval x.neg x.ds)
  · simp only [hin, ↓reduceIte]
    exact signed_check _ _
  · simp only [hin, ↓reduceIte]


theorem rust_spelled (x : Spelled) (h : x.ok) (hs : x.suf = []) :
    rustParseI64 x.bytes = if inI64 (sval x.neg x.ds) then some (sval x.neg x.ds) else none := by
  rw [rust_eq_decRead, decRead_spelled x h, hs]
  by_cases hin : inI64 (sval x.neg x.ds) <;> simp [hin]

theorem rust_spelled_suffix (x : Spelled) (h : x.ok) (u : UInt8) (hs : x.suf = [u]) :
    rustParseI64 x.bytes = none := by
  rw [rust_eq_decRead, decRead_spelled x h, hs]
  split
  · rename_i v heq; split at heq <;> simp at heq
  · rfl

theorem gixInt_spelled (t : List (UInt8 × Nat)) (ht : suffixTableOk t = true) (x : Spelled) (h : x.ok) :
    gixIntWith t x.bytes = if inI64 (sval x.neg x.ds) then
        (match unitFactor x.suf with
         | none => none
         | some f => if i64Min ≤ sval x.neg x.ds * f ∧ sval x.neg x.ds * f ≤ i64Max then some (sval x.neg x.ds * f) else none)
      else none := by
  have hok := h
  obtain ⟨hpre, hne, hall, hz, hsuf⟩ := h
  rcases hsuf with h0 | ⟨u, hu, hunit⟩
  · -- no suffix
    unfold gixIntWith
    rw [rust_spelled x hok h0]
    by_cases hin : inI64 (sval x.neg x.ds)
    · have hin' := hin
      unfold inI64 at hin'
      simp [hin, h0, unitFactor, hin'.1, hin'.2]
    · simp only [hin, ↓reduceIte]
      split
      · rfl
      · -- the last byte is a digit, which is no suffix
        have hlast : ∃ c, x.bytes.getLast? = some c ∧ isDig c = true := by
          unfold Spelled.bytes
          rw [h0, List.append_nil]
          have hdne : x.pre ++ x.ds ≠ [] := by simp [hne]
          refine ⟨(x.pre ++ x.ds).getLast hdne, List.getLast?_eq_some_getLast hdne, ?_⟩
          rw [List.getLast_append_of_ne_nil _ hne]
          exact hall _ (List.getLast_mem hne)
        obtain ⟨c, hc, hd⟩ := hlast
        have hsm : suffixMul t c = none := by
          rw [suffixTable_spec ht]
          have := digit_not_unit c; simp [hd] at this; exact this
        rw [hc]
        cases rustParseI64 x.bytes.dropLast with
        | none => rfl
        | some v => simp [hsm]
  · -- unit suffix
    have uf := unit_facts u
    simp [hunit] at uf
    let y : Spelled := { pre := x.pre, ds := x.ds, suf := [] }
    have hy : y.ok := by
      refine ⟨hpre, hne, hall, ?_, Or.inl rfl⟩
      rcases hz with hz | ⟨_, hs0⟩
      · exact Or.inl hz
      · rw [hu] at hs0; simp at hs0
    have hdl : x.bytes.dropLast = y.bytes := by
      unfold Spelled.bytes; simp [hu, y, ← List.append_assoc, List.dropLast_concat]
    have hgl : x.bytes.getLast? = some u := by
      unfold Spelled.bytes; simp [hu]
    have hlen : ¬ x.bytes.length ≤ 1 := by
      unfold Spelled.bytes
      have : 0 < x.ds.length := List.length_pos_iff.mpr hne
      simp [hu]; omega
    unfold gixIntWith
    rw [rust_spelled_suffix x hok u hu]
    simp only [hlen, ↓reduceIte, hdl, hgl]
    rw [rust_spelled y hy rfl]
    have hneg : y.neg = x.neg := rfl
    simp only [hneg, y]
    by_cases hin : inI64 (sval x.neg x.ds)
    · simp only [hin, ↓reduceIte, suffixTable_spec ht, hu]
      cases unitFactor [u] <;> rfl
    · simp only [hin, ↓reduceIte]

/-- git and gitoxide on a decimal spelling: the same, except that git rejects `i64::MIN` -/
theorem int_spelled_eq (t : List (UInt8 × Nat)) (ht : suffixTableOk t = true) (x : Spelled) (h : x.ok) :
    gitInt x.bytes = dropMin (gixIntWith t x.bytes) := by
  rw [gitInt_spelled x h, gixInt_spelled t ht x h]
  by_cases hin : inI64 (sval x.neg x.ds)
  · simp only [hin, ↓reduceIte]
    cases unitFactor x.suf with
    | none => rfl
    | some f =>
      simp only [dropMin]
      by_cases h1 : i64Min ≤ sval x.neg x.ds * f ∧ sval x.neg x.ds * f ≤ i64Max
      · by_cases h2 : sval x.neg x.ds * f = i64Min
        · have : ¬ (i64Min < sval x.neg x.ds * f ∧ sval x.neg x.ds * f ≤ i64Max) := by rw [h2]; simp
          rw [if_neg this, if_pos h1, h2]; simp
        · have : i64Min < sval x.neg x.ds * f ∧ sval x.neg x.ds * f ≤ i64Max := ⟨by omega, h1.2⟩
          simp [h1, h2, this]
      · have : ¬ (i64Min < sval x.neg x.ds * f ∧ sval x.neg x.ds * f ≤ i64Max) := by
          intro hc; exact h1 ⟨by omega, hc.2⟩
        simp [h1, this]
  · simp [hin, dropMin]

/-- the extracted boolean spellings are git's (as sets; the empty value is false, not true) -/
def boolTableOk (tw : List Bytes) (te : Bool) (fw : List Bytes) (fe : Bool) : Bool :=
  tw.all (gitTrueWords.contains ·) && gitTrueWords.all (tw.contains ·) && !te &&
  fw.all (gitFalseWords.contains ·) && gitFalseWords.all (fw.contains ·) && fe

theorem any_congr_of_subset {a b : List Bytes} (p : Bytes → Bool) (h1 : a.all (b.contains ·) = true)
    (h2 : b.all (a.contains ·) = true) : a.any p = b.any p := by
  have m1 : ∀ w ∈ a, w ∈ b := by
    intro w hw; have := List.all_eq_true.mp h1 w hw; simpa using this
  have m2 : ∀ w ∈ b, w ∈ a := by
    intro w hw; have := List.all_eq_true.mp h2 w hw; simpa using this
  cases ha : a.any p with
  | true =>
    obtain ⟨w, hw, hp⟩ := List.any_eq_true.mp ha
    exact (List.any_eq_true.mpr ⟨w, m1 w hw, hp⟩).symm
  | false =>
    cases hb : b.any p with
    | false => rfl
    | true =>
      obtain ⟨w, hw, hp⟩ := List.any_eq_true.mp hb
      have := List.any_eq_true.mpr ⟨w, m2 w hw, hp⟩
      rw [ha] at this; exact absurd this (by simp)

/-- one of git's boolean words (any ASCII case), or the empty value -/
def isBoolWord (s : Bytes) : Bool :=
  gitTrueWords.any (eqIgnoreCase s) || gitFalseWords.any (eqIgnoreCase s) || s.isEmpty

/-- with git's spellings, gitoxide's boolean reading can differ from git's only through the
numeric fallback, i.e. only on values that are not boolean words -/
theorem gixBool_eq_of_numbers (tw : List Bytes) (te : Bool) (fw : List Bytes) (fe : Bool)
    (hok : boolTableOk tw te fw fe = true) (s : Bytes)
    (hnum : isBoolWord s = false →
      (rustParseI64 s).map (fun v => v != 0) = (gitParseSigned 2147483647 s).map (fun v => v != 0)) :
    gixBoolWith tw te fw fe s = gitBool s := by
  unfold boolTableOk at hok
  simp only [Bool.and_eq_true, Bool.not_eq_true'] at hok
  obtain ⟨⟨⟨⟨⟨h1, h2⟩, hte⟩, h3⟩, h4⟩, hfe⟩ := hok
  have e1 : (tw.any fun w => eqIgnoreCase s w) = gitTrueWords.any (eqIgnoreCase s) :=
    any_congr_of_subset (eqIgnoreCase s) h1 h2
  have e2 : (fw.any fun w => eqIgnoreCase s w) = gitFalseWords.any (eqIgnoreCase s) :=
    any_congr_of_subset (eqIgnoreCase s) h3 h4
  unfold gixBoolWith gitBool
  simp only [hte, hfe, Bool.false_and, Bool.or_false, Bool.true_and]
  rw [e1, e2]
  by_cases ht : gitTrueWords.any (eqIgnoreCase s) = true
  · simp [ht]
  · by_cases hf : (gitFalseWords.any (eqIgnoreCase s) || s.isEmpty) = true
    · simp only [ht, hf]; simp
    · simp only [ht, hf]
      have : isBoolWord s = false := by
        unfold isBoolWord
        simp only [Bool.not_eq_true] at ht hf
        simp only [Bool.or_eq_false_iff] at hf ⊢
        exact ⟨⟨ht, hf.1⟩, hf.2⟩
      rw [hnum this]

theorem git32_spelled (x : Spelled) (h : x.ok) (hs : x.suf = [])
    (hr : -2147483647 ≤ sval x.neg x.ds ∧ sval x.neg x.ds ≤ 2147483647) :
    gitParseSigned 2147483647 x.bytes = some (sval x.neg x.ds) := by
  have hne : x.bytes.isEmpty = false := by
    obtain ⟨_, hne, _⟩ := h
    unfold Spelled.bytes
    cases hd : x.ds with
    | nil => exact absurd hd hne
    | cons c t => simp
  have hin : inI64 (sval x.neg x.ds) := by unfold inI64 i64Min i64Max; omega
  unfold gitParseSigned
  rw [strtoimax_eq_decRead _ (plain_spelled x h), decRead_spelled x h]
  simp only [hne, Bool.false_eq_true, ↓reduceIte, hin, hs, unitFactor]
  have t1 : Int.tdiv (-2147483647) ((1 : Nat) : Int) = -2147483647 := by decide
  have hc : ¬ ((sval x.neg x.ds < 0 ∧ Int.tdiv (-2147483647) ((1 : Nat) : Int) > sval x.neg x.ds) ∨
      (sval x.neg x.ds > 0 ∧ (2147483647 : Int) / ((1 : Nat) : Int) < sval x.neg x.ds)) := by
    rw [t1]; omega
  rw [if_neg hc]; simp

/-- decimal spellings without unit suffix within git's 32-bit `int`: both read the same boolean -/
theorem bool_spelled_eq (tw : List Bytes) (te : Bool) (fw : List Bytes) (fe : Bool)
    (hok : boolTableOk tw te fw fe = true) (x : Spelled) (h : x.ok) (hs : x.suf = [])
    (hr : -2147483647 ≤ sval x.neg x.ds ∧ sval x.neg x.ds ≤ 2147483647) :
    gixBoolWith tw te fw fe x.bytes = gitBool x.bytes := by
  apply gixBool_eq_of_numbers tw te fw fe hok
  intro _
  have hin : inI64 (sval x.neg x.ds) := by unfold inI64 i64Min i64Max; omega
  rw [git32_spelled x h hs hr, rust_spelled x h hs, if_pos hin]

/-- boolean words: equal with no condition on numbers -/
theorem bool_word_eq (tw : List Bytes) (te : Bool) (fw : List Bytes) (fe : Bool)
    (hok : boolTableOk tw te fw fe = true) (s : Bytes) (hw : isBoolWord s = true) :
    gixBoolWith tw te fw fe s = gitBool s := by
  apply gixBool_eq_of_numbers tw te fw fe hok
  intro hn; rw [hw] at hn; exact absurd hn (by simp)


/-! ### matching and lookup -/

theorem eqIgnoreCase_iff : ∀ (a b : Bytes), eqIgnoreCase a b = true ↔ a.map asciiLower = b.map asciiLower := by
  intro a
  induction a with
  | nil => intro b; cases b <;> simp [eqIgnoreCase]
  | cons x t ih =>
    intro b
    cases b with
    | nil => simp [eqIgnoreCase]
    | cons y u => simp [eqIgnoreCase, ih u]

theorem findSome_reverse_split {α β} (f : α → Option β) : ∀ (l : List α) (v : β),
    l.reverse.findSome? f = some v →
      ∃ pre x post, l = pre ++ x :: post ∧ f x = some v ∧ ∀ t ∈ post, f t = none := by
  intro l
  induction l with
  | nil => intro v h; simp at h
  | cons a t ih =>
    intro v h
    rw [List.reverse_cons, List.findSome?_append] at h
    cases ht : t.reverse.findSome? f with
    | some w =>
      rw [ht] at h
      simp at h
      subst h
      obtain ⟨pre, x, post, hl, hx, hp⟩ := ih w ht
      exact ⟨a :: pre, x, post, by simp [hl], hx, hp⟩
    | none =>
      rw [ht] at h
      simp at h
      refine ⟨[], a, t, rfl, h, ?_⟩
      intro u hu
      have := List.findSome?_eq_none_iff.mp ht u (by simpa using hu)
      exact this

end GixModel.C27
