import GixModel.Lemmas.C40Ntfs
/-
C40 — lemmas, part 4: plain ".git"/".gitmodules" spellings, `verify_dotfile`, the loop of
`verify_path` on a single component, and the implication itself.
-/
namespace GixModel.C40
open GixModel

/-! #### names that are plain ASCII ".git" / ".gitmodules" in any case -/

theorem ign_small : ∀ c, c < 128 → Spec.C40.hfsIgnorable.contains c = false := by decide +kernel

theorem decode1_ascii (b : UInt8) (t : Bytes) (h : b ≤ 0x7f) : decode1 b t = (some b.toNat, 1) := by
  simp [decode1, h]

theorem filt_ascii {t : Tables} (ht : ignorableOk t = true) (l : Bytes) (h : ∀ b ∈ l, b ≤ 0x7f) :
    filt t l = l.map (·.toNat) := by
  induction l with
  | nil => rfl
  | cons b l ih =>
    have hb := h b (List.mem_cons_self ..)
    have hlt : b.toNat < 128 := by
      have := UInt8.le_iff_toNat_le.1 hb; simp at this; omega
    unfold filt at ih ⊢
    rw [chars_cons, decode1_ascii b l hb]
    have hk : t.ignorable.contains b.toNat = false := by rw [ignorable_eq ht]; exact ign_small _ hlt
    simp only [Option.getD_some, Nat.sub_self, List.drop_zero, List.filter_cons, hk,
      Bool.not_false, if_true, List.map_cons]
    rw [ih (fun x hx => h x (List.mem_cons_of_mem _ hx))]

theorem lower_ascii (a : UInt8) :
    ((97 ≤ Spec.C40.toLower a && Spec.C40.toLower a ≤ 122) = true → a ≤ 0x7f)
    ∧ (Spec.C40.toLower a).toNat = (if 65 ≤ a.toNat ∧ a.toNat ≤ 90 then a.toNat + 32 else a.toNat) := by
  revert a; apply forall_byte; decide +kernel

theorem ascii_of_prefix : ∀ (l needle : Bytes), needleOk needle = true → Spec.C40.hasPrefixIC l needle = true →
    l.length = needle.length → (∀ b ∈ l, b ≤ 0x7f) ∧ hfsCompare needle (l.map (·.toNat)) = true := by
  intro l needle
  induction needle generalizing l with
  | nil =>
    intro _ _ hl
    have : l = [] := List.eq_nil_of_length_eq_zero (by simpa using hl)
    subst this
    exact ⟨by simp, rfl⟩
  | cons n ns ih =>
    intro hn h hl
    simp only [needleOk, List.all_cons, Bool.and_eq_true] at hn
    cases l with
    | nil => simp at hl
    | cons a l =>
      simp only [Spec.C40.hasPrefixIC, Bool.and_eq_true, beq_iff_eq] at h
      obtain ⟨i1, i2⟩ := ih l (by simpa [needleOk] using hn.2) h.2 (by simpa using hl)
      have hna : (97 ≤ Spec.C40.toLower a && Spec.C40.toLower a ≤ 122) = true := by
        rw [h.1]; simp only [Bool.and_eq_true]; exact hn.1
      refine ⟨?_, ?_⟩
      · intro b hb
        rcases List.mem_cons.1 hb with rfl | hb
        · exact (lower_ascii b).1 hna
        · exact i1 b hb
      · simp only [List.map_cons, hfsCompare, Bool.and_eq_true]
        refine ⟨?_, i2⟩
        simp only [charEqIC, toLower_needle n (by simp only [Bool.and_eq_true]; exact hn.1), beq_iff_eq]
        rw [← h.1, (lower_ascii a).2]

theorem dotfile_hfs {t : Tables} (ht : ignorableOk t = true) (body needle : Bytes) (hn : needleOk needle = true)
    (hp : Spec.C40.hasPrefixIC body needle = true) (hl : body.length = needle.length) :
    isDotHfs t (46 :: body) needle = true := by
  obtain ⟨ha, hc⟩ := ascii_of_prefix body needle hn hp hl
  have hall : ∀ b ∈ (46 : UInt8) :: body, b ≤ 0x7f := by
    intro b hb
    rcases List.mem_cons.1 hb with rfl | hb
    · decide
    · exact ha b hb
  unfold isDotHfs
  have : (chars (46 :: body)).filter (fun c => !t.ignorable.contains c) = ((46 : UInt8) :: body).map (·.toNat) :=
    filt_ascii ht _ hall
  rw [this]
  exact hc

theorem dotfile_eqIC (body needle : Bytes) (hn : needleOk needle = true)
    (hp : Spec.C40.hasPrefixIC body needle = true) (hl : body.length = needle.length) :
    eqIC body needle = true := by
  rw [hasPrefix_eq _ _ hn] at hp
  simp only [Bool.and_eq_true] at hp
  rw [← hl, List.take_length] at hp
  exact hp.2

theorem t46 : toLower 46 = 46 := by decide

theorem dotfile_git_ntfs (body : Bytes) (hp : Spec.C40.hasPrefixIC body Spec.C40.needleGit = true)
    (hl : body.length = 3) : isDotGitNtfs (46 :: body) = true := by
  have he := dotfile_eqIC body Spec.C40.needleGit (by decide) hp hl
  unfold isDotGitNtfs
  rw [getRange_zero _ 4 (by simp [hl]), getFrom_le _ 4 (by simp [hl])]
  have h4 : List.take 4 (46 :: body) = 46 :: body := by
    rw [List.take_of_length_le]; simp [hl]
  have hd : List.drop 4 (46 :: body) = [] := List.drop_eq_nil_of_le (by simp [hl])
  have : eqIC (46 :: body) [46, 103, 105, 116] = true := by
    simp only [eqIC, t46, beq_self_eq_true, Bool.true_and]; exact he
  simp only [h4, this, if_true, hd, isDoneNtfs, doneNtfsSlice]

theorem dotfile_modules_ntfs (body : Bytes) (hp : Spec.C40.hasPrefixIC body Spec.C40.needleGitmodules = true)
    (hl : body.length = 10) : isDotNtfs (46 :: body) gitmodules gi7eba = true := by
  have he := dotfile_eqIC body Spec.C40.needleGitmodules (by decide) hp hl
  unfold isDotNtfs
  have hr : getRange (46 :: body) 1 (1 + gitmodules.length) = some body := by
    have : gitmodules.length = 10 := rfl
    simp only [getRange, this, List.length_cons, hl]
    simp [List.take_of_length_le, hl]
  have hd : List.drop (1 + gitmodules.length) (46 :: body) = [] :=
    List.drop_eq_nil_of_le (by simp [hl, gitmodules])
  have he' : eqIC body gitmodules = true := he
  simp only [List.head?_cons, beq_self_eq_true, if_true, hr, he', isDone_getFrom, hd, doneNtfsSlice]

theorem ne47_of_contains {b : UInt8} {l : Bytes} (h : (b :: l).contains 47 = false) :
    (b == 47) = false ∧ l.contains 47 = false := by
  simp only [List.contains_cons, Bool.or_eq_false_iff] at h
  refine ⟨?_, h.2⟩
  cases hb : b == 47
  · rfl
  · have : b = 47 := by simpa using hb
    subst this; simp at h

/-- which rests make `verify_dotfile` refuse, when there is no '/' -/
theorem verifyDotfile_false (s : Bool) (rest : Bytes) (h : Spec.C40.verifyDotfile s rest = false)
    (h47 : rest.contains 47 = false) :
    rest = [] ∨ rest = [46]
      ∨ (Spec.C40.hasPrefixIC rest Spec.C40.needleGit = true ∧ rest.length = 3)
      ∨ (s = true ∧ Spec.C40.hasPrefixIC rest Spec.C40.needleGitmodules = true ∧ rest.length = 10) := by
  unfold Spec.C40.verifyDotfile at h
  split at h
  · exact Or.inl rfl
  · simp at h47
  · rename_i r
    split at h
    · exact Or.inr (Or.inl rfl)
    · simp at h47
    · cases h
  · rename_i g r _ _
    by_cases hg : (Spec.C40.toLower g != 103) = true
    · simp [hg] at h
    have hg' : Spec.C40.toLower g = 103 := by simpa using bfalse hg
    simp only [bfalse hg, Bool.false_eq_true, if_false] at h
    split at h
    · rename_i i t r3
      by_cases hi : (Spec.C40.toLower i != 105) = true
      · simp [hi] at h
      have hi' : Spec.C40.toLower i = 105 := by simpa using bfalse hi
      simp only [bfalse hi, Bool.false_eq_true, if_false] at h
      by_cases ht : (Spec.C40.toLower t != 116) = true
      · simp [ht] at h
      have ht' : Spec.C40.toLower t = 116 := by simpa using bfalse ht
      simp only [bfalse ht, Bool.false_eq_true, if_false] at h
      split at h
      · right; right; left
        simp [Spec.C40.hasPrefixIC, Spec.C40.needleGit, hg', hi', ht']
      · simp at h47
      · by_cases hm : (s && Spec.C40.hasPrefixIC r3 [109, 111, 100, 117, 108, 101, 115]) = true
        · simp only [hm, if_true] at h
          simp only [Bool.and_eq_true] at hm
          right; right; right
          have hlen : 7 ≤ r3.length := by
            have := hasPrefix_eq r3 [109, 111, 100, 117, 108, 101, 115] (by decide)
            rw [hm.2] at this
            have := this.symm
            simp only [Bool.and_eq_true, decide_eq_true_eq] at this
            exact this.1
          have hd : r3.drop 7 = [] := by
            split at h
            · assumption
            · rename_i tl hd
              have : (47 : UInt8) ∈ r3 := List.mem_of_mem_drop (by rw [hd]; exact List.mem_cons_self ..)
              simp only [List.contains_cons, Bool.or_eq_false_iff] at h47
              have : r3.contains 47 = true := by simpa using this
              rw [h47.2.2.2] at this; cases this
            · cases h
          have hl7 : r3.length = 7 := by
            have := List.drop_eq_nil_iff.1 hd; omega
          refine ⟨hm.1, ?_, by simp [hl7]⟩
          simp only [Spec.C40.hasPrefixIC, Spec.C40.needleGitmodules, hg', hi', ht', beq_self_eq_true, Bool.true_and]
          exact hm.2
        · simp [bfalse hm] at h
    · split at h <;> cases h
    · cases h

/-- past the first character of a component, `verify_path` only acts on '/' and (with
core.protectNTFS) on '\\' -/
theorem vp_false_true (n h s : Bool) (rest : Bytes) (h47 : rest.contains 47 = false)
    (h92 : rest.contains 92 = false ∨ n = false) : Spec.C40.vp n h s false rest = true := by
  induction rest with
  | nil => rfl
  | cons c rest ih =>
    obtain ⟨e47, r47⟩ := ne47_of_contains h47
    unfold Spec.C40.vp
    simp only [e47, Bool.false_eq_true, if_false]
    have hcond : (c == 92 && n) = false := by
      rcases h92 with h92 | h92
      · simp only [List.contains_cons, Bool.or_eq_false_iff] at h92
        have : (c == 92) = false := by
          cases hb : c == 92
          · rfl
          · have : c = 92 := by simpa using hb
            subst this; simp at h92
        simp [this]
      · simp [h92]
    simp only [hcond, Bool.false_eq_true, if_false]
    apply ih r47
    rcases h92 with h92 | h92
    · left
      simp only [List.contains_cons, Bool.or_eq_false_iff] at h92
      exact h92.2
    · exact Or.inr h92

/-- a check that fires makes `component` return an error -/
theorem fires {t : Tables} {o : Opts} {s : Bool} {c : Bytes} (i : Nat) (b : Bool) (e : Err)
    (hi : (checks t o s c)[i]? = some (b, e)) (hb : b = true) : (component t o s c).isSome = true := by
  unfold component
  rw [Option.isSome_map, List.find?_isSome]
  exact ⟨(b, e), List.mem_of_getElem? hi, hb⟩

/-- The one-directional property for every table passing `ignorableOk`, every byte string without
NUL, every option combination and mode: git refuses ⇒ gitoxide refuses, except in the two recorded
families (backslash as separator with protect_ntfs but not protect_windows; git's HFS test ending at
a malformed UTF-8 sequence). -/
theorem git_refuses_imp {t : Tables} (ht : ignorableOk t = true) (o : Opts) (s : Bool) (c : Bytes)
    (h0 : c.contains 0 = false) (hg : Spec.C40.gitVerifyPath o.ntfs o.hfs s c = false) :
    (component t o s c).isSome = true
      ∨ (o.ntfs = true ∧ o.windows = false ∧ c.contains 92 = true)
      ∨ (o.hfs = true ∧
          ((Spec.C40.isHfsDotgit c = true ∧ Spec.C40.hfsEndsMalformed c Spec.C40.needleGit = true)
            ∨ (s = true ∧ Spec.C40.isHfsDotgitmodules c = true
                ∧ Spec.C40.hfsEndsMalformed c Spec.C40.needleGitmodules = true))) := by
  -- empty
  cases c with
  | nil => exact Or.inl (fires 0 _ _ rfl rfl)
  | cons x rest =>
  -- a '/' anywhere
  by_cases h47 : (x :: rest).contains 47 = true
  · left
    cases hw : o.windows
    · exact fires 4 _ _ rfl (by rw [hw, h47]; rfl)
    · exact fires 2 _ _ rfl (by rw [hw, h47]; rfl)
  have h47' := bfalse h47
  -- a '\\' anywhere
  by_cases hbs : (x :: rest).contains 92 = true ∧ ¬ (o.windows = false ∧ o.ntfs = false)
  · obtain ⟨h92, hopt⟩ := hbs
    cases hw : o.windows
    · cases hn : o.ntfs
      · exact absurd ⟨hw, hn⟩ hopt
      · exact Or.inr (Or.inl ⟨rfl, rfl, h92⟩)
    · exact Or.inl (fires 2 _ _ rfl (by rw [hw, h92]; simp only [Bool.or_true, Bool.and_self]))
  have h92 : (x :: rest).contains 92 = false ∨ o.ntfs = false := by
    by_cases h : (x :: rest).contains 92 = true
    · right
      have : o.windows = false ∧ o.ntfs = false := Classical.not_not.1 (fun hh => hbs ⟨h, hh⟩)
      exact this.2
    · exact Or.inl (bfalse h)
  obtain ⟨x47, r47⟩ := ne47_of_contains h47'
  have hrest92 : rest.contains 92 = false ∨ o.ntfs = false := by
    rcases h92 with h | h
    · left
      simp only [List.contains_cons, Bool.or_eq_false_iff] at h
      exact h.2
    · exact Or.inr h
  have hloop := vp_false_true o.ntfs o.hfs s rest r47 hrest92
  unfold Spec.C40.gitVerifyPath Spec.C40.vp at hg
  simp only [x47, Bool.or_false, hloop] at hg
  -- either a start check refused, or verify_dotfile did
  by_cases hsc : Spec.C40.startChecks o.ntfs o.hfs s (x :: rest) = true
  · -- verify_dotfile
    simp only [hsc, Bool.true_and] at hg
    have hdot : (x == 46 && !Spec.C40.verifyDotfile s rest) = true := by
      cases hq : (x == 46 && !Spec.C40.verifyDotfile s rest)
      · simp [hq] at hg
      · rfl
    simp only [Bool.and_eq_true, beq_iff_eq, Bool.not_eq_eq_eq_not, Bool.not_true] at hdot
    obtain ⟨hx, hvd⟩ := hdot
    subst hx
    left
    rcases verifyDotfile_false s rest hvd r47 with h | h | ⟨hp, hl⟩ | ⟨hs, hp, hl⟩
    · subst h; exact fires 1 _ _ rfl rfl
    · subst h; exact fires 1 _ _ rfl rfl
    · cases hh : o.hfs
      · cases hn : o.ntfs
        · refine fires 12 _ _ rfl ?_
          have := dotfile_eqIC rest Spec.C40.needleGit (by decide) hp hl
          simp only [hh, hn, Bool.or_false, Bool.not_false, Bool.true_and, eqIC, t46, beq_self_eq_true]
          exact this
        · exact fires 7 _ _ rfl (by simp only [hn, Bool.true_and]; exact dotfile_git_ntfs rest hp hl)
      · refine fires 5 _ _ rfl ?_
        simp only [hh, Bool.true_and]
        exact dotfile_hfs ht rest Spec.C40.needleGit (by decide) hp hl
    · subst hs
      cases hh : o.hfs
      · cases hn : o.ntfs
        · refine fires 13 _ _ rfl ?_
          have := dotfile_eqIC rest Spec.C40.needleGitmodules (by decide) hp hl
          simp only [hh, hn, Bool.or_false, Bool.not_false, Bool.true_and, eqIC, t46, beq_self_eq_true]
          exact this
        · exact fires 8 _ _ rfl (by simp only [hn, Bool.true_and]; exact dotfile_modules_ntfs rest hp hl)
      · refine fires 6 _ _ rfl ?_
        simp only [hh, Bool.true_and]
        exact dotfile_hfs ht rest Spec.C40.needleGitmodules (by decide) hp hl
  · -- a start check
    have hsc' := bfalse hsc
    unfold Spec.C40.startChecks at hsc'
    simp only [Bool.and_eq_false_iff, Bool.not_eq_eq_eq_not, Bool.not_false, Bool.and_eq_true,
      Bool.or_eq_true] at hsc'
    rcases hsc' with ⟨hh, hm⟩ | ⟨hn, hm⟩
    · -- HFS
      rcases hm with hm | ⟨hs, hm⟩
      · by_cases hmal : Spec.C40.hfsEndsMalformed (x :: rest) Spec.C40.needleGit = true
        · exact Or.inr (Or.inr ⟨hh, Or.inl ⟨hm, hmal⟩⟩)
        · left
          rcases hfs_imp ht Spec.C40.needleGit (by decide) _ h0 hm (bfalse hmal) with h | h
          · exact fires 5 _ _ rfl (by simp only [hh, Bool.true_and]; exact h)
          · rw [h47'] at h; cases h
      · by_cases hmal : Spec.C40.hfsEndsMalformed (x :: rest) Spec.C40.needleGitmodules = true
        · exact Or.inr (Or.inr ⟨hh, Or.inr ⟨hs, hm, hmal⟩⟩)
        · left
          rcases hfs_imp ht Spec.C40.needleGitmodules (by decide) _ h0 hm (bfalse hmal) with h | h
          · exact fires 6 _ _ rfl (by simp only [hh, hs, Bool.true_and]; exact h)
          · rw [h47'] at h; cases h
    · -- NTFS: no backslash here
      have hno92 : (x :: rest).contains 92 = false := by
        rcases h92 with h | h
        · exact h
        · rw [hn] at h; cases h
      left
      rcases hm with hm | ⟨hs, hm⟩
      · exact fires 7 _ _ rfl (by simp only [hn, Bool.true_and]; exact isDotGitNtfs_of_git _ hm h47' hno92)
      · exact fires 8 _ _ rfl (by simp only [hn, hs, Bool.true_and]; exact isDotNtfs_of_git _ hm)

/-- what the checks rely on in the extracted device table: every reserved name of Windows is
recognised — as is, lower-cased, with an extension, with trailing spaces and a stream; and the
documented non-devices are not -/
def reservedNames : List Bytes :=
  [[65, 85, 88], [78, 85, 76], [80, 82, 78], [67, 79, 78], [67, 79, 78, 73, 78, 36], [67, 79, 78, 79, 85, 84, 36]]
    ++ (List.range 9).map (fun i => [67, 79, 77, UInt8.ofNat (49 + i)])
    ++ (List.range 9).map (fun i => [76, 80, 84, UInt8.ofNat (49 + i)])

def devicesOk (t : Tables) : Bool :=
  reservedNames.all (fun r =>
      isWinDevice t r && isWinDevice t (r.map toLower) && isWinDevice t (r ++ [46, 116, 120, 116])
        && isWinDevice t (r ++ [32, 32, 58, 120]) && !isWinDevice t (r ++ [120]))
    && !isWinDevice t [67, 79, 77] && !isWinDevice t [67, 79, 78, 73, 78] && !isWinDevice t [65, 85]

end GixModel.C40
