import GixModel.Lemmas.C18Git
/-
C18 helper lemmas, part 5: prefixes in normal form. A prefix is given by its components (non-empty,
without `/`) and by whether it ends in a slash; `splitPath`, `dropTrailingSlash` and `dirPrefix`
then relate as the prefixed iteration needs.
-/
namespace GixModel.C18
open GixModel

/-- `a/b/c` -/
def joinSlash : List Bytes → Bytes
  | [] => []
  | [c] => c
  | c :: d :: cs => c ++ 47 :: joinSlash (d :: cs)

/-- the prefix string: components joined by `/`, optionally followed by one more `/` -/
def prefixOf (comps : List Bytes) (trailing : Bool) : Bytes :=
  if trailing then dirPrefix comps else joinSlash comps

def GoodComps (comps : List Bytes) : Prop := ∀ c ∈ comps, (47 : UInt8) ∉ c ∧ c ≠ []

theorem joinSlash_slash (comps : List Bytes) (h : comps ≠ []) : joinSlash comps ++ [47] = dirPrefix comps := by
  induction comps with
  | nil => exact absurd rfl h
  | cons c cs ih =>
    cases cs with
    | nil => simp [joinSlash, dirPrefix]
    | cons d ds =>
      have := ih (by simp)
      simp only [joinSlash, dirPrefix, List.append_assoc, List.cons_append] at this ⊢
      rw [this]

theorem splitAux_comp (c : Bytes) (hc : (47 : UInt8) ∉ c) (rest cur : Bytes) :
    splitAux (c ++ 47 :: rest) cur = (cur.reverse ++ c) :: splitAux rest [] := by
  induction c generalizing cur with
  | nil => simp [splitAux]
  | cons b bs ih =>
    have hb : b ≠ 47 := fun e => hc (e ▸ List.mem_cons_self ..)
    have hbs : (47 : UInt8) ∉ bs := fun h => hc (List.mem_cons_of_mem _ h)
    simp only [List.cons_append, splitAux, hb, if_false]
    rw [ih hbs]; simp

theorem splitAux_last (c : Bytes) (hc : (47 : UInt8) ∉ c) (cur : Bytes) (hne : cur.reverse ++ c ≠ []) :
    splitAux c cur = [cur.reverse ++ c] := by
  induction c generalizing cur with
  | nil =>
    have : cur ≠ [] := by simpa using hne
    simp [splitAux, this]
  | cons b bs ih =>
    have hb : b ≠ 47 := fun e => hc (e ▸ List.mem_cons_self ..)
    have hbs : (47 : UInt8) ∉ bs := fun h => hc (List.mem_cons_of_mem _ h)
    simp only [splitAux, hb, if_false]
    rw [ih hbs]
    · simp
    · simp

theorem splitPath_dirPrefix (comps : List Bytes) (h : GoodComps comps) : splitPath (dirPrefix comps) = comps := by
  unfold splitPath
  induction comps with
  | nil => simp [dirPrefix, splitAux]
  | cons c cs ih =>
    have hc := (h c (List.mem_cons_self ..)).1
    rw [dirPrefix, splitAux_comp c hc]
    simp only [List.reverse_nil, List.nil_append]
    rw [ih (fun d hd => h d (List.mem_cons_of_mem _ hd))]

theorem splitPath_joinSlash (comps : List Bytes) (h : GoodComps comps) : splitPath (joinSlash comps) = comps := by
  unfold splitPath
  induction comps with
  | nil => simp [joinSlash, splitAux]
  | cons c cs ih =>
    have hc := h c (List.mem_cons_self ..)
    cases cs with
    | nil =>
      simp only [joinSlash]
      rw [splitAux_last c hc.1 [] (by simpa using hc.2)]
      simp
    | cons d ds =>
      simp only [joinSlash]
      rw [splitAux_comp c hc.1]
      simp only [List.reverse_nil, List.nil_append]
      rw [ih (fun d hd => h d (List.mem_cons_of_mem _ hd))]

theorem splitPath_prefixOf (comps : List Bytes) (t : Bool) (h : GoodComps comps) :
    splitPath (prefixOf comps t) = comps := by
  cases t
  · simpa [prefixOf] using splitPath_joinSlash comps h
  · simpa [prefixOf] using splitPath_dirPrefix comps h

theorem joinSlash_getLast (comps : List Bytes) (h : GoodComps comps) : (joinSlash comps).getLast? ≠ some 47 := by
  induction comps with
  | nil => simp [joinSlash]
  | cons c cs ih =>
    have hc := h c (List.mem_cons_self ..)
    cases cs with
    | nil =>
      simp only [joinSlash]
      intro hl
      exact hc.1 (List.mem_of_getLast? hl)
    | cons d ds =>
      simp only [joinSlash]
      have hne : joinSlash (d :: ds) ≠ [] := by
        have hd := (h d (by simp)).2
        cases ds with
        | nil => simpa [joinSlash] using hd
        | cons e es => simp [joinSlash]
      have := ih (fun d hd => h d (List.mem_cons_of_mem _ hd))
      rw [List.getLast?_append]
      generalize joinSlash (d :: ds) = J at hne this
      cases J with
      | nil => exact absurd rfl hne
      | cons b bs =>
        rw [List.getLast?_cons_cons]
        cases hl : (b :: bs).getLast? with
        | none => simp at hl
        | some z =>
          rw [hl] at this
          simpa using this

theorem dropTrailingSlash_prefixOf (comps : List Bytes) (t : Bool) (h : GoodComps comps) (hne : comps ≠ []) :
    dropTrailingSlash (prefixOf comps t) ++ [47] = dirPrefix comps := by
  cases t
  · have hl := joinSlash_getLast comps h
    simp only [prefixOf, Bool.false_eq_true, if_false]
    unfold dropTrailingSlash
    split
    · rename_i heq; exact absurd heq hl
    · exact joinSlash_slash comps hne
  · simp only [prefixOf, if_true]
    rw [← joinSlash_slash comps hne]
    unfold dropTrailingSlash
    simp

theorem prefixOf_prefix (comps : List Bytes) (t : Bool) (hne : comps ≠ []) :
    prefixOf comps t <+: dirPrefix comps := by
  cases t
  · simp only [prefixOf, Bool.false_eq_true, if_false]
    rw [← joinSlash_slash comps hne]; exact List.prefix_append _ _
  · simp [prefixOf]

theorem dirPrefix_dropLast_prefix (comps : List Bytes) : dirPrefix comps.dropLast <+: joinSlash comps := by
  induction comps with
  | nil => simp [dirPrefix]
  | cons c cs ih =>
    cases cs with
    | nil => simp [dirPrefix]
    | cons d ds =>
      simp only [List.dropLast_cons_cons, dirPrefix, joinSlash]
      exact (List.prefix_append_right_inj c).mpr ((List.cons_prefix_cons).mpr ⟨rfl, ih⟩)

theorem dirPrefix_dropLast_prefixOf (comps : List Bytes) (t : Bool) (hne : comps ≠ []) :
    dirPrefix comps.dropLast <+: prefixOf comps t := by
  cases t
  · simpa [prefixOf] using dirPrefix_dropLast_prefix comps
  · simp only [prefixOf, if_true]
    rw [← joinSlash_slash comps hne]
    exact (dirPrefix_dropLast_prefix comps).trans (List.prefix_append _ _)

end GixModel.C18
