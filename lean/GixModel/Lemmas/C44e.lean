import GixModel.Lemmas.C44d
/-
C44 helper lemmas, part e: no change is reported twice.
-/
namespace GixModel.C44
open GixModel GixModel.Tree
open GixModel.C04 (Assoc aget TreeOk findName ValidName findName_eq_some_iff findName_eq_none_iff)
open GixModel.Spec.C44 (CChange Node changeAt isDir)

/-- Emissions of the generic merge are pairwise `R`-related, provided emissions of one entry are,
emissions carry the name of their entry (`nm`), different names are related, and an unmatched left
entry is related to an unmatched right one. -/
theorem mergeG_pairwise {β : Type} (fL fR : Entry → List β) (fE : Entry → Entry → List β)
    (R : β → β → Prop) (nm : β → Bytes)
    (h1L : ∀ a, (fL a).Pairwise R) (h1R : ∀ b, (fR b).Pairwise R) (h1E : ∀ a b, (fE a b).Pairwise R)
    (h2L : ∀ a x, x ∈ fL a → nm x = a.name) (h2R : ∀ b x, x ∈ fR b → nm x = b.name)
    (h2E : ∀ a b x, x ∈ fE a b → nm x = a.name)
    (h3 : ∀ x y, nm x ≠ nm y → R x y) :
    ∀ (fuel : Nat) (l r : List Entry), l.length + r.length ≤ fuel → TreeOk l → TreeOk r →
      (∀ a ∈ l, ∀ b ∈ r, entryCmp a b ≠ .eq → ∀ x ∈ fL a, ∀ y ∈ fR b, R x y ∧ R y x) →
      (mergeG fL fR fE fuel l r).Pairwise R := by
  intro fuel
  induction fuel with
  | zero => intro l r _ _ _ _; simp [mergeG]
  | succ fuel ih =>
    intro l r hlen hl hr h4
    -- where an element of a recursive result comes from
    have hsrc : ∀ (l' r' : List Entry), l'.length + r'.length ≤ fuel → TreeOk l' → TreeOk r' →
        ∀ y, y ∈ mergeG fL fR fE fuel l' r' →
          (∃ a ∈ l', nm y = a.name) ∨ (∃ b ∈ r', (∀ a ∈ l', entryCmp a b ≠ .eq) ∧ y ∈ fR b) := by
      intro l' r' hlen' hl' hr' y hy
      rcases (mergeG_mem fL fR fE fuel l' r' hlen' hl'.sorted hr'.sorted hl'.namesOk hr'.namesOk y).1 hy
        with ⟨a, ha, _, hx⟩ | ⟨b, hb, hu, hx⟩ | ⟨a, ha, b, _, _, hx⟩
      · exact Or.inl ⟨a, ha, h2L a y hx⟩
      · exact Or.inr ⟨b, hb, hu, hx⟩
      · exact Or.inl ⟨a, ha, h2E a b y hx⟩
    have hsrc' : ∀ (l' r' : List Entry), l'.length + r'.length ≤ fuel → TreeOk l' → TreeOk r' →
        ∀ y, y ∈ mergeG fL fR fE fuel l' r' →
          (∃ b ∈ r', nm y = b.name) ∨ (∃ a ∈ l', (∀ b ∈ r', entryCmp a b ≠ .eq) ∧ y ∈ fL a) := by
      intro l' r' hlen' hl' hr' y hy
      rcases (mergeG_mem fL fR fE fuel l' r' hlen' hl'.sorted hr'.sorted hl'.namesOk hr'.namesOk y).1 hy
        with ⟨a, ha, hu, hx⟩ | ⟨b, hb, _, hx⟩ | ⟨a, ha, b, hb, he, hx⟩
      · exact Or.inr ⟨a, ha, hu, hx⟩
      · exact Or.inl ⟨b, hb, h2R b y hx⟩
      · refine Or.inl ⟨b, hb, ?_⟩
        rw [h2E a b y hx]
        exact (eq_same (hl'.namesOk a ha) (hr'.namesOk b hb) he).1
    cases l with
    | nil =>
      cases r with
      | nil => simp [mergeG]
      | cons b r =>
        obtain ⟨hr', _, hnb⟩ := C04.treeOk_tail hr
        simp only [mergeG]
        refine List.pairwise_append.2 ⟨h1R b, ih [] r (by simp at hlen ⊢; omega) hl hr' (by simp), ?_⟩
        intro x hx y hy
        rcases hsrc' [] r (by simp at hlen ⊢; omega) hl hr' y hy with ⟨b', hb', hn⟩ | ⟨a, ha, _⟩
        · apply h3; rw [h2R b x hx, hn]; exact (hnb b' hb').symm
        · cases ha
    | cons a l =>
      obtain ⟨hl', hal, hna⟩ := C04.treeOk_tail hl
      have hsa : SlashFree a.name := hl.namesOk a (by simp)
      cases r with
      | nil =>
        simp only [mergeG]
        refine List.pairwise_append.2 ⟨h1L a, ih l [] (by simp at hlen ⊢; omega) hl' hr (by simp), ?_⟩
        intro x hx y hy
        rcases hsrc l [] (by simp at hlen ⊢; omega) hl' hr y hy with ⟨a', ha', hn⟩ | ⟨b, hb, _⟩
        · apply h3; rw [h2L a x hx, hn]; exact (hna a' ha').symm
        · cases hb
      | cons b r =>
        obtain ⟨hr', hbr, hnb⟩ := C04.treeOk_tail hr
        have hsb : SlashFree b.name := hr.namesOk b (by simp)
        simp only [mergeG]
        cases hc : entryCmp a b with
        | lt =>
          simp only
          refine List.pairwise_append.2 ⟨h1L a, ih l (b :: r) (by simp at hlen ⊢; omega) hl' hr
            (fun a' ha' => h4 a' (List.mem_cons_of_mem _ ha')), ?_⟩
          intro x hx y hy
          rcases hsrc l (b :: r) (by simp at hlen ⊢; omega) hl' hr y hy with ⟨a', ha', hn⟩ | ⟨b', hb', _, hyb⟩
          · apply h3; rw [h2L a x hx, hn]; exact (hna a' ha').symm
          · have hlt : entryCmp a b' = .lt := by
              rcases List.mem_cons.1 hb' with rfl | hb''
              · exact hc
              · exact cmp_lt_of_lt_of_le hsa hsb (hr'.namesOk b' hb'') hc (by rw [hbr b' hb'']; simp)
            exact (h4 a (by simp) b' hb' (by rw [hlt]; simp) x hx y hyb).1
        | gt =>
          simp only
          have hba : entryCmp b a = .lt := cmp_gt_iff.1 hc
          refine List.pairwise_append.2 ⟨h1R b, ih (a :: l) r (by simp at hlen ⊢; omega) hl hr'
            (fun a' ha' b' hb' => h4 a' ha' b' (List.mem_cons_of_mem _ hb')), ?_⟩
          intro x hx y hy
          rcases hsrc' (a :: l) r (by simp at hlen ⊢; omega) hl hr' y hy with ⟨b', hb', hn⟩ | ⟨a', ha', _, hya⟩
          · apply h3; rw [h2R b x hx, hn]; exact (hnb b' hb').symm
          · have hlt : entryCmp b a' = .lt := by
              rcases List.mem_cons.1 ha' with rfl | ha''
              · exact hba
              · exact cmp_lt_of_lt_of_le hsb hsa (hl'.namesOk a' ha'') hba (by rw [hal a' ha'']; simp)
            have hne : entryCmp a' b ≠ .eq := by rw [cmp_gt_iff.2 hlt]; simp
            exact (h4 a' ha' b (by simp) hne y hya x hx).2
        | eq =>
          simp only
          have hnab := (eq_same hsa hsb hc).1
          refine List.pairwise_append.2 ⟨h1E a b, ih l r (by simp at hlen ⊢; omega) hl' hr'
            (fun a' ha' b' hb' => h4 a' (List.mem_cons_of_mem _ ha') b' (List.mem_cons_of_mem _ hb')), ?_⟩
          intro x hx y hy
          apply h3
          rw [h2E a b x hx]
          rcases (mergeG_mem fL fR fE fuel l r (by simp at hlen ⊢; omega) hl'.sorted hr'.sorted
            hl'.namesOk hr'.namesOk y).1 hy with ⟨a', ha', _, hy'⟩ | ⟨b', hb', _, hy'⟩ | ⟨a', ha', b', _, _, hy'⟩
          · rw [h2L a' y hy']; exact (hna a' ha').symm
          · rw [h2R b' y hy', hnab]; exact (hnb b' hb').symm
          · rw [h2E a' b' y hy']; exact (hna a' ha').symm

/-! ### one level -/

def lastOf (p : Path) : Bytes := p.getLast?.getD []

theorem lastOf_snoc (dir : Path) (n : Bytes) : lastOf (dir ++ [n]) = n := by
  simp [lastOf]

theorem snoc_inj {d1 d2 : Path} {n1 n2 : Bytes} (h : d1 ++ [n1] = d2 ++ [n2]) : d1 = d2 ∧ n1 = n2 := by
  have := List.append_inj' h rfl
  exact ⟨this.1, by simpa using this.2⟩

theorem level_recs_nodup (dir : Path) {l r : List Entry} (hl : TreeOk l) (hr : TreeOk r) :
    (levelRecs dir l r).Nodup := by
  unfold levelRecs
  apply mergeG_pairwise (β := CChange) _ _ _ (fun (x y : CChange) => x ≠ y)
    (fun (c : CChange) => lastOf (pathOf c))
  · intro a; simp [delChange]
  · intro b; simp [addChange]
  · intro a b
    cases ha : a.isTree <;> cases hb : b.isTree <;> simp [eqChange, ha, hb]
    · split <;> simp
    · split <;> simp
  · intro a x hx; simp [delChange] at hx; subst hx; simp [pathOf, lastOf_snoc]
  · intro b x hx; simp [addChange] at hx; subst hx; simp [pathOf, lastOf_snoc]
  · intro a b x hx
    cases ha : a.isTree <;> cases hb : b.isTree <;> simp only [eqChange, ha, hb] at hx
    · split at hx
      · cases hx
      · simp at hx; subst hx; simp [pathOf, lastOf_snoc]
    · simp at hx; rcases hx with rfl | rfl <;> simp [pathOf, lastOf_snoc]
    · simp at hx; rcases hx with rfl | rfl <;> simp [pathOf, lastOf_snoc]
    · split at hx
      · cases hx
      · simp at hx; subst hx; simp [pathOf, lastOf_snoc]
  · intro x y h e; exact h (by rw [e])
  · exact Nat.le_succ _
  · exact hl
  · exact hr
  · intro a _ b _ _ x hx y hy
    simp [delChange] at hx
    simp [addChange] at hy
    subst hx; subst hy
    exact ⟨by simp, by simp⟩

theorem level_items_nodup (dir : Path) {l r : List Entry} (hl : TreeOk l) (hr : TreeOk r) :
    (levelItems dir l r).Pairwise (fun i j => i.1 ≠ j.1) := by
  unfold levelItems
  apply mergeG_pairwise (β := Path × Option Bytes × Option Bytes) _ _ _
    (fun (i j : Path × Option Bytes × Option Bytes) => i.1 ≠ j.1)
    (fun (i : Path × Option Bytes × Option Bytes) => lastOf i.1)
  · intro a; by_cases h : a.isTree = true <;> simp [delItem, h]
  · intro b; by_cases h : b.isTree = true <;> simp [addItem, h]
  · intro a b; cases ha : a.isTree <;> cases hb : b.isTree <;> simp [eqItem, ha, hb]
  · intro a x hx
    by_cases h : a.isTree = true
    · simp [delItem, h] at hx; subst hx; simp [lastOf_snoc]
    · simp [delItem, h] at hx
  · intro b x hx
    by_cases h : b.isTree = true
    · simp [addItem, h] at hx; subst hx; simp [lastOf_snoc]
    · simp [addItem, h] at hx
  · intro a b x hx
    cases ha : a.isTree <;> cases hb : b.isTree <;> simp [eqItem, ha, hb] at hx <;>
      (subst hx; simp [lastOf_snoc])
  · intro x y h e; exact h (by rw [e])
  · exact Nat.le_succ _
  · exact hl
  · exact hr
  · intro a ha b hb hne x hx y hy
    by_cases hat : a.isTree = true
    · by_cases hbt : b.isTree = true
      · simp [delItem, hat] at hx
        simp [addItem, hbt] at hy
        subst hx; subst hy
        have hn : a.name ≠ b.name := by
          intro hn
          exact hne (cmp_eq_of_same (hl.namesOk a ha) (hr.namesOk b hb) hn (hat.trans hbt.symm))
        constructor
        · intro e; exact hn (snoc_inj e).2
        · intro e; exact hn (snoc_inj e).2.symm
      · simp [addItem, hbt] at hy
    · simp [delItem, hat] at hx

/-- every record of a level is about a direct child of the directory -/
theorem level_recs_path (dir : Path) {l r : List Entry} (hl : TreeOk l) (hr : TreeOk r) {c : CChange}
    (hc : c ∈ levelRecs dir l r) : ∃ n, pathOf c = dir ++ [n] := by
  obtain ⟨n, hn⟩ := (level_recs_iff dir hl hr _ (Nat.le_succ _) c).1 hc
  exact ⟨n, changeAt_path hn⟩

theorem level_items_path (dir : Path) {l r : List Entry} (hl : TreeOk l) (hr : TreeOk r)
    {i : Path × Option Bytes × Option Bytes} (hi : i ∈ levelItems dir l r) : ∃ n, i.1 = dir ++ [n] := by
  obtain ⟨n, hn⟩ := (level_items_iff dir hl hr _ (Nat.le_succ _) i).1 hi
  refine ⟨n, ?_⟩
  cases hf1 : findName l n <;> cases hf2 : findName r n <;> simp only [hf1, hf2, itemAt] at hn
  · cases hn
  · split at hn
    · simp at hn; rw [hn]
    · cases hn
  · split at hn
    · simp at hn; rw [hn]
    · cases hn
  · split at hn
    · split at hn <;> (simp at hn; rw [hn])
    · split at hn
      · simp at hn; rw [hn]
      · cases hn

/-! ### all layers -/

theorem itemRecs_facts {S : Assoc Bytes (List Entry)} {d : Nat} {it : QItem}
    (hg : GoodCore S d (itemCore it)) :
    (itemRecs S it).Nodup ∧ (∀ c ∈ itemRecs S it, ∃ n, pathOf c = it.path ++ [n]) ∧
    (itemItems S it).Pairwise (fun i j => i.1 ≠ j.1) ∧
    (∀ i ∈ itemItems S it, ∃ n, i.1 = it.path ++ [n]) := by
  obtain ⟨tl, tr, hl, hcl, hcr⟩ := hg
  rw [← loadItem_core] at hl
  simp only [itemRecs, itemItems, hl]
  exact ⟨level_recs_nodup it.path hcl.treeOk hcr.treeOk,
    fun c hc => level_recs_path it.path hcl.treeOk hcr.treeOk hc,
    level_items_nodup it.path hcl.treeOk hcr.treeOk,
    fun i hi => level_items_path it.path hcl.treeOk hcr.treeOk hi⟩

theorem runLayers_nodup (S : Assoc Bytes (List Entry)) :
    ∀ (depth : Nat) (q : List QItem) (recs : List Change) (cid k : Nat),
      (∀ it ∈ q, GoodCore S depth (itemCore it)) → (∀ it ∈ q, it.path.length = k) →
      q.Pairwise (fun a b => a.path ≠ b.path) → (recs.map core).Nodup →
      (∀ c ∈ recs.map core, (pathOf c).length ≤ k) →
      ∀ out, runLayers S depth q recs cid = .ok out → (out.map core).Nodup := by
  intro depth
  induction depth with
  | zero =>
    intro q recs cid k hq _ _ hnd _ out hout
    cases q with
    | nil => simp [runLayers] at hout; subst hout; exact hnd
    | cons it rest =>
      obtain ⟨_, _, _, h, _⟩ := hq it (by simp)
      exact absurd h id
  | succ depth ih =>
    intro q recs cid k hq hlen hpw hnd hle out hout
    cases hqe : q with
    | nil => subst hqe; simp [runLayers] at hout; subst hout; exact hnd
    | cons it0 rest0 =>
      have hne : q.isEmpty = false := by rw [hqe]; rfl
      have hload : ∀ it ∈ q, (loadItem S it).isSome = true := by
        intro it hit
        obtain ⟨tl, tr, h, _, _⟩ := hq it hit
        rw [loadItem_core, h]; rfl
      obtain ⟨acc', h1, h2, h3⟩ := runLayer_spec S q ⟨recs, [], cid⟩ hload
      simp only [runLayers, hne, Bool.false_eq_true, if_false, h1] at hout
      simp only [List.map_nil, List.nil_append] at h3
      -- two records / items of different queue entries are about different paths
      have hcross : ∀ (a b : QItem), a ∈ q → b ∈ q → a.path ≠ b.path → ∀ (n m : Bytes),
          a.path ++ [n] ≠ b.path ++ [m] := fun a b _ _ hab n m e => hab (snoc_inj e).1
      have hpw' : q.Pairwise (fun a b => a.path ≠ b.path ∧ a ∈ q ∧ b ∈ q) := by
        have := List.Pairwise.and_mem.1 hpw
        exact this.imp (fun ⟨ha, hb, h⟩ => ⟨h, ha, hb⟩)
      refine ih acc'.queue acc'.recs acc'.cid (k + 1) ?_ ?_ ?_ ?_ ?_ out hout
      · intro it' hit'
        have : itemCore it' ∈ acc'.queue.map itemCore := List.mem_map.2 ⟨it', hit', rfl⟩
        rw [h3] at this
        obtain ⟨it, hit, hi⟩ := List.mem_flatMap.1 this
        obtain ⟨tl, tr, hl, hcl, hcr⟩ := hq it hit
        rw [← loadItem_core] at hl
        simp only [itemItems, hl] at hi
        exact children_good it.path hcl hcr _ hi
      · intro it' hit'
        have : itemCore it' ∈ acc'.queue.map itemCore := List.mem_map.2 ⟨it', hit', rfl⟩
        rw [h3] at this
        obtain ⟨it, hit, hi⟩ := List.mem_flatMap.1 this
        obtain ⟨n, hn⟩ := (itemRecs_facts (hq it hit)).2.2.2 _ hi
        have : it'.path = it.path ++ [n] := hn
        rw [this, List.length_append, hlen it hit]; rfl
      · have : (acc'.queue.map itemCore).Pairwise (fun i j => i.1 ≠ j.1) := by
          rw [h3]
          refine List.pairwise_flatMap.2 ⟨fun it hit => (itemRecs_facts (hq it hit)).2.2.1, ?_⟩
          refine hpw'.imp ?_
          rintro a b ⟨hab, ha, hb⟩ x hx y hy
          obtain ⟨n, hn⟩ := (itemRecs_facts (hq a ha)).2.2.2 _ hx
          obtain ⟨m, hm⟩ := (itemRecs_facts (hq b hb)).2.2.2 _ hy
          rw [hn, hm]; exact hcross a b ha hb hab n m
        exact (List.pairwise_map (f := itemCore) (R := fun i j => i.1 ≠ j.1)).1 this
      · rw [h2]
        refine List.nodup_append.2 ⟨hnd, ?_, ?_⟩
        · refine List.pairwise_flatMap.2 ⟨fun it hit => (itemRecs_facts (hq it hit)).1, ?_⟩
          refine hpw'.imp ?_
          rintro a b ⟨hab, ha, hb⟩ x hx y hy e
          obtain ⟨n, hn⟩ := (itemRecs_facts (hq a ha)).2.1 _ hx
          obtain ⟨m, hm⟩ := (itemRecs_facts (hq b hb)).2.1 _ hy
          rw [e] at hn
          exact hcross a b ha hb hab n m (hn.symm.trans hm)
        · intro c hc x hx e
          obtain ⟨it, hit, hxi⟩ := List.mem_flatMap.1 hx
          obtain ⟨n, hn⟩ := (itemRecs_facts (hq it hit)).2.1 _ hxi
          have h1' := hle c hc
          rw [e, hn, List.length_append, hlen it hit] at h1'
          simp at h1'
          omega
      · intro c hc
        rw [h2] at hc
        rcases List.mem_append.1 hc with h | h
        · exact Nat.le_succ_of_le (hle c h)
        · obtain ⟨it, hit, hxi⟩ := List.mem_flatMap.1 h
          obtain ⟨n, hn⟩ := (itemRecs_facts (hq it hit)).2.1 _ hxi
          rw [hn, List.length_append, hlen it hit]; simp

/-- no change is reported twice -/
theorem diff_nodup (S : Assoc Bytes (List Entry)) {d : Nat} {a b : List Entry}
    (ha : CanonN S (d + 1) a) (hb : CanonN S (d + 1) b) (depth : Nat) (hd : d ≤ depth)
    (out : List Change) (hout : diff S depth a b = .ok out) : (out.map core).Nodup := by
  have hm := mergeLevel_eq [] .none (a.length + b.length + 1) a b ⟨[], [], 0⟩
  simp only [diff] at hout
  generalize hacc : mergeLevel [] .none (a.length + b.length + 1) a b ⟨[], [], 0⟩ = acc at hm hout
  simp only [List.map_nil, List.nil_append] at hm
  have hrec : acc.recs.map core = levelRecs [] a b := hm.1
  have hq : acc.queue.map itemCore = levelItems [] a b := hm.2
  refine runLayers_nodup S depth acc.queue acc.recs acc.cid 1 ?_ ?_ ?_ ?_ ?_ out hout
  · intro it hit
    have : itemCore it ∈ acc.queue.map itemCore := List.mem_map.2 ⟨it, hit, rfl⟩
    rw [hq] at this
    exact (children_good [] ha hb _ this).mono hd
  · intro it hit
    have : itemCore it ∈ acc.queue.map itemCore := List.mem_map.2 ⟨it, hit, rfl⟩
    rw [hq] at this
    obtain ⟨n, hn⟩ := level_items_path [] ha.1 hb.1 this
    have : it.path = [] ++ [n] := hn
    rw [this]; rfl
  · have : (acc.queue.map itemCore).Pairwise (fun i j => i.1 ≠ j.1) := by
      rw [hq]; exact level_items_nodup [] ha.1 hb.1
    exact (List.pairwise_map (f := itemCore) (R := fun i j => i.1 ≠ j.1)).1 this
  · rw [hrec]; exact level_recs_nodup [] ha.1 hb.1
  · intro c hc
    rw [hrec] at hc
    obtain ⟨n, hn⟩ := level_recs_path [] ha.1 hb.1 hc
    rw [hn]; simp

end GixModel.C44
