import GixModel.Lemmas.C09Order
import GixModel.Lemmas.C09Bisect
import GixModel.Lemmas.C09Fan
import GixModel.Lemmas.C09Prefix
/-
C09 helper lemmas, part 6: the two lookup functions on any table that is well-formed
(`TableOk`: 20-byte ids strictly ascending, fan-out = counts of first bytes, fewer than 2^31
entries, and the closure `oidAt` hands out the ids) behave like a linear scan.
-/
namespace GixModel.C09
open GixModel

/-- first byte of an id -/
def hd (id : Bytes) : UInt8 := id.headD 0

/-- ids strictly ascending -/
def SortedIds (ids : List Bytes) : Prop := ids.Pairwise (fun a b => cmpBytes a b = .lt)

structure TableOk (fan : List Nat) (oidAt : Nat → Option Bytes) (ids : List Bytes) : Prop where
  sorted : SortedIds ids
  len20 : ∀ x ∈ ids, x.length = 20
  fanOk : fan = (List.range 256).map (fun b => countLe b (ids.map hd))
  small : ids.length < 2147483648
  get : ∀ i (h : i < ids.length), oidAt i = some ids[i]

theorem cons_hd {x : Bytes} (h : x.length = 20) : ∃ t, x = hd x :: t := by
  cases x with
  | nil => simp at h
  | cons a t => exact ⟨t, rfl⟩

theorem cmpBytes_cons (x y : UInt8) (xs ys : Bytes) :
    (x.toNat < y.toNat → cmpBytes (x :: xs) (y :: ys) = .lt) ∧
    (y.toNat < x.toNat → cmpBytes (x :: xs) (y :: ys) = .gt) ∧
    (cmpBytes (x :: xs) (y :: ys) = .lt → x.toNat ≤ y.toNat) := by
  refine ⟨?_, ?_, ?_⟩
  · intro h; simp [cmpBytes, h]
  · intro h
    have : ¬ x.toNat < y.toNat := by omega
    simp [cmpBytes, h, this]
  · intro h
    simp only [cmpBytes] at h
    by_cases h1 : x.toNat < y.toNat
    · omega
    · by_cases h2 : y.toNat < x.toNat
      · simp [h1, h2] at h
      · omega

theorem sortedFb_of_sorted {ids : List Bytes} (hs : SortedIds ids) (hl : ∀ x ∈ ids, x.length = 20) :
    SortedFb (ids.map hd) := by
  unfold SortedFb
  rw [List.pairwise_map]
  refine List.Pairwise.imp_of_mem ?_ hs
  intro a b ha hb hlt
  obtain ⟨ta, ea⟩ := cons_hd (hl a ha)
  obtain ⟨tb, eb⟩ := cons_hd (hl b hb)
  rw [ea, eb] at hlt
  exact (cmpBytes_cons _ _ _ _).2.2 hlt

theorem firstBytes_eq {ids : List Bytes} (hl : ∀ x ∈ ids, x.length = 20) :
    firstBytes ids = some (ids.map hd) := by
  induction ids with
  | nil => rfl
  | cons x xs ih =>
    obtain ⟨t, e⟩ := cons_hd (hl x (by simp))
    have := ih (fun y hy => hl y (by simp [hy]))
    simp only [firstBytes] at this ⊢
    rw [List.mapM_cons, this, e]
    simp [hd]

/-- the bounds the fan-out table gives for a query whose first byte is `q` -/
theorem fanBounds_spec {fan : List Nat} {oidAt : Nat → Option Bytes} {ids : List Bytes}
    (ok : TableOk fan oidAt ids) (q : UInt8) :
    ∃ lo hi, fanBounds fan q.toNat = some (lo, hi) ∧ lo ≤ hi ∧ hi ≤ ids.length ∧
      (∀ i (h : i < ids.length), i < lo → (hd ids[i]).toNat < q.toNat) ∧
      (∀ i (h : i < ids.length), hi ≤ i → q.toNat < (hd ids[i]).toNat) := by
  have hq : q.toNat < 256 := q.toNat_lt
  have hsf := sortedFb_of_sorted ok.sorted ok.len20
  have hget : ∀ b, b < 256 → fan[b]? = some (countLe b (ids.map hd)) := by
    intro b hb
    rw [ok.fanOk, List.getElem?_map, List.getElem?_range hb]; rfl
  have hlenmap : (ids.map hd).length = ids.length := by simp
  have hhi : ∀ i (h : i < ids.length), countLe q.toNat (ids.map hd) ≤ i → q.toNat < (hd ids[i]).toNat := by
    intro i h hle
    have := lt_countLe_iff (b := q.toNat) (ids.map hd) hsf i (by simpa using h)
    simp only [List.getElem_map] at this
    omega
  by_cases h0 : q.toNat = 0
  · refine ⟨0, countLe q.toNat (ids.map hd), ?_, by omega, ?_, ?_, hhi⟩
    · simp [fanBounds, hget 0 (by omega), h0]
    · have := countLe_le_length q.toNat (ids.map hd); omega
    · intro i h hi; omega
  · refine ⟨countLe (q.toNat - 1) (ids.map hd), countLe q.toNat (ids.map hd), ?_, ?_, ?_, ?_, hhi⟩
    · simp [fanBounds, hget q.toNat hq, hget (q.toNat - 1) (by omega), h0]
    · exact countLe_mono (by omega) _
    · have := countLe_le_length q.toNat (ids.map hd); omega
    · intro i h hi
      have := lt_countLe_iff (b := q.toNat - 1) (ids.map hd) hsf i (by simpa using h)
      simp only [List.getElem_map] at this
      omega

/-! ### full-id lookup -/

/-- classification of entry `i` for a full-id lookup -/
def kFull (id : Bytes) (ids : List Bytes) (i : Nat) : Ordering := cmpBytes id (ids[i]?.getD [])

theorem kFull_at {id : Bytes} {ids : List Bytes} {i : Nat} (h : i < ids.length) :
    kFull id ids i = cmpBytes id ids[i] := by
  simp [kFull, List.getElem?_eq_getElem h]

theorem cls_full {fan : List Nat} {oidAt : Nat → Option Bytes} {ids : List Bytes}
    (ok : TableOk fan oidAt ids) (id : Bytes) :
    Cls (fun m => some (cmpBytes id m)) oidAt ids.length (kFull id ids) := by
  intro i hi
  exact ⟨ids[i], ok.get i hi, by rw [kFull_at hi]⟩

theorem sorted_lt {ids : List Bytes} (hs : SortedIds ids) {i j : Nat} (hij : i < j) (hj : j < ids.length) :
    cmpBytes (ids[i]'(by omega)) ids[j] = .lt :=
  (List.pairwise_iff_getElem.mp hs) i j (by omega) hj hij

theorem mono_full {ids : List Bytes} (hs : SortedIds ids) (id : Bytes) : Mono ids.length (kFull id ids) := by
  intro i j hij hj
  have hi : i < ids.length := by omega
  have hlt := sorted_lt hs hij hj
  rw [kFull_at hi, kFull_at hj]
  rw [cmpBytes_eq_cmpL] at hlt
  simp only [cmpBytes_eq_cmpL]
  constructor
  · intro h; exact cmpL_lt_of_lt_of_le h (leL_of_lt hlt)
  · intro h
    rw [cmpL_swap_gt] at h ⊢
    exact cmpL_lt_of_le_of_lt (leL_of_lt hlt) h

theorem map_toNat_inj : ∀ (a b : Bytes), a.map (·.toNat) = b.map (·.toNat) → a = b := by
  intro a
  induction a with
  | nil => intro b h; cases b with
    | nil => rfl
    | cons _ _ => simp at h
  | cons x xs ih =>
    intro b h
    cases b with
    | nil => simp at h
    | cons y ys =>
      simp only [List.map_cons, List.cons.injEq] at h
      rw [UInt8.toNat_inj.mp h.1, ih ys h.2]

theorem cmpBytes_eq_iff (a b : Bytes) : cmpBytes a b = .eq ↔ a = b := by
  rw [cmpBytes_eq_cmpL, cmpL_eq_iff]
  constructor
  · intro h; exact map_toNat_inj a b h
  · intro h; rw [h]

theorem lookupWith_spec {fan : List Nat} {oidAt : Nat → Option Bytes} {ids : List Bytes}
    (ok : TableOk fan oidAt ids) (id : Bytes) (hid : id.length = 20) :
    ∃ r, lookupWith fan oidAt id = some r ∧
      (∀ i, r = some i ↔ ids[i]? = some id) ∧ (r = none ↔ id ∉ ids) := by
  obtain ⟨t, eid⟩ := cons_hd hid
  obtain ⟨lo, hi, hfb, hlohi, hhin, hlow, hhigh⟩ := fanBounds_spec ok (hd id)
  have hcls := cls_full ok id
  have hmono := mono_full ok.sorted id
  obtain ⟨r, hr1, hr2⟩ := bisect_spec hcls hmono ok.small (hi - lo) lo hi hhin (by omega)
    (by
      intro i hilo hin
      obtain ⟨ti, ei⟩ := cons_hd (ok.len20 ids[i] (List.getElem_mem hin))
      rw [kFull_at hin, eid, ei]
      exact (cmpBytes_cons _ _ _ _).2.1 (hlow i hin hilo))
    (by
      intro i hihi hin
      obtain ⟨ti, ei⟩ := cons_hd (ok.len20 ids[i] (List.getElem_mem hin))
      rw [kFull_at hin, eid, ei]
      exact (cmpBytes_cons _ _ _ _).1 (hhigh i hin hihi))
  have hhead : id.head? = some (hd id) := by rw [eid]; rfl
  refine ⟨r, ?_, ?_, ?_⟩
  · simp only [lookupWith, hhead, hfb, Option.bind_eq_bind, Option.bind_some]
    exact hr1
  · intro i
    cases r with
    | none =>
      simp only [false_iff, reduceCtorEq]
      intro hget
      have hin : i < ids.length := by
        rcases Nat.lt_or_ge i ids.length with h | h
        · exact h
        · rw [List.getElem?_eq_none h] at hget; cases hget
      have := hr2 i hin
      rw [kFull_at hin] at this
      rw [List.getElem?_eq_getElem hin] at hget
      injection hget with hget
      exact this ((cmpBytes_eq_iff _ _).mpr hget.symm)
    | some mid =>
      obtain ⟨h1, h2, h3⟩ := hr2
      have hmin : mid < ids.length := by omega
      rw [kFull_at hmin, cmpBytes_eq_iff] at h3
      constructor
      · intro h; injection h with h; subst h
        rw [List.getElem?_eq_getElem hmin, h3]
      · intro hget
        have hin : i < ids.length := by
          rcases Nat.lt_or_ge i ids.length with h | h
          · exact h
          · rw [List.getElem?_eq_none h] at hget; cases hget
        rw [List.getElem?_eq_getElem hin] at hget
        injection hget with hget
        -- two positions holding the same id coincide (strictly ascending)
        congr 1
        apply Classical.byContradiction
        intro hne
        rcases Nat.lt_or_gt_of_ne hne with hlt | hgt
        · have := sorted_lt ok.sorted hlt hin
          rw [hget, ← h3, (cmpBytes_eq_iff _ _).mpr rfl] at this; cases this
        · have := sorted_lt ok.sorted hgt hmin
          rw [hget, ← h3, (cmpBytes_eq_iff _ _).mpr rfl] at this; cases this
  · cases r with
    | none =>
      simp only [true_iff]
      intro hmem
      obtain ⟨i, hin, hget⟩ := List.getElem_of_mem hmem
      have := hr2 i hin
      rw [kFull_at hin, hget] at this
      exact this ((cmpBytes_eq_iff _ _).mpr rfl)
    | some mid =>
      obtain ⟨h1, h2, h3⟩ := hr2
      have hmin : mid < ids.length := by omega
      rw [kFull_at hmin, cmpBytes_eq_iff] at h3
      simp only [reduceCtorEq, false_iff, Classical.not_not]
      rw [h3]; exact List.getElem_mem hmin

/-! ### prefix lookup -/

/-- classification of entry `i` for a prefix lookup: comparison of the first `h` hex digits -/
def kPre (id : Bytes) (h : Nat) (ids : List Bytes) (i : Nat) : Ordering :=
  cmpL (digits id h) (digits (ids[i]?.getD []) h)

theorem kPre_at {id : Bytes} {h : Nat} {ids : List Bytes} {i : Nat} (hi : i < ids.length) :
    kPre id h ids i = cmpL (digits id h) (digits ids[i] h) := by
  simp [kPre, List.getElem?_eq_getElem hi]

/-- `cand` starts with the first `h` hex digits of `id` -/
def PrefixMatches (id : Bytes) (h : Nat) (cand : Bytes) : Prop := digits cand h = digits id h

instance (id : Bytes) (h : Nat) (cand : Bytes) : Decidable (PrefixMatches id h cand) := by
  unfold PrefixMatches; infer_instance

theorem kPre_eq_iff {id : Bytes} {h : Nat} {ids : List Bytes} {i : Nat} (hi : i < ids.length) :
    kPre id h ids i = .eq ↔ PrefixMatches id h ids[i] := by
  rw [kPre_at hi, cmpL_eq_iff, PrefixMatches]
  exact eq_comm

theorem cls_pre {fan : List Nat} {oidAt : Nat → Option Bytes} {ids : List Bytes}
    (ok : TableOk fan oidAt ids) {id : Bytes} {h : Nat} {p : Prefix} (hp : Prefix.new id h = some p)
    (hid : id.length = 20) : Cls p.cmpOid oidAt ids.length (kPre id h ids) := by
  intro i hi
  refine ⟨ids[i], ok.get i hi, ?_⟩
  rw [kPre_at hi]
  exact cmpOid_eq hp (by rw [ok.len20 ids[i] (List.getElem_mem hi), hid])

theorem mono_pre {ids : List Bytes} (hs : SortedIds ids) (id : Bytes) (h : Nat) :
    Mono ids.length (kPre id h ids) := by
  intro i j hij hj
  have hi : i < ids.length := by omega
  have hlt := sorted_lt hs hij hj
  rw [cmpBytes_eq_cmpL_N] at hlt
  have hle : leL (digits ids[i] h) (digits ids[j] h) := leL_take (leL_of_lt hlt) h
  rw [kPre_at hi, kPre_at hj]
  constructor
  · intro hh; exact cmpL_lt_of_lt_of_le hh hle
  · intro hh
    rw [cmpL_swap_gt] at hh ⊢
    exact cmpL_lt_of_le_of_lt hle hh

/-- result of a prefix lookup whose matches are the entry indices `[a, b)` -/
def classify (a b : Nat) : PrefixRes :=
  if b - a = 0 then .none else if b - a = 1 then .unique a else .ambiguous

/-- the value left in `*candidates` -/
def candRange (a b : Nat) : Nat × Nat := if b - a = 0 then (0, 0) else (a, b)

/-- the `Equal =>` arm: with a monotone classification and a hit at `mid`, both variants report
the interval of all matches -/
theorem prefixHit_spec {c : Bytes → Option Ordering} {oidAt : Nat → Option Bytes} {n : Nat}
    {k : Nat → Ordering} (hcls : Cls c oidAt n k) (hmono : Mono n k) {mid : Nat} (hmidn : mid < n)
    (hm3 : k mid = .eq) :
    ∃ a b, a ≤ mid ∧ mid < b ∧ b ≤ n ∧ (∀ i, i < n → (k i = .eq ↔ a ≤ i ∧ i < b)) ∧
      prefixHit c oidAt n mid true = some (classify a b, some (candRange a b)) ∧
      prefixHit c oidAt n mid false = some (classify a b, none) := by
  obtain ⟨a, ha1, ha2, ha3, ha4⟩ := scanDown_spec hcls mid (by omega)
  obtain ⟨b, hb1, hb2, hb3, hb4, hb5⟩ := scanUp_spec hcls (n - (mid + 1)) (mid + 1) (by omega)
  have hbn : b ≤ n := by omega
  have hint := eq_interval hmono (a := a) (b := b) (mid := mid) ha1 (by omega) hbn
    (by
      intro i hai hib
      by_cases h1 : i < mid
      · exact ha2 i hai h1
      · by_cases h2 : i = mid
        · rw [h2]; exact hm3
        · exact hb3 i (by omega) hib)
    ha3 (by intro hlt; exact hb4 (by omega))
  have hba : ¬ (b - a = 0) := by omega
  refine ⟨a, b, ha1, by omega, hbn, hint, ?_, ?_⟩
  · -- with candidates
    simp only [prefixHit, ha4, hb5, Option.bind_eq_bind, Option.bind_some, if_true, classify,
      candRange, hba, if_false]
    by_cases c1 : a < mid
    · by_cases c2 : mid + 1 < b
      · have e : b - 1 + 1 = b := by omega
        have h1 : ¬ (b - a = 1) := by omega
        have h2 : b - a > 1 := by omega
        simp [c1, c2, e, h1, h2]
      · have e : mid + 1 = b := by omega
        have h1 : ¬ (b - a = 1) := by omega
        have h2 : b - a > 1 := by omega
        simp [c1, c2, e, h1, h2]
    · have ea : a = mid := by omega
      subst ea
      by_cases c2 : a + 1 < b
      · have e : b - 1 + 1 = b := by omega
        have h1 : ¬ (b - a = 1) := by omega
        have h2 : b - a > 1 := by omega
        simp [c2, e, h1, h2]
      · have e : a + 1 = b := by omega
        have h1 : b - a = 1 := by omega
        have h2 : ¬ (b - a > 1) := by omega
        simp [c2, e, h1, h2]
  · -- without candidates: one neighbour on either side decides
    have hE1 : mid + 1 < n → isEqAt c oidAt (mid + 1) = some (decide (mid + 1 < b)) := by
      intro hlt
      rw [isEqAt_spec hcls (mid + 1) hlt]
      congr 1
      have := hint (mid + 1) hlt
      by_cases hk : k (mid + 1) = .eq
      · have h2 := this.mp hk; simp [hk, h2.2]
      · have h2 : ¬ (mid + 1 < b) := fun hc => hk (this.mpr ⟨by omega, hc⟩)
        have hf : (k (mid + 1) == Ordering.eq) = false := by
          cases hkk : k (mid + 1) with
          | eq => exact absurd hkk hk
          | lt => rfl
          | gt => rfl
        rw [hf]; simp [h2]
    have hE2 : mid ≠ 0 → isEqAt c oidAt (mid - 1) = some (decide (a < mid)) := by
      intro h0
      rw [isEqAt_spec hcls (mid - 1) (by omega)]
      congr 1
      have := hint (mid - 1) (by omega)
      by_cases hk : k (mid - 1) = .eq
      · have h2 := this.mp hk
        have : a < mid := by omega
        simp [hk, this]
      · have h2 : ¬ (a < mid) := fun hc => hk (this.mpr ⟨by omega, by omega⟩)
        have hf : (k (mid - 1) == Ordering.eq) = false := by
          cases hkk : k (mid - 1) with
          | eq => exact absurd hkk hk
          | lt => rfl
          | gt => rfl
        rw [hf]; simp [h2]
    simp only [prefixHit, Bool.false_eq_true, if_false, classify, hba]
    by_cases c2 : mid + 1 < b
    · have hlt : mid + 1 < n := by omega
      have h1 : ¬ (b - a = 1) := by omega
      simp [hlt, hE1 hlt, c2, h1]
    · have h2nd : (if mid + 1 < n then (isEqAt c oidAt (mid + 1)) else some false) = some false := by
        by_cases hlt : mid + 1 < n
        · simp [hlt, hE1 hlt, c2]
        · simp [hlt]
      by_cases h0 : mid = 0
      · subst h0
        have hb' : b = 1 := by omega
        have ha' : a = 0 := by omega
        subst hb'; subst ha'
        by_cases hlt : 0 + 1 < n
        · have e1 := hE1 hlt
          simp only [Nat.zero_add] at e1 hlt
          simp [hlt, e1]
        · simp only [Nat.zero_add] at hlt
          simp [hlt]
      · by_cases c1 : a < mid
        · have h1 : ¬ (b - a = 1) := by omega
          by_cases hlt : mid + 1 < n
          · simp [hlt, hE1 hlt, c2, h0, hE2 h0, c1, h1]
          · simp [hlt, h0, hE2 h0, c1, h1]
        · have : a = mid := by omega
          subst this
          have h1 : b - a = 1 := by omega
          by_cases hlt : a + 1 < n
          · simp [hlt, hE1 hlt, c2, h0, hE2 h0, h1]
          · simp [hlt, h0, hE2 h0, h1]

theorem lookupPrefixWith_spec {fan : List Nat} {oidAt : Nat → Option Bytes} {ids : List Bytes}
    (ok : TableOk fan oidAt ids) {id : Bytes} {h : Nat} {p : Prefix} (hp : Prefix.new id h = some p)
    (hid : id.length = 20) :
    ∃ a b, a ≤ b ∧ b ≤ ids.length ∧
      (∀ i (hi : i < ids.length), PrefixMatches id h ids[i] ↔ a ≤ i ∧ i < b) ∧
      lookupPrefixWith fan oidAt ids.length p true = some (classify a b, some (candRange a b)) ∧
      lookupPrefixWith fan oidAt ids.length p false = some (classify a b, none) := by
  obtain ⟨t, eid⟩ := cons_hd hid
  obtain ⟨hhead, _⟩ := Prefix.new_head hp
  obtain ⟨hh, hle, h4, _⟩ := Prefix.new_bytes hp
  have hhead' : p.bytes.head? = some (hd id) := by rw [hhead, eid]; rfl
  obtain ⟨lo, hi, hfb, hlohi, hhin, hlow, hhigh⟩ := fanBounds_spec ok (hd id)
  have hcls := cls_pre ok hp hid
  have hmono := mono_pre ok.sorted id h
  obtain ⟨r, hr1, hr2⟩ := bisect_spec hcls hmono ok.small (hi - lo) lo hi hhin (by omega)
    (by
      intro i hilo hin
      obtain ⟨ti, ei⟩ := cons_hd (ok.len20 ids[i] (List.getElem_mem hin))
      rw [kPre_at hin, eid, ei]
      exact (digits_first_byte (by omega)).1 (hlow i hin hilo))
    (by
      intro i hihi hin
      obtain ⟨ti, ei⟩ := cons_hd (ok.len20 ids[i] (List.getElem_mem hin))
      rw [kPre_at hin, eid, ei]
      exact (digits_first_byte (by omega)).2 (hhigh i hin hihi))
  cases r with
  | none =>
    refine ⟨0, 0, by omega, by omega, ?_, ?_, ?_⟩
    · intro i hin
      rw [← kPre_eq_iff hin]
      constructor
      · intro he; exact absurd he (hr2 i hin)
      · intro ⟨_, h2⟩; omega
    · simp [lookupPrefixWith, hhead', hfb, hr1, classify, candRange]
    · simp [lookupPrefixWith, hhead', hfb, hr1, classify]
  | some mid =>
    obtain ⟨hm1, hm2, hm3⟩ := hr2
    have hmidn : mid < ids.length := by omega
    obtain ⟨a, b, ha, hb, hbn, hint, hw, hwo⟩ := prefixHit_spec hcls hmono hmidn hm3
    refine ⟨a, b, by omega, hbn, ?_, ?_, ?_⟩
    · intro i hin
      rw [← kPre_eq_iff hin]
      exact hint i hin
    · simp only [lookupPrefixWith, hhead', hfb, hr1, Option.bind_eq_bind, Option.bind_some]
      exact hw
    · simp only [lookupPrefixWith, hhead', hfb, hr1, Option.bind_eq_bind, Option.bind_some]
      exact hwo

end GixModel.C09
