import GixModel.Lemmas.C11
import GixModel.Lemmas.C56StoredD
/-
`EarlyOutput` for the stored-block codec the Lean driver runs (Model/C56.lean, `Stored`), for streams whose
stored blocks are all non-empty (what `Stored.compress` writes).
-/
namespace GixModel.C56.Stored
open GixModel GixModel.C56 GixModel.C11

/-- five steps of `run` over a non-final block header put the machine into the data phase -/
theorem run_block_header (f : Nat) (ad : Nat × Nat) (fr : Bool) (n : Nat) (h1 : 1 ≤ n) (h2 : n ≤ 65535)
    (rest : Bytes) (room c : Nat) (acc : Bytes) :
    run (f + 5) { phase := .blockHdr [], ad := ad, fresh := fr } (blockHeader false n ++ rest) room c acc =
    run f { phase := .data n false, ad := ad, fresh := fr } rest room (c + 5) acc := by
  have e1 : (UInt8.ofNat n).toNat = n % 256 := by simp [UInt8.toNat_ofNat']
  have e2 : (UInt8.ofNat (n / 256)).toNat = n / 256 := by simp [UInt8.toNat_ofNat']; omega
  have e3 : (UInt8.ofNat (255 - n % 256)).toNat = 255 - n % 256 := by simp [UInt8.toNat_ofNat']; omega
  have e4 : (UInt8.ofNat (255 - n / 256)).toNat = 255 - n / 256 := by simp [UInt8.toNat_ofNat']; omega
  have hsum : ¬ (n % 256 + 256 * (n / 256) + (255 - n % 256 + 256 * (255 - n / 256)) ≠ 65535) := by omega
  simp only [blockHeader, Bool.false_eq_true, if_false, List.cons_append, List.nil_append, run, List.append_nil,
    List.length_cons, List.length_nil, List.isEmpty_nil, List.isEmpty_cons]
  simp [e1, e2, e3, e4, hsum]
  have hn : n % 256 + 256 * (n / 256) = n := by omega
  rw [hn]

/-- the output only grows -/
theorem run_mono : ∀ (fuel : Nat) (s : DState) (inp : Bytes) (room c : Nat) (acc : Bytes) (s' : DState) (c' : Nat) (acc' : Bytes),
    run fuel s inp room c acc = some (s', c', acc') → acc.length ≤ acc'.length := by
  intro fuel
  induction fuel with
  | zero =>
    intro s inp room c acc s' c' acc' h
    simp only [run, Option.some.injEq, Prod.mk.injEq] at h
    rw [← h.2.2]; exact Nat.le_refl _
  | succ fuel ih =>
    intro s inp room c acc s' c' acc' h
    unfold run at h
    split at h
    · simp only [Option.some.injEq, Prod.mk.injEq] at h; rw [← h.2.2]; exact Nat.le_refl _
    · split at h
      · exact ih _ _ _ _ _ _ _ _ h
      · dsimp only at h
        split at h
        · simp only [Option.some.injEq, Prod.mk.injEq] at h; rw [← h.2.2]; exact Nat.le_refl _
        · have := ih _ _ _ _ _ _ _ _ h
          simp only [List.length_append] at this
          omega
    · split at h
      · simp only [Option.some.injEq, Prod.mk.injEq] at h; rw [← h.2.2]; exact Nat.le_refl _
      · split at h
        · split at h
          · exact ih _ _ _ _ _ _ _ _ h
          · simp at h
        · split at h
          · exact ih _ _ _ _ _ _ _ _ h
          · simp at h
        · dsimp only at h
          split at h
          · split at h
            · simp at h
            · exact ih _ _ _ _ _ _ _ _ h
          · split at h
            · simp at h
            · exact ih _ _ _ _ _ _ _ _ h
        · dsimp only at h
          split at h
          · exact ih _ _ _ _ _ _ _ _ h
          · split at h
            · exact ih _ _ _ _ _ _ _ _ h
            · simp at h
        · simp only [Option.some.injEq, Prod.mk.injEq] at h; rw [← h.2.2]; exact Nat.le_refl _

theorem prefix_split {p a x : Bytes} (h : p <+: a ++ x) (hl : a.length ≤ p.length) :
    ∃ p', p = a ++ p' ∧ p' <+: x := by
  obtain ⟨t, ht⟩ := h
  have h1 : (p ++ t).take a.length = a := by rw [ht]; exact List.take_left' rfl
  rw [List.take_append_of_le_length hl] at h1
  have h3 : p = a ++ p.drop a.length := by
    have := (List.take_append_drop a.length p).symm
    rw [h1] at this
    exact this
  refine ⟨p.drop a.length, h3, ⟨t, ?_⟩⟩
  have h2 : (p ++ t).drop a.length = x := by rw [ht]; exact List.drop_left' rfl
  rw [List.drop_append_of_le_length hl] at h2
  exact h2

/-- from a block boundary on: what a call writes is at least a sixth of what it is given (every block costs
five header bytes and holds at least one content byte), unless the room or the content runs out first -/
theorem run_blocks : ∀ (blocks : List Bytes) (tail inp : Bytes) (fuel room c : Nat) (ad : Nat × Nat) (fr : Bool)
    (acc : Bytes) (s' : DState) (c' : Nat) (acc' : Bytes),
    ValidBlocks blocks → inp <+: encBlocks blocks ++ tail → 2 * inp.length + 3 ≤ fuel →
    run fuel { phase := .blockHdr [], ad := ad, fresh := fr } inp room c acc = some (s', c', acc') →
    acc.length + min room (min (inp.length / 6) blocks.flatten.length) ≤ acc'.length := by
  intro blocks
  induction blocks with
  | nil =>
    intro tail inp fuel room c ad fr acc s' c' acc' _ _ _ h
    have := run_mono _ _ _ _ _ _ _ _ _ h
    simp only [List.flatten_nil, List.length_nil, Nat.min_zero]
    omega
  | cons b bs ih =>
    intro tail inp fuel room c ad fr acc s' c' acc' hv hpre hfuel h
    have hmono := run_mono _ _ _ _ _ _ _ _ _ h
    obtain ⟨hb1, hb2⟩ := hv b (by simp)
    by_cases hm : inp.length < 6
    · have : inp.length / 6 = 0 := by omega
      rw [this]; simp only [Nat.zero_min, Nat.min_zero]; omega
    · -- the block header is all there
      have hpre' : inp <+: blockHeader false b.length ++ (b ++ (encBlocks bs ++ tail)) := by
        simpa [encBlocks, List.flatMap_cons, List.append_assoc] using hpre
      obtain ⟨inp', hinp, hpre2⟩ := prefix_split hpre' (by rw [blockHeader_length]; omega)
      have hlen : inp.length = 5 + inp'.length := by rw [hinp, List.length_append, blockHeader_length]
      obtain ⟨f, hf⟩ : ∃ f, fuel = f + 1 + 1 + 5 := ⟨fuel - 7, by omega⟩
      subst hf
      rw [hinp, run_block_header (f + 1 + 1) ad fr b.length hb1 hb2, run_data_step (f + 1) b.length false ad fr (by omega)] at h
      have hflat : (b :: bs).flatten.length = b.length + bs.flatten.length := by simp
      by_cases hk0 : min b.length (min inp'.length room) = 0
      · rw [if_pos hk0] at h
        simp only [Option.some.injEq, Prod.mk.injEq] at h
        have : inp'.length ≠ 0 := by omega
        have hr0 : room = 0 := by omega
        rw [hr0]; simp only [Nat.zero_min]; omega
      · rw [if_neg hk0] at h
        by_cases hfull : min b.length (min inp'.length room) = b.length
        · -- the whole block is copied; on to the next block boundary
          rw [hfull, Nat.sub_self, run_data_zero] at h
          obtain ⟨inp'', hinp'', hpre3⟩ := prefix_split hpre2 (by omega : b.length ≤ inp'.length)
          have hdrop : inp'.drop b.length = inp'' := by rw [hinp'']; exact List.drop_left' rfl
          have htake : (inp'.take b.length).length = b.length := by rw [List.length_take]; omega
          rw [hdrop] at h
          have hl2 : inp'.length = b.length + inp''.length := by rw [hinp'', List.length_append]
          have := ih tail inp'' f (room - b.length) _ _ _ _ s' c' acc' (fun x hx => hv x (by simp [hx])) hpre3 (by omega) h
          simp only [List.length_append, htake] at this
          rw [hflat]
          omega
        · -- the input or the room ends inside the block
          have hlt : min b.length (min inp'.length room) < b.length := by omega
          have hmono2 := run_mono _ _ _ _ _ _ _ _ _ h
          have htake : (inp'.take (min b.length (min inp'.length room))).length = min b.length (min inp'.length room) := by
            rw [List.length_take]; omega
          simp only [List.length_append, htake] at hmono2
          rw [hflat]
          omega

theorem run_zlib_header (f : Nat) (ad : Nat × Nat) (fr : Bool) (rest : Bytes) (room c : Nat) (acc : Bytes) :
    run (f + 2) { phase := .hdr0, ad := ad, fresh := fr } (0x78 :: 0x01 :: rest) room c acc =
    run f { phase := .blockHdr [], ad := ad, fresh := fr } rest room (c + 2) acc := by
  have h1 : (((0x78 : UInt8) &&& 0x0f = 8) && ((0x78 : UInt8) >>> 4 ≤ 7)) = true := by decide
  have h2 : ((((0x78 : UInt8).toNat * 256 + (0x01 : UInt8).toNat) % 31 = 0) && ((0x01 : UInt8) &&& 0x20 = 0)) = true := by decide
  show run (f + 1 + 1) _ _ _ _ _ = _
  rw [run]
  dsimp only
  rw [if_pos h1, run]
  dsimp only
  rw [if_pos h2]

/-- `EarlyOutput` holds for the stored-block decompressor of the driver on all such streams: the first 192
bytes hold at most 2 + 5·k header bytes for k ≥ 31 content bytes -/
theorem earlyOutput : EarlyOutput decompressor IsStoredNE where
  early := by
    intro z d inp cap r hz hpre hlen hr hne
    obtain ⟨blocks, hv, hflat, hzdef⟩ := hz
    have hE : 192 ≤ inp.length := by
      have : TRY_HEADER_BUF_SIZE - HEADER_MAX_SIZE = 192 := by decide
      omega
    have hzl : inp.length ≤ z.length := List.IsPrefix.length_le hpre
    have henc := encBlocks_length_le blocks hv
    have hzlen : z.length = 2 + ((encBlocks blocks).length + 9) := by
      rw [hzdef]; simp [blockHeader_length, adlerBytes]; omega
    have hdl : 31 ≤ d.length := by rw [← hflat]; omega
    rw [hzdef] at hpre
    obtain ⟨inp2, hinp, hpre2⟩ := prefix_split (a := [0x78, 0x01]) hpre (by simp; omega)
    have hl2 : inp.length = 2 + inp2.length := by rw [hinp]; simp; omega
    have hr' : decompress { phase := .hdr0, ad := (1, 0), fresh := true } inp cap false = some r := hr
    simp only [decompress] at hr'
    cases hrun : run (2 * inp.length + 8) { phase := .hdr0, ad := (1, 0), fresh := false } inp cap 0 [] with
    | none => simp [hrun] at hr'
    | some t =>
      obtain ⟨s', consumed, out⟩ := t
      simp only [hrun, Bool.false_and, Bool.false_eq_true, if_false, Option.some.injEq] at hr'
      have hprod : r.produced = out := by have := Option.some.inj hr'; rw [← this]
      obtain ⟨f, hf⟩ : ∃ f, 2 * inp.length + 8 = f + 2 := ⟨2 * inp.length + 6, by omega⟩
      rw [hf, hinp] at hrun
      have hrun' : run f { phase := .blockHdr [], ad := (1, 0), fresh := false } inp2 cap (0 + 2) [] = some (s', consumed, out) := by
        rw [← run_zlib_header]; exact hrun
      have := run_blocks blocks _ inp2 f cap _ _ _ _ s' consumed out hv hpre2 (by omega) hrun'
      rw [hprod]
      rw [hflat] at this
      simp only [List.length_nil, Nat.zero_add] at this
      omega

end GixModel.C56.Stored
