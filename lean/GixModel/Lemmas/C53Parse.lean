import GixModel.Lemmas.C53Split
/-
C53 — one mailmap line: gitoxide's `Lines::next`/`parse_line` and git's `read_mailmap_line` produce
the same mapping (lines that are an error for gitoxide add no mapping in git), on lines without
exotic white space whose emails are not padded and which carry nothing after the last `<email>`.
-/
namespace GixModel.C53
open GixModel
open GixModel.Spec.C53 (splitAt1 isSpace dropEndWhile readLineBody readLine Entry)

def nameOf (x : Bytes) : Option Bytes := if x.isEmpty then none else some x

/-- gitoxide's `parse_name_and_email` through `splitAt1` -/
theorem model_parse_split (line : Bytes) :
    parseNameAndEmail line =
      match splitAt1 60 line with
      | none => some (none, none, line)
      | some (pre, after) =>
        match splitAt1 62 after with
        | none => none
        | some (em, rest) =>
          if (trim em).isEmpty then none else some (nameOf (trim pre), some (trim em), rest) := by
  unfold parseNameAndEmail
  have h1 := findByte_split 60 line
  cases hf : findByte 60 line with
  | none => rw [hf] at h1; simp only at h1; rw [h1]
  | some start =>
    rw [hf] at h1; simp only at h1; rw [h1]
    simp only
    have h2 := findByte_split 62 (line.drop (start + 1))
    cases hg : findByte 62 (line.drop (start + 1)) with
    | none => rw [hg] at h2; simp only at h2; rw [h2]
    | some closing =>
      rw [hg] at h2; simp only at h2; rw [h2]
      simp only [nameOf]
      have : List.drop (closing + 1) (List.drop (start + 1) line) = List.drop (start + closing + 2) line := by
        rw [List.drop_drop]; congr 1; omega
      rw [this]

theorem model_parse_none {t : Bytes} (h : splitAt1 60 t = none) : parseNameAndEmail t = some (none, none, t) := by
  rw [model_parse_split, h]

theorem model_parse_open {t pre after : Bytes} (h1 : splitAt1 60 t = some (pre, after))
    (h2 : splitAt1 62 after = none) : parseNameAndEmail t = none := by
  rw [model_parse_split, h1]; simp only [h2]

theorem model_parse_pair {t pre after em rest : Bytes} (h1 : splitAt1 60 t = some (pre, after))
    (h2 : splitAt1 62 after = some (em, rest)) (hp : noExotic pre = true) (he : noExotic em = true) :
    parseNameAndEmail t =
      if (gitTrim em).isEmpty then none else some (nameOf (gitTrim pre), some (gitTrim em), rest) := by
  rw [model_parse_split, h1]; simp only [h2, trim_plain _ hp, trim_plain _ he]

theorem spec_parse_none {t : Bytes} (allow : Bool) (h : splitAt1 60 t = none) :
    Spec.C53.parseNameAndEmail t allow = none := by
  unfold Spec.C53.parseNameAndEmail; rw [h]

theorem spec_parse_open {t pre after : Bytes} (allow : Bool) (h1 : splitAt1 60 t = some (pre, after))
    (h2 : splitAt1 62 after = none) : Spec.C53.parseNameAndEmail t allow = none := by
  unfold Spec.C53.parseNameAndEmail; rw [h1]; simp only [h2]

theorem spec_parse_pair {t pre after em rest : Bytes} (allow : Bool) (h1 : splitAt1 60 t = some (pre, after))
    (h2 : splitAt1 62 after = some (em, rest)) :
    Spec.C53.parseNameAndEmail t allow =
      if !allow && em.isEmpty then none
      else some (nameOf (gitTrim pre), em, if rest.isEmpty then none else some rest) := by
  unfold Spec.C53.parseNameAndEmail; rw [h1]; simp only [h2]; rfl

theorem readLineBody_first_none {t : Bytes} (h : Spec.C53.parseNameAndEmail t false = none) :
    readLineBody t = none := by
  unfold readLineBody; rw [h]

theorem readLineBody_first_end {t : Bytes} {n1 : Option Bytes} {e1 : Bytes}
    (h : Spec.C53.parseNameAndEmail t false = some (n1, e1, none)) :
    readLineBody t = some (n1, e1, none, none) := by
  unfold readLineBody; rw [h]

theorem readLineBody_first_rest_none {t rest : Bytes} {n1 : Option Bytes} {e1 : Bytes}
    (h : Spec.C53.parseNameAndEmail t false = some (n1, e1, some rest))
    (h2 : Spec.C53.parseNameAndEmail rest true = none) :
    readLineBody t = some (n1, e1, none, none) := by
  unfold readLineBody; rw [h]; simp only [h2]

theorem readLineBody_first_rest_some {t rest : Bytes} {n1 n2 : Option Bytes} {e1 e2 : Bytes} {r2 : Option Bytes}
    (h : Spec.C53.parseNameAndEmail t false = some (n1, e1, some rest))
    (h2 : Spec.C53.parseNameAndEmail rest true = some (n2, e2, r2)) :
    readLineBody t = some (n1, e1, n2, some e2) := by
  unfold readLineBody; rw [h]; simp only [h2]

theorem parseLine_first_none {t : Bytes} (h : parseNameAndEmail t = none) : parseLine t = none := by
  unfold parseLine; rw [h]

theorem parseLine_second_none {t rest : Bytes} {n1 e1 : Option Bytes}
    (h : parseNameAndEmail t = some (n1, e1, rest)) (h2 : parseNameAndEmail rest = none) :
    parseLine t = none := by
  unfold parseLine; rw [h]; simp only [h2]

theorem parseLine_both {t rest rest2 : Bytes} {n1 e1 n2 e2 : Option Bytes}
    (h : parseNameAndEmail t = some (n1, e1, rest)) (h2 : parseNameAndEmail rest = some (n2, e2, rest2))
    (h3 : (trim rest2).isEmpty = true) :
    parseLine t = mkEntry n1 e1 n2 e2 := by
  unfold parseLine; rw [h]; simp only [h2, h3, Bool.not_true, Bool.false_eq_true, if_false]

/-- `<`…`>` scan shared by the domain predicate -/
def scan (l : Bytes) : Option (Bytes × Bytes × Bytes) :=
  match splitAt1 60 l with
  | none => none
  | some (pre, a) =>
    match splitAt1 62 a with
    | none => none
    | some (em, rest) => some (pre, em, rest)

/-- the domain of `parse_eq_git` on the trimmed line: emails are not padded with white space
(`deviation:email-surrounding-whitespace`), the commit email is not empty
(`deviation:empty-commit-email`), nothing but white space follows the last `<email>`
(`deviation:trailing-text`) -/
def lineClean (t : Bytes) : Bool :=
  match scan t with
  | none => true
  | some (_, e1, rest1) =>
    (gitTrim e1 == e1) &&
    match scan rest1 with
    | none => isBlank rest1
    | some (_, e2, rest2) => (gitTrim e2 == e2) && !e2.isEmpty && isBlank rest2

/-- a mapping that changes nothing: `<email>` alone on a line (git adds it, gitoxide calls it malformed) -/
def isNoop (e : Entry) : Bool := e.newName.isNone && e.newEmail.isNone && e.oldName.isNone

/-- the mapping git adds for a buffer, `none` if it adds none or one without any effect -/
def effOfArgs (r : Option (Option Bytes × Bytes × Option Bytes × Option Bytes)) : Option Entry :=
  match r with
  | none => none
  | some (a, b, c, d) => if isNoop (Entry.ofArgs a b c d) then none else some (Entry.ofArgs a b c d)

theorem lt_not_space : isSpace 60 = false := by decide
theorem gt_not_space : isSpace 62 = false := by decide

theorem trim_blank_empty {r : Bytes} (hx : noExotic r = true) (hb : isBlank r = true) : (trim r).isEmpty = true := by
  rw [trim_plain r hx, gitTrim_of_blank r hb]; rfl

/-- the core: on the trimmed line both parsers agree -/
theorem parseLine_core (t : Bytes) (hx : noExotic t = true) (hc : lineClean t = true) :
    parseLine t = effOfArgs (readLineBody t) := by
  unfold lineClean scan at hc
  cases h1 : splitAt1 60 t with
  | none =>
    rw [readLineBody_first_none (spec_parse_none false h1)]
    have hm := model_parse_none h1
    by_cases htr : (trim t).isEmpty = true
    · rw [parseLine_both hm hm htr]; rfl
    · unfold parseLine; rw [hm]; simp only [hm, htr]; rfl
  | some pa =>
    obtain ⟨pre1, after1⟩ := pa
    obtain ⟨ht, _⟩ := splitAt1_some h1
    have hxpre1 : noExotic pre1 = true := by rw [ht] at hx; exact noExotic_prefix _ _ hx
    have hxafter1 : noExotic after1 = true := by
      rw [ht] at hx
      have := noExotic_suffix _ _ hx
      simp only [noExotic, Bool.and_eq_true] at this; exact this.2
    rw [h1] at hc
    simp only at hc
    cases h2 : splitAt1 62 after1 with
    | none =>
      rw [parseLine_first_none (model_parse_open h1 h2), readLineBody_first_none (spec_parse_open false h1 h2)]
      rfl
    | some er =>
      obtain ⟨e1, rest1⟩ := er
      obtain ⟨ha, _⟩ := splitAt1_some h2
      have hxe1 : noExotic e1 = true := by rw [ha] at hxafter1; exact noExotic_prefix _ _ hxafter1
      have hxrest1 : noExotic rest1 = true := by
        rw [ha] at hxafter1
        have := noExotic_suffix _ _ hxafter1
        simp only [noExotic, Bool.and_eq_true] at this; exact this.2
      rw [h2] at hc
      simp only [Bool.and_eq_true, beq_iff_eq] at hc
      obtain ⟨hte1, hc2⟩ := hc
      have hm1 := model_parse_pair h1 h2 hxpre1 hxe1
      have hs1 := spec_parse_pair false h1 h2
      rw [hte1] at hm1
      by_cases hemp : e1.isEmpty = true
      · simp only [hemp, if_true] at hm1
        simp only [hemp, Bool.not_false, Bool.and_self, if_true] at hs1
        rw [parseLine_first_none hm1, readLineBody_first_none hs1]; rfl
      · have hemp' : e1.isEmpty = false := by simpa using hemp
        simp only [hemp', Bool.false_eq_true, if_false] at hm1
        simp only [hemp', Bool.and_false, Bool.false_eq_true, if_false] at hs1
        -- second pair
        cases h3 : splitAt1 60 rest1 with
        | none =>
          rw [h3] at hc2
          simp only at hc2
          have hblank : isBlank rest1 = true := hc2
          have hm2 := model_parse_none h3
          rw [parseLine_both hm1 hm2 (trim_blank_empty hxrest1 hblank)]
          have hspec : readLineBody t = some (nameOf (gitTrim pre1), e1, none, none) := by
            by_cases hr : rest1.isEmpty = true
            · simp only [hr, if_true] at hs1
              exact readLineBody_first_end hs1
            · simp only [hr, Bool.false_eq_true, if_false] at hs1
              exact readLineBody_first_rest_none hs1 (spec_parse_none true h3)
          rw [hspec]
          cases hn : nameOf (gitTrim pre1) with
          | none => simp [effOfArgs, Entry.ofArgs, isNoop, mkEntry]
          | some n1 => simp [effOfArgs, Entry.ofArgs, isNoop, mkEntry]
        | some pa2 =>
          obtain ⟨pre2, after2⟩ := pa2
          obtain ⟨hr1, _⟩ := splitAt1_some h3
          have hne : rest1.isEmpty = false := by rw [hr1]; cases pre2 <;> rfl
          have hxpre2 : noExotic pre2 = true := by rw [hr1] at hxrest1; exact noExotic_prefix _ _ hxrest1
          have hxafter2 : noExotic after2 = true := by
            rw [hr1] at hxrest1
            have := noExotic_suffix _ _ hxrest1
            simp only [noExotic, Bool.and_eq_true] at this; exact this.2
          rw [h3] at hc2
          simp only at hc2
          simp only [hne, Bool.false_eq_true, if_false] at hs1
          cases h4 : splitAt1 62 after2 with
          | none =>
            -- `<` without `>` after the first pair: not blank, excluded by the domain
            rw [h4] at hc2
            simp only at hc2
            have : (60 : UInt8) ∉ rest1 := blank_notin 60 lt_not_space hc2
            rw [hr1] at this
            exact absurd (by simp) this
          | some er2 =>
            obtain ⟨e2, rest2⟩ := er2
            obtain ⟨ha2, _⟩ := splitAt1_some h4
            have hxe2 : noExotic e2 = true := by rw [ha2] at hxafter2; exact noExotic_prefix _ _ hxafter2
            have hxrest2 : noExotic rest2 = true := by
              rw [ha2] at hxafter2
              have := noExotic_suffix _ _ hxafter2
              simp only [noExotic, Bool.and_eq_true] at this; exact this.2
            rw [h4] at hc2
            simp only [Bool.and_eq_true, beq_iff_eq, Bool.not_eq_true'] at hc2
            obtain ⟨⟨hte2, hne2⟩, hb2⟩ := hc2
            have hm2 := model_parse_pair h3 h4 hxpre2 hxe2
            rw [hte2] at hm2
            simp only [hne2, Bool.false_eq_true, if_false] at hm2
            have hs2 := spec_parse_pair true h3 h4
            simp only [Bool.not_true, Bool.false_and, Bool.false_eq_true, if_false] at hs2
            rw [parseLine_both hm1 hm2 (trim_blank_empty hxrest2 hb2), readLineBody_first_rest_some hs1 hs2]
            cases hn1 : nameOf (gitTrim pre1) with
            | none =>
              cases hn2 : nameOf (gitTrim pre2) with
              | none => simp [effOfArgs, Entry.ofArgs, isNoop, mkEntry]
              | some n2 => simp [effOfArgs, Entry.ofArgs, isNoop, mkEntry]
            | some n1 =>
              cases hn2 : nameOf (gitTrim pre2) with
              | none => simp [effOfArgs, Entry.ofArgs, isNoop, mkEntry]
              | some n2 => simp [effOfArgs, Entry.ofArgs, isNoop, mkEntry]

end GixModel.C53
