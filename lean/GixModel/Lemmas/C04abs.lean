import GixModel.Lemmas.C04e
/-
C04 helper lemmas: what an editor state denotes below a cached directory and outside of it
(used for writes and for edits through a cursor).
-/
namespace GixModel.C04
open GixModel GixModel.Tree
open GixModel.Spec.C04 (Leaf FS)

theorem inv_pathBuf {ed : Ed} (h : Inv ed) (pb : Path) : Inv { ed with pathBuf := pb } :=
  inv_congr (ed := ed) (ed' := { ed with pathBuf := pb }) (fun _ => rfl) rfl h

theorem abs_pathBuf (ed : Ed) (pb : Path) : abs { ed with pathBuf := pb } = abs ed := by
  funext q
  simp only [abs]
  cases aget [] ed.trees with
  | none => rfl
  | some root =>
    exact lookupIn_congr (ed := ed) (ed' := { ed with pathBuf := pb }) rfl q root [] (fun _ _ _ => rfl)

/-- a lookup only consults cache entries on the way from `pb` to `pb ++ q` -/
theorem lookupIn_congr_prefix {ed ed' : Ed} (hs : ed'.store = ed.store) (q : Path) :
    ∀ (t : List Entry) (pb : Path),
      (∀ K, pb <+: K → K ≠ pb → K <+: pb ++ q → aget K ed'.trees = aget K ed.trees) →
      lookupIn ed' t pb q = lookupIn ed t pb q := by
  induction q with
  | nil => intro t pb _; rfl
  | cons n rest ih =>
    intro t pb hc
    cases rest with
    | nil => rfl
    | cons m rest' =>
      simp only [lookupIn]
      cases hf : findName t n with
      | none => rfl
      | some e =>
        simp only
        by_cases hd : e.isTree = true
        · simp only [hd, if_true]
          have hk : aget (pb ++ [n]) ed'.trees = aget (pb ++ [n]) ed.trees :=
            hc _ (List.prefix_append _ _) (ne_append_singleton pb n).symm
              ⟨m :: rest', by simp [List.append_assoc]⟩
          rw [resolve_congr hs hk]
          cases resolve ed (pb ++ [n]) e.oid with
          | none => rfl
          | some t' =>
            simp only
            apply ih
            intro K hK hne hle
            refine hc K ((List.prefix_append pb [n]).trans hK) ?_ (by simpa [List.append_assoc] using hle)
            intro h; subst h
            exact not_prefix_append_singleton _ _ hK
        · simp [hd]

/-- walking down to a cached directory -/
theorem lookupIn_to_cached {ed : Ed} (hinv : Inv ed) :
    ∀ (P1 : Path) (P0 : Path) (t0 t : List Entry), aget P0 ed.trees = some t0 →
      aget (P0 ++ P1) ed.trees = some t → ∀ q, q ≠ [] →
      lookupIn ed t0 P0 (P1 ++ q) = lookupIn ed t (P0 ++ P1) q := by
  intro P1
  induction P1 with
  | nil =>
    intro P0 t0 t h0 h q _
    simp only [List.append_nil] at h
    rw [h0] at h
    simp only [Option.some.injEq] at h
    subst h
    simp
  | cons n P1 ih =>
    intro P0 t0 t h0 h q hq
    have hsplit : P0 ++ n :: P1 = (P0 ++ [n]) ++ P1 := by simp [List.append_assoc]
    rw [hsplit] at h
    have hsome := cached_prefix hinv P1.length P1 (P0 ++ [n]) t rfl h
    cases hn : aget (P0 ++ [n]) ed.trees with
    | none => simp [hn] at hsome
    | some tn =>
      obtain ⟨tp, e, h1, h2, h3⟩ := hinv.linked P0 n tn hn
      rw [h0] at h1
      simp only [Option.some.injEq] at h1
      subst h1
      have hres : resolve ed (P0 ++ [n]) e.oid = some tn := by simp [resolve, hn]
      have hne : P1 ++ q ≠ [] := by
        intro h0'; exact hq (List.append_eq_nil_iff.1 h0').2
      rw [List.cons_append, lookupIn_cons_dir h2 h3 hres hne, ih (P0 ++ [n]) tn t hn h q hq, hsplit]

/-- below a cached directory the editor denotes what its cached tree denotes -/
theorem abs_under {ed : Ed} (hinv : Inv ed) {P : Path} {t : List Entry}
    (hP : aget P ed.trees = some t) {q : Path} (hq : q ≠ []) :
    abs ed (P ++ q) = lookupIn ed t P q := by
  cases hroot : aget [] ed.trees with
  | none => have := hinv.root; simp [hroot] at this
  | some root =>
    simp only [abs, hroot]
    have := lookupIn_to_cached hinv P [] root t hroot (by simpa using hP) q hq
    simpa using this

/-- a cached directory (other than the root) is not a leaf, nor is any directory on the way to it -/
theorem abs_dir_none {ed : Ed} (hinv : Inv ed) {P : Path} {t : List Entry}
    (hP : aget P ed.trees = some t) (Q : Path) (hQ : Q <+: P) : abs ed Q = none := by
  cases hQe : Q with
  | nil =>
    simp only [abs]
    cases aget [] ed.trees <;> rfl
  | cons n0 rest0 =>
    have hQne : Q ≠ [] := by rw [hQe]; simp
    -- `Q` is cached as well
    obtain ⟨S, rfl⟩ := hQ
    have hsome := cached_prefix hinv S.length S Q t rfl hP
    cases hc : aget Q ed.trees with
    | none => simp [hc] at hsome
    | some tq =>
      rw [← hQe]
      have hsplit := List.dropLast_concat_getLast hQne
      rw [← hsplit] at hc
      obtain ⟨tp, e, h1, h2, h3⟩ := hinv.linked _ _ _ hc
      rw [← hsplit, abs_under hinv h1 (by simp)]
      simp [lookupIn, h2, leafOf, h3]

/-- outside of `P` nothing changes when only cache entries at or below `P` change -/
theorem abs_frame {ed ed' : Ed} (hs : ed'.store = ed.store) {P : Path} (hP : P ≠ [])
    (hframe : ∀ K, ¬ P <+: K → aget K ed'.trees = aget K ed.trees) {q : Path} (hq : ¬ P <+: q) :
    abs ed' q = abs ed q := by
  have hroot : aget [] ed'.trees = aget [] ed.trees := by
    apply hframe
    intro h; exact hP (List.prefix_nil.1 h)
  simp only [abs, hroot]
  cases aget [] ed.trees with
  | none => rfl
  | some root =>
    simp only
    apply lookupIn_congr_prefix hs
    intro K _ _ hK
    apply hframe
    intro h
    exact hq (h.trans (by simpa using hK))

end GixModel.C04
