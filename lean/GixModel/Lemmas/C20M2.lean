import GixModel.Lemmas.C20M1
/-
C20 helper lemmas, part 10 (all packed-refs modes): the packed-refs part from any state, and the two
shapes the steps touching one edited ref can have — "lock, write, rename" (the ref file gets the new
value) and "packed-refs first, then unlink" (the ref file goes away: deletions, and object updates
whose loose source is removed in mode `r`).
-/
namespace GixModel.C20
open GixModel

theorem run_packedM_gen (m : Mode) (c : Cfg) (s : Store) (txn : List Edit)
    (hchunk : ∀ bs, (c.chunk bs).flatten = bs) (fs : Fs)
    (hpk : fs packedPath = ent (s.packed.map renderPacked))
    (hlock : s.hasGlobalLockM m txn = true → fs (lockPath packedPath) = some (.file [])) :
    AllPrefixes (fun f => (f packedPath = fs packedPath ∨ f packedPath = ent (newPackedFileM m s txn)) ∧
        ∀ q, q ≠ packedPath → q ≠ lockPath packedPath → f q = fs q) (packedCommitM m c s txn) fs ∧
      applyAll (packedCommitM m c s txn) fs packedPath = ent (newPackedFileM m s txn) := by
  have hne : lockPath packedPath ≠ packedPath := by decide
  have frame : ∀ j q, q ≠ packedPath → q ≠ lockPath packedPath →
      applyAll ((packedCommitM m c s txn).take j) fs q = fs q := by
    intro j q h1 h2
    apply applyAll_frame
    intro op ho ht
    rcases packedCommitM_touches m c s txn op (List.mem_of_mem_take ho) q ht with e | e
    · exact h1 e
    · exact h2 e
  by_cases hg : s.hasGlobalLockM m txn = true
  · by_cases he : ((upsOf m txn).isEmpty && (delsOf s txn).isEmpty) = true
    · have hnew : newPackedFileM m s txn = s.packed.map renderPacked := by
        simp only [newPackedFileM]; rw [if_neg]; intro hc; rw [he] at hc; cases hc.2
      have hops : packedCommitM m c s txn = [FsOp.unlink (lockPath packedPath)] := by
        simp only [packedCommitM, hg, Bool.not_true, Bool.false_eq_true, if_false]
        simp only [he, if_true]
      have hkeep : ∀ j, applyAll ((packedCommitM m c s txn).take j) fs packedPath = fs packedPath := by
        intro j
        apply applyAll_frame
        intro op ho
        rw [hops] at ho
        have := List.mem_of_mem_take ho
        simp at this; subst this
        simp [FsOp.touches]; exact hne.symm
      refine ⟨fun j => ⟨.inl (hkeep j), frame j⟩, ?_⟩
      have := hkeep (packedCommitM m c s txn).length
      rw [List.take_length] at this
      rw [this, hpk, hnew]
    · have he' : ((upsOf m txn).isEmpty && (delsOf s txn).isEmpty) = false := by
        cases hb : ((upsOf m txn).isEmpty && (delsOf s txn).isEmpty) with
        | false => rfl
        | true => exact absurd hb he
      let A := writeOps c.chunk (lockPath packedPath) (renderPacked (s.remainingM m txn))
      have hA : ∀ op ∈ A, ∀ t ∈ op.touches, t = lockPath packedPath := appends_touch _ _
      have hAlock : applyAll A fs (lockPath packedPath) = some (.file (renderPacked (s.remainingM m txn))) := by
        have := run_appends (lockPath packedPath) (c.chunk (renderPacked (s.remainingM m txn))) fs [] (hlock hg)
        simpa [A, writeOps, hchunk] using this
      have hApk : ∀ j, applyAll (A.take j) fs packedPath = fs packedPath := by
        intro j
        apply applyAll_frame
        intro op ho ht
        exact hne.symm (hA op (List.mem_of_mem_take ho) _ ht)
      have hApk' : applyAll A fs packedPath = fs packedPath := by
        have := hApk A.length; rwa [List.take_length] at this
      by_cases hr : (s.remainingM m txn).isEmpty = true
      · have hnew : newPackedFileM m s txn = none := by
          simp only [newPackedFileM]; rw [if_pos ⟨hg, he'⟩]; simp [hr]
        have hops : packedCommitM m c s txn = A ++ [FsOp.unlink packedPath, FsOp.unlink (lockPath packedPath)] := by
          simp only [packedCommitM, hg, Bool.not_true, Bool.false_eq_true, if_false]
          simp only [he', Bool.false_eq_true, if_false, hr, if_true, A]
        have hfin : ∀ f : Fs, f packedPath = fs packedPath →
            AllPrefixes (fun f' => f' packedPath = fs packedPath ∨ f' packedPath = ent (newPackedFileM m s txn))
              [FsOp.unlink packedPath, FsOp.unlink (lockPath packedPath)] f ∧
            applyAll [FsOp.unlink packedPath, FsOp.unlink (lockPath packedPath)] f packedPath = none := by
          intro f hf
          have h1' : (FsOp.unlink packedPath).apply f packedPath = none := by
            cases hx : f packedPath with
            | none => simp [FsOp.apply, hx]
            | some x =>
              cases x with
              | file c0 => simp [FsOp.apply, hx]
              | dir =>
                rw [hf, hpk] at hx
                cases hs : s.packed <;> simp [hs, ent] at hx
          have h2 : (FsOp.unlink (lockPath packedPath)).apply ((FsOp.unlink packedPath).apply f) packedPath = none := by
            rw [apply_frame _ _ (by simp [FsOp.touches]; exact hne.symm), h1']
          refine ⟨?_, by simpa using h2⟩
          refine allPrefixes_cons (P := fun f' => f' packedPath = fs packedPath ∨ f' packedPath = ent (newPackedFileM m s txn))
            (Or.inl hf) ?_
          refine allPrefixes_cons (P := fun f' => f' packedPath = fs packedPath ∨ f' packedPath = ent (newPackedFileM m s txn))
            (Or.inr (by rw [h1', hnew]; rfl)) ?_
          exact allPrefixes_nil (P := fun f' => f' packedPath = fs packedPath ∨ f' packedPath = ent (newPackedFileM m s txn))
            (Or.inr (by rw [h2, hnew]; rfl))
        obtain ⟨hf1, hf2⟩ := hfin (applyAll A fs) hApk'
        refine ⟨fun j => ⟨?_, frame j⟩, ?_⟩
        · rw [hops]
          exact allPrefixes_append (P := fun f' => f' packedPath = fs packedPath ∨ f' packedPath = ent (newPackedFileM m s txn))
            (fun j => .inl (hApk j)) hf1 j
        · rw [hops, applyAll_append, hf2, hnew]; rfl
      · have hr' : (s.remainingM m txn).isEmpty = false := by simpa using hr
        have hnew : newPackedFileM m s txn = some (renderPacked (s.remainingM m txn)) := by
          simp only [newPackedFileM]; rw [if_pos ⟨hg, he'⟩]; simp [hr']
        have hops : packedCommitM m c s txn = A ++ [FsOp.rename (lockPath packedPath) packedPath] := by
          simp only [packedCommitM, hg, Bool.not_true, Bool.false_eq_true, if_false]
          simp only [he', Bool.false_eq_true, if_false, hr', A]
        have hren : (FsOp.rename (lockPath packedPath) packedPath).apply (applyAll A fs) packedPath =
            some (.file (renderPacked (s.remainingM m txn))) := by
          have hp : applyAll A fs packedPath = ent (s.packed.map renderPacked) := by rw [hApk', hpk]
          cases hs : s.packed with
          | none => simp [FsOp.apply, hAlock, hp, hs, ent]
          | some rs => simp [FsOp.apply, hAlock, hp, hs, ent]
        refine ⟨fun j => ⟨?_, frame j⟩, ?_⟩
        · rw [hops]
          refine allPrefixes_append (P := fun f' => f' packedPath = fs packedPath ∨ f' packedPath = ent (newPackedFileM m s txn))
            (fun j => .inl (hApk j)) ?_ j
          refine allPrefixes_cons (P := fun f' => f' packedPath = fs packedPath ∨ f' packedPath = ent (newPackedFileM m s txn))
            (Or.inl hApk') ?_
          exact allPrefixes_nil (P := fun f' => f' packedPath = fs packedPath ∨ f' packedPath = ent (newPackedFileM m s txn))
            (Or.inr (by rw [hren, hnew]; rfl))
        · rw [hops, applyAll_append]
          simp only [applyAll_cons, applyAll_nil]
          rw [hren, hnew]; rfl
  · have hops : packedCommitM m c s txn = [] := by simp [packedCommitM, hg]
    have hnew : newPackedFileM m s txn = s.packed.map renderPacked := by
      simp only [newPackedFileM]; rw [if_neg]; intro hc; exact hg hc.1
    refine ⟨fun j => ⟨.inl ?_, frame j⟩, ?_⟩
    · rw [hops]; simp
    · rw [hops]; simp [hpk, hnew]

/-- what is needed of the store around one ref -/
structure RefCtx (s : Store) (n : Name) : Prop where
  hn : isRefName n = true
  nolock : s.toFs (lockPath n) = none
  notdir : s.toFs n ≠ some .dir
  loose_ref : ∀ x ∈ s.loose, isRefName x.1 = true
  no_packed_lock : s.toFs (lockPath packedPath) = none

/-- shape A: the ref file gets `content` -/
def PairA (m : Mode) (s : Store) (txn : List Edit) (n : Name) (content : Bytes) (a b : Option Bytes) : Prop :=
  (a = (s.looseOf n).map renderRef ∧ b = s.packed.map renderPacked) ∨
    (a = some content ∧ (b = s.packed.map renderPacked ∨ b = newPackedFileM m s txn))

/-- shape B: the ref file goes away after packed-refs was rewritten -/
def PairB (m : Mode) (s : Store) (txn : List Edit) (n : Name) (a b : Option Bytes) : Prop :=
  (a = (s.looseOf n).map renderRef ∧ (b = s.packed.map renderPacked ∨ b = newPackedFileM m s txn)) ∨
    (a = none ∧ b = newPackedFileM m s txn)

theorem init_entries {s : Store} {n : Name} (x : RefCtx s n) :
    s.toFs n = ent ((s.looseOf n).map renderRef) ∧ s.toFs packedPath = ent (s.packed.map renderPacked) := by
  constructor
  · rw [entry_of_fileAt x.notdir, init_loose x.loose_ref x.hn]
  · have : s.toFs packedPath ≠ some .dir := by
      unfold Store.toFs
      have : s.loose.find? (fun y => decide (y.1 = packedPath)) = none := by
        apply List.find?_eq_none.mpr
        intro y hy; simpa using (refName_ne_packed (x.loose_ref y hy)).1
      simp only [this, if_true]
      cases s.packed <;> simp
    rw [entry_of_fileAt this, init_packed x.loose_ref]

theorem pk0_facts (s : Store) (g : Bool) (hnl : s.toFs (lockPath packedPath) = none) :
    (∀ op ∈ pk0 g, ∀ t ∈ op.touches, t = lockPath packedPath) ∧
    (g = true → applyAll (pk0 g) s.toFs (lockPath packedPath) = some (.file [])) ∧
    (∀ q, q ≠ lockPath packedPath → applyAll (pk0 g) s.toFs q = s.toFs q) := by
  have h1 : ∀ op ∈ pk0 g, ∀ t ∈ op.touches, t = lockPath packedPath := by
    intro op ho t ht
    simp only [pk0] at ho
    split at ho
    · simp at ho; subst ho; simpa [FsOp.touches] using ht
    · cases ho
  refine ⟨h1, ?_, ?_⟩
  · intro hg; simp [pk0, hg, FsOp.apply, hnl]
  · intro q hq
    apply applyAll_frame
    intro op ho ht
    exact hq (h1 op ho q ht)

theorem run_shapeA (m : Mode) (c : Cfg) (s : Store) (txn : List Edit) (hchunk : ∀ bs, (c.chunk bs).flatten = bs)
    (n : Name) (x : RefCtx s n) (content : Bytes) :
    let g := s.hasGlobalLockM m txn
    let ops := pk0 g ++ (FsOp.create (lockPath n) :: writeOps c.chunk (lockPath n) content) ++
      ([FsOp.rename (lockPath n) n] ++ packedCommitM m c s txn)
    AllPrefixes (fun f => PairA m s txn n content (fileAt f n) (fileAt f packedPath)) ops s.toFs ∧
      fileAt (applyAll ops s.toFs) n = some content ∧
      fileAt (applyAll ops s.toFs) packedPath = newPackedFileM m s txn := by
  intro g ops
  have hn := x.hn
  have hnp := refName_ne_packed hn
  have hlp := lockPath_ne_packed hn
  have hne : lockPath packedPath ≠ packedPath := by decide
  obtain ⟨h0n, h0p⟩ := init_entries x
  obtain ⟨hpk0, pk0lock, pk0other⟩ := pk0_facts s g x.no_packed_lock
  have hdep : ∀ f g' : Fs, (∀ q ∈ [n, packedPath], f q = g' q) →
      PairA m s txn n content (fileAt g' n) (fileAt g' packedPath) →
      PairA m s txn n content (fileAt f n) (fileAt f packedPath) := by
    intro f g' hq hA
    rw [fileAt_congr (hq n (by simp)), fileAt_congr (hq packedPath (by simp))]
    exact hA
  have hstart : PairA m s txn n content (fileAt s.toFs n) (fileAt s.toFs packedPath) := by
    rw [fileAt_ent h0n, fileAt_ent h0p]; exact .inl ⟨rfl, rfl⟩
  let L1 := pk0 g ++ (FsOp.create (lockPath n) :: writeOps c.chunk (lockPath n) content)
  have hL1t : ∀ op ∈ L1, ∀ t ∈ op.touches, t = lockPath packedPath ∨ t = lockPath n := by
    intro op ho t ht
    rcases List.mem_append.mp ho with ho | ho
    · exact .inl (hpk0 op ho t ht)
    · rcases List.mem_cons.mp ho with rfl | ho
      · right; simpa [FsOp.touches] using ht
      · right; exact appends_touch _ _ op ho t ht
  have hL1full : ∀ q, q ≠ lockPath packedPath → q ≠ lockPath n → applyAll L1 s.toFs q = s.toFs q := by
    intro q h1 h2
    apply applyAll_frame
    intro op ho ht
    rcases hL1t op ho q ht with e' | e'
    · exact h1 e'
    · exact h2 e'
  have p1 : AllPrefixes (fun f => PairA m s txn n content (fileAt f n) (fileAt f packedPath)) L1 s.toFs := by
    apply allPrefixes_frame _ [n, packedPath] hdep _ _ _ hstart
    intro op ho q hq ht
    simp at hq
    rcases hL1t op ho q ht with e' | e' <;> rcases hq with rfl | rfl
    · exact hnp.2 e'
    · exact hne e'.symm
    · exact lock_ne_self _ e'.symm
    · exact hlp.1 e'.symm
  let fs1 := applyAll L1 s.toFs
  have f1n : fs1 n = s.toFs n := hL1full n hnp.2 (fun e' => lock_ne_self n e'.symm)
  have f1p : fs1 packedPath = s.toFs packedPath := hL1full packedPath hne.symm (fun e' => hlp.1 e'.symm)
  have f1lock : fs1 (lockPath n) = some (.file content) := by
    show applyAll L1 s.toFs (lockPath n) = _
    simp only [L1, applyAll_append]
    have hnone : applyAll (pk0 g) s.toFs (lockPath n) = none := by
      rw [pk0other _ hlp.2]; exact x.nolock
    have := run_create_appends (lockPath n) (c.chunk content) _ hnone
    simpa [writeOps, hchunk] using this
  have f1plock : g = true → fs1 (lockPath packedPath) = some (.file []) := by
    intro hg
    show applyAll L1 s.toFs (lockPath packedPath) = _
    simp only [L1, applyAll_append]
    rw [applyAll_frame _ _, pk0lock hg]
    intro op ho ht
    rcases List.mem_cons.mp ho with rfl | ho
    · simp [FsOp.touches] at ht; exact hlp.2 ht.symm
    · exact hlp.2 (appends_touch _ _ op ho _ ht).symm
  let fs2 := (FsOp.rename (lockPath n) n).apply fs1
  have f2n : fs2 n = some (.file content) := by
    show (FsOp.rename (lockPath n) n).apply fs1 n = _
    have hnd : fs1 n ≠ some .dir := by rw [f1n]; exact x.notdir
    cases hx : fs1 n with
    | none => simp [FsOp.apply, f1lock, hx]
    | some y =>
      cases y with
      | dir => exact absurd hx hnd
      | file c' => simp [FsOp.apply, f1lock, hx]
  have f2p : fs2 packedPath = s.toFs packedPath := by
    show (FsOp.rename (lockPath n) n).apply fs1 packedPath = _
    rw [apply_frame _ _ (by simp [FsOp.touches]; exact ⟨fun e' => hlp.1 e'.symm, fun e' => hnp.1 e'.symm⟩), f1p]
  have f2plock : g = true → fs2 (lockPath packedPath) = some (.file []) := by
    intro hg
    show (FsOp.rename (lockPath n) n).apply fs1 (lockPath packedPath) = _
    rw [apply_frame _ _ (by simp [FsOp.touches]; exact ⟨fun e' => hlp.2 e'.symm, fun e' => hnp.2 e'.symm⟩), f1plock hg]
  obtain ⟨p3, p3fin⟩ := run_packedM_gen m c s txn hchunk fs2 (by rw [f2p, h0p]) f2plock
  refine ⟨?_, ?_, ?_⟩
  · apply allPrefixes_append p1
    apply allPrefixes_append
    · refine allPrefixes_cons (P := fun f => PairA m s txn n content (fileAt f n) (fileAt f packedPath)) ?_ ?_
      · show PairA m s txn n content (fileAt fs1 n) (fileAt fs1 packedPath)
        rw [fileAt_congr f1n, fileAt_congr f1p]; exact hstart
      · refine allPrefixes_nil (P := fun f => PairA m s txn n content (fileAt f n) (fileAt f packedPath)) ?_
        show PairA m s txn n content (fileAt fs2 n) (fileAt fs2 packedPath)
        rw [fileAt_ent (o := some content) (by simpa [ent] using f2n), fileAt_congr f2p, fileAt_ent h0p]
        exact .inr ⟨rfl, .inl rfl⟩
    · intro j
      obtain ⟨hp, hfr⟩ := p3 j
      show PairA m s txn n content (fileAt (applyAll ((packedCommitM m c s txn).take j) fs2) n)
        (fileAt (applyAll ((packedCommitM m c s txn).take j) fs2) packedPath)
      have hnn : applyAll ((packedCommitM m c s txn).take j) fs2 n = fs2 n := hfr n hnp.1 hnp.2
      rw [fileAt_congr hnn, fileAt_ent (o := some content) (by simpa [ent] using f2n)]
      rcases hp with hp | hp
      · rw [fileAt_congr hp, fileAt_congr f2p, fileAt_ent h0p]; exact .inr ⟨rfl, .inl rfl⟩
      · rw [fileAt_ent hp]; exact .inr ⟨rfl, .inr rfl⟩
  · show fileAt (applyAll (L1 ++ ([FsOp.rename (lockPath n) n] ++ packedCommitM m c s txn)) s.toFs) n = _
    rw [applyAll_append, applyAll_append]
    have hfr := (p3 (packedCommitM m c s txn).length).2 n hnp.1 hnp.2
    rw [List.take_length] at hfr
    show fileAt (applyAll (packedCommitM m c s txn) fs2) n = _
    rw [fileAt_congr hfr, fileAt_ent (o := some content) (by simpa [ent] using f2n)]
  · show fileAt (applyAll (L1 ++ ([FsOp.rename (lockPath n) n] ++ packedCommitM m c s txn)) s.toFs) packedPath = _
    rw [applyAll_append, applyAll_append]
    show fileAt (applyAll (packedCommitM m c s txn) fs2) packedPath = _
    exact fileAt_ent p3fin

theorem run_shapeB (m : Mode) (c : Cfg) (s : Store) (txn : List Edit) (hchunk : ∀ bs, (c.chunk bs).flatten = bs)
    (n : Name) (x : RefCtx s n) (wl : Bool) :
    let g := s.hasGlobalLockM m txn
    let D := (if (s.looseOf n).isSome then [FsOp.unlink n] else []) ++ (if wl then [FsOp.unlink (lockPath n)] else [])
    let ops := pk0 g ++ (if wl then [FsOp.create (lockPath n)] else []) ++ (packedCommitM m c s txn ++ D)
    AllPrefixes (fun f => PairB m s txn n (fileAt f n) (fileAt f packedPath)) ops s.toFs ∧
      fileAt (applyAll ops s.toFs) n = none ∧
      fileAt (applyAll ops s.toFs) packedPath = newPackedFileM m s txn := by
  intro g D ops
  have hn := x.hn
  have hnp := refName_ne_packed hn
  have hlp := lockPath_ne_packed hn
  have hne : lockPath packedPath ≠ packedPath := by decide
  obtain ⟨h0n, h0p⟩ := init_entries x
  obtain ⟨hpk0, pk0lock, pk0other⟩ := pk0_facts s g x.no_packed_lock
  have hdep : ∀ f g' : Fs, (∀ q ∈ [n, packedPath], f q = g' q) →
      PairB m s txn n (fileAt g' n) (fileAt g' packedPath) →
      PairB m s txn n (fileAt f n) (fileAt f packedPath) := by
    intro f g' hq hA
    rw [fileAt_congr (hq n (by simp)), fileAt_congr (hq packedPath (by simp))]
    exact hA
  have hstart : PairB m s txn n (fileAt s.toFs n) (fileAt s.toFs packedPath) := by
    rw [fileAt_ent h0n, fileAt_ent h0p]; exact .inl ⟨rfl, .inl rfl⟩
  let L1 := pk0 g ++ (if wl then [FsOp.create (lockPath n)] else [])
  have hL1t : ∀ op ∈ L1, ∀ t ∈ op.touches, t = lockPath packedPath ∨ t = lockPath n := by
    intro op ho t ht
    rcases List.mem_append.mp ho with ho | ho
    · exact .inl (hpk0 op ho t ht)
    · split at ho
      · simp at ho; subst ho; right; simpa [FsOp.touches] using ht
      · cases ho
  have hL1full : ∀ q, q ≠ lockPath packedPath → q ≠ lockPath n → applyAll L1 s.toFs q = s.toFs q := by
    intro q h1 h2
    apply applyAll_frame
    intro op ho ht
    rcases hL1t op ho q ht with e' | e'
    · exact h1 e'
    · exact h2 e'
  have p1 : AllPrefixes (fun f => PairB m s txn n (fileAt f n) (fileAt f packedPath)) L1 s.toFs := by
    apply allPrefixes_frame _ [n, packedPath] hdep _ _ _ hstart
    intro op ho q hq ht
    simp at hq
    rcases hL1t op ho q ht with e' | e' <;> rcases hq with rfl | rfl
    · exact hnp.2 e'
    · exact hne e'.symm
    · exact lock_ne_self _ e'.symm
    · exact hlp.1 e'.symm
  let fs1 := applyAll L1 s.toFs
  have f1n : fs1 n = s.toFs n := hL1full n hnp.2 (fun e' => lock_ne_self n e'.symm)
  have f1p : fs1 packedPath = s.toFs packedPath := hL1full packedPath hne.symm (fun e' => hlp.1 e'.symm)
  have f1plock : g = true → fs1 (lockPath packedPath) = some (.file []) := by
    intro hg
    show applyAll L1 s.toFs (lockPath packedPath) = _
    simp only [L1, applyAll_append]
    rw [applyAll_frame _ _, pk0lock hg]
    intro op ho ht
    split at ho
    · simp at ho; subst ho; simp [FsOp.touches] at ht; exact hlp.2 ht.symm
    · cases ho
  obtain ⟨p2, p2fin⟩ := run_packedM_gen m c s txn hchunk fs1 (by rw [f1p, h0p]) f1plock
  let fs2 := applyAll (packedCommitM m c s txn) fs1
  have f2n : fs2 n = s.toFs n := by
    have hfr := (p2 (packedCommitM m c s txn).length).2 n hnp.1 hnp.2
    rw [List.take_length] at hfr
    show applyAll (packedCommitM m c s txn) fs1 n = _
    rw [hfr, f1n]
  have hDt : ∀ op ∈ D, ∀ t ∈ op.touches, t = n ∨ t = lockPath n := by
    intro op ho t ht
    rcases List.mem_append.mp ho with ho | ho
    · split at ho
      · simp at ho; subst ho; left; simpa [FsOp.touches] using ht
      · cases ho
    · split at ho
      · simp at ho; subst ho; right; simpa [FsOp.touches] using ht
      · cases ho
  have hDp : ∀ j, applyAll (D.take j) fs2 packedPath = fs2 packedPath := by
    intro j
    apply applyAll_frame
    intro op ho ht
    rcases hDt op (List.mem_of_mem_take ho) packedPath ht with e' | e'
    · exact hnp.1 e'.symm
    · exact hlp.1 e'.symm
  have hunl : (FsOp.unlink n).apply fs2 n = none := by
    cases hx : fs2 n with
    | none => simp [FsOp.apply, hx]
    | some y =>
      cases y with
      | file c' => simp [FsOp.apply, hx]
      | dir => rw [f2n] at hx; exact absurd hx x.notdir
  have tailframe : ∀ (l : List FsOp) (f : Fs), (∀ op ∈ l, op = FsOp.unlink (lockPath n)) → applyAll l f n = f n := by
    intro l f hl
    apply applyAll_frame
    intro op ho ht
    rw [hl op ho] at ht
    simp [FsOp.touches] at ht; exact lock_ne_self n ht.symm
  have hDn : ∀ j, fileAt (applyAll (D.take j) fs2) n = fileAt s.toFs n ∨ fileAt (applyAll (D.take j) fs2) n = none := by
    intro j
    by_cases hl : (s.looseOf n).isSome = true
    · have hD : D = FsOp.unlink n :: (if wl then [FsOp.unlink (lockPath n)] else []) := by simp [D, hl]
      cases j with
      | zero => left; simp [fileAt_congr f2n]
      | succ j =>
        right
        rw [hD, List.take_succ_cons, applyAll_cons]
        have := tailframe (List.take j (if wl then [FsOp.unlink (lockPath n)] else [])) ((FsOp.unlink n).apply fs2)
          (by intro op ho; have := List.mem_of_mem_take ho; split at this <;> simp at this; exact this)
        simp [fileAt, this, hunl]
    · left
      have hD : D = (if wl then [FsOp.unlink (lockPath n)] else []) := by simp [D, hl]
      have := tailframe (D.take j) fs2
        (by intro op ho; have := List.mem_of_mem_take ho; rw [hD] at this; split at this <;> simp at this; exact this)
      rw [fileAt_congr this, fileAt_congr f2n]
  have hDfinal : fileAt (applyAll D fs2) n = none := by
    by_cases hl : (s.looseOf n).isSome = true
    · have hD : D = FsOp.unlink n :: (if wl then [FsOp.unlink (lockPath n)] else []) := by simp [D, hl]
      rw [hD, applyAll_cons]
      have := tailframe (if wl then [FsOp.unlink (lockPath n)] else []) ((FsOp.unlink n).apply fs2)
        (by intro op ho; split at ho <;> simp at ho; exact ho)
      simp [fileAt, this, hunl]
    · have hnone : s.looseOf n = none := by simpa using hl
      have := hDn D.length
      rw [List.take_length] at this
      rcases this with h1 | h1
      · rw [h1, fileAt_ent h0n, hnone]; rfl
      · exact h1
  refine ⟨?_, ?_, ?_⟩
  · apply allPrefixes_append p1
    apply allPrefixes_append
    · intro j
      obtain ⟨hp, hfr⟩ := p2 j
      show PairB m s txn n (fileAt (applyAll ((packedCommitM m c s txn).take j) fs1) n)
        (fileAt (applyAll ((packedCommitM m c s txn).take j) fs1) packedPath)
      have hnn : applyAll ((packedCommitM m c s txn).take j) fs1 n = fs1 n := hfr n hnp.1 hnp.2
      rw [fileAt_congr hnn, fileAt_congr f1n, fileAt_ent h0n]
      rcases hp with hp | hp
      · rw [fileAt_congr hp, fileAt_congr f1p, fileAt_ent h0p]; exact .inl ⟨rfl, .inl rfl⟩
      · rw [fileAt_ent hp]; exact .inl ⟨rfl, .inr rfl⟩
    · intro j
      show PairB m s txn n (fileAt (applyAll (D.take j) fs2) n) (fileAt (applyAll (D.take j) fs2) packedPath)
      rw [fileAt_congr (hDp j), fileAt_ent p2fin]
      rcases hDn j with h1 | h1
      · rw [h1, fileAt_ent h0n]; exact .inl ⟨rfl, .inr rfl⟩
      · rw [h1]; exact .inr ⟨rfl, rfl⟩
  · show fileAt (applyAll (L1 ++ (packedCommitM m c s txn ++ D)) s.toFs) n = _
    rw [applyAll_append, applyAll_append]
    exact hDfinal
  · show fileAt (applyAll (L1 ++ (packedCommitM m c s txn ++ D)) s.toFs) packedPath = _
    rw [applyAll_append, applyAll_append]
    have := hDp D.length
    rw [List.take_length] at this
    show fileAt (applyAll D fs2) packedPath = _
    rw [fileAt_congr this]
    exact fileAt_ent p2fin

end GixModel.C20
