import GixModel.Lemmas.C43Ident
/-
C43 — helper lemmas, part 3: on content without collapsible `$Id: …$` (everything the to-git
direction stores) git's in-memory `ident_to_worktree` is `ident::apply` with one more byte — the
space before the closing dollar.
-/
set_option linter.unusedSimpArgs false
namespace GixModel.C43
open GixModel GixModel.C43Scan
open GixModel.Spec.C43 (identToWorktreeLoop gitIdTail countIdentLoop countIdent countIdentInner)

theorem startsWith_IdDollar_of {s1 : Bytes} (h : startsWith [73, 100, 36] s1 = true) :
    s1 = [73, 100] ++ 36 :: s1.drop 3 ∧ startsWith [73, 100, 58] s1 = false ∧ startsWith [73, 100] s1 = true ∧
      3 ≤ s1.length := by
  have hsl := startsWith_length h
  simp only [List.length_cons, List.length_nil] at hsl
  have hs1 : s1 = [73, 100] ++ 36 :: s1.drop 3 := by
    have := (List.take_append_drop 3 s1).symm
    simp only [startsWith, beq_iff_eq, List.length_cons, List.length_nil] at h
    rw [h] at this
    simpa using this
  refine ⟨hs1, ?_, ?_, by omega⟩
  · rw [hs1]; simp [startsWith]
  · rw [hs1]; simp [startsWith]

/-- after a `$Id$` in content without collapsible ids, the rest has none either -/
theorem FR_after_dollar (pre s1 : Bytes) (hpre : ∀ x ∈ pre, isDollar x = false)
    (hfr : FR (pre ++ 36 :: s1) = none) (hsd : startsWith [73, 100, 36] s1 = true) : FR (s1.drop 3) = none := by
  obtain ⟨hs1, hnc, _, _⟩ := startsWith_IdDollar_of hsd
  rw [FR_step pre s1 hpre] at hfr
  simp only [hnc, Bool.false_eq_true, if_false] at hfr
  have hfrs1 : FR s1 = none := by
    cases hh : FR s1 with
    | none => rfl
    | some v => simp [hh] at hfr
  rw [hs1, FR_step [73, 100] (s1.drop 3) (by intro b hb; simp at hb; rcases hb with rfl | rfl <;> rfl)] at hfrs1
  by_cases hc : startsWith [73, 100, 58] (s1.drop 3) = true
  · simp only [hc, if_true] at hfrs1
    have hrest : s1.drop 3 = [73, 100, 58] ++ (s1.drop 3).drop 3 := by
      have := (List.take_append_drop 3 (s1.drop 3)).symm
      simp only [startsWith, beq_iff_eq, List.length_cons, List.length_nil] at hc
      rw [hc] at this
      exact this
    cases hb2 : breakAt isDollarOrLf ((s1.drop 3).drop 3) with
    | none =>
      have hnd := noDollar_of_noDollarOrLf (breakAt_none hb2)
      apply FR_noDollar
      rw [hrest]
      intro b hbm
      rcases List.mem_append.mp hbm with h1 | h1
      · simp at h1; rcases h1 with rfl | rfl | rfl <;> rfl
      · exact hnd b h1
    | some r2 =>
      obtain ⟨mid, hit2, post⟩ := r2
      obtain ⟨hdrop, hhit2, hmid⟩ := breakAt_some hb2
      simp only [hb2] at hfrs1
      by_cases h10 : hit2 = 10
      · subst h10
        simp only [beq_self_eq_true, if_true] at hfrs1
        have hpost : FR post = none := by
          cases hh : FR post with
          | none => rfl
          | some v => simp [hh] at hfrs1
        have : s1.drop 3 = ([73, 100, 58] ++ mid ++ [10]) ++ post := by
          rw [hrest, hdrop]; simp
        rw [this, FR_prefix _ _ (by
          intro b hbm
          simp only [List.mem_append, List.mem_cons, List.mem_singleton] at hbm
          rcases hbm with (h1 | h1) | h1
          · rcases h1 with rfl | rfl | rfl | h1 <;> first | rfl | simp at h1
          · exact noDollar_of_noDollarOrLf hmid b h1
          · rcases h1 with rfl | h1 <;> first | rfl | simp at h1), hpost]
        rfl
      · have : (hit2 == 10) = false := by simpa using h10
        simp [this] at hfrs1
  · simp only [hc, Bool.false_eq_true, if_false] at hfrs1
    cases hh : FR (s1.drop 3) with
    | none => rfl
    | some v => simp [hh] at hfrs1



theorem startsWith_Id_of_IdDollar {cp : Bytes} (h : startsWith [73, 100, 36] cp = true) :
    startsWith [73, 100] cp = true := (startsWith_IdDollar_of h).2.2.1

theorem worktreeLoop_eq (hex : Bytes) : ∀ (n : Nat) (src buf : Bytes) (fuel : Nat), src.length ≤ n → src.length < fuel →
    FR src = none →
    identToWorktreeLoop hex gitIdTail fuel src buf = buf ++ expandAll (hex ++ [32]) src := by
  intro n
  induction n with
  | zero =>
    intro src buf fuel h hf _
    have : src = [] := List.eq_nil_of_length_eq_zero (by omega)
    subst this
    cases fuel with
    | zero => omega
    | succ fuel => simp [identToWorktreeLoop, breakAt, expandAll, expand]
  | succ n ih =>
    intro src buf fuel h hf hfr
    cases fuel with
    | zero => omega
    | succ fuel =>
      unfold identToWorktreeLoop
      rw [isDollar_eq]
      cases hb : breakAt isDollar src with
      | none =>
        simp only
        rw [expandAll_noDollar _ src (breakAt_none hb)]
      | some r =>
        obtain ⟨pre, hit, s1⟩ := r
        obtain ⟨hsrc, hhit, hpre⟩ := breakAt_some hb
        have h36 : hit = 36 := by simpa [isDollar] using hhit
        subst h36
        have hl := breakAt_length hb
        simp only
        rw [hsrc] at hfr
        have hfrstep := hfr
        rw [FR_step pre s1 hpre] at hfrstep
        rw [hsrc, expandAll_step _ pre s1 hpre]
        by_cases hid : (s1.length < 3 || !startsWith [73, 100] s1) = true
        · -- not `Id…`
          simp only [hid, if_true]
          have hnd : startsWith [73, 100, 36] s1 = false := by
            cases hh : startsWith [73, 100, 36] s1 with
            | false => rfl
            | true =>
              have := startsWith_IdDollar_of hh
              simp only [Bool.or_eq_true, decide_eq_true_eq, Bool.not_eq_true'] at hid
              rcases hid with h1 | h1
              · omega
              · rw [this.2.2.1] at h1; simp at h1
          have hnc : startsWith [73, 100, 58] s1 = false := by
            cases hh : startsWith [73, 100, 58] s1 with
            | false => rfl
            | true =>
              have h2 := startsWith_Id_of_IdColon hh
              have h3 := startsWith_length hh
              simp only [List.length_cons, List.length_nil] at h3
              simp only [Bool.or_eq_true, decide_eq_true_eq, Bool.not_eq_true'] at hid
              rcases hid with h1 | h1
              · omega
              · rw [h2] at h1; simp at h1
          simp only [hnc, Bool.false_eq_true, if_false] at hfrstep
          have hfrs1 : FR s1 = none := by
            cases hh : FR s1 with
            | none => rfl
            | some v => simp [hh] at hfrstep
          simp only [hnd, Bool.false_eq_true, if_false]
          rw [ih s1 _ fuel (by omega) (by omega) hfrs1]
          simp
        · simp only [hid, Bool.false_eq_true, if_false]
          simp only [Bool.or_eq_true, decide_eq_true_eq, Bool.not_eq_true', not_or, Nat.not_lt,
            Bool.not_eq_false] at hid
          obtain ⟨hlen3, hId⟩ := hid
          -- s1 = I d c2 :: rest
          match s1, hlen3, hId, hl, hfrstep, hfr with
          | a :: b :: c2 :: rest, _, hId, hl, hfrstep, hfr =>
            simp only [startsWith_cons, Bool.and_eq_true, beq_iff_eq] at hId
            obtain ⟨rfl, rfl, _⟩ := hId
            simp only [List.drop_succ_cons, List.drop_zero, List.headD_cons]
            by_cases hc36 : c2 = 36
            · subst hc36
              have hsd : startsWith [73, 100, 36] (73 :: 100 :: 36 :: rest) = true := by simp [startsWith]
              have hfrrest := FR_after_dollar pre _ hpre hfr hsd
              simp only [List.drop_succ_cons, List.drop_zero] at hfrrest
              simp only [beq_self_eq_true, if_true, hsd, List.drop_succ_cons, List.drop_zero]
              rw [ih rest _ fuel (by simp at hl; omega) (by simp at hl; omega) hfrrest]
              simp [expandedId, gitIdTail]
            · have hne36 : (c2 == 36) = false := by simpa using hc36
              have hsd : startsWith [73, 100, 36] (73 :: 100 :: c2 :: rest) = false := by simp [startsWith, hc36]
              simp only [hne36, Bool.false_eq_true, if_false, hsd]
              by_cases hc58 : c2 = 58
              · subst hc58
                have hsc : startsWith [73, 100, 58] (73 :: 100 :: 58 :: rest) = true := by simp [startsWith]
                simp only [hsc, if_true, List.drop_succ_cons, List.drop_zero] at hfrstep
                simp only [beq_self_eq_true, if_true]
                cases hb2 : breakAt isDollarOrLf rest with
                | none =>
                  have hnd := noDollar_of_noDollarOrLf (breakAt_none hb2)
                  rw [breakAt_none_of _ hnd]
                  simp only
                  have hs1nd : ∀ x ∈ (73 :: 100 :: 58 :: rest : Bytes), isDollar x = false := by
                    intro x hx
                    simp only [List.mem_cons] at hx
                    rcases hx with rfl | rfl | rfl | hx
                    · rfl
                    · rfl
                    · rfl
                    · exact hnd x hx
                  rw [expandAll_noDollar _ _ hs1nd]
                  simp
                | some r2 =>
                  obtain ⟨mid, hit2, post⟩ := r2
                  obtain ⟨hrest, hhit2, hmid⟩ := breakAt_some hb2
                  have hl2 := breakAt_length hb2
                  simp only [hb2] at hfrstep
                  by_cases h10 : hit2 = 10
                  · subst h10
                    simp only [beq_self_eq_true, if_true] at hfrstep
                    have hpost : FR post = none := by
                      cases hh : FR post with
                      | none => rfl
                      | some v => simp [hh] at hfrstep
                    have hpfx : ∀ b ∈ ([73, 100, 58] ++ mid ++ [10] : Bytes), isDollar b = false := by
                      intro b hbm
                      simp only [List.mem_append, List.mem_cons, List.mem_singleton] at hbm
                      rcases hbm with (h1 | h1) | h1
                      · rcases h1 with rfl | rfl | rfl | h1 <;> first | rfl | simp at h1
                      · exact noDollar_of_noDollarOrLf hmid b h1
                      · rcases h1 with rfl | h1 <;> first | rfl | simp at h1
                    have hs1e : (73 :: 100 :: 58 :: rest : Bytes) = ([73, 100, 58] ++ mid ++ [10]) ++ post := by
                      rw [hrest]; simp
                    have hfrs1 : FR (73 :: 100 :: 58 :: rest) = none := by
                      rw [hs1e, FR_prefix _ _ hpfx, hpost]; rfl
                    cases hb3 : breakAt isDollar post with
                    | none =>
                      have hnd : ∀ x ∈ rest, isDollar x = false := by
                        rw [hrest]
                        intro x hx
                        rcases List.mem_append.mp hx with h1 | h1
                        · exact noDollar_of_noDollarOrLf hmid x h1
                        · simp only [List.mem_cons] at h1
                          rcases h1 with rfl | h1
                          · rfl
                          · exact breakAt_none hb3 x h1
                      rw [breakAt_none_of _ hnd]
                      simp only
                      have hs1nd : ∀ x ∈ (73 :: 100 :: 58 :: rest : Bytes), isDollar x = false := by
                        intro x hx
                        simp only [List.mem_cons] at hx
                        rcases hx with rfl | rfl | rfl | hx
                        · rfl
                        · rfl
                        · rfl
                        · exact hnd x hx
                      rw [expandAll_noDollar _ _ hs1nd]
                      simp
                    | some r3 =>
                      obtain ⟨p1, hit3, src2⟩ := r3
                      obtain ⟨hpost3, hhit3, hp1⟩ := breakAt_some hb3
                      have h336 : hit3 = 36 := by simpa [isDollar] using hhit3
                      subst h336
                      have : breakAt isDollar rest = some (mid ++ 10 :: p1, 36, src2) := by
                        rw [hrest, hpost3]
                        have : mid ++ 10 :: (p1 ++ 36 :: src2) = (mid ++ 10 :: p1) ++ 36 :: src2 := by simp
                        rw [this, breakAt_append (mid ++ 10 :: p1)]
                        · simp [breakAt, isDollar]
                        · intro x hx
                          rcases List.mem_append.mp hx with h1 | h1
                          · exact noDollar_of_noDollarOrLf hmid x h1
                          · simp only [List.mem_cons] at h1
                            rcases h1 with rfl | h1
                            · rfl
                            · exact hp1 x h1
                      rw [this]
                      have hc : (mid ++ 10 :: p1).contains 10 = true := by simp
                      simp only [hc, if_true]
                      rw [ih _ _ fuel (by simp at hl ⊢; omega) (by simp at hl ⊢; omega) hfrs1]
                      simp
                  · have : (hit2 == 10) = false := by simpa using h10
                    simp [this] at hfrstep
              · have hne58 : (c2 == 58) = false := by simpa using hc58
                have hsc : startsWith [73, 100, 58] (73 :: 100 :: c2 :: rest) = false := by simp [startsWith, hc58]
                simp only [hsc, Bool.false_eq_true, if_false] at hfrstep
                have hfrs1 : FR (73 :: 100 :: c2 :: rest) = none := by
                  cases hh : FR (73 :: 100 :: c2 :: rest) with
                  | none => rfl
                  | some v => simp [hh] at hfrstep
                simp only [hne58, Bool.false_eq_true, if_false]
                rw [ih _ _ fuel (by simp at hl ⊢; omega) (by simp at hl ⊢; omega) hfrs1]
                simp
          | [], hlen3, _, _, _, _ => simp at hlen3
          | [_], hlen3, _, _, _, _ => simp at hlen3
          | [_, _], hlen3, _, _, _, _ => simp at hlen3



theorem expandAll_short (hex : Bytes) : ∀ (n : Nat) (src : Bytes), src.length ≤ n → src.length < 4 →
    expandAll hex src = src := by
  intro n
  induction n with
  | zero =>
    intro src h _
    have : src = [] := List.eq_nil_of_length_eq_zero (by omega)
    subst this; rfl
  | succ n ih =>
    intro src h h4
    cases hb : breakAt isDollar src with
    | none => exact expandAll_noDollar hex src (breakAt_none hb)
    | some r =>
      obtain ⟨pre, hit, s1⟩ := r
      obtain ⟨hsrc, hhit, hpre⟩ := breakAt_some hb
      have h36 : hit = 36 := by simpa [isDollar] using hhit
      subst h36
      have hl := breakAt_length hb
      rw [hsrc, expandAll_step hex pre s1 hpre]
      split
      · rename_i hs
        have hsl := startsWith_length hs
        simp only [List.length_cons, List.length_nil] at hsl
        omega
      · rw [ih s1 (by omega) (by omega)]; simp

theorem count_zero_expand (hex : Bytes) : ∀ (n : Nat) (src : Bytes) (fuel cnt : Nat), src.length ≤ n → src.length < fuel →
    countIdentLoop fuel src cnt = cnt → expandAll hex src = src := by
  intro n
  induction n with
  | zero =>
    intro src fuel cnt h hf _
    have : src = [] := List.eq_nil_of_length_eq_zero (by omega)
    subst this; rfl
  | succ n ih =>
    intro src fuel cnt h hf he
    cases fuel with
    | zero => omega
    | succ fuel =>
      cases src with
      | nil => rfl
      | cons ch cp =>
        have hcp : cp.length ≤ n := by simp at h; omega
        have hcpf : cp.length < fuel := by simp at hf; omega
        unfold countIdentLoop at he
        by_cases h36 : ch = 36
        · subst h36
          simp only [bne_self_eq_false, Bool.false_eq_true, if_false] at he
          have hstep := expandAll_step hex [] cp (by intro x hx; simp at hx)
          simp only [List.nil_append] at hstep
          by_cases hlen : cp.length < 3
          · exact expandAll_short hex _ _ (Nat.le_refl _) (by simp; omega)
          · simp only [hlen, decide_false, Bool.false_eq_true, if_false] at he
            by_cases hid : startsWith [73, 100] cp = true
            · simp only [hid, Bool.not_true, Bool.false_eq_true, if_false] at he
              match cp, hlen, hid, hcp, hcpf, hstep, he with
              | a :: b :: ch2 :: cp3, _, hid, hcp, hcpf, hstep, he =>
                simp only [startsWith_cons, Bool.and_eq_true, beq_iff_eq] at hid
                obtain ⟨rfl, rfl, _⟩ := hid
                simp only [List.drop_succ_cons, List.drop_zero, List.headD_cons] at he
                have hcp3 : cp3.length ≤ n := by simp at hcp; omega
                have hcp3f : cp3.length < fuel := by simp at hcpf; omega
                by_cases hd : ch2 = 36
                · subst hd
                  simp only [beq_self_eq_true, if_true, show ((36 : UInt8) != 58) = true by decide] at he
                  have := (countIdentLoop_spec cp3.length cp3 fuel (cnt + 1) (Nat.le_refl _) hcp3f).1
                  omega
                · have hsd : startsWith [73, 100, 36] (73 :: 100 :: ch2 :: cp3) = false := by simp [startsWith, hd]
                  simp only [hsd, Bool.false_eq_true, if_false] at hstep
                  rw [hstep]
                  have hpfx : ∀ x ∈ ([73, 100, ch2] : Bytes), isDollar x = false := by
                    intro x hx
                    simp at hx
                    rcases hx with rfl | rfl | rfl
                    · rfl
                    · rfl
                    · simpa [isDollar] using hd
                  have hpre3 := expandAll_prefix hex [73, 100, ch2] cp3 hpfx
                  simp only [List.cons_append, List.nil_append] at hpre3
                  rw [hpre3]
                  have hne2 : (ch2 == 36) = false := by simpa using hd
                  simp only [hne2, Bool.false_eq_true, if_false] at he
                  by_cases hc : ch2 = 58
                  · subst hc
                    simp only [bne_self_eq_false, Bool.false_eq_true, if_false] at he
                    rw [countIdentInner_eq] at he
                    cases hb2 : breakAt isDollarOrLf cp3 with
                    | none =>
                      have hnd := noDollar_of_noDollarOrLf (breakAt_none hb2)
                      rw [expandAll_noDollar hex cp3 hnd]; rfl
                    | some r2 =>
                      obtain ⟨mid, hit2, post⟩ := r2
                      obtain ⟨hcp3e, hhit2, hmid⟩ := breakAt_some hb2
                      have hl2 := breakAt_length hb2
                      simp only [hb2] at he
                      by_cases h2 : hit2 = 36
                      · subst h2
                        simp only [beq_self_eq_true, if_true] at he
                        have := (countIdentLoop_spec post.length post fuel (cnt + 1) (Nat.le_refl _) (by omega)).1
                        omega
                      · have hne3 : (hit2 == 36) = false := by simpa using h2
                        simp only [hne3, Bool.false_eq_true, if_false] at he
                        have hpost := ih post fuel cnt (by omega) (by omega) he
                        have hmidnd : ∀ b ∈ mid ++ [hit2], isDollar b = false := by
                          intro b hb
                          rcases List.mem_append.mp hb with h1 | h1
                          · exact noDollar_of_noDollarOrLf hmid b h1
                          · simp at h1; subst h1; simpa [isDollar] using h2
                        have : cp3 = (mid ++ [hit2]) ++ post := by rw [hcp3e]; simp
                        rw [this, expandAll_prefix hex _ _ hmidnd, hpost]; rfl
                  · have hne : (ch2 != 58) = true := by simpa using hc
                    simp only [hne, if_true] at he
                    rw [ih cp3 fuel cnt hcp3 hcp3f he]; rfl
              | [], hlen, _, _, _, _, _ => simp at hlen
              | [_], hlen, _, _, _, _, _ => simp at hlen
              | [_, _], hlen, _, _, _, _, _ => simp at hlen
            · simp only [hid, Bool.not_false, if_true] at he
              have hsd : startsWith [73, 100, 36] cp = false := by
                cases hh : startsWith [73, 100, 36] cp with
                | false => rfl
                | true => exact absurd (startsWith_Id_of_IdDollar hh) hid
              simp only [hsd, Bool.false_eq_true, if_false] at hstep
              rw [hstep, ih cp fuel cnt hcp hcpf he]; rfl
        · have hne : (ch != 36) = true := by simpa using h36
          simp only [hne, if_true] at he
          have := expandAll_prefix hex [ch] cp (by intro x hx; simp at hx; subst hx; simpa [isDollar] using h36)
          simp only [List.cons_append, List.nil_append] at this
          rw [this, ih cp fuel cnt hcp hcpf he]

/-- git's in-memory `ident_to_worktree` on content without collapsible ids is `expand` with the
blob id followed by a space -/
theorem identToWorktree_eq_expand (hash : Bytes → Bytes) (x : Bytes) (hfr : FR x = none) :
    Spec.C43.identToWorktree hash x true = expandAll (hash x ++ [32]) x := by
  unfold Spec.C43.identToWorktree
  simp only [Bool.not_true, Bool.false_eq_true, if_false]
  split
  · rename_i hc
    simp only [countIdent, beq_iff_eq] at hc
    exact (count_zero_expand _ x.length x _ 0 (Nat.le_refl _) (Nat.lt_succ_self _) hc).symm
  · rw [worktreeLoop_eq (hash x) x.length x [] _ (Nat.le_refl _) (Nat.lt_succ_self _) hfr]
    simp

/-- the exact relation behind known finding 1: on everything the to-git direction stores,
`ident::apply` differs from git's `ident_to_worktree` by the space before the closing `$` only —
it IS git's function for a blob-id rendering that ends in a space -/
theorem identApply_eq_git_with_space (hash : Bytes → Bytes) (x : Bytes) (hx : identUndo x = none) :
    (identApply (fun y => hash y ++ [32]) x).getD x = Spec.C43.identToWorktree hash x true := by
  rw [identApply_eq_expand, identToWorktree_eq_expand hash x ((identUndo_none_iff x).mp hx)]


end GixModel.C43
