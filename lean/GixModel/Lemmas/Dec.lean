import GixModel.Basic.Dec
/-
Facts about decimal / octal rendering: the number of digits written.
-/
namespace GixModel

/-- `w` is the number of base-`b` digits of `a` (no leading zeros, `0` has one digit). -/
def NatWidth (b a w : Nat) : Prop := 1 ≤ w ∧ a < b ^ w ∧ (w = 1 ∨ b ^ (w - 1) ≤ a)

instance (b a w : Nat) : Decidable (NatWidth b a w) := by unfold NatWidth; infer_instance

theorem NatWidth.mono {b a c d w : Nat} (ha : NatWidth b a w) (hd : NatWidth b d w)
    (h1 : a ≤ c) (h2 : c ≤ d) : NatWidth b c w := by
  obtain ⟨w1, _, a3⟩ := ha
  obtain ⟨_, d2, _⟩ := hd
  refine ⟨w1, by omega, ?_⟩
  cases a3 with
  | inl h => exact Or.inl h
  | inr h => exact Or.inr (by omega)

theorem digitsFuel_length (b : Nat) (hb : 2 ≤ b) :
    ∀ (f n k : Nat), NatWidth b n k → k ≤ f → (digitsFuel b f n).length = k := by
  intro f
  induction f with
  | zero => intro n k ⟨h1, _, _⟩ hk; omega
  | succ f ih =>
    intro n k ⟨h1, h2, h3⟩ hk
    unfold digitsFuel
    by_cases hn : n < b
    · simp only [hn, if_true, List.length_singleton]
      cases h3 with
      | inl h => exact h.symm
      | inr h =>
        -- b ≤ b^(k-1) ≤ n < b unless k = 1
        by_cases hk1 : k = 1
        · exact hk1.symm
        · have : b ^ 1 ≤ b ^ (k - 1) := Nat.pow_le_pow_right (by omega) (by omega)
          simp at this; omega
    · simp only [hn, if_false, List.length_append, List.length_singleton]
      have hk2 : 2 ≤ k := by
        by_cases hk1 : k = 1
        · subst hk1; simp at h2; omega
        · omega
      have hpow : b ^ k = b * b ^ (k - 1) := by
        have : k = (k - 1) + 1 := by omega
        rw [this, Nat.pow_succ, Nat.mul_comm]; simp
      have hlt : n / b < b ^ (k - 1) := by
        rw [Nat.div_lt_iff_lt_mul (by omega)]
        rw [hpow] at h2; rw [Nat.mul_comm]; exact h2
      have hw : NatWidth b (n / b) (k - 1) := by
        refine ⟨by omega, hlt, ?_⟩
        by_cases hk3 : k - 1 = 1
        · exact Or.inl hk3
        · right
          have h3' : b ^ (k - 1) ≤ n := by
            cases h3 with
            | inl h => omega
            | inr h => exact h
          have hp : b ^ (k - 1) = b ^ (k - 1 - 1) * b := by
            have : k - 1 = (k - 1 - 1) + 1 := by omega
            rw [this, Nat.pow_succ]; simp
          rw [Nat.le_div_iff_mul_le (by omega)]
          rw [← hp]; exact h3'
      rw [ih (n / b) (k - 1) hw (by omega)]
      omega

theorem NatWidth.le_log2 {b n k : Nat} (hb : 2 ≤ b) (h : NatWidth b n k) : k ≤ n.log2 + 1 := by
  obtain ⟨h1, _, h3⟩ := h
  cases h3 with
  | inl h => omega
  | inr h =>
    -- 2^(k-1) ≤ b^(k-1) ≤ n < 2^(log2 n + 1)
    have h2 : 2 ^ (k - 1) ≤ b ^ (k - 1) := Nat.pow_le_pow_left hb _
    have h4 : n < 2 ^ (n.log2 + 1) := Nat.lt_log2_self
    have h5 : 2 ^ (k - 1) < 2 ^ (n.log2 + 1) := by omega
    have := (Nat.pow_lt_pow_iff_right (a := 2) (by omega)).1 h5
    omega

theorem natDec_length {n k : Nat} (h : NatWidth 10 n k) : (natDec n).length = k :=
  digitsFuel_length 10 (by omega) _ n k h (by have := h.le_log2 (by omega); omega)

theorem natOct_length {n k : Nat} (h : NatWidth 8 n k) : (natOct n).length = k :=
  digitsFuel_length 8 (by omega) _ n k h (by have := h.le_log2 (by omega); omega)

/-- `w` is the length of the decimal rendering of the integer `s` (with `-` for negatives). -/
def IntWidth (s : Int) (w : Nat) : Prop :=
  if 0 ≤ s then NatWidth 10 s.natAbs w else 2 ≤ w ∧ NatWidth 10 s.natAbs (w - 1)

instance (s : Int) (w : Nat) : Decidable (IntWidth s w) := by unfold IntWidth; infer_instance

theorem intDec_length {s : Int} {w : Nat} (h : IntWidth s w) : (intDec s).length = w := by
  unfold IntWidth at h
  unfold intDec
  by_cases hs : 0 ≤ s
  · simp only [hs, if_true] at h
    have : ¬ s < 0 := by omega
    simp only [this, if_false]
    exact natDec_length h
  · simp only [hs, if_false] at h
    have : s < 0 := by omega
    simp only [this, if_true, List.length_cons]
    rw [natDec_length h.2]; omega

/-- Between two integers of the same sign and the same width every integer has that width. -/
theorem IntWidth.between {a c d : Int} {w : Nat} (ha : IntWidth a w) (hd : IntWidth d w)
    (h1 : a ≤ c) (h2 : c ≤ d) (hsign : 0 ≤ a ∨ d < 0) : IntWidth c w := by
  unfold IntWidth at *
  cases hsign with
  | inl h0 =>
    have hc : 0 ≤ c := by omega
    have hd0 : 0 ≤ d := by omega
    rw [if_pos h0] at ha
    rw [if_pos hd0] at hd
    rw [if_pos hc]
    exact NatWidth.mono ha hd (by omega) (by omega)
  | inr hneg =>
    have hc : ¬ 0 ≤ c := by omega
    have ha0 : ¬ 0 ≤ a := by omega
    have hd0 : ¬ 0 ≤ d := by omega
    rw [if_neg ha0] at ha
    rw [if_neg hd0] at hd
    rw [if_neg hc]
    exact ⟨ha.1, NatWidth.mono hd.2 ha.2 (by omega) (by omega)⟩

end GixModel
