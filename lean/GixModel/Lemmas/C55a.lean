import GixModel.Model.C55
/-
C55 — the pipe protocol: little-endian fields, `read_exact`, header parsing.
-/
namespace GixModel.C55
open GixModel

theorem le_length (k n : Nat) : (le k n).length = k := by
  induction k generalizing n with
  | zero => rfl
  | succ k ih => simp [le, ih]

theorem ofLe_le (k n : Nat) (h : n < 256 ^ k) : ofLe (le k n) = n := by
  induction k generalizing n with
  | zero => simp at h; subst h; rfl
  | succ k ih =>
    simp only [le, ofLe]
    have h1 : n / 256 < 256 ^ k := by
      rw [Nat.pow_succ] at h
      exact Nat.div_lt_of_lt_mul (by rw [Nat.mul_comm]; exact h)
    rw [ih _ h1]
    have : (UInt8.ofNat (n % 256)).toNat = n % 256 := by
      simp [UInt8.toNat_ofNat']
    rw [this]
    omega

theorem readExact_append (a b : Bytes) : readExact a.length (a ++ b) = some (a, b) := by
  unfold readExact
  simp

theorem readExact_append' {k : Nat} (a b : Bytes) (h : a.length = k) : readExact k (a ++ b) = some (a, b) := by
  subst h; exact readExact_append a b

theorem readExact_short {k : Nat} {inp : Bytes} (h : inp.length < k) : readExact k inp = none := by
  unfold readExact
  have : (inp.take k).length ≠ k := by
    rw [List.length_take]; omega
  rw [if_neg this]

theorem pow256_8 : (256 : Nat) ^ 8 = 18446744073709551616 := by decide
theorem pow256_2 : (256 : Nat) ^ 2 = 65536 := by decide

theorem ofLe_le8 (n : Nat) (h : n < 18446744073709551616) : ofLe (le 8 n) = n :=
  ofLe_le 8 n (by rw [pow256_8]; exact h)

theorem ofLe_le2 (n : Nat) (h : n < 65536) : ofLe (le 2 n) = n :=
  ofLe_le 2 n (by rw [pow256_2]; exact h)

def Body.Valid : Body → Prop
  | .known c => c.length < usizeMax
  | .chunks rs => ∀ c ∈ rs, 0 < c.length ∧ c.length ≤ bufLen

/-- what the Rust types guarantee of an entry handed to the protocol (`usize` lengths, one of the
five entry kinds, a SHA-1 id) -/
def Entry.Valid (e : Entry) : Prop :=
  e.path.length < 18446744073709551616 ∧ e.kind ≤ 4 ∧ e.id.length = 20 ∧ e.body.Valid

def bodyBytes : Body → Bytes
  | .known c => c
  | .chunks rs => writeStream rs

def declaredField (b : Body) : Nat := match b.declared with | some n => n | none => usizeMax

theorem encodeEntry_eq (e : Entry) :
    encodeEntry e =
      (le 8 e.path.length ++ le 8 (declaredField e.body) ++ [UInt8.ofNat e.kind, 0]) ++
        (e.id ++ (e.path ++ bodyBytes e.body)) := by
  unfold encodeEntry declaredField bodyBytes
  cases e.body <;> simp [Body.declared, List.append_assoc]

/-- the fixed part of the header, taken apart again -/
theorem hdr_fields (a b : Bytes) (k : UInt8) (ha : a.length = 8) (hb : b.length = 8) :
    (a ++ b ++ [k, 0]).length = 18 ∧ (a ++ b ++ [k, 0]).take 8 = a ∧
    ((a ++ b ++ [k, 0]).drop 8).take 8 = b ∧ ((a ++ b ++ [k, 0]).drop 16).headD 0 = k ∧
    ((a ++ b ++ [k, 0]).drop 17).headD 0 = 0 := by
  refine ⟨by simp [ha, hb], ?_, ?_, ?_, ?_⟩
  · rw [List.append_assoc, List.take_append_of_le_length (by omega), List.take_of_length_le (by omega)]
  · rw [List.append_assoc, List.drop_append_of_le_length (by omega), List.drop_of_length_le (by omega)]
    simp only [List.nil_append]
    rw [List.take_append_of_le_length (by omega), List.take_of_length_le (by omega)]
  · have : (a ++ b).length = 16 := by simp [ha, hb]
    rw [List.drop_append_of_le_length (by omega), List.drop_of_length_le (by omega)]
    rfl
  · have : (a ++ b).length = 16 := by simp [ha, hb]
    have h17 : (17 : Nat) = 16 + 1 := rfl
    have h16 : (a ++ b ++ [k, 0]).drop 16 = [k, 0] := by
      rw [List.drop_append_of_le_length (by omega), List.drop_of_length_le (by omega)]
      rfl
    rw [h17, ← List.drop_drop, h16]
    rfl

theorem declared_decode (b : Body) (hb : b.Valid) :
    (if ofLe (le 8 (declaredField b)) = usizeMax then none else some (ofLe (le 8 (declaredField b)))) = b.declared := by
  unfold declaredField Body.declared
  cases b with
  | known c =>
    simp only [Body.Valid] at hb
    unfold usizeMax at hb
    have h1 : c.length < 18446744073709551616 := by omega
    simp only
    rw [ofLe_le8 _ h1]
    have : c.length ≠ usizeMax := by unfold usizeMax; omega
    rw [if_neg this]
  | chunks rs =>
    simp only
    have : ofLe (le 8 usizeMax) = usizeMax := ofLe_le8 _ (by unfold usizeMax; omega)
    rw [this, if_pos rfl]

theorem readEntryInfo_encode (e : Entry) (hv : e.Valid) (tail : Bytes) :
    readEntryInfo (encodeEntry e ++ tail) = .ok e.body.declared e.kind e.id e.path (bodyBytes e.body ++ tail) := by
  obtain ⟨hp, hk, hid, hb⟩ := hv
  rw [encodeEntry_eq, List.append_assoc, List.append_assoc e.id, List.append_assoc e.path]
  obtain ⟨h18, ht1, ht2, hm, hh⟩ := hdr_fields (le 8 e.path.length) (le 8 (declaredField e.body)) (UInt8.ofNat e.kind)
    (le_length 8 _) (le_length 8 _)
  unfold readEntryInfo
  rw [readExact_append' _ _ h18]
  simp only
  rw [ht1, ht2, hm, hh]
  have hkn : (UInt8.ofNat e.kind).toNat = e.kind := by
    simp [UInt8.toNat_ofNat']; omega
  rw [hkn]
  have hk' : ¬ e.kind > 4 := by omega
  rw [if_neg hk']
  have h0 : ¬ ((0 : UInt8).toNat ≠ 0) := by decide
  rw [if_neg h0]
  rw [ofLe_le8 _ hp, readExact_append' _ _ hid]
  simp only
  rw [readExact_append]
  simp only
  rw [declared_decode e.body hb]

end GixModel.C55
