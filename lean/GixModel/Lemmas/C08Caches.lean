import GixModel.Lemmas.C08
/-
C08 — the three concrete cache models satisfy `CacheContract`, for every capacity / memory limit
(0 and 1 included), and the static cache's memory accounting never underflows.
-/
namespace GixModel.C08
open GixModel

/-! ## `cache::Never` -/

def neverContract : CacheContract Never where
  Inv := fun _ _ => True
  get_inv := fun _ _ => trivial
  get_sound := by intro Q s k v _ h; simp [Never] at h
  put_ok := by intro Q s k v _ _; exact ⟨s, rfl, trivial⟩

/-! ## `StaticLinkedList` -/

theorem touch_spec (key : Nat) : ∀ (es : List SEntry) (hit : SEntry) (rest : List SEntry),
    touch key es = some (hit, rest) →
    hit.key = key ∧ hit ∈ es ∧ (∀ e ∈ rest, e ∈ es) ∧
    (rest.map SEntry.cap).sum + hit.cap = (es.map SEntry.cap).sum := by
  intro es
  induction es with
  | nil => intro hit rest h; simp [touch] at h
  | cons e es ih =>
    intro hit rest h
    simp only [touch] at h
    by_cases hk : e.key = key
    · simp only [hk, if_true, Option.some.injEq, Prod.mk.injEq] at h
      obtain ⟨h1, h2⟩ := h
      subst h1; subst h2
      exact ⟨hk, by simp, fun x hx => by simp [hx], by simp; omega⟩
    · simp only [hk, if_false] at h
      cases ht : touch key es with
      | none => simp [ht] at h
      | some p =>
        obtain ⟨hit', rest'⟩ := p
        simp only [ht, Option.some.injEq, Prod.mk.injEq] at h
        obtain ⟨h1, h2⟩ := h
        subst h1; subst h2
        obtain ⟨i1, i2, i3, i4⟩ := ih hit' rest' ht
        refine ⟨i1, by simp [i2], ?_, ?_⟩
        · intro x hx
          simp only [List.mem_cons] at hx ⊢
          rcases hx with hx | hx
          · exact Or.inl hx
          · exact Or.inr (i3 x hx)
        · simp only [List.map_cons, List.sum_cons]; omega

/-- the accounting invariant: `mem_used` covers the capacities of all cached vectors and of the
recycled one, and every capacity covers its vector's length -/
def StaticLRU.Acct (s : StaticLRU) : Prop :=
  (s.entries.map SEntry.cap).sum + s.lastEvicted.2 ≤ s.memUsed ∧ s.lastEvicted.1 ≤ s.lastEvicted.2 ∧
  ∀ e ∈ s.entries, e.val.data.length ≤ e.cap

def StaticLRU.Inv (Q : Nat → Val → Prop) (s : StaticLRU) : Prop :=
  (∀ e ∈ s.entries, Q e.key e.val) ∧ s.Acct

theorem StaticLRU.new_inv (Q : Nat → Val → Prop) (size memLimit : Nat) : (StaticLRU.new size memLimit).Inv Q := by
  simp [StaticLRU.Inv, StaticLRU.Acct, StaticLRU.new]

theorem le_vecGrow (cap n : Nat) : n ≤ vecGrow cap n := by
  unfold vecGrow
  split <;> omega

theorem dropLast_sum (es : List SEntry) (old : SEntry) (h : es.getLast? = some old) :
    (es.dropLast.map SEntry.cap).sum + old.cap = (es.map SEntry.cap).sum ∧ old ∈ es ∧ ∀ e ∈ es.dropLast, e ∈ es := by
  have hne : es ≠ [] := by intro h0; subst h0; simp at h
  have hd : es.dropLast ++ [old] = es := by
    have h2 := List.getLast?_eq_some_getLast hne
    rw [h] at h2
    have := List.dropLast_concat_getLast hne
    rw [← Option.some.inj h2] at this
    exact this
  refine ⟨?_, ?_, fun e he => List.dropLast_subset _ he⟩
  · conv => rhs; rw [← hd]
    simp
  · rw [← hd]; simp

/-- `put` never panics on a state that satisfies the accounting invariant, and re-establishes it;
everything cached afterwards was cached before or is the new pair -/
theorem StaticLRU.putWith_ok (Q : Nat → Val → Prop) (s : StaticLRU) (memFree key : Nat) (v : Val)
    (hs : s.size ≠ 0) (hinv : s.Inv Q) (hq : Q key v) :
    ∃ s', s.putWith memFree key v = some s' ∧ s'.Inv Q := by
  obtain ⟨hQ, hacc, hle, hcap⟩ := hinv
  -- after making room
  have step1 : ∃ s1 : StaticLRU,
      (if v.data.length > memFree then
          (if v.data.length > memFree + s.lastEvicted.1 then
            some { s with lastEvicted := (0, 0), entries := [], memUsed := 0 }
          else (csub s.memUsed s.lastEvicted.1).map fun m => { s with lastEvicted := (0, 0), memUsed := m })
        else some s) = some s1 ∧ s1.Inv Q ∧ s1.size = s.size := by
    by_cases h1 : v.data.length > memFree
    · by_cases h2 : v.data.length > memFree + s.lastEvicted.1
      · exact ⟨{ s with lastEvicted := (0, 0), entries := [], memUsed := 0 }, by simp only [h1, h2, if_true],
          by simp [StaticLRU.Inv, StaticLRU.Acct], rfl⟩
      · have hc : csub s.memUsed s.lastEvicted.1 = some (s.memUsed - s.lastEvicted.1) := by
          unfold csub; rw [if_pos (by omega)]
        refine ⟨{ s with lastEvicted := (0, 0), memUsed := s.memUsed - s.lastEvicted.1 }, ?_, ?_, rfl⟩
        · simp only [h1, h2, if_true, if_false, hc, Option.map_some]
        · exact ⟨hQ, by simp only [Nat.add_zero]; omega, by simp, hcap⟩
    · exact ⟨s, by simp only [h1, if_false], ⟨hQ, hacc, hle, hcap⟩, rfl⟩
  obtain ⟨s1, e1, ⟨hQ1, hacc1, hle1, hcap1⟩, hsz1⟩ := step1
  have hc2 : csub s1.memUsed s1.lastEvicted.2 = some (s1.memUsed - s1.lastEvicted.2) := by
    unfold csub; rw [if_pos (by omega)]
  have hgrow := le_vecGrow s1.lastEvicted.2 v.data.length
  by_cases hfull : s1.entries.length ≥ s1.size
  · -- a full list: the last entry is evicted and its vector kept
    have hne : s1.entries ≠ [] := by
      intro h0; rw [h0] at hfull; simp at hfull; omega
    obtain ⟨old, hold⟩ : ∃ old, s1.entries.getLast? = some old := by
      cases hl : s1.entries.getLast? with
      | none => exact absurd (List.getLast?_eq_none_iff.mp hl) hne
      | some x => exact ⟨x, rfl⟩
    obtain ⟨d1, d2, d3⟩ := dropLast_sum s1.entries old hold
    refine ⟨{ s1 with entries := { key := key, val := v, cap := vecGrow s1.lastEvicted.2 v.data.length } :: s1.entries.dropLast,
                       lastEvicted := (old.val.data.length, old.cap),
                       memUsed := s1.memUsed - s1.lastEvicted.2 + vecGrow s1.lastEvicted.2 v.data.length },
      by simp only [StaticLRU.putWith, e1, hc2, hfull, if_true, hold], ?_, ?_, ?_, ?_⟩
    · intro e he
      simp only [List.mem_cons] at he
      rcases he with he | he
      · subst he; exact hq
      · exact hQ1 e (d3 e he)
    · simp only [List.map_cons, List.sum_cons]; omega
    · exact hcap1 old d2
    · intro e he
      simp only [List.mem_cons] at he
      rcases he with he | he
      · subst he; exact hgrow
      · exact hcap1 e (d3 e he)
  · refine ⟨{ s1 with entries := { key := key, val := v, cap := vecGrow s1.lastEvicted.2 v.data.length } :: s1.entries,
                       lastEvicted := (0, 0),
                       memUsed := s1.memUsed - s1.lastEvicted.2 + vecGrow s1.lastEvicted.2 v.data.length },
      by simp only [StaticLRU.putWith, e1, hc2, hfull, if_false], ?_, ?_, ?_, ?_⟩
    · intro e he
      simp only [List.mem_cons] at he
      rcases he with he | he
      · subst he; exact hq
      · exact hQ1 e he
    · simp only [List.map_cons, List.sum_cons]; omega
    · simp
    · intro e he
      simp only [List.mem_cons] at he
      rcases he with he | he
      · subst he; exact hgrow
      · exact hcap1 e he

def staticModel : CacheModel := { σ := StaticLRU, get := StaticLRU.get, put := StaticLRU.put }

def staticContract : CacheContract staticModel where
  Inv := StaticLRU.Inv
  get_inv := by
    intro Q s k hinv
    obtain ⟨hQ, hacc, hle, hcap⟩ := hinv
    simp only [staticModel, StaticLRU.get]
    cases ht : touch k s.entries with
    | none => exact ⟨hQ, hacc, hle, hcap⟩
    | some p =>
      obtain ⟨hit, rest⟩ := p
      obtain ⟨_, t2, t3, t4⟩ := touch_spec k s.entries hit rest ht
      refine ⟨?_, ?_, hle, ?_⟩
      · intro e he
        simp only [List.mem_cons] at he
        rcases he with he | he
        · subst he; exact hQ _ t2
        · exact hQ e (t3 e he)
      · simp only [List.map_cons, List.sum_cons]; omega
      · intro e he
        simp only [List.mem_cons] at he
        rcases he with he | he
        · subst he; exact hcap _ t2
        · exact hcap e (t3 e he)
  get_sound := by
    intro Q s k v hinv h
    simp only [staticModel, StaticLRU.get] at h
    cases ht : touch k s.entries with
    | none => simp [ht] at h
    | some p =>
      obtain ⟨hit, rest⟩ := p
      obtain ⟨t1, t2, _, _⟩ := touch_spec k s.entries hit rest ht
      simp only [ht, Option.some.injEq] at h
      subst h
      rw [← t1]
      exact hinv.1 _ t2
  put_ok := by
    intro Q s k v hinv hq
    simp only [staticModel, StaticLRU.put]
    by_cases h0 : s.size = 0
    · exact ⟨s, by simp [h0], hinv⟩
    · by_cases h1 : v.data.length > s.memLimit
      · exact ⟨s, by simp [h0, h1], hinv⟩
      · simp only [h0, h1, if_false]
        exact StaticLRU.putWith_ok Q s _ k v h0 hinv hq

/-! ## `MemoryCappedHashmap` (pack cache: `extra = 0`; object cache: `extra = 52`) -/

theorem touchM_spec (key : Nat) : ∀ (es : List MEntry) (hit : MEntry) (rest : List MEntry),
    touchM key es = some (hit, rest) → hit.key = key ∧ hit ∈ es ∧ ∀ e ∈ rest, e ∈ es := by
  intro es
  induction es with
  | nil => intro hit rest h; simp [touchM] at h
  | cons e es ih =>
    intro hit rest h
    simp only [touchM] at h
    by_cases hk : e.key = key
    · simp only [hk, if_true, Option.some.injEq, Prod.mk.injEq] at h
      obtain ⟨h1, h2⟩ := h
      subst h1; subst h2
      exact ⟨hk, by simp, fun x hx => by simp [hx]⟩
    · simp only [hk, if_false] at h
      cases ht : touchM key es with
      | none => simp [ht] at h
      | some p =>
        obtain ⟨hit', rest'⟩ := p
        simp only [ht, Option.some.injEq, Prod.mk.injEq] at h
        obtain ⟨h1, h2⟩ := h
        subst h1; subst h2
        obtain ⟨i1, i2, i3⟩ := ih hit' rest' ht
        refine ⟨i1, by simp [i2], ?_⟩
        intro x hx
        simp only [List.mem_cons] at hx ⊢
        rcases hx with hx | hx
        · exact Or.inl hx
        · exact Or.inr (i3 x hx)

theorem evict_subset (m : MemCapped) (w : Nat) : ∀ (fuel : Nat) (es : List MEntry), ∀ e ∈ m.evict w fuel es, e ∈ es := by
  intro fuel
  induction fuel with
  | zero => intro es e he; simpa [MemCapped.evict] using he
  | succ fuel ih =>
    intro es e he
    unfold MemCapped.evict at he
    split at he
    · cases es with
      | nil => simp at he
      | cons x xs =>
        simp only at he
        exact List.dropLast_subset _ (ih _ e he)
    · exact he

def memModel : CacheModel := { σ := MemCapped, get := MemCapped.get, put := MemCapped.put }

def memContract : CacheContract memModel where
  Inv := fun Q m => ∀ e ∈ m.entries, Q e.key e.val
  get_inv := by
    intro Q m k hinv
    simp only [memModel, MemCapped.get]
    cases ht : touchM k m.entries with
    | none => exact hinv
    | some p =>
      obtain ⟨hit, rest⟩ := p
      obtain ⟨_, t2, t3⟩ := touchM_spec k m.entries hit rest ht
      intro e he
      simp only [List.mem_cons] at he
      rcases he with he | he
      · subst he; exact hinv _ t2
      · exact hinv e (t3 e he)
  get_sound := by
    intro Q m k v hinv h
    simp only [memModel, MemCapped.get] at h
    cases ht : touchM k m.entries with
    | none => simp [ht] at h
    | some p =>
      obtain ⟨hit, rest⟩ := p
      obtain ⟨t1, t2, _⟩ := touchM_spec k m.entries hit rest ht
      simp only [ht, Option.some.injEq] at h
      subst h
      rw [← t1]
      exact hinv _ t2
  put_ok := by
    intro Q m k v hinv hq
    simp only [memModel, MemCapped.put]
    by_cases hw : v.data.length + m.extra ≥ m.cap
    · exact ⟨m, by simp [hw], hinv⟩
    · refine ⟨{ cap := m.cap, extra := m.extra, entries := ({ key := k, val := v } : MEntry) ::
          (m.evict (v.data.length + m.extra) ((m.entries.filter (fun e => e.key ≠ k)).length + 1)
            (m.entries.filter (fun e => e.key ≠ k))) }, by simp only [hw, if_false], ?_⟩
      intro e he
      simp only [List.mem_cons] at he
      rcases he with he | he
      · subst he; exact hq
      · have h1 := evict_subset m (v.data.length + m.extra) _ _ e he
        exact hinv e (List.mem_filter.mp h1).1

end GixModel.C08
