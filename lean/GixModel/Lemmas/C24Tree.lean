import GixModel.Lemmas.C24Ext
/-
C24 — lemmas for the cache-tree extension: decimal rendering/parsing, the stable sort by name is a
permutation, distinct sibling names survive it, and `one_recursive` on git's payload yields the
canonical tree (enough fuel: the payload length + 2).
-/
namespace GixModel.C24
open GixModel GixModel.Spec.C24

/-! ### decimal -/

def decStep (bound : Nat) (acc : Option Nat) (b : UInt8) : Option Nat :=
  match acc with
  | none => none
  | some a => if isDigit b then (if a * 10 + (b.toNat - 48) < bound then some (a * 10 + (b.toNat - 48)) else none) else none

theorem decFold_digits (bound : Nat) : ∀ (f n : Nat), n < f → n < bound →
    (digitsFuel 10 f n).foldl (decStep bound) (some 0) = some n := by
  intro f
  induction f with
  | zero => intro n h; omega
  | succ f ih =>
    intro n hf hb
    unfold digitsFuel
    by_cases h10 : n < 10
    · simp only [h10, if_true, List.foldl_cons, List.foldl_nil, decStep, isDigit, u8]
      have h1 : (48 + n) % 256 = 48 + n := by omega
      simp only [h1]
      have h2 : (decide (48 ≤ 48 + n) && decide (48 + n ≤ 57)) = true := by simp; omega
      simp only [h2, if_true]
      have h3 : 0 * 10 + (48 + n - 48) = n := by omega
      simp only [h3, hb, if_true]
    · simp only [h10, if_false, List.foldl_append, List.foldl_cons, List.foldl_nil]
      rw [ih (n / 10) (by omega) (by omega)]
      simp only [decStep, isDigit, u8]
      have h1 : (48 + n % 10) % 256 = 48 + n % 10 := by omega
      simp only [h1]
      have h2 : (decide (48 ≤ 48 + n % 10) && decide (48 + n % 10 ≤ 57)) = true := by simp; omega
      simp only [h2, if_true]
      have h3 : n / 10 * 10 + (48 + n % 10 - 48) = n := by omega
      simp only [h3, hb, if_true]

theorem parseUnsigned_eq (bound : Nat) (ds : Bytes) (hne : ds ≠ []) :
    parseUnsigned bound ds = ds.foldl (decStep bound) (some 0) := by
  cases ds with
  | nil => exact absurd rfl hne
  | cons x xs =>
    unfold parseUnsigned
    simp only [List.isEmpty_cons, Bool.false_eq_true, if_false]
    rfl

theorem natDecimal_ne_nil (n : Nat) : natDecimal n ≠ [] := digitsFuel_ne_nil 10 n n

theorem natDecimal_bytes (n : Nat) : ∀ x ∈ natDecimal n, 48 ≤ x.toNat ∧ x.toNat ≤ 57 :=
  digitsFuel_bytes 10 (by decide) (by decide) (n + 1) n

theorem parseUnsigned_natDecimal (bound n : Nat) (hn : n < bound) :
    parseUnsigned bound (natDecimal n) = some n := by
  rw [parseUnsigned_eq _ _ (natDecimal_ne_nil n)]
  exact decFold_digits bound (n + 1) n (by omega) hn

theorem parseI32_natDecimal (n : Nat) (hn : n < 2147483648) : parseI32 (natDecimal n) = some (Int.ofNat n) := by
  have hne := natDecimal_ne_nil n
  have hb := natDecimal_bytes n
  cases hd : natDecimal n with
  | nil => exact absurd hd hne
  | cons x xs =>
    have hx := hb x (by rw [hd]; simp)
    unfold parseI32
    split
    · rename_i heq; simp at heq
    · rename_i rest heq
      simp only [List.cons.injEq] at heq
      have : x.toNat = 43 := by rw [heq.1]; rfl
      omega
    · rename_i rest heq
      simp only [List.cons.injEq] at heq
      have : x.toNat = 45 := by rw [heq.1]; rfl
      omega
    · rw [← hd, parseUnsigned_natDecimal _ _ hn]; rfl

theorem parseI32_minus_one : parseI32 [45, 49] = some (-1) := by decide


/-! ### cache tree -/

theorem insertByName_perm (t : Tree) : ∀ (l : List Tree), (insertByName t l).Perm (t :: l) := by
  intro l
  induction l with
  | nil => exact List.Perm.refl _
  | cons x xs ih =>
    unfold insertByName
    split
    · exact (List.Perm.cons x ih).trans (List.Perm.swap t x xs)
    · exact List.Perm.refl _

theorem sortByName_perm : ∀ (l : List Tree), (sortByName l).Perm l := by
  intro l
  induction l with
  | nil => exact List.Perm.refl _
  | cons x xs ih =>
    unfold sortByName
    exact (insertByName_perm x _).trans (List.Perm.cons x ih)

theorem hasAdjacentDup_false : ∀ (l : List Tree), (l.map Tree.name).Nodup → hasAdjacentDup l = false := by
  intro l
  induction l with
  | nil => intro _; rfl
  | cons a l ih =>
    intro hnd
    cases l with
    | nil => rfl
    | cons b rest =>
      simp only [List.map_cons, List.nodup_cons] at hnd
      unfold hasAdjacentDup
      have hab : (a.name == b.name) = false := by
        apply beq_false_of_ne
        intro h
        exact hnd.1 (by rw [h]; simp)
      rw [hab, Bool.false_or]
      exact ih (by simp only [List.map_cons, List.nodup_cons]; exact hnd.2)

theorem sorted_no_dup (l : List Tree) (h : (l.map Tree.name).Nodup) : hasAdjacentDup (sortByName l) = false := by
  apply hasAdjacentDup_false
  exact ((sortByName_perm l).map Tree.name).nodup_iff.mpr h

mutual
  /-- what gitoxide reports for a cache tree: children sorted by name, recursively; the id of an
  invalidated node (entry count -1, no id on disk) is the null id -/
  def canonTree : Tree → Tree
    | .mk name id num cs =>
      .mk name (match num with | some _ => id | none => List.replicate hashLen 0) num (sortByName (canonTrees cs))
  def canonTrees : List Tree → List Tree
    | [] => []
    | t :: ts => canonTree t :: canonTrees ts
end

theorem canonTree_name (t : Tree) : (canonTree t).name = t.name := by
  cases t with
  | mk name id num cs => simp [canonTree, Tree.name]

theorem canonTrees_names : ∀ (ts : List Tree), (canonTrees ts).map Tree.name = ts.map Tree.name
  | [] => by simp [canonTrees]
  | t :: ts => by simp [canonTrees, canonTree_name, canonTrees_names ts]

theorem canonTrees_length : ∀ (ts : List Tree), (canonTrees ts).length = ts.length
  | [] => by simp [canonTrees]
  | t :: ts => by simp [canonTrees, canonTrees_length ts]

mutual
  /-- a cache tree as git holds it -/
  def WfTree : Tree → Prop
    | .mk name id num cs =>
      (∀ b ∈ name, b ≠ 0) ∧
      (match num with
       | some n => n < 2147483648 ∧ id.length = hashLen
       | none => True) ∧
      cs.length < 18446744073709551616 ∧ (cs.map Tree.name).Nodup ∧ WfTrees cs
  def WfTrees : List Tree → Prop
    | [] => True
    | t :: ts => WfTree t ∧ WfTrees ts
end

mutual
  /-- fuel `one_recursive` needs (the model recurses on explicit fuel) -/
  def treeCost : Tree → Nat
    | .mk _ _ _ cs => 1 + treesCost cs
  def treesCost : List Tree → Nat
    | [] => 1
    | t :: ts => 1 + max (treeCost t) (treesCost ts)
end

mutual
  /-- nesting below a node: 0 for a leaf -/
  def treeHeight : Tree → Nat
    | .mk _ _ _ cs => treesHeight cs
  def treesHeight : List Tree → Nat
    | [] => 0
    | t :: ts => max (1 + treeHeight t) (treesHeight ts)
end

theorem natDecimal_no (c : UInt8) (hc : c.toNat < 48) (n : Nat) : ∀ x ∈ natDecimal n, x ≠ c := by
  intro x hx h
  have := (natDecimal_bytes n x hx).1
  rw [h] at this
  omega

theorem gitEncodeTree_eq (name id : Bytes) (num : Option Nat) (cs : List Tree) :
    gitEncodeTree (.mk name id num cs) =
      name ++ (0 :: ((match num with | some n => natDecimal n | none => [45, 49]) ++
        (32 :: (natDecimal cs.length ++ (10 :: ((match num with | some _ => id | none => []) ++ gitEncodeTrees cs)))))) := by
  simp only [gitEncodeTree, List.append_assoc, List.cons_append, List.nil_append]
  cases num <;> rfl

mutual
  theorem treeOne_encoded : ∀ (t : Tree), WfTree t → ∀ (fuel depth : Nat) (rest : Bytes), treeCost t ≤ fuel →
      depth + treeHeight t ≤ maxDepth →
      treeOne fuel depth (gitEncodeTree t ++ rest) = some (canonTree t, rest)
    | .mk name id num cs, hwf, fuel, depth, rest, hfuel, hdepth => by
      simp only [treeHeight] at hdepth
      have hd0 : ¬ (depth > maxDepth) := by omega
      simp only [WfTree] at hwf
      obtain ⟨hname, hnum, hlen, hnodup, hcs⟩ := hwf
      simp only [treeCost] at hfuel
      cases fuel with
      | zero => omega
      | succ f =>
        have hmany := treeMany_encoded cs hcs f (depth + 1) rest (by omega) hdepth
        have hdup := sorted_no_dup (canonTrees cs) (by rw [canonTrees_names]; exact hnodup)
        have hl3 : ∀ (tl : Bytes), 2 ≤ (natDecimal cs.length ++ ((10 : UInt8) :: tl)).length := by
          intro tl
          have := natDecimal_ne_nil cs.length
          cases hd : natDecimal cs.length with
          | nil => exact absurd hd this
          | cons _ _ => simp only [List.length_append, List.length_cons]; omega
        cases num with
        | none =>
          rw [gitEncodeTree_eq, treeOne, if_neg hd0]
          simp only [List.append_assoc, List.cons_append, List.nil_append]
          have hl1 : 2 ≤ (name ++ ((0 : UInt8) :: 45 :: 49 :: 32 :: (natDecimal cs.length ++
              ((10 : UInt8) :: (gitEncodeTrees cs ++ rest))))).length := by
            simp only [List.length_append, List.length_cons]; omega
          rw [splitAtByteExclusive_eq _ _ hl1, splitAtByte_append 0 _ _ hname]
          simp only []
          have hl2 : 2 ≤ ((45 : UInt8) :: 49 :: 32 :: (natDecimal cs.length ++ (10 :: (gitEncodeTrees cs ++ rest)))).length := by
            simp only [List.length_cons]; omega
          rw [splitAtByteExclusive_eq _ _ hl2]
          have hs2 : splitAtByte 32 ((45 : UInt8) :: 49 :: 32 :: (natDecimal cs.length ++ (10 :: (gitEncodeTrees cs ++ rest))))
              = some ([45, 49], natDecimal cs.length ++ (10 :: (gitEncodeTrees cs ++ rest))) := by
            simp [splitAtByte]
          rw [hs2]
          simp only [parseI32_minus_one]
          rw [splitAtByteExclusive_eq _ _ (hl3 _),
            splitAtByte_append 10 _ _ (natDecimal_no 10 (by decide) cs.length)]
          simp only [parseUnsigned_natDecimal _ _ hlen]
          have hneg : ¬ ((-1 : Int) ≥ 0) := by decide
          simp only [hneg, if_false, hmany]
          simp only [hdup, Bool.false_eq_true, if_false, canonTree]
        | some n =>
          obtain ⟨hn, hid⟩ := hnum
          rw [gitEncodeTree_eq, treeOne, if_neg hd0]
          simp only [List.append_assoc, List.cons_append, List.nil_append]
          have hne := natDecimal_ne_nil n
          have hl1 : 2 ≤ (name ++ ((0 : UInt8) :: (natDecimal n ++ ((32 : UInt8) :: (natDecimal cs.length ++
              ((10 : UInt8) :: (id ++ (gitEncodeTrees cs ++ rest)))))))).length := by
            simp only [List.length_append, List.length_cons]; omega
          rw [splitAtByteExclusive_eq _ _ hl1, splitAtByte_append 0 _ _ hname]
          simp only []
          have hl2 : 2 ≤ (natDecimal n ++ ((32 : UInt8) :: (natDecimal cs.length ++ ((10 : UInt8) :: (id ++ (gitEncodeTrees cs ++ rest)))))).length := by
            cases hd : natDecimal n with
            | nil => exact absurd hd hne
            | cons _ _ => simp only [List.length_append, List.length_cons]; omega
          rw [splitAtByteExclusive_eq _ _ hl2,
            splitAtByte_append 32 _ _ (natDecimal_no 32 (by decide) n)]
          simp only [parseI32_natDecimal n hn]
          rw [splitAtByteExclusive_eq _ _ (hl3 _),
            splitAtByte_append 10 _ _ (natDecimal_no 10 (by decide) cs.length)]
          simp only [parseUnsigned_natDecimal _ _ hlen]
          have hpos : (Int.ofNat n ≥ 0) := Int.natCast_nonneg n
          simp only [hpos, if_true]
          rw [← hid, splitAtPos_append]
          simp only [hmany]
          simp only [hdup, Bool.false_eq_true, if_false, canonTree]
          have hto : (Int.ofNat n).toNat = n := rfl
          rw [hto]
  theorem treeMany_encoded : ∀ (ts : List Tree), WfTrees ts → ∀ (fuel depth : Nat) (rest : Bytes), treesCost ts ≤ fuel →
      (depth - 1) + treesHeight ts ≤ maxDepth →
      treeMany fuel depth ts.length (gitEncodeTrees ts ++ rest) = some (canonTrees ts, rest)
    | [], _, fuel, depth, rest, hfuel, _ => by
      simp only [treesCost] at hfuel
      cases fuel with
      | zero => omega
      | succ f => simp [treeMany, gitEncodeTrees, canonTrees]
    | t :: ts, hwf, fuel, depth, rest, hfuel, hdepth => by
      simp only [WfTrees] at hwf
      simp only [treesCost] at hfuel
      simp only [treesHeight] at hdepth
      cases fuel with
      | zero => omega
      | succ f =>
        have h1 := treeOne_encoded t hwf.1 f depth (gitEncodeTrees ts ++ rest) (by omega) (by omega)
        have h2 := treeMany_encoded ts hwf.2 f depth rest (by omega) (by omega)
        simp only [gitEncodeTrees, List.length_cons, List.append_assoc]
        rw [treeMany, h1]
        simp only [h2, canonTrees]
end


theorem natDecimal_length_pos (n : Nat) : 1 ≤ (natDecimal n).length := by
  cases h : natDecimal n with
  | nil => exact absurd h (natDecimal_ne_nil n)
  | cons _ _ => simp

mutual
  theorem treeCost_le : ∀ (t : Tree), treeCost t + 3 ≤ (gitEncodeTree t).length
    | .mk name id num cs => by
      have h := treesCost_le cs
      rw [gitEncodeTree_eq]
      simp only [treeCost, List.length_append, List.length_cons]
      have h1 := natDecimal_length_pos cs.length
      cases num with
      | none => simp only [List.length_cons, List.length_nil]; omega
      | some n =>
        have h2 := natDecimal_length_pos n
        simp only []; omega
  theorem treesCost_le : ∀ (ts : List Tree), treesCost ts ≤ (gitEncodeTrees ts).length + 1
    | [] => by simp [treesCost, gitEncodeTrees]
    | t :: ts => by
      have h1 := treeCost_le t
      have h2 := treesCost_le ts
      simp only [treesCost, gitEncodeTrees, List.length_append]
      omega
end

/-- the TREE payload git writes decodes to the canonical form of the tree -/
theorem treeDecodeOpt_encoded (t : Tree) (hwf : WfTree t) (hdepth : treeHeight t ≤ maxDepth) :
    treeDecodeOpt (gitEncodeTree t) = some (canonTree t) := by
  unfold treeDecodeOpt
  have h := treeOne_encoded t hwf ((gitEncodeTree t).length + 2) 0 [] (by have := treeCost_le t; omega) (by omega)
  rw [List.append_nil] at h
  rw [h]
  simp

end GixModel.C24
