import GixModel.Lemmas.C44c
/-
C44 helper lemmas, part d: the queue layer by layer; the final statement about `diff`.
-/
namespace GixModel.C44
open GixModel GixModel.Tree
open GixModel.C04 (Assoc aget TreeOk findName ValidName findName_eq_some_iff findName_eq_none_iff)
open GixModel.Spec.C44 (CChange Node changeAt isDir applyAt putsAt deletesAt)

/-- an item whose trees can be loaded and are canonical down to depth `d` -/
def GoodCore (S : Assoc Bytes (List Entry)) (d : Nat) (i : Path × Option Bytes × Option Bytes) : Prop :=
  ∃ tl tr, loadCore S i = some (tl, tr) ∧ CanonN S d tl ∧ CanonN S d tr

theorem GoodCore.mono {S : Assoc Bytes (List Entry)} {d d' : Nat} (h : d ≤ d')
    {i : Path × Option Bytes × Option Bytes} (g : GoodCore S d i) : GoodCore S d' i := by
  obtain ⟨tl, tr, h1, h2, h3⟩ := g
  exact ⟨tl, tr, h1, h2.mono h, h3.mono h⟩

/-- the children of a level are good one level further down -/
theorem children_good {S : Assoc Bytes (List Entry)} {d : Nat} (dir : Path) {tl tr : List Entry}
    (hl : CanonN S (d + 1) tl) (hr : CanonN S (d + 1) tr) :
    ∀ i ∈ levelItems dir tl tr, GoodCore S d i := by
  intro i hi
  obtain ⟨n, hn⟩ := (level_items_iff dir hl.1 hr.1 _ (Nat.le_succ _) i).1 hi
  -- the empty side of a one-sided item is canonical as soon as the other side exists
  have hnil : ∀ {t : List Entry}, CanonN S d t → CanonN S d [] := by
    intro t ht
    cases d with
    | zero => exact absurd ht id
    | succ d => exact canonN_nil S d
  cases hfl : findName tl n with
  | none =>
    cases hfr : findName tr n with
    | none => simp [hfl, hfr, itemAt] at hn
    | some b =>
      have hb := ((findName_eq_some_iff hr.1.uniq).1 hfr).1
      by_cases hbd : b.isTree = true
      · obtain ⟨tb, hsb, hcb⟩ := hr.2 b hb hbd
        simp only [hfl, hfr, itemAt, hbd, if_true, List.mem_singleton] at hn
        subst hn
        exact ⟨[], tb, by simp [loadCore, loadItem, hsb], hnil hcb, hcb⟩
      · simp [hfl, hfr, itemAt, hbd] at hn
  | some a =>
    have ha := ((findName_eq_some_iff hl.1.uniq).1 hfl).1
    cases hfr : findName tr n with
    | none =>
      by_cases had : a.isTree = true
      · obtain ⟨ta, hsa, hca⟩ := hl.2 a ha had
        simp only [hfl, hfr, itemAt, had, if_true, List.mem_singleton] at hn
        subst hn
        exact ⟨ta, [], by simp [loadCore, loadItem, hsa], hca, hnil hca⟩
      · simp [hfl, hfr, itemAt, had] at hn
    | some b =>
      have hb := ((findName_eq_some_iff hr.1.uniq).1 hfr).1
      by_cases had : a.isTree = true
      · obtain ⟨ta, hsa, hca⟩ := hl.2 a ha had
        by_cases hbd : b.isTree = true
        · obtain ⟨tb, hsb, hcb⟩ := hr.2 b hb hbd
          simp only [hfl, hfr, itemAt, had, hbd, if_true, List.mem_singleton] at hn
          subst hn
          exact ⟨ta, tb, by simp [loadCore, loadItem, hsa, hsb], hca, hcb⟩
        · simp only [hfl, hfr, itemAt, had, hbd, if_true, Bool.false_eq_true, if_false,
            List.mem_singleton] at hn
          subst hn
          exact ⟨ta, [], by simp [loadCore, loadItem, hsa], hca, hnil hca⟩
      · by_cases hbd : b.isTree = true
        · obtain ⟨tb, hsb, hcb⟩ := hr.2 b hb hbd
          simp only [hfl, hfr, itemAt, had, hbd, if_true, Bool.false_eq_true, if_false,
            List.mem_singleton] at hn
          subst hn
          exact ⟨[], tb, by simp [loadCore, loadItem, hsb], hnil hcb, hcb⟩
        · simp [hfl, hfr, itemAt, had, hbd] at hn

def itemRecs (S : Assoc Bytes (List Entry)) (it : QItem) : List CChange :=
  match loadItem S it with
  | some (tl, tr) => levelRecs it.path tl tr
  | none => []

def itemItems (S : Assoc Bytes (List Entry)) (it : QItem) : List (Path × Option Bytes × Option Bytes) :=
  match loadItem S it with
  | some (tl, tr) => levelItems it.path tl tr
  | none => []

/-- one layer: all its items are walked, in order -/
theorem runLayer_spec (S : Assoc Bytes (List Entry)) :
    ∀ (q : List QItem) (acc : Acc), (∀ it ∈ q, (loadItem S it).isSome = true) →
      ∃ acc', runLayer S q acc = some acc' ∧
        acc'.recs.map core = acc.recs.map core ++ q.flatMap (itemRecs S) ∧
        acc'.queue.map itemCore = acc.queue.map itemCore ++ q.flatMap (itemItems S) := by
  intro q
  induction q with
  | nil => intro acc _; exact ⟨acc, rfl, by simp, by simp⟩
  | cons it rest ih =>
    intro acc hq
    have hsome := hq it (by simp)
    cases hl : loadItem S it with
    | none => simp [hl] at hsome
    | some p =>
      obtain ⟨tl, tr⟩ := p
      have hm := mergeLevel_eq it.path it.rel (tl.length + tr.length + 1) tl tr acc
      obtain ⟨acc', h1, h2, h3⟩ := ih (mergeLevel it.path it.rel (tl.length + tr.length + 1) tl tr acc)
        (fun x hx => hq x (List.mem_cons_of_mem _ hx))
      refine ⟨acc', by simp [runLayer, hl, h1], ?_, ?_⟩
      · rw [h2, hm.1]
        simp [List.flatMap_cons, itemRecs, hl, levelRecs, List.append_assoc]
      · rw [h3, hm.2]
        simp [List.flatMap_cons, itemItems, hl, levelItems, List.append_assoc]

/-- the whole queue: every queued pair gets everything below it reported -/
theorem runLayers_spec (S : Assoc Bytes (List Entry)) :
    ∀ (depth : Nat) (q : List QItem) (recs : List Change) (cid : Nat),
      (∀ it ∈ q, GoodCore S depth (itemCore it)) →
      ∃ out, runLayers S depth q recs cid = .ok out ∧
        ∀ c, c ∈ out.map core ↔ (c ∈ recs.map core ∨
          ∃ it ∈ q, ∃ tl tr, loadItem S it = some (tl, tr) ∧ SpecItem S it.path tl tr c) := by
  intro depth
  induction depth with
  | zero =>
    intro q recs cid hq
    cases q with
    | nil => exact ⟨recs, rfl, by simp⟩
    | cons it rest =>
      obtain ⟨_, _, _, h, _⟩ := hq it (by simp)
      exact absurd h id
  | succ depth ih =>
    intro q recs cid hq
    cases hqe : q with
    | nil => exact ⟨recs, by simp [runLayers], by simp⟩
    | cons it0 rest0 =>
      rw [← hqe]
      have hload : ∀ it ∈ q, (loadItem S it).isSome = true := by
        intro it hit
        obtain ⟨tl, tr, h, _, _⟩ := hq it hit
        rw [loadItem_core, h]; rfl
      obtain ⟨acc', h1, h2, h3⟩ := runLayer_spec S q ⟨recs, [], cid⟩ hload
      -- the next layer is good one level further down
      have hnext : ∀ it' ∈ acc'.queue, GoodCore S depth (itemCore it') := by
        intro it' hit'
        have : itemCore it' ∈ acc'.queue.map itemCore := List.mem_map.2 ⟨it', hit', rfl⟩
        rw [h3] at this
        simp only [List.map_nil, List.nil_append, List.mem_flatMap] at this
        obtain ⟨it, hit, hi⟩ := this
        obtain ⟨tl, tr, hl, hcl, hcr⟩ := hq it hit
        rw [← loadItem_core] at hl
        simp only [itemItems, hl] at hi
        exact children_good it.path hcl hcr _ hi
      obtain ⟨out, ho1, ho2⟩ := ih acc'.queue acc'.recs acc'.cid hnext
      have hne : q.isEmpty = false := by rw [hqe]; rfl
      refine ⟨out, by simp [runLayers, hne, h1, ho1], ?_⟩
      intro c
      rw [ho2 c, h2]
      simp only [List.mem_append, List.mem_flatMap]
      constructor
      · rintro ((h | ⟨it, hit, hc⟩) | ⟨it', hit', tl', tr', hl', hs'⟩)
        · exact Or.inl h
        · obtain ⟨tl, tr, hl, hcl, hcr⟩ := hq it hit
          rw [← loadItem_core] at hl
          simp only [itemRecs, hl] at hc
          exact Or.inr ⟨it, hit, tl, tr, hl, (specItem_unfold it.path hcl hcr c).2 (Or.inl hc)⟩
        · have : itemCore it' ∈ acc'.queue.map itemCore := List.mem_map.2 ⟨it', hit', rfl⟩
          rw [h3] at this
          simp only [List.map_nil, List.nil_append, List.mem_flatMap] at this
          obtain ⟨it, hit, hi⟩ := this
          obtain ⟨tl, tr, hl, hcl, hcr⟩ := hq it hit
          rw [← loadItem_core] at hl
          simp only [itemItems, hl] at hi
          refine Or.inr ⟨it, hit, tl, tr, hl, (specItem_unfold it.path hcl hcr c).2 (Or.inr ?_)⟩
          exact ⟨itemCore it', hi, tl', tr', by rw [← loadItem_core]; exact hl', hs'⟩
      · rintro (h | ⟨it, hit, tl, tr, hl, hs⟩)
        · exact Or.inl (Or.inl h)
        · obtain ⟨tl0, tr0, hl0, hcl, hcr⟩ := hq it hit
          rw [← loadItem_core, hl] at hl0
          simp only [Option.some.injEq, Prod.mk.injEq] at hl0
          obtain ⟨rfl, rfl⟩ := hl0
          rcases (specItem_unfold it.path hcl hcr c).1 hs with h | ⟨i, hi, tl', tr', hl', hs'⟩
          · exact Or.inl (Or.inr ⟨it, hit, by simp only [itemRecs, hl]; exact h⟩)
          · have : i ∈ acc'.queue.map itemCore := by
              rw [h3]
              simp only [List.map_nil, List.nil_append, List.mem_flatMap]
              exact ⟨it, hit, by simp only [itemItems, hl]; exact hi⟩
            obtain ⟨it', hit', rfl⟩ := List.mem_map.1 this
            exact Or.inr ⟨it', hit', tl', tr', by rw [loadItem_core]; exact hl', hs'⟩

/-- `gix_diff::tree()` on two canonical trees: it succeeds and reports exactly the specified changes -/
theorem diff_spec (S : Assoc Bytes (List Entry)) {d : Nat} {a b : List Entry}
    (ha : CanonN S (d + 1) a) (hb : CanonN S (d + 1) b) (depth : Nat) (hd : d ≤ depth) :
    ∃ out, diff S depth a b = .ok out ∧
      ∀ c, c ∈ out.map core ↔ ∃ p, c ∈ changeAt p (nodeIn S a p) (nodeIn S b p) := by
  have hm := mergeLevel_eq [] .none (a.length + b.length + 1) a b ⟨[], [], 0⟩
  generalize hacc : mergeLevel [] .none (a.length + b.length + 1) a b ⟨[], [], 0⟩ = acc at hm
  simp only [List.map_nil, List.nil_append] at hm
  have hgood : ∀ it ∈ acc.queue, GoodCore S depth (itemCore it) := by
    intro it hit
    have : itemCore it ∈ acc.queue.map itemCore := List.mem_map.2 ⟨it, hit, rfl⟩
    rw [hm.2] at this
    exact (children_good [] ha hb _ this).mono hd
  obtain ⟨out, ho1, ho2⟩ := runLayers_spec S depth acc.queue acc.recs acc.cid hgood
  refine ⟨out, by simp [diff, hacc, ho1], ?_⟩
  intro c
  rw [ho2 c, hm.1]
  have hunf := specItem_unfold (S := S) [] ha hb c
  simp only [SpecItem, List.nil_append] at hunf
  constructor
  · intro h
    have : (∃ p, p ≠ [] ∧ c ∈ changeAt p (nodeIn S a p) (nodeIn S b p)) := by
      apply hunf.2
      rcases h with h | ⟨it, hit, tl, tr, hl, hs⟩
      · exact Or.inl h
      · right
        have : itemCore it ∈ acc.queue.map itemCore := List.mem_map.2 ⟨it, hit, rfl⟩
        rw [hm.2] at this
        exact ⟨itemCore it, this, tl, tr, by rw [← loadItem_core]; exact hl, hs⟩
    obtain ⟨p, _, hp⟩ := this
    exact ⟨p, hp⟩
  · rintro ⟨p, hp⟩
    have hpne : p ≠ [] := by
      intro h0; subst h0; simp [nodeIn, changeAt] at hp
    rcases hunf.1 ⟨p, hpne, hp⟩ with h | ⟨i, hi, tl, tr, hl, hs⟩
    · exact Or.inl h
    · have : i ∈ acc.queue.map itemCore := by rw [hm.2]; exact hi
      obtain ⟨it, hit, rfl⟩ := List.mem_map.1 this
      exact Or.inr ⟨it, hit, tl, tr, by rw [loadItem_core]; exact hl, hs⟩

/-! ### consequences -/

theorem changeAt_self (p : Path) (x : Option Node) : changeAt p x x = [] := by
  cases x with
  | none => rfl
  | some v => by_cases h : isDir v = true <;> simp [changeAt, h]

/-- the path a change is about -/
def pathOf : CChange → Path
  | .add p _ _ => p
  | .del p _ _ => p
  | .mod p _ _ _ _ => p

theorem changeAt_path {p : Path} {x y : Option Node} {c : CChange} (h : c ∈ changeAt p x y) :
    pathOf c = p := by
  cases x with
  | none =>
    cases y with
    | none => simp [changeAt] at h
    | some y0 => simp [changeAt] at h; subst h; rfl
  | some x0 =>
    cases y with
    | none => simp [changeAt] at h; subst h; rfl
    | some y0 =>
      simp only [changeAt] at h
      split at h
      · simp at h; rcases h with rfl | rfl <;> rfl
      · split at h
        · split at h
          · cases h
          · simp at h; subst h; rfl
        · split at h
          · cases h
          · simp at h; subst h; rfl

theorem putsAt_path {p : Path} {c : CChange} {v : Node} (h : putsAt p c = some v) : pathOf c = p := by
  cases c with
  | add q m o => simp only [putsAt] at h; split at h <;> simp_all [pathOf]
  | del q m o => simp [putsAt] at h
  | mod q pm po m o => simp only [putsAt] at h; split at h <;> simp_all [pathOf]

theorem deletesAt_path {p : Path} {c : CChange} (h : deletesAt p c = true) : pathOf c = p := by
  cases c with
  | add q m o => simp [deletesAt] at h
  | del q m o => simpa [deletesAt, pathOf] using h
  | mod q pm po m o => simp [deletesAt] at h

/-- directory nodes of canonical trees have mode 040000 -/
theorem nodeIn_dir_mode {S : Assoc Bytes (List Entry)} : ∀ (p : Path) {d : Nat} {t : List Entry},
    CanonN S d t → ∀ {x : Node}, nodeIn S t p = some x → isDir x = true → x.1 = 0o040000 := by
  intro p
  induction p with
  | nil => intro d t _ x h; simp [nodeIn] at h
  | cons n rest ih =>
    intro d t ht x h hd
    cases d with
    | zero => exact absurd ht id
    | succ d =>
      cases rest with
      | nil =>
        simp only [nodeIn] at h
        cases hf : findName t n with
        | none => simp [hf] at h
        | some e =>
          simp only [hf, Option.map_some, Option.some.injEq] at h
          subst h
          have he := ((findName_eq_some_iff ht.1.uniq).1 hf).1
          exact (ht.1.good e he hd).2
      | cons m rest' =>
        rw [nodeIn_cons S t n _ (by simp)] at h
        cases hf : findName t n with
        | none => simp [hf] at h
        | some e =>
          have he := ((findName_eq_some_iff ht.1.uniq).1 hf).1
          by_cases hed : e.isTree = true
          · obtain ⟨t', hs, hc⟩ := ht.2 e he hed
            simp only [hf, hed, if_true, hs] at h
            exact ih hc h hd
          · simp [hf, hed] at h

/-- applying a change set that is exactly `changeAt` everywhere turns `x` into `y` -/
theorem applyAt_of_spec {cs : List CChange} {fa fb : Path → Option Node}
    (hmem : ∀ c, c ∈ cs ↔ ∃ p, c ∈ changeAt p (fa p) (fb p))
    (hmode : ∀ p x y, fa p = some x → fb p = some y → isDir x = true → isDir y = true → x.1 = y.1)
    (p : Path) : applyAt cs p (fa p) = fb p := by
  have hat : ∀ c, c ∈ cs → pathOf c = p → c ∈ changeAt p (fa p) (fb p) := by
    intro c hc hp
    obtain ⟨p', h⟩ := (hmem c).1 hc
    have := changeAt_path h
    rw [hp] at this
    subst this; exact h
  unfold applyAt
  cases hfs : cs.findSome? (putsAt p) with
  | some v =>
    obtain ⟨c, hc, hv⟩ := List.exists_of_findSome?_eq_some hfs
    have h := hat c hc (putsAt_path hv)
    -- whatever puts a node at `p` puts the node of the second tree
    cases hx : fa p with
    | none =>
      cases hy : fb p with
      | none => simp [hx, hy, changeAt] at h
      | some y0 =>
        simp only [hx, hy, changeAt, List.mem_singleton] at h
        subst h; simp [putsAt] at hv; subst hv; rfl
    | some x0 =>
      cases hy : fb p with
      | none =>
        simp only [hx, hy, changeAt, List.mem_singleton] at h
        subst h; simp [putsAt] at hv
      | some y0 =>
        simp only [hx, hy, changeAt] at h
        split at h
        · simp at h
          rcases h with rfl | rfl
          · simp [putsAt] at hv
          · simp [putsAt] at hv; subst hv; rfl
        · split at h
          · split at h
            · cases h
            · simp at h; subst h; simp [putsAt] at hv; subst hv; rfl
          · split at h
            · cases h
            · simp at h; subst h; simp [putsAt] at hv; subst hv; rfl
  | none =>
    have hnone := List.findSome?_eq_none_iff.1 hfs
    simp only
    -- nothing is put at `p`: either the node goes away or it stays
    cases hx : fa p with
    | none =>
      cases hy : fb p with
      | none =>
        have : cs.any (deletesAt p) = false := by
          apply List.any_eq_false.2
          intro c hc hd
          have := hat c hc (deletesAt_path hd)
          simp [hx, hy, changeAt] at this
        simp [this]
      | some y0 =>
        exfalso
        have : CChange.add p y0.1 y0.2 ∈ cs := (hmem _).2 ⟨p, by simp [hx, hy, changeAt]⟩
        have := hnone _ this
        simp [putsAt] at this
    | some x0 =>
      cases hy : fb p with
      | none =>
        have : cs.any (deletesAt p) = true := by
          apply List.any_eq_true.2
          exact ⟨.del p x0.1 x0.2, (hmem _).2 ⟨p, by simp [hx, hy, changeAt]⟩, by simp [deletesAt]⟩
        simp [this]
      | some y0 =>
        have hch : changeAt p (some x0) (some y0) = [] := by
          cases hl : changeAt p (some x0) (some y0) with
          | nil => rfl
          | cons c rest =>
            exfalso
            have hc : c ∈ cs := (hmem c).2 ⟨p, by rw [hx, hy, hl]; simp⟩
            have hput := hnone c hc
            have hcin : c ∈ changeAt p (some x0) (some y0) := by rw [hl]; simp
            simp only [changeAt] at hcin
            split at hcin
            · -- kinds differ: the addition would have been found
              have : CChange.add p y0.1 y0.2 ∈ cs := (hmem _).2 ⟨p, by
                rw [hx, hy]; simp only [changeAt]; simp [*]⟩
              have := hnone _ this
              simp [putsAt] at this
            · split at hcin
              · split at hcin
                · cases hcin
                · simp at hcin; subst hcin; simp [putsAt] at hput
              · split at hcin
                · cases hcin
                · simp at hcin; subst hcin; simp [putsAt] at hput
        have hany : cs.any (deletesAt p) = false := by
          apply List.any_eq_false.2
          intro c hc hd
          have := hat c hc (deletesAt_path hd)
          rw [hx, hy, hch] at this; cases this
        simp only [hany, Bool.false_eq_true, if_false]
        -- no change at `p`: the nodes are equal
        simp only [changeAt] at hch
        split at hch
        · cases hch
        · rename_i hk
          have hk' : isDir x0 = isDir y0 := by
            cases h1 : isDir x0 <;> cases h2 : isDir y0 <;> simp_all
          split at hch
          · rename_i hdx
            split at hch
            · rename_i ho
              have hm := hmode p x0 y0 hx hy hdx (hk' ▸ hdx)
              congr 1
              exact Prod.ext hm ho
            · cases hch
          · split at hch
            · rename_i he; rw [he]
            · cases hch

end GixModel.C44
