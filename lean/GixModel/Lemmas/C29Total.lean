import GixModel.Lemmas.C29
/-
C29, round 2: panic-freedom of `WithSidebands` on ARBITRARY streams (any reader state, any band
byte, empty payloads, the handler interrupting, any legal `consume`), by an invariant on the
side-band reader and a fuel argument for the `loop` in `fill_buf`.
-/
namespace GixModel.C29
open GixModel

set_option linter.unusedSimpArgs false

theorem takeExact_some (bs : Bytes) (n : Nat) (v rest : Bytes) (h : takeExact bs n = (some v, rest)) :
    v.length = n ∧ rest.length + n = bs.length := by
  unfold takeExact at h
  split at h
  · simp only [Prod.mk.injEq, Option.some.injEq] at h
    rw [← h.1, ← h.2, List.length_take, List.length_drop]; omega
  · simp at h

theorem hexPrefix_wanted_pos (c : Consts) (hc : ConstsOk c) (four : Bytes) (n : Nat)
    (h : hexPrefix c four = .ok (.wanted n)) : 1 ≤ n := by
  obtain ⟨hu, _⟩ := hc
  unfold hexPrefix at h
  split at h
  · simp at h
  · split at h
    · simp at h
    · split at h
      · simp at h
      · split at h
        · simp at h
        · split at h
          · simp at h
          · rename_i w _
            split at h
            · simp at h
            · split at h
              · simp at h
              · split at h
                · simp at h
                · simp only [Out.ok.injEq, Pfx.wanted.injEq] at h
                  omega

theorem hexPrefix_line_ctl (c : Consts) (four : Bytes) (l : Line)
    (h : hexPrefix c four = .ok (.line l)) : l.asSlice = none := by
  unfold hexPrefix at h
  split at h
  · simp at h
  · split at h
    · simp at h; subst h; rfl
    · split at h
      · simp at h; subst h; rfl
      · split at h
        · simp at h; subst h; rfl
        · split at h
          · simp at h
          · split at h
            · simp at h
            · split at h
              · simp at h
              · split at h <;> simp at h

/-- a data line the decoder hands out is never empty -/
def Line.NonEmptyData : Line → Prop
  | .data d => d ≠ []
  | _ => True

/-- more about a line returned by `read_line_inner`: it fits the buffer, a data line is not empty,
and at least its four header bytes were taken from the stream -/
theorem rliFlat_more (c : Consts) (hc : ConstsOk c) (bs : Bytes) (l : Line)
    (h : (rliFlat c bs c.maxLineLen).1 = .line l) :
    lineLen c l ≤ c.maxLineLen ∧ l.NonEmptyData ∧ (rliFlat c bs c.maxLineLen).2.1.length + 4 ≤ bs.length := by
  have hc' := hc
  obtain ⟨hu, h1, h65, hml, _⟩ := hc
  unfold rliFlat at h ⊢
  rw [if_neg (by omega)] at h ⊢
  rcases hte : takeExact bs 4 with ⟨v, bs1⟩
  rw [hte] at h
  cases v with
  | none => simp at h
  | some four =>
    obtain ⟨h4, hlen1⟩ := takeExact_some bs 4 four bs1 hte
    simp only at h ⊢
    cases hp : hexPrefix c four with
    | panic => rw [hp] at h; simp at h
    | err e => rw [hp] at h; simp at h
    | ok p =>
      rw [hp] at h
      cases p with
      | line l' =>
        simp only [RLI.line.injEq] at h ⊢
        subst h
        have hns := hexPrefix_line_ctl c four l' hp
        refine ⟨by rw [lineLen, hns]; simp only; omega, ?_, by omega⟩
        cases l' with
        | data d => simp [Line.asSlice] at hns
        | _ => trivial
      | wanted n =>
        have hn := hexPrefix_wanted_pos c hc' four n hp
        simp only at h ⊢
        by_cases hbig : n + c.u16HexBytes > c.maxLineLen
        · rw [if_pos hbig] at h; simp at h
        · rw [if_neg hbig, if_neg (by omega)] at h ⊢
          rcases hte2 : takeExact bs1 n with ⟨v2, bs2⟩
          rw [hte2] at h
          cases v2 with
          | none => simp at h
          | some d =>
            obtain ⟨hd, hlen2⟩ := takeExact_some bs1 n d bs2 hte2
            simp only at h ⊢
            rw [toDataLine_ok c d (by omega)] at h ⊢
            simp only [RLI.line.injEq] at h ⊢
            subst h
            refine ⟨by simp [lineLen, Line.asSlice]; omega, ?_, by omega⟩
            show d ≠ []
            intro he; subst he; simp at hd; omega

/-- the buffer holds line `l`, complete, at its front -/
def Holds (c : Consts) (b : Buf) (l : Line) : Prop :=
  allAtOnce c b.front = .ok l ∧ b.front.length = lineLen c l ∧ lineLen c l ≤ b.len ∧ l.NonEmptyData ∧
    lineLen c l ≤ c.maxLineLen

/-- a line buffer is empty or holds a line -/
def Buf.Full (c : Consts) (b : Buf) : Prop := b.len = 0 ∨ ∃ l, Holds c b l

theorem exhaustive_full (c : Consts) (hc : ConstsOk c) (cs : List Bytes) (hne : NonEmptyChunks cs)
    (buf : Buf) (hlen : buf.len = c.maxLineLen) (delims : List Line) (failOnErr bufResize : Bool) :
    let e := readLineInnerExhaustive c cs buf delims failOnErr bufResize
    e.res ≠ .panic ∧ NonEmptyChunks e.src ∧ Buf.Full c e.buf ∧
      ∀ l, e.res = .line l → Holds c e.buf l ∧ srcLen e.src + 4 ≤ srcLen cs := by
  obtain ⟨cs', h1, h1f, hn'⟩ := readLineInner_flat c cs hne buf.len
  obtain ⟨hnp, hline⟩ := rliFlat_ok c hc cs.flatten
  have hmore := rliFlat_more c hc cs.flatten
  rw [← hlen] at hnp hline hmore
  simp only [readLineInnerExhaustive, h1]
  rcases hx : rliFlat c cs.flatten buf.len with ⟨x, rest, front⟩
  rw [hx] at hnp hline hmore h1f
  simp only at hnp hline hmore h1f
  cases x with
  | panic => exact absurd rfl hnp
  | io => exact ⟨by simp, hn', Or.inl rfl, by intro l h; cases h⟩
  | dec e => exact ⟨by simp, hn', Or.inl rfl, by intro l h; cases h⟩
  | line l =>
    obtain ⟨hall, hfl⟩ := hline l rfl
    obtain ⟨hm1, hm2, hm3⟩ := hmore l rfl
    simp only
    split
    · exact ⟨by simp, hn', Or.inl rfl, by intro l h; cases h⟩
    · split
      · exact ⟨by simp, hn', Or.inl rfl, by intro l h; cases h⟩
      · have hmx : lineLen c l ≤ c.maxLineLen := by rw [← hlen]; exact hm1
        have hholds : Holds c (if bufResize = true then
            (Buf.mk front buf.len).resize (lineLen c l) else Buf.mk front buf.len) l := by
          split
          · simp only [Buf.resize, Holds]
            rw [← hfl, List.take_length]
            exact ⟨hall, rfl, Nat.le_refl _, hm2, by rw [hfl]; exact hmx⟩
          · exact ⟨hall, hfl, hm1, hm2, hmx⟩
        have hb2 := hholds.1
        simp only [hb2]
        refine ⟨by simp, hn', Or.inr ⟨l, hholds⟩, ?_⟩
        intro l' hl'
        simp only [Res.line.injEq] at hl'
        subst hl'
        refine ⟨hholds, ?_⟩
        rw [srcLen_eq_flatten, srcLen_eq_flatten, h1f]
        exact hm3

/-- the invariant under which the side-band reader cannot panic -/
def Reader.Inv2 (c : Consts) (r : Reader) : Prop := NonEmptyChunks r.src ∧ Buf.Full c r.peekBuf

/-- what is left to read: the stream, plus one for a peeked line -/
def Reader.measure (r : Reader) : Nat := srcLen r.src + (if r.peekBuf.len ≠ 0 then 1 else 0)

theorem Reader.new_inv2 (c : Consts) (cs : List Bytes) (hne : NonEmptyChunks cs) (delims : List Line)
    (f : Bool) : (Reader.new c cs delims f).Inv2 c := ⟨hne, Or.inl rfl⟩

theorem readLine_full (c : Consts) (hc : ConstsOk c) (r : Reader) (h : r.Inv2 c) :
    (readLine c r).1 ≠ .panic ∧ (readLine c r).2.Inv2 c ∧
      ∀ l, (readLine c r).1 = .line l →
        Holds c (readLine c r).2.buf l ∧ (readLine c r).2.measure + 1 ≤ r.measure := by
  obtain ⟨hne, hpk⟩ := h
  unfold readLine
  by_cases h1 : r.isDone
  · rw [if_pos h1]; exact ⟨by simp, ⟨hne, hpk⟩, by intro l h; cases h⟩
  · rw [if_neg h1]
    by_cases h2 : r.peekBuf.len ≠ 0
    · rw [if_pos h2]
      rcases hpk with h0 | ⟨l, hl⟩
      · exact absurd h0 h2
      · simp only [hl.1]
        refine ⟨by simp, ⟨hne, Or.inl rfl⟩, ?_⟩
        intro l' hl'
        simp only [Res.line.injEq] at hl'
        subst hl'
        refine ⟨hl, ?_⟩
        simp only [Reader.measure, Buf.clear]
        rw [if_pos h2]
        simp
    · rw [if_neg h2]
      have hlen : (if r.buf.len ≠ c.maxLineLen then r.buf.resize c.maxLineLen else r.buf).len = c.maxLineLen := by
        split
        · rfl
        · rename_i h; simpa using h
      generalize (if r.buf.len ≠ c.maxLineLen then r.buf.resize c.maxLineLen else r.buf) = buf0 at hlen
      obtain ⟨a, b, _, d⟩ := exhaustive_full c hc r.src hne buf0 hlen r.delims r.failOnErr false
      refine ⟨a, ⟨b, hpk⟩, ?_⟩
      intro l hl
      obtain ⟨d1, d2⟩ := d l hl
      refine ⟨d1, ?_⟩
      have h20 : r.peekBuf.len = 0 := by omega
      simp only [Reader.measure, h20]
      omega

theorem peekLine_full (c : Consts) (hc : ConstsOk c) (r : Reader) (h : r.Inv2 c) :
    (peekLine c r).1 ≠ .panic ∧ (peekLine c r).2.Inv2 c := by
  obtain ⟨hne, hpk⟩ := h
  unfold peekLine
  by_cases h1 : r.isDone
  · rw [if_pos h1]; exact ⟨by simp, hne, hpk⟩
  · rw [if_neg h1]
    by_cases h2 : r.peekBuf.len = 0
    · rw [if_pos h2]
      obtain ⟨a, b, d, _⟩ := exhaustive_full c hc r.src hne (r.peekBuf.resize c.maxLineLen) rfl r.delims r.failOnErr true
      exact ⟨a, b, d⟩
    · rw [if_neg h2]
      rcases hpk with h0 | ⟨l, hl⟩
      · exact absurd h0 h2
      · simp only [hl.1]
        exact ⟨by simp, hne, Or.inr ⟨l, hl⟩⟩

theorem readAll_inv2 (c : Consts) (hc : ConstsOk c) (fuel : Nat) (r : Reader) (h : r.Inv2 c) :
    (readAll c fuel r).2.Inv2 c := by
  induction fuel generalizing r with
  | zero => exact h
  | succ n ih =>
    unfold readAll
    simp only
    split
    · exact (readLine_full c hc r h).2.1
    · exact ih _ (readLine_full c hc r h).2.1

theorem callStep_inv2 (c : Consts) (hc : ConstsOk c) (k : Call) (r : Reader) (h : r.Inv2 c) :
    (callStep c k r).2.Inv2 c := by
  cases k with
  | read => exact (readLine_full c hc r h).2.1
  | peek => exact (peekLine_full c hc r h).2
  | all => exact readAll_inv2 c hc _ r h

/-- whatever was done with the packet-line reader before, it is in a state the side-band reader
can take over -/
theorem runCalls_inv2 (c : Consts) (hc : ConstsOk c) (calls : List Call) (r : Reader) (h : r.Inv2 c) :
    (runCalls c calls r).2.Inv2 c := by
  induction calls generalizing r with
  | nil => exact h
  | cons k ks ih =>
    unfold runCalls
    simp only
    split
    · exact callStep_inv2 c hc k r h
    · exact ih _ (callStep_inv2 c hc k r h)

/-! ### `fill_buf`, `consume`, `read` on arbitrary streams -/

theorem lineLen_data (c : Consts) (d : Bytes) : lineLen c (.data d) = d.length + c.u16HexBytes := rfl

/-- the `loop` of `fill_buf` terminates within its fuel and never panics; the window it announces
lies inside the line the reader just put into its buffer -/
theorem fillLoop_total (c : Consts) (hc : ConstsOk c) (intr : Option Nat) (fuel : Nat) :
    ∀ (r : Reader) (handler : Bool) (log : List (Bool × Bytes)), r.Inv2 c → fuel ≥ r.measure + 1 →
      (fillLoop c intr fuel r handler log).1 ≠ .panic ∧ (fillLoop c intr fuel r handler log).2.1.Inv2 c ∧
      ∀ ofs cap, (fillLoop c intr fuel r handler log).1 = .ok ofs cap →
        cap + ofs ≤ (fillLoop c intr fuel r handler log).2.1.buf.len ∧
        cap + ofs ≤ (fillLoop c intr fuel r handler log).2.1.buf.front.length ∧
        cap + ofs ≤ c.maxLineLen := by
  obtain ⟨hu, _⟩ := hc
  have hc : ConstsOk c := ⟨hu, by assumption⟩
  induction fuel with
  | zero => intro r handler log _ hf; omega
  | succ fuel ih =>
    intro r handler log hinv hf
    obtain ⟨hnp, hinv1, hline⟩ := readLine_full c hc r hinv
    unfold fillLoop
    rcases hrl : readLine c r with ⟨x, r1⟩
    rw [hrl] at hnp hinv1 hline
    simp only at hnp hinv1 hline
    cases x with
    | none => exact ⟨by simp, hinv1, by intro ofs cap h; simp at h; omega⟩
    | io => exact ⟨by simp, hinv1, by intro ofs cap h; simp at h⟩
    | errLine m => exact ⟨by simp, hinv1, by intro ofs cap h; simp at h⟩
    | dec e => exact ⟨by simp, hinv1, by intro ofs cap h; simp at h⟩
    | panic => exact absurd rfl hnp
    | line l =>
      obtain ⟨⟨_, hfl, hbl, hned, hmx⟩, hmeas⟩ := hline l rfl
      simp only
      cases handler with
      | false =>
        simp only [Bool.false_eq_true, if_false]
        cases l with
        | data d =>
          simp only [Line.asSlice]
          refine ⟨by simp, hinv1, ?_⟩
          intro ofs cap h
          simp only [Fill.ok.injEq] at h
          obtain ⟨rfl, rfl⟩ := h
          rw [lineLen_data] at hfl hbl hmx
          omega
        | flush => exact ⟨by simp [Line.asSlice], hinv1, by intro ofs cap h; simp [Line.asSlice] at h⟩
        | delim => exact ⟨by simp [Line.asSlice], hinv1, by intro ofs cap h; simp [Line.asSlice] at h⟩
        | responseEnd => exact ⟨by simp [Line.asSlice], hinv1, by intro ofs cap h; simp [Line.asSlice] at h⟩
      | true =>
        simp only [if_true]
        cases l with
        | flush => exact ⟨by simp [decodeBand, Line.asSlice], hinv1, by intro ofs cap h; simp [decodeBand, Line.asSlice] at h⟩
        | delim => exact ⟨by simp [decodeBand, Line.asSlice], hinv1, by intro ofs cap h; simp [decodeBand, Line.asSlice] at h⟩
        | responseEnd => exact ⟨by simp [decodeBand, Line.asSlice], hinv1, by intro ofs cap h; simp [decodeBand, Line.asSlice] at h⟩
        | data d =>
          cases d with
          | nil => exact absurd rfl hned
          | cons b rest =>
            rw [lineLen_data] at hfl hbl hmx
            simp only [List.length_cons] at hfl hbl hmx
            simp only [decodeBand, Line.asSlice]
            by_cases hb1 : b = 1
            · simp only [hb1, if_true]
              by_cases hemp : rest.isEmpty
              · simp only [hemp, if_true]
                exact ih r1 true log hinv1 (by omega)
              · simp only [hemp, Bool.false_eq_true, if_false]
                refine ⟨by simp, hinv1, ?_⟩
                intro ofs cap h
                simp only [Fill.ok.injEq] at h
                obtain ⟨rfl, rfl⟩ := h
                omega
            · rw [if_neg hb1]
              by_cases hb2 : b = 2
              · simp only [hb2, if_true, show ((2 : Nat) = 1) = False by decide, if_false]
                split
                · exact ⟨by simp, hinv1, by intro ofs cap h; simp at h⟩
                · exact ih r1 true _ hinv1 (by omega)
              · rw [if_neg hb2]
                by_cases hb3 : b = 3
                · simp only [hb3, if_true, show ((3 : Nat) = 1) = False by decide, if_false]
                  split
                  · exact ⟨by simp, hinv1, by intro ofs cap h; simp at h⟩
                  · exact ih r1 true _ hinv1 (by omega)
                · rw [if_neg hb3]
                  exact ⟨by simp, hinv1, by intro ofs cap h; simp at h⟩

/-- the invariant of `WithSidebands`: the parent reader is sound, `pos, cap ≤ MAX_LINE_LEN`, and an
open window `pos < cap` lies inside the line held by the parent's buffer (`read_line_to_string`
leaves `cap = 0 < pos`, which counts as closed) -/
def SB.Ok (c : Consts) (s : SB) : Prop :=
  s.r.Inv2 c ∧ s.pos ≤ c.maxLineLen ∧ s.cap ≤ c.maxLineLen ∧
    (s.pos ≥ s.cap ∨ (s.cap ≤ s.r.buf.len ∧ s.cap ≤ s.r.buf.front.length))

theorem SB.new_ok (c : Consts) (r : Reader) (h : r.Inv2 c) (handler : Bool) (intr : Option Nat) :
    SB.Ok c ⟨r, handler, 0, 0, [], intr⟩ := ⟨h, Nat.zero_le _, Nat.zero_le _, Or.inl (Nat.le_refl _)⟩

theorem fillFuel_ge_measure (r : Reader) : fillFuel r ≥ r.measure + 1 := by
  unfold fillFuel Reader.measure; split <;> omega

theorem fillBuf_total (c : Consts) (hc : ConstsOk c) (s : SB) (h : SB.Ok c s) :
    (fillBuf c s).1 ≠ .panic ∧ SB.Ok c (fillBuf c s).2 ∧
      ∀ bs, (fillBuf c s).1 = .ok bs → bs.length = (fillBuf c s).2.cap - (fillBuf c s).2.pos := by
  obtain ⟨hinv, hpc, hcm, hwin⟩ := h
  unfold fillBuf
  by_cases hge : s.pos ≥ s.cap
  · rw [if_pos hge]
    obtain ⟨a, b, d⟩ := fillLoop_total c hc s.interruptAt (fillFuel s.r) s.r s.handler s.log hinv
      (fillFuel_ge_measure s.r)
    rcases hfl : fillLoop c s.interruptAt (fillFuel s.r) s.r s.handler s.log with ⟨f, r1, log1⟩
    rw [hfl] at a b d
    simp only at a b d
    cases f with
    | panic => exact absurd rfl a
    | err e =>
      simp only
      exact ⟨by simp, ⟨b, hpc, hcm, Or.inl (by simp only; omega)⟩, by intro bs h; simp at h⟩
    | ok ofs cap =>
      obtain ⟨d1, d2, d3⟩ := d ofs cap rfl
      simp only [bufSlice]
      rw [if_pos ⟨by omega, d1, d2⟩]
      refine ⟨by simp, ⟨b, by simp only; omega, d3, Or.inr ⟨d1, d2⟩⟩, ?_⟩
      intro bs hbs
      simp only [FillBuf.ok.injEq] at hbs
      rw [← hbs]
      simp only [List.length_drop, List.length_take]
      omega
  · rw [if_neg hge]
    rcases hwin with h0 | ⟨w1, w2⟩
    · omega
    · simp only [bufSlice]
      rw [if_pos ⟨by omega, w1, w2⟩]
      refine ⟨by simp, ⟨hinv, hpc, hcm, Or.inr ⟨w1, w2⟩⟩, ?_⟩
      intro bs hbs
      simp only [FillBuf.ok.injEq] at hbs
      rw [← hbs]
      simp only [List.length_drop, List.length_take]
      omega

/-- `consume(amt)` for any amount a caller can legally pass (`amt ≤` what `fill_buf` returned) and
far beyond: it only panics when `pos + amt` overflows usize -/
theorem sbConsume_total (c : Consts) (hc : ConstsOk c) (s : SB) (h : SB.Ok c s) (amt : Nat)
    (hamt : amt + c.maxLineLen < 18446744073709551616) :
    ∃ s1, sbConsume s amt = some s1 ∧ SB.Ok c s1 := by
  obtain ⟨hinv, hpc, hcm, hwin⟩ := h
  unfold sbConsume
  rw [if_neg (by omega)]
  refine ⟨_, rfl, hinv, Nat.le_trans (Nat.min_le_right _ _) hcm, hcm, ?_⟩
  rcases hwin with h0 | hw
  · left; simp only; omega
  · right; exact hw

theorem sbRead_total (c : Consts) (hc : ConstsOk c) (s : SB) (h : SB.Ok c s) (n : Nat) :
    (sbRead c s n).1 ≠ .panic ∧ SB.Ok c (sbRead c s n).2 := by
  obtain ⟨a, b, _⟩ := fillBuf_total c hc s h
  unfold sbRead
  rcases hfb : fillBuf c s with ⟨f, s1⟩
  rw [hfb] at a b
  simp only at a b
  cases f with
  | panic => exact absurd rfl a
  | err e => exact ⟨by simp, b⟩
  | ok rem =>
    obtain ⟨hinv, hpc, hcm, hwin⟩ := b
    refine ⟨by simp, hinv, Nat.le_trans (Nat.min_le_right _ _) hcm, hcm, ?_⟩
    rcases hwin with h0 | hw
    · left; simp only; omega
    · right; exact hw

/-- the `BufRead`/`Read` contract on the amounts passed to `consume` -/
def SBCall.Legal (c : Consts) : SBCall → Prop
  | .consume amt => amt + c.maxLineLen < 18446744073709551616
  | .fill => True
  | .read _ => True
  | _ => False     -- the line-wise calls assert `cap == 0`: see `SBCall.LegalAt` / `runSB_total_at`

theorem sbCall_total (c : Consts) (hc : ConstsOk c) (s : SB) (h : SB.Ok c s) (k : SBCall) (hk : k.Legal c) :
    (sbCall c s k).1 ≠ .panic ∧ SB.Ok c (sbCall c s k).2 := by
  cases k with
  | fill =>
    obtain ⟨a, b, _⟩ := fillBuf_total c hc s h
    simp only [sbCall]
    rcases hfb : fillBuf c s with ⟨f, s1⟩
    rw [hfb] at a b
    cases f with
    | panic => exact absurd rfl a
    | err e => exact ⟨by simp, b⟩
    | ok bs => exact ⟨by simp, b⟩
  | consume amt =>
    obtain ⟨s1, e1, e2⟩ := sbConsume_total c hc s h amt hk
    simp only [sbCall, e1]
    exact ⟨by simp, e2⟩
  | read n =>
    obtain ⟨a, b⟩ := sbRead_total c hc s h n
    simp only [sbCall]
    rcases hfb : sbRead c s n with ⟨f, s1⟩
    rw [hfb] at a b
    cases f with
    | panic => exact absurd rfl a
    | err e => exact ⟨by simp, b⟩
    | ok bs => exact ⟨by simp, b⟩

  | peekData => exact absurd hk (by simp [SBCall.Legal])
  | readData => exact absurd hk (by simp [SBCall.Legal])
  | readString => exact absurd hk (by simp [SBCall.Legal])
theorem runSB_total (c : Consts) (hc : ConstsOk c) (calls : List SBCall) (hlegal : ∀ k ∈ calls, k.Legal c)
    (s : SB) (h : SB.Ok c s) :
    (∀ x ∈ (runSB c calls s).1, x ≠ .panic) ∧ SB.Ok c (runSB c calls s).2 := by
  induction calls generalizing s with
  | nil => exact ⟨by simp [runSB], h⟩
  | cons k ks ih =>
    obtain ⟨a, b⟩ := sbCall_total c hc s h k (hlegal k (by simp))
    unfold runSB
    simp only
    rw [if_neg a]
    obtain ⟨a2, b2⟩ := ih (fun x hx => hlegal x (by simp [hx])) _ b
    refine ⟨?_, b2⟩
    intro x hx
    simp only [List.mem_cons] at hx
    rcases hx with hx | hx
    · rw [hx]; exact a
    · exact a2 x hx

end GixModel.C29
