import GixModel.Lemmas.C08Caches
/-
C08 — `StaticLinkedList` evicts the LEAST RECENTLY USED entry. The model (Model/C08.lean, `StaticLRU`) is run
with a ghost clock: every entry carries the time of its last use (its insertion by `put` or its last hit by
`get`). The list surgery is written once, for any entry type (`touchBy`, `applyPut`), shown to be what the
model does to its entries, and applied to the stamped list; so the stamped run is the real run.
-/
namespace GixModel.C08
open GixModel

/-- `touch` for any entry type: the first match is taken out -/
def touchBy {α : Type} (p : α → Bool) : List α → Option (α × List α)
  | [] => none
  | e :: rest =>
    if p e then some (e, rest)
    else match touchBy p rest with
      | none => none
      | some (hit, rest') => some (hit, e :: rest')

theorem touch_eq_touchBy (key : Nat) : ∀ es : List SEntry, touch key es = touchBy (fun e => decide (e.key = key)) es := by
  intro es
  induction es with
  | nil => rfl
  | cons e es ih =>
    simp only [touch, touchBy, ih, decide_eq_true_eq]
    by_cases h : e.key = key
    · simp [h]
    · simp only [h, if_false]
      cases touchBy (fun e => decide (e.key = key)) es <;> rfl

theorem touchBy_map {α β : Type} (f : α → β) (p : β → Bool) : ∀ es : List α,
    touchBy p (es.map f) = (touchBy (fun a => p (f a)) es).map (fun hr => (f hr.1, hr.2.map f)) := by
  intro es
  induction es with
  | nil => rfl
  | cons e es ih =>
    simp only [List.map_cons, touchBy, ih]
    by_cases h : p (f e) = true
    · simp [h]
    · simp only [h, Bool.false_eq_true, if_false]
      cases touchBy (fun a => p (f a)) es <;> simp

/-- the hit is the first match; the others keep their order -/
theorem touchBy_spec {α : Type} (p : α → Bool) : ∀ (es : List α) (hit : α) (rest : List α),
    touchBy p es = some (hit, rest) →
    ∃ pre post, es = pre ++ hit :: post ∧ rest = pre ++ post ∧ p hit = true ∧ ∀ e ∈ pre, p e = false := by
  intro es
  induction es with
  | nil => intro hit rest h; simp [touchBy] at h
  | cons e es ih =>
    intro hit rest h
    simp only [touchBy] at h
    by_cases hp : p e = true
    · simp only [hp, if_true, Option.some.injEq, Prod.mk.injEq] at h
      obtain ⟨h1, h2⟩ := h
      subst h1; subst h2
      exact ⟨[], es, rfl, rfl, hp, by simp⟩
    · simp only [hp, Bool.false_eq_true, if_false] at h
      cases ht : touchBy p es with
      | none => simp [ht] at h
      | some q =>
        obtain ⟨hit', rest'⟩ := q
        simp only [ht, Option.some.injEq, Prod.mk.injEq] at h
        obtain ⟨h1, h2⟩ := h
        subst h1; subst h2
        obtain ⟨pre, post, e1, e2, e3, e4⟩ := ih hit' rest' ht
        refine ⟨e :: pre, post, by rw [e1]; rfl, by rw [e2]; rfl, e3, ?_⟩
        intro x hx
        simp only [List.mem_cons] at hx
        rcases hx with hx | hx
        · subst hx; simpa using hp
        · exact e4 x hx

/-- what a `put` does to the list: nothing (`SIZE == 0`, or the object is larger than the memory limit), or it
stores the new entry in front — after dropping EVERYTHING when even the recycled vector does not make room
(`clear = true`), and after dropping the LAST entry when the list is full -/
inductive PutKind
  | noop
  | store (clear : Bool)
  deriving DecidableEq

def StaticLRU.putKind (s : StaticLRU) (v : Val) : PutKind :=
  if s.size = 0 then .noop
  else if v.data.length > s.memLimit then .noop
  else .store (decide (v.data.length > s.memLimit - s.memUsed ∧ v.data.length > s.memLimit - s.memUsed + s.lastEvicted.1))

def applyPut {α : Type} (size : Nat) (kind : PutKind) (e : α) (es : List α) : List α :=
  match kind with
  | .noop => es
  | .store clear =>
    e :: (if (if clear then [] else es).length ≥ size then (if clear then [] else es).dropLast else (if clear then [] else es))

theorem applyPut_map {α β : Type} (f : α → β) (size : Nat) (kind : PutKind) (e : α) (es : List α) :
    (applyPut size kind e es).map f = applyPut size kind (f e) (es.map f) := by
  cases kind with
  | noop => rfl
  | store clear =>
    cases clear <;> simp only [applyPut, List.map_cons, Bool.false_eq_true, if_false, if_true, List.length_map]
    · split <;> simp [List.map_dropLast]
    · split <;> simp

/-- the model's `put` does `applyPut` to its entries -/
theorem StaticLRU.put_entries (s s' : StaticLRU) (k : Nat) (v : Val) (h : s.put k v = some s') :
    s'.size = s.size ∧
    ∃ cap, s'.entries = applyPut s.size (s.putKind v) { key := k, val := v, cap := cap } s.entries := by
  unfold StaticLRU.put at h
  by_cases h0 : s.size = 0
  · simp only [h0, if_true, Option.some.injEq] at h
    subst h
    exact ⟨rfl, 0, by simp [StaticLRU.putKind, h0, applyPut]⟩
  · simp only [h0, if_false] at h
    by_cases hbig : v.data.length > s.memLimit
    · simp only [hbig, if_true, Option.some.injEq] at h
      subst h
      exact ⟨rfl, 0, by simp [StaticLRU.putKind, h0, hbig, applyPut]⟩
    · simp only [hbig, if_false] at h
      simp only [StaticLRU.putKind, h0, hbig, if_false]
      unfold StaticLRU.putWith at h
      by_cases h1 : v.data.length > s.memLimit - s.memUsed
      · by_cases h2 : v.data.length > s.memLimit - s.memUsed + s.lastEvicted.1
        · simp only [h1, h2, if_true, csub] at h
          simp only [Nat.le_refl, if_true, List.length_nil, ge_iff_le, Nat.le_zero, h0, if_false, Option.some.injEq] at h
          subst h
          refine ⟨rfl, vecGrow 0 v.data.length, ?_⟩
          simp [applyPut, h1, h2]
        · simp only [h1, h2, if_true, if_false] at h
          cases hc : csub s.memUsed s.lastEvicted.1 with
          | none => simp [hc] at h
          | some m =>
            simp only [hc, Option.map_some] at h
            split at h
            · simp at h
            · split at h
              · split at h
                · simp at h
                · have := Option.some.inj h
                  subst this
                  refine ⟨rfl, vecGrow 0 v.data.length, ?_⟩
                  simp only [applyPut, h1, h2, and_false, decide_false, Bool.false_eq_true, if_false]
                  rw [if_pos (by assumption)]
              · have := Option.some.inj h
                subst this
                refine ⟨rfl, vecGrow 0 v.data.length, ?_⟩
                simp only [applyPut, h1, h2, and_false, decide_false, Bool.false_eq_true, if_false]
                rw [if_neg (by assumption)]
      · simp only [h1, if_false] at h
        split at h
        · simp at h
        · split at h
          · split at h
            · simp at h
            · have := Option.some.inj h
              subst this
              refine ⟨rfl, vecGrow s.lastEvicted.2 v.data.length, ?_⟩
              simp only [applyPut, h1, false_and, decide_false, Bool.false_eq_true, if_false]
              rw [if_pos (by assumption)]
          · have := Option.some.inj h
            subst this
            refine ⟨rfl, vecGrow s.lastEvicted.2 v.data.length, ?_⟩
            simp only [applyPut, h1, false_and, decide_false, Bool.false_eq_true, if_false]
            rw [if_neg (by assumption)]

/-! ## the run with a ghost clock -/

/-- the cache state, its entries stamped with the time of their last use, and the clock -/
structure Ghost where
  s : StaticLRU
  tes : List (SEntry × Nat)
  clock : Nat

def Ghost.new (size memLimit : Nat) : Ghost := { s := StaticLRU.new size memLimit, tes := [], clock := 0 }

/-- `get`: the real `get` on the state; a hit is stamped with the current time -/
def Ghost.get (g : Ghost) (key : Nat) : Ghost :=
  { s := (g.s.get key).2,
    tes := match touchBy (fun p => decide (p.1.key = key)) g.tes with
      | none => g.tes
      | some (hit, rest) => (hit.1, g.clock) :: rest,
    clock := g.clock + 1 }

/-- `put`: the real `put` on the state; the stored entry is stamped with the current time -/
def Ghost.put (g : Ghost) (key : Nat) (v : Val) : Option Ghost :=
  match g.s.put key v with
  | none => none
  | some s' =>
    some { s := s',
           tes := applyPut g.s.size (g.s.putKind v) (s'.entries.head?.getD { key := key, val := v, cap := 0 }, g.clock) g.tes,
           clock := g.clock + 1 }

def Ghost.step (g : Ghost) (op : Nat × Option Val) : Option Ghost :=
  match op.2 with
  | some v => g.put op.1 v
  | none => some (g.get op.1)

def Ghost.run (g : Ghost) : List (Nat × Option Val) → Option Ghost
  | [] => some g
  | op :: ops => match g.step op with
    | none => none
    | some g' => g'.run ops

/-- the real step of the model on an operation (`some v` = put, `none` = get) -/
def StaticLRU.step (s : StaticLRU) (op : Nat × Option Val) : Option StaticLRU :=
  match op.2 with
  | some v => s.put op.1 v
  | none => some (s.get op.1).2

/-- the stamped list is the real list; stamps decrease from front to back and are below the clock -/
def Ghost.Inv (g : Ghost) : Prop :=
  g.tes.map Prod.fst = g.s.entries ∧ g.tes.Pairwise (fun a b => b.2 < a.2) ∧ ∀ x ∈ g.tes, x.2 < g.clock

theorem Ghost.new_inv (size memLimit : Nat) : (Ghost.new size memLimit).Inv := by
  simp [Ghost.Inv, Ghost.new, StaticLRU.new]

theorem Ghost.get_inv (g : Ghost) (key : Nat) (h : g.Inv) : (g.get key).Inv := by
  obtain ⟨h1, h2, h3⟩ := h
  have hreal : touch key g.s.entries =
      (touchBy (fun p : SEntry × Nat => decide (p.1.key = key)) g.tes).map (fun hr => (hr.1.1, hr.2.map Prod.fst)) := by
    rw [← h1, touch_eq_touchBy, touchBy_map]
  cases ht : touchBy (fun p : SEntry × Nat => decide (p.1.key = key)) g.tes with
  | none =>
    rw [ht] at hreal
    refine ⟨?_, ?_, ?_⟩
    · simp only [Ghost.get, StaticLRU.get, ht, hreal, Option.map_none]; exact h1
    · simp only [Ghost.get, ht]; exact h2
    · simp only [Ghost.get, ht]; intro x hx; have := h3 x hx; omega
  | some q =>
    obtain ⟨hit, rest⟩ := q
    rw [ht] at hreal
    obtain ⟨pre, post, e1, e2, _, _⟩ := touchBy_spec _ _ _ _ ht
    have hsub : List.Sublist rest g.tes := by
      rw [e1, e2]
      exact List.Sublist.append (List.Sublist.refl _) (List.sublist_cons_self _ _)
    refine ⟨?_, ?_, ?_⟩
    · simp only [Ghost.get, StaticLRU.get, ht, hreal, Option.map_some, List.map_cons]
    · simp only [Ghost.get, ht, List.pairwise_cons]
      exact ⟨fun x hx => h3 x (hsub.subset hx), h2.sublist hsub⟩
    · simp only [Ghost.get, ht, List.mem_cons]
      intro x hx
      rcases hx with hx | hx
      · subst hx; simp
      · have := h3 x (hsub.subset hx); omega

theorem applyPut_sub {α : Type} (size : Nat) (clear : Bool) (e : α) (es : List α) :
    ∃ kept, applyPut size (.store clear) e es = e :: kept ∧ List.Sublist kept es := by
  refine ⟨_, rfl, ?_⟩
  cases clear <;> simp only [Bool.false_eq_true, if_false, if_true]
  · split
    · exact List.dropLast_sublist _
    · exact List.Sublist.refl _
  · split <;> simp

theorem Ghost.put_inv (g g' : Ghost) (key : Nat) (v : Val) (h : g.Inv) (hp : g.put key v = some g') : g'.Inv := by
  obtain ⟨h1, h2, h3⟩ := h
  simp only [Ghost.put] at hp
  cases hs : g.s.put key v with
  | none => simp [hs] at hp
  | some s' =>
    simp only [hs, Option.some.injEq] at hp
    subst hp
    obtain ⟨_, cap, hent⟩ := StaticLRU.put_entries g.s s' key v hs
    refine ⟨?_, ?_, ?_⟩
    · dsimp only
      rw [applyPut_map, h1, hent]
      cases hk : g.s.putKind v with
      | noop => rfl
      | store clear => simp [applyPut]
    · dsimp only
      cases hk : g.s.putKind v with
      | noop => exact h2
      | store clear =>
        obtain ⟨kept, e1, e2⟩ := applyPut_sub g.s.size clear
          (s'.entries.head?.getD { key := key, val := v, cap := 0 }, g.clock) g.tes
        rw [e1, List.pairwise_cons]
        exact ⟨fun x hx => h3 x (e2.subset hx), h2.sublist e2⟩
    · dsimp only
      cases hk : g.s.putKind v with
      | noop => intro x hx; have := h3 x hx; omega
      | store clear =>
        obtain ⟨kept, e1, e2⟩ := applyPut_sub g.s.size clear
          (s'.entries.head?.getD { key := key, val := v, cap := 0 }, g.clock) g.tes
        rw [e1]
        intro x hx
        simp only [List.mem_cons] at hx
        rcases hx with hx | hx
        · subst hx; simp
        · have := h3 x (e2.subset hx); omega

theorem Ghost.run_inv : ∀ (ops : List (Nat × Option Val)) (g g' : Ghost), g.Inv → g.run ops = some g' →
    g'.Inv ∧ ops.foldl (fun (acc : Option StaticLRU) op => acc.bind fun s => s.step op) (some g.s) = some g'.s := by
  intro ops
  induction ops with
  | nil =>
    intro g g' h hr
    simp only [Ghost.run, Option.some.injEq] at hr
    subst hr
    exact ⟨h, rfl⟩
  | cons op ops ih =>
    intro g g' h hr
    simp only [Ghost.run] at hr
    cases hst : g.step op with
    | none => simp [hst] at hr
    | some g1 =>
      simp only [hst] at hr
      have hinv1 : g1.Inv ∧ g.s.step op = some g1.s := by
        simp only [Ghost.step] at hst
        simp only [StaticLRU.step]
        cases hop : op.2 with
        | none =>
          simp only [hop, Option.some.injEq] at hst
          subst hst
          exact ⟨Ghost.get_inv g op.1 h, rfl⟩
        | some v =>
          simp only [hop] at hst
          refine ⟨Ghost.put_inv g g1 op.1 v h hst, ?_⟩
          simp only [Ghost.put] at hst
          cases hs : g.s.put op.1 v with
          | none => simp [hs] at hst
          | some s' =>
            simp only [hs, Option.some.injEq] at hst
            subst hst
            exact hs
      obtain ⟨r1, r2⟩ := ih g1 g' hinv1.1 hr
      refine ⟨r1, ?_⟩
      simp only [List.foldl_cons, Option.bind_some, hinv1.2]
      exact r2

/-- THE EVICTED ENTRY IS THE LEAST RECENTLY USED ONE: an entry that a `put` removes is — unless the `put` had to
empty the whole cache to make room — the last of the list, and no entry of the cache was used earlier -/
theorem Ghost.put_evicts_lru (g g' : Ghost) (key : Nat) (v : Val) (h : g.Inv) (hp : g.put key v = some g')
    (x : SEntry × Nat) (hx : x ∈ g.tes) (hgone : x ∉ g'.tes) :
    g.s.putKind v = .store true ∨
    (g.s.size ≤ g.tes.length ∧ g.tes.getLast? = some x ∧ ∀ y ∈ g.tes, x.2 ≤ y.2) := by
  obtain ⟨h1, h2, h3⟩ := h
  simp only [Ghost.put] at hp
  cases hs : g.s.put key v with
  | none => simp [hs] at hp
  | some s' =>
    simp only [hs, Option.some.injEq] at hp
    subst hp
    dsimp only at hgone
    cases hk : g.s.putKind v with
    | noop => rw [hk] at hgone; exact absurd hx hgone
    | store clear =>
      cases clear with
      | true => left; rfl
      | false =>
        right
        rw [hk] at hgone
        simp only [applyPut, Bool.false_eq_true, if_false, List.mem_cons, not_or] at hgone
        by_cases hfull : g.tes.length ≥ g.s.size
        · rw [if_pos hfull] at hgone
          have hne : g.tes ≠ [] := by intro h0; rw [h0] at hx; simp at hx
          have hsplit := List.dropLast_concat_getLast hne
          have hlast : x = g.tes.getLast hne := by
            rw [← hsplit] at hx
            simp only [List.mem_append, List.mem_singleton] at hx
            rcases hx with hx | hx
            · exact absurd hx hgone.2
            · exact hx
          refine ⟨hfull, by rw [List.getLast?_eq_some_getLast hne, hlast], ?_⟩
          intro y hy
          rw [← hsplit] at hy h2
          simp only [List.mem_append, List.mem_singleton] at hy
          rcases hy with hy | hy
          · have := (List.pairwise_append.mp h2).2.2 y hy (g.tes.getLast hne) (by simp)
            rw [hlast]; omega
          · rw [hy, hlast]; exact Nat.le_refl _
        · rw [if_neg hfull] at hgone
          exact absurd hx hgone.2

/-- the stamped run never fails (the real `put` never panics from states reached from `new`) -/
theorem Ghost.run_total : ∀ (ops : List (Nat × Option Val)) (g : Ghost), g.s.Acct → ∃ g', g.run ops = some g' := by
  intro ops
  induction ops with
  | nil => intro g _; exact ⟨g, rfl⟩
  | cons op rest ih =>
    intro g hs
    have hinv : staticContract.Inv (fun _ _ => True) g.s := ⟨fun _ _ => trivial, hs⟩
    cases hv : op.2 with
    | some v =>
      obtain ⟨s1, h1, h2⟩ := staticContract.put_ok (k := op.1) (v := v) hinv trivial
      have h1' : g.s.put op.1 v = some s1 := h1
      obtain ⟨g', h3⟩ := ih { s := s1, tes := (applyPut g.s.size (g.s.putKind v)
        (s1.entries.head?.getD { key := op.1, val := v, cap := 0 }, g.clock) g.tes), clock := g.clock + 1 } h2.2
      exact ⟨g', by simp only [Ghost.run, Ghost.step, hv, Ghost.put, h1']; exact h3⟩
    | none =>
      have h2 := staticContract.get_inv (Q := fun _ _ => True) op.1 hinv
      obtain ⟨g', h3⟩ := ih (g.get op.1) h2.2
      exact ⟨g', by simp only [Ghost.run, Ghost.step, hv]; exact h3⟩

end GixModel.C08
