import GixModel.Lemmas.C44b
/-
C44 helper lemmas, part c: the whole walk. The FIFO queue processed layer by layer reports exactly
the changes `Spec.changeAt` prescribes for every path of the two trees.
-/
namespace GixModel.C44
open GixModel GixModel.Tree
open GixModel.C04 (Assoc aget TreeOk findName ValidName findName_eq_some_iff findName_eq_none_iff)
open GixModel.Spec.C44 (CChange Node changeAt isDir)

/-- the node (file, symlink, submodule or directory entry) a tree holds at a path -/
def nodeIn (S : Assoc Bytes (List Entry)) : List Entry → Path → Option Node
  | _, [] => none
  | t, [n] => (findName t n).map nodeOf
  | t, n :: m :: rest =>
    match findName t n with
    | some e =>
      if e.isTree then
        match aget e.oid S with
        | some t' => nodeIn S t' (m :: rest)
        | none => none
      else none
    | none => none

theorem nodeIn_nil (S : Assoc Bytes (List Entry)) (p : Path) : nodeIn S [] p = none := by
  cases p with
  | nil => rfl
  | cons n rest => cases rest <;> simp [nodeIn, findName]

/-- canonical down to depth `d` (so that `d` layers suffice to walk it) -/
def CanonN (S : Assoc Bytes (List Entry)) : Nat → List Entry → Prop
  | 0, _ => False
  | d + 1, t => TreeOk t ∧ ∀ e ∈ t, e.isTree = true → ∃ t', aget e.oid S = some t' ∧ CanonN S d t'

theorem CanonN.treeOk {S : Assoc Bytes (List Entry)} {d : Nat} {t : List Entry} (h : CanonN S d t) :
    TreeOk t := by
  cases d with
  | zero => exact absurd h id
  | succ d => exact h.1

theorem CanonN.mono {S : Assoc Bytes (List Entry)} : ∀ {d d' : Nat} {t : List Entry}, d ≤ d' →
    CanonN S d t → CanonN S d' t := by
  intro d
  induction d with
  | zero => intro d' t _ h; exact absurd h id
  | succ d ih =>
    intro d' t hle h
    cases d' with
    | zero => omega
    | succ d' =>
      refine ⟨h.1, ?_⟩
      intro e he hd
      obtain ⟨t', h1, h2⟩ := h.2 e he hd
      exact ⟨t', h1, ih (by omega) h2⟩

theorem canonN_nil (S : Assoc Bytes (List Entry)) (d : Nat) : CanonN S (d + 1) [] :=
  ⟨C04.treeOk_nil, by simp⟩

/-- every canonical tree is canonical down to some depth -/
theorem canon_canonN {S : Assoc Bytes (List Entry)} {t : List Entry} (h : C04.Canon S t) :
    ∃ d, CanonN S d t := by
  induction h with
  | mk t hok _ hcl _ ih =>
    -- a common depth for all children: induction over the entries
    have : ∀ (es : List Entry), (∀ e ∈ es, e ∈ t) →
        ∃ d, ∀ e ∈ es, e.isTree = true → ∃ t', aget e.oid S = some t' ∧ CanonN S d t' := by
      intro es
      induction es with
      | nil => intro _; exact ⟨0, by simp⟩
      | cons e es ihes =>
        intro hsub
        obtain ⟨d1, h1⟩ := ihes (fun x hx => hsub x (List.mem_cons_of_mem _ hx))
        by_cases hd : e.isTree = true
        · have hsome := hcl e (hsub e (by simp)) hd
          cases hs : aget e.oid S with
          | none => simp [hs] at hsome
          | some t' =>
            obtain ⟨d2, h2⟩ := ih e (hsub e (by simp)) hd t' hs
            refine ⟨max d1 d2, ?_⟩
            intro x hx hxd
            rcases List.mem_cons.1 hx with rfl | hx'
            · exact ⟨t', hs, CanonN.mono (Nat.le_max_right _ _) h2⟩
            · obtain ⟨tx, hx1, hx2⟩ := h1 x hx' hxd
              exact ⟨tx, hx1, CanonN.mono (Nat.le_max_left _ _) hx2⟩
        · refine ⟨d1, ?_⟩
          intro x hx hxd
          rcases List.mem_cons.1 hx with rfl | hx'
          · exact absurd hxd hd
          · exact h1 x hx' hxd
    obtain ⟨d, hd⟩ := this t (fun _ h => h)
    exact ⟨d + 1, hok, hd⟩

/-- what the walk owes for one queued pair of trees: the changes at every path below `dir` -/
def SpecItem (S : Assoc Bytes (List Entry)) (dir : Path) (tl tr : List Entry) (c : CChange) : Prop :=
  ∃ p, p ≠ [] ∧ c ∈ changeAt (dir ++ p) (nodeIn S tl p) (nodeIn S tr p)

def levelRecs (dir : Path) (tl tr : List Entry) : List CChange :=
  mergeG (delChange dir) (addChange dir) (eqChange dir) (tl.length + tr.length + 1) tl tr

def levelItems (dir : Path) (tl tr : List Entry) : List (Path × Option Bytes × Option Bytes) :=
  mergeG (delItem dir) (addItem dir) (eqItem dir) (tl.length + tr.length + 1) tl tr

/-- load by the core of a queue item -/
def loadCore (S : Assoc Bytes (List Entry)) (i : Path × Option Bytes × Option Bytes) :
    Option (List Entry × List Entry) :=
  loadItem S ⟨i.1, i.2.1, i.2.2, .none⟩

theorem loadItem_core (S : Assoc Bytes (List Entry)) (it : QItem) :
    loadItem S it = loadCore S (itemCore it) := by
  simp [loadItem, loadCore, itemCore]

/-- below the name `n`: both sides, as the queued item presents them -/
theorem nodeIn_cons (S : Assoc Bytes (List Entry)) (t : List Entry) (n : Bytes) (q : Path) (hq : q ≠ []) :
    nodeIn S t (n :: q) =
      match findName t n with
      | some e => if e.isTree then (match aget e.oid S with | some t' => nodeIn S t' q | none => none) else none
      | none => none := by
  cases q with
  | nil => exact absurd rfl hq
  | cons m rest => rfl

/-- One level and its children cover everything below a directory: the recursive equation of the
specification. -/
theorem specItem_unfold {S : Assoc Bytes (List Entry)} {d : Nat} (dir : Path) {tl tr : List Entry}
    (hl : CanonN S (d + 1) tl) (hr : CanonN S (d + 1) tr) (c : CChange) :
    SpecItem S dir tl tr c ↔
      (c ∈ levelRecs dir tl tr ∨
       ∃ i ∈ levelItems dir tl tr, ∃ tl' tr', loadCore S i = some (tl', tr') ∧ SpecItem S i.1 tl' tr' c) := by
  have hfl : tl.length + tr.length ≤ tl.length + tr.length + 1 := Nat.le_succ _
  constructor
  · rintro ⟨p, hp, hc⟩
    cases p with
    | nil => exact absurd rfl hp
    | cons n q =>
      cases q with
      | nil =>
        left
        exact (level_recs_iff dir hl.1 hr.1 _ hfl c).2 ⟨n, hc⟩
      | cons m rest =>
        right
        rw [nodeIn_cons S tl n _ (by simp), nodeIn_cons S tr n _ (by simp)] at hc
        -- which item the name `n` queues
        have hitem := fun i => (level_items_iff dir hl.1 hr.1 _ hfl i)
        cases hfl' : findName tl n with
        | none =>
          cases hfr : findName tr n with
          | none => simp [hfl', hfr, changeAt] at hc
          | some b =>
            have hb := ((findName_eq_some_iff hr.1.uniq).1 hfr).1
            by_cases hbd : b.isTree = true
            · obtain ⟨tb, hsb, _⟩ := hr.2 b hb hbd
              refine ⟨(dir ++ [n], none, some b.oid), (hitem _).2 ⟨n, by simp [hfl', hfr, itemAt, hbd]⟩,
                [], tb, by simp [loadCore, loadItem, hsb], m :: rest, by simp, ?_⟩
              simpa [hfl', hfr, hbd, hsb, nodeIn_nil, List.append_assoc] using hc
            · simp [hfl', hfr, hbd, changeAt] at hc
        | some a =>
          have ha := ((findName_eq_some_iff hl.1.uniq).1 hfl').1
          cases hfr : findName tr n with
          | none =>
            by_cases had : a.isTree = true
            · obtain ⟨ta, hsa, _⟩ := hl.2 a ha had
              refine ⟨(dir ++ [n], some a.oid, none), (hitem _).2 ⟨n, by simp [hfl', hfr, itemAt, had]⟩,
                ta, [], by simp [loadCore, loadItem, hsa], m :: rest, by simp, ?_⟩
              simpa [hfl', hfr, had, hsa, nodeIn_nil, List.append_assoc] using hc
            · simp [hfl', hfr, had, changeAt] at hc
          | some b =>
            have hb := ((findName_eq_some_iff hr.1.uniq).1 hfr).1
            by_cases had : a.isTree = true
            · obtain ⟨ta, hsa, _⟩ := hl.2 a ha had
              by_cases hbd : b.isTree = true
              · obtain ⟨tb, hsb, _⟩ := hr.2 b hb hbd
                refine ⟨(dir ++ [n], some a.oid, some b.oid),
                  (hitem _).2 ⟨n, by simp [hfl', hfr, itemAt, had, hbd]⟩,
                  ta, tb, by simp [loadCore, loadItem, hsa, hsb], m :: rest, by simp, ?_⟩
                simpa [hfl', hfr, had, hbd, hsa, hsb, List.append_assoc] using hc
              · refine ⟨(dir ++ [n], some a.oid, none),
                  (hitem _).2 ⟨n, by simp [hfl', hfr, itemAt, had, hbd]⟩,
                  ta, [], by simp [loadCore, loadItem, hsa], m :: rest, by simp, ?_⟩
                simpa [hfl', hfr, had, hbd, hsa, nodeIn_nil, List.append_assoc] using hc
            · by_cases hbd : b.isTree = true
              · obtain ⟨tb, hsb, _⟩ := hr.2 b hb hbd
                refine ⟨(dir ++ [n], none, some b.oid),
                  (hitem _).2 ⟨n, by simp [hfl', hfr, itemAt, had, hbd]⟩,
                  [], tb, by simp [loadCore, loadItem, hsb], m :: rest, by simp, ?_⟩
                simpa [hfl', hfr, had, hbd, hsb, nodeIn_nil, List.append_assoc] using hc
              · simp [hfl', hfr, had, hbd, changeAt] at hc
  · rintro (h | ⟨i, hi, tl', tr', hload, p, hp, hc⟩)
    · obtain ⟨n, hn⟩ := (level_recs_iff dir hl.1 hr.1 _ hfl c).1 h
      exact ⟨[n], by simp, hn⟩
    · obtain ⟨n, hn⟩ := (level_items_iff dir hl.1 hr.1 _ hfl i).1 hi
      refine ⟨n :: p, by simp, ?_⟩
      rw [nodeIn_cons S tl n p hp, nodeIn_cons S tr n p hp]
      cases hfl' : findName tl n with
      | none =>
        cases hfr : findName tr n with
        | none => simp [hfl', hfr, itemAt] at hn
        | some b =>
          by_cases hbd : b.isTree = true
          · simp only [hfl', hfr, itemAt, hbd, if_true, List.mem_singleton] at hn
            subst hn
            cases hsb : aget b.oid S with
            | none => simp [loadCore, loadItem, hsb] at hload
            | some tb =>
              simp only [loadCore, loadItem, hsb, Option.map_some, Option.some.injEq, Prod.mk.injEq] at hload
              obtain ⟨rfl, rfl⟩ := hload
              simpa [hbd, hsb, nodeIn_nil, List.append_assoc] using hc
          · simp [hfl', hfr, itemAt, hbd] at hn
      | some a =>
        cases hfr : findName tr n with
        | none =>
          by_cases had : a.isTree = true
          · simp only [hfl', hfr, itemAt, had, if_true, List.mem_singleton] at hn
            subst hn
            cases hsa : aget a.oid S with
            | none => simp [loadCore, loadItem, hsa] at hload
            | some ta =>
              simp only [loadCore, loadItem, hsa, Option.map_some, Option.some.injEq, Prod.mk.injEq] at hload
              obtain ⟨rfl, rfl⟩ := hload
              simpa [had, hsa, nodeIn_nil, List.append_assoc] using hc
          · simp [hfl', hfr, itemAt, had] at hn
        | some b =>
          by_cases had : a.isTree = true
          · by_cases hbd : b.isTree = true
            · simp only [hfl', hfr, itemAt, had, hbd, if_true, List.mem_singleton] at hn
              subst hn
              cases hsa : aget a.oid S with
              | none => simp [loadCore, loadItem, hsa] at hload
              | some ta =>
                cases hsb : aget b.oid S with
                | none => simp [loadCore, loadItem, hsa, hsb] at hload
                | some tb =>
                  simp only [loadCore, loadItem, hsa, hsb, Option.some.injEq, Prod.mk.injEq] at hload
                  obtain ⟨rfl, rfl⟩ := hload
                  simpa [had, hbd, hsa, hsb, List.append_assoc] using hc
            · simp only [hfl', hfr, itemAt, had, hbd, if_true, Bool.false_eq_true, if_false,
                List.mem_singleton] at hn
              subst hn
              cases hsa : aget a.oid S with
              | none => simp [loadCore, loadItem, hsa] at hload
              | some ta =>
                simp only [loadCore, loadItem, hsa, Option.map_some, Option.some.injEq, Prod.mk.injEq] at hload
                obtain ⟨rfl, rfl⟩ := hload
                simpa [had, hbd, hsa, nodeIn_nil, List.append_assoc] using hc
          · by_cases hbd : b.isTree = true
            · simp only [hfl', hfr, itemAt, had, hbd, if_true, Bool.false_eq_true, if_false,
                List.mem_singleton] at hn
              subst hn
              cases hsb : aget b.oid S with
              | none => simp [loadCore, loadItem, hsb] at hload
              | some tb =>
                simp only [loadCore, loadItem, hsb, Option.map_some, Option.some.injEq, Prod.mk.injEq] at hload
                obtain ⟨rfl, rfl⟩ := hload
                simpa [had, hbd, hsb, nodeIn_nil, List.append_assoc] using hc
            · simp [hfl', hfr, itemAt, had, hbd] at hn

end GixModel.C44
