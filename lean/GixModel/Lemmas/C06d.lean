import GixModel.Model.C14
/-
C06 (round 2) — `gix_commitgraph::File::new` in C14's model (imported read-only; `Option` is its
panic monad: `none` = assert / slice index / unwrap) never panics, on ANY bytes: the table of
contents hands out only chunks inside the file, so every later slice is in range.
-/
namespace GixModel.C06C14
open GixModel GixModel.C14
open GixModel.C09 (readU32 readU64 slice readFan)

theorem slice_some (d : Bytes) (s l : Nat) (h : s + l ≤ d.length) :
    ∃ r, slice d s l = some r ∧ r.length = l := by
  unfold slice
  simp only [if_pos h]
  refine ⟨_, rfl, ?_⟩
  rw [List.length_take, List.length_drop]; omega

theorem readU32_some : ∀ (bs : Bytes), bs.length = 4 → ∃ v, readU32 bs = some v
  | [a, b, c, d], _ => ⟨_, rfl⟩
  | [], h => by simp at h
  | [_], h => by simp at h
  | [_, _], h => by simp at h
  | [_, _, _], h => by simp at h
  | _ :: _ :: _ :: _ :: _ :: _, h => by simp at h

theorem readU64_some (bs : Bytes) (h : bs.length = 8) : ∃ v, readU64 bs = some v := by
  unfold readU64
  simp only [if_pos h]
  obtain ⟨hi, hhi⟩ := readU32_some (bs.take 4) (by rw [List.length_take]; omega)
  obtain ⟨lo, hlo⟩ := readU32_some (bs.drop 4) (by rw [List.length_drop]; omega)
  simp [hhi, hlo]

def WF (n : Nat) (c : Chunk) : Prop := c.start ≤ c.stop ∧ c.stop ≤ n

theorem tocLoop_inv (n : Nat) : ∀ (k : Nat) (toc : Bytes) (acc : List Chunk),
    (k + 1) * 12 ≤ toc.length → (∀ c ∈ acc, WF n c) →
    ∃ r, tocLoop n k toc acc = some r ∧
      ∀ chunks rest, r = .ok (chunks, rest) →
        (∀ c ∈ chunks, WF n c) ∧ chunks.length = acc.length + k ∧ 4 ≤ rest.length
  | 0, toc, acc, h, hacc => by
    refine ⟨_, rfl, ?_⟩
    intro chunks rest hr
    injection hr with hr; injection hr with h1 h2
    subst h1; subst h2
    exact ⟨hacc, by simp, by omega⟩
  | k + 1, toc, acc, h, hacc => by
    unfold tocLoop
    obtain ⟨kind, hk, _⟩ := slice_some toc 0 4 (by omega)
    simp only [hk, Option.bind_eq_bind, Option.bind_some]
    split
    · exact ⟨_, rfl, by intro _ _ hr; cases hr⟩
    · split
      · exact ⟨_, rfl, by intro _ _ hr; cases hr⟩
      · obtain ⟨ob, hob, hobl⟩ := slice_some toc 4 8 (by omega)
        obtain ⟨off, hoff⟩ := readU64_some ob hobl
        simp only [hob, Option.bind_some, hoff]
        split
        · exact ⟨_, rfl, by intro _ _ hr; cases hr⟩
        · rename_i hoffle
          obtain ⟨nb, hnb, hnbl⟩ := slice_some toc 16 8 (by omega)
          obtain ⟨nx, hnx⟩ := readU64_some nb hnbl
          simp only [hnb, Option.bind_some, hnx]
          split
          · exact ⟨_, rfl, by intro _ _ hr; cases hr⟩
          · rename_i hnxle
            split
            · exact ⟨_, rfl, by intro _ _ hr; cases hr⟩
            · rename_i hlt
              have hacc' : ∀ c ∈ acc ++ [{ kind := kind, start := off, stop := nx : Chunk }], WF n c := by
                intro c hc
                simp only [List.mem_append, List.mem_singleton] at hc
                rcases hc with hc | hc
                · exact hacc c hc
                · subst hc; exact ⟨by simp; omega, by simp; omega⟩
              obtain ⟨r, hr, hprop⟩ := tocLoop_inv n k (toc.drop 12) _ (by rw [List.length_drop]; omega) hacc'
              refine ⟨r, hr, ?_⟩
              intro chunks rest hrr
              obtain ⟨a, b, c⟩ := hprop chunks rest hrr
              refine ⟨a, ?_, c⟩
              rw [b]; simp; omega

theorem tocParse_inv (data : Bytes) (off cc : Nat) (hoff : off ≤ data.length) :
    ∃ r, tocParse data off cc = some r ∧
      ∀ chunks, r = .ok chunks → (∀ c ∈ chunks, WF data.length c) ∧ chunks ≠ [] := by
  unfold tocParse
  split
  · exact ⟨_, rfl, by intro _ hr; cases hr⟩
  · rename_i hcc
    have hno : ¬ (off > data.length) := by omega
    simp only [if_neg hno]
    split
    · exact ⟨_, rfl, by intro _ hr; cases hr⟩
    · rename_i hlen
      obtain ⟨r, hr, hprop⟩ := tocLoop_inv data.length cc (data.drop off) [] (by omega) (by simp)
      rw [hr]
      cases r with
      | error e => exact ⟨_, rfl, by intro _ hr; cases hr⟩
      | ok p =>
        obtain ⟨chunks, rest⟩ := p
        obtain ⟨hwf, hl, hrest⟩ := hprop chunks rest rfl
        obtain ⟨s, hs, _⟩ := slice_some rest 0 4 (by omega)
        simp only [hs]
        split
        · refine ⟨_, rfl, ?_⟩
          intro cs hcs
          injection hcs with hcs; subst hcs
          refine ⟨hwf, ?_⟩
          intro he; rw [he] at hl; simp at hl; omega
        · exact ⟨_, rfl, by intro _ hr; cases hr⟩

theorem findChunk_mem (chunks : List Chunk) (k : Bytes) (c : Chunk) (h : findChunk chunks k = some c) : c ∈ chunks :=
  List.mem_of_find?_eq_some h

theorem readFan_some : ∀ (k : Nat) (d : Bytes), 4 * k ≤ d.length → ∃ f, readFan k d = some f ∧ f.length = k
  | 0, d, _ => ⟨[], rfl, rfl⟩
  | k + 1, d, h => by
    unfold readFan
    obtain ⟨v, hv⟩ := readU32_some (d.take 4) (by rw [List.length_take]; omega)
    obtain ⟨f, hf, hfl⟩ := readFan_some k (d.drop 4) (by rw [List.length_drop]; omega)
    refine ⟨v :: f, ?_, by simp [hfl]⟩
    simp [hv, hf]

theorem chunkBytes_some (data : Bytes) (c : Chunk) (h : WF data.length c) : ∃ b, chunkBytes data c = some b := by
  unfold chunkBytes
  have h' : c.start ≤ c.stop ∧ c.stop ≤ data.length := h
  rw [if_pos h']
  exact ⟨_, rfl⟩

theorem finish_ne_none (data : Bytes) (bc : Nat) (chunks : List Chunk) (base : Option Chunk) (cd fo ol : Chunk)
    (hcd : WF data.length cd) (hfo : WF data.length fo) (hol : WF data.length ol) (hfs : fo.stop - fo.start = 1024) :
    File.finish data bc chunks base cd fo ol ≠ none := by
  unfold File.finish
  obtain ⟨fan, hfan, hfl⟩ := readFan_some 256 (data.drop fo.start) (by
    rw [List.length_drop]; have := hfo.1; have := hfo.2; omega)
  simp only [hfan]
  split
  · simp
  · have h255 : ∃ n, fan[255]? = some n := by
      have : 255 < fan.length := by omega
      exact ⟨fan[255], by simp [this]⟩
    obtain ⟨n, hn⟩ := h255
    simp only [hn]
    split
    · simp
    · split
      · simp
      · obtain ⟨cdb, hcdb⟩ := chunkBytes_some data cd hcd
        obtain ⟨olb, holb⟩ := chunkBytes_some data ol hol
        simp [hcdb, holb]

theorem assemble_ne_none (data : Bytes) (bc : Nat) (chunks : List Chunk) (base : Option Chunk) (cd fo ol : Chunk)
    (hwf : ∀ c ∈ chunks, WF data.length c) (hne : chunks ≠ [])
    (hcd : WF data.length cd) (hfo : WF data.length fo) (hol : WF data.length ol) (hfs : fo.stop - fo.start = 1024) :
    File.assemble data bc chunks base cd fo ol ≠ none := by
  unfold File.assemble
  cases hl : chunks.getLast? with
  | none => simp [List.getLast?_eq_none_iff] at hl; exact absurd hl hne
  | some lastc =>
    have hmem : lastc ∈ chunks := List.mem_of_getLast? hl
    have := (hwf lastc hmem).2
    have hno : ¬ (lastc.stop > data.length) := by omega
    simp only [if_neg hno]
    split
    · simp
    · split
      · simp
      · exact finish_ne_none data bc chunks base cd fo ol hcd hfo hol hfs

theorem fromChunks_ne_none (data : Bytes) (bc : Nat) (chunks : List Chunk)
    (hwf : ∀ c ∈ chunks, WF data.length c) (hne : chunks ≠ []) :
    File.fromChunks data bc chunks ≠ none := by
  unfold File.fromChunks
  split
  · simp
  · split
    · simp
    · rename_i cd hcd
      split
      · simp
      · rename_i fo hfo
        split
        · simp
        · rename_i ol hol
          have mcd : cd ∈ chunks ∧ True := by
            unfold needChunk at hcd
            split at hcd
            · cases hcd
            · rename_i c hc
              split at hcd
              · cases hcd
              · injection hcd with hcd; subst hcd; exact ⟨findChunk_mem _ _ _ hc, trivial⟩
          have mol : ol ∈ chunks := by
            unfold needChunk at hol
            split at hol
            · cases hol
            · rename_i c hc
              split at hol
              · cases hol
              · injection hol with hol; subst hol; exact findChunk_mem _ _ _ hc
          have mfo : fo ∈ chunks ∧ fo.stop - fo.start = 1024 := by
            unfold needFan at hfo
            split at hfo
            · cases hfo
            · rename_i c hc
              split at hfo
              · cases hfo
              · rename_i hsz
                injection hfo with hfo; subst hfo
                exact ⟨findChunk_mem _ _ _ hc, by omega⟩
          exact assemble_ne_none data bc chunks _ cd fo ol hwf hne (hwf cd mcd.1) (hwf fo mfo.1) (hwf ol mol) mfo.2

/-- `gix_commitgraph::File::new` (C14's model) on ANY bytes: a file or an error, never a panic -/
theorem fileNew_ne_none (data : Bytes) : File.new data ≠ none := by
  unfold File.new
  split
  · simp
  · rename_i hlen
    split
    · simp
    · have h4 : ∃ a, data[4]? = some a := ⟨data[4]'(by omega), by simp [show 4 < data.length by omega]⟩
      have h5 : ∃ a, data[5]? = some a := ⟨data[5]'(by omega), by simp [show 5 < data.length by omega]⟩
      have h6 : ∃ a, data[6]? = some a := ⟨data[6]'(by omega), by simp [show 6 < data.length by omega]⟩
      have h7 : ∃ a, data[7]? = some a := ⟨data[7]'(by omega), by simp [show 7 < data.length by omega]⟩
      obtain ⟨a4, e4⟩ := h4; obtain ⟨a5, e5⟩ := h5; obtain ⟨a6, e6⟩ := h6; obtain ⟨a7, e7⟩ := h7
      simp only [e4, e5, e6, e7]
      split
      · simp
      · split
        · simp
        · obtain ⟨r, hr, hprop⟩ := tocParse_inv data 8 a6.toNat (by omega)
          rw [hr]
          cases r with
          | error e => simp
          | ok chunks =>
            obtain ⟨hwf, hne⟩ := hprop chunks rfl
            exact fromChunks_ne_none data a7.toNat chunks hwf hne

end GixModel.C06C14
