import GixModel.Lemmas.C09Offsets
/-
C09 helper lemmas, part 11: `index::File::at` (with its validation, repo commit fc8bff3e9) never
panics on any byte string, and on every file it accepts the accessors are total — with one exactly
characterised exception: a V2 offset entry whose 64-bit escape index points past the end of the file.
-/
namespace GixModel.C09
open GixModel

theorem readU32_of_length {bs : Bytes} (h : bs.length = 4) : ∃ v, readU32 bs = some v ∧ v < 4294967296 := by
  match bs, h with
  | [a, b, c, d], _ =>
    refine ⟨_, rfl, ?_⟩
    have := a.toNat_lt; have := b.toNat_lt; have := c.toNat_lt; have := d.toNat_lt
    omega

theorem readU64_of_length {bs : Bytes} (h : bs.length = 8) : ∃ v, readU64 bs = some v := by
  obtain ⟨a, ha, _⟩ := readU32_of_length (bs := bs.take 4) (by simp [h])
  obtain ⟨b, hb, _⟩ := readU32_of_length (bs := bs.drop 4) (by simp [h])
  simp only [readU64, h, if_true, ha, hb, Option.bind_eq_bind, Option.bind_some]
  exact ⟨_, rfl⟩

theorem slice_ok {d : Bytes} {p l : Nat} (h : p + l ≤ d.length) : ∃ b, slice d p l = some b ∧ b.length = l := by
  simp only [slice, h, if_true]
  refine ⟨_, rfl, ?_⟩
  simp only [List.length_take, List.length_drop]; omega

theorem slice_none {d : Bytes} {p l : Nat} (h : ¬ p + l ≤ d.length) : slice d p l = none := by
  simp only [slice, h, if_false]

theorem readFan_total : ∀ (k : Nat) (d : Bytes), k * 4 ≤ d.length →
    ∃ fan, readFan k d = some fan ∧ fan.length = k := by
  intro k
  induction k with
  | zero => intro d _; exact ⟨[], rfl, rfl⟩
  | succ k ih =>
    intro d hd
    obtain ⟨v, hv, _⟩ := readU32_of_length (bs := d.take 4) (by simp; omega)
    obtain ⟨rest, hr, hl⟩ := ih (d.drop 4) (by simp only [List.length_drop]; omega)
    exact ⟨v :: rest, by simp only [readFan, hv, hr, Option.bind_eq_bind, Option.bind_some], by simp [hl]⟩

/-- what `File.at` guarantees about an accepted file -/
structure IdxAccepted (f : File) : Prop where
  hash20 : f.hashLen = 20
  fanLen : f.fan.length = 256
  mono : fanMonotone f.fan = true
  count : f.fan[255]? = some f.numObjects
  sizeV2 : f.v2 = true → 1032 + f.numObjects * 28 + 40 ≤ f.data.length ∧ f.data.length ≤ 1032 + f.numObjects * 28 + 40 + f.numObjects * 8
  sizeV1 : f.v2 = false → f.data.length = 1024 + f.numObjects * 24 + 40

theorem File.validate_total (data : Bytes) (v2 : Bool) (fan : List Nat) (hl : fan.length = 256) :
    ∃ r, File.validate data v2 fan 20 = some r ∧ ∀ f, r = .ok f → f.data = data ∧ IdxAccepted f := by
  have h255 : fan[255]? = some fan[255] := List.getElem?_eq_getElem (by omega)
  simp only [File.validate, h255]
  by_cases hm : (!fanMonotone fan) = true
  · rw [if_pos hm]; exact ⟨_, rfl, by intro f h; cases h⟩
  · rw [if_neg hm]
    cases v2 with
    | true =>
      simp only [if_true]
      by_cases hsz : data.length < 8 + 256 * 4 + fan[255] * (20 + 4 + 4) + 2 * 20 ∨
          data.length > 8 + 256 * 4 + fan[255] * (20 + 4 + 4) + 2 * 20 + fan[255] * 8
      · rw [if_pos hsz]; exact ⟨_, rfl, by intro f h; cases h⟩
      · rw [if_neg hsz]
        refine ⟨_, rfl, ?_⟩
        intro f h
        injection h with h
        subst h
        exact ⟨rfl, rfl, hl, by simpa using hm, h255, by intro _; simp only []; omega, by intro hv; simp at hv⟩
    | false =>
      simp only [Bool.false_eq_true, if_false]
      by_cases hsz : data.length < 256 * 4 + fan[255] * (4 + 20) + 2 * 20 ∨
          data.length > 256 * 4 + fan[255] * (4 + 20) + 2 * 20
      · rw [if_pos hsz]; exact ⟨_, rfl, by intro f h; cases h⟩
      · rw [if_neg hsz]
        refine ⟨_, rfl, ?_⟩
        intro f h
        injection h with h
        subst h
        exact ⟨rfl, rfl, hl, by simpa using hm, h255, by intro hv; simp at hv, by intro _; simp only []; omega⟩

/-- `index::File::at` is total, and what it accepts is `IdxAccepted` -/
theorem File.at_total (data : Bytes) :
    ∃ r, File.at data = some r ∧ ∀ f, r = .ok f → f.data = data ∧ IdxAccepted f := by
  unfold File.at
  simp only []
  by_cases h1 : data.length < 256 * 4 + 2 * 20
  · rw [if_pos h1]; exact ⟨_, rfl, by intro f h; cases h⟩
  · rw [if_neg h1]
    by_cases hs : data.take 4 = V2_SIGNATURE
    · rw [if_pos hs]
      obtain ⟨v, hv, _⟩ := readU32_of_length (bs := (data.drop 4).take 4) (by simp; omega)
      simp only [hv]
      by_cases h2 : v ≠ 2
      · rw [if_pos h2]; exact ⟨_, rfl, by intro f h; cases h⟩
      · rw [if_neg h2]
        obtain ⟨fan, hf, hl⟩ := readFan_total 256 (data.drop 8) (by simp only [List.length_drop]; omega)
        simp only [hf]
        exact File.validate_total data true fan hl
    · rw [if_neg hs]
      obtain ⟨fan, hf, hl⟩ := readFan_total 256 data (by omega)
      simp only [hf]
      exact File.validate_total data false fan hl

/-! ### accessors on an accepted file -/

theorem File.oidAt_total {f : File} (h : IdxAccepted f) {i : Nat} (hi : i < f.numObjects) :
    ∃ b, f.oidAt i = some b ∧ b.length = 20 := by
  have hmul : (i + 1) * 28 ≤ f.numObjects * 28 := Nat.mul_le_mul_right 28 hi
  unfold File.oidAt
  cases hv : f.v2 with
  | true =>
    have := (h.sizeV2 hv).1
    simp only [if_true, h.hash20, V2_HEADER]
    exact slice_ok (by omega)
  | false =>
    have := h.sizeV1 hv
    simp only [Bool.false_eq_true, if_false, h.hash20, V1_HEADER]
    exact slice_ok (by omega)

theorem File.crcAt_total {f : File} (h : IdxAccepted f) {i : Nat} (hi : i < f.numObjects) :
    ∃ r, f.crcAt i = some r := by
  have hmul : (i + 1) * 28 ≤ f.numObjects * 28 := Nat.mul_le_mul_right 28 hi
  unfold File.crcAt
  cases hv : f.v2 with
  | true =>
    have := (h.sizeV2 hv).1
    obtain ⟨b, hb, hbl⟩ := slice_ok (d := f.data) (p := f.offsetCrc + i * 4) (l := 4)
      (by simp only [File.offsetCrc, V2_HEADER, h.hash20]; omega)
    obtain ⟨v, hv', _⟩ := readU32_of_length hbl
    simp only [if_true, hb, Option.bind_some, hv', Option.map_some]
    exact ⟨_, rfl⟩
  | false => simp only [Bool.false_eq_true, if_false]; exact ⟨_, rfl⟩

/-- `pack_offset_at_index` on an accepted file: V1 and V2 entries without the high bit always
succeed; an entry with the high bit succeeds exactly if its 64-bit slot lies inside the file. -/
theorem File.offsetAt_spec {f : File} (h : IdxAccepted f) {i : Nat} (hi : i < f.numObjects) :
    (f.v2 = false → ∃ v, f.offsetAt i = some v) ∧
    (f.v2 = true → ∃ v, (slice f.data (f.offsetOfs32 + i * 4) 4).bind readU32 = some v ∧
      (¬ (v &&& HIGH_BIT = HIGH_BIT) → f.offsetAt i = some v) ∧
      ((v &&& HIGH_BIT = HIGH_BIT) →
        ((∃ o, f.offsetAt i = some o) ↔ f.offsetOfs64 + (v ^^^ HIGH_BIT) * 8 + 8 ≤ f.data.length))) := by
  have hmul : (i + 1) * 28 ≤ f.numObjects * 28 := Nat.mul_le_mul_right 28 hi
  constructor
  · intro hv
    have := h.sizeV1 hv
    obtain ⟨b, hb, hbl⟩ := slice_ok (d := f.data) (p := V1_HEADER + i * (4 + f.hashLen)) (l := 4)
      (by simp only [V1_HEADER, h.hash20]; omega)
    obtain ⟨v, hv', _⟩ := readU32_of_length hbl
    exact ⟨v, by simp only [File.offsetAt, hv, Bool.false_eq_true, if_false, hb, Option.bind_some, hv']⟩
  · intro hv
    have := (h.sizeV2 hv).1
    obtain ⟨b, hb, hbl⟩ := slice_ok (d := f.data) (p := f.offsetOfs32 + i * 4) (l := 4)
      (by simp only [File.offsetOfs32, File.offsetCrc, V2_HEADER, h.hash20]; omega)
    obtain ⟨v, hv', _⟩ := readU32_of_length hbl
    have h32 : (slice f.data (f.offsetOfs32 + i * 4) 4).bind readU32 = some v := by rw [hb, Option.bind_some, hv']
    refine ⟨v, h32, ?_, ?_⟩
    · intro hb'
      unfold File.offsetAt
      rw [if_pos hv, h32]
      simp only [hb', if_false]
    · intro hb'
      unfold File.offsetAt
      rw [if_pos hv, h32]
      simp only [hb', if_true]
      constructor
      · rintro ⟨o, ho⟩
        apply Classical.byContradiction
        intro hn
        rw [slice_none (by omega)] at ho
        cases ho
      · intro hle
        obtain ⟨b8, hb8, hb8l⟩ := slice_ok (d := f.data) (p := f.offsetOfs64 + (v ^^^ HIGH_BIT) * 8) (l := 8) (by omega)
        obtain ⟨o, ho⟩ := readU64_of_length hb8l
        exact ⟨o, by rw [hb8, Option.bind_some, ho]⟩

theorem fanMonotone_le : ∀ (fan : List Nat), fanMonotone fan = true →
    ∀ i j (hi : i ≤ j) (hj : j < fan.length), fan[i]'(by omega) ≤ fan[j] := by
  intro fan
  induction fan with
  | nil => intro _ i j _ hj; simp at hj
  | cons a rest ih =>
    intro hm i j hij hj
    cases rest with
    | nil =>
      have : j = 0 := by simpa using hj
      subst this
      have : i = 0 := by omega
      subst this; exact Nat.le_refl _
    | cons b rest' =>
      simp only [fanMonotone, Bool.and_eq_true, decide_eq_true_eq] at hm
      cases j with
      | zero => have : i = 0 := by omega
                subst this; exact Nat.le_refl _
      | succ j' =>
        cases i with
        | zero =>
          have h0 := ih hm.2 0 j' (by omega) (by simpa using hj)
          simp only [List.getElem_cons_zero, List.getElem_cons_succ] at h0 ⊢
          omega
        | succ i' =>
          have := ih hm.2 i' j' (by omega) (by simpa using hj)
          simpa using this

theorem bisect_total {c : Bytes → Option Ordering} {oidAt : Nat → Option Bytes}
    (hc : ∀ m, ∃ o, c m = some o) :
    ∀ (fuel lo hi : Nat), (∀ i, i < hi → ∃ m, oidAt i = some m) → hi - lo ≤ fuel → hi < 2147483648 →
      ∃ r, bisect c oidAt fuel lo hi = some r ∧ ∀ mid, r = some mid → mid < hi := by
  intro fuel
  induction fuel with
  | zero =>
    intro lo hi _ hf _
    have : ¬ lo < hi := by omega
    exact ⟨none, by simp [bisect, this], by intro mid h; cases h⟩
  | succ fuel ih =>
    intro lo hi hat hf hhi
    by_cases hlt : lo < hi
    · have hsum : lo + hi < U32 := by simp only [U32]; omega
      have hmid : (lo + hi) / 2 < hi := by omega
      obtain ⟨m, hm⟩ := hat _ hmid
      obtain ⟨o, ho⟩ := hc m
      simp only [bisect, hlt, hsum, if_true, hm, ho]
      cases o with
      | lt =>
        obtain ⟨r, hr, hr2⟩ := ih lo ((lo + hi) / 2) (fun i hi' => hat i (by omega)) (by omega) (by omega)
        exact ⟨r, hr, fun mid h => by have := hr2 mid h; omega⟩
      | eq => exact ⟨_, rfl, fun mid h => by injection h with h; omega⟩
      | gt =>
        obtain ⟨r, hr, hr2⟩ := ih ((lo + hi) / 2 + 1) hi hat (by omega) hhi
        exact ⟨r, hr, hr2⟩
    · exact ⟨none, by simp [bisect, hlt], by intro mid h; cases h⟩

/-- `lookup` on an accepted file never panics (whatever the ids are: sorted or not) -/
theorem File.lookup_total {f : File} (h : IdxAccepted f) (hsmall : f.numObjects < 2147483648)
    (id : Bytes) (hid : id ≠ []) :
    ∃ r, f.lookup id = some r ∧ ∀ i, r = some i → i < f.numObjects := by
  obtain ⟨b, t, rfl⟩ : ∃ b t, id = b :: t := by
    cases id with
    | nil => exact absurd rfl hid
    | cons b t => exact ⟨b, t, rfl⟩
  have hb : b.toNat < 256 := b.toNat_lt
  have hn' : f.fan[255]'(by rw [h.fanLen]; omega) = f.numObjects := by
    have := h.count
    rw [List.getElem?_eq_getElem (by rw [h.fanLen]; omega)] at this; injection this
  have hhi : f.fan[b.toNat]? = some (f.fan[b.toNat]'(by rw [h.fanLen]; exact hb)) :=
    List.getElem?_eq_getElem (by rw [h.fanLen]; exact hb)
  have hhile : f.fan[b.toNat]'(by rw [h.fanLen]; exact hb) ≤ f.numObjects := by
    rw [← hn']; exact fanMonotone_le f.fan h.mono _ _ (by omega) (by rw [h.fanLen]; omega)
  have hat : ∀ i, i < f.fan[b.toNat]'(by rw [h.fanLen]; exact hb) → ∃ m, f.oidAt i = some m := by
    intro i hi
    obtain ⟨m, hm, _⟩ := File.oidAt_total h (i := i) (by omega)
    exact ⟨m, hm⟩
  have hlo : ∃ lo, fanBounds f.fan b.toNat = some (lo, f.fan[b.toNat]'(by rw [h.fanLen]; exact hb)) := by
    unfold fanBounds
    by_cases h0 : b.toNat ≠ 0
    · have : f.fan[b.toNat - 1]? = some (f.fan[b.toNat - 1]'(by rw [h.fanLen]; omega)) :=
        List.getElem?_eq_getElem (by rw [h.fanLen]; omega)
      exact ⟨f.fan[b.toNat - 1]'(by rw [h.fanLen]; omega),
        by simp only [hhi, h0, ne_eq, not_false_eq_true, if_true, this, Option.bind_eq_bind, Option.bind_some]⟩
    · exact ⟨0, by simp only [hhi, h0, if_false, Option.bind_eq_bind, Option.bind_some]⟩
  obtain ⟨lo, hlo⟩ := hlo
  obtain ⟨r, hr, hr2⟩ := bisect_total (c := fun m => some (cmpBytes (b :: t) m)) (oidAt := f.oidAt)
    (fun m => ⟨_, rfl⟩) (f.fan[b.toNat]'(by rw [h.fanLen]; exact hb) - lo) lo _ hat (Nat.le_refl _) (by omega)
  refine ⟨r, ?_, fun i hl => by have := hr2 i hl; omega⟩
  simp only [File.lookup, lookupWith, List.head?_cons, hlo, Option.bind_eq_bind, Option.bind_some]
  exact hr

end GixModel.C09
