import GixModel.Lemmas.C38Parse
/-
C38 (round 2) — quoted macro definitions (`"[attr]name" …`) and what a NUL byte does.
-/
namespace GixModel.Lemmas.C38
open GixModel GixModel.C38 GixModel.Spec.C38

/-- **the line parsers agree** on a line whose quoted pattern is a macro definition `"[attr]name"`,
when the name has no blank, NUL or LF in it (produced by an escape). With a blank git cuts the name
there (and skips leading blanks), gitoxide finds the name invalid: see `quoted_macro_blank_diverges`. -/
theorem parseLine_eq_git_quoted_macro (line : Bytes) (no : Nat) (hc : NoCtl line)
    (hq : (line.dropWhile isBlank).head? = some 34) (u rest : Bytes)
    (hu : unquoteC (line.dropWhile isBlank) = some (u, rest))
    (hnb : NonBlank (u.drop macroPrefix.length)) (hnc : NoCtl (u.drop macroPrefix.length)) :
    parseAttrLineC true line no = parseLine line no := by
  unfold parseAttrLineC parseLine
  simp only [cstr_eq line hc, skipBlank_eq line hc]
  generalize hl : line.dropWhile isBlank = l at hq hu
  have hlc : NoCtl l := hl ▸ hc.dropWhile isBlank
  have hemp : l.isEmpty = false := by
    cases l with
    | nil => simp at hq
    | cons _ _ => rfl
  have h35 : (l.head? == some 35) = false := by rw [hq]; decide
  have h34 : (l.head? == some 34) = true := by rw [hq]; decide
  simp only [hemp, Bool.false_eq_true, if_false, h35, h34, if_true]
  by_cases hlong : line.length ≥ maxLineLen
  · simp only [hlong, if_true]
  · simp only [hlong, if_false]
    obtain ⟨n, hn, hd⟩ := undo_of_unquote l u rest hu
    simp only [hu, hn, hd]
    have hrc : NoCtl rest := hd ▸ hlc.drop n
    have hstates : parseStatesC ((skipBlank rest).length + 1) (skipBlank rest) = parseAttrs rest := by
      rw [skipBlank_eq rest hrc]
      unfold parseAttrs
      rw [parseStatesC_eq _ _ (Nat.le_refl _) (hrc.dropWhile isBlank) (tokenStart_dropWhile rest) _ (Nat.le_refl _)]
      unfold fields
      rw [← fieldsAux_blanks rest]
    rw [hstates]
    obtain ⟨h1, h2⟩ := nonblank_self (u.drop macroPrefix.length) hnb hnc
    rw [h1, h2, attrNameValid_eq]
    have hcomm : (decide (macroPrefix.length < u.length) && macroPrefix.isPrefixOf u)
        = (macroPrefix.isPrefixOf u && decide (u.length > macroPrefix.length)) := by
      rw [Bool.and_comm]
    rw [hcomm]
    simp only [Bool.not_true, Bool.false_eq_true, if_false, Bool.and_eq_true, decide_eq_true_eq, gt_iff_lt]
    congr

/-- the quoted pattern unquotes under git's rules; if it is a macro definition, its name has no
blank / NUL / LF -/
def quotedOk2 (l : Bytes) : Bool :=
  match unquoteC l with
  | some (u, _) =>
    !macroPrefix.isPrefixOf u ||
      (u.drop macroPrefix.length).all fun b => !isBlank b && b != 0 && b != 10
  | none => false

/-- the lines both parsers are now proved to read alike: no NUL, no LF, the pattern unquoted, or
quoted in a way git accepts — macro definitions included unless an escape puts a blank, NUL or LF
into the macro name -/
def LineOk2 (l : Bytes) : Prop :=
  NoCtl l ∧ ((l.dropWhile isBlank).head? ≠ some 34 ∨ quotedOk2 (l.dropWhile isBlank) = true)

instance (l : Bytes) : Decidable (LineOk2 l) := by unfold LineOk2; infer_instance

theorem lineOk_lineOk2 (l : Bytes) (h : LineOk l) : LineOk2 l := by
  obtain ⟨hc, hq⟩ := h
  refine ⟨hc, ?_⟩
  rcases hq with hq | hq
  · exact Or.inl hq
  · refine Or.inr ?_
    unfold quotedOk at hq
    unfold quotedOk2
    cases hu : unquoteC (l.dropWhile isBlank) with
    | none => simp [hu] at hq
    | some p =>
      obtain ⟨u, rest⟩ := p
      simp only [hu] at hq
      simp [hq]

theorem lineOk2_parse (l : Bytes) (n : Nat) (h : LineOk2 l) : parseAttrLineC true l n = parseLine l n := by
  obtain ⟨hc, hq⟩ := h
  by_cases h34 : (l.dropWhile isBlank).head? = some 34
  · rcases hq with hq | hq
    · exact absurd h34 hq
    · unfold quotedOk2 at hq
      cases hu : unquoteC (l.dropWhile isBlank) with
      | none => simp [hu] at hq
      | some p =>
        obtain ⟨u, rest⟩ := p
        simp only [hu, Bool.or_eq_true, Bool.not_eq_true', List.all_eq_true, Bool.and_eq_true, bne_iff_ne, ne_eq] at hq
        rcases hq with hq | hq
        · exact parseLine_eq_git_quoted l n hc h34 u rest hu hq
        · exact parseLine_eq_git_quoted_macro l n hc h34 u rest hu (fun b hb => (hq b hb).1.1)
            (fun b hb => ⟨(hq b hb).1.2, (hq b hb).2⟩)
  · exact parseLine_eq_git l n hc h34

theorem parseLinesFrom_eq_git2 : ∀ (ls : List Bytes) (n : Nat), (∀ l ∈ ls, LineOk2 l) →
    parseLinesFromC true n ls = parseLinesFrom n ls := by
  intro ls
  induction ls with
  | nil => intros; rfl
  | cons l ls ih =>
    intro n h
    have hl := h l (by simp)
    simp only [parseLinesFromC, parseLinesFrom]
    rw [lineOk2_parse l n hl, ih (n + 1) (fun x hx => h x (by simp [hx]))]
    cases parseLine l n <;> rfl

theorem parseFile_eq_git2 (bytes : Bytes) (h : ∀ l ∈ splitLines (stripBom bytes), LineOk2 l) :
    parseFileC true bytes = parseFile bytes :=
  parseLinesFrom_eq_git2 _ 1 h

/-! ### NUL bytes -/

theorem cstr_idem (s : Bytes) : cstr (cstr s) = cstr s := by
  unfold cstr
  induction s with
  | nil => rfl
  | cons b s ih =>
    by_cases hb : (b != 0) = true
    · simp [List.takeWhile_cons, hb, ih]
    · simp [List.takeWhile_cons, hb]

/-- git reads a line as a C string: what follows the first NUL does not exist for it -/
theorem parseAttrLineC_cstr (m : Bool) (line : Bytes) (no : Nat) :
    parseAttrLineC m line no = parseAttrLineC m (cstr line) no := by
  unfold parseAttrLineC
  simp only [cstr_idem]

theorem cstr_append_nul (a b : Bytes) (ha : ∀ x ∈ a, x ≠ 0) : cstr (a ++ 0 :: b) = a := by
  unfold cstr
  induction a with
  | nil => simp
  | cons x a ih =>
    have hx : (x != 0) = true := by simpa using ha x (by simp)
    simp only [List.cons_append, List.takeWhile_cons, hx, if_true]
    rw [ih (fun y hy => ha y (by simp [hy]))]

/-- **NUL on git's side**: of `a ++ NUL ++ b` git parses `a` — and if `a` is a line both parsers read
alike, git's result for the whole line is gitoxide's result for `a` alone -/
theorem nul_line_git (a b : Bytes) (no : Nat) (ha : LineOk2 a) :
    parseAttrLineC true (a ++ 0 :: b) no = parseLine a no := by
  rw [parseAttrLineC_cstr, cstr_append_nul a b (fun x hx => (ha.1 x hx).1)]
  exact lineOk2_parse a no ha

end GixModel.Lemmas.C38
