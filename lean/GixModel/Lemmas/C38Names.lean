import GixModel.Lemmas.C38Stack
/-
C38 — two more invariants: the reference run only ever gives values to names that have an id in the
collection, and (model side) a search never changes a value once it is decided.
-/
namespace GixModel.Lemmas.C38
open GixModel GixModel.C38 GixModel.Spec.C38

/-- only names from `N` have a value -/
def KnownIn (N : List Bytes) (v : Vals) : Prop := ∀ n, known v n = true → n ∈ N

theorem knownIn_cons (N : List Bytes) (v : Vals) (m : Bytes) (s : St) (h : KnownIn N v) (hm : m ∈ N) :
    KnownIn N ((m, s) :: v) := by
  intro n hn
  rw [known_cons] at hn
  simp only [Bool.or_eq_true, beq_iff_eq] at hn
  rcases hn with rfl | hn
  · exact hm
  · exact h n hn

theorem fillOne_knownIn (N : List Bytes) (mo : Bytes → Option (List Asg))
    (hmo : ∀ n b, mo n = some b → ∀ a ∈ b, a.name ∈ N) :
    ∀ (f : Nat) (as : List Asg) (v : Vals), (∀ a ∈ as, a.name ∈ N) → KnownIn N v → KnownIn N (fillOne mo f as v) := by
  intro f
  induction f with
  | zero => intro as v _ h; exact h
  | succ f ih =>
    intro as v has hv
    rw [fillOne_succ]
    have has' : ∀ a ∈ as.reverse, a.name ∈ N := fun a ha => has a (List.mem_reverse.mp ha)
    generalize as.reverse = l at has'
    induction l generalizing v with
    | nil => exact hv
    | cons a l ihl =>
      rw [List.foldl_cons]
      apply ihl _ _ (fun b hb => has' b (by simp [hb]))
      have han := has' a (by simp)
      by_cases hk : known v a.name = true
      · rw [step_known mo f v a hk]; exact hv
      · rw [step_unknown mo f v a hk]
        have hv1 := knownIn_cons N v a.name a.st hv han
        cases hm : mo a.name with
        | none => exact hv1
        | some body =>
          simp only
          split
          · exact ih body _ (hmo _ _ hm) hv1
          · exact hv1

theorem refGroups_knownIn (N : List Bytes) (env : Env) (mo : Bytes → Option (List Asg)) (D : Nat)
    (hmo : ∀ n b, mo n = some b → ∀ a ∈ b, a.name ∈ N) (path : Bytes) (isDir icase : Bool)
    (gs : List (List PList)) (hgs : ∀ g ∈ gs, ∀ pl ∈ g, ∀ l ∈ pl.lines, ∀ a ∈ l.attrs, a.name ∈ N) :
    ∀ (v : Vals), KnownIn N v → KnownIn N (refGroups env mo D path isDir icase v gs) := by
  have hline : ∀ (rel : Bytes) (l : Line), (∀ a ∈ l.attrs, a.name ∈ N) → ∀ v, KnownIn N v →
      KnownIn N (refLine env mo D rel isDir icase v l) := by
    intro rel l hl v hv
    unfold refLine
    split
    · exact hv
    · split
      · exact fillOne_knownIn N mo hmo _ _ _ hl hv
      · exact hv
  have hlines : ∀ (rel : Bytes) (ls : List Line), (∀ l ∈ ls, ∀ a ∈ l.attrs, a.name ∈ N) → ∀ v, KnownIn N v →
      KnownIn N (ls.foldl (refLine env mo D rel isDir icase) v) := by
    intro rel ls
    induction ls with
    | nil => intro _ v hv; exact hv
    | cons l ls ih =>
      intro hls v hv
      rw [List.foldl_cons]
      exact ih (fun x hx => hls x (by simp [hx])) _ (hline rel l (hls l (by simp)) v hv)
  have hlist : ∀ (pl : PList), (∀ l ∈ pl.lines, ∀ a ∈ l.attrs, a.name ∈ N) → ∀ v, KnownIn N v →
      KnownIn N (refList env mo D path isDir icase v pl) := by
    intro pl hpl v hv
    unfold refList
    split
    · exact hv
    · exact hlines _ _ (fun l hl => hpl l (List.mem_reverse.mp hl)) v hv
  have hlists : ∀ (pls : List PList), (∀ pl ∈ pls, ∀ l ∈ pl.lines, ∀ a ∈ l.attrs, a.name ∈ N) → ∀ v, KnownIn N v →
      KnownIn N (pls.foldl (refList env mo D path isDir icase) v) := by
    intro pls
    induction pls with
    | nil => intro _ v hv; exact hv
    | cons pl pls ih =>
      intro hpls v hv
      rw [List.foldl_cons]
      exact ih (fun x hx => hpls x (by simp [hx])) _ (hlist pl (hpls pl (by simp)) v hv)
  induction gs with
  | nil => intro v hv; exact hv
  | cons g gs ih =>
    intro v hv
    unfold refGroups
    rw [List.foldl_cons]
    apply ih (fun x hx => hgs x (by simp [hx]))
    unfold refSearch
    exact hlists _ (fun pl hpl => hgs g (by simp) pl (List.mem_reverse.mp hpl)) v hv

/-! ### decisions are final (model side) -/

theorem fillLoop_ext (cx : Ctx) : ∀ (n : Nat) (stk : List Asg) (o : Out) (r : Out × Bool),
    fillLoop cx n stk o = some r → Ext o.filled r.1.filled := by
  intro n
  induction n with
  | zero => intro stk o r h; simp [fillLoop] at h
  | succ n ih =>
    intro stk o r h
    cases stk with
    | nil => simp only [fillLoop, Option.some.injEq] at h; subst h; exact Ext.refl _
    | cons a stk =>
      unfold fillLoop at h
      by_cases hf : o.isFilled a.name = true
      · simp only [hf, if_true] at h; exact ih stk o r h
      · have hf' : o.isFilled a.name = false := by simpa using hf
        simp only [hf', Bool.false_eq_true, if_false] at h
        have h1 : Ext o.filled (o.fill cx a).filled := by
          rw [fill_filled]; exact ext_cons _ _ _ hf
        split at h
        · simp only [Option.some.injEq] at h; subst h; exact h1
        · split at h
          · exact h1.trans (ih _ _ r h)
          · exact h1.trans (ih _ _ r h)

theorem listLoop_ext (env : Env) (cx : Ctx) (rel : Bytes) (isDir icase : Bool) :
    ∀ (ls : List Line) (o o' : Out), listLoop env cx rel isDir icase ls o = some o' → Ext o.filled o'.filled := by
  intro ls
  induction ls with
  | nil => intro o o' h; simp only [listLoop, Option.some.injEq] at h; subst h; exact Ext.refl _
  | cons l ls ih =>
    intro o o' h
    unfold listLoop at h
    split at h
    · exact ih o o' h
    · split at h
      · cases hfa : fillAttributes cx l.attrs o with
        | none => simp [hfa] at h
        | some r =>
          obtain ⟨o1, done⟩ := r
          have h1 : Ext o.filled o1.filled := by
            unfold fillAttributes at hfa
            exact fillLoop_ext cx _ _ _ _ hfa
          simp only [hfa] at h
          by_cases hd : done = true
          · simp only [hd, if_true, Option.some.injEq] at h; subst h; exact h1
          · simp only [hd] at h; exact h1.trans (ih o1 o' h)
      · exact ih o o' h

theorem searchLoop_ext (env : Env) (cx : Ctx) (path : Bytes) (isDir icase : Bool) :
    ∀ (ls : List PList) (o o' : Out), searchLoop env cx path isDir icase ls o = some o' → Ext o.filled o'.filled := by
  intro ls
  induction ls with
  | nil => intro o o' h; simp only [searchLoop, Option.some.injEq] at h; subst h; exact Ext.refl _
  | cons pl ls ih =>
    intro o o' h
    unfold searchLoop at h
    cases hlm : listMatch env cx path isDir icase pl o with
    | none => simp [hlm] at h
    | some o1 =>
      have h1 : Ext o.filled o1.filled := by
        rw [listMatch_eq] at hlm
        cases hrel : relOf pl path icase with
        | none => simp only [hrel, Option.some.injEq] at hlm; subst hlm; exact Ext.refl _
        | some rel => simp only [hrel] at hlm; exact listLoop_ext env cx rel isDir icase _ o o1 hlm
      simp only [hlm] at h
      split at h
      · simp only [Option.some.injEq] at h; subst h; exact h1
      · exact h1.trans (ih o1 o' h)

theorem groupsLoop_ext (env : Env) (cx : Ctx) (path : Bytes) (isDir icase : Bool) :
    ∀ (gs : List (List PList)) (o o' : Out), groupsLoop env cx path isDir icase gs o = some o' →
      Ext o.filled o'.filled := by
  intro gs
  induction gs with
  | nil => intro o o' h; simp only [groupsLoop, Option.some.injEq] at h; subst h; exact Ext.refl _
  | cons g gs ih =>
    intro o o' h
    unfold groupsLoop at h
    cases hs : search env cx path isDir icase g o with
    | none => simp [hs] at h
    | some o1 =>
      have h1 : Ext o.filled o1.filled := searchLoop_ext env cx path isDir icase _ o o1 hs
      simp only [hs] at h
      split at h
      · simp only [Option.some.injEq] at h; subst h; exact h1
      · exact h1.trans (ih o1 o' h)

end GixModel.Lemmas.C38
