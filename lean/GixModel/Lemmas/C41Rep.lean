import GixModel.Lemmas.C41
/-
C41 — lemmas for `reproduces_index`: on a conflict-free index of plain entries the checkout is
computed exactly — system calls below real directories (`createDirectory_plain`, `tryOp_plain`), the
push loop (`pushLoop_plain`), `at_path` (`atPath_plain`), one entry (`checkoutEntry_plain`), any
schedule of entries over any number of worker stacks (`runSeq_spec` with the invariant `J`), and the
two phases of `checkout` (`checkout_reproduces`).
-/
namespace GixModel.C41

/-! # reproduces_index: exact behaviour on a conflict-free index -/

/-- all proper, non-empty prefixes of `p` are directories -/
def ParentsDirs (fs : FS) (p : Path) : Prop := ∀ k, 0 < k → k < p.length → fs (p.take k) = some .dir

def NoneOrDir (fs : FS) (p : Path) : Prop := fs p = none ∨ fs p = some .dir

theorem parentsErr_none_of (fs : FS) (p : Path) (h : ParentsDirs fs p) : ∀ n, parentsErr fs p n = none
  | 0 => rfl
  | n + 1 => by
    simp only [parentsErr, parentsErr_none_of fs p h n]
    split
    · rename_i hlt
      rw [h (n + 1) (by omega) hlt]
    · rfl

theorem clean_of_parentsDirs (fs : FS) (p : Path) (h : ParentsDirs fs p) : Clean fs p := by
  intro k h0 hk
  unfold isLinkAt
  rw [h k h0 hk]; rfl

theorem sys_pd (follow : Follow) (fs : FS) (p : Path) (op : Op) (h : ParentsDirs fs p) :
    sys follow fs p op = direct fs p op := sys_eq_direct follow fs p op (clean_of_parentsDirs fs p h)

theorem set_same (fs : FS) (p : Path) (n : Node) : (fs.set p n) p = some n := by simp [FS.set]
theorem set_other (fs : FS) (p q : Path) (n : Node) (h : q ≠ p) : (fs.set p n) q = fs q := by simp [FS.set, h]

theorem createDirectory_plain (c : Cfg) (fs : FS) (p : Path) (hp : ParentsDirs fs p) (hn : NoneOrDir fs p) :
    (createDirectory c fs p).2 = none ∧ (createDirectory c fs p).1 p = some .dir ∧
    ∀ q, q ≠ p → (createDirectory c fs p).1 q = fs q := by
  unfold createDirectory
  rw [sys_pd c.follow fs p .mkdir hp]
  unfold direct
  rw [parentsErr_none_of fs p hp]
  simp only
  rcases hn with h | h
  · rw [h]
    simp only
    exact ⟨trivial, set_same _ _ _, fun q hq => set_other _ _ _ _ hq⟩
  · rw [h]
    simp only
    rw [sys_pd c.follow fs p .lstat hp]
    unfold direct
    rw [parentsErr_none_of fs p hp]
    simp only [h]
    exact ⟨trivial, trivial, fun _ _ => trivial⟩

theorem tryOp_plain (c : Cfg) (fs : FS) (p : Path) (op : Op) (node : Node) (hp : ParentsDirs fs p) (hn : fs p = none)
    (hop : (∃ excl content en cx, op = .openW excl content en cx ∧ node = .file content (en || cx)) ∨
           (∃ t, op = .symlink t ∧ t.isEmpty = false ∧ node = .link t)) :
    tryOpOrUnlink c fs p op = (fs.set p node, none) := by
  unfold tryOpOrUnlink
  rw [sys_pd c.follow fs p op hp]
  unfold direct
  rw [parentsErr_none_of fs p hp]
  rcases hop with ⟨excl, content, en, cx, rfl, rfl⟩ | ⟨t, rfl, ht, rfl⟩
  · simp only [hn]
  · simp only [ht, hn, Bool.false_eq_true, if_false]



theorem pushLoop_plain (c : Cfg) (kind : Kind) (hk : isDirMode kind = false) :
    ∀ (ns : List Name) (st : Stk) (fs : FS), ns ≠ [] →
    (∀ n ∈ ns, c.valid n (kind == .link) = true) →
    (∀ k, 0 < k → k ≤ (c.dest ++ st.cur).length → fs ((c.dest ++ st.cur).take k) = some .dir) →
    (∀ k, 0 < k → k < ns.length → NoneOrDir fs (c.dest ++ st.cur ++ ns.take k)) →
    (pushLoop c kind (ns.map .normal) st fs).2.2 = none ∧
    (pushLoop c kind (ns.map .normal) st fs).1.cur = st.cur ++ ns ∧
    (pushLoop c kind (ns.map .normal) st fs).1.isLeaf = st.isLeaf ∧
    (∀ k, 0 < k → k < ns.length →
      (pushLoop c kind (ns.map .normal) st fs).2.1 (c.dest ++ st.cur ++ ns.take k) = some .dir) ∧
    (∀ q, (∀ k, 0 < k → k < ns.length → q ≠ c.dest ++ st.cur ++ ns.take k) →
      (pushLoop c kind (ns.map .normal) st fs).2.1 q = fs q) := by
  intro ns
  induction ns with
  | nil => intro _ _ h; exact absurd rfl h
  | cons n rest ih =>
    intro st fs _ hv hpre hnd
    have hvn : c.valid n (kind == Kind.link) = true := hv n (by simp)
    cases rest with
    | nil =>
      simp only [List.map_cons, List.map_nil, pushLoop, hvn, Bool.true_eq_false, if_false, List.isEmpty_nil, hk,
        Bool.not_false, Bool.and_self, if_true]
      refine ⟨trivial, trivial, trivial, ?_, fun _ _ => trivial⟩
      intro k h0 hk'; simp at hk'; omega
    | cons n2 rest2 =>
      simp only [List.map_cons]
      rw [pushLoop]
      simp only [hvn, Bool.true_eq_false, if_false, List.isEmpty_cons, Bool.false_and, Bool.false_eq_true]
      -- the directory for `n`
      have hlenP : (c.dest ++ (st.cur ++ [n])).length = (c.dest ++ st.cur).length + 1 := by simp; omega
      have hpd : ParentsDirs fs (c.dest ++ (st.cur ++ [n])) := by
        intro k h0 hk'
        rw [hlenP] at hk'
        have : (c.dest ++ (st.cur ++ [n])).take k = (c.dest ++ st.cur).take k := by
          rw [← List.append_assoc, List.take_append_of_le_length (by omega)]
        rw [this]
        exact hpre k h0 (by omega)
      have hnod : NoneOrDir fs (c.dest ++ (st.cur ++ [n])) := by
        have := hnd 1 (by omega) (by simp)
        simpa [List.append_assoc] using this
      obtain ⟨c1, c2, c3⟩ := createDirectory_plain c fs (c.dest ++ (st.cur ++ [n])) hpd hnod
      generalize createDirectory c fs (c.dest ++ (st.cur ++ [n])) = r at c1 c2 c3
      obtain ⟨fs1, res⟩ := r
      simp only at c1 c2 c3
      subst c1
      simp only
      -- the rest
      have hpre1 : ∀ k, 0 < k → k ≤ (c.dest ++ (st.cur ++ [n])).length →
          fs1 ((c.dest ++ (st.cur ++ [n])).take k) = some .dir := by
        intro k h0 hk'
        by_cases hkl : k ≤ (c.dest ++ st.cur).length
        · have h1 : (c.dest ++ (st.cur ++ [n])).take k = (c.dest ++ st.cur).take k := by
            rw [← List.append_assoc, List.take_append_of_le_length hkl]
          rw [h1, c3]
          · exact hpre k h0 hkl
          · intro heq
            have := congrArg List.length heq
            simp only [List.length_take] at this
            rw [hlenP] at this
            omega
        · have : k = (c.dest ++ (st.cur ++ [n])).length := by omega
          rw [this, List.take_length]; exact c2
      have hnd1 : ∀ k, 0 < k → k < (n2 :: rest2).length →
          NoneOrDir fs1 (c.dest ++ (st.cur ++ [n]) ++ (n2 :: rest2).take k) := by
        intro k h0 hk'
        have h1 : c.dest ++ (st.cur ++ [n]) ++ (n2 :: rest2).take k = c.dest ++ st.cur ++ (n :: n2 :: rest2).take (k + 1) := by
          simp [List.take_succ_cons, List.append_assoc]
        unfold NoneOrDir
        rw [h1, c3]
        · exact hnd (k + 1) (by omega) (by simp at hk' ⊢; omega)
        · intro heq
          have := congrArg List.length heq
          simp only [List.length_append, List.length_take, List.length_cons, List.length_nil] at this
          simp at hk'
          omega
      obtain ⟨i1, i2, i3, i4, i5⟩ := ih { st with cur := st.cur ++ [n], curIsDir := !false } fs1 (by simp)
        (fun m hm => hv m (by simp at hm ⊢; right; exact hm)) hpre1 hnd1
      simp only [List.map_cons] at i1 i2 i3 i4 i5
      refine ⟨i1, by rw [i2]; simp, i3, ?_, ?_⟩
      · intro k h0 hk'
        by_cases hk1 : k = 1
        · subst hk1
          have h1 : c.dest ++ st.cur ++ (n :: n2 :: rest2).take 1 = c.dest ++ (st.cur ++ [n]) := by simp [List.append_assoc]
          rw [h1, i5]
          · exact c2
          · intro k2 h02 _ heq
            have := congrArg List.length heq
            simp only [List.length_append, List.length_take, List.length_cons, List.length_nil] at this
            omega
        · have h1 : c.dest ++ st.cur ++ (n :: n2 :: rest2).take k = c.dest ++ (st.cur ++ [n]) ++ (n2 :: rest2).take (k - 1) := by
            obtain ⟨k', rfl⟩ : ∃ k', k = k' + 1 := ⟨k - 1, by omega⟩
            simp [List.take_succ_cons, List.append_assoc]
          rw [h1]
          exact i4 (k - 1) (by omega) (by simp at hk' ⊢; omega)
      · intro q hq
        rw [i5, c3]
        · have := hq 1 (by omega) (by simp)
          simpa [List.append_assoc] using this
        · intro k h0 hk'
          have := hq (k + 1) (by omega) (by simp at hk' ⊢; omega)
          simpa [List.take_succ_cons, List.append_assoc] using this



theorem normalNames_map : ∀ (comps : List C42.Comp) (ns : List Name), normalNames comps = some ns →
    comps = ns.map .normal
  | [], ns, h => by simp [normalNames] at h; subst h; rfl
  | .normal n :: rest, ns, h => by
    simp only [normalNames, Option.map_eq_some_iff] at h
    obtain ⟨ns', h1, rfl⟩ := h
    rw [normalNames_map rest ns' h1]; rfl
  | .parentDir :: _, _, h => by simp [normalNames] at h
  | .rootDir :: _, _, h => by simp [normalNames] at h
  | .curDir :: _, _, h => by simp [normalNames] at h

theorem matching_take : ∀ (cur ns : List Name),
    cur.take (matching cur (ns.map .normal)) = ns.take (matching cur (ns.map .normal))
  | [], _ => by simp [matching]
  | _ :: _, [] => by simp [matching]
  | a :: as, b :: bs => by
    simp only [List.map_cons, matching]
    split
    · rename_i h; subst h
      simp only [List.take_succ_cons]
      rw [matching_take as bs]
    · simp

theorem matching_full_left : ∀ (cur ns : List Name), matching cur (ns.map .normal) = cur.length → cur <+: ns
  | [], ns, _ => List.nil_prefix
  | _ :: _, [], h => by simp [matching] at h
  | a :: as, b :: bs, h => by
    simp only [List.map_cons, matching] at h
    split at h
    · rename_i hab; subst hab
      simp only [List.length_cons, Nat.add_right_cancel_iff] at h
      exact List.cons_prefix_cons.mpr ⟨rfl, matching_full_left as bs h⟩
    · simp at h

theorem matching_full_right : ∀ (cur ns : List Name), matching cur (ns.map .normal) = ns.length → ns <+: cur
  | _, [], _ => List.nil_prefix
  | [], _ :: _, h => by simp [matching] at h
  | a :: as, b :: bs, h => by
    simp only [List.map_cons, matching] at h
    split at h
    · rename_i hab; subst hab
      simp only [List.length_cons, Nat.add_right_cancel_iff] at h
      exact List.cons_prefix_cons.mpr ⟨rfl, matching_full_right as bs h⟩
    · simp at h

/-- neither is a prefix of (or equal to) the other: no duplicate, no directory/file conflict -/
def Indep (a b : List Name) : Prop := ¬ a <+: b ∧ ¬ b <+: a



theorem take_dest_append (dest : Path) (l : List Name) (k : Nat) (hk : dest.length < k) :
    (dest ++ l).take k = dest ++ l.take (k - dest.length) := by
  rw [List.take_append, List.take_of_length_le (by omega)]

theorem atPath_plain (c : Cfg) (st : Stk) (fs : FS) (e : Entry) (ns : List Name)
    (hk : isDirMode e.kind = false) (hns : C42.components e.path = ns.map .normal) (hne : ns ≠ [])
    (hpath : e.path.isEmpty = false) (hv : ∀ n ∈ ns, c.valid n (e.kind == .link) = true)
    (hind : st.cur ≠ [] → Indep st.cur ns)
    (hdest : ∀ k, 0 < k → k ≤ c.dest.length → fs (c.dest.take k) = some .dir)
    (hcur : ∀ j, 0 < j → j < st.cur.length → fs (c.dest ++ st.cur.take j) = some .dir)
    (hnd : ∀ j, 0 < j → j < ns.length → NoneOrDir fs (c.dest ++ ns.take j)) :
    (atPath c st fs e).2.2 = none ∧ (atPath c st fs e).1.cur = ns ∧ (atPath c st fs e).1.isLeaf = true ∧
    (∀ j, 0 < j → j < ns.length → (atPath c st fs e).2.1 (c.dest ++ ns.take j) = some .dir) ∧
    (∀ q, (∀ j, 0 < j → j < ns.length → q ≠ c.dest ++ ns.take j) → (atPath c st fs e).2.1 q = fs q) := by
  have hnl : 0 < ns.length := List.length_pos_iff.mpr hne
  -- the number of shared leading components
  have hm_ns : matching st.cur (ns.map .normal) < ns.length := by
    have hle := matching_le_right st.cur (ns.map .normal)
    simp only [List.length_map] at hle
    by_cases heq : matching st.cur (ns.map .normal) = ns.length
    · have hp := matching_full_right st.cur ns heq
      by_cases hc : st.cur = []
      · rw [hc] at hp
        have := List.prefix_nil.mp hp
        exact absurd this hne
      · exact absurd hp (hind hc).2
    · omega
  have hm_cur : st.cur ≠ [] → matching st.cur (ns.map .normal) < st.cur.length := by
    intro hc
    have hle := matching_le_left st.cur (ns.map .normal)
    by_cases heq : matching st.cur (ns.map .normal) = st.cur.length
    · exact absurd (matching_full_left st.cur ns heq) (hind hc).1
    · omega
  have hm0 : st.cur = [] → matching st.cur (ns.map .normal) = 0 := by
    intro hc; rw [hc]; simp [matching]
  have htake := matching_take st.cur ns
  generalize hmdef : matching st.cur (ns.map .normal) = m at hm_ns hm_cur hm0 htake
  unfold atPath
  simp only [hpath, Bool.false_eq_true, if_false, hns, hmdef]
  have hrev : revalidateFails c st (ns.map .normal) m e.kind = false := by
    unfold revalidateFails
    simp
    intro h; omega
  have hneed : needDir st (ns.map .normal) m = false := by
    unfold needDir
    by_cases hc : st.cur = []
    · simp [hc]
    · have := hm_cur hc
      have hmne : m ≠ st.cur.length := by omega
      simp [hmne]
  simp only [hrev, hneed, Bool.false_eq_true, if_false]
  unfold makeCurrent
  simp only [← List.map_drop]
  -- the push loop over the components that are new
  have hdne : ns.drop m ≠ [] := by
    intro h
    have := congrArg List.length h
    simp only [List.length_drop, List.length_nil] at this
    omega
  have hmlen : (st.cur.take m).length = m := by
    rw [List.length_take]
    by_cases hc : st.cur = []
    · rw [hm0 hc]; simp
    · have := hm_cur hc; omega
  obtain ⟨p1, p2, p3, p4, p5⟩ := pushLoop_plain c e.kind hk (ns.drop m)
    ⟨st.cur.take m, decide (m < st.cur.length) || st.curIsDir || !(List.map C42.Comp.normal (ns.drop m)).isEmpty, st.isLeaf⟩ fs hdne
    (fun n hn => hv n (List.mem_of_mem_drop hn))
    (by
      intro k h0 hk'
      simp only at hk' ⊢
      by_cases hkd : k ≤ c.dest.length
      · rw [List.take_append_of_le_length hkd]; exact hdest k h0 hkd
      · rw [take_dest_append _ _ _ (by omega), List.take_take]
        simp only [List.length_append, hmlen] at hk'
        have hj : min (k - c.dest.length) m = k - c.dest.length := by omega
        rw [hj]
        by_cases hc : st.cur = []
        · have := hm0 hc; omega
        · exact hcur _ (by omega) (by have := hm_cur hc; omega))
    (by
      intro k h0 hk'
      simp only [List.length_drop] at hk'
      simp only
      have : c.dest ++ st.cur.take m ++ (ns.drop m).take k = c.dest ++ ns.take (m + k) := by
        rw [htake, List.append_assoc, List.take_add]
      rw [this]
      exact hnd (m + k) (by omega) (by omega))
  generalize pushLoop c e.kind (List.map C42.Comp.normal (ns.drop m))
    ⟨st.cur.take m, decide (m < st.cur.length) || st.curIsDir || !(List.map C42.Comp.normal (ns.drop m)).isEmpty, st.isLeaf⟩ fs = r
    at p1 p2 p3 p4 p5
  obtain ⟨st3, fs3, res3⟩ := r
  simp only at p1 p2 p3 p4 p5
  subst p1
  simp only [hk, Bool.not_false, Bool.true_or]
  have hcur3 : st3.cur = ns := by rw [p2, htake, List.take_append_drop]
  refine ⟨trivial, hcur3, trivial, ?_, ?_⟩
  · intro j h0 hj
    by_cases hjm : j ≤ m
    · -- a component shared with the previous path
      rw [p5]
      · have hc : st.cur ≠ [] := by intro hc; have := hm0 hc; omega
        have h1 : ns.take j = st.cur.take j := by
          have := congrArg (List.take j) htake
          rw [List.take_take, List.take_take] at this
          rw [Nat.min_eq_left hjm] at this
          exact this.symm
        rw [h1]
        exact hcur j h0 (by have := hm_cur hc; omega)
      · intro k h0' _ heq
        have := congrArg List.length heq
        simp only [List.length_append, List.length_take, hmlen] at this
        have hk2 : k ≤ (ns.drop m).length := by omega
        omega
    · have h1 : c.dest ++ ns.take j = c.dest ++ st.cur.take m ++ (ns.drop m).take (j - m) := by
        rw [htake, List.append_assoc, ← List.take_add]
        congr 2; omega
      rw [h1]
      exact p4 (j - m) (by omega) (by simp only [List.length_drop]; omega)
  · intro q hq
    rw [p5]
    intro k h0 hk' heq
    simp only [List.length_drop] at hk'
    apply hq (m + k) (by omega) (by omega)
    rw [heq, htake, List.append_assoc, List.take_add]



/-- what the index says has to be at the entry's path -/
def nodeOf (e : Entry) : Node :=
  match e.kind with
  | .file => .file e.data false
  | .exec => .file e.data true
  | .link => .link e.data
  | .gitlink => .dir

/-- an entry as git makes them: a non-empty relative path of normal components, every component
accepted by the validation, a file / executable / symlink (with a non-empty target) -/
structure PlainEntry (c : Cfg) (e : Entry) (ns : List Name) : Prop where
  comps : C42.components e.path = ns.map .normal
  ne : ns ≠ []
  pathNe : e.path.isEmpty = false
  valid : ∀ n ∈ ns, c.valid n (e.kind == .link) = true
  notDir : isDirMode e.kind = false
  target : e.kind = .link → e.data.isEmpty = false

theorem append_take_ne_of_lt (dest : Path) (ns : List Name) (j : Nat) (hj : j < ns.length) :
    dest ++ ns ≠ dest ++ ns.take j := by
  intro h
  have := congrArg List.length h
  simp only [List.length_append, List.length_take] at this
  omega

theorem checkoutEntry_plain (c : Cfg) (st : Stk) (fs : FS) (e : Entry) (ns : List Name) (hp : PlainEntry c e ns)
    (hind : st.cur ≠ [] → Indep st.cur ns)
    (hdest : ∀ k, 0 < k → k ≤ c.dest.length → fs (c.dest.take k) = some .dir)
    (hcur : ∀ j, 0 < j → j < st.cur.length → fs (c.dest ++ st.cur.take j) = some .dir)
    (hnd : ∀ j, 0 < j → j < ns.length → NoneOrDir fs (c.dest ++ ns.take j))
    (hfree : fs (c.dest ++ ns) = none) :
    (checkoutEntry c st fs e).2.2 = .written ∧ (checkoutEntry c st fs e).1.cur = ns ∧
    (checkoutEntry c st fs e).1.isLeaf = true ∧
    (checkoutEntry c st fs e).2.1 (c.dest ++ ns) = some (nodeOf e) ∧
    (∀ j, 0 < j → j < ns.length → (checkoutEntry c st fs e).2.1 (c.dest ++ ns.take j) = some .dir) ∧
    (∀ q, (∀ j, 0 < j → j ≤ ns.length → q ≠ c.dest ++ ns.take j) → (checkoutEntry c st fs e).2.1 q = fs q) := by
  obtain ⟨a1, a2, a3, a4, a5⟩ := atPath_plain c st fs e ns hp.notDir hp.comps hp.ne hp.pathNe hp.valid hind hdest hcur hnd
  unfold checkoutEntry
  generalize atPath c st fs e = r at a1 a2 a3 a4 a5
  obtain ⟨st1, fs1, res⟩ := r
  simp only at a1 a2 a3 a4 a5
  subst a1
  simp only
  rw [a2]
  have hnl : 0 < ns.length := List.length_pos_iff.mpr hp.ne
  have hfree1 : fs1 (c.dest ++ ns) = none := by
    rw [a5]; exact hfree
    intro j _ hj; exact append_take_ne_of_lt _ _ _ hj
  have hpd : ParentsDirs fs1 (c.dest ++ ns) := by
    intro k h0 hk'
    simp only [List.length_append] at hk'
    by_cases hkd : k ≤ c.dest.length
    · rw [List.take_append_of_le_length hkd, a5]
      · exact hdest k h0 hkd
      · intro j h0' _ heq
        have := congrArg List.length heq
        simp only [List.length_append, List.length_take] at this
        omega
    · rw [take_dest_append _ _ _ (by omega)]
      exact a4 _ (by omega) (by omega)
  -- writing the leaf
  have fin : ∀ (op : Op) (node : Node),
      tryOpOrUnlink c fs1 (c.dest ++ ns) op = (fs1.set (c.dest ++ ns) node, none) → node = nodeOf e →
      (classify (tryOpOrUnlink c fs1 (c.dest ++ ns) op).2 = .written ∧ st1.cur = ns ∧ st1.isLeaf = true ∧
       (tryOpOrUnlink c fs1 (c.dest ++ ns) op).1 (c.dest ++ ns) = some (nodeOf e) ∧
       (∀ j, 0 < j → j < ns.length → (tryOpOrUnlink c fs1 (c.dest ++ ns) op).1 (c.dest ++ ns.take j) = some .dir) ∧
       (∀ q, (∀ j, 0 < j → j ≤ ns.length → q ≠ c.dest ++ ns.take j) →
          (tryOpOrUnlink c fs1 (c.dest ++ ns) op).1 q = fs q)) := by
    intro op node hop hnode
    rw [hop]
    subst hnode
    simp only
    refine ⟨rfl, a2, a3, set_same _ _ _, ?_, ?_⟩
    · intro j h0 hj
      rw [set_other _ _ _ _ (fun h => append_take_ne_of_lt _ _ _ hj h.symm)]
      exact a4 j h0 hj
    · intro q hq
      rw [set_other _ _ _ _ (by
        have := hq ns.length hnl (Nat.le_refl _)
        rwa [List.take_length] at this)]
      exact a5 q (fun j h0 hj => hq j h0 (by omega))
  cases hk : e.kind with
  | file =>
    exact fin _ _ (tryOp_plain c fs1 _ _ (.file e.data (false || false)) hpd hfree1
      (Or.inl ⟨_, _, _, _, rfl, rfl⟩)) (by simp [nodeOf, hk])
  | exec =>
    exact fin _ _ (tryOp_plain c fs1 _ _ (.file e.data (true || !c.opts.empty)) hpd hfree1
      (Or.inl ⟨_, _, _, _, rfl, rfl⟩)) (by simp [nodeOf, hk])
  | link =>
    exact fin _ _ (tryOp_plain c fs1 _ _ (.link e.data) hpd hfree1
      (Or.inr ⟨_, rfl, hp.target hk, rfl⟩)) (by simp [nodeOf, hk])
  | gitlink => have := hp.notDir; rw [hk] at this; simp [isDirMode] at this



/-- process the entries one after the other, each with the worker it is assigned to -/
def runSeq (c : Cfg) (w : World) (seq : List (Nat × Entry)) : World := seq.foldl (fun w x => stepEntry c w x.1 x.2) w

theorem prefix_of_append_take_eq (dest : Path) (a b : List Name) (j : Nat) (h : dest ++ a = dest ++ b.take j) : a <+: b := by
  have := List.append_cancel_left h
  rw [this]; exact List.take_prefix j b

/-- the state between two entries of a conflict-free index -/
structure J (c : Cfg) (nm : Entry → List Name) (fs0 : FS) (w : World) (done todo : List Entry) : Prop where
  dest : ∀ k, 0 < k → k ≤ c.dest.length → w.fs (c.dest.take k) = some .dir
  isDone : ∀ e ∈ done, w.fs (c.dest ++ nm e) = some (nodeOf e)
  isFree : ∀ e ∈ todo, w.fs (c.dest ++ nm e) = none
  dirs : ∀ e, e ∈ done ∨ e ∈ todo → ∀ j, 0 < j → j < (nm e).length → NoneOrDir w.fs (c.dest ++ (nm e).take j)
  stack : ∀ t, (w.stacks t).cur = [] ∨ ∃ e ∈ done, (w.stacks t).cur = nm e
  stackDirs : ∀ t j, 0 < j → j < (w.stacks t).cur.length → w.fs (c.dest ++ (w.stacks t).cur.take j) = some .dir
  log : ∀ x ∈ w.log, x.2 = Outcome.written
  frame : ∀ q, (∀ e, e ∈ done ∨ e ∈ todo → ∀ j, 0 < j → j ≤ (nm e).length → q ≠ c.dest ++ (nm e).take j) → w.fs q = fs0 q

theorem runSeq_spec (c : Cfg) (nm : Entry → List Name) (fs0 : FS) :
    ∀ (todo : List (Nat × Entry)) (done : List Entry) (w : World),
    (∀ x ∈ todo, PlainEntry c x.2 (nm x.2)) →
    (∀ d ∈ done, ∀ x ∈ todo, Indep (nm d) (nm x.2)) →
    List.Pairwise (fun a b => Indep (nm a.2) (nm b.2)) todo →
    J c nm fs0 w done (todo.map (·.2)) → J c nm fs0 (runSeq c w todo) (done ++ todo.map (·.2)) [] := by
  intro todo
  induction todo with
  | nil => intro done w _ _ _ hj; simpa [runSeq] using hj
  | cons x rest ih =>
    obtain ⟨t, e⟩ := x
    intro done w hplain hcross hpw hj
    have hp := hplain (t, e) (by simp)
    have hpw' := List.pairwise_cons.mp hpw
    simp only [List.map_cons] at hj
    -- one entry
    have hind : (w.stacks t).cur ≠ [] → Indep (w.stacks t).cur (nm e) := by
      intro hne
      rcases hj.stack t with h | ⟨d, hd, h⟩
      · exact absurd h hne
      · rw [h]; exact hcross d hd (t, e) (by simp)
    obtain ⟨r1, r2, r3, r4, r5, r6⟩ := checkoutEntry_plain c (w.stacks t) w.fs e (nm e) hp hind hj.dest (hj.stackDirs t)
      (hj.dirs e (Or.inr (by simp))) (hj.isFree e (by simp))
    have hstep : runSeq c w ((t, e) :: rest) = runSeq c (stepEntry c w t e) rest := by simp [runSeq]
    rw [hstep]
    have hassoc : done ++ List.map (·.2) ((t, e) :: rest) = (done ++ [e]) ++ rest.map (·.2) := by simp
    rw [hassoc]
    have hrestmem : ∀ y, y ∈ rest.map (·.2) → ∃ x ∈ rest, x.2 = y := by
      intro y hy
      obtain ⟨x, hx, hxy⟩ := List.mem_map.mp hy
      exact ⟨x, hx, hxy⟩
    apply ih (done ++ [e]) (stepEntry c w t e) (fun x hx => hplain x (by simp [hx]))
    · intro d hd x hx
      rcases List.mem_append.mp hd with h | h
      · exact hcross d h x (by simp [hx])
      · simp only [List.mem_singleton] at h; subst h; exact hpw'.1 x hx
    · exact hpw'.2
    · -- the invariant after the step
      -- a path of another entry (done or still to do) that equals the entry's own path or one of its
      -- leading directories makes one name list a prefix of the other
      have hother : ∀ y, (y ∈ done ∨ y ∈ rest.map (·.2)) → Indep (nm y) (nm e) := by
        intro y hy
        rcases hy with h | h
        · exact hcross y h (t, e) (by simp)
        · obtain ⟨x, hx, rfl⟩ := hrestmem y h
          have := hpw'.1 x hx
          exact ⟨this.2, this.1⟩
      simp only [stepEntry]
      refine ⟨?_, ?_, ?_, ?_, ?_, ?_, ?_, ?_⟩
      · intro k h0 hk
        simp only
        rw [r6]
        · exact hj.dest k h0 hk
        · intro j h0' _ heq
          have := congrArg List.length heq
          simp only [List.length_append, List.length_take] at this
          omega
      · intro y hy
        simp only
        rcases List.mem_append.mp hy with h | h
        · rw [r6]
          · exact hj.isDone y h
          · intro j _ _ heq
            exact (hother y (Or.inl h)).1 (prefix_of_append_take_eq _ _ _ _ heq)
        · simp only [List.mem_singleton] at h; subst h; exact r4
      · intro y hy
        simp only
        rw [r6]
        · exact hj.isFree y (by simp [hy])
        · intro j _ _ heq
          exact (hother y (Or.inr hy)).1 (prefix_of_append_take_eq _ _ _ _ heq)
      · intro y hy i h0 hi
        simp only
        have hy' : y = e ∨ (y ∈ done ∨ y ∈ rest.map (·.2)) := by
          rcases hy with h | h
          · rcases List.mem_append.mp h with h | h
            · exact Or.inr (Or.inl h)
            · exact Or.inl (by simpa using h)
          · exact Or.inr (Or.inr h)
        by_cases ht : ∃ j, 0 < j ∧ j ≤ (nm e).length ∧ c.dest ++ (nm y).take i = c.dest ++ (nm e).take j
        · obtain ⟨j, hj0, hjl, heq⟩ := ht
          by_cases hjlt : j < (nm e).length
          · right; rw [heq]; exact r5 j hj0 hjlt
          · exfalso
            have hjeq : j = (nm e).length := by omega
            rw [hjeq, List.take_length] at heq
            have hpre : nm e <+: nm y := by
              have := List.append_cancel_left heq
              rw [← this]; exact List.take_prefix i (nm y)
            rcases hy' with h | h
            · subst h
              have := congrArg List.length (List.append_cancel_left heq)
              simp only [List.length_take] at this
              omega
            · exact (hother y h).2 hpre
        · have hsame : (checkoutEntry c (w.stacks t) w.fs e).2.1 (c.dest ++ (nm y).take i) = w.fs (c.dest ++ (nm y).take i) := by
            apply r6
            intro j hj0 hjl heq
            exact ht ⟨j, hj0, hjl, heq⟩
          unfold NoneOrDir
          rw [hsame]
          rcases hy' with h | h | h
          · subst h; exact hj.dirs y (Or.inr (by simp)) i h0 hi
          · exact hj.dirs y (Or.inl h) i h0 hi
          · exact hj.dirs y (Or.inr (by simp [h])) i h0 hi
      · intro u
        simp only
        by_cases hu : u = t
        · simp only [hu, if_true]; right; exact ⟨e, by simp, r2⟩
        · simp only [hu, if_false]
          rcases hj.stack u with h | ⟨d, hd, h⟩
          · exact Or.inl h
          · exact Or.inr ⟨d, by simp [hd], h⟩
      · intro u j h0 hjl
        simp only at hjl ⊢
        by_cases hu : u = t
        · simp only [hu, if_true] at hjl ⊢
          rw [r2] at hjl ⊢
          exact r5 j h0 hjl
        · simp only [hu, if_false] at hjl ⊢
          -- the stack of another worker: its path is that of an entry already done
          rcases hj.stack u with h | ⟨d, hd, h⟩
          · rw [h] at hjl; simp at hjl
          · by_cases ht : ∃ j', 0 < j' ∧ j' ≤ (nm e).length ∧ c.dest ++ (w.stacks u).cur.take j = c.dest ++ (nm e).take j'
            · obtain ⟨j', hj0, hjl', heq⟩ := ht
              by_cases hjlt : j' < (nm e).length
              · rw [heq]; exact r5 j' hj0 hjlt
              · exfalso
                have hjeq : j' = (nm e).length := by omega
                rw [hjeq, List.take_length, h] at heq
                have hpre : nm e <+: nm d := by
                  have := List.append_cancel_left heq
                  rw [← this]; exact List.take_prefix j (nm d)
                exact (hother d (Or.inl hd)).2 hpre
            · rw [r6]
              · exact hj.stackDirs u j h0 hjl
              · intro j' hj0 hjl' heq
                exact ht ⟨j', hj0, hjl', heq⟩
      · intro y hy
        simp only [List.mem_cons] at hy
        rcases hy with h | h
        · rw [h]; exact r1
        · exact hj.log y h
      · intro q hq
        simp only
        rw [r6]
        · apply hj.frame q
          intro y hy j h0 hjl
          rcases hy with h | h
          · exact hq y (Or.inl (by simp [h])) j h0 hjl
          · simp only [List.mem_cons] at h
            rcases h with h | h
            · subst h; exact hq y (Or.inl (by simp)) j h0 hjl
            · exact hq y (Or.inr h) j h0 hjl
        · intro j h0 hjl
          exact hq e (Or.inl (by simp)) j h0 hjl



/-- the order in which `checkout` handles the entries: phase 1 takes everything but the symlinks
from the schedule, phase 2 the symlinks of the index with worker `t2` -/
def procSeq (sched : List (Nat × Entry)) (es : List Entry) (t2 : Nat) : List (Nat × Entry) :=
  sched.filter (fun x => decide (x.2.kind ≠ .link)) ++ (es.filter (fun e => decide (e.kind = .link))).map (fun e => (t2, e))

theorem phase1_eq_runSeq (c : Cfg) : ∀ (sched : List (Nat × Entry)) (w : World),
    phase1 c w sched = runSeq c w (sched.filter (fun x => decide (x.2.kind ≠ .link)))
  | [], w => rfl
  | (t, e) :: rest, w => by
    simp only [phase1]
    by_cases hk : e.kind = .link
    · simp only [hk, if_true, List.filter_cons, ne_eq, not_true_eq_false, decide_false, Bool.false_eq_true, if_false]
      exact phase1_eq_runSeq c rest w
    · simp only [hk, if_false, List.filter_cons, ne_eq, not_false_eq_true, decide_true, if_true]
      rw [phase1_eq_runSeq c rest]
      simp [runSeq]

theorem phase2_eq_runSeq (c : Cfg) (t2 : Nat) : ∀ (es : List Entry) (w : World),
    phase2 c t2 w es = runSeq c w ((es.filter (fun e => decide (e.kind = .link))).map (fun e => (t2, e)))
  | [], w => rfl
  | e :: rest, w => by
    simp only [phase2]
    by_cases hk : e.kind = .link
    · simp only [hk, if_true, List.filter_cons, decide_true, List.map_cons]
      rw [phase2_eq_runSeq c t2 rest]
      simp [runSeq]
    · simp only [hk, if_false, List.filter_cons, decide_false, Bool.false_eq_true]
      exact phase2_eq_runSeq c t2 rest w

theorem runSeq_append (c : Cfg) (w : World) (a b : List (Nat × Entry)) :
    runSeq c w (a ++ b) = runSeq c (runSeq c w a) b := by simp [runSeq]

theorem checkout_eq_runSeq (c : Cfg) (fs : FS) (sched : List (Nat × Entry)) (es : List Entry) (t2 : Nat) :
    checkout c fs sched es t2 = runSeq c (World.init fs) (procSeq sched es t2) := by
  unfold checkout procSeq
  rw [runSeq_append, phase1_eq_runSeq, phase2_eq_runSeq]

theorem indep_symm {a b : List Name} (h : Indep a b) : Indep b a := ⟨h.2, h.1⟩

theorem pairwise_mem {α} (R : α → α → Prop) (hs : ∀ a b, R a b → R b a) :
    ∀ (l : List α), l.Pairwise R → ∀ a ∈ l, ∀ b ∈ l, a ≠ b → R a b
  | [], _, a, ha, _, _, _ => by simp at ha
  | x :: xs, hp, a, ha, b, hb, hab => by
    obtain ⟨h1, h2⟩ := List.pairwise_cons.mp hp
    rcases List.mem_cons.mp ha with rfl | ha'
    · rcases List.mem_cons.mp hb with rfl | hb'
      · exact absurd rfl hab
      · exact h1 b hb'
    · rcases List.mem_cons.mp hb with rfl | hb'
      · exact hs _ _ (h1 a ha')
      · exact pairwise_mem R hs xs h2 a ha' b hb' hab

/-- The processing order of a schedule that hands out exactly the entries of the index is pairwise
independent if the index is. -/
theorem procSeq_pairwise (nm : Entry → List Name) (sched : List (Nat × Entry)) (es : List Entry) (t2 : Nat)
    (hperm : (sched.map (·.2)).Perm es) (hpw : es.Pairwise (fun a b => Indep (nm a) (nm b))) :
    (procSeq sched es t2).Pairwise (fun a b => Indep (nm a.2) (nm b.2)) := by
  have hsym : ∀ a b : Entry, Indep (nm a) (nm b) → Indep (nm b) (nm a) := fun _ _ h => indep_symm h
  have hpw2 : (sched.map (·.2)).Pairwise (fun a b => Indep (nm a) (nm b)) :=
    (hperm.pairwise_iff (fun h => indep_symm h)).mpr hpw
  unfold procSeq
  rw [List.pairwise_append]
  refine ⟨?_, ?_, ?_⟩
  · exact (List.pairwise_map.mp hpw2).filter _
  · rw [List.pairwise_map]
    exact hpw.filter _
  · intro a ha b hb
    simp only [List.mem_filter, decide_eq_true_eq] at ha
    obtain ⟨e, he, rfl⟩ := List.mem_map.mp hb
    simp only [List.mem_filter, decide_eq_true_eq] at he
    have ha_es : a.2 ∈ es := hperm.mem_iff.mp (List.mem_map.mpr ⟨a, ha.1, rfl⟩)
    exact pairwise_mem _ hsym es hpw a.2 ha_es e he.1 (by
      intro h; exact ha.2 (by rw [h]; exact he.2))

theorem procSeq_mem (sched : List (Nat × Entry)) (es : List Entry) (t2 : Nat)
    (hperm : (sched.map (·.2)).Perm es) (e : Entry) :
    e ∈ (procSeq sched es t2).map (·.2) ↔ e ∈ es := by
  unfold procSeq
  simp only [List.map_append, List.map_map, List.mem_append, List.mem_map, List.mem_filter, decide_eq_true_eq,
    Function.comp]
  constructor
  · rintro (⟨x, ⟨hx, _⟩, rfl⟩ | ⟨x, ⟨hx, _⟩, rfl⟩)
    · exact hperm.mem_iff.mp (List.mem_map.mpr ⟨x, hx, rfl⟩)
    · exact hx
  · intro he
    by_cases hk : e.kind = .link
    · exact Or.inr ⟨e, ⟨he, hk⟩, rfl⟩
    · obtain ⟨x, hx, rfl⟩ := List.mem_map.mp (hperm.mem_iff.mpr he)
      exact Or.inl ⟨x, ⟨hx, hk⟩, rfl⟩

theorem checkout_reproduces (c : Cfg) (fs : FS) (nm : Entry → List Name) (sched : List (Nat × Entry))
    (es : List Entry) (t2 : Nat) (hperm : (sched.map (·.2)).Perm es)
    (hplain : ∀ e ∈ es, PlainEntry c e (nm e))
    (hconf : es.Pairwise (fun a b => Indep (nm a) (nm b)))
    (hdest : ∀ k, 0 < k → k ≤ c.dest.length → fs (c.dest.take k) = some .dir)
    (hfree : ∀ e ∈ es, fs (c.dest ++ nm e) = none)
    (hdirs : ∀ e ∈ es, ∀ j, 0 < j → j < (nm e).length → NoneOrDir fs (c.dest ++ (nm e).take j)) :
    (∀ e ∈ es, (checkout c fs sched es t2).fs (c.dest ++ nm e) = some (nodeOf e)) ∧
    (∀ x ∈ (checkout c fs sched es t2).log, x.2 = Outcome.written) ∧
    (∀ q, (∀ e ∈ es, ∀ j, 0 < j → j ≤ (nm e).length → q ≠ c.dest ++ (nm e).take j) →
      (checkout c fs sched es t2).fs q = fs q) := by
  rw [checkout_eq_runSeq]
  have hmem := procSeq_mem sched es t2 hperm
  have hj0 : J c nm fs (World.init fs) [] ((procSeq sched es t2).map (·.2)) := by
    refine ⟨hdest, by simp, ?_, ?_, fun _ => Or.inl rfl, ?_, by simp [World.init], fun _ _ => rfl⟩
    · intro e he; exact hfree e ((hmem e).mp he)
    · intro e he
      rcases he with h | h
      · simp at h
      · exact hdirs e ((hmem e).mp h)
    · intro t j _ hj; simp [World.init, Stk.new] at hj
  have hfin := runSeq_spec c nm fs (procSeq sched es t2) [] (World.init fs)
    (fun x hx => hplain x.2 ((hmem x.2).mp (List.mem_map.mpr ⟨x, hx, rfl⟩)))
    (by simp) (procSeq_pairwise nm sched es t2 hperm hconf) hj0
  simp only [List.nil_append] at hfin
  refine ⟨fun e he => hfin.isDone e ((hmem e).mpr he), hfin.log, ?_⟩
  intro q hq
  apply hfin.frame q
  intro e he j h0 hjl
  rcases he with h | h
  · exact hq e ((hmem e).mp h) j h0 hjl
  · simp at h



end GixModel.C41
