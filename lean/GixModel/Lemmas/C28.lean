import GixModel.Spec.C28
import GixModel.Lemmas.C27
/-
Helper lemmas for C28: escaping round-trips through `normalize`, what `push` appends, how a call
changes the list of sections, and the list surgery of `set` / `remove`.
-/
namespace GixModel.C28
open GixModel GixModel.C26 GixModel.C27

def esc1 (b : UInt8) : Bytes :=
  if b == 10 then [92, 110] else if b == 9 then [92, 116] else if b == 34 then [92, 34]
  else if b == 92 then [92, 92] else [b]

def escInner (v : Bytes) : Bytes := v.flatMap esc1

theorem escapeValue_eq (v : Bytes) : escapeValue v =
    if (v.head?.any isAsciiWs || v.getLast?.any isAsciiWs || v.any (fun b => b == 59 || b == 35))
    then [34] ++ escInner v ++ [34] else escInner v := by
  unfold escapeValue escInner esc1; rfl

/-- reading back what `escape_value` wrote, with anything after it: exactly the bytes, then the rest -/
theorem unescLoop_escInner : ∀ (v tail out : Bytes), unescLoop (escInner v ++ tail) out = unescLoop tail (out ++ v) := by
  intro v
  induction v with
  | nil => intro tail out; simp [escInner]
  | cons b t ih =>
    intro tail out
    have hstep : unescLoop (esc1 b ++ (escInner t ++ tail)) out = unescLoop (escInner t ++ tail) (out ++ [b]) := by
      unfold esc1
      by_cases h10 : b = 10
      · subst h10; simp [unescLoop]
      · by_cases h9 : b = 9
        · subst h9; simp [unescLoop]
        · by_cases h34 : b = 34
          · subst h34; simp [unescLoop]
          · by_cases h92 : b = 92
            · subst h92; simp [unescLoop]
            · simp only [beq_iff_eq, h10, h9, h34, h92, ↓reduceIte]
              cases hrest : escInner t ++ tail with
              | nil => simp [unescLoop, h92, h34]
              | cons d r => simp [unescLoop, h92, h34]
    have : escInner (b :: t) ++ tail = esc1 b ++ (escInner t ++ tail) := by simp [escInner]
    rw [this, hstep, ih]; simp

/-- What `set` / `push` write reads back — through `normalize` — as exactly the value given,
for every byte string. -/
theorem normalize_escapeValue (v : Bytes) : normalize (escapeValue v) = v := by
  rw [normalize_eq, escapeValue_eq]
  split
  · have : [34] ++ escInner v ++ [34] = 34 :: (escInner v ++ [34]) := by simp
    rw [this, unescLoop_cons_quote, unescLoop_escInner]
    simp [unescLoop]
  · have := unescLoop_escInner v [] []
    simpa [unescLoop] using this

/-- state of the entry scan after a run of events: the pending key and the value text so far -/
def entState : List Event → Option Bytes → Bytes → Option Bytes × Bytes
  | [], cur, acc => (cur, acc)
  | e :: rest, cur, acc =>
    match e, cur with
    | .name n, _ => entState rest (some n) []
    | .value _, some _ => entState rest none []
    | .done _, some _ => entState rest none []
    | .notDone v, some _ => entState rest cur (acc ++ v)
    | _, _ => entState rest cur acc

theorem bodyEntries_append (h : Header) : ∀ (a b : List Event) (cur : Option Bytes) (acc : Bytes),
    bodyEntries h (a ++ b) cur acc =
      bodyEntries h a cur acc ++ bodyEntries h b (entState a cur acc).1 (entState a cur acc).2 := by
  intro a
  induction a with
  | nil => intro b cur acc; simp [bodyEntries, entState]
  | cons e rest ih =>
    intro b cur acc
    cases e <;> cases cur <;> simp [bodyEntries, entState, ih]

theorem bodyEntries_skip (h : Header) (pre rest : List Event) (hp : ∀ e ∈ pre, isNewline e = true ∨ (∃ x, e = .ws x) ∨ e = .sep)
    (cur : Option Bytes) (acc : Bytes) : bodyEntries h (pre ++ rest) cur acc = bodyEntries h rest cur acc := by
  induction pre with
  | nil => rfl
  | cons e t ih =>
    have he := hp e (by simp)
    have := ih (fun x hx => hp x (by simp [hx]))
    rcases he with he | ⟨x, rfl⟩ | rfl
    · cases e <;> simp [isNewline] at he
      cases cur <;> simp [bodyEntries, this]
    · cases cur <;> simp [bodyEntries, this]
    · cases cur <;> simp [bodyEntries, this]

theorem seps_skip (w : Ws) : ∀ e ∈ w.seps, isNewline e = true ∨ (∃ x, e = .ws x) ∨ e = .sep := by
  intro e he
  unfold Ws.seps at he
  cases hp : w.preSep <;> cases hq : w.postSep <;> simp [hp, hq] at he <;> rcases he with h | h | h <;> simp_all

theorem pushSuffix_entries (h : Header) (w : Ws) (nl : Bytes) (body : List Event) (key : Bytes)
    (value : Option Bytes) (cur : Option Bytes) (acc : Bytes) :
    bodyEntries h (pushSuffix w nl body key value) cur acc =
      [{ sect := h.name, sub := h.sub, key := key, value := (value.map escapeValue).getD [] }] := by
  unfold pushSuffix
  have pre_ok : ∀ e ∈ nlIfComment nl body ++ w.preKeyEvs,
      isNewline e = true ∨ (∃ x, e = .ws x) ∨ e = .sep := by
    intro e he
    simp only [List.mem_append] at he
    rcases he with he | he
    · unfold nlIfComment at he
      split at he <;> simp at he; subst he; simp [isNewline]
    · unfold Ws.preKeyEvs at he
      split at he <;> simp at he; subst he; simp
  rw [List.append_assoc, List.append_assoc, bodyEntries_skip h _ _ pre_ok]
  unfold valueEvs
  cases value with
  | none => cases cur <;> simp [bodyEntries]
  | some v =>
    simp only [List.cons_append, List.nil_append, Option.map_some, Option.getD_some]
    have : bodyEntries h (.name key :: (w.seps ++ [.value (escapeValue v)] ++ [.newline nl])) cur acc =
        bodyEntries h (w.seps ++ ([.value (escapeValue v)] ++ [.newline nl])) (some key) [] := by
      cases cur <;> simp [bodyEntries]
    rw [this, bodyEntries_skip h _ _ (seps_skip w)]
    simp [bodyEntries]

theorem pushSuffix_comments (w : Ws) (nl : Bytes) (body : List Event) (key : Bytes) (value : Option Bytes) :
    commentsOf (pushSuffix w nl body key value) = [] := by
  unfold pushSuffix commentsOf nlIfComment Ws.preKeyEvs valueEvs Ws.seps
  cases hb : body.getLast? with
  | none => cases w.preKey <;> cases value <;> cases w.preSep <;> cases w.postSep <;> simp [isComment]
  | some e =>
    cases e <;> cases w.preKey <;> cases value <;> cases w.preSep <;> cases w.postSep <;> simp [isComment]

@[simp] theorem modifySec_front (f : FileS) (i : Nat) (g : Sec → Sec) : (modifySec f i g).front = f.front := rfl
@[simp] theorem modifySec_reg (f : FileS) (i : Nat) (g : Sec → Sec) : (modifySec f i g).reg = f.reg := rfl
@[simp] theorem modifySec_sections (f : FileS) (i : Nat) (g : Sec → Sec) :
    (modifySec f i g).sections = f.sections.modify i g := rfl
@[simp] theorem register_front (f : FileS) (h : Header) : (register f h).front = f.front := rfl
@[simp] theorem register_sections (f : FileS) (h : Header) : (register f h).sections = f.sections := rfl

theorem modify_last {α} (l : List α) (a : α) (g : α → α) : (l ++ [a]).modify l.length g = l ++ [g a] := by
  induction l with
  | nil => simp [List.modify]
  | cons x t ih => simp [ih]

theorem newSection_ok {f f' : FileS} {name : Bytes} {sub : Option Bytes} (h : newSection f name sub = .ok f') :
    f'.front = f.front ∧ ∃ s : Sec, f'.sections = f.sections ++ [s] ∧ s.entries = [] ∧ commentsOf s.body = [] ∧
      headerNew name sub = .ok s.header := by
  unfold newSection at h
  split at h
  · simp at h
  · rename_i hd hh
    simp only [Outcome.ok.injEq] at h
    subst h
    refine ⟨rfl, ?_⟩
    simp only [modifySec_sections, register_sections, List.length_append, List.length_cons, List.length_nil,
      Nat.add_sub_cancel, Nat.zero_add]
    rw [modify_last]
    exact ⟨_, rfl, by simp [Sec.entries, bodyEntries], by simp [commentsOf, isComment], hh⟩

/-- how one successful call changes the list of sections: one section is modified in place, or one
is appended, or one is removed; the front matter never changes -/
inductive SectionsStep (a b : List Sec) : Prop
  | modified (i : Nat) (g : Sec → Sec) (h : b = a.modify i g)
  | appended (s : Sec) (h : b = a ++ [s])
  | removed (i : Nat) (h : b = a.eraseIdx i)

theorem apply_frame (f f' : FileS) (op : Op) (h : apply f op = .ok f') :
    f'.front = f.front ∧ SectionsStep f.sections f'.sections := by
  cases op with
  | set sec sub key value =>
    simp only [apply] at h
    split at h
    · simp at h
    · -- the target: an existing section or a new one
      split at h
      · simp at h
      · simp at h
      · rename_i f1 i htarget
        simp only [Outcome.ok.injEq] at h
        subst h
        -- either f1 = f or f1 = f with a section appended and i the last index
        have key : (f1 = f) ∨ (∃ s, f1.front = f.front ∧ f1.sections = f.sections ++ [s] ∧ i = f.sections.length) := by
          revert htarget
          split
          · rename_i ids hids
            split
            · intro hh; simp at hh; exact Or.inl hh.1.symm
            · split
              · rename_i f2 hn
                intro hh; simp at hh
                obtain ⟨hfr, s, hs, _⟩ := newSection_ok hn
                refine Or.inr ⟨s, ?_, ?_, ?_⟩
                · rw [← hh.1]; exact hfr
                · rw [← hh.1]; exact hs
                · rw [← hh.2, hs]; simp
              · intro hh; simp at hh
              · intro hh; simp at hh
          · split
            · rename_i f2 hn
              intro hh; simp at hh
              obtain ⟨hfr, s, hs, _⟩ := newSection_ok hn
              refine Or.inr ⟨s, ?_, ?_, ?_⟩
              · rw [← hh.1]; exact hfr
              · rw [← hh.1]; exact hs
              · rw [← hh.2, hs]; simp
            · intro hh; simp at hh
            · intro hh; simp at hh
        rcases key with rfl | ⟨s, hfr, hs, hi⟩
        · exact ⟨rfl, .modified i _ rfl⟩
        · refine ⟨hfr, ?_⟩
          simp only [modifySec_sections, hs, hi]
          rw [modify_last]
          exact .appended _ rfl
  | setExisting sec sub key value =>
    simp only [apply] at h
    split at h
    · simp at h
    · split at h
      · simp at h
      · simp only [Outcome.ok.injEq] at h; subst h; exact ⟨rfl, .modified _ _ rfl⟩
  | push sec sub key value =>
    simp only [apply] at h
    split at h
    · simp at h
    · simp at h
    · split at h
      · simp at h
      · simp only [Outcome.ok.injEq] at h; subst h; exact ⟨rfl, .modified _ _ rfl⟩
  | remove sec sub key =>
    simp only [apply] at h
    split at h
    · simp at h
    · simp at h
    · split at h
      · simp at h
      · simp only [Outcome.ok.injEq] at h; subst h; exact ⟨rfl, .modified _ _ rfl⟩
  | newSection name sub =>
    simp only [apply] at h
    obtain ⟨hfr, s, hs, _⟩ := newSection_ok h
    exact ⟨hfr, .appended s hs⟩
  | removeSection name sub =>
    simp only [apply] at h
    split at h
    · simp at h
    · split at h
      · simp at h
      · simp only [Outcome.ok.injEq] at h; subst h; exact ⟨rfl, .removed _ rfl⟩
  | rename name sub newName newSub =>
    simp only [apply] at h
    split at h
    · simp at h
    · simp at h
    · split at h
      · simp at h
      · simp only [Outcome.ok.injEq] at h; subst h; exact ⟨rfl, .modified _ _ rfl⟩

theorem apply_frame_keep (f f' : FileS) (op : Op) (h : apply f op = .ok f') (hr : op.isRemoveSection = false) :
    (∃ i g, f'.sections = f.sections.modify i g) ∨ (∃ s, f'.sections = f.sections ++ [s]) := by
  cases op with
  | set sec sub key value =>
    simp only [apply] at h
    split at h
    · simp at h
    · -- the target: an existing section or a new one
      split at h
      · simp at h
      · simp at h
      · rename_i f1 i htarget
        simp only [Outcome.ok.injEq] at h
        subst h
        -- either f1 = f or f1 = f with a section appended and i the last index
        have key : (f1 = f) ∨ (∃ s, f1.front = f.front ∧ f1.sections = f.sections ++ [s] ∧ i = f.sections.length) := by
          revert htarget
          split
          · rename_i ids hids
            split
            · intro hh; simp at hh; exact Or.inl hh.1.symm
            · split
              · rename_i f2 hn
                intro hh; simp at hh
                obtain ⟨hfr, s, hs, _⟩ := newSection_ok hn
                refine Or.inr ⟨s, ?_, ?_, ?_⟩
                · rw [← hh.1]; exact hfr
                · rw [← hh.1]; exact hs
                · rw [← hh.2, hs]; simp
              · intro hh; simp at hh
              · intro hh; simp at hh
          · split
            · rename_i f2 hn
              intro hh; simp at hh
              obtain ⟨hfr, s, hs, _⟩ := newSection_ok hn
              refine Or.inr ⟨s, ?_, ?_, ?_⟩
              · rw [← hh.1]; exact hfr
              · rw [← hh.1]; exact hs
              · rw [← hh.2, hs]; simp
            · intro hh; simp at hh
            · intro hh; simp at hh
        rcases key with rfl | ⟨s, hfr, hs, hi⟩
        · exact Or.inl ⟨i, _, rfl⟩
        · right
          simp only [modifySec_sections, hs, hi]
          rw [modify_last]
          exact ⟨_, rfl⟩
  | setExisting sec sub key value =>
    simp only [apply] at h
    split at h
    · simp at h
    · split at h
      · simp at h
      · simp only [Outcome.ok.injEq] at h; subst h; exact Or.inl ⟨_, _, rfl⟩
  | push sec sub key value =>
    simp only [apply] at h
    split at h
    · simp at h
    · simp at h
    · split at h
      · simp at h
      · simp only [Outcome.ok.injEq] at h; subst h; exact Or.inl ⟨_, _, rfl⟩
  | remove sec sub key =>
    simp only [apply] at h
    split at h
    · simp at h
    · simp at h
    · split at h
      · simp at h
      · simp only [Outcome.ok.injEq] at h; subst h; exact Or.inl ⟨_, _, rfl⟩
  | newSection name sub =>
    simp only [apply] at h
    obtain ⟨hfr, s, hs, _⟩ := newSection_ok h
    exact Or.inr ⟨s, hs⟩
  | removeSection name sub => simp [Op.isRemoveSection] at hr
  | rename name sub newName newSub =>
    simp only [apply] at h
    split at h
    · simp at h
    · simp at h
    · split at h
      · simp at h
      · simp only [Outcome.ok.injEq] at h; subst h; exact Or.inl ⟨_, _, rfl⟩


/-- over ANY history the front matter is untouched -/
theorem applyAll_front : ∀ (ops : List Op) (f : FileS), (applyAll f ops).front = f.front := by
  intro ops
  induction ops with
  | nil => intro f; rfl
  | cons op rest ih =>
    intro f
    simp only [applyAll]
    split
    · rename_i f1 h
      rw [ih f1, (apply_frame f f1 op h).1]
    · exact ih f

theorem rangeScan_bounds (key : Bytes) (n : Nat) : ∀ (l : List (Nat × Event)) (s0 t0 : Nat),
    (∀ p ∈ l, p.1 < n) → s0 < n → t0 < n → ∀ ks s t, rangeScan key l s0 t0 = some (ks, s, t) →
      ks < n ∧ s < n ∧ t < n := by
  intro l
  induction l with
  | nil => intro s0 t0 _ _ _ ks s t h; simp [rangeScan] at h
  | cons p rest ih =>
    intro s0 t0 hl hs ht ks s t h
    obtain ⟨i, e⟩ := p
    have hi : i < n := hl (i, e) (by simp)
    have hrest : ∀ p ∈ rest, p.1 < n := fun p hp => hl p (by simp [hp])
    have h0 : 0 < n := by omega
    cases e <;> simp only [rangeScan] at h
    case name k =>
      split at h
      · simp at h; obtain ⟨rfl, rfl, rfl⟩ := h; exact ⟨hi, hs, ht⟩
      · exact ih 0 0 hrest h0 h0 ks s t h
    case value v => exact ih i i hrest hi hi ks s t h
    case notDone v =>
      split at h
      · exact ih s0 i hrest hs hi ks s t h
      · exact ih i t0 hrest hi ht ks s t h
    case done v =>
      split at h
      · exact ih s0 i hrest hs hi ks s t h
      · exact ih i t0 hrest hi ht ks s t h
    all_goals exact ih s0 t0 hrest hs ht ks s t h

theorem indexed_fst_lt (body : List Event) : ∀ p ∈ (indexed body).reverse, p.1 < body.length := by
  intro p hp
  have hp' : p ∈ indexed body := by simpa using hp
  unfold indexed at hp'
  have := List.of_mem_zip hp'
  simpa using this.1

/-- the indices `key_and_value_range_by` returns lie inside the body -/
theorem keyAndValueRange_bounds {key : Bytes} {body : List Event} {ks ke : Nat} {vr : Option (Nat × Nat)}
    (h : keyAndValueRange key body = some ((ks, ke), vr)) :
    ks < body.length ∧ ke ≤ body.length ∧ 1 ≤ ke ∧ (∀ s t, vr = some (s, t) → s < body.length ∧ t = ke) := by
  unfold keyAndValueRange at h
  split at h
  · simp at h
  · rename_i ks' s t hr
    by_cases hn : body.length = 0
    · have : body = [] := List.eq_nil_of_length_eq_zero hn
      subst this; simp [indexed, rangeScan] at hr
    · have hb := rangeScan_bounds key body.length _ 0 0 (indexed_fst_lt body) (by omega) (by omega) _ _ _ hr
      simp only [Option.some.injEq, Prod.mk.injEq] at h
      obtain ⟨⟨rfl, rfl⟩, hv⟩ := h
      refine ⟨hb.1, by omega, by omega, ?_⟩
      intro s' t' hvr
      rw [← hv] at hvr
      split at hvr
      · simp at hvr; obtain ⟨rfl, rfl⟩ := hvr; exact ⟨hb.2.1, rfl⟩
      · simp at hvr

theorem take_drop_splice {α} (l : List α) (s t : Nat) (x : α) (hs : s ≤ l.length) :
    (l.take s ++ l.drop t).take s ++ [x] ++ (l.take s ++ l.drop t).drop s = l.take s ++ [x] ++ l.drop t := by
  have hlen : (l.take s).length = s := by simp [List.length_take]; omega
  rw [List.take_append_of_le_length (by omega), List.take_of_length_le (by omega)]
  rw [List.drop_append_of_le_length (by omega), List.drop_of_length_le (by omega)]
  simp

/-- `set` on a key that is present: exactly the events of the span `[s, t)` that
`key_and_value_range_by` computed are replaced by ONE value event; every event before `s` and
every event from `t` on is the one that was there -/
theorem setBody_present (w : Ws) (nl : Bytes) (body : List Event) (key value : Bytes) (ks ke : Nat)
    (vr : Option (Nat × Nat)) (h : keyAndValueRange key body = some ((ks, ke), vr)) :
    setBody w nl body key value =
      body.take (vr.getD (ke - 1, ke)).1 ++ [.value (escapeValue value)] ++ body.drop (vr.getD (ke - 1, ke)).2 := by
  obtain ⟨_, hke, h1, hv⟩ := keyAndValueRange_bounds h
  have hs : (vr.getD (ke - 1, ke)).1 ≤ body.length := by
    cases vr with
    | none => simp; omega
    | some p => obtain ⟨s, t⟩ := p; have := (hv s t rfl).1; simp; omega
  unfold setBody
  simp only [h, removeInternal, Bool.false_and, Bool.false_eq_true, ↓reduceIte]
  exact take_drop_splice body _ _ _ hs

theorem setBody_absent (w : Ws) (nl : Bytes) (body : List Event) (key value : Bytes)
    (h : keyAndValueRange key body = none) :
    setBody w nl body key value = body ++ pushSuffix w nl body key (some value) := by
  unfold setBody pushBody; simp [h]

theorem eraseIdx_eq_take_drop {α} (l : List α) (i : Nat) : l.eraseIdx i = l.take i ++ l.drop (i + 1) := by
  induction l generalizing i with
  | nil => simp
  | cons a t ih => cases i <;> simp [ih]

/-- `remove_internal(range, fix_whitespace = true)`: the block `[lo, hi)` that disappears is the
range, extended by at most the one `Newline` event after it and the one `Whitespace` event before it -/
theorem removeInternal_frame (body : List Event) (s t : Nat) (hst : s ≤ t) (ht : t ≤ body.length) :
    ∃ lo hi, lo ≤ s ∧ s ≤ lo + 1 ∧ t ≤ hi ∧ hi ≤ t + 1 ∧
      removeInternal body s t true = body.take lo ++ body.drop hi ∧
      (lo < s → body[lo]?.any evIsWs = true) ∧ (t < hi → body[t]?.any evIsNewline = true) := by
  unfold removeInternal
  simp only [Bool.true_and]
  have hlen : (body.take s).length = s := by simp; omega
  by_cases hnl : body[t]?.any evIsNewline = true
  · simp only [hnl, ↓reduceIte, eraseIdx_eq_take_drop]
    have hb2 : (body.take t ++ body.drop (t + 1)).take s ++ (body.take t ++ body.drop (t + 1)).drop t =
        body.take s ++ body.drop (t + 1) := by
      have hlt : (body.take t).length = t := by simp; omega
      rw [List.take_append_of_le_length (by omega), List.take_take, Nat.min_eq_left hst]
      rw [List.drop_append_of_le_length (by omega), List.drop_of_length_le (by omega)]
      simp
    rw [hb2]
    by_cases hws : (decide (s > 0) && (body.take s ++ body.drop (t + 1))[s - 1]?.any evIsWs) = true
    · simp only [hws, ↓reduceIte]
      simp only [Bool.and_eq_true, decide_eq_true_eq] at hws
      obtain ⟨hs0, hw⟩ := hws
      have hget : (body.take s ++ body.drop (t + 1))[s - 1]? = body[s - 1]? := by
        rw [List.getElem?_append_left (by omega), List.getElem?_take_of_lt (by omega)]
      rw [hget] at hw
      refine ⟨s - 1, t + 1, by omega, by omega, by omega, by omega, ?_, fun _ => hw, fun _ => trivial⟩
      rw [List.take_append_of_le_length (by omega), List.take_take, Nat.min_eq_left (by omega)]
      have : s - 1 + 1 = s := by omega
      rw [this, List.drop_append_of_le_length (by omega), List.drop_of_length_le (by omega)]
      simp
    · simp only [hws, Bool.false_eq_true, ↓reduceIte]
      exact ⟨s, t + 1, by omega, by omega, by omega, by omega, rfl, fun h => absurd h (by omega), fun _ => trivial⟩
  · simp only [hnl, Bool.false_eq_true, ↓reduceIte]
    by_cases hws : (decide (s > 0) && (body.take s ++ body.drop t)[s - 1]?.any evIsWs) = true
    · simp only [hws, ↓reduceIte]
      simp only [Bool.and_eq_true, decide_eq_true_eq] at hws
      obtain ⟨hs0, hw⟩ := hws
      have hget : (body.take s ++ body.drop t)[s - 1]? = body[s - 1]? := by
        rw [List.getElem?_append_left (by omega), List.getElem?_take_of_lt (by omega)]
      rw [hget] at hw
      refine ⟨s - 1, t, by omega, by omega, by omega, by omega, ?_, fun _ => hw, fun h => absurd h (by omega)⟩
      rw [eraseIdx_eq_take_drop]
      rw [List.take_append_of_le_length (by omega), List.take_take, Nat.min_eq_left (by omega)]
      have : s - 1 + 1 = s := by omega
      rw [this, List.drop_append_of_le_length (by omega), List.drop_of_length_le (by omega)]
      simp
    · simp only [hws, Bool.false_eq_true, ↓reduceIte]
      exact ⟨s, t, by omega, by omega, by omega, by omega, rfl, fun h => absurd h (by omega), fun h => absurd h (by omega)⟩

end GixModel.C28
