import GixModel.Model.C36
import GixModel.Spec.C36
/-
C36 — helper lemmas: step equations of `Model.go` and `Spec.dowild` per pattern construct, byte
facts proved by enumeration of all 256 bytes, and the star-free equivalence proofs.
-/
namespace GixModel.C36
open GixModel GixModel.Spec.C36


def flagsOf (m : Mode) : Flags := { casefold := m.ignoreCase, pathname := m.noMatchSlash }

def ofWm : Wm → Res
  | .matched => .matched | .noMatch => .noMatch | .abortAll => .abortAll
  | .abortToStarStar => .abortToStarStar | .fuelOut => .fuelOut

theorem fold_eq_lc (m : Mode) (c : UInt8) : fold (flagsOf m) c = lc m c := by
  unfold fold lc flagsOf toLower toAsciiLowercase isUpper isAsciiUppercase
  cases m.ignoreCase <;> simp

theorem go_nil {m : Mode} {fuel d : Nat} {pattern text : Bytes} {i ti : Nat} {tr : Bytes} :
    go m (fuel + 1) d pattern text ⟨i, []⟩ ⟨ti, tr⟩ = if tr.isEmpty then .matched else .noMatch := by
  unfold go
  cases tr <;> simp [Iter.next]

/-- text exhausted, pattern byte is not a star -/
theorem go_abort {m : Mode} {fuel d : Nat} {pattern text : Bytes} {i ti : Nat} {c : UInt8} {r : Bytes}
    (h : lc m c ≠ 42) :
    go m (fuel + 1) d pattern text ⟨i, c :: r⟩ ⟨ti, []⟩ = .abortAll := by
  unfold go
  simp [Iter.next, STAR, h]

theorem go_lit {m : Mode} {fuel d : Nat} {pattern text : Bytes} {i ti : Nat} {c tc : UInt8} {r tr : Bytes}
    (h1 : lc m c ≠ 42) (h2 : lc m c ≠ 92) (h3 : lc m c ≠ 63) (h4 : lc m c ≠ 91) :
    go m (fuel + 1) d pattern text ⟨i, c :: r⟩ ⟨ti, tc :: tr⟩ =
      if lc m c ≠ lc m tc then .noMatch else go m fuel d pattern text ⟨i + 1, r⟩ ⟨ti + 1, tr⟩ := by
  conv => lhs; unfold go
  simp [Iter.next, STAR, BACKSLASH, BRACKET_OPEN, h1, h2, h3, h4]

theorem go_qm {m : Mode} {fuel d : Nat} {pattern text : Bytes} {i ti : Nat} {c tc : UInt8} {r tr : Bytes}
    (h3 : lc m c = 63) :
    go m (fuel + 1) d pattern text ⟨i, c :: r⟩ ⟨ti, tc :: tr⟩ =
      if m.noMatchSlash && lc m tc == 47 then .noMatch else go m fuel d pattern text ⟨i + 1, r⟩ ⟨ti + 1, tr⟩ := by
  conv => lhs; unfold go
  simp [Iter.next, STAR, BACKSLASH, BRACKET_OPEN, SLASH, h3]

theorem go_esc_end {m : Mode} {fuel d : Nat} {pattern text : Bytes} {i ti : Nat} {c tc : UInt8} {tr : Bytes}
    (h : lc m c = 92) :
    go m (fuel + 1) d pattern text ⟨i, [c]⟩ ⟨ti, tc :: tr⟩ = .noMatch := by
  conv => lhs; unfold go
  simp [Iter.next, STAR, BACKSLASH, h]

theorem go_esc {m : Mode} {fuel d : Nat} {pattern text : Bytes} {i ti : Nat} {c e tc : UInt8} {r tr : Bytes}
    (h : lc m c = 92) :
    go m (fuel + 1) d pattern text ⟨i, c :: e :: r⟩ ⟨ti, tc :: tr⟩ =
      if lc m e ≠ lc m tc then .noMatch else go m fuel d pattern text ⟨i + 2, r⟩ ⟨ti + 1, tr⟩ := by
  conv => lhs; unfold go
  simp [Iter.next, STAR, BACKSLASH, h]


theorem dw_nil {f : Flags} {n : Nat} {prev : Option UInt8} {t : Bytes} (ht : (0:UInt8) ∉ t) :
    dowild f (n + 1) prev [] t = if t.isEmpty then .matched else .noMatch := by
  unfold dowild
  cases t with
  | nil => simp [hd]
  | cons a r =>
    have : a ≠ 0 := by intro h; simp [h] at ht
    simp [hd, this]

theorem dw_abort {f : Flags} {n : Nat} {prev : Option UInt8} {c : UInt8} {r : Bytes}
    (hc : c ≠ 0) (h : c ≠ 42) :
    dowild f (n + 1) prev (c :: r) [] = .abortAll := by
  unfold dowild
  simp [hd, hc, h]

theorem dw_lit {f : Flags} {n : Nat} {prev : Option UInt8} {c tc : UInt8} {r tr : Bytes}
    (hc : c ≠ 0) (htc : tc ≠ 0)
    (h1 : fold f c ≠ 42) (h2 : fold f c ≠ 92) (h3 : fold f c ≠ 63) (h4 : fold f c ≠ 91) :
    dowild f (n + 1) prev (c :: r) (tc :: tr) =
      if fold f tc ≠ fold f c then .noMatch else dowild f n (some c) r tr := by
  conv => lhs; unfold dowild
  simp [hd, hc, htc, h1, h2, h3, h4]

theorem dw_qm {f : Flags} {n : Nat} {prev : Option UInt8} {c tc : UInt8} {r tr : Bytes}
    (hc : c ≠ 0) (htc : tc ≠ 0) (h3 : fold f c = 63) :
    dowild f (n + 1) prev (c :: r) (tc :: tr) =
      if f.pathname && fold f tc == 47 then .noMatch else dowild f n (some c) r tr := by
  conv => lhs; unfold dowild
  have : c ≠ 42 → True := fun _ => trivial
  simp [hd, hc, htc, h3]

theorem dw_esc {f : Flags} {n : Nat} {prev : Option UInt8} {c tc : UInt8} {r tr : Bytes}
    (hc : c ≠ 0) (htc : tc ≠ 0) (h : fold f c = 92) :
    dowild f (n + 1) prev (c :: r) (tc :: tr) =
      if fold f tc ≠ hd r then .noMatch else dowild f n (some (hd r)) r.tail tr := by
  conv => lhs; unfold dowild
  simp [hd, hc, htc, h]


theorem forall_uint8 (P : UInt8 → Bool)
    (h : (List.range 256).all (fun n => P (UInt8.ofNat n)) = true) : ∀ c, P c = true := by
  intro c
  have h2 := List.all_eq_true.mp h c.toNat (by simp [List.mem_range]; exact c.toNat_lt)
  simpa using h2

theorem lc_special (m : Mode) (c : UInt8) :
    (lc m c = 42 ↔ c = 42) ∧ (lc m c = 92 ↔ c = 92) ∧ (lc m c = 63 ↔ c = 63) ∧ (lc m c = 91 ↔ c = 91)
    ∧ (lc m c = 47 ↔ c = 47) ∧ (lc m c = 0 ↔ c = 0) ∧ (lc m c = 93 ↔ c = 93) := by
  unfold lc
  cases m.ignoreCase
  · simp
  · have := forall_uint8 (fun c => decide ((toAsciiLowercase c = 42 ↔ c = 42) ∧ (toAsciiLowercase c = 92 ↔ c = 92)
      ∧ (toAsciiLowercase c = 63 ↔ c = 63) ∧ (toAsciiLowercase c = 91 ↔ c = 91)
      ∧ (toAsciiLowercase c = 47 ↔ c = 47) ∧ (toAsciiLowercase c = 0 ↔ c = 0) ∧ (toAsciiLowercase c = 93 ↔ c = 93))) (by decide +kernel) c
    simpa using this

/-- no uppercase letter directly behind a backslash -/
def escSafe : Bytes → Bool
  | a :: b :: r => !(a == 92 && isAsciiUppercase b) && escSafe (b :: r)
  | _ => true

theorem lc_of_not_upper (m : Mode) (c : UInt8) (h : isAsciiUppercase c = false) : lc m c = c := by
  unfold lc toAsciiLowercase; simp [h]

@[simp] theorem flagsOf_pathname (m : Mode) : (flagsOf m).pathname = m.noMatchSlash := rfl
@[simp] theorem flagsOf_casefold (m : Mode) : (flagsOf m).casefold = m.ignoreCase := rfl

/-! ### bracket expressions -/

theorem class_fns (c : UInt8) :
    isAsciiAlphanumeric c = isAlnum c ∧ isAsciiAlphabetic c = isAlpha c ∧ (c == 32 || c == 9) = isBlank c
    ∧ isAsciiControl c = isCntrl c ∧ isAsciiDigit c = isDigit c ∧ isAsciiGraphic c = isGraph c
    ∧ isAsciiLowercase c = isLower c ∧ (32 ≤ c && c ≤ 126) = isPrint c ∧ isAsciiPunctuation c = isPunct c
    ∧ (c == 32 || c == 9 || c == 10 || c == 13) = isSpace c ∧ isAsciiUppercase c = isUpper c
    ∧ isAsciiHexdigit c = isXdigit c := by
  have := forall_uint8 (fun c => decide (isAsciiAlphanumeric c = isAlnum c ∧ isAsciiAlphabetic c = isAlpha c ∧ (c == 32 || c == 9) = isBlank c
    ∧ isAsciiControl c = isCntrl c ∧ isAsciiDigit c = isDigit c ∧ isAsciiGraphic c = isGraph c
    ∧ isAsciiLowercase c = isLower c ∧ (32 ≤ c && c ≤ 126) = isPrint c ∧ isAsciiPunctuation c = isPunct c
    ∧ (c == 32 || c == 9 || c == 10 || c == 13) = isSpace c ∧ isAsciiUppercase c = isUpper c
    ∧ isAsciiHexdigit c = isXdigit c)) (by decide +kernel) c
  simpa using this

theorem classTest_eq (m : Mode) (cls : Bytes) (tch : UInt8) :
    C36.classTest m cls tch = Spec.C36.classTest (flagsOf m) cls tch := by
  obtain ⟨h1, h2, h3, h4, h5, h6, h7, h8, h9, h10, h11, h12⟩ := class_fns tch
  unfold C36.classTest Spec.C36.classTest
  simp only [h10]
  simp only [h1, h2, h3, h4, h5, h6, h7, h8, h9, h11, h12, flagsOf_casefold]


theorem lc_id {m : Mode} (h : m.ignoreCase = false) (c : UInt8) : lc m c = c := by simp [lc, h]

def StepRel (pattern : Bytes) : StepRes → Option (UInt8 × Bytes × Bool) → Prop
  | .abort, none => True
  | .ok p pv mt, some (pc', rs', mt') =>
      p.rest = rs' ∧ mt = mt' ∧ pattern.drop p.idx = rs' ∧ (hd rs' = 45 → pv = pc')
  | _, _ => False

theorem drop_succ_of_drop {l : Bytes} {k : Nat} {c : UInt8} {r : Bytes} (h : l.drop k = c :: r) :
    l.drop (k + 1) = r := by
  have := congrArg List.tail h
  simpa [List.tail_drop] using this

theorem beq_comm8 (a b : UInt8) : (a == b) = (b == a) := by rw [BEq.comm]

theorem bracketStep_rel_esc (m : Mode) (hic : m.ignoreCase = false) (pattern : Bytes) (tch : UInt8)
    (j : Nat) (rs : Bytes) (hinv : pattern.drop (j + 1) = rs) (hnn : ∀ c ∈ rs, c ≠ 0)
    (prevM prevS : UInt8) (matched : Bool) :
    StepRel pattern (bracketStep m pattern tch j 92 ⟨j + 1, rs⟩ prevM matched)
      (Spec.C36.bracketStep (flagsOf m) tch 92 rs prevS matched) := by
  unfold C36.bracketStep Spec.C36.bracketStep
  cases rs with
  | nil => simp [BACKSLASH, Iter.next, hd, StepRel]
  | cons c r =>
    have hc : c ≠ 0 := hnn c (by simp)
    simp [BACKSLASH, Iter.next, hd, StepRel, hc, lc_id hic, drop_succ_of_drop hinv, beq_comm8 c tch]

/-- the default arm: an ordinary member -/
theorem bracketStep_rel_default (m : Mode) (pattern : Bytes) (tch : UInt8)
    (j : Nat) (pch : UInt8) (rs : Bytes) (hinv : pattern.drop (j + 1) = rs)
    (h92 : pch ≠ 92) (h45 : pch ≠ 45) (h91 : pch ≠ 91)
    (prevM prevS : UInt8) (matched : Bool) :
    StepRel pattern (bracketStep m pattern tch j pch ⟨j + 1, rs⟩ prevM matched)
      (Spec.C36.bracketStep (flagsOf m) tch pch rs prevS matched) := by
  unfold C36.bracketStep Spec.C36.bracketStep
  simp [BACKSLASH, BRACKET_OPEN, h92, h45, h91, StepRel, hinv, beq_comm8 pch tch]


/-- `-`: a range if there is a previous member and a following one that is not `]`, else a member -/
theorem bracketStep_rel_dash (m : Mode) (hic : m.ignoreCase = false) (pattern : Bytes) (tch : UInt8)
    (j : Nat) (rs : Bytes) (hinv : pattern.drop (j + 1) = rs) (hnn : ∀ c ∈ rs, c ≠ 0)
    (prev : UInt8) (matched : Bool) :
    StepRel pattern (bracketStep m pattern tch j 45 ⟨j + 1, rs⟩ prev matched)
      (Spec.C36.bracketStep (flagsOf m) tch 45 rs prev matched) := by
  unfold C36.bracketStep Spec.C36.bracketStep
  cases rs with
  | nil => simp [BACKSLASH, BRACKET_OPEN, BRACKET_CLOSE, Iter.peekCh, hd, StepRel, hinv, beq_comm8 45 tch]
  | cons c r =>
    have hc : c ≠ 0 := hnn c (by simp)
    have hr := drop_succ_of_drop hinv
    by_cases hp : prev = 0
    · simp [BACKSLASH, BRACKET_OPEN, BRACKET_CLOSE, Iter.peekCh, hd, StepRel, hinv, hp, beq_comm8 45 tch]
    by_cases h93 : c = 93
    · simp [BACKSLASH, BRACKET_OPEN, BRACKET_CLOSE, Iter.peekCh, hd, StepRel, hinv, h93, lc_id hic, beq_comm8 45 tch]
    by_cases h92 : c = 92
    · subst h92
      cases r with
      | nil =>
        simp [BACKSLASH, BRACKET_OPEN, BRACKET_CLOSE, Iter.peekCh, Iter.next, hd, StepRel, hp, lc_id hic]
      | cons e r2 =>
        have he : e ≠ 0 := hnn e (by simp)
        have hr2 := drop_succ_of_drop hr
        simp [BACKSLASH, BRACKET_OPEN, BRACKET_CLOSE, Iter.peekCh, Iter.next, hd, StepRel, hp, he, hic, lc_id hic, hr2]
    · simp [BACKSLASH, BRACKET_OPEN, BRACKET_CLOSE, Iter.peekCh, Iter.next, hd, StepRel, hp, hc, h93, h92, hic, lc_id hic, hr]



theorem skipToCloseAux_eq (m : Mode) (s : Bytes) : ∀ (i : Nat),
    skipToCloseAux m i s = ⟨i + (s.takeWhile (· != 93)).length, s.dropWhile (· != 93)⟩ := by
  induction s with
  | nil => intro i; simp [skipToCloseAux]
  | cons c r ih =>
    intro i
    have h93 := (lc_special m c).2.2.2.2.2.2
    by_cases hc : c = 93
    · have : lc m c = 93 := h93.mpr hc
      subst hc
      simp [skipToCloseAux, BRACKET_CLOSE, this]
    · have : lc m c ≠ 93 := fun h => hc (h93.mp h)
      simp [skipToCloseAux, BRACKET_CLOSE, hc, this, ih]
      omega

theorem tw_nn (s : Bytes) (h : ∀ c ∈ s, c ≠ 0) :
    s.takeWhile (fun c => c != 0 && c != 93) = s.takeWhile (· != 93)
    ∧ s.dropWhile (fun c => c != 0 && c != 93) = s.dropWhile (· != 93) := by
  induction s with
  | nil => simp
  | cons c r ih =>
    have hc : c ≠ 0 := h c (by simp)
    have := ih (fun x hx => h x (by simp [hx]))
    by_cases h93 : c = 93
    · simp [List.takeWhile_cons, List.dropWhile_cons, h93]
    · simp [List.takeWhile_cons, List.dropWhile_cons, hc, h93, this]

theorem dropWhile_head (s : Bytes) : s.dropWhile (· != 93) = [] ∨ ∃ a, s.dropWhile (· != 93) = 93 :: a := by
  induction s with
  | nil => simp
  | cons c r ih =>
    by_cases h93 : c = 93
    · right; exact ⟨r, by simp [List.dropWhile_cons, h93]⟩
    · simpa [List.dropWhile_cons, h93] using ih


theorem advance_one (i : Nat) (c : UInt8) (r : Bytes) : (Iter.mk i (c :: r)).advance 1 = ⟨i + 1, r⟩ := by
  simp [Iter.advance]

theorem ofSlice_advance (pattern : Bytes) (k : Nat) (hk : k ≤ pattern.length) :
    (Iter.ofSlice pattern).advance k = ⟨k, pattern.drop k⟩ := by
  simp [Iter.ofSlice, Iter.advance, Nat.min_eq_left hk]

theorem getLast?_eq_getElem? (seg : Bytes) (h : seg ≠ []) : seg.getLast? = seg[seg.length - 1]? := by
  rw [List.getLast?_eq_getElem?]

/-- `[` followed by `:`: a class, or an ordinary `[` -/
theorem bracketStep_rel_class (m : Mode) (pattern : Bytes) (tch : UInt8)
    (j : Nat) (s : Bytes) (hinv : pattern.drop (j + 1) = 58 :: s) (hnn : ∀ c ∈ s, c ≠ 0)
    (prevM prevS : UInt8) (matched : Bool) :
    StepRel pattern (bracketStep m pattern tch j 91 ⟨j + 1, 58 :: s⟩ prevM matched)
      (Spec.C36.bracketStep (flagsOf m) tch 91 (58 :: s) prevS matched) := by
  have hlen : j + 1 < pattern.length := by
    apply Nat.lt_of_not_le
    intro h
    have : pattern.drop (j + 1) = [] := List.drop_eq_nil_of_le h
    simp [this] at hinv
  have hs : pattern.drop (j + 2) = s := drop_succ_of_drop hinv
  obtain ⟨htw, hdw⟩ := tw_nn s hnn
  have hsplit : s = s.takeWhile (· != 93) ++ s.dropWhile (· != 93) := (List.takeWhile_append_dropWhile).symm
  have hl58 : lc m 58 = 58 := by
    unfold lc toAsciiLowercase isAsciiUppercase; cases m.ignoreCase <;> simp
  unfold C36.bracketStep Spec.C36.bracketStep
  simp only [BACKSLASH, BRACKET_OPEN, COLON, Iter.peekCh, hl58, hd, List.headD_cons, List.tail_cons, htw, hdw]
  generalize hseg : s.takeWhile (· != 93) = seg at *
  generalize haft : s.dropWhile (· != 93) = after at *
  rcases dropWhile_head s with h0 | ⟨a, ha⟩
  · rw [haft] at h0; subst h0
    simp [advance_one, Iter.skipToClose, skipToCloseAux_eq, hseg, haft, Iter.next, StepRel]
  · rw [haft] at ha; subst ha
    simp only [advance_one, Iter.skipToClose, skipToCloseAux_eq, hseg, haft, Iter.next]
    have hadv : (Iter.ofSlice pattern).advance (j + 1) = ⟨j + 1, 58 :: s⟩ := by
      rw [ofSlice_advance _ _ (by omega), hinv]
    by_cases hempty : seg = []
    · subst hempty
      have hlt : j + 1 + 1 + ([] : Bytes).length - j < 3 := by simp
      simp [hlt, hadv, StepRel, hinv, hd]
    · have hpos : 0 < seg.length := List.length_pos_iff.mpr hempty
      have hlt : ¬ (j + 1 + 1 + seg.length - j < 3) := by omega
      have hidx : j + 1 + 1 + seg.length - 1 = (j + 1) + seg.length := by omega
      have hget : pattern[j + 1 + seg.length]? = seg.getLast? := by
        have h1 : pattern[j + 1 + seg.length]? = (pattern.drop (j + 1))[seg.length]? := by
          rw [List.getElem?_drop]
        rw [h1, hinv, hsplit]
        have : (58 :: (seg ++ 93 :: a))[seg.length]? = (seg ++ 93 :: a)[seg.length - 1]? := by
          cases hl : seg.length with
          | zero => omega
          | succ k => simp
        rw [this, List.getElem?_append_left (by omega), List.getLast?_eq_getElem?]
      have hslice : List.take (j + 1 + seg.length - (j + 2)) (List.drop (j + 2) pattern) = seg.dropLast := by
        rw [hs, hsplit]
        have : j + 1 + seg.length - (j + 2) = seg.length - 1 := by omega
        rw [this, List.take_append_of_le_length (by omega), List.dropLast_eq_take]
      have hb1 : (decide (j + 2 ≤ j + 1 + seg.length) && decide (j + 1 + seg.length ≤ List.length pattern)) = true := by
        have : seg.length + 1 + (j + 2) ≤ pattern.length := by
          have := congrArg List.length hs
          rw [hsplit] at this
          simp at this
          omega
        simp; omega
      have hdrop : List.drop (j + 1 + 1 + seg.length + 1) pattern = a := by
        have : j + 1 + 1 + seg.length + 1 = (j + 2) + (seg.length + 1) := by omega
        rw [this, ← List.drop_drop, hs, hsplit]
        simp
      simp only [hlt, hidx, hget, hslice, hb1, hadv, classTest_eq]
      cases hgl : seg.getLast? with
      | none => simp [List.getLast?_eq_none_iff] at hgl; exact absurd hgl hempty
      | some g =>
        by_cases hg : g = 58
        · subst hg
          have hne : seg.isEmpty = false := by simp [hempty]
          cases hct : Spec.C36.classTest (flagsOf m) seg.dropLast tch with
          | none => simp [hct, StepRel, hne]
          | some b => simp [hct, StepRel, hne, hdrop]
        · simp [hg, StepRel, hinv, hd]



/-- `[` not followed by `:` is an ordinary member -/
theorem bracketStep_rel_open_plain (m : Mode) (pattern : Bytes) (tch : UInt8)
    (j : Nat) (rs : Bytes) (hinv : pattern.drop (j + 1) = rs) (h58 : hd rs ≠ 58)
    (prevM prevS : UInt8) (matched : Bool) :
    StepRel pattern (bracketStep m pattern tch j 91 ⟨j + 1, rs⟩ prevM matched)
      (Spec.C36.bracketStep (flagsOf m) tch 91 rs prevS matched) := by
  unfold C36.bracketStep Spec.C36.bracketStep
  cases rs with
  | nil => simp [BACKSLASH, BRACKET_OPEN, COLON, Iter.peekCh, hd, StepRel, hinv, beq_comm8 91 tch]
  | cons c r =>
    have hc : c ≠ 58 := by simpa [hd] using h58
    have hl : lc m c ≠ 58 := by
      intro h
      have := forall_uint8 (fun c => decide (toAsciiLowercase c = 58 → c = 58)) (by decide +kernel) c
      simp only [decide_eq_true_eq] at this
      unfold lc at h
      cases hic : m.ignoreCase <;> simp [hic] at h
      · exact hc h
      · exact hc (this h)
    simp [BACKSLASH, BRACKET_OPEN, COLON, Iter.peekCh, hd, StepRel, hinv, hc, hl, beq_comm8 91 tch]

theorem bracketStep_rel (m : Mode) (hic : m.ignoreCase = false) (pattern : Bytes) (tch : UInt8)
    (j : Nat) (pch : UInt8) (rs : Bytes) (hinv : pattern.drop (j + 1) = rs) (hnn : ∀ c ∈ rs, c ≠ 0)
    (prevM prevS : UInt8) (hprev : pch = 45 → prevM = prevS) (matched : Bool) :
    StepRel pattern (bracketStep m pattern tch j pch ⟨j + 1, rs⟩ prevM matched)
      (Spec.C36.bracketStep (flagsOf m) tch pch rs prevS matched) := by
  by_cases h92 : pch = 92
  · subst h92; exact bracketStep_rel_esc m hic pattern tch j rs hinv hnn prevM prevS matched
  by_cases h45 : pch = 45
  · subst h45; rw [hprev rfl]; exact bracketStep_rel_dash m hic pattern tch j rs hinv hnn prevS matched
  by_cases h91 : pch = 91
  · subst h91
    by_cases h58 : hd rs = 58
    · cases rs with
      | nil => simp [hd] at h58
      | cons c s =>
        have : c = 58 := by simpa [hd] using h58
        subst this
        exact bracketStep_rel_class m pattern tch j s hinv (fun x hx => hnn x (by simp [hx])) prevM prevS matched
    · exact bracketStep_rel_open_plain m pattern tch j rs hinv h58 prevM prevS matched
  · exact bracketStep_rel_default m pattern tch j pch rs hinv h92 h45 h91 prevM prevS matched

def BrRel (pattern : Bytes) : C36.BrRes → Spec.C36.BrRes → Prop
  | .abort, .abort => True
  | .fuel, .fuel => True
  | .done b p, .done b' r => b = b' ∧ p.rest = r ∧ pattern.drop p.idx = r
  | _, _ => False

theorem mem_drop_ne {pattern : Bytes} (hnn : ∀ c ∈ pattern, c ≠ 0) {k : Nat} {rs : Bytes}
    (h : pattern.drop k = rs) : ∀ c ∈ rs, c ≠ 0 := by
  intro c hc
  exact hnn c (List.mem_of_mem_drop (h ▸ hc))

theorem bracketLoop_none (m : Mode) (pattern : Bytes) (tch : UInt8) (n : Nat) (p : Iter) (prev : UInt8)
    (matched : Bool) : C36.bracketLoop m pattern tch n none p prev matched = .abort := by
  unfold C36.bracketLoop; rfl

theorem spec_bracketLoop_zero (f : Flags) (tch : UInt8) (n : Nat) (rest : Bytes) (prev : UInt8)
    (matched : Bool) : Spec.C36.bracketLoop f tch n 0 rest prev matched = .abort := by
  unfold Spec.C36.bracketLoop; simp

theorem bracketLoop_rel (m : Mode) (hic : m.ignoreCase = false) (pattern : Bytes)
    (hnn : ∀ c ∈ pattern, c ≠ 0) (tch : UInt8) :
    ∀ (n j : Nat) (pch : UInt8) (rs : Bytes) (prevM prevS : UInt8) (matched : Bool),
      pattern.drop (j + 1) = rs → pch ≠ 0 → (pch = 45 → prevM = prevS) →
      BrRel pattern (C36.bracketLoop m pattern tch n (some (j, pch)) ⟨j + 1, rs⟩ prevM matched)
        (Spec.C36.bracketLoop (flagsOf m) tch n pch rs prevS matched) := by
  intro n
  induction n with
  | zero => intro j pch rs prevM prevS matched _ hp0 _; simp [C36.bracketLoop, Spec.C36.bracketLoop, BrRel, hp0]
  | succ n ih =>
    intro j pch rs prevM prevS matched hinv hp0 hprev
    unfold C36.bracketLoop Spec.C36.bracketLoop
    have hstep := bracketStep_rel m hic pattern tch j pch rs hinv (mem_drop_ne hnn hinv) prevM prevS hprev matched
    simp only [hp0, beq_iff_eq, if_false]
    generalize C36.bracketStep m pattern tch j pch ⟨j + 1, rs⟩ prevM matched = sm at hstep
    generalize Spec.C36.bracketStep (flagsOf m) tch pch rs prevS matched = ss at hstep
    cases sm with
    | abort => cases ss with
      | none => simp [BrRel]
      | some x => simp [StepRel] at hstep
    | panic => cases ss <;> simp [StepRel] at hstep
    | ok p pv mt =>
      cases ss with
      | none => simp [StepRel] at hstep
      | some x =>
        obtain ⟨pc', rs', mt'⟩ := x
        obtain ⟨h1, h2, h3, h4⟩ := hstep
        obtain ⟨k, pr⟩ := p
        simp at h1 h3
        subst h1 h2
        cases pr with
        | nil => simp [Iter.next, hd, BrRel, bracketLoop_none, spec_bracketLoop_zero]
        | cons c r2 =>
          have hc0 : c ≠ 0 := mem_drop_ne hnn h3 c (by simp)
          have hr2 := drop_succ_of_drop h3
          by_cases h93 : c = 93
          · simp [Iter.next, hd, BrRel, h93, lc_id hic, BRACKET_CLOSE, hr2]
          · have := ih k c r2 pv pc' mt hr2 hc0 (by simpa [hd] using h4)
            simp [Iter.next, hd, h93, lc_id hic, BRACKET_CLOSE]
            exact this

theorem bracket_rel (m : Mode) (hic : m.ignoreCase = false) (pattern : Bytes)
    (hnn : ∀ c ∈ pattern, c ≠ 0) (tch : UInt8) (fuel i : Nat) (rs : Bytes) (hinv : pattern.drop i = rs) :
    BrRel pattern (C36.bracket m pattern tch fuel ⟨i, rs⟩) (Spec.C36.bracket (flagsOf m) tch fuel rs) := by
  unfold C36.bracket Spec.C36.bracket
  cases rs with
  | nil => simp [Iter.next, hd, spec_bracketLoop_zero, BrRel]
  | cons c r =>
    have hc0 : c ≠ 0 := mem_drop_ne hnn hinv c (by simp)
    have hr := drop_succ_of_drop hinv
    by_cases hneg : c = 94 ∨ c = 33
    · -- negated
      have e1 : ((if c = 94 then (33 : UInt8) else c) = 33) := by
        rcases hneg with h | h <;> simp [h]
      cases r with
      | nil =>
        simp [Iter.next, hd, lc_id hic, NEGATE_CLASS, e1, spec_bracketLoop_zero, bracketLoop_none, BrRel]
      | cons e r2 =>
        have he0 : e ≠ 0 := mem_drop_ne hnn hr e (by simp)
        have hr2 := drop_succ_of_drop hr
        have := bracketLoop_rel m hic pattern hnn tch fuel (i + 1) e r2 0 0 false hr2 he0 (fun _ => rfl)
        simp only [Iter.next, hd, lc_id hic, NEGATE_CLASS, e1, List.headD_cons, List.tail_cons, beq_iff_eq]
        simp only [beq_self_eq_true, if_true]
        generalize C36.bracketLoop m pattern tch fuel (some (i + 1, e)) ⟨i + 1 + 1, r2⟩ 0 false = bm at this
        generalize Spec.C36.bracketLoop (flagsOf m) tch fuel e r2 0 false = bs at this
        cases bm <;> cases bs <;> simp_all [BrRel]
    · have h94 : c ≠ 94 := fun h => hneg (Or.inl h)
      have h33 : c ≠ 33 := fun h => hneg (Or.inr h)
      have := bracketLoop_rel m hic pattern hnn tch fuel i c r 0 0 false hr hc0 (fun _ => rfl)
      simp only [Iter.next, hd, lc_id hic, NEGATE_CLASS, List.headD_cons, List.tail_cons, beq_iff_eq, h94, h33, if_false]
      generalize C36.bracketLoop m pattern tch fuel (some (i, c)) ⟨i + 1, r⟩ 0 false = bm at this
      generalize Spec.C36.bracketLoop (flagsOf m) tch fuel c r 0 false = bs at this
      cases bm <;> cases bs <;> simp_all [BrRel]



theorem go_br {m : Mode} {fuel d : Nat} {pattern text : Bytes} {i ti : Nat} {c tc : UInt8} {r tr : Bytes}
    (h : lc m c = 91) :
    go m (fuel + 1) d pattern text ⟨i, c :: r⟩ ⟨ti, tc :: tr⟩ =
      match C36.bracket m pattern (lc m tc) fuel ⟨i + 1, r⟩ with
      | .abort => .abortAll
      | .panic => .panic
      | .fuel => .fuelOut
      | .done ok p =>
        if !ok || (m.noMatchSlash && lc m tc == 47) then .noMatch
        else go m fuel d pattern text p ⟨ti + 1, tr⟩ := by
  conv => lhs; unfold go
  simp [Iter.next, STAR, BACKSLASH, BRACKET_OPEN, SLASH, h]
  generalize C36.bracket m pattern (lc m tc) fuel ⟨i + 1, r⟩ = b
  cases b <;> rfl

theorem dw_br {f : Flags} {n : Nat} {prev : Option UInt8} {c tc : UInt8} {r tr : Bytes}
    (hc : c ≠ 0) (htc : tc ≠ 0) (h : fold f c = 91) :
    dowild f (n + 1) prev (c :: r) (tc :: tr) =
      match Spec.C36.bracket f (fold f tc) n r with
      | .abort => .abortAll
      | .fuel => .fuelOut
      | .done ok rest =>
        if !ok || (f.pathname && fold f tc == 47) then .noMatch
        else dowild f n (some 93) rest tr := by
  conv => lhs; unfold dowild
  simp [hd, hc, htc, h]
  generalize Spec.C36.bracket f (fold f tc) n r = b
  cases b <;> rfl


theorem escSafe_tail {a : UInt8} {l : Bytes} (h : escSafe (a :: l) = true) : escSafe l = true := by
  cases l with
  | nil => rfl
  | cons b r => simp [escSafe] at h; exact h.2

theorem escSafe_drop (l : Bytes) (h : escSafe l = true) : ∀ k, escSafe (l.drop k) = true := by
  intro k
  induction k generalizing l with
  | zero => simpa using h
  | succ k ih =>
    cases l with
    | nil => simp [escSafe]
    | cons a r => simpa using ih r (escSafe_tail h)

/-- What the equality theorems need of a pattern under a given mode: no NUL; under IGNORE_CASE
(where gitoxide deliberately deviates from git inside brackets and escapes) no bracket and no
escaped upper-case letter. -/
structure PatOk (m : Mode) (pattern : Bytes) : Prop where
  noNul : ∀ c ∈ pattern, c ≠ 0
  icase : m.ignoreCase = true → (∀ c ∈ pattern, c ≠ 91) ∧ escSafe pattern = true

/-- star-free patterns: literals, `?`, escapes, bracket expressions -/
theorem go_eq_dowild_starfree (m : Mode) (d : Nat) (pattern text : Bytes) (hok : PatOk m pattern)
    (hstar : ∀ c ∈ pattern, c ≠ 42) :
    ∀ (fuel : Nat) (ps ts : Bytes) (i ti : Nat) (prev : Option UInt8),
      pattern.drop i = ps → (∀ c ∈ ts, c ≠ 0) →
      go m fuel d pattern text ⟨i, ps⟩ ⟨ti, ts⟩ = ofWm (dowild (flagsOf m) fuel prev ps ts) := by
  intro fuel
  induction fuel with
  | zero => intros; simp [go, dowild, ofWm]
  | succ n ih =>
    intro ps ts i ti prev hinv ht
    cases ps with
    | nil =>
      rw [go_nil, dw_nil (by intro h; exact (ht 0 h) rfl)]
      cases ts <;> simp [ofWm]
    | cons c r =>
      have hmem : ∀ x ∈ c :: r, x ∈ pattern := fun x hx => List.mem_of_mem_drop (hinv ▸ hx)
      have hc0 : c ≠ 0 := hok.noNul c (hmem c (by simp))
      have hc42 : c ≠ 42 := hstar c (hmem c (by simp))
      have hr := drop_succ_of_drop hinv
      obtain ⟨s42, s92, s63, s91, s47, s0, s93⟩ := lc_special m c
      cases ts with
      | nil =>
        rw [go_abort (by rw [Ne, s42]; exact hc42), dw_abort hc0 hc42]
        rfl
      | cons tc tr =>
        have htc : tc ≠ 0 := ht tc (by simp)
        have htr : ∀ c ∈ tr, c ≠ 0 := fun x hx => ht x (by simp [hx])
        have htc' : lc m tc ≠ 0 := fun h => htc ((lc_special m tc).2.2.2.2.2.1.mp h)
        by_cases h92 : c = 92
        · -- escape
          subst h92
          cases r with
          | nil =>
            rw [go_esc_end (by rw [s92]), dw_esc hc0 htc (by rw [fold_eq_lc, s92])]
            simp [hd, fold_eq_lc, ofWm, htc']
          | cons e r2 =>
            rw [go_esc (by rw [s92]), dw_esc hc0 htc (by rw [fold_eq_lc, s92])]
            have hle : lc m e = e := by
              cases hic : m.ignoreCase with
              | false => simp [lc, hic]
              | true =>
                have := escSafe_drop pattern (hok.icase hic).2 i
                rw [hinv] at this
                simp [escSafe] at this
                exact lc_of_not_upper m e (by simpa using this.1)
            simp only [hd, List.headD_cons, List.tail_cons, fold_eq_lc, hle]
            have hr2 := drop_succ_of_drop hr
            rw [ih r2 tr (i + 2) (ti + 1) (some e) hr2 htr]
            by_cases hne : e = lc m tc
            · simp [hne]
            · have : ¬ lc m tc = e := fun h => hne h.symm
              simp [hne, this, ofWm]
        · by_cases h63 : c = 63
          · subst h63
            rw [go_qm (by rw [s63]), dw_qm hc0 htc (by rw [fold_eq_lc, s63])]
            rw [ih r tr (i + 1) (ti + 1) (some 63) hr htr]
            simp only [fold_eq_lc, flagsOf_pathname]
            split <;> simp [ofWm]
          · by_cases h91 : c = 91
            · -- bracket expression: only reachable case-sensitively
              subst h91
              have hic : m.ignoreCase = false := by
                cases h : m.ignoreCase with
                | false => rfl
                | true => exact absurd rfl ((hok.icase h).1 91 (hmem 91 (by simp)))
              rw [go_br (by rw [s91]), dw_br hc0 htc (by rw [fold_eq_lc, s91])]
              have hb := bracket_rel m hic pattern hok.noNul (lc m tc) n (i + 1) r hr
              simp only [fold_eq_lc, flagsOf_pathname]
              generalize C36.bracket m pattern (lc m tc) n ⟨i + 1, r⟩ = bm at hb
              generalize Spec.C36.bracket (flagsOf m) (lc m tc) n r = bs at hb
              cases bm with
              | abort => cases bs <;> simp_all [BrRel, ofWm]
              | panic => cases bs <;> simp_all [BrRel]
              | fuel => cases bs <;> simp_all [BrRel, ofWm]
              | done ok p =>
                cases bs with
                | abort => simp [BrRel] at hb
                | fuel => simp [BrRel] at hb
                | done ok' rest =>
                  obtain ⟨h1, h2, h3⟩ := hb
                  obtain ⟨k, pr⟩ := p
                  simp at h2 h3
                  subst h1 h2
                  simp only []
                  rw [ih pr tr k (ti + 1) (some 93) h3 htr]
                  split <;> simp [ofWm]
            · rw [go_lit (by rw [Ne, s42]; exact hc42) (by rw [Ne, s92]; exact h92)
                  (by rw [Ne, s63]; exact h63) (by rw [Ne, s91]; exact h91),
                dw_lit hc0 htc (by rw [fold_eq_lc, Ne, s42]; exact hc42) (by rw [fold_eq_lc, Ne, s92]; exact h92)
                  (by rw [fold_eq_lc, Ne, s63]; exact h63) (by rw [fold_eq_lc, Ne, s91]; exact h91)]
              rw [ih r tr (i + 1) (ti + 1) (some c) hr htr]
              simp only [fold_eq_lc]
              by_cases hne : lc m c = lc m tc
              · simp [hne]
              · have : ¬ lc m tc = lc m c := fun h => hne h.symm
                simp [hne, this, ofWm]


end GixModel.C36
