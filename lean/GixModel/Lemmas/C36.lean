import GixModel.Model.C36
import GixModel.Spec.C36
/-
C36 — helper lemmas: step equations of `Model.go` and `Spec.dowild` per pattern construct, byte
facts proved by enumeration of all 256 bytes, and the star-free equivalence proofs.
-/
namespace GixModel.C36
open GixModel GixModel.Spec.C36


def flagsOf (m : Mode) : Flags := { casefold := m.ignoreCase, pathname := m.noMatchSlash }

def ofWm : Wm → Res
  | .matched => .matched | .noMatch => .noMatch | .abortAll => .abortAll
  | .abortToStarStar => .abortToStarStar | .fuelOut => .fuelOut

theorem fold_eq_lc (m : Mode) (c : UInt8) : fold (flagsOf m) c = lc m c := by
  unfold fold lc flagsOf toLower toAsciiLowercase isUpper isAsciiUppercase
  cases m.ignoreCase <;> simp

theorem go_nil {m : Mode} {fuel d : Nat} {pattern text : Bytes} {i ti : Nat} {tr : Bytes} :
    go m (fuel + 1) d pattern text ⟨i, []⟩ ⟨ti, tr⟩ = if tr.isEmpty then .matched else .noMatch := by
  unfold go
  cases tr <;> simp [Iter.next]

/-- text exhausted, pattern byte is not a star -/
theorem go_abort {m : Mode} {fuel d : Nat} {pattern text : Bytes} {i ti : Nat} {c : UInt8} {r : Bytes}
    (h : lc m c ≠ 42) :
    go m (fuel + 1) d pattern text ⟨i, c :: r⟩ ⟨ti, []⟩ = .abortAll := by
  unfold go
  simp [Iter.next, STAR, h]

theorem go_lit {m : Mode} {fuel d : Nat} {pattern text : Bytes} {i ti : Nat} {c tc : UInt8} {r tr : Bytes}
    (h1 : lc m c ≠ 42) (h2 : lc m c ≠ 92) (h3 : lc m c ≠ 63) (h4 : lc m c ≠ 91) :
    go m (fuel + 1) d pattern text ⟨i, c :: r⟩ ⟨ti, tc :: tr⟩ =
      if lc m c ≠ lc m tc then .noMatch else go m fuel d pattern text ⟨i + 1, r⟩ ⟨ti + 1, tr⟩ := by
  conv => lhs; unfold go
  simp [Iter.next, STAR, BACKSLASH, BRACKET_OPEN, h1, h2, h3, h4]

theorem go_qm {m : Mode} {fuel d : Nat} {pattern text : Bytes} {i ti : Nat} {c tc : UInt8} {r tr : Bytes}
    (h3 : lc m c = 63) :
    go m (fuel + 1) d pattern text ⟨i, c :: r⟩ ⟨ti, tc :: tr⟩ =
      if m.noMatchSlash && lc m tc == 47 then .noMatch else go m fuel d pattern text ⟨i + 1, r⟩ ⟨ti + 1, tr⟩ := by
  conv => lhs; unfold go
  simp [Iter.next, STAR, BACKSLASH, BRACKET_OPEN, SLASH, h3]

theorem go_esc_end {m : Mode} {fuel d : Nat} {pattern text : Bytes} {i ti : Nat} {c tc : UInt8} {tr : Bytes}
    (h : lc m c = 92) :
    go m (fuel + 1) d pattern text ⟨i, [c]⟩ ⟨ti, tc :: tr⟩ = .noMatch := by
  conv => lhs; unfold go
  simp [Iter.next, STAR, BACKSLASH, h]

theorem go_esc {m : Mode} {fuel d : Nat} {pattern text : Bytes} {i ti : Nat} {c e tc : UInt8} {r tr : Bytes}
    (h : lc m c = 92) :
    go m (fuel + 1) d pattern text ⟨i, c :: e :: r⟩ ⟨ti, tc :: tr⟩ =
      if lc m e ≠ lc m tc then .noMatch else go m fuel d pattern text ⟨i + 2, r⟩ ⟨ti + 1, tr⟩ := by
  conv => lhs; unfold go
  simp [Iter.next, STAR, BACKSLASH, h]


theorem dw_nil {f : Flags} {n : Nat} {prev : Option UInt8} {t : Bytes} (ht : (0:UInt8) ∉ t) :
    dowild f (n + 1) prev [] t = if t.isEmpty then .matched else .noMatch := by
  unfold dowild
  cases t with
  | nil => simp [hd]
  | cons a r =>
    have : a ≠ 0 := by intro h; simp [h] at ht
    simp [hd, this]

theorem dw_abort {f : Flags} {n : Nat} {prev : Option UInt8} {c : UInt8} {r : Bytes}
    (hc : c ≠ 0) (h : c ≠ 42) :
    dowild f (n + 1) prev (c :: r) [] = .abortAll := by
  unfold dowild
  simp [hd, hc, h]

theorem dw_lit {f : Flags} {n : Nat} {prev : Option UInt8} {c tc : UInt8} {r tr : Bytes}
    (hc : c ≠ 0) (htc : tc ≠ 0)
    (h1 : fold f c ≠ 42) (h2 : fold f c ≠ 92) (h3 : fold f c ≠ 63) (h4 : fold f c ≠ 91) :
    dowild f (n + 1) prev (c :: r) (tc :: tr) =
      if fold f tc ≠ fold f c then .noMatch else dowild f n (some c) r tr := by
  conv => lhs; unfold dowild
  simp [hd, hc, htc, h1, h2, h3, h4]

theorem dw_qm {f : Flags} {n : Nat} {prev : Option UInt8} {c tc : UInt8} {r tr : Bytes}
    (hc : c ≠ 0) (htc : tc ≠ 0) (h3 : fold f c = 63) :
    dowild f (n + 1) prev (c :: r) (tc :: tr) =
      if f.pathname && fold f tc == 47 then .noMatch else dowild f n (some c) r tr := by
  conv => lhs; unfold dowild
  have : c ≠ 42 → True := fun _ => trivial
  simp [hd, hc, htc, h3]

theorem dw_esc {f : Flags} {n : Nat} {prev : Option UInt8} {c tc : UInt8} {r tr : Bytes}
    (hc : c ≠ 0) (htc : tc ≠ 0) (h : fold f c = 92) :
    dowild f (n + 1) prev (c :: r) (tc :: tr) =
      if fold f tc ≠ hd r then .noMatch else dowild f n (some (hd r)) r.tail tr := by
  conv => lhs; unfold dowild
  simp [hd, hc, htc, h]


theorem forall_uint8 (P : UInt8 → Bool)
    (h : (List.range 256).all (fun n => P (UInt8.ofNat n)) = true) : ∀ c, P c = true := by
  intro c
  have h2 := List.all_eq_true.mp h c.toNat (by simp [List.mem_range]; exact c.toNat_lt)
  simpa using h2

theorem lc_special (m : Mode) (c : UInt8) :
    (lc m c = 42 ↔ c = 42) ∧ (lc m c = 92 ↔ c = 92) ∧ (lc m c = 63 ↔ c = 63) ∧ (lc m c = 91 ↔ c = 91)
    ∧ (lc m c = 47 ↔ c = 47) ∧ (lc m c = 0 ↔ c = 0) ∧ (lc m c = 93 ↔ c = 93) := by
  unfold lc
  cases m.ignoreCase
  · simp
  · have := forall_uint8 (fun c => decide ((toAsciiLowercase c = 42 ↔ c = 42) ∧ (toAsciiLowercase c = 92 ↔ c = 92)
      ∧ (toAsciiLowercase c = 63 ↔ c = 63) ∧ (toAsciiLowercase c = 91 ↔ c = 91)
      ∧ (toAsciiLowercase c = 47 ↔ c = 47) ∧ (toAsciiLowercase c = 0 ↔ c = 0) ∧ (toAsciiLowercase c = 93 ↔ c = 93))) (by decide +kernel) c
    simpa using this

/-- no uppercase letter directly behind a backslash -/
def escSafe : Bytes → Bool
  | a :: b :: r => !(a == 92 && isAsciiUppercase b) && escSafe (b :: r)
  | _ => true

theorem lc_of_not_upper (m : Mode) (c : UInt8) (h : isAsciiUppercase c = false) : lc m c = c := by
  unfold lc toAsciiLowercase; simp [h]

@[simp] theorem flagsOf_pathname (m : Mode) : (flagsOf m).pathname = m.noMatchSlash := rfl
@[simp] theorem flagsOf_casefold (m : Mode) : (flagsOf m).casefold = m.ignoreCase := rfl

/-! ### bracket expressions -/

theorem class_fns (c : UInt8) :
    isAsciiAlphanumeric c = isAlnum c ∧ isAsciiAlphabetic c = isAlpha c ∧ (c == 32 || c == 9) = isBlank c
    ∧ isAsciiControl c = isCntrl c ∧ isAsciiDigit c = isDigit c ∧ isAsciiGraphic c = isGraph c
    ∧ isAsciiLowercase c = isLower c ∧ (32 ≤ c && c ≤ 126) = isPrint c ∧ isAsciiPunctuation c = isPunct c
    ∧ (c == 32 || c == 9 || c == 10 || c == 13) = isSpace c ∧ isAsciiUppercase c = isUpper c
    ∧ isAsciiHexdigit c = isXdigit c := by
  have := forall_uint8 (fun c => decide (isAsciiAlphanumeric c = isAlnum c ∧ isAsciiAlphabetic c = isAlpha c ∧ (c == 32 || c == 9) = isBlank c
    ∧ isAsciiControl c = isCntrl c ∧ isAsciiDigit c = isDigit c ∧ isAsciiGraphic c = isGraph c
    ∧ isAsciiLowercase c = isLower c ∧ (32 ≤ c && c ≤ 126) = isPrint c ∧ isAsciiPunctuation c = isPunct c
    ∧ (c == 32 || c == 9 || c == 10 || c == 13) = isSpace c ∧ isAsciiUppercase c = isUpper c
    ∧ isAsciiHexdigit c = isXdigit c)) (by decide +kernel) c
  simpa using this

theorem classTest_eq (m : Mode) (cls : Bytes) (tch : UInt8) :
    C36.classTest m cls tch = Spec.C36.classTest (flagsOf m) cls tch := by
  obtain ⟨h1, h2, h3, h4, h5, h6, h7, h8, h9, h10, h11, h12⟩ := class_fns tch
  unfold C36.classTest Spec.C36.classTest
  simp only [h10]
  simp only [h1, h2, h3, h4, h5, h6, h7, h8, h9, h11, h12, flagsOf_casefold]


theorem lc_id {m : Mode} (h : m.ignoreCase = false) (c : UInt8) : lc m c = c := by simp [lc, h]

def StepRel (pattern : Bytes) : StepRes → Option (UInt8 × Bytes × Bool) → Prop
  | .abort, none => True
  | .ok p pv mt, some (pc', rs', mt') =>
      p.rest = rs' ∧ mt = mt' ∧ pattern.drop p.idx = rs' ∧ (hd rs' = 45 → pv = pc')
  | _, _ => False

theorem drop_succ_of_drop {l : Bytes} {k : Nat} {c : UInt8} {r : Bytes} (h : l.drop k = c :: r) :
    l.drop (k + 1) = r := by
  have := congrArg List.tail h
  simpa [List.tail_drop] using this

theorem beq_comm8 (a b : UInt8) : (a == b) = (b == a) := by rw [BEq.comm]

theorem bracketStep_rel_esc (m : Mode) (hic : m.ignoreCase = false) (pattern : Bytes) (tch : UInt8)
    (j : Nat) (rs : Bytes) (hinv : pattern.drop (j + 1) = rs) (hnn : ∀ c ∈ rs, c ≠ 0)
    (prevM prevS : UInt8) (matched : Bool) :
    StepRel pattern (bracketStep m pattern tch j 92 ⟨j + 1, rs⟩ prevM matched)
      (Spec.C36.bracketStep (flagsOf m) tch 92 rs prevS matched) := by
  unfold C36.bracketStep Spec.C36.bracketStep
  cases rs with
  | nil => simp [BACKSLASH, Iter.next, hd, StepRel]
  | cons c r =>
    have hc : c ≠ 0 := hnn c (by simp)
    simp [BACKSLASH, Iter.next, hd, StepRel, hc, lc_id hic, drop_succ_of_drop hinv, beq_comm8 c tch]

/-- the default arm: an ordinary member -/
theorem bracketStep_rel_default (m : Mode) (pattern : Bytes) (tch : UInt8)
    (j : Nat) (pch : UInt8) (rs : Bytes) (hinv : pattern.drop (j + 1) = rs)
    (h92 : pch ≠ 92) (h45 : pch ≠ 45) (h91 : pch ≠ 91)
    (prevM prevS : UInt8) (matched : Bool) :
    StepRel pattern (bracketStep m pattern tch j pch ⟨j + 1, rs⟩ prevM matched)
      (Spec.C36.bracketStep (flagsOf m) tch pch rs prevS matched) := by
  unfold C36.bracketStep Spec.C36.bracketStep
  simp [BACKSLASH, BRACKET_OPEN, h92, h45, h91, StepRel, hinv, beq_comm8 pch tch]


/-- `-`: a range if there is a previous member and a following one that is not `]`, else a member -/
theorem bracketStep_rel_dash (m : Mode) (hic : m.ignoreCase = false) (pattern : Bytes) (tch : UInt8)
    (j : Nat) (rs : Bytes) (hinv : pattern.drop (j + 1) = rs) (hnn : ∀ c ∈ rs, c ≠ 0)
    (prev : UInt8) (matched : Bool) :
    StepRel pattern (bracketStep m pattern tch j 45 ⟨j + 1, rs⟩ prev matched)
      (Spec.C36.bracketStep (flagsOf m) tch 45 rs prev matched) := by
  unfold C36.bracketStep Spec.C36.bracketStep
  cases rs with
  | nil => simp [BACKSLASH, BRACKET_OPEN, BRACKET_CLOSE, Iter.peekCh, hd, StepRel, hinv, beq_comm8 45 tch]
  | cons c r =>
    have hc : c ≠ 0 := hnn c (by simp)
    have hr := drop_succ_of_drop hinv
    by_cases hp : prev = 0
    · simp [BACKSLASH, BRACKET_OPEN, BRACKET_CLOSE, Iter.peekCh, hd, StepRel, hinv, hp, beq_comm8 45 tch]
    by_cases h93 : c = 93
    · simp [BACKSLASH, BRACKET_OPEN, BRACKET_CLOSE, Iter.peekCh, hd, StepRel, hinv, h93, lc_id hic, beq_comm8 45 tch]
    by_cases h92 : c = 92
    · subst h92
      cases r with
      | nil =>
        simp [BACKSLASH, BRACKET_OPEN, BRACKET_CLOSE, Iter.peekCh, Iter.next, hd, StepRel, hp, lc_id hic]
      | cons e r2 =>
        have he : e ≠ 0 := hnn e (by simp)
        have hr2 := drop_succ_of_drop hr
        simp [BACKSLASH, BRACKET_OPEN, BRACKET_CLOSE, Iter.peekCh, Iter.next, hd, StepRel, hp, he, hic, lc_id hic, hr2]
    · simp [BACKSLASH, BRACKET_OPEN, BRACKET_CLOSE, Iter.peekCh, Iter.next, hd, StepRel, hp, hc, h93, h92, hic, lc_id hic, hr]



theorem skipToCloseAux_eq (m : Mode) (s : Bytes) : ∀ (i : Nat),
    skipToCloseAux m i s = ⟨i + (s.takeWhile (· != 93)).length, s.dropWhile (· != 93)⟩ := by
  induction s with
  | nil => intro i; simp [skipToCloseAux]
  | cons c r ih =>
    intro i
    have h93 := (lc_special m c).2.2.2.2.2.2
    by_cases hc : c = 93
    · have : lc m c = 93 := h93.mpr hc
      subst hc
      simp [skipToCloseAux, BRACKET_CLOSE, this]
    · have : lc m c ≠ 93 := fun h => hc (h93.mp h)
      simp [skipToCloseAux, BRACKET_CLOSE, hc, this, ih]
      omega

theorem tw_nn (s : Bytes) (h : ∀ c ∈ s, c ≠ 0) :
    s.takeWhile (fun c => c != 0 && c != 93) = s.takeWhile (· != 93)
    ∧ s.dropWhile (fun c => c != 0 && c != 93) = s.dropWhile (· != 93) := by
  induction s with
  | nil => simp
  | cons c r ih =>
    have hc : c ≠ 0 := h c (by simp)
    have := ih (fun x hx => h x (by simp [hx]))
    by_cases h93 : c = 93
    · simp [List.takeWhile_cons, List.dropWhile_cons, h93]
    · simp [List.takeWhile_cons, List.dropWhile_cons, hc, h93, this]

theorem dropWhile_head (s : Bytes) : s.dropWhile (· != 93) = [] ∨ ∃ a, s.dropWhile (· != 93) = 93 :: a := by
  induction s with
  | nil => simp
  | cons c r ih =>
    by_cases h93 : c = 93
    · right; exact ⟨r, by simp [List.dropWhile_cons, h93]⟩
    · simpa [List.dropWhile_cons, h93] using ih


theorem advance_one (i : Nat) (c : UInt8) (r : Bytes) : (Iter.mk i (c :: r)).advance 1 = ⟨i + 1, r⟩ := by
  simp [Iter.advance]

theorem ofSlice_advance (pattern : Bytes) (k : Nat) (hk : k ≤ pattern.length) :
    (Iter.ofSlice pattern).advance k = ⟨k, pattern.drop k⟩ := by
  simp [Iter.ofSlice, Iter.advance, Nat.min_eq_left hk]

theorem getLast?_eq_getElem? (seg : Bytes) (h : seg ≠ []) : seg.getLast? = seg[seg.length - 1]? := by
  rw [List.getLast?_eq_getElem?]

/-- `[` followed by `:`: a class, or an ordinary `[` -/
theorem bracketStep_rel_class (m : Mode) (pattern : Bytes) (tch : UInt8)
    (j : Nat) (s : Bytes) (hinv : pattern.drop (j + 1) = 58 :: s) (hnn : ∀ c ∈ s, c ≠ 0)
    (prevM prevS : UInt8) (matched : Bool) :
    StepRel pattern (bracketStep m pattern tch j 91 ⟨j + 1, 58 :: s⟩ prevM matched)
      (Spec.C36.bracketStep (flagsOf m) tch 91 (58 :: s) prevS matched) := by
  have hlen : j + 1 < pattern.length := by
    apply Nat.lt_of_not_le
    intro h
    have : pattern.drop (j + 1) = [] := List.drop_eq_nil_of_le h
    simp [this] at hinv
  have hs : pattern.drop (j + 2) = s := drop_succ_of_drop hinv
  obtain ⟨htw, hdw⟩ := tw_nn s hnn
  have hsplit : s = s.takeWhile (· != 93) ++ s.dropWhile (· != 93) := (List.takeWhile_append_dropWhile).symm
  have hl58 : lc m 58 = 58 := by
    unfold lc toAsciiLowercase isAsciiUppercase; cases m.ignoreCase <;> simp
  unfold C36.bracketStep Spec.C36.bracketStep
  simp only [BACKSLASH, BRACKET_OPEN, COLON, Iter.peekCh, hl58, hd, List.headD_cons, List.tail_cons, htw, hdw]
  generalize hseg : s.takeWhile (· != 93) = seg at *
  generalize haft : s.dropWhile (· != 93) = after at *
  rcases dropWhile_head s with h0 | ⟨a, ha⟩
  · rw [haft] at h0; subst h0
    simp [advance_one, Iter.skipToClose, skipToCloseAux_eq, hseg, haft, Iter.next, StepRel]
  · rw [haft] at ha; subst ha
    simp only [advance_one, Iter.skipToClose, skipToCloseAux_eq, hseg, haft, Iter.next]
    have hadv : (Iter.ofSlice pattern).advance (j + 1) = ⟨j + 1, 58 :: s⟩ := by
      rw [ofSlice_advance _ _ (by omega), hinv]
    by_cases hempty : seg = []
    · subst hempty
      have hlt : j + 1 + 1 + ([] : Bytes).length - j < 3 := by simp
      simp [hlt, hadv, StepRel, hinv, hd]
    · have hpos : 0 < seg.length := List.length_pos_iff.mpr hempty
      have hlt : ¬ (j + 1 + 1 + seg.length - j < 3) := by omega
      have hidx : j + 1 + 1 + seg.length - 1 = (j + 1) + seg.length := by omega
      have hget : pattern[j + 1 + seg.length]? = seg.getLast? := by
        have h1 : pattern[j + 1 + seg.length]? = (pattern.drop (j + 1))[seg.length]? := by
          rw [List.getElem?_drop]
        rw [h1, hinv, hsplit]
        have : (58 :: (seg ++ 93 :: a))[seg.length]? = (seg ++ 93 :: a)[seg.length - 1]? := by
          cases hl : seg.length with
          | zero => omega
          | succ k => simp
        rw [this, List.getElem?_append_left (by omega), List.getLast?_eq_getElem?]
      have hslice : List.take (j + 1 + seg.length - (j + 2)) (List.drop (j + 2) pattern) = seg.dropLast := by
        rw [hs, hsplit]
        have : j + 1 + seg.length - (j + 2) = seg.length - 1 := by omega
        rw [this, List.take_append_of_le_length (by omega), List.dropLast_eq_take]
      have hb1 : (decide (j + 2 ≤ j + 1 + seg.length) && decide (j + 1 + seg.length ≤ List.length pattern)) = true := by
        have : seg.length + 1 + (j + 2) ≤ pattern.length := by
          have := congrArg List.length hs
          rw [hsplit] at this
          simp at this
          omega
        simp; omega
      have hdrop : List.drop (j + 1 + 1 + seg.length + 1) pattern = a := by
        have : j + 1 + 1 + seg.length + 1 = (j + 2) + (seg.length + 1) := by omega
        rw [this, ← List.drop_drop, hs, hsplit]
        simp
      simp only [hlt, hidx, hget, hslice, hb1, hadv, classTest_eq]
      cases hgl : seg.getLast? with
      | none => simp [List.getLast?_eq_none_iff] at hgl; exact absurd hgl hempty
      | some g =>
        by_cases hg : g = 58
        · subst hg
          have hne : seg.isEmpty = false := by simp [hempty]
          cases hct : Spec.C36.classTest (flagsOf m) seg.dropLast tch with
          | none => simp [hct, StepRel, hne]
          | some b => simp [hct, StepRel, hne, hdrop]
        · simp [hg, StepRel, hinv, hd]



/-- `[` not followed by `:` is an ordinary member -/
theorem bracketStep_rel_open_plain (m : Mode) (pattern : Bytes) (tch : UInt8)
    (j : Nat) (rs : Bytes) (hinv : pattern.drop (j + 1) = rs) (h58 : hd rs ≠ 58)
    (prevM prevS : UInt8) (matched : Bool) :
    StepRel pattern (bracketStep m pattern tch j 91 ⟨j + 1, rs⟩ prevM matched)
      (Spec.C36.bracketStep (flagsOf m) tch 91 rs prevS matched) := by
  unfold C36.bracketStep Spec.C36.bracketStep
  cases rs with
  | nil => simp [BACKSLASH, BRACKET_OPEN, COLON, Iter.peekCh, hd, StepRel, hinv, beq_comm8 91 tch]
  | cons c r =>
    have hc : c ≠ 58 := by simpa [hd] using h58
    have hl : lc m c ≠ 58 := by
      intro h
      have := forall_uint8 (fun c => decide (toAsciiLowercase c = 58 → c = 58)) (by decide +kernel) c
      simp only [decide_eq_true_eq] at this
      unfold lc at h
      cases hic : m.ignoreCase <;> simp [hic] at h
      · exact hc h
      · exact hc (this h)
    simp [BACKSLASH, BRACKET_OPEN, COLON, Iter.peekCh, hd, StepRel, hinv, hc, hl, beq_comm8 91 tch]

theorem bracketStep_rel (m : Mode) (hic : m.ignoreCase = false) (pattern : Bytes) (tch : UInt8)
    (j : Nat) (pch : UInt8) (rs : Bytes) (hinv : pattern.drop (j + 1) = rs) (hnn : ∀ c ∈ rs, c ≠ 0)
    (prevM prevS : UInt8) (hprev : pch = 45 → prevM = prevS) (matched : Bool) :
    StepRel pattern (bracketStep m pattern tch j pch ⟨j + 1, rs⟩ prevM matched)
      (Spec.C36.bracketStep (flagsOf m) tch pch rs prevS matched) := by
  by_cases h92 : pch = 92
  · subst h92; exact bracketStep_rel_esc m hic pattern tch j rs hinv hnn prevM prevS matched
  by_cases h45 : pch = 45
  · subst h45; rw [hprev rfl]; exact bracketStep_rel_dash m hic pattern tch j rs hinv hnn prevS matched
  by_cases h91 : pch = 91
  · subst h91
    by_cases h58 : hd rs = 58
    · cases rs with
      | nil => simp [hd] at h58
      | cons c s =>
        have : c = 58 := by simpa [hd] using h58
        subst this
        exact bracketStep_rel_class m pattern tch j s hinv (fun x hx => hnn x (by simp [hx])) prevM prevS matched
    · exact bracketStep_rel_open_plain m pattern tch j rs hinv h58 prevM prevS matched
  · exact bracketStep_rel_default m pattern tch j pch rs hinv h92 h45 h91 prevM prevS matched

def BrRel (pattern : Bytes) : C36.BrRes → Spec.C36.BrRes → Prop
  | .abort, .abort => True
  | .fuel, .fuel => True
  | .done b p, .done b' r => b = b' ∧ p.rest = r ∧ pattern.drop p.idx = r
  | _, _ => False

theorem mem_drop_ne {pattern : Bytes} (hnn : ∀ c ∈ pattern, c ≠ 0) {k : Nat} {rs : Bytes}
    (h : pattern.drop k = rs) : ∀ c ∈ rs, c ≠ 0 := by
  intro c hc
  exact hnn c (List.mem_of_mem_drop (h ▸ hc))

theorem bracketLoop_none (m : Mode) (pattern : Bytes) (tch : UInt8) (n : Nat) (p : Iter) (prev : UInt8)
    (matched : Bool) : C36.bracketLoop m pattern tch n none p prev matched = .abort := by
  unfold C36.bracketLoop; rfl

theorem spec_bracketLoop_zero (f : Flags) (tch : UInt8) (n : Nat) (rest : Bytes) (prev : UInt8)
    (matched : Bool) : Spec.C36.bracketLoop f tch n 0 rest prev matched = .abort := by
  unfold Spec.C36.bracketLoop; simp

theorem bracketLoop_rel (m : Mode) (hic : m.ignoreCase = false) (pattern : Bytes)
    (hnn : ∀ c ∈ pattern, c ≠ 0) (tch : UInt8) :
    ∀ (n j : Nat) (pch : UInt8) (rs : Bytes) (prevM prevS : UInt8) (matched : Bool),
      pattern.drop (j + 1) = rs → pch ≠ 0 → (pch = 45 → prevM = prevS) →
      BrRel pattern (C36.bracketLoop m pattern tch n (some (j, pch)) ⟨j + 1, rs⟩ prevM matched)
        (Spec.C36.bracketLoop (flagsOf m) tch n pch rs prevS matched) := by
  intro n
  induction n with
  | zero => intro j pch rs prevM prevS matched _ hp0 _; simp [C36.bracketLoop, Spec.C36.bracketLoop, BrRel, hp0]
  | succ n ih =>
    intro j pch rs prevM prevS matched hinv hp0 hprev
    unfold C36.bracketLoop Spec.C36.bracketLoop
    have hstep := bracketStep_rel m hic pattern tch j pch rs hinv (mem_drop_ne hnn hinv) prevM prevS hprev matched
    simp only [hp0, beq_iff_eq, if_false]
    generalize C36.bracketStep m pattern tch j pch ⟨j + 1, rs⟩ prevM matched = sm at hstep
    generalize Spec.C36.bracketStep (flagsOf m) tch pch rs prevS matched = ss at hstep
    cases sm with
    | abort => cases ss with
      | none => simp [BrRel]
      | some x => simp [StepRel] at hstep
    | panic => cases ss <;> simp [StepRel] at hstep
    | ok p pv mt =>
      cases ss with
      | none => simp [StepRel] at hstep
      | some x =>
        obtain ⟨pc', rs', mt'⟩ := x
        obtain ⟨h1, h2, h3, h4⟩ := hstep
        obtain ⟨k, pr⟩ := p
        simp at h1 h3
        subst h1 h2
        cases pr with
        | nil => simp [Iter.next, hd, BrRel, bracketLoop_none, spec_bracketLoop_zero]
        | cons c r2 =>
          have hc0 : c ≠ 0 := mem_drop_ne hnn h3 c (by simp)
          have hr2 := drop_succ_of_drop h3
          by_cases h93 : c = 93
          · simp [Iter.next, hd, BrRel, h93, lc_id hic, BRACKET_CLOSE, hr2]
          · have := ih k c r2 pv pc' mt hr2 hc0 (by simpa [hd] using h4)
            simp [Iter.next, hd, h93, lc_id hic, BRACKET_CLOSE]
            exact this

theorem bracket_rel (m : Mode) (hic : m.ignoreCase = false) (pattern : Bytes)
    (hnn : ∀ c ∈ pattern, c ≠ 0) (tch : UInt8) (fuel i : Nat) (rs : Bytes) (hinv : pattern.drop i = rs) :
    BrRel pattern (C36.bracket m pattern tch fuel ⟨i, rs⟩) (Spec.C36.bracket (flagsOf m) tch fuel rs) := by
  unfold C36.bracket Spec.C36.bracket
  cases rs with
  | nil => simp [Iter.next, hd, spec_bracketLoop_zero, BrRel]
  | cons c r =>
    have hc0 : c ≠ 0 := mem_drop_ne hnn hinv c (by simp)
    have hr := drop_succ_of_drop hinv
    by_cases hneg : c = 94 ∨ c = 33
    · -- negated
      have e1 : ((if c = 94 then (33 : UInt8) else c) = 33) := by
        rcases hneg with h | h <;> simp [h]
      cases r with
      | nil =>
        simp [Iter.next, hd, lc_id hic, NEGATE_CLASS, e1, spec_bracketLoop_zero, bracketLoop_none, BrRel]
      | cons e r2 =>
        have he0 : e ≠ 0 := mem_drop_ne hnn hr e (by simp)
        have hr2 := drop_succ_of_drop hr
        have := bracketLoop_rel m hic pattern hnn tch fuel (i + 1) e r2 0 0 false hr2 he0 (fun _ => rfl)
        simp only [Iter.next, hd, lc_id hic, NEGATE_CLASS, e1, List.headD_cons, List.tail_cons, beq_iff_eq]
        simp only [beq_self_eq_true, if_true]
        generalize C36.bracketLoop m pattern tch fuel (some (i + 1, e)) ⟨i + 1 + 1, r2⟩ 0 false = bm at this
        generalize Spec.C36.bracketLoop (flagsOf m) tch fuel e r2 0 false = bs at this
        cases bm <;> cases bs <;> simp_all [BrRel]
    · have h94 : c ≠ 94 := fun h => hneg (Or.inl h)
      have h33 : c ≠ 33 := fun h => hneg (Or.inr h)
      have := bracketLoop_rel m hic pattern hnn tch fuel i c r 0 0 false hr hc0 (fun _ => rfl)
      simp only [Iter.next, hd, lc_id hic, NEGATE_CLASS, List.headD_cons, List.tail_cons, beq_iff_eq, h94, h33, if_false]
      generalize C36.bracketLoop m pattern tch fuel (some (i, c)) ⟨i + 1, r⟩ 0 false = bm at this
      generalize Spec.C36.bracketLoop (flagsOf m) tch fuel c r 0 false = bs at this
      cases bm <;> cases bs <;> simp_all [BrRel]



theorem go_br {m : Mode} {fuel d : Nat} {pattern text : Bytes} {i ti : Nat} {c tc : UInt8} {r tr : Bytes}
    (h : lc m c = 91) :
    go m (fuel + 1) d pattern text ⟨i, c :: r⟩ ⟨ti, tc :: tr⟩ =
      match C36.bracket m pattern (lc m tc) fuel ⟨i + 1, r⟩ with
      | .abort => .abortAll
      | .panic => .panic
      | .fuel => .fuelOut
      | .done ok p =>
        if !ok || (m.noMatchSlash && lc m tc == 47) then .noMatch
        else go m fuel d pattern text p ⟨ti + 1, tr⟩ := by
  conv => lhs; unfold go
  simp [Iter.next, STAR, BACKSLASH, BRACKET_OPEN, SLASH, h]
  generalize C36.bracket m pattern (lc m tc) fuel ⟨i + 1, r⟩ = b
  cases b <;> rfl

theorem dw_br {f : Flags} {n : Nat} {prev : Option UInt8} {c tc : UInt8} {r tr : Bytes}
    (hc : c ≠ 0) (htc : tc ≠ 0) (h : fold f c = 91) :
    dowild f (n + 1) prev (c :: r) (tc :: tr) =
      match Spec.C36.bracket f (fold f tc) n r with
      | .abort => .abortAll
      | .fuel => .fuelOut
      | .done ok rest =>
        if !ok || (f.pathname && fold f tc == 47) then .noMatch
        else dowild f n (some 93) rest tr := by
  conv => lhs; unfold dowild
  simp [hd, hc, htc, h]
  generalize Spec.C36.bracket f (fold f tc) n r = b
  cases b <;> rfl


theorem escSafe_tail {a : UInt8} {l : Bytes} (h : escSafe (a :: l) = true) : escSafe l = true := by
  cases l with
  | nil => rfl
  | cons b r => simp [escSafe] at h; exact h.2

theorem escSafe_drop (l : Bytes) (h : escSafe l = true) : ∀ k, escSafe (l.drop k) = true := by
  intro k
  induction k generalizing l with
  | zero => simpa using h
  | succ k ih =>
    cases l with
    | nil => simp [escSafe]
    | cons a r => simpa using ih r (escSafe_tail h)

/-- What the equality theorems need of a pattern under a given mode: no NUL; under IGNORE_CASE
(where gitoxide deliberately deviates from git inside brackets and escapes) no bracket and no
escaped upper-case letter. -/
structure PatOk (m : Mode) (pattern : Bytes) : Prop where
  noNul : ∀ c ∈ pattern, c ≠ 0
  icase : m.ignoreCase = true → (∀ c ∈ pattern, c ≠ 91) ∧ escSafe pattern = true

/-- star-free patterns: literals, `?`, escapes, bracket expressions -/
theorem go_eq_dowild_starfree (m : Mode) (d : Nat) (pattern text : Bytes) (hok : PatOk m pattern)
    (hstar : ∀ c ∈ pattern, c ≠ 42) :
    ∀ (fuel : Nat) (ps ts : Bytes) (i ti : Nat) (prev : Option UInt8),
      pattern.drop i = ps → (∀ c ∈ ts, c ≠ 0) →
      go m fuel d pattern text ⟨i, ps⟩ ⟨ti, ts⟩ = ofWm (dowild (flagsOf m) fuel prev ps ts) := by
  intro fuel
  induction fuel with
  | zero => intros; simp [go, dowild, ofWm]
  | succ n ih =>
    intro ps ts i ti prev hinv ht
    cases ps with
    | nil =>
      rw [go_nil, dw_nil (by intro h; exact (ht 0 h) rfl)]
      cases ts <;> simp [ofWm]
    | cons c r =>
      have hmem : ∀ x ∈ c :: r, x ∈ pattern := fun x hx => List.mem_of_mem_drop (hinv ▸ hx)
      have hc0 : c ≠ 0 := hok.noNul c (hmem c (by simp))
      have hc42 : c ≠ 42 := hstar c (hmem c (by simp))
      have hr := drop_succ_of_drop hinv
      obtain ⟨s42, s92, s63, s91, s47, s0, s93⟩ := lc_special m c
      cases ts with
      | nil =>
        rw [go_abort (by rw [Ne, s42]; exact hc42), dw_abort hc0 hc42]
        rfl
      | cons tc tr =>
        have htc : tc ≠ 0 := ht tc (by simp)
        have htr : ∀ c ∈ tr, c ≠ 0 := fun x hx => ht x (by simp [hx])
        have htc' : lc m tc ≠ 0 := fun h => htc ((lc_special m tc).2.2.2.2.2.1.mp h)
        by_cases h92 : c = 92
        · -- escape
          subst h92
          cases r with
          | nil =>
            rw [go_esc_end (by rw [s92]), dw_esc hc0 htc (by rw [fold_eq_lc, s92])]
            simp [hd, fold_eq_lc, ofWm, htc']
          | cons e r2 =>
            rw [go_esc (by rw [s92]), dw_esc hc0 htc (by rw [fold_eq_lc, s92])]
            have hle : lc m e = e := by
              cases hic : m.ignoreCase with
              | false => simp [lc, hic]
              | true =>
                have := escSafe_drop pattern (hok.icase hic).2 i
                rw [hinv] at this
                simp [escSafe] at this
                exact lc_of_not_upper m e (by simpa using this.1)
            simp only [hd, List.headD_cons, List.tail_cons, fold_eq_lc, hle]
            have hr2 := drop_succ_of_drop hr
            rw [ih r2 tr (i + 2) (ti + 1) (some e) hr2 htr]
            by_cases hne : e = lc m tc
            · simp [hne]
            · have : ¬ lc m tc = e := fun h => hne h.symm
              simp [hne, this, ofWm]
        · by_cases h63 : c = 63
          · subst h63
            rw [go_qm (by rw [s63]), dw_qm hc0 htc (by rw [fold_eq_lc, s63])]
            rw [ih r tr (i + 1) (ti + 1) (some 63) hr htr]
            simp only [fold_eq_lc, flagsOf_pathname]
            split <;> simp [ofWm]
          · by_cases h91 : c = 91
            · -- bracket expression: only reachable case-sensitively
              subst h91
              have hic : m.ignoreCase = false := by
                cases h : m.ignoreCase with
                | false => rfl
                | true => exact absurd rfl ((hok.icase h).1 91 (hmem 91 (by simp)))
              rw [go_br (by rw [s91]), dw_br hc0 htc (by rw [fold_eq_lc, s91])]
              have hb := bracket_rel m hic pattern hok.noNul (lc m tc) n (i + 1) r hr
              simp only [fold_eq_lc, flagsOf_pathname]
              generalize C36.bracket m pattern (lc m tc) n ⟨i + 1, r⟩ = bm at hb
              generalize Spec.C36.bracket (flagsOf m) (lc m tc) n r = bs at hb
              cases bm with
              | abort => cases bs <;> simp_all [BrRel, ofWm]
              | panic => cases bs <;> simp_all [BrRel]
              | fuel => cases bs <;> simp_all [BrRel, ofWm]
              | done ok p =>
                cases bs with
                | abort => simp [BrRel] at hb
                | fuel => simp [BrRel] at hb
                | done ok' rest =>
                  obtain ⟨h1, h2, h3⟩ := hb
                  obtain ⟨k, pr⟩ := p
                  simp at h2 h3
                  subst h1 h2
                  simp only []
                  rw [ih pr tr k (ti + 1) (some 93) h3 htr]
                  split <;> simp [ofWm]
            · rw [go_lit (by rw [Ne, s42]; exact hc42) (by rw [Ne, s92]; exact h92)
                  (by rw [Ne, s63]; exact h63) (by rw [Ne, s91]; exact h91),
                dw_lit hc0 htc (by rw [fold_eq_lc, Ne, s42]; exact hc42) (by rw [fold_eq_lc, Ne, s92]; exact h92)
                  (by rw [fold_eq_lc, Ne, s63]; exact h63) (by rw [fold_eq_lc, Ne, s91]; exact h91)]
              rw [ih r tr (i + 1) (ti + 1) (some c) hr htr]
              simp only [fold_eq_lc]
              by_cases hne : lc m c = lc m tc
              · simp [hne]
              · have : ¬ lc m tc = lc m c := fun h => hne h.symm
                simp [hne, this, ofWm]



/-! ### runs of literal pattern bytes; the shortcuts of `Pattern::matches` -/

/-- what the matcher does on a run of non-glob pattern bytes: the rest of the text, or the early result -/
def litRun (m : Mode) : Bytes → Bytes → Except Res Bytes
  | [], ts => .ok ts
  | _ :: _, [] => .error .abortAll
  | c :: r, tc :: tr => if lc m c ≠ lc m tc then .error .noMatch else litRun m r tr

theorem lc_glob (m : Mode) (c : UInt8) : isGlobCharacter (lc m c) = isGlobCharacter c := by
  obtain ⟨s42, s92, s63, s91, _, _, _⟩ := lc_special m c
  unfold isGlobCharacter
  rw [Bool.eq_iff_iff]
  simp only [Bool.or_eq_true, beq_iff_eq, s42, s63, s91, s92]

theorem not_glob {c : UInt8} (h : isGlobCharacter c = false) : c ≠ 42 ∧ c ≠ 63 ∧ c ≠ 91 ∧ c ≠ 92 := by
  unfold isGlobCharacter at h
  simp at h
  exact ⟨h.1.1.1, h.1.1.2, h.1.2, h.2⟩

theorem go_litRun (m : Mode) (d : Nat) (pattern text : Bytes) :
    ∀ (lit rest ts : Bytes) (fuel i ti : Nat), (∀ c ∈ lit, isGlobCharacter c = false) →
      go m (fuel + lit.length) d pattern text ⟨i, lit ++ rest⟩ ⟨ti, ts⟩ =
        match litRun m lit ts with
        | .error r => r
        | .ok ts' => go m fuel d pattern text ⟨i + lit.length, rest⟩ ⟨ti + lit.length, ts'⟩ := by
  intro lit
  induction lit with
  | nil => intros; simp [litRun]
  | cons c r ih =>
    intro rest ts fuel i ti hg
    have hc := not_glob ((lc_glob m c).trans (hg c (by simp)))
    have hr : ∀ x ∈ r, isGlobCharacter x = false := fun x hx => hg x (by simp [hx])
    have e : fuel + (c :: r).length = (fuel + r.length) + 1 := by simp; omega
    rw [e]
    cases ts with
    | nil => simp only [List.cons_append]; rw [go_abort hc.1]; simp [litRun]
    | cons tc tr =>
      simp only [List.cons_append]
      rw [go_lit hc.1 hc.2.2.2 hc.2.1 hc.2.2.1]
      by_cases hne : lc m c = lc m tc
      · simp only [hne, ne_eq, not_true_eq_false, if_false, litRun]
        rw [ih rest tr fuel (i + 1) (ti + 1) hr]
        simp only [List.length_cons]
        have e1 : i + 1 + r.length = i + (r.length + 1) := by omega
        have e2 : ti + 1 + r.length = ti + (r.length + 1) := by omega
        rw [e1, e2]
      · simp [hne, litRun]


theorem litRun_ok_iff (m : Mode) : ∀ (lit ts ts' : Bytes),
    litRun m lit ts = .ok ts' ↔
      (lit.length ≤ ts.length ∧ (ts.take lit.length).map (lc m) = lit.map (lc m) ∧ ts' = ts.drop lit.length) := by
  intro lit
  induction lit with
  | nil => intro ts ts'; simp [litRun]; exact eq_comm
  | cons c r ih =>
    intro ts ts'
    cases ts with
    | nil => simp [litRun]
    | cons tc tr =>
      by_cases h : lc m c = lc m tc
      · simp [litRun, h, ih tr ts']
      · have h' : ¬ lc m tc = lc m c := fun e => h e.symm
        simp [litRun, h, h']

theorem litRun_error (m : Mode) : ∀ (lit ts : Bytes) (r : Res),
    litRun m lit ts = .error r → r = .abortAll ∨ r = .noMatch := by
  intro lit
  induction lit with
  | nil => intro ts r h; simp [litRun] at h
  | cons c rs ih =>
    intro ts r h
    cases ts with
    | nil => simp [litRun] at h; exact Or.inl h.symm
    | cons tc tr =>
      by_cases e : lc m c = lc m tc
      · simp [litRun, e] at h; exact ih tr r h
      · simp [litRun, e] at h; exact Or.inr h.symm

theorem firstWildcardPos_none {l : Bytes} : firstWildcardPos l = none ↔ ∀ c ∈ l, isGlobCharacter c = false := by
  induction l with
  | nil => simp [firstWildcardPos]
  | cons a r ih =>
    by_cases h : isGlobCharacter a = true
    · simp [firstWildcardPos, h]
    · simp at h
      simp [firstWildcardPos, h, ih]

/-- a pattern without glob characters matches exactly the texts equal to it (after the mode's case folding) -/
theorem wildmatch_literal (m : Mode) (text value : Bytes) (hg : ∀ c ∈ text, isGlobCharacter c = false) :
    C36.wildmatch m text value = true ↔ value.map (lc m) = text.map (lc m) := by
  unfold C36.wildmatch matchRecursive RECURSION_LIMIT
  simp only [beq_iff_eq]
  have h := go_litRun m 63 text value text [] value 1 0 0 hg
  rw [List.append_nil, Nat.add_comm] at h
  simp only [Iter.ofSlice]
  rw [h]
  cases hl : litRun m text value with
  | error r =>
    rcases litRun_error m text value r hl with e | e <;> subst e <;> simp
    all_goals
      intro heq
      have : litRun m text value = .ok [] := by
        rw [litRun_ok_iff]
        have hlen := congrArg List.length heq
        simp at hlen
        refine ⟨by omega, ?_, ?_⟩
        · rw [← hlen, List.take_length]; exact heq
        · rw [← hlen]; simp
      rw [this] at hl; cases hl
  | ok ts' =>
    have := (litRun_ok_iff m text value ts').mp hl
    obtain ⟨h1, h2, h3⟩ := this
    show go m (0 + 1) 63 text value ⟨0 + text.length, []⟩ ⟨0 + text.length, ts'⟩ = Res.matched ↔ _
    rw [go_nil]
    constructor
    · intro hm
      have hts : ts' = [] := by
        cases ts' with
        | nil => rfl
        | cons a b => simp at hm
      rw [hts] at h3
      have hlen : value.length ≤ text.length := by
        have := congrArg List.length h3
        simp at this
        omega
      have : value.length = text.length := by omega
      rw [← this, List.take_length] at h2
      exact h2
    · intro heq
      have hlen := congrArg List.length heq
      simp at hlen
      have : ts' = [] := by rw [h3, ← hlen]; simp
      simp [this]


theorem firstWildcardPos_some {l : Bytes} {pos : Nat} (h : firstWildcardPos l = some pos) :
    pos < l.length ∧ (∀ c ∈ l.take pos, isGlobCharacter c = false) ∧ (∃ g, l[pos]? = some g ∧ isGlobCharacter g = true) := by
  induction l generalizing pos with
  | nil => simp [firstWildcardPos] at h
  | cons a r ih =>
    by_cases hg : isGlobCharacter a = true
    · simp [firstWildcardPos, hg] at h
      subst h
      simp [hg]
    · simp at hg
      simp [firstWildcardPos, hg] at h
      obtain ⟨q, hq, hpq⟩ := h
      subst hpq
      obtain ⟨h1, h2, h3⟩ := ih hq
      refine ⟨by simp; omega, ?_, ?_⟩
      · intro c hc
        simp at hc
        rcases hc with e | e
        · subst e; exact hg
        · exact h2 c e
      · simpa using h3

/-- a match implies that the glob-free prefix of the pattern equals the start of the text -/
theorem wildmatch_prefix (m : Mode) (text value : Bytes) (pos : Nat) (hpos : pos ≤ text.length)
    (hg : ∀ c ∈ text.take pos, isGlobCharacter c = false) (hm : C36.wildmatch m text value = true) :
    pos ≤ value.length ∧ (value.take pos).map (lc m) = (text.take pos).map (lc m) := by
  unfold C36.wildmatch matchRecursive RECURSION_LIMIT at hm
  simp only [beq_iff_eq, Iter.ofSlice] at hm
  have hlen : (text.take pos).length = pos := by simp [Nat.min_eq_left hpos]
  have h := go_litRun m 63 text value (text.take pos) (text.drop pos) value (text.length + 1 - pos) 0 0 hg
  rw [List.take_append_drop, hlen] at h
  have e : text.length + 1 - pos + pos = text.length + 1 := by omega
  rw [e] at h
  rw [h] at hm
  cases hl : litRun m (text.take pos) value with
  | error r =>
    rw [hl] at hm
    rcases litRun_error m _ value r hl with e | e <;> subst e <;> simp at hm
  | ok ts' =>
    obtain ⟨h1, h2, _⟩ := (litRun_ok_iff m _ value ts').mp hl
    rw [hlen] at h1 h2
    exact ⟨h1, h2⟩



/-- `match_recursive(pattern[pIdx..], text[k..], mode, depth + 1)` as called from `go` with `d` levels left -/
def recCall (m : Mode) (fuel d : Nat) (pattern text : Bytes) (pIdx k : Nat) : Res :=
  match sliceFrom pattern pIdx, sliceFrom text k with
  | some pat, some txt =>
    if d == 0 then .recursionLimit else go m fuel (d - 1) pat txt (Iter.ofSlice pat) (Iter.ofSlice txt)
  | _, _ => .panic

theorem go_star_lit {m : Mode} {fuel d : Nat} {pattern text : Bytes} {l0 tc : UInt8} {lit' tr : Bytes}
    (h0 : lc m l0 ≠ 42) (hns : ¬ (m.noMatchSlash = true ∧ lc m l0 = 47)) :
    go m (fuel + 1) d pattern text ⟨0, 42 :: l0 :: lit'⟩ ⟨0, tc :: tr⟩ =
      starLoop m (fun k => recCall m fuel d pattern text 1 k) (lc m l0) (!m.noMatchSlash)
        (tr.length + 1) 0 (lc m tc) ⟨1, tr⟩ := by
  conv => lhs; unfold go
  have e42 : lc m 42 = 42 := ((lc_special m 42).1).mpr rfl
  simp [Iter.next, STAR, BACKSLASH, SLASH, e42, h0, recCall]
  rw [if_neg hns]
  congr 1


/-- text exhausted at the star: the sentinel state -/
theorem go_star_lit_nil {m : Mode} {fuel d : Nat} {pattern text : Bytes} {l0 : UInt8} {lit' : Bytes}
    (h0 : lc m l0 ≠ 42) (hns : ¬ (m.noMatchSlash = true ∧ lc m l0 = 47)) :
    go m (fuel + 1) d pattern text ⟨0, 42 :: l0 :: lit'⟩ ⟨0, []⟩ =
      starLoop m (fun k => recCall m fuel d pattern text 1 k) (lc m l0) (!m.noMatchSlash)
        1 text.length 0 ⟨0, []⟩ := by
  conv => lhs; unfold go
  have e42 : lc m 42 = 42 := ((lc_special m 42).1).mpr rfl
  simp [Iter.next, STAR, BACKSLASH, SLASH, e42, h0, recCall]
  rw [if_neg hns]
  congr 1

/-- a lone trailing star -/
theorem go_star_end {m : Mode} {fuel d : Nat} {pattern text : Bytes} {ts : Bytes} :
    go m (fuel + 1) d pattern text ⟨0, [42]⟩ ⟨0, ts⟩ =
      match sliceFrom text (if ts.isEmpty then text.length else 0) with
      | none => .panic
      | some s => if m.noMatchSlash && s.contains 47 then .noMatch else .matched := by
  conv => lhs; unfold go
  have e42 : lc m 42 = 42 := ((lc_special m 42).1).mpr rfl
  cases ts <;> simp [Iter.next, STAR, BACKSLASH, SLASH, e42]
  · generalize sliceFrom text text.length = x; cases x <;> rfl
  · generalize sliceFrom text 0 = x; cases x <;> rfl

/-- `*` then `/` in path mode: jump to the next slash of the text -/
theorem go_star_slash_none {m : Mode} {fuel d : Nat} {pattern text : Bytes} {l0 : UInt8} {lit' ts : Bytes}
    (hns : m.noMatchSlash = true ∧ lc m l0 = 47) (htext : text = ts) (hslash : ∀ c ∈ ts, c ≠ 47) :
    go m (fuel + 1) d pattern text ⟨0, 42 :: l0 :: lit'⟩ ⟨0, ts⟩ = .noMatch := by
  conv => lhs; unfold go
  have e42 : lc m 42 = 42 := ((lc_special m 42).1).mpr rfl
  have h0 : lc m l0 ≠ 42 := by rw [hns.2]; decide
  have hf : ∀ (l : Bytes), (∀ c ∈ l, c ≠ 47) → findSlash l = none := by
    intro l
    induction l with
    | nil => intro; rfl
    | cons a r ih =>
      intro h
      have ha : a ≠ 47 := h a (by simp)
      simp [findSlash, SLASH, ha, ih (fun x hx => h x (by simp [hx]))]
  subst htext
  cases text with
  | nil => simp [Iter.next, STAR, BACKSLASH, SLASH, e42, h0, hns.1, hns.2, sliceFrom, findSlash]
  | cons a r => simp [Iter.next, STAR, BACKSLASH, SLASH, e42, h0, hns.1, hns.2, sliceFrom, hf _ hslash]

/-- a `Match` of the loop behind a star comes from one of its recursive calls -/
theorem starLoop_sound (m : Mode) (rec : Nat → Res) (pch : UInt8) (ms : Bool) :
    ∀ (n tIdx : Nat) (tch : UInt8) (t : Iter),
      starLoop m rec pch ms n tIdx tch t = .matched → ∃ k, rec k = .matched := by
  intro n
  induction n with
  | zero => intro tIdx tch t h; simp [starLoop] at h
  | succ n ih =>
    intro tIdx tch t h
    unfold starLoop at h
    simp only at h
    split at h
    · simp at h
    · rename_i tIdx' tch' t' _
      by_cases hr : rec tIdx' = .matched
      · exact ⟨tIdx', hr⟩
      · split at h
        · rename_i hc; exact absurd h hr
        · split at h
          · simp at h
          · cases hn : t'.next m with
            | none => simp [hn] at h
            | some x =>
              obtain ⟨⟨i, c⟩, t''⟩ := x
              simp [hn] at h
              exact ih i c t'' h


theorem scanLit_hit (m : Mode) (ms : Bool) (pch : UInt8) (tIdx i : Nat) (rest : Bytes) :
    scanLit m ms pch tIdx pch i rest = (tIdx, pch, ⟨i, rest⟩) := by
  cases rest <;> simp [scanLit]

theorem scanLit_skip (m : Mode) (ms : Bool) (pch tch : UInt8) (tIdx i : Nat) (c : UInt8) (rest : Bytes)
    (h1 : ¬ (ms = false ∧ tch = 47)) (h2 : tch ≠ pch) :
    scanLit m ms pch tIdx tch i (c :: rest) = scanLit m ms pch i (lc m c) (i + 1) rest := by
  have : ((!ms && tch == SLASH) || tch == pch) = false := by
    simp [SLASH, h2]
    intro h; cases ms <;> simp_all
  rw [scanLit]
  simp [this]

theorem starLoop_skip (m : Mode) (rec : Nat → Res) (ms : Bool) (pch tch : UInt8) (hg : isGlobCharacter pch = false)
    (n tIdx i : Nat) (c : UInt8) (rest : Bytes) (h1 : ¬ (ms = false ∧ tch = 47)) (h2 : tch ≠ pch) :
    starLoop m rec pch ms (n + 1) tIdx tch ⟨i, c :: rest⟩ = starLoop m rec pch ms (n + 1) i (lc m c) ⟨i + 1, rest⟩ := by
  unfold starLoop
  simp only [hg, Bool.not_false, if_true, scanLit_skip m ms pch tch tIdx i c rest h1 h2]

theorem starLoop_hit (m : Mode) (rec : Nat → Res) (ms : Bool) (pch : UInt8) (hg : isGlobCharacter pch = false)
    (n tIdx : Nat) (t : Iter) :
    starLoop m rec pch ms (n + 1) tIdx pch t =
      (let res := rec tIdx
       if res != .noMatch && (!ms || res != .abortToStarStar) then res
       else if res == .noMatch && !ms && pch == SLASH then .abortToStarStar
       else match t.next m with
         | none => .abortAll
         | some ((i, c), t) => starLoop m rec pch ms n i c t) := by
  conv => lhs; unfold starLoop
  obtain ⟨i, rest⟩ := t
  simp [hg, scanLit_hit]
  generalize Iter.next m ⟨i, rest⟩ = nx
  cases nx <;> rfl

theorem starLoop_complete (m : Mode) (rec : Nat → Res) (pch : UInt8) (ms : Bool)
    (hg : isGlobCharacter pch = false) :
    ∀ (j n : Nat) (c : UInt8) (tr : Bytes) (tIdx : Nat), tr.length ≤ n →
      (ms = true ∨ ∀ x ∈ c :: tr, lc m x ≠ 47) →
      (∀ i, i < j → (∃ x, (c :: tr)[i]? = some x ∧ lc m x = pch) → rec (tIdx + i) = .noMatch) →
      (∃ x, (c :: tr)[j]? = some x ∧ lc m x = pch) → rec (tIdx + j) = .matched →
      starLoop m rec pch ms (n + 1) tIdx (lc m c) ⟨tIdx + 1, tr⟩ = .matched := by
  intro j
  induction j with
  | zero =>
    intro n c tr tIdx _ _ _ hx hm
    obtain ⟨x, hx1, hx2⟩ := hx
    simp at hx1; subst hx1
    rw [hx2, starLoop_hit m rec ms pch hg]
    simp at hm
    simp [hm]
  | succ j ih =>
    intro n c tr tIdx hn hs hrec hx hm
    obtain ⟨x, hx1, hx2⟩ := hx
    cases tr with
    | nil => simp at hx1
    | cons c2 tr' =>
      have hs' : ms = true ∨ ∀ x ∈ c2 :: tr', lc m x ≠ 47 := by
        rcases hs with h | h
        · exact Or.inl h
        · exact Or.inr (fun y hy => h y (by simp at hy ⊢; exact Or.inr hy))
      have hrec' : ∀ i, i < j → (∃ x, (c2 :: tr')[i]? = some x ∧ lc m x = pch) → rec (tIdx + 1 + i) = .noMatch := by
        intro i hi hex
        have := hrec (i + 1) (by omega) (by simpa using hex)
        rw [← this]; congr 1; omega
      have hx' : ∃ x, (c2 :: tr')[j]? = some x ∧ lc m x = pch := ⟨x, by simpa using hx1, hx2⟩
      have hm' : rec (tIdx + 1 + j) = .matched := by rw [← hm]; congr 1; omega
      have hnot47 : ¬ (ms = false ∧ lc m c = 47) := by
        intro ⟨h1, h2⟩
        rcases hs with h | h
        · rw [h] at h1; cases h1
        · exact h c (by simp) h2
      by_cases hc : lc m c = pch
      · -- a hit that does not match: go on behind it
        rw [hc, starLoop_hit m rec ms pch hg]
        have h0 := hrec 0 (by omega) ⟨c, by simp, hc⟩
        simp at h0
        have hn' : ∃ n', n = n' + 1 := by
          simp at hn
          exact ⟨n - 1, by omega⟩
        obtain ⟨n', hn'⟩ := hn'
        subst hn'
        have hsl : ¬ (ms = false ∧ pch = 47) := by rw [← hc]; exact hnot47
        have hcond : (Res.noMatch == Res.noMatch && !ms && pch == SLASH) = false := by
          simp [SLASH]
          intro h; cases ms <;> simp_all
        simp only [h0, hcond, Iter.next]
        simp
        exact ih n' c2 tr' (tIdx + 1) (by simp at hn; omega) hs' hrec' hx' hm'
      · rw [starLoop_skip m rec ms pch (lc m c) hg n tIdx (tIdx + 1) c2 tr' hnot47 hc]
        exact ih n c2 tr' (tIdx + 1) (by simp at hn; omega) hs' hrec' hx' hm'


/-- the matcher on a glob-free pattern -/
def litFull (m : Mode) (lit txt : Bytes) : Res :=
  match litRun m lit txt with
  | .error r => r
  | .ok ts' => if ts'.isEmpty then .matched else .noMatch

theorem litFull_matched_iff (m : Mode) (lit txt : Bytes) :
    litFull m lit txt = .matched ↔ txt.map (lc m) = lit.map (lc m) := by
  unfold litFull
  cases hl : litRun m lit txt with
  | error r =>
    rcases litRun_error m lit txt r hl with e | e <;> subst e <;> simp
    all_goals
      intro heq
      have : litRun m lit txt = .ok [] := by
        rw [litRun_ok_iff]
        have hlen := congrArg List.length heq
        simp at hlen
        refine ⟨by omega, ?_, ?_⟩
        · rw [← hlen, List.take_length]; exact heq
        · rw [← hlen]; simp
      rw [this] at hl; cases hl
  | ok ts' =>
    obtain ⟨h1, h2, h3⟩ := (litRun_ok_iff m lit txt ts').mp hl
    constructor
    · intro hm
      have hts : ts' = [] := by
        cases ts' with
        | nil => rfl
        | cons a b => simp at hm
      rw [hts] at h3
      have hlen : txt.length ≤ lit.length := by
        have := congrArg List.length h3
        simp at this
        omega
      have : txt.length = lit.length := by omega
      rw [← this, List.take_length] at h2
      exact h2
    · intro heq
      have hlen := congrArg List.length heq
      simp at hlen
      have : ts' = [] := by rw [h3, ← hlen]; simp
      simp [this]

theorem litRun_not_abort (m : Mode) : ∀ (lit txt : Bytes), lit.length ≤ txt.length →
    litRun m lit txt ≠ .error .abortAll := by
  intro lit
  induction lit with
  | nil => intro txt _; simp [litRun]
  | cons c r ih =>
    intro txt h
    cases txt with
    | nil => simp at h
    | cons tc tr =>
      by_cases e : lc m c = lc m tc
      · simp [litRun, e]; exact ih tr (by simpa using h)
      · simp [litRun, e]

theorem litFull_long (m : Mode) (lit txt : Bytes) (h : lit.length < txt.length) :
    litFull m lit txt = .noMatch := by
  unfold litFull
  cases hl : litRun m lit txt with
  | error r =>
    rcases litRun_error m lit txt r hl with e | e
    · subst e; exact absurd hl (litRun_not_abort m lit txt (by omega))
    · subst e; rfl
  | ok ts' =>
    obtain ⟨h1, h2, h3⟩ := (litRun_ok_iff m lit txt ts').mp hl
    have : ts' ≠ [] := by
      intro e
      rw [e] at h3
      have := congrArg List.length h3
      simp at this
      omega
    cases ts' with
    | nil => exact absurd rfl this
    | cons a b => simp

theorem recCall_lit (m : Mode) (fuel : Nat) (lit text : Bytes) (k : Nat) (hk : k ≤ text.length)
    (hg : ∀ c ∈ lit, isGlobCharacter c = false) (hf : lit.length + 1 ≤ fuel) :
    recCall m fuel 63 (42 :: lit) text 1 k = litFull m lit (text.drop k) := by
  unfold recCall sliceFrom
  simp [hk, Iter.ofSlice]
  obtain ⟨f', hf'⟩ : ∃ f', fuel = (f' + 1) + lit.length := ⟨fuel - lit.length - 1, by omega⟩
  subst hf'
  have h := go_litRun m 62 lit (text.drop k) lit [] (text.drop k) (f' + 1) 0 0 hg
  rw [List.append_nil] at h
  rw [h]
  unfold litFull
  cases litRun m lit (List.drop k text) with
  | error r => rfl
  | ok ts' => simp only []; rw [go_nil]



theorem head_of_drop_map_eq {f : UInt8 → UInt8} {value : Bytes} {j : Nat} {a : UInt8} {rest : Bytes}
    (h : (value.drop j).map f = a :: rest) : ∃ x, value[j]? = some x ∧ f x = a := by
  cases hd : value.drop j with
  | nil => rw [hd] at h; simp at h
  | cons x r =>
    rw [hd] at h
    simp at h
    refine ⟨x, ?_, h.1⟩
    have := congrArg (fun l => l[0]?) hd
    simpa [List.getElem?_drop] using this

/-- `*literal`: matches exactly the texts that end with the literal (given that `*` may cross
every byte of the text: no path mode, or no slash in the text) -/
theorem wildmatch_ends_with (m : Mode) (lit value : Bytes) (hg : ∀ c ∈ lit, isGlobCharacter c = false)
    (hslash : m.noMatchSlash = false ∨ ∀ c ∈ value, c ≠ 47) :
    C36.wildmatch m (42 :: lit) value = true ↔
      (lit.length ≤ value.length ∧ (value.drop (value.length - lit.length)).map (lc m) = lit.map (lc m)) := by
  unfold C36.wildmatch matchRecursive RECURSION_LIMIT
  simp only [beq_iff_eq, Iter.ofSlice, List.length_cons]
  have hnoslash : m.noMatchSlash = true → ∀ c ∈ value, lc m c ≠ 47 := by
    intro h c hc hc47
    rcases hslash with h' | h'
    · rw [h] at h'; cases h'
    · exact h' c hc ((lc_special m c).2.2.2.2.1.mp hc47)
  cases lit with
  | nil =>
    rw [go_star_end]
    have : ∀ k, sliceFrom value k = some (value.drop k) ∨ sliceFrom value k = none := by
      intro k; unfold sliceFrom; split <;> simp
    have hk : (if value.isEmpty then value.length else 0) ≤ value.length := by split <;> omega
    simp only [sliceFrom, hk, if_true]
    simp
    intro hn hmem
    rcases hslash with h' | h'
    · rw [hn] at h'; cases h'
    · exact h' 47 (List.mem_of_mem_drop hmem) rfl
  | cons l0 lit' =>
    have hl0 := not_glob ((lc_glob m l0).trans (hg l0 (by simp)))
    have hpg : isGlobCharacter (lc m l0) = false := (lc_glob m l0).trans (hg l0 (by simp))
    by_cases hns : m.noMatchSlash = true ∧ lc m l0 = 47
    · rw [go_star_slash_none hns rfl (by
        rcases hslash with h' | h'
        · rw [hns.1] at h'; cases h'
        · exact h')]
      constructor
      · intro h; cases h
      · rintro ⟨hlen, heq⟩
        exfalso
        obtain ⟨x, hx1, hx2⟩ := head_of_drop_map_eq heq
        have hxm : x ∈ value := List.mem_of_getElem? hx1
        exact hnoslash hns.1 x hxm (hx2.trans hns.2)
    · have hrc : ∀ k, k ≤ value.length →
          recCall m (lit'.length + 1 + 1) 63 (42 :: l0 :: lit') value 1 k = litFull m (l0 :: lit') (value.drop k) :=
        fun k hk => recCall_lit m _ (l0 :: lit') value k hk hg (by simp)
      have hsound : ∀ k, recCall m (lit'.length + 1 + 1) 63 (42 :: l0 :: lit') value 1 k = .matched →
          k ≤ value.length ∧ (value.drop k).map (lc m) = (l0 :: lit').map (lc m) := by
        intro k hk
        by_cases hkl : k ≤ value.length
        · rw [hrc k hkl] at hk
          exact ⟨hkl, (litFull_matched_iff m _ _).mp hk⟩
        · unfold recCall sliceFrom at hk
          simp [hkl] at hk
      have hfin : ∀ k, k ≤ value.length → (value.drop k).map (lc m) = (l0 :: lit').map (lc m) →
          ((lit'.length + 1) ≤ value.length ∧
            (value.drop (value.length - (lit'.length + 1))).map (lc m) = (l0 :: lit').map (lc m)) := by
        intro k hk heq
        have hlen := congrArg List.length heq
        simp at hlen
        have : value.length - (lit'.length + 1) = k := by omega
        exact ⟨by omega, by rw [this]; exact heq⟩
      cases value with
      | nil =>
        rw [go_star_lit_nil hl0.1 hns]
        constructor
        · intro h
          obtain ⟨k, hk⟩ := starLoop_sound m _ _ _ _ _ _ _ h
          obtain ⟨h1, h2⟩ := hsound k hk
          exact hfin k h1 h2
        · intro ⟨h, _⟩; simp at h
      | cons tc tr =>
        rw [go_star_lit hl0.1 hns]
        constructor
        · intro h
          obtain ⟨k, hk⟩ := starLoop_sound m _ _ _ _ _ _ _ h
          obtain ⟨h1, h2⟩ := hsound k hk
          exact hfin k h1 h2
        · intro ⟨hlen, heq⟩
          simp only [List.length_cons] at heq hlen
          obtain ⟨x, hx1, hx2⟩ := head_of_drop_map_eq heq
          have := starLoop_complete m (fun k => recCall m (lit'.length + 1 + 1) 63 (42 :: l0 :: lit') (tc :: tr) 1 k)
            (lc m l0) (!m.noMatchSlash) hpg ((tc :: tr).length - (lit'.length + 1)) tr.length tc tr 0 (Nat.le_refl _)
            (by
              cases hn : m.noMatchSlash with
              | false => left; rfl
              | true => right; exact hnoslash hn)
            (by
              intro i hi _
              simp only [Nat.zero_add]
              rw [hrc i (by omega)]
              apply litFull_long
              simp at hi ⊢
              omega)
            ⟨x, hx1, hx2⟩
            (by
              simp only [Nat.zero_add]
              rw [hrc _ (by omega)]
              exact (litFull_matched_iff m _ _).mpr heq)
          simpa using this



/-- what `parse::pattern` guarantees about the cached fields of a `Pattern` -/
structure Pattern.WellFormed (pat : Pattern) : Prop where
  pos : pat.firstWildcardPos = C36.firstWildcardPos pat.text
  ends : pat.mode.endsWith = (match pat.text with
    | 42 :: r => (C36.firstWildcardPos r).isNone
    | _ => false)

theorem parsePattern_wf (raw : Bytes) (alter : Bool) (pat : Pattern) (h : parsePattern raw alter = some pat) :
    pat.WellFormed := by
  unfold parsePattern at h
  split at h
  · cases h
  · simp only at h
    split at h
    · cases h
    · simp only [Option.some.injEq] at h
      subst h
      exact ⟨rfl, rfl⟩

theorem lc_icase {m : Mode} (h : m.ignoreCase = true) (c : UInt8) : lc m c = toAsciiLowercase c := by
  simp [lc, h]

theorem eqIgnore_iff (a b : Bytes) :
    eqIgnoreAsciiCase a b = true ↔ a.map toAsciiLowercase = b.map toAsciiLowercase := by
  unfold eqIgnoreAsciiCase
  simp only [Bool.and_eq_true, beq_iff_eq]
  constructor
  · exact fun h => h.2
  · intro h
    refine ⟨?_, h⟩
    have := congrArg List.length h
    simpa using this

theorem map_lc_id {m : Mode} (h : m.ignoreCase = false) (l : Bytes) : l.map (lc m) = l := by
  have : lc m = id := by funext c; simp [lc, h]
  rw [this]; simp

theorem map_lc_icase {m : Mode} (h : m.ignoreCase = true) (l : Bytes) : l.map (lc m) = l.map toAsciiLowercase := by
  have : lc m = toAsciiLowercase := by funext c; simp [lc, h]
  rw [this]


theorem bool_eq_of_iff {a b : Bool} (h : a = true ↔ b = true) : a = b := by
  cases a <;> cases b <;> simp_all

/-- The shortcuts of `Pattern::matches` (plain comparison for glob-free patterns, suffix comparison
for `*literal`, the literal-prefix pre-check) never change the result of `wildmatch`. -/
theorem matches_eq_wildmatch (pat : Pattern) (hwf : pat.WellFormed) (value : Bytes) (m : Mode) :
    pat.matches value m = C36.wildmatch m pat.text value := by
  unfold Pattern.matches
  rw [hwf.pos]
  cases hfw : C36.firstWildcardPos pat.text with
  | none =>
    -- no glob character at all
    have hg := firstWildcardPos_none.mp hfw
    apply bool_eq_of_iff
    rw [wildmatch_literal m pat.text value hg]
    cases hic : m.ignoreCase with
    | false =>
      simp only [map_lc_id hic, Bool.false_eq_true, if_false, beq_iff_eq]
      exact eq_comm
    | true =>
      simp only [map_lc_icase hic, if_true, eqIgnore_iff]
      exact eq_comm
  | some pos =>
    obtain ⟨hpos, hpre, _⟩ := firstWildcardPos_some hfw
    simp only
    by_cases hends : (pat.mode.endsWith && (!m.noMatchSlash || !value.contains 47)) = true
    · -- `*literal`
      rw [if_pos hends]
      simp only [Bool.and_eq_true, Bool.or_eq_true, Bool.not_eq_true'] at hends
      obtain ⟨he, hsl⟩ := hends
      rw [hwf.ends] at he
      cases htext : pat.text with
      | nil => rw [htext] at he; simp at he
      | cons a r =>
        rw [htext] at he hfw
        have ha : a = 42 ∧ C36.firstWildcardPos r = none := by
          split at he
          · rename_i r' heq
            simp at heq
            obtain ⟨h1, h2⟩ := heq
            subst h1 h2
            exact ⟨rfl, by simpa using he⟩
          · cases he
        obtain ⟨ha, he2⟩ := ha
        subst ha
        have hg := firstWildcardPos_none.mp he2
        have hp0 : pos = 0 := by
          simp [C36.firstWildcardPos, isGlobCharacter] at hfw
          exact hfw.symm
        subst hp0
        have hsl' : m.noMatchSlash = false ∨ ∀ c ∈ value, c ≠ 47 := by
          rcases hsl with h | h
          · exact Or.inl h
          · right
            intro c hc h47
            subst h47
            simp at h
            exact h hc
        apply bool_eq_of_iff
        rw [wildmatch_ends_with m r value hg hsl']
        simp only [List.drop_succ_cons, List.drop_zero, Nat.zero_add]
        cases hic : m.ignoreCase with
        | false =>
          simp only [map_lc_id hic, Bool.false_eq_true, if_false]
          rw [List.isSuffixOf_iff_suffix, List.suffix_iff_eq_drop]
          constructor
          · intro h
            refine ⟨?_, h.symm⟩
            have := congrArg List.length h
            simp at this
            omega
          · intro h; exact h.2.symm
        | true =>
          simp only [map_lc_icase hic, if_true]
          by_cases hl : value.length < r.length
          · simp [hl]; omega
          · simp only [hl, if_false, eqIgnore_iff]
            constructor
            · intro h; exact ⟨by omega, h.symm⟩
            · intro h; exact h.2.symm
    · rw [if_neg hends]
      -- literal prefix, then wildmatch
      by_cases hw : C36.wildmatch m pat.text value = true
      · obtain ⟨h1, h2⟩ := wildmatch_prefix m pat.text value pos (by omega) hpre hw
        rw [hw]
        cases hic : m.ignoreCase with
        | false =>
          simp only [map_lc_id hic] at h2
          have : (pat.text.take pos).isPrefixOf value = true := by
            rw [List.isPrefixOf_iff_prefix, List.prefix_iff_eq_take]
            rw [← h2]; simp [Nat.min_eq_left h1]
          simp [this]
        | true =>
          simp only [map_lc_icase hic] at h2
          have hl : ¬ value.length < pos := by omega
          have : eqIgnoreAsciiCase (value.take pos) (pat.text.take pos) = true := (eqIgnore_iff _ _).mpr h2
          simp [hl, this]
      · simp only [Bool.not_eq_true] at hw
        rw [hw]
        split <;> simp



/-! ### one star: the loop behind it, both sides -/

theorem lc42 (m : Mode) : lc m 42 = 42 := ((lc_special m 42).1).mpr rfl

theorem go_star1 {m : Mode} {fuel d : Nat} {pattern text : Bytes} {i ti : Nat} {c tc : UInt8} {rest' tr : Bytes}
    (h0 : lc m c ≠ 42) (hns : ¬ (m.noMatchSlash = true ∧ lc m c = 47)) :
    go m (fuel + 1) d pattern text ⟨i, 42 :: c :: rest'⟩ ⟨ti, tc :: tr⟩ =
      starLoop m (fun k => recCall m fuel d pattern text (i + 1) k) (lc m c) (!m.noMatchSlash)
        (tr.length + 1) ti (lc m tc) ⟨ti + 1, tr⟩ := by
  conv => lhs; unfold go
  simp [Iter.next, STAR, BACKSLASH, SLASH, lc42, h0, recCall]
  rw [if_neg hns]
  congr 1

theorem go_star1_nil {m : Mode} {fuel d : Nat} {pattern text : Bytes} {i ti : Nat} {c : UInt8} {rest' : Bytes}
    (h0 : lc m c ≠ 42) (hns : ¬ (m.noMatchSlash = true ∧ lc m c = 47)) :
    go m (fuel + 1) d pattern text ⟨i, 42 :: c :: rest'⟩ ⟨ti, []⟩ =
      starLoop m (fun k => recCall m fuel d pattern text (i + 1) k) (lc m c) (!m.noMatchSlash)
        1 text.length 0 ⟨ti, []⟩ := by
  conv => lhs; unfold go
  simp [Iter.next, STAR, BACKSLASH, SLASH, lc42, h0, recCall]
  rw [if_neg hns]
  congr 1

theorem go_star1_slash {m : Mode} {fuel d : Nat} {pattern text : Bytes} {i ti : Nat} {c tc : UInt8} {rest' tr : Bytes}
    (hns : m.noMatchSlash = true ∧ lc m c = 47) :
    go m (fuel + 1) d pattern text ⟨i, 42 :: c :: rest'⟩ ⟨ti, tc :: tr⟩ =
      match sliceFrom text ti with
      | none => .panic
      | some s =>
        match findSlash s with
        | some dist => go m fuel d pattern text ⟨i + 2, rest'⟩ ((Iter.mk (ti + 1) tr).advance dist)
        | none => .noMatch := by
  conv => lhs; unfold go
  have h0 : lc m c ≠ 42 := by rw [hns.2]; decide
  simp [Iter.next, STAR, BACKSLASH, SLASH, lc42, h0, hns.1, hns.2]
  generalize sliceFrom text ti = x
  cases x with
  | none => rfl
  | some s => simp only []; generalize findSlash s = y; cases y <;> rfl

theorem go_star1_slash_nil {m : Mode} {fuel d : Nat} {pattern text : Bytes} {i ti : Nat} {c : UInt8} {rest' : Bytes}
    (hns : m.noMatchSlash = true ∧ lc m c = 47) :
    go m (fuel + 1) d pattern text ⟨i, 42 :: c :: rest'⟩ ⟨ti, []⟩ = .noMatch := by
  conv => lhs; unfold go
  have h0 : lc m c ≠ 42 := by rw [hns.2]; decide
  simp [Iter.next, STAR, BACKSLASH, SLASH, lc42, h0, hns.1, hns.2, sliceFrom, findSlash]

theorem go_star_end' {m : Mode} {fuel d : Nat} {pattern text : Bytes} {i ti : Nat} {ts : Bytes} :
    go m (fuel + 1) d pattern text ⟨i, [42]⟩ ⟨ti, ts⟩ =
      match sliceFrom text (if ts.isEmpty then text.length else ti) with
      | none => .panic
      | some s => if m.noMatchSlash && s.contains 47 then .noMatch else .matched := by
  conv => lhs; unfold go
  cases ts <;> simp [Iter.next, STAR, BACKSLASH, SLASH, lc42]
  · generalize sliceFrom text text.length = x; cases x <;> rfl
  · generalize sliceFrom text ti = x; cases x <;> rfl

theorem dw_star_end {f : Flags} {n : Nat} {prev : Option UInt8} {t : Bytes} :
    dowild f (n + 1) prev [42] t =
      if f.pathname && (strchrSlash t).isSome then .noMatch else .matched := by
  conv => lhs; unfold dowild
  simp [hd, Spec.C36.fold, isUpper]

theorem dw_star1 {f : Flags} {n : Nat} {prev : Option UInt8} {c : UInt8} {rest' t : Bytes}
    (hc0 : c ≠ 0) (hc42 : c ≠ 42) :
    dowild f (n + 1) prev (42 :: c :: rest') t =
      if f.pathname && c == 47 then
        (match strchrSlash t with
          | none => .noMatch
          | some s => dowild f n (some 47) rest' s.tail)
      else Spec.C36.starLoop f (fun tx => dowild f n none (c :: rest') tx) (c :: rest') (!f.pathname)
        (t.length + 1) (Spec.C36.fold f (hd t)) t := by
  conv => lhs; unfold dowild
  simp [hd, Spec.C36.fold, isUpper, hc0, hc42]
  split
  · generalize strchrSlash t = x; cases x <;> rfl
  · rfl


/-! Model side: one pass of the loop by what the scan does -/

theorem starLoop_glob (m : Mode) (rec : Nat → Res) (ms : Bool) (pch tch : UInt8) (hg : isGlobCharacter pch = true)
    (n tIdx : Nat) (t : Iter) :
    C36.starLoop m rec pch ms (n + 1) tIdx tch t =
      (let res := rec tIdx
       if res != .noMatch && (!ms || res != .abortToStarStar) then res
       else if res == .noMatch && !ms && tch == SLASH then .abortToStarStar
       else match t.next m with
         | none => .abortAll
         | some ((i, c), t) => C36.starLoop m rec pch ms n i c t) := by
  conv => lhs; unfold C36.starLoop
  simp [hg]
  generalize Iter.next m t = nx
  cases nx <;> rfl

theorem starLoop_stop_slash (m : Mode) (rec : Nat → Res) (pch : UInt8) (hg : isGlobCharacter pch = false)
    (h47 : pch ≠ 47) (n tIdx : Nat) (t : Iter) :
    C36.starLoop m rec pch false (n + 1) tIdx 47 t = .noMatch := by
  unfold C36.starLoop
  obtain ⟨i, rest⟩ := t
  have : C36.scanLit m false pch tIdx 47 i rest = (tIdx, 47, ⟨i, rest⟩) := by
    cases rest <;> simp [C36.scanLit, SLASH]
  have h47' : ¬ (47 : UInt8) = pch := fun h => h47 h.symm
  simp [hg, this, h47']

theorem starLoop_end (m : Mode) (rec : Nat → Res) (ms : Bool) (pch tch : UInt8) (hg : isGlobCharacter pch = false)
    (h : tch ≠ pch) (n tIdx i : Nat) :
    C36.starLoop m rec pch ms (n + 1) tIdx tch ⟨i, []⟩ = .noMatch := by
  unfold C36.starLoop
  simp [hg, C36.scanLit, h]

/-! Spec side -/

theorem sl_zero (f : Flags) (rec : Bytes → Wm) (p : Bytes) (ms : Bool) (n : Nat) (text : Bytes) :
    Spec.C36.starLoop f rec p ms (n + 1) 0 text = .abortAll := by
  unfold Spec.C36.starLoop; simp

theorem sl_pass (f : Flags) (rec : Bytes → Wm) (p : Bytes) (ms : Bool) (n : Nat) (tch tch' : UInt8) (text : Bytes)
    (h0 : tch ≠ 0) (hscan : (isGlobSpecial (hd p) = true ∧ tch' = tch) ∨
      (isGlobSpecial (hd p) = false ∧
        Spec.C36.scanLit f ms (Spec.C36.fold f (hd p)) text = (tch', text) ∧ tch' = Spec.C36.fold f (hd p))) :
    Spec.C36.starLoop f rec p ms (n + 1) tch text =
      (let r := rec text
       if r != .noMatch && (!ms || r != .abortToStarStar) then r
       else if r == .noMatch && !ms && tch' == 47 then .abortToStarStar
       else Spec.C36.starLoop f rec p ms n (hd text.tail) text.tail) := by
  conv => lhs; unfold Spec.C36.starLoop
  rcases hscan with ⟨hg, he⟩ | ⟨hg, hs, he⟩
  · subst he; simp [h0, hg]
  · subst he; simp [h0, hg, hs]

theorem sl_skip (f : Flags) (rec : Bytes → Wm) (p : Bytes) (ms : Bool) (n : Nat) (tch tch' c0 : UInt8) (tr : Bytes)
    (hg : isGlobSpecial (hd p) = false) (h0 : tch ≠ 0) (h0' : tch' ≠ 0) (hc0 : c0 ≠ 0)
    (hslash : ¬ (ms = false ∧ c0 = 47)) (hne : Spec.C36.fold f c0 ≠ Spec.C36.fold f (hd p)) :
    Spec.C36.starLoop f rec p ms (n + 1) tch (c0 :: tr) = Spec.C36.starLoop f rec p ms (n + 1) tch' tr := by
  have hs : Spec.C36.scanLit f ms (Spec.C36.fold f (hd p)) (c0 :: tr) = Spec.C36.scanLit f ms (Spec.C36.fold f (hd p)) tr := by
    conv => lhs; unfold Spec.C36.scanLit
    have : (!ms && c0 == 47) = false := by
      cases ms <;> simp_all
    simp [hc0, this, hne]
  unfold Spec.C36.starLoop
  simp [h0, h0', hg, hs]

theorem sl_stop_slash (f : Flags) (rec : Bytes → Wm) (p : Bytes) (n : Nat) (tch : UInt8) (tr : Bytes)
    (hg : isGlobSpecial (hd p) = false) (h0 : tch ≠ 0) (h47 : Spec.C36.fold f (hd p) ≠ 47) :
    Spec.C36.starLoop f rec p false (n + 1) tch (47 :: tr) = .noMatch := by
  unfold Spec.C36.starLoop
  have h47' : ¬ (47 : UInt8) = Spec.C36.fold f (hd p) := fun h => h47 h.symm
  simp [h0, hg, Spec.C36.scanLit, h47']

theorem sl_end (f : Flags) (rec : Bytes → Wm) (p : Bytes) (ms : Bool) (n : Nat) (tch c0 : UInt8)
    (hg : isGlobSpecial (hd p) = false) (h0 : tch ≠ 0) (hc0 : c0 ≠ 0) (hp0 : Spec.C36.fold f (hd p) ≠ 0)
    (hslash : ¬ (ms = false ∧ c0 = 47)) (hne : Spec.C36.fold f c0 ≠ Spec.C36.fold f (hd p)) :
    Spec.C36.starLoop f rec p ms (n + 1) tch [c0] = .noMatch := by
  unfold Spec.C36.starLoop
  have : (!ms && c0 == 47) = false := by
    cases ms <;> simp_all
  have hp0' : ¬ (0 : UInt8) = Spec.C36.fold f (hd p) := fun h => hp0 h.symm
  simp [h0, hg, Spec.C36.scanLit, hc0, this, hne, hp0']

theorem scanLit_hit_spec (f : Flags) (ms : Bool) (c0 : UInt8) (tr : Bytes) (pch : UInt8)
    (hc0 : c0 ≠ 0) (hslash : ¬ (ms = false ∧ c0 = 47)) (he : Spec.C36.fold f c0 = pch) :
    Spec.C36.scanLit f ms pch (c0 :: tr) = (pch, c0 :: tr) := by
  unfold Spec.C36.scanLit
  have : (!ms && c0 == 47) = false := by
    cases ms <;> simp_all
  simp [hc0, this, he]

theorem ofWm_ne_noMatch (w : Wm) : (ofWm w != .noMatch) = (w != .noMatch) := by cases w <;> rfl
theorem ofWm_ne_abortSS (w : Wm) : (ofWm w != .abortToStarStar) = (w != .abortToStarStar) := by cases w <;> rfl
theorem ofWm_eq_noMatch (w : Wm) : (ofWm w == .noMatch) = (w == .noMatch) := by cases w <;> rfl

theorem isGlob_same (c : UInt8) : isGlobCharacter c = isGlobSpecial c := rfl


theorem hd_cons (c : UInt8) (r : Bytes) : hd (c :: r) = c := rfl

/-- Behind a star, with text left, both loops are in lock-step: the same scan, the same recursive
calls, the same exits. -/
theorem starLoop_rel (m : Mode) (recM : Nat → Res) (recS : Bytes → Wm) (p : Bytes) (ms : Bool)
    (hp0 : hd p ≠ 0) (hnsl : ¬ (ms = false ∧ lc m (hd p) = 47)) :
    ∀ (tx : Bytes), (∀ c ∈ tx, c ≠ 0) → tx ≠ [] → ∀ (k n_m n_s : Nat) (tchS : UInt8),
      tx.length ≤ n_m → tx.length + 1 ≤ n_s →
      (tchS = hd tx ∨ tchS = Spec.C36.fold (flagsOf m) (hd tx)) →
      (∀ j, j < tx.length → recM (k + j) = ofWm (recS (tx.drop j))) →
      C36.starLoop m recM (lc m (hd p)) ms n_m k (lc m (hd tx)) ⟨k + 1, tx.tail⟩ =
        ofWm (Spec.C36.starLoop (flagsOf m) recS p ms n_s tchS tx) := by
  intro tx
  induction tx with
  | nil => intro _ h; exact absurd rfl h
  | cons c0 tr ih =>
    intro hnn _ k n_m n_s tchS hnm hns htch hrec
    have hc0 : c0 ≠ 0 := hnn c0 (by simp)
    have hlc0 : lc m c0 ≠ 0 := fun h => hc0 ((lc_special m c0).2.2.2.2.2.1.mp h)
    have h47 : lc m c0 = 47 ↔ c0 = 47 := (lc_special m c0).2.2.2.2.1
    simp only [hd_cons] at htch
    have htch0 : tchS ≠ 0 := by
      rcases htch with h | h
      · rw [h]; exact hc0
      · rw [h, fold_eq_lc]; exact hlc0
    have hpch0 : lc m (hd p) ≠ 0 := fun h => hp0 ((lc_special m (hd p)).2.2.2.2.2.1.mp h)
    obtain ⟨nm, hnm'⟩ : ∃ nm, n_m = nm + 1 := ⟨n_m - 1, by simp at hnm; omega⟩
    obtain ⟨ns, hns'⟩ : ∃ ns, n_s = ns + 1 := ⟨n_s - 1, by simp at hns; omega⟩
    subst hnm' hns'
    simp only [hd_cons, List.tail_cons]
    have hrec0 : recM k = ofWm (recS (c0 :: tr)) := by simpa using hrec 0 (by simp)
    have htch47 : (tchS == 47) = (lc m c0 == 47) := by
      rw [Bool.eq_iff_iff]
      rcases htch with h | h
      · simp [h, h47]
      · rw [h, fold_eq_lc]
    -- what happens after this position was tried and did not decide
    have hnext : (match Iter.next m ⟨k + 1, tr⟩ with
          | none => Res.abortAll
          | some ((i, c), t) => C36.starLoop m recM (lc m (hd p)) ms nm i c t) =
        ofWm (Spec.C36.starLoop (flagsOf m) recS p ms ns (hd tr) tr) := by
      cases tr with
      | nil =>
        obtain ⟨ns', e⟩ : ∃ ns', ns = ns' + 1 := ⟨ns - 1, by simp at hns; omega⟩
        subst e
        simp [Iter.next, hd, sl_zero, ofWm]
      | cons c1 tr' =>
        have := ih (fun x hx => hnn x (by simp [hx])) (by simp) (k + 1) nm ns c1
          (by simp at hnm ⊢; omega) (by simp at hns ⊢; omega) (Or.inl (by simp [hd_cons]))
          (by
            intro j hj
            have := hrec (j + 1) (by simp at hj ⊢; omega)
            simpa [Nat.add_assoc, Nat.add_comm 1 j] using this)
        simpa [Iter.next, hd_cons] using this
    -- one pass at a position where the scan stands still
    have hpass : ∀ (tchM tchS' : UInt8), (tchM == SLASH) = (tchS' == 47) →
        (let res := recM k
         if res != .noMatch && (!ms || res != .abortToStarStar) then res
         else if res == .noMatch && !ms && tchM == SLASH then .abortToStarStar
         else match Iter.next m ⟨k + 1, tr⟩ with
           | none => .abortAll
           | some ((i, c), t) => C36.starLoop m recM (lc m (hd p)) ms nm i c t) =
        ofWm (let r := recS (c0 :: tr)
         if r != .noMatch && (!ms || r != .abortToStarStar) then r
         else if r == .noMatch && !ms && tchS' == 47 then .abortToStarStar
         else Spec.C36.starLoop (flagsOf m) recS p ms ns (hd tr) tr) := by
      intro tchM tchS' hsl
      simp only [hrec0, ofWm_ne_noMatch, ofWm_ne_abortSS, ofWm_eq_noMatch, hsl, hnext]
      split
      · rfl
      · split <;> rfl
    by_cases hg : isGlobCharacter (lc m (hd p)) = true
    · -- no scan
      have hgS : isGlobSpecial (hd p) = true := by rw [← isGlob_same, ← lc_glob m]; exact hg
      rw [starLoop_glob m recM ms _ _ hg, sl_pass _ _ _ _ _ tchS tchS _ htch0 (Or.inl ⟨hgS, rfl⟩)]
      exact hpass (lc m c0) tchS (by simp [SLASH, htch47])
    · simp only [Bool.not_eq_true] at hg
      have hgS : isGlobSpecial (hd p) = false := by rw [← isGlob_same, ← lc_glob m]; exact hg
      by_cases hstop : ms = false ∧ c0 = 47
      · obtain ⟨hms, hc47⟩ := hstop
        subst hms hc47
        have hl47 : lc m 47 = 47 := (lc_special m 47).2.2.2.2.1.mpr rfl
        rw [hl47]
        by_cases heq : lc m (hd p) = 47
        · exact absurd ⟨rfl, heq⟩ hnsl
        · rw [starLoop_stop_slash m recM _ hg heq, sl_stop_slash _ _ _ _ _ _ hgS htch0 (by rw [fold_eq_lc]; exact heq)]
          rfl
      · by_cases heq : lc m c0 = lc m (hd p)
        · rw [heq, starLoop_hit m recM ms _ hg,
            sl_pass _ _ _ _ _ tchS (Spec.C36.fold (flagsOf m) (hd p)) _ htch0
              (Or.inr ⟨hgS, scanLit_hit_spec _ _ _ _ _ hc0 hstop (by rw [fold_eq_lc, fold_eq_lc, heq]), rfl⟩)]
          exact hpass _ _ (by rw [fold_eq_lc]; rfl)
        · have hnes : Spec.C36.fold (flagsOf m) c0 ≠ Spec.C36.fold (flagsOf m) (hd p) := by
            rw [fold_eq_lc, fold_eq_lc]; exact heq
          have hstopM : ¬ (ms = false ∧ lc m c0 = 47) := fun h => hstop ⟨h.1, h47.mp h.2⟩
          cases tr with
          | nil =>
            rw [starLoop_end m recM ms _ _ hg heq,
              sl_end _ _ _ _ _ _ _ hgS htch0 hc0 (by rw [fold_eq_lc]; exact hpch0) hstop hnes]
            rfl
          | cons c1 tr' =>
            have hc1 : c1 ≠ 0 := hnn c1 (by simp)
            rw [starLoop_skip m recM ms _ _ hg nm k (k + 1) c1 tr' hstopM heq,
              sl_skip _ _ _ _ _ tchS c1 _ _ hgS htch0 hc1 hc0 hstop hnes]
            have := ih (fun x hx => hnn x (by simp [hx])) (by simp) (k + 1) (nm + 1) (ns + 1) c1
              (by simp at hnm ⊢; omega) (by simp at hns ⊢; omega) (Or.inl (by simp [hd_cons]))
              (by
                intro j hj
                have := hrec (j + 1) (by simp at hj ⊢; omega)
                simpa [Nat.add_assoc, Nat.add_comm 1 j] using this)
            simpa [hd_cons] using this



theorem dropWhile_length_le (p : UInt8 → Bool) (l : Bytes) : (l.dropWhile p).length ≤ l.length := by
  induction l with
  | nil => simp
  | cons a r ih => simp only [List.dropWhile_cons]; split <;> simp <;> omega

theorem spec_bracketStep_len (f : Flags) (tch pch : UInt8) (rest : Bytes) (prev : UInt8) (matched : Bool)
    (pch' : UInt8) (rest' : Bytes) (m' : Bool)
    (h : Spec.C36.bracketStep f tch pch rest prev matched = some (pch', rest', m')) :
    rest'.length ≤ rest.length := by
  unfold Spec.C36.bracketStep at h
  have hdw := dropWhile_length_le (fun c => c != 0 && c != 93) rest.tail
  have ht : rest.tail.length ≤ rest.length := by simp
  have htt : rest.tail.tail.length ≤ rest.length := by simp; omega
  by_cases h92 : (pch == 92) = true
  · simp only [h92, if_true] at h
    by_cases hz : (hd rest == 0) = true
    · simp [hz] at h
    · simp only [hz, Bool.false_eq_true, if_false, Option.some.injEq, Prod.mk.injEq] at h
      rw [← h.2.1]; exact ht
  · simp only [h92, Bool.false_eq_true, if_false] at h
    by_cases hr : (pch == 45 && prev != 0 && hd rest != 0 && hd rest != 93) = true
    · simp only [hr, if_true] at h
      by_cases he : (hd rest == 92) = true
      · simp only [he, if_true] at h
        by_cases hz : (hd rest.tail == 0) = true
        · simp [hz] at h
        · simp only [hz, Bool.false_eq_true, if_false, Option.some.injEq, Prod.mk.injEq] at h
          rw [← h.2.1]; exact htt
      · simp only [he, Bool.false_eq_true, if_false, Option.some.injEq, Prod.mk.injEq] at h
        rw [← h.2.1]; exact ht
    · simp only [hr, Bool.false_eq_true, if_false] at h
      by_cases hc : (pch == 91 && hd rest == 58) = true
      · simp only [hc, if_true] at h
        by_cases hz : (hd (List.dropWhile (fun c => c != 0 && c != 93) rest.tail) == 0) = true
        · simp [hz] at h
        · simp only [hz, Bool.false_eq_true, if_false] at h
          split at h
          · simp only [Option.some.injEq, Prod.mk.injEq] at h
            rw [← h.2.1]; exact Nat.le_refl _
          · split at h
            · cases h
            · simp only [Option.some.injEq, Prod.mk.injEq] at h
              rw [← h.2.1]
              simp at hdw ⊢; omega
      · simp only [hc, Bool.false_eq_true, if_false, Option.some.injEq, Prod.mk.injEq] at h
        rw [← h.2.1]; exact Nat.le_refl _

theorem spec_bracketLoop_len (f : Flags) (tch : UInt8) :
    ∀ (n : Nat) (pch : UInt8) (rest : Bytes) (prev : UInt8) (matched b : Bool) (r : Bytes),
      Spec.C36.bracketLoop f tch n pch rest prev matched = .done b r → r.length < rest.length := by
  intro n
  induction n with
  | zero =>
    intro pch rest prev matched b r h
    unfold Spec.C36.bracketLoop at h
    split at h <;> simp at h
  | succ n ih =>
    intro pch rest prev matched b r h
    unfold Spec.C36.bracketLoop at h
    split at h
    · cases h
    · simp only at h
      split at h
      · cases h
      · rename_i pch' rest' m' hs
        have hl := spec_bracketStep_len f tch pch rest prev matched pch' rest' m' hs
        split at h
        · rename_i h93
          simp at h
          rw [← h.2]
          cases rest' with
          | nil => simp [hd] at h93
          | cons a b => simp at hl ⊢; omega
        · have := ih _ _ _ _ _ _ h
          cases rest' with
          | nil => simp at this
          | cons a b => simp at this hl ⊢; omega

theorem spec_bracket_len (f : Flags) (tch : UInt8) (fuel : Nat) (rest : Bytes) (b : Bool) (r : Bytes)
    (h : Spec.C36.bracket f tch fuel rest = .done b r) : r.length < rest.length := by
  unfold Spec.C36.bracket at h
  have ht : rest.tail.length ≤ rest.length := by simp
  have htt : rest.tail.tail.length ≤ rest.length := by simp; omega
  by_cases hneg : ((if (hd rest == 94) = true then (33 : UInt8) else hd rest) == 33) = true
  · simp only [hneg, if_true] at h
    split at h
    · rename_i m r' hl
      injection h with h1 h2
      rw [← h2]
      have := spec_bracketLoop_len f tch _ _ _ _ _ _ _ hl
      omega
    · rename_i hne; exact absurd h (by intro e; exact hne _ _ e)
  · simp only [hneg, Bool.false_eq_true, if_false] at h
    split at h
    · rename_i m r' hl
      injection h with h1 h2
      rw [← h2]
      have := spec_bracketLoop_len f tch _ _ _ _ _ _ _ hl
      omega
    · rename_i hne; exact absurd h (by intro e; exact hne _ _ e)


def count42 (l : Bytes) : Nat := (l.filter (· == 42)).length

theorem count42_drop (l : Bytes) (i : Nat) : count42 (l.drop i) ≤ count42 l := by
  unfold count42
  exact ((List.drop_sublist i l).filter _).length_le

theorem count42_zero {l : Bytes} (h : count42 l = 0) : ∀ c ∈ l, c ≠ 42 := by
  intro c hc e
  subst e
  unfold count42 at h
  have : (42 : UInt8) ∈ l.filter (· == 42) := by simp [hc]
  rw [List.length_eq_zero_iff] at h
  rw [h] at this
  cases this

theorem count42_cons42 (r : Bytes) : count42 (42 :: r) = count42 r + 1 := by
  simp [count42]

theorem findSlash_none {l : Bytes} (h : findSlash l = none) : strchrSlash l = none := by
  induction l with
  | nil => rfl
  | cons a r ih =>
    by_cases ha : a = 47
    · simp [findSlash, SLASH, ha] at h
    · simp only [findSlash, SLASH, beq_iff_eq, ha, if_false, Option.map_eq_none_iff] at h
      simp [strchrSlash, ha, ih h]

theorem findSlash_some {l : Bytes} {d : Nat} (h : findSlash l = some d) :
    strchrSlash l = some (l.drop d) ∧ d < l.length := by
  induction l generalizing d with
  | nil => simp [findSlash] at h
  | cons a r ih =>
    by_cases ha : a = 47
    · simp [findSlash, SLASH, ha] at h
      subst h
      simp [strchrSlash, ha]
    · simp only [findSlash, SLASH, beq_iff_eq, ha, if_false, Option.map_eq_some_iff] at h
      obtain ⟨d', hd', e⟩ := h
      subst e
      obtain ⟨h1, h2⟩ := ih hd'
      simp [strchrSlash, ha, h1]
      omega

theorem contains47_iff (l : Bytes) : l.contains 47 = (strchrSlash l).isSome := by
  induction l with
  | nil => rfl
  | cons a r ih =>
    by_cases ha : a = 47
    · simp [strchrSlash, ha]
    · simp [strchrSlash, ha, ← ih]
      intro h; exact absurd h.symm ha

/-- the two results are the same, or gitoxide's NoMatch stands for git's ABORT_ALL -/
def RelNA (a : Res) (b : Wm) : Prop := a = ofWm b ∨ (a = .noMatch ∧ b = .abortAll)

theorem RelNA.refl (b : Wm) : RelNA (ofWm b) b := Or.inl rfl

theorem patOk_drop {m : Mode} {pattern : Bytes} (h : PatOk m pattern) (k : Nat) : PatOk m (pattern.drop k) :=
  ⟨fun c hc => h.noNul c (List.mem_of_mem_drop hc),
   fun hic => ⟨fun c hc => (h.icase hic).1 c (List.mem_of_mem_drop hc), escSafe_drop pattern (h.icase hic).2 k⟩⟩


theorem drop_add_eq {l : Bytes} {a : Nat} {r : Bytes} (h : l.drop a = r) (j : Nat) : l.drop (a + j) = r.drop j := by
  rw [← h, List.drop_drop]

/-- the recursive call behind the star is on a star-free pattern: T1 applies to it -/
theorem recCall_starfree (m : Mode) (fuel d : Nat) (pattern text : Bytes) (hok : PatOk m pattern)
    (htext : ∀ c ∈ text, c ≠ 0) (hd : d ≠ 0) (pIdx k : Nat) (hp : pIdx ≤ pattern.length) (hk : k ≤ text.length)
    (hsf : ∀ c ∈ pattern.drop pIdx, c ≠ 42) :
    recCall m fuel d pattern text pIdx k =
      ofWm (dowild (flagsOf m) fuel none (pattern.drop pIdx) (text.drop k)) := by
  unfold recCall sliceFrom
  simp only [hp, hk, if_true]
  have hd' : (d == 0) = false := by simpa using hd
  simp only [hd', Bool.false_eq_true, if_false, Iter.ofSlice]
  exact go_eq_dowild_starfree m (d - 1) (pattern.drop pIdx) (text.drop k) (patOk_drop hok pIdx) hsf fuel
    (pattern.drop pIdx) (text.drop k) 0 0 none (by simp) (fun c hc => htext c (List.mem_of_mem_drop hc))

theorem lt_of_drop_cons {l : Bytes} {k : Nat} {a : UInt8} {b : Bytes} (h : l.drop k = a :: b) : k < l.length := by
  apply Nat.lt_of_not_le
  intro hle
  rw [List.drop_eq_nil_of_le hle] at h
  cases h

theorem relNA_if {cM : Prop} [Decidable cM] {cS : Prop} [Decidable cS] (hc : cM ↔ cS) {a : Res} {b : Wm}
    (h : RelNA a b) : RelNA (if cM then Res.noMatch else a) (if cS then Wm.noMatch else b) := by
  by_cases h1 : cM
  · have h2 : cS := hc.mp h1
    simp [h1, h2, RelNA, ofWm]
  · have h2 : ¬ cS := fun x => h1 (hc.mpr x)
    simp [h1, h2, h]

/-- T2: at most one `*` in the pattern -/
theorem go_rel_onestar (m : Mode) (d : Nat) (pattern text : Bytes) (hok : PatOk m pattern)
    (hone : count42 pattern ≤ 1) (hdne : d ≠ 0) (htext : ∀ c ∈ text, c ≠ 0) :
    ∀ (fuel : Nat) (ps ts : Bytes) (i ti : Nat) (prev : Option UInt8),
      pattern.drop i = ps → text.drop ti = ts → ps.length ≤ fuel →
      RelNA (go m fuel d pattern text ⟨i, ps⟩ ⟨ti, ts⟩) (dowild (flagsOf m) fuel prev ps ts) := by
  intro fuel
  induction fuel with
  | zero => intros; left; simp [go, dowild, ofWm]
  | succ n ih =>
    intro ps ts i ti prev hinv htinv hfuel
    have htnn : ∀ c ∈ ts, c ≠ 0 := fun c hc => htext c (List.mem_of_mem_drop (htinv ▸ hc))
    cases ps with
    | nil =>
      left
      rw [go_nil, dw_nil (by intro h; exact (htnn 0 h) rfl)]
      cases ts <;> simp [ofWm]
    | cons c r =>
      have hmem : ∀ x ∈ c :: r, x ∈ pattern := fun x hx => List.mem_of_mem_drop (hinv ▸ hx)
      have hc0 : c ≠ 0 := hok.noNul c (hmem c (by simp))
      have hr := drop_succ_of_drop hinv
      have hrl : r.length ≤ n := by simp at hfuel; omega
      obtain ⟨s42, s92, s63, s91, s47, s0, s93⟩ := lc_special m c
      by_cases h42 : c = 42
      · -- the star
        subst h42
        have hcnt : count42 r = 0 := by
          have h1 := count42_drop pattern i
          rw [hinv, count42_cons42] at h1
          omega
        have hrsf : ∀ x ∈ r, x ≠ 42 := count42_zero hcnt
        have hilen : i + 1 ≤ pattern.length := lt_of_drop_cons hinv
        cases r with
        | nil =>
          -- trailing star
          left
          rw [go_star_end', dw_star_end]
          have hs : sliceFrom text (if ts.isEmpty then text.length else ti) = some ts := by
            unfold sliceFrom
            cases ts with
            | nil => simp
            | cons a b =>
              have := lt_of_drop_cons htinv
              simp [Nat.le_of_lt this, htinv]
          rw [hs]
          simp only [contains47_iff, flagsOf_pathname]
          by_cases hcnd : (m.noMatchSlash && (strchrSlash ts).isSome) = true
          · simp [hcnd, ofWm]
          · simp [hcnd, ofWm]
        | cons c1 r' =>
          have hc1_42 : c1 ≠ 42 := hrsf c1 (by simp)
          have hc1_0 : c1 ≠ 0 := hok.noNul c1 (hmem c1 (by simp))
          have hl42 : lc m c1 ≠ 42 := fun h => hc1_42 ((lc_special m c1).1.mp h)
          have h47 : lc m c1 = 47 ↔ c1 = 47 := (lc_special m c1).2.2.2.2.1
          have hr2 := drop_succ_of_drop hr
          rw [dw_star1 hc1_0 hc1_42]
          by_cases hns : m.noMatchSlash = true ∧ lc m c1 = 47
          · -- `*` then `/` in path mode: jump to the next slash
            have hcS : ((flagsOf m).pathname && c1 == 47) = true := by
              simp [hns.1, h47.mp hns.2]
            simp only [hcS, if_true]
            cases ts with
            | nil =>
              left
              rw [go_star1_slash_nil hns]
              simp [strchrSlash, ofWm]
            | cons tc tr =>
              have hti := lt_of_drop_cons htinv
              rw [go_star1_slash hns]
              have hsl : sliceFrom text ti = some (tc :: tr) := by
                unfold sliceFrom; simp [Nat.le_of_lt hti, htinv]
              rw [hsl]
              simp only []
              cases hf : findSlash (tc :: tr) with
              | none => left; simp [findSlash_none hf, ofWm]
              | some dist =>
                obtain ⟨h1, h2⟩ := findSlash_some hf
                rw [h1]
                simp only []
                have hd' : dist ≤ tr.length := by simp at h2; omega
                have hadv : (Iter.mk (ti + 1) tr).advance dist = ⟨ti + 1 + dist, tr.drop dist⟩ := by
                  simp [Iter.advance, Nat.min_eq_left hd']
                rw [hadv]
                have htail : (List.drop dist (tc :: tr)).tail = tr.drop dist := by
                  rw [List.tail_drop]; simp
                rw [htail]
                exact ih r' (tr.drop dist) (i + 2) (ti + 1 + dist) (some 47) hr2
                  (by
                    have := drop_add_eq htinv (1 + dist)
                    rw [← Nat.add_assoc] at this
                    rw [this]; simp [Nat.add_comm 1 dist])
                  (by simp at hrl ⊢; omega)
          · -- the loop behind the star
            have hcS : ((flagsOf m).pathname && c1 == 47) = false := by
              cases hp : m.noMatchSlash with
              | false => simp [hp]
              | true =>
                have : ¬ c1 = 47 := fun e => hns ⟨hp, h47.mpr e⟩
                simp [hp, this]
            simp only [hcS, Bool.false_eq_true, if_false]
            have hrecM : ∀ k, k ≤ text.length →
                recCall m n d pattern text (i + 1) k =
                  ofWm (dowild (flagsOf m) n none (c1 :: r') (text.drop k)) := by
              intro k hk
              have := recCall_starfree m n d pattern text hok htext hdne (i + 1) k hilen hk (by rw [hr]; exact hrsf)
              rw [hr] at this
              exact this
            cases ts with
            | nil =>
              -- text exhausted on entry: git aborts, gitoxide says NoMatch (or aborts one level down)
              rw [go_star1_nil hl42 hns]
              simp only [hd, List.headD_nil]
              have hf0 : Spec.C36.fold (flagsOf m) 0 = 0 := by rw [fold_eq_lc]; exact (lc_special m 0).2.2.2.2.2.1.mpr rfl
              rw [hf0, List.length_nil, sl_zero]
              by_cases hg : isGlobCharacter (lc m c1) = true
              · rw [starLoop_glob m _ _ _ _ hg, hrecM text.length (Nat.le_refl _)]
                simp only [List.drop_length]
                -- the recursive call on the empty text aborts (n > 0 because two pattern bytes are left)
                obtain ⟨n', e⟩ : ∃ n', n = n' + 1 := ⟨n - 1, by simp at hrl; omega⟩
                subst e
                rw [dw_abort hc1_0 hc1_42]
                left; simp [ofWm]
              · simp only [Bool.not_eq_true] at hg
                have hne : (0 : UInt8) ≠ lc m c1 := fun h => hc1_0 ((lc_special m c1).2.2.2.2.2.1.mp h.symm)
                rw [starLoop_end m _ _ _ _ hg hne]
                right; exact ⟨rfl, rfl⟩
            | cons tc tr =>
              left
              have hti := lt_of_drop_cons htinv
              rw [go_star1 hl42 hns]
              have := starLoop_rel m (fun k => recCall m n d pattern text (i + 1) k)
                (fun tx => dowild (flagsOf m) n none (c1 :: r') tx) (c1 :: r') (!m.noMatchSlash)
                (by simpa [hd] using hc1_0)
                (by
                  intro ⟨h1, h2⟩
                  apply hns
                  refine ⟨by simpa using h1, by simpa [hd] using h2⟩)
                (tc :: tr) htnn (by simp) ti (tr.length + 1) ((tc :: tr).length + 1)
                (Spec.C36.fold (flagsOf m) (hd (tc :: tr)))
                (by simp) (by simp) (Or.inr rfl)
                (by
                  intro j hj
                  have hlen : text.length - ti = tr.length + 1 := by
                    have := congrArg List.length htinv
                    simpa using this
                  rw [hrecM (ti + j) (by simp at hj; omega), drop_add_eq htinv j])
              simpa [hd, flagsOf_pathname] using this
      · -- everything else: as in the star-free proof, but the results are related, not equal
        have hc42 : c ≠ 42 := h42
        cases ts with
        | nil =>
          left
          rw [go_abort (by rw [Ne, s42]; exact hc42), dw_abort hc0 hc42]
          rfl
        | cons tc tr =>
          have htc : tc ≠ 0 := htnn tc (by simp)
          have htr := drop_succ_of_drop htinv
          have htc' : lc m tc ≠ 0 := fun h => htc ((lc_special m tc).2.2.2.2.2.1.mp h)
          by_cases h92 : c = 92
          · subst h92
            cases r with
            | nil =>
              left
              rw [go_esc_end (by rw [s92]), dw_esc hc0 htc (by rw [fold_eq_lc, s92])]
              simp [hd, fold_eq_lc, ofWm, htc']
            | cons e r2 =>
              rw [go_esc (by rw [s92]), dw_esc hc0 htc (by rw [fold_eq_lc, s92])]
              have hle : lc m e = e := by
                cases hic : m.ignoreCase with
                | false => simp [lc, hic]
                | true =>
                  have := escSafe_drop pattern (hok.icase hic).2 i
                  rw [hinv] at this
                  simp [escSafe] at this
                  exact lc_of_not_upper m e (by simpa using this.1)
              simp only [hd, List.headD_cons, List.tail_cons, fold_eq_lc, hle]
              have hr2 := drop_succ_of_drop hr
              have := ih r2 tr (i + 2) (ti + 1) (some e) hr2 htr (by simp at hrl ⊢; omega)
              exact relNA_if (by constructor <;> (intro h; exact fun x => h x.symm)) this
          · by_cases h63 : c = 63
            · subst h63
              rw [go_qm (by rw [s63]), dw_qm hc0 htc (by rw [fold_eq_lc, s63])]
              have := ih r tr (i + 1) (ti + 1) (some 63) hr htr hrl
              simp only [fold_eq_lc, flagsOf_pathname]
              exact relNA_if (by simp) this
            · by_cases h91 : c = 91
              · subst h91
                have hic : m.ignoreCase = false := by
                  cases h : m.ignoreCase with
                  | false => rfl
                  | true => exact absurd rfl ((hok.icase h).1 91 (hmem 91 (by simp)))
                rw [go_br (by rw [s91]), dw_br hc0 htc (by rw [fold_eq_lc, s91])]
                have hb := bracket_rel m hic pattern hok.noNul (lc m tc) n (i + 1) r hr
                simp only [fold_eq_lc, flagsOf_pathname]
                cases hbs : Spec.C36.bracket (flagsOf m) (lc m tc) n r with
                | abort =>
                  rw [hbs] at hb
                  cases hbm : C36.bracket m pattern (lc m tc) n ⟨i + 1, r⟩ <;> rw [hbm] at hb <;> simp [BrRel] at hb
                  left; rfl
                | fuel =>
                  rw [hbs] at hb
                  cases hbm : C36.bracket m pattern (lc m tc) n ⟨i + 1, r⟩ <;> rw [hbm] at hb <;> simp [BrRel] at hb
                  left; rfl
                | done ok' rest =>
                  rw [hbs] at hb
                  have hlen := spec_bracket_len _ _ _ _ _ _ hbs
                  cases hbm : C36.bracket m pattern (lc m tc) n ⟨i + 1, r⟩ with
                  | abort => rw [hbm] at hb; simp [BrRel] at hb
                  | panic => rw [hbm] at hb; simp [BrRel] at hb
                  | fuel => rw [hbm] at hb; simp [BrRel] at hb
                  | done ok p =>
                    rw [hbm] at hb
                    obtain ⟨h1, h2, h3⟩ := hb
                    obtain ⟨k, pr⟩ := p
                    simp at h2 h3
                    subst h1 h2
                    simp only []
                    have := ih pr tr k (ti + 1) (some 93) h3 htr (by omega)
                    exact relNA_if (by simp) this
              · rw [go_lit (by rw [Ne, s42]; exact hc42) (by rw [Ne, s92]; exact h92)
                    (by rw [Ne, s63]; exact h63) (by rw [Ne, s91]; exact h91),
                  dw_lit hc0 htc (by rw [fold_eq_lc, Ne, s42]; exact hc42) (by rw [fold_eq_lc, Ne, s92]; exact h92)
                    (by rw [fold_eq_lc, Ne, s63]; exact h63) (by rw [fold_eq_lc, Ne, s91]; exact h91)]
                have := ih r tr (i + 1) (ti + 1) (some c) hr htr hrl
                simp only [fold_eq_lc]
                exact relNA_if (by constructor <;> (intro h; exact fun x => h x.symm)) this


end GixModel.C36
