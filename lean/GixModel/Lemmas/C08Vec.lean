import GixModel.Lemmas.C08
/-
C08 — `resolve_deltas` over its single output vector (`decodeEntryVec`): the layout lemmas and the
refinement to the recursive specification.
-/
namespace GixModel.C08
open GixModel

/-! ## list surgery -/

theorem fitTo_ge (n : Nat) (bs : Bytes) (h : bs.length ≤ n) : fitTo n bs = bs ++ List.replicate (n - bs.length) 0 := by
  simp only [fitTo]
  apply List.take_of_length_le
  simp only [List.length_append, List.length_replicate]; omega

theorem flatten_raw_length (acc : List ChainItem) :
    (instrArea acc).length = (totalRaw acc) := by
  induction acc with
  | nil => rfl
  | cons d rest ih =>
    show (d.raw ++ instrArea rest).length = d.raw.length + totalRaw rest
    rw [List.length_append, ih]

theorem drop_append_ge : ∀ (bs X : Bytes) (n : Nat), bs.length ≤ n → (bs ++ X).drop n = X.drop (n - bs.length) := by
  intro bs
  induction bs with
  | nil => intro X n _; simp
  | cons b bs ih =>
    intro X n h
    cases n with
    | zero => simp at h
    | succ n =>
      simp only [List.cons_append, List.drop_succ_cons, List.length_cons]
      rw [ih X n (by simpa using h)]
      congr 1
      omega

theorem drop_writeAt_front (buf bs : Bytes) (n : Nat) (h : bs.length ≤ n) : (writeAt buf 0 bs).drop n = buf.drop n := by
  simp only [writeAt, List.take_zero, List.nil_append, Nat.zero_add]
  rw [drop_append_ge _ _ _ h, List.drop_drop]
  congr 1
  omega

theorem writeAt_end (buf bs : Bytes) (pos : Nat) (h : buf.length = pos + bs.length) :
    writeAt buf pos bs = buf.take pos ++ bs := by
  simp only [writeAt]
  rw [List.drop_of_length_le (by omega), List.append_nil]

/-! ## well-formed chain items: `info` is what the raw delta data says -/

def ChainItem.WF (d : ChainItem) : Prop := d.info = deltaInfo d.raw

theorem deltaInfo_instr (raw : Bytes) : (deltaInfo raw).instr = raw.drop (deltaInfo raw).hdrLen := rfl

theorem relabel_id (acc : List ChainItem) (h : ∀ d ∈ acc, d.WF) :
    relabel acc (instrArea acc) = acc := by
  induction acc with
  | nil => rfl
  | cons d rest ih =>
    have hd : d.WF := h d (by simp)
    simp only [instrArea, List.map_cons, List.flatten_cons, relabel] at ih ⊢
    rw [List.take_left' rfl, List.drop_left' rfl, ih (fun x hx => h x (by simp [hx]))]
    congr 1
    have : (d.raw.drop d.info.hdrLen) = d.info.instr := by
      rw [hd]; rfl
    rw [this]

theorem walk_wf (P : Pack) (M : CacheModel) : ∀ (fuel : Nat) (c : M.σ) (cursor : Nat) (acc items : List ChainItem)
    (stop : WalkEnd) (c' : M.σ), walk P M fuel c cursor acc = .ok (items, stop, c') →
    (∀ d ∈ acc, d.WF) → ∀ d ∈ items, d.WF := by
  intro fuel
  induction fuel with
  | zero => intro c cursor acc items stop c' h; simp [walk] at h
  | succ fuel ih =>
    intro c cursor acc items stop c' h hacc
    unfold walk at h
    split at h
    · simp at h
    · simp only [Outcome.ok.injEq, Prod.mk.injEq] at h
      obtain ⟨h1, _, _⟩ := h
      subst h1; exact hacc
    · split at h
      · simp only [Outcome.ok.injEq, Prod.mk.injEq] at h
        obtain ⟨h1, _, _⟩ := h
        subst h1; exact hacc
      · refine ih _ _ _ _ _ _ h ?_
        intro d hd
        simp only [List.mem_cons] at hd
        rcases hd with hd | hd
        · subst hd; rfl
        · exact hacc d hd
    · split at h
      · simp only [Outcome.ok.injEq, Prod.mk.injEq] at h
        obtain ⟨h1, _, _⟩ := h
        subst h1; exact hacc
      · split at h
        · refine ih _ _ _ _ _ _ h ?_
          intro d hd
          simp only [List.mem_cons] at hd
          rcases hd with hd | hd
          · subst hd; rfl
          · exact hacc d hd
        · split at h
          · simp only [Outcome.ok.injEq, Prod.mk.injEq] at h
            obtain ⟨h1, _, _⟩ := h
            subst h1
            intro d hd
            simp only [List.mem_cons] at hd
            rcases hd with hd | hd
            · subst hd; rfl
            · exact hacc d hd
          · simp at h

/-! ## the layout -/

/-- what the apply loop needs of the vector: it has the size of two buffers plus the instructions, its front
is the base, and behind the two buffers lie the deltas' data, oldest first -/
def LayoutOk (acc : List ChainItem) (base out5 : Bytes) : Prop :=
  out5.length = 2 * biggestSize acc + (totalRaw acc) ∧
  out5.take base.length = base ∧
  out5.drop (2 * biggestSize acc) = (instrArea acc)

/-- the vector after the second `resize`, as a concatenation -/
theorem rescue_ok (B T L : Nat) (base I Z : Bytes) (hb : base.length = L) (hI : I.length = T) (hZ : Z.length = 2 * B - L)
    (hL : L ≤ B) :
    ∃ out4, (if L < 2 * B then some (writeAt (base ++ I ++ Z) (2 * B) (((base ++ I ++ Z).drop L).take T))
             else if L > 2 * B then none else some (base ++ I ++ Z)) = some out4 ∧
      out4.length = 2 * B + T ∧ out4.take L = base ∧ out4.drop (2 * B) = I := by
  have hlen : (base ++ I ++ Z).length = 2 * B + T := by
    simp only [List.length_append, hb, hI, hZ]; omega
  by_cases h1 : L < 2 * B
  · have hsrc : ((base ++ I ++ Z).drop L).take T = I := by
      rw [List.append_assoc, List.drop_left' hb, List.take_left' hI]
    refine ⟨(base ++ I ++ Z).take (2 * B) ++ I, ?_, ?_, ?_, ?_⟩
    · rw [if_pos h1, hsrc, writeAt_end _ _ _ (by rw [hlen, hI])]
    · simp only [List.length_append, List.length_take, hlen, hI]; omega
    · rw [List.take_append_of_le_length (by simp only [List.length_take, hlen]; omega), List.take_take,
        Nat.min_eq_left (by omega), List.append_assoc, List.take_left' hb]
    · rw [List.drop_left' (by simp only [List.length_take, hlen]; omega)]
  · have hB0 : B = 0 := by omega
    have hL0 : L = 0 := by omega
    have hbase : base = [] := List.eq_nil_of_length_eq_zero (by omega)
    have hZ0 : Z = [] := List.eq_nil_of_length_eq_zero (by omega)
    refine ⟨base ++ I ++ Z, ?_, hlen, ?_, ?_⟩
    · rw [if_neg h1, if_neg (by omega)]
    · rw [hL0, hbase]; rfl
    · rw [hB0, hbase, hZ0]; simp

theorem layout_hit (acc : List ChainItem) (base : Bytes) (hL : base.length ≤ biggestSize acc) :
    ∃ out5, layout acc (some base.length) [] base = some out5 ∧ LayoutOk acc base out5 := by
  have hT := flatten_raw_length acc
  have e1 : fitTo (base.length + totalRaw acc) base =
      base ++ List.replicate (totalRaw acc) 0 := by
    rw [fitTo_ge _ _ (by omega)]; congr 2; omega
  have e2 : (base ++ List.replicate (totalRaw acc) 0).take base.length = base := List.take_left' rfl
  have e3 : fitTo (2 * biggestSize acc + totalRaw acc) (base ++ instrArea acc) =
      base ++ (instrArea acc) ++ List.replicate (2 * biggestSize acc - base.length) 0 := by
    rw [fitTo_ge _ _ (by simp only [List.length_append, hT]; omega)]
    congr 2
    simp only [List.length_append, hT]; omega
  obtain ⟨out4, h4, hl, ht, hd⟩ := rescue_ok (biggestSize acc) (totalRaw acc) base.length base
    (instrArea acc) (List.replicate (2 * biggestSize acc - base.length) 0) rfl hT (by simp) hL
  refine ⟨out4, ?_, hl, ht, hd⟩
  simp only [layout, Option.getD_some, e1, e2, e3, h4]

theorem layout_entry (acc : List ChainItem) (base out : Bytes) (hL : base.length ≤ biggestSize acc) :
    ∃ out5, layout acc none base out = some out5 ∧ LayoutOk acc base out5 := by
  have hT := flatten_raw_length acc
  have e3 : fitTo (2 * biggestSize acc + totalRaw acc) (instrArea acc) =
      [] ++ (instrArea acc) ++ List.replicate (2 * biggestSize acc - 0) 0 := by
    rw [fitTo_ge _ _ (by rw [hT]; omega)]
    simp only [List.nil_append]
    congr 2
    rw [hT]; omega
  obtain ⟨out4, h4, hl, _, hd⟩ := rescue_ok (biggestSize acc) (totalRaw acc) 0 []
    (instrArea acc) (List.replicate (2 * biggestSize acc - 0) 0) rfl hT (by simp) (Nat.zero_le _)
  have hbl : (base.take out4.length).length = base.length := by rw [List.length_take, hl]; omega
  have hbt : base.take out4.length = base := List.take_of_length_le (by rw [hl]; omega)
  simp only [List.nil_append] at h4
  refine ⟨writeAt out4 0 base, ?_, ?_, ?_, ?_⟩
  · simp only [layout, Option.getD_none, Nat.zero_add, List.take_zero, List.nil_append, e3]
    rw [h4]
    simp only [hbt]
  · simp only [writeAt, List.take_zero, List.nil_append, List.length_append, List.length_drop, Nat.zero_add, hl]; omega
  · simp only [writeAt, List.take_zero, List.nil_append, Nat.zero_add]
    exact List.take_left' rfl
  · rw [drop_writeAt_front _ _ _ (by omega)]
    exact hd

/-! ## the apply loop over the views of the vector -/

/-- `buffers_spec` for ANY initial content of the two buffers (stale bytes of earlier requests included):
only the front of the first buffer matters -/
theorem buffers_spec_gen (acc : List ChainItem) (kind : Kind) (baseData a b : Bytes) (v : Kind × Bytes)
    (ha : a.length = biggestSize acc) (hb : b.length = biggestSize acc) (hfront : a.take baseData.length = baseData)
    (hne : acc ≠ []) (hrep : replay (kind, baseData) acc = some v) :
    ∃ a' b' s last, applyChain acc a b true 0 = some (a', b', s, last) ∧
      assemble acc.length a' b' s last = v.2 ∧ v.1 = kind := by
  obtain ⟨i0, irest, hacc⟩ := List.exists_cons_of_ne_nil hne
  have hb0 : i0.info.baseSize = baseData.length := replay_first_size kind baseData i0 irest v (by rw [← hacc]; exact hrep)
  have hsz := sizes_le_biggest acc
  have hbl : baseData.length ≤ biggestSize acc := by
    rw [← hb0]; exact (hsz i0 (by rw [hacc]; simp)).1
  obtain ⟨a', b', s', last, h1, h2, h3, h4, h5, h6, h7⟩ := applyChain_spec (biggestSize acc) acc a b true 0 kind baseData v
    ha hb hsz (by simpa using hfront) hbl hrep
  have hlast := h5 hne
  have hfl : v.2.length ≤ biggestSize acc := by
    have := congrArg List.length h6
    rw [List.length_take] at this
    have hs'l : (if s' = true then a' else b').length = biggestSize acc := by cases s' <;> simp [h2, h3]
    omega
  refine ⟨a', b', s', last, h1, ?_, h7⟩
  rw [h4]
  exact assemble_spec (biggestSize acc) acc.length a' b' last v.2 h2 h3 hlast (by omega) (by rw [← h4]; exact h6)

theorem replay_base_le (acc : List ChainItem) (kind : Kind) (baseData : Bytes) (v : Kind × Bytes)
    (hne : acc ≠ []) (hrep : replay (kind, baseData) acc = some v) : baseData.length ≤ biggestSize acc := by
  obtain ⟨i0, irest, hacc⟩ := List.exists_cons_of_ne_nil hne
  have hb0 : i0.info.baseSize = baseData.length := replay_first_size kind baseData i0 irest v (by rw [← hacc]; exact hrep)
  rw [← hb0]; exact (sizes_le_biggest acc i0 (by rw [hacc]; simp)).1

/-- `finishChainVec`: whatever the vector held before (a cached base, or anything at all plus a base entry to
inflate), the layout succeeds, the loop runs over the right instructions, and what is left in the vector —
and put into the cache, and returned — is the chain's result -/
theorem finishChainVec_spec (P : Pack) (M : CacheModel) (K : CacheContract M) (c : M.σ) (off : Nat)
    (acc : List ChainItem) (first : ChainItem) (kind : Kind) (baseData : Bytes) (v : Kind × Bytes)
    (baseBuf : Option Nat) (baseEntry out : Bytes)
    (hsrc : (baseBuf = some baseData.length ∧ out = baseData ∧ baseEntry = []) ∨ (baseBuf = none ∧ baseEntry = baseData))
    (hwf : ∀ d ∈ acc, d.WF)
    (hne : acc ≠ []) (hrep : replay (kind, baseData) acc = some v) (hinv : K.Inv (IsObj P) c)
    (hobj : ∃ f, Spec.obj P f off = some v) :
    ∃ d c', finishChainVec M c off acc first kind baseBuf baseEntry out = .ok (d, c', d.data) ∧ (d.kind, d.data) = v ∧
      K.Inv (IsObj P) c' := by
  have hbl := replay_base_le acc kind baseData v hne hrep
  -- the layout
  have hlay : ∃ out5, layout acc baseBuf baseEntry out = some out5 ∧ LayoutOk acc baseData out5 := by
    rcases hsrc with ⟨h1, h2, h3⟩ | ⟨h1, h2⟩
    · subst h1; subst h2; subst h3; exact layout_hit acc out hbl
    · subst h1; subst h2; exact layout_entry acc baseEntry out hbl
  obtain ⟨out5, hl5, hlen, hfront, harea⟩ := hlay
  have ha : (out5.take (biggestSize acc)).length = biggestSize acc := by rw [List.length_take]; omega
  have hb : ((out5.drop (biggestSize acc)).take (biggestSize acc)).length = biggestSize acc := by
    rw [List.length_take, List.length_drop]; omega
  have hfr : (out5.take (biggestSize acc)).take baseData.length = baseData := by
    rw [List.take_take, Nat.min_eq_left hbl]; exact hfront
  have hrel : relabel acc (out5.drop (2 * biggestSize acc)) = acc := by rw [harea]; exact relabel_id acc hwf
  obtain ⟨a', b', s', last, h1, hout, h7⟩ := buffers_spec_gen acc kind baseData _ _ v ha hb hfr hne hrep
  have hq : IsObj P off { kind := kind, data := assemble acc.length a' b' s' last, packed := first.packed } := by
    obtain ⟨f, hf⟩ := hobj
    refine ⟨f, ?_⟩
    rw [hf, hout]
    obtain ⟨vk, vd⟩ := v
    simp only at h7
    simp [h7]
  obtain ⟨c', hp, hinv'⟩ := K.put_ok hinv hq
  refine ⟨{ kind := kind, data := assemble acc.length a' b' s' last, numDeltas := acc.length,
             compressedSize := first.packed }, c', ?_, ?_, hinv'⟩
  · simp only [finishChainVec, hl5, hrel, h1, hp]
  · simp only [hout]
    obtain ⟨vk, vd⟩ := v
    simp only at h7
    simp [h7]

theorem resolveDeltasVec_spec (P : Pack) (M : CacheModel) (K : CacheContract M) (fuel : Nat) (c : M.σ) (off : Nat)
    (out : Bytes) (v : Kind × Bytes) (hs : Spec.obj P fuel off = some v) (hinv : K.Inv (IsObj P) c)
    (hnb : ∀ k d p, P.entry off ≠ some (.base k d p)) :
    ∃ d c', resolveDeltasVec P M fuel c off out = .ok (d, c', d.data) ∧ (d.kind, d.data) = v ∧ K.Inv (IsObj P) c' := by
  obtain ⟨items, stop, c', hw, hinv', hrep, hempty⟩ := walk_spec P M K fuel c off [] v hs hinv
  simp only [List.append_nil] at hw
  have hwf := walk_wf P M fuel c off [] items stop c' hw (by simp)
  cases hl : items.getLast? with
  | none =>
    have hnil : items = [] := List.getLast?_eq_none_iff.mp hl
    subst hnil
    rcases hempty rfl with ⟨k, d, p, hbase⟩ | ⟨val, hval⟩
    · exact absurd hbase (hnb k d p)
    · subst hval
      simp only [replay, WalkEnd.val, Option.some.injEq] at hrep
      exact ⟨{ kind := val.kind, data := val.data, numDeltas := 0, compressedSize := val.packed }, c',
        by simp only [resolveDeltasVec, hw, hl], hrep, hinv'⟩
  | some first =>
    have hne : items ≠ [] := by
      intro h; subst h; simp at hl
    cases stop with
    | hit val =>
      simp only [WalkEnd.val] at hrep
      obtain ⟨d, c'', h1, h2, h3⟩ := finishChainVec_spec P M K c' off items first val.kind val.data v
        (some val.data.length) [] val.data (Or.inl ⟨rfl, rfl, rfl⟩) hwf hne hrep hinv' ⟨fuel, hs⟩
      exact ⟨d, c'', by simp only [resolveDeltasVec, hw, hl]; exact h1, h2, h3⟩
    | base k bd =>
      simp only [WalkEnd.val] at hrep
      obtain ⟨d, c'', h1, h2, h3⟩ := finishChainVec_spec P M K c' off items first k bd v
        none bd out (Or.inr ⟨rfl, rfl⟩) hwf hne hrep hinv' ⟨fuel, hs⟩
      exact ⟨d, c'', by simp only [resolveDeltasVec, hw, hl]; exact h1, h2, h3⟩
    | external k bd =>
      simp only [WalkEnd.val] at hrep
      obtain ⟨d, c'', h1, h2, h3⟩ := finishChainVec_spec P M K c' off items first k bd v
        (some bd.length) [] bd (Or.inl ⟨rfl, rfl, rfl⟩) hwf hne hrep hinv' ⟨fuel, hs⟩
      exact ⟨d, c'', by simp only [resolveDeltasVec, hw, hl]; exact h1, h2, h3⟩

/-- `decode_entry` over the single output vector: for ANY previous content of the caller's vector the answer is
the specified object, the vector afterwards holds exactly that object's bytes, and the cache invariant is kept -/
theorem decodeEntryVec_exact (P : Pack) (M : CacheModel) (K : CacheContract M) (fuel : Nat) (c : M.σ) (off : Nat)
    (out : Bytes) (v : Kind × Bytes) (hs : Spec.obj P fuel off = some v) (hinv : K.Inv (IsObj P) c) :
    ∃ d c', decodeEntryVec P M fuel c off out = .ok (d, c', d.data) ∧ (d.kind, d.data) = v ∧ K.Inv (IsObj P) c' := by
  cases he : P.entry off with
  | none =>
    cases fuel with
    | zero => simp [Spec.obj] at hs
    | succ f => rw [Spec.obj] at hs; simp [he] at hs
  | some e =>
    cases e with
    | base k d p =>
      cases fuel with
      | zero => simp [Spec.obj] at hs
      | succ f =>
        rw [Spec.obj] at hs
        simp only [he, Option.some.injEq] at hs
        exact ⟨{ kind := k, data := d, numDeltas := 0, compressedSize := p }, c, by simp only [decodeEntryVec, he], hs, hinv⟩
    | ofs b delta p =>
      obtain ⟨d, c', h1, h2, h3⟩ := resolveDeltasVec_spec P M K fuel c off out v hs hinv (by intro k d p; rw [he]; simp)
      exact ⟨d, c', by simp only [decodeEntryVec, he]; exact h1, h2, h3⟩
    | ref id delta p =>
      obtain ⟨d, c', h1, h2, h3⟩ := resolveDeltasVec_spec P M K fuel c off out v hs hinv (by intro k d p; rw [he]; simp)
      exact ⟨d, c', by simp only [decodeEntryVec, he]; exact h1, h2, h3⟩

/-- serve the requests one after the other with ONE output vector and one cache threaded through -/
def serveVec (P : Pack) (M : CacheModel) (fuel : Nat) : M.σ → Bytes → List Nat → Outcome (List Decoded × M.σ × Bytes)
  | c, out, [] => .ok ([], c, out)
  | c, out, off :: rest =>
    match decodeEntryVec P M fuel c off out with
    | .ok (d, c', out') =>
      match serveVec P M fuel c' out' rest with
      | .ok (ds, c'', out'') => .ok (d :: ds, c'', out'')
      | .err => .err
      | .panic => .panic
      | .outOfFuel => .outOfFuel
    | .err => .err
    | .panic => .panic
    | .outOfFuel => .outOfFuel

theorem serveVec_exact (P : Pack) (M : CacheModel) (K : CacheContract M) (fuel : Nat) (reqs : List Nat) :
    ∀ (c : M.σ) (out : Bytes), K.Inv (IsObj P) c → (∀ off ∈ reqs, ∃ v, Spec.obj P fuel off = some v) →
    ∃ ds c' out', serveVec P M fuel c out reqs = .ok (ds, c', out') ∧ K.Inv (IsObj P) c' ∧
      ds.map (fun d => some (d.kind, d.data)) = reqs.map (Spec.obj P fuel) := by
  induction reqs with
  | nil => intro c out hinv _; exact ⟨[], c, out, rfl, hinv, rfl⟩
  | cons off rest ih =>
    intro c out hinv hdef
    obtain ⟨v, hv⟩ := hdef off (by simp)
    obtain ⟨d, c1, h1, h2, h3⟩ := decodeEntryVec_exact P M K fuel c off out v hv hinv
    obtain ⟨ds, c2, out2, h4, h5, h6⟩ := ih c1 d.data h3 (fun o ho => hdef o (by simp [ho]))
    refine ⟨d :: ds, c2, out2, by simp only [serveVec, h1, h4], h5, ?_⟩
    simp only [List.map_cons, h6, hv, h2]

end GixModel.C08
