import GixModel.Lemmas.C10i
/-
C10 — the objects of the resolved pack are the objects of the thin pack.
-/
namespace GixModel.C10

/-- what the bytes mean: `decode j` = the inflated base object that is input entry `j`, `odbObj id` = the
object `id` of the object database, `apply v j` = the delta that is input entry `j` applied to bytes `v` -/
structure Sem (V : Type) where
  decode : Nat → V
  odbObj : Nat → V
  apply : V → Nat → V

/-- the object every entry of the thin pack stands for -/
def InVal {V : Type} (entries : List InEntry) (sem : Sem V) (val : Nat → V) : Prop :=
  ∀ (j : Nat) (e : InEntry), entries[j]? = some e →
    match e.hdr with
    | Hdr.base => val j = sem.decode j
    | Hdr.ofs d0 => ∃ (b : Nat) (eb : InEntry), entries[b]? = some eb ∧ eb.ofs = e.ofs - d0 ∧ val j = sem.apply (val b) j
    | Hdr.ref id => val j = sem.apply (sem.odbObj id) j

/-- the object every entry of the resolved pack stands for when that pack is read the way packs are
read: a delta is applied to the object of the entry that starts `distance` bytes before it -/
def OutVal {V : Type} (out : List OutEntry) (sem : Sem V) (oval : Nat → V) : Prop :=
  ∀ (p : Nat) (oe : OutEntry), out[p]? = some oe →
    match oe.hdr with
    | Hdr.base => (∀ j, oe.src = some j → oval p = sem.decode j)
        ∧ (∀ id, oe.src = none → oe.baseId = some id → oval p = sem.odbObj id)
    | Hdr.ofs d => ∀ j, oe.src = some j →
        ∃ (q : Nat) (ob : OutEntry), out[q]? = some ob ∧ ob.ofs + d = oe.ofs ∧ oval p = sem.apply (oval q) j
    | Hdr.ref _ => True

theorem out_adj : ∀ (l : List OutEntry) (k : Nat) (a b : OutEntry), contiguous l = true → l[k]? = some a →
    l[k + 1]? = some b → b.ofs = a.ofs + a.hsize + a.body := by
  intro l
  induction l with
  | nil => intro k a b _ h; simp at h
  | cons x rest ih =>
    intro k a b hc ha hb
    cases rest with
    | nil => simp at hb
    | cons y rest' =>
      simp only [contiguous, Bool.and_eq_true, beq_iff_eq] at hc
      cases k with
      | zero => simp at ha hb; subst ha; subst hb; exact hc.1
      | succ k' => exact ih k' a b hc.2 (by simpa using ha) (by simpa using hb)

theorem out_strict (l : List OutEntry) (hc : contiguous l = true) (hpos : ∀ oe ∈ l, 0 < oe.hsize + oe.body) :
    ∀ (p q : Nat) (a b : OutEntry), p < q → l[p]? = some a → l[q]? = some b → a.ofs < b.ofs := by
  intro p q a b hpq hp hq
  induction q generalizing b with
  | zero => omega
  | succ q' ih =>
    have hq'lt : q' < l.length := by
      have := (List.getElem?_eq_some_iff.mp hq).1; omega
    obtain ⟨m, hm⟩ : ∃ m, l[q']? = some m := ⟨l[q'], List.getElem?_eq_getElem hq'lt⟩
    have hstep := out_adj l q' m b hc hm hq
    have hpm := hpos m (List.mem_of_getElem? hm)
    rcases Nat.lt_or_ge p q' with hlt | hge
    · have := ih m hlt hm; omega
    · have : p = q' := by omega
      subst this
      rw [hp] at hm; cases hm
      omega

theorem preserves_of_binv {V : Type} {entries : List InEntry} {start : Nat} {st : IState} {n next : Nat}
    (tk : ThinOk entries) (inv : BInv entries start st n next) (sem : Sem V) (val oval : Nat → V)
    (hin : InVal entries sem val) (hout : OutVal st.out sem oval) :
    ∀ (p : Nat) (oe : OutEntry), st.out[p]? = some oe →
      (∀ j, oe.src = some j → oval p = val j)
      ∧ (∀ id, oe.src = none → oe.baseId = some id → oval p = sem.odbObj id) := by
  have hstrict := out_strict st.out inv.base.contig inv.opos
  -- the position of an entry is determined by its offset
  have hposeq : ∀ (p q : Nat) (a b : OutEntry), st.out[p]? = some a → st.out[q]? = some b → a.ofs = b.ofs → p = q := by
    intro p q a b hp hq hab
    rcases Nat.lt_trichotomy p q with h | h | h
    · have := hstrict p q a b h hp hq; omega
    · exact h
    · have := hstrict q p b a h hq hp; omega
  have hbefore : ∀ (p q : Nat) (a b : OutEntry), st.out[p]? = some a → st.out[q]? = some b → b.ofs < a.ofs → q < p := by
    intro p q a b hp hq hlt
    rcases Nat.lt_or_ge q p with h | h
    · exact h
    · rcases Nat.eq_or_lt_of_le h with h' | h'
      · subst h'; rw [hp] at hq; cases hq; omega
      · have := hstrict p q a b h' hp hq; omega
  intro p
  induction p using Nat.strongRecOn with
  | _ p ih =>
    intro oe hp
    have hmem : oe ∈ st.out := List.mem_of_getElem? hp
    have hpt := inv.pts oe hmem
    have hov := hout p oe hp
    unfold PointsOk at hpt
    cases hsrc : oe.src with
    | none =>
      rw [hsrc] at hpt
      rw [hpt] at hov
      exact ⟨fun j hj => (by cases hj), fun id _ hid => hov.2 id hsrc hid⟩
    | some j =>
      rw [hsrc] at hpt
      obtain ⟨e, he, hpt⟩ := hpt
      refine ⟨?_, fun id h => by cases h⟩
      intro j' hj'; cases hj'
      have hinj := hin j e he
      cases hh : e.hdr with
      | base =>
        rw [hh] at hpt hinj
        rw [hpt] at hov
        rw [hov.1 j hsrc, hinj]
      | ofs d0 =>
        rw [hh] at hpt hinj
        obtain ⟨d, b, eb, ob, h1, h2, h3, h4, h5, h6⟩ := hpt
        rw [h1] at hov
        obtain ⟨q, ob', hq, hq2, hq3⟩ := hov j hsrc
        obtain ⟨q0, hq0⟩ := List.getElem?_of_mem h4
        have hqq : q0 = q := hposeq q0 q ob ob' hq0 hq (by omega)
        subst hqq
        rw [hq0] at hq; cases hq
        -- the base comes earlier in the thin pack, so its entry is another one, further to the front
        obtain ⟨b', eb', hb', hbo', hblt, _⟩ := tk.ofs j e d0 he hh
        have hbb : b' = b := by
          rcases Nat.lt_trichotomy b' b with h | h | h
          · have := tk.strict b' b eb' eb h hb' h2; omega
          · exact h
          · have := tk.strict b b' eb eb' h h2 hb'; omega
        subst hbb
        have hne : ob.ofs ≠ oe.ofs := by
          intro heq
          have := hposeq q0 p ob oe hq0 hp heq
          subst this
          rw [hq0] at hp; cases hp
          rw [h5] at hsrc; cases hsrc
          omega
        have hqp : q0 < p := hbefore p q0 oe ob hp hq0 (by omega)
        have hvb := (ih q0 hqp ob hq0).1 b' h5
        obtain ⟨b'', eb'', hb'', hbo'', hval⟩ := hinj
        have hbb2 : b'' = b' := by
          rcases Nat.lt_trichotomy b'' b' with h | h | h
          · have := tk.strict b'' b' eb'' eb' h hb'' hb'; omega
          · exact h
          · have := tk.strict b' b'' eb' eb'' h hb' hb''; omega
        subst hbb2
        rw [hq3, hvb, hval]
      | ref id =>
        rw [hh] at hpt hinj
        obtain ⟨d, ob, h1, h2, h3, h4, h5⟩ := hpt
        rw [h1] at hov
        obtain ⟨q, ob', hq, hq2, hq3⟩ := hov j hsrc
        obtain ⟨q0, hq0⟩ := List.getElem?_of_mem h2
        have hqq : q0 = q := hposeq q0 q ob ob' hq0 hq (by omega)
        subst hqq
        rw [hq0] at hq; cases hq
        have hne : ob.ofs ≠ oe.ofs := by
          intro heq
          have := hposeq q0 p ob oe hq0 hp heq
          subst this
          rw [hq0] at hp; cases hp
          rw [h3] at hsrc; cases hsrc
        have hqp : q0 < p := hbefore p q0 oe ob hp hq0 (by omega)
        have hvb := (ih q0 hqp ob hq0).2 id h3 h4
        rw [hq3, hvb, hinj]

end GixModel.C10
