import GixModel.Lemmas.C04f
import GixModel.Lemmas.C04abs
/-
C04 helper lemmas, part g: `write` as a whole; uniqueness of the canonical tree of a file system.
-/
namespace GixModel.C04
open GixModel GixModel.Tree
open GixModel.Spec.C04 (Leaf FS)

/-- the invariant of the editor plus what is assumed of the object store it reads -/
structure InvW (hash : List Entry → Bytes) (ed : Ed) : Prop where
  inv : Inv ed
  hashed : Hashed hash ed.store
  canon : StoreCanon ed.store

theorem aget_root_only (t : List Entry) (K : Path) (hK : K ≠ []) :
    aget K ([([], t)] : Assoc Path (List Entry)) = none := by
  simp [aget, Ne.symm hK]

/-- all directory entries of `t` (living at `pb`) can be resolved -/
def ClosedAt (ed : Ed) (pb : Path) (t : List Entry) : Prop :=
  ∀ e ∈ t, e.isTree = true → (resolve ed (pb ++ [e.name]) e.oid).isSome = true

/-- a lookup is not affected by a growing store when the cache entries on its way are unchanged -/
theorem lookupIn_mono {ed ed' : Ed} (hinv : Inv ed) (hm : StoreMono ed.store ed'.store) (q : Path) :
    ∀ (t : List Entry) (pb : Path), ClosedAt ed pb t →
      (∀ K, pb <+: K → K ≠ pb → K <+: pb ++ q → aget K ed'.trees = aget K ed.trees) →
      lookupIn ed' t pb q = lookupIn ed t pb q := by
  induction q with
  | nil => intro t pb _ _; rfl
  | cons n rest ih =>
    intro t pb hcl hc
    cases rest with
    | nil => rfl
    | cons m rest' =>
      simp only [lookupIn]
      cases hf : findName t n with
      | none => rfl
      | some e =>
        simp only
        by_cases hd : e.isTree = true
        · simp only [hd, if_true]
          have hmem : e ∈ t := List.mem_of_find?_eq_some hf
          have hen : e.name = n := by simpa using List.find?_some hf
          have hres := hcl e hmem hd
          rw [hen] at hres
          have hk : aget (pb ++ [n]) ed'.trees = aget (pb ++ [n]) ed.trees :=
            hc _ (List.prefix_append _ _) (ne_append_singleton pb n).symm
              ⟨m :: rest', by simp [List.append_assoc]⟩
          have hrec : ∀ K, (pb ++ [n]) <+: K → K ≠ pb ++ [n] → K <+: (pb ++ [n]) ++ (m :: rest') →
              aget K ed'.trees = aget K ed.trees := by
            intro K hK hne hle
            refine hc K ((List.prefix_append pb [n]).trans hK) ?_ (by simpa [List.append_assoc] using hle)
            intro h; subst h
            exact not_prefix_append_singleton _ _ hK
          unfold resolve at hres ⊢
          rw [hk]
          cases hcache : aget (pb ++ [n]) ed.trees with
          | some t' =>
            simp only
            exact ih t' _ (fun x hx hxd => hinv.closed _ _ hcache x hx hxd) hrec
          | none =>
            simp only [hcache] at hres ⊢
            by_cases hE : noFind e.oid = true
            · simp only [hE, if_true]; rw [lookupIn_nil, lookupIn_nil]
            · simp only [hE, Bool.false_eq_true, if_false] at hres ⊢
              cases hs : aget e.oid ed.store with
              | none => simp [hs] at hres
              | some ts =>
                rw [hm _ _ hs]
                simp only
                exact ih ts _ (fun x hx hxd => storeOk_resolve hinv.store hs hx hxd _) hrec
        · simp [hd]

/-- outside of `P` nothing changes when only cache entries at or below `P` change and the store grows -/
theorem abs_frame_mono {ed ed' : Ed} (hinv : Inv ed) (hm : StoreMono ed.store ed'.store) {P : Path}
    (hP : P ≠ []) (hframe : ∀ K, ¬ P <+: K → aget K ed'.trees = aget K ed.trees) {q : Path}
    (hq : ¬ P <+: q) : abs ed' q = abs ed q := by
  have hroot : aget [] ed'.trees = aget [] ed.trees := by
    apply hframe
    intro h; exact hP (List.prefix_nil.1 h)
  simp only [abs, hroot]
  cases hr : aget [] ed.trees with
  | none => rfl
  | some root =>
    simp only
    apply lookupIn_mono hinv hm q root [] (fun e he hd => hinv.closed [] root hr e he hd)
    intro K _ _ hK
    apply hframe
    intro h
    exact hq (h.trans (by simpa using hK))

/-- pointwise description of the cache `write_at_pathbuf` leaves behind -/
def CacheAfter (ed : Ed) (P : Path) (t : List Entry) (trees' : Assoc Path (List Entry)) : Prop :=
  ∀ K, aget K trees' = if K = P then some t else if P <+: K then none else aget K ed.trees

/-- the invariant after the tree at `P` was written: `P` holds the written tree `t`, nothing is
cached below it any more, everything else is as before; the store grew -/
theorem inv_after_write {ed : Ed} (hinv : Inv ed) {P : Path} {t0 : List Entry}
    (hP : aget P ed.trees = some t0) {t : List Entry} (ht : TreeOk t)
    {store' : Assoc Bytes (List Entry)} (hm : StoreMono ed.store store') (hok' : StoreOk store')
    (hcl : Closed store' t) {trees' : Assoc Path (List Entry)} (hc : CacheAfter ed P t trees')
    (pb : Path) : Inv { pathBuf := pb, trees := trees', store := store' } := by
  have hgetP : aget P trees' = some t := by rw [hc]; simp
  have hmono : ∀ K oid, aget K trees' = aget K ed.trees → (resolve ed K oid).isSome = true →
      (resolve { pathBuf := pb, trees := trees', store := store' } K oid).isSome = true := by
    intro K oid hK h
    unfold resolve at h ⊢
    simp only [hK]
    cases hk : aget K ed.trees with
    | some _ => simp
    | none =>
      simp only [hk] at h
      by_cases hE : noFind oid = true
      · simp [hE]
      · simp only [hE, Bool.false_eq_true, if_false] at h ⊢
        cases hs : aget oid ed.store with
        | none => simp [hs] at h
        | some ts => simp [hm _ _ hs]
  refine ⟨?_, ?_, ?_, ?_, hok'⟩
  · show (aget [] trees').isSome = true
    rw [hc]
    by_cases h0 : ([] : Path) = P
    · simp [h0]
    · have : ¬ P <+: [] := fun h => h0 (List.prefix_nil.1 h).symm
      simp only [h0, if_false, this]; exact hinv.root
  · intro K tk hK
    change aget K trees' = some tk at hK
    rw [hc] at hK
    by_cases h1 : K = P
    · simp only [h1, if_true, Option.some.injEq] at hK; subst hK; exact ht
    · by_cases h2 : P <+: K
      · simp [h1, h2] at hK
      · simp only [h1, h2, if_false] at hK; exact hinv.trees K tk hK
  · intro K n tk hK
    change aget (K ++ [n]) trees' = some tk at hK
    rw [hc] at hK
    have hparent : ∀ tp, aget K ed.trees = some tp → ¬ P <+: K → aget K trees' = some tp := by
      intro tp h hn
      rw [hc]
      have : K ≠ P := fun e => hn (e ▸ List.prefix_refl _)
      simp only [this, if_false, hn]; exact h
    by_cases h1 : K ++ [n] = P
    · obtain ⟨tp, e, h3, h4, h5⟩ := hinv.linked K n t0 (h1 ▸ hP)
      have hn : ¬ P <+: K := by
        rw [← h1]; exact not_prefix_append_singleton K n
      exact ⟨tp, e, hparent tp h3 hn, h4, h5⟩
    · by_cases h2 : P <+: (K ++ [n])
      · simp [h1, h2] at hK
      · simp only [h1, h2, if_false] at hK
        obtain ⟨tp, e, h3, h4, h5⟩ := hinv.linked K n tk hK
        have hn : ¬ P <+: K := fun h => h2 (h.trans (List.prefix_append K [n]))
        exact ⟨tp, e, hparent tp h3 hn, h4, h5⟩
  · intro K tk hK e he hd
    change aget K trees' = some tk at hK
    rw [hc] at hK
    by_cases h1 : K = P
    · subst h1
      simp only [if_true, Option.some.injEq] at hK
      subst hK
      have := hcl e he hd
      unfold resolve
      cases aget (K ++ [e.name]) trees' with
      | some _ => simp
      | none =>
        by_cases hE : noFind e.oid = true
        · simp [hE]
        · simpa [hE] using this
    · by_cases h2 : P <+: K
      · simp [h1, h2] at hK
      · simp only [h1, h2, if_false] at hK
        have hold := hinv.closed K tk hK e he hd
        by_cases h3 : K ++ [e.name] = P
        · apply resolve_isSome_of_cached (t := t)
          show aget (K ++ [e.name]) trees' = some t
          rw [h3]; exact hgetP
        · have h4 : ¬ P <+: (K ++ [e.name]) := by
            intro h
            obtain ⟨S, hS⟩ := h
            -- `P` is not a prefix of `K` and differs from `K ++ [x]`: it cannot be a prefix of `K ++ [x]`
            have hlen : P.length ≤ K.length := by
              by_cases hl : P.length ≤ K.length
              · exact hl
              · exfalso
                have hS0 : S = [] := by
                  have := congrArg List.length hS
                  simp at this
                  apply List.length_eq_zero_iff.1; omega
                subst hS0
                simp at hS
                exact h3 hS.symm
            exact h2 (List.prefix_of_prefix_length_le ⟨S, hS⟩ (List.prefix_append K [e.name]) hlen)
          apply hmono _ _ ?_ hold
          rw [hc]; simp only [h3, if_false, h4]

/-- `write_at_pathbuf` (both modes) for the tree cached at `P` -/
theorem writeAt_spec {hash : List Entry → Bytes} (hh : HashOk hash) {ed : Ed} (h : InvW hash ed)
    {P : Path} (hpb : ed.pathBuf = P) {root0 : List Entry} (hP : aget P ed.trees = some root0)
    (fromCursor : Bool) (hmode : fromCursor = false → P = []) :
    ∃ calls ed' root, writeAt hash ed fromCursor = .ok (hash root) calls ed' ∧ InvW hash ed' ∧
      aget (hash root) ed'.store = some root ∧ Canon ed'.store root ∧
      (∀ q, absStore ed'.store root q = lookupIn ed root0 P q) ∧ (∀ q, abs ed' q = abs ed q) ∧
      StoreMono ed.store ed'.store ∧ aget P ed'.trees = some root := by
  have hinv := h.inv
  have hsnap : Snap hash ed.trees ed.store := by
    refine ⟨hinv.trees, ?_, ?_, hinv.linked, hinv.store, h.hashed, h.canon⟩
    · intro K t hK e he hd
      exact hinv.closed K t hK e he hd
    · intro K hnone K' hpre
      cases hc : aget K' ed.trees with
      | none => rfl
      | some t' =>
        obtain ⟨S, rfl⟩ := hpre
        have := cached_prefix hinv S.length S K t' rfl hc
        simp [hnone] at this
  have hpre : WPre hash ed.trees ed.store ⟨aerase P ed.trees, ed.store, 0⟩ P root0 := by
    refine ⟨?_, StoreMono.refl _, hinv.store, h.hashed, h.canon, hinv.trees _ _ hP, ?_, hP⟩
    · intro K _ hne
      exact aget_aerase_ne _ hne
    · intro e he hd
      exact hinv.closed P root0 hP e he hd
  have hpost := writeTree_spec hh hsnap ((aerase P ed.trees).length + 1) _ _ _ hpre (Nat.lt_succ_self _)
  generalize hr : writeTree hash ((aerase P ed.trees).length + 1) ⟨aerase P ed.trees, ed.store, 0⟩ P root0 = r at hpost
  have hm1 := storeMono_aset hh hpost.hashed r.2
  have hok' := storeOk_aset hh hpost.hashed hpost.storeOk hpost.tree hpost.closed
  have hmono' : StoreMono ed.store (aset (hash r.2) r.2 r.1.store) := hpost.mono.trans hm1
  -- the cache afterwards, pointwise, in both modes
  have hcache : CacheAfter ed P r.2 (if fromCursor then aset P r.2 r.1.cache else [(P, r.2)]) := by
    intro K
    by_cases hK : K = P
    · subst hK
      cases fromCursor <;> simp [aget, aget_aset_self]
    · have hKP : aget K (aset P r.2 r.1.cache) =
          if P <+: K then none else aget K ed.trees := by
        rw [aget_aset_ne _ _ hK]
        by_cases hu : P <+: K
        · simp only [hu, if_true]; exact hpost.erased K hu hK
        · simp only [hu, if_false]
          rw [hpost.frame K (fun h => hu h.1)]
          exact aget_aerase_ne _ hK
      cases hfc : fromCursor with
      | true => simp only [if_true, hK, if_false]; exact hKP
      | false =>
        have hP0 := hmode hfc
        subst hP0
        simp only [Bool.false_eq_true, if_false, hK, List.nil_prefix, if_true]
        simp [aget, Ne.symm hK]
  -- the resulting editor state
  obtain ⟨ed', hed'⟩ : ∃ ed' : Ed, ed' = Ed.mk (if fromCursor then aset P r.2 r.1.cache else [(P, r.2)])
      (aset (hash r.2) r.2 r.1.store) ed.pathBuf := ⟨_, rfl⟩
  have htrees' : ed'.trees = (if fromCursor then aset P r.2 r.1.cache else [(P, r.2)]) := by rw [hed']
  have hstore' : ed'.store = aset (hash r.2) r.2 r.1.store := by rw [hed']
  have hcache' : CacheAfter ed P r.2 ed'.trees := by rw [htrees']; exact hcache
  have hw : writeAt hash ed fromCursor = .ok (hash r.2) (r.1.calls + 1) ed' := by
    rw [hed']
    subst hpb
    cases fromCursor <;> simp [writeAt, hP, hr]
  have hinv' : Inv ed' := by
    rw [hed']
    exact inv_after_write hinv hP hpost.tree hmono' hok' (hpost.closed.mono hm1) hcache ed.pathBuf
  have hgetP' : aget P ed'.trees = some r.2 := by rw [hcache']; simp
  have hsemP : ∀ q, lookupIn ed' r.2 P q = lookupIn ed root0 P q := by
    intro q
    have e1 : lookupIn ed' r.2 P q = lookupIn (storeEd (aset (hash r.2) r.2 r.1.store)) r.2 P q := by
      apply lookupIn_congr (ed := storeEd (aset (hash r.2) r.2 r.1.store)) (ed' := ed') hstore'
      intro K hK hne
      rw [hcache']
      simp [hne, hK, storeEd, aget]
    rw [e1, lookup_store_mono hpost.storeOk hm1 q r.2 P hpost.closed, hpost.sem q]
    exact lookupIn_congr (ed := ed) (ed' := ⟨ed.trees, ed.store, []⟩) rfl q root0 P (fun _ _ _ => rfl)
  refine ⟨r.1.calls + 1, ed', r.2, hw, ⟨hinv', ?_, ?_⟩, ?_, ?_, ?_, ?_, ?_, hgetP'⟩
  · rw [hstore']; exact hashed_aset hpost.hashed r.2
  · rw [hstore']; exact storeCanon_aset hh hpost.hashed hpost.allCanon hpost.canon
  · rw [hstore']; exact aget_aset_self _ _ _
  · rw [hstore']; exact hpost.canon.mono hm1
  · intro q
    rw [hstore']
    show lookupIn (storeEd (aset (hash r.2) r.2 r.1.store)) r.2 [] q = lookupIn ed root0 P q
    rw [lookup_store_path _ q r.2 [] P, lookup_store_mono hpost.storeOk hm1 q r.2 P hpost.closed, hpost.sem q]
    exact lookupIn_congr (ed := ed) (ed' := ⟨ed.trees, ed.store, []⟩) rfl q root0 P (fun _ _ _ => rfl)
  · intro q
    by_cases hPq : P <+: q
    · obtain ⟨r', rfl⟩ := hPq
      by_cases hr' : r' = []
      · subst hr'
        simp only [List.append_nil]
        rw [abs_dir_none hinv' hgetP' P (List.prefix_refl _), abs_dir_none hinv hP P (List.prefix_refl _)]
      · rw [abs_under hinv' hgetP' hr', abs_under hinv hP hr']
        exact hsemP r'
    · have hP0 : P ≠ [] := fun e => hPq (e ▸ List.nil_prefix)
      -- outside of `P` the cache is as before; the store only grew, which lookups from the root
      -- through unchanged cached trees do not notice
      apply abs_frame_mono hinv (by rw [hstore']; exact hmono') hP0 ?_ hPq
      intro K hK
      rw [hcache']
      have : K ≠ P := fun e => hK (e ▸ List.prefix_refl _)
      simp [this, hK]
  · rw [hstore']; exact hmono'

/-- `Editor::write()` -/
theorem write_spec {hash : List Entry → Bytes} (hh : HashOk hash) {ed : Ed} (h : InvW hash ed) :
    ∃ calls ed' root, write hash ed = .ok (hash root) calls ed' ∧ InvW hash ed' ∧
      aget (hash root) ed'.store = some root ∧ Canon ed'.store root ∧
      (∀ q, absStore ed'.store root q = abs ed q) ∧ (∀ q, abs ed' q = abs ed q) ∧
      StoreMono ed.store ed'.store := by
  cases hroot : aget [] ed.trees with
  | none => have := h.inv.root; simp [hroot] at this
  | some root0 =>
    have h' : InvW hash { ed with pathBuf := [] } := ⟨inv_pathBuf h.inv [], h.hashed, h.canon⟩
    obtain ⟨calls, ed', root, h1, h2, h3, h4, h5, h6, h7, _⟩ :=
      writeAt_spec hh h' (P := []) rfl (root0 := root0) hroot false (fun _ => rfl)
    refine ⟨calls, ed', root, h1, h2, h3, h4, ?_, ?_, h7⟩
    · intro q
      rw [h5 q]
      simp only [abs, hroot]
      exact lookupIn_congr (ed := ed) (ed' := { ed with pathBuf := [] }) rfl q root0 [] (fun _ _ _ => rfl)
    · intro q
      rw [h6 q]
      exact congrFun (abs_pathBuf ed []) q

/-- `Cursor::write()` for a cursor whose tree is cached at `pfx`: the returned id is that of a
canonical tree reading as what the editor holds below `pfx`; the editor stands for the same file
system as before -/
theorem cursorWrite_spec {hash : List Entry → Bytes} (hh : HashOk hash) {ed : Ed} (h : InvW hash ed)
    {pfx : Path} {t : List Entry} (hP : aget pfx ed.trees = some t) :
    ∃ calls ed' root, cursorWrite hash ed pfx = .ok (hash root) calls ed' ∧ InvW hash ed' ∧
      aget (hash root) ed'.store = some root ∧ Canon ed'.store root ∧
      (∀ q, q ≠ [] → absStore ed'.store root q = abs ed (pfx ++ q)) ∧ abs ed' = abs ed ∧
      StoreMono ed.store ed'.store ∧ (aget pfx ed'.trees).isSome = true := by
  have h' : InvW hash { ed with pathBuf := pfx } := ⟨inv_pathBuf h.inv pfx, h.hashed, h.canon⟩
  obtain ⟨calls, ed', root, h1, h2, h3, h4, h5, h6, h7, h8⟩ :=
    writeAt_spec hh h' (P := pfx) rfl (root0 := t) hP true (fun e => by cases e)
  refine ⟨calls, ed', root, h1, h2, h3, h4, ?_, ?_, h7, by simp [h8]⟩
  · intro q hq
    rw [h5 q, abs_under h.inv hP hq]
    exact lookupIn_congr (ed := ed) (ed' := { ed with pathBuf := pfx }) rfl q t pfx (fun _ _ _ => rfl)
  · funext q
    rw [h6 q]
    exact congrFun (abs_pathBuf ed pfx) q

/-! ### one file system, one canonical tree -/

theorem child_nonempty {hash : List Entry → Bytes} (hh : HashOk hash)
    {S : Assoc Bytes (List Entry)} (hS : Hashed hash S) {t : List Entry} (ht : TreeOk t) {e : Entry}
    (he : e ∈ t) (hd : e.isTree = true) {t' : List Entry} (hc : aget e.oid S = some t') : t' ≠ [] := by
  intro h0
  subst h0
  have := hS _ _ hc
  rw [hh.empty] at this
  exact (ht.good e he hd).1 this.symm

theorem absStore_cons_dir {S : Assoc Bytes (List Entry)} {t t' : List Entry} {e : Entry} {n : Bytes}
    (hf : findName t n = some e) (hd : e.isTree = true) (hne : e.oid ≠ emptyTreeId)
    (hnn : e.oid ≠ nullId) (hc : aget e.oid S = some t') {qs : Path} (hq : qs ≠ []) :
    absStore S t (n :: qs) = absStore S t' qs := by
  unfold absStore
  have hE : noFind e.oid = false := noFind_false hne hnn
  have hr : resolve (storeEd S) ([] ++ [n]) e.oid = some t' := by
    rw [resolve_storeEd]; simp [hE, hc]
  rw [lookupIn_cons_dir hf hd hr hq]
  exact lookup_store_path S qs t' _ _

/-- a non-empty canonical tree holds at least one leaf -/
theorem canon_has_leaf {hash : List Entry → Bytes} (hh : HashOk hash)
    {S : Assoc Bytes (List Entry)} (hS : Hashed hash S) {t : List Entry} (hc : Canon S t) :
    t ≠ [] → ∃ q, (absStore S t q).isSome = true := by
  induction hc with
  | mk t htok hnn hcl _ ih =>
    intro hne
    cases t with
    | nil => exact absurd rfl hne
    | cons e rest =>
      have hfe : findName (e :: rest) e.name = some e := by rw [findName_cons]; simp
      by_cases hd : e.isTree = true
      · have hsome := hcl e (by simp) hd
        cases hs : aget e.oid S with
        | none => simp [hs] at hsome
        | some t' =>
          have hne' := child_nonempty hh hS htok (by simp) hd hs
          obtain ⟨q', hq'⟩ := ih e (by simp) hd t' hs hne'
          have hqne : q' ≠ [] := by
            intro h0; subst h0; simp [absStore, lookupIn] at hq'
          refine ⟨e.name :: q', ?_⟩
          rw [absStore_cons_dir hfe hd (htok.good e (by simp) hd).1 (hnn e (by simp)) hs hqne]
          exact hq'
      · refine ⟨[e.name], ?_⟩
        have hd' : e.isTree = false := by cases h : e.isTree <;> simp_all
        have hn : (e.oid == nullId) = false := by
          cases h : e.oid == nullId with
          | false => rfl
          | true => exact absurd (by simpa using h) (hnn e (by simp))
        simp [absStore, lookupIn, hfe, leafOf, hd', hn]

/-- if looking up `n :: qs` (`qs ≠ []`) succeeds, `n` is a directory entry whose tree is stored -/
theorem absStore_some_dir {S : Assoc Bytes (List Entry)} {t : List Entry} {n : Bytes} {qs : Path}
    (hq : qs ≠ []) (h : (absStore S t (n :: qs)).isSome = true) :
    ∃ e, findName t n = some e ∧ e.isTree = true := by
  cases qs with
  | nil => exact absurd rfl hq
  | cons m rest =>
    simp only [absStore, lookupIn] at h
    cases hf : findName t n with
    | none => simp [hf] at h
    | some e =>
      by_cases hd : e.isTree = true
      · exact ⟨e, rfl, hd⟩
      · simp [hf, hd] at h

theorem canon_unique {hash : List Entry → Bytes} (hh : HashOk hash)
    {S1 S2 : Assoc Bytes (List Entry)} (h1 : Hashed hash S1) (h2 : Hashed hash S2)
    {t1 : List Entry} (c1 : Canon S1 t1) :
    ∀ {t2 : List Entry}, Canon S2 t2 → (∀ q, absStore S1 t1 q = absStore S2 t2 q) → t1 = t2 := by
  induction c1 with
  | mk t1 hok1 hnn1 hcl1 hch1 ih =>
    intro t2 c2 heq
    have hok2 := c2.treeOk
    -- the two trees hold the same entry under every name
    have hfind : ∀ n, findName t1 n = findName t2 n := by
      intro n
      cases hf1 : findName t1 n with
      | none =>
        cases hf2 : findName t2 n with
        | none => rfl
        | some e2 =>
          exfalso
          obtain ⟨he2, hn2⟩ := (findName_eq_some_iff hok2.uniq).1 hf2
          by_cases hd : e2.isTree = true
          · have hsome := c2.closed e2 he2 hd
            cases hs : aget e2.oid S2 with
            | none => simp [hs] at hsome
            | some t2' =>
              obtain ⟨q', hq'⟩ := canon_has_leaf hh h2 (c2.child e2 he2 hd t2' hs)
                (child_nonempty hh h2 hok2 he2 hd hs)
              have hqne : q' ≠ [] := by intro h0; subst h0; simp [absStore, lookupIn] at hq'
              have := heq (n :: q')
              rw [absStore_cons_dir hf2 hd (hok2.good e2 he2 hd).1 (c2.nonnull e2 he2) hs hqne] at this
              rw [← this] at hq'
              obtain ⟨e1, hfe1, _⟩ := absStore_some_dir hqne hq'
              rw [hf1] at hfe1; cases hfe1
          · have hd' : e2.isTree = false := by cases h : e2.isTree <;> simp_all
            have hn : (e2.oid == nullId) = false := by
              cases h : e2.oid == nullId with
              | false => rfl
              | true => exact absurd (by simpa using h) (c2.nonnull e2 he2)
            have := heq [n]
            simp [absStore, lookupIn, hf1, hf2, leafOf, hd', hn] at this
      | some e1 =>
        obtain ⟨he1, hn1⟩ := (findName_eq_some_iff hok1.uniq).1 hf1
        by_cases hd : e1.isTree = true
        · have hsome := hcl1 e1 he1 hd
          cases hs : aget e1.oid S1 with
          | none => simp [hs] at hsome
          | some t1' =>
            have hne1 := child_nonempty hh h1 hok1 he1 hd hs
            obtain ⟨q', hq'⟩ := canon_has_leaf hh h1 (hch1 e1 he1 hd t1' hs) hne1
            have hqne : q' ≠ [] := by intro h0; subst h0; simp [absStore, lookupIn] at hq'
            have hq2 := heq (n :: q')
            rw [absStore_cons_dir hf1 hd (hok1.good e1 he1 hd).1 (hnn1 e1 he1) hs hqne] at hq2
            rw [hq2] at hq'
            obtain ⟨e2, hf2, hd2⟩ := absStore_some_dir hqne hq'
            obtain ⟨he2, hn2⟩ := (findName_eq_some_iff hok2.uniq).1 hf2
            have hsome2 := c2.closed e2 he2 hd2
            cases hs2 : aget e2.oid S2 with
            | none => simp [hs2] at hsome2
            | some t2' =>
              have hchild : ∀ r, absStore S1 t1' r = absStore S2 t2' r := by
                intro r
                cases r with
                | nil => rfl
                | cons m rest =>
                  have := heq (n :: m :: rest)
                  rwa [absStore_cons_dir hf1 hd (hok1.good e1 he1 hd).1 (hnn1 e1 he1) hs (by simp),
                    absStore_cons_dir hf2 hd2 (hok2.good e2 he2 hd2).1 (c2.nonnull e2 he2) hs2 (by simp)] at this
              have htt := ih e1 he1 hd t1' hs (c2.child e2 he2 hd2 t2' hs2) hchild
              subst htt
              have ho : e1.oid = e2.oid := (h1 _ _ hs).symm.trans (h2 _ _ hs2)
              have hm : e1.mode = e2.mode := by
                rw [(hok1.good e1 he1 hd).2, (hok2.good e2 he2 hd2).2]
              rw [hf2]
              congr 1
              cases e1; cases e2
              simp_all
        · have hd' : e1.isTree = false := by cases h : e1.isTree <;> simp_all
          have hn : (e1.oid == nullId) = false := by
            cases h : e1.oid == nullId with
            | false => rfl
            | true => exact absurd (by simpa using h) (hnn1 e1 he1)
          have h3 := heq [n]
          simp only [absStore, lookupIn, hf1, Option.bind_some, leafOf, hd', Bool.false_eq_true,
            if_false, hn] at h3
          cases hf2 : findName t2 n with
          | none => simp [hf2] at h3
          | some e2 =>
            obtain ⟨he2, hn2⟩ := (findName_eq_some_iff hok2.uniq).1 hf2
            simp only [hf2, Option.bind_some, leafOf] at h3
            by_cases hd2 : e2.isTree = true
            · simp [hd2] at h3
            · by_cases hnull2 : e2.oid == nullId
              · simp [hd2, hnull2] at h3
              · simp only [hd2, Bool.false_eq_true, if_false, hnull2, Option.some.injEq,
                  Prod.mk.injEq] at h3
                congr 1
                cases e1; cases e2
                simp_all
    -- same entries, both sorted: same list
    have hmem : ∀ x, x ∈ t1 ↔ x ∈ t2 := by
      intro x
      constructor
      · intro hx
        have := (findName_eq_some_iff hok1.uniq).2 ⟨hx, rfl⟩
        rw [hfind] at this
        exact ((findName_eq_some_iff hok2.uniq).1 this).1
      · intro hx
        have := (findName_eq_some_iff hok2.uniq).2 ⟨hx, rfl⟩
        rw [← hfind] at this
        exact ((findName_eq_some_iff hok1.uniq).1 this).1
    have hnd : ∀ {t : List Entry}, (t.map (·.name)).Nodup → t.Nodup := by
      intro t h
      exact (List.pairwise_map.1 h).imp (fun hne heq => hne (by rw [heq]))
    have hperm : t1.Perm t2 :=
      (List.perm_ext_iff_of_nodup (hnd hok1.uniq) (hnd hok2.uniq)).2 hmem
    refine List.Perm.eq_of_pairwise ?_ hok1.sorted hok2.sorted hperm
    intro a b _ _ hab hba
    rw [← entryCmp_swap a b, hab] at hba
    cases hba

end GixModel.C04
