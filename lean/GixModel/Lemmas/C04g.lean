import GixModel.Lemmas.C04f
/-
C04 helper lemmas, part g: `write` as a whole; uniqueness of the canonical tree of a file system.
-/
namespace GixModel.C04
open GixModel GixModel.Tree
open GixModel.Spec.C04 (Leaf FS)

/-- the invariant of the editor plus what is assumed of the object store it reads -/
structure InvW (hash : List Entry → Bytes) (ed : Ed) : Prop where
  inv : Inv ed
  hashed : Hashed hash ed.store
  canon : StoreCanon ed.store

theorem aget_root_only (t : List Entry) (K : Path) (hK : K ≠ []) :
    aget K ([([], t)] : Assoc Path (List Entry)) = none := by
  simp [aget, Ne.symm hK]

/-- `Editor::write()` -/
theorem write_spec {hash : List Entry → Bytes} (hh : HashOk hash) {ed : Ed} (h : InvW hash ed) :
    ∃ calls ed' root, write hash ed = .ok (hash root) calls ed' ∧ InvW hash ed' ∧
      aget (hash root) ed'.store = some root ∧ Canon ed'.store root ∧
      (∀ q, absStore ed'.store root q = abs ed q) ∧ (∀ q, abs ed' q = abs ed q) ∧
      StoreMono ed.store ed'.store := by
  have hinv := h.inv
  cases hroot : aget [] ed.trees with
  | none => have := hinv.root; simp [hroot] at this
  | some root0 =>
    -- the snapshot: the cache without the root, the store as it is
    have hcache : ∀ K, K ≠ [] → aget K (aerase [] ed.trees) = aget K ed.trees :=
      fun K hK => aget_aerase_ne _ hK
    have hres : ∀ K oid, K ≠ [] →
        resolve ⟨aerase [] ed.trees, ed.store, []⟩ K oid = resolve ed K oid := by
      intro K oid hK
      simp only [resolve, hcache K hK]
    have hsnap : Snap hash (aerase [] ed.trees) ed.store := by
      refine ⟨?_, ?_, ?_, hinv.store, h.hashed, h.canon⟩
      · intro K t hK
        by_cases h0 : K = []
        · subst h0; rw [aget_aerase_self] at hK; cases hK
        · rw [hcache K h0] at hK; exact hinv.trees K t hK
      · intro K t hK e he hd
        by_cases h0 : K = []
        · subst h0; rw [aget_aerase_self] at hK; cases hK
        · rw [hcache K h0] at hK
          rw [hres _ _ (by simp)]
          exact hinv.closed K t hK e he hd
      · intro K hK hnone K' hpre
        have hK' : K' ≠ [] := by
          intro h0; subst h0
          exact hK (List.prefix_nil.1 hpre)
        rw [hcache K hK] at hnone
        rw [hcache K' hK']
        cases hc : aget K' ed.trees with
        | none => rfl
        | some t' =>
          obtain ⟨S, rfl⟩ := hpre
          have := cached_prefix hinv S.length S K t' rfl hc
          simp [hnone] at this
    have hpre : WPre hash (aerase [] ed.trees) ed.store ⟨aerase [] ed.trees, ed.store, 0⟩ [] root0 := by
      refine ⟨fun _ _ _ => rfl, StoreMono.refl _, hinv.store, h.hashed, h.canon, hinv.trees _ _ hroot, ?_⟩
      intro e he hd
      rw [hres _ _ (by simp)]
      exact hinv.closed [] root0 hroot e he hd
    have hpost := writeTree_spec hh hsnap ((aerase [] ed.trees).length + 1) _ _ _ hpre
      (Nat.lt_succ_self _)
    generalize hr : writeTree hash ((aerase [] ed.trees).length + 1) ⟨aerase [] ed.trees, ed.store, 0⟩ [] root0 = r at hpost
    have hm1 := storeMono_aset hh hpost.hashed r.2
    have hw : write hash ed = .ok (hash r.2) (r.1.calls + 1)
        { ed with pathBuf := [], trees := [([], r.2)], store := aset (hash r.2) r.2 r.1.store } := by
      simp [write, writeAt, hroot, hr]
    have hok' := storeOk_aset hh hpost.hashed hpost.storeOk hpost.tree hpost.closed
    have hinv' : Inv { ed with pathBuf := [], trees := [([], r.2)], store := aset (hash r.2) r.2 r.1.store } := by
      refine ⟨by simp [aget], ?_, ?_, ?_, hok'⟩
      · intro K t hK
        by_cases h0 : K = []
        · subst h0
          simp only [aget, if_true, Option.some.injEq] at hK
          subst hK; exact hpost.tree
        · rw [aget_root_only _ _ h0] at hK; cases hK
      · intro K n t hK
        rw [aget_root_only _ _ (by simp)] at hK; cases hK
      · intro K t hK e he hd
        by_cases h0 : K = []
        · subst h0
          simp only [aget, if_true, Option.some.injEq] at hK
          subst hK
          have := (hpost.closed.mono hm1) e he hd
          simp only [resolve]
          rw [aget_root_only _ _ (by simp)]
          by_cases hE : e.oid == emptyTreeId
          · simp [hE]
          · simpa [hE] using this
        · rw [aget_root_only _ _ h0] at hK; cases hK
    have hcanon' : StoreCanon (aset (hash r.2) r.2 r.1.store) :=
      storeCanon_aset hh hpost.hashed hpost.allCanon hpost.canon
    have hsem : ∀ q, lookupIn (storeEd (aset (hash r.2) r.2 r.1.store)) r.2 [] q = abs ed q := by
      intro q
      rw [lookup_store_mono hpost.storeOk hm1 q r.2 [] hpost.closed, hpost.sem q]
      simp only [abs, hroot]
      apply lookupIn_congr (ed := ed) (ed' := ⟨aerase [] ed.trees, ed.store, []⟩) rfl
      intro K _ hK
      exact hcache K hK
    refine ⟨r.1.calls + 1, _, r.2, hw, ⟨hinv', hashed_aset hpost.hashed r.2, hcanon'⟩,
      aget_aset_self _ _ _, hpost.canon.mono hm1, hsem, ?_, hpost.mono.trans hm1⟩
    intro q
    rw [← hsem q]
    simp only [abs, aget, if_true]
    apply lookupIn_congr
      (ed := storeEd (aset (hash r.2) r.2 r.1.store))
      (ed' := { ed with pathBuf := [], trees := [([], r.2)], store := aset (hash r.2) r.2 r.1.store }) rfl
    intro K _ hK
    rw [aget_root_only _ _ hK]
    simp [storeEd, aget]

/-! ### one file system, one canonical tree -/

theorem child_nonempty {hash : List Entry → Bytes} (hh : HashOk hash)
    {S : Assoc Bytes (List Entry)} (hS : Hashed hash S) {t : List Entry} (ht : TreeOk t) {e : Entry}
    (he : e ∈ t) (hd : e.isTree = true) {t' : List Entry} (hc : aget e.oid S = some t') : t' ≠ [] := by
  intro h0
  subst h0
  have := hS _ _ hc
  rw [hh.empty] at this
  exact (ht.good e he hd).1 this.symm

theorem absStore_cons_dir {S : Assoc Bytes (List Entry)} {t t' : List Entry} {e : Entry} {n : Bytes}
    (hf : findName t n = some e) (hd : e.isTree = true) (hne : e.oid ≠ emptyTreeId)
    (hc : aget e.oid S = some t') {qs : Path} (hq : qs ≠ []) :
    absStore S t (n :: qs) = absStore S t' qs := by
  unfold absStore
  have hE : (e.oid == emptyTreeId) = false := by
    cases h : e.oid == emptyTreeId with
    | false => rfl
    | true => exact absurd (by simpa using h) hne
  have hr : resolve (storeEd S) ([] ++ [n]) e.oid = some t' := by
    rw [resolve_storeEd]; simp [hE, hc]
  rw [lookupIn_cons_dir hf hd hr hq]
  exact lookup_store_path S qs t' _ _

/-- a non-empty canonical tree holds at least one leaf -/
theorem canon_has_leaf {hash : List Entry → Bytes} (hh : HashOk hash)
    {S : Assoc Bytes (List Entry)} (hS : Hashed hash S) {t : List Entry} (hc : Canon S t) :
    t ≠ [] → ∃ q, (absStore S t q).isSome = true := by
  induction hc with
  | mk t htok hnn hcl _ ih =>
    intro hne
    cases t with
    | nil => exact absurd rfl hne
    | cons e rest =>
      have hfe : findName (e :: rest) e.name = some e := by rw [findName_cons]; simp
      by_cases hd : e.isTree = true
      · have hsome := hcl e (by simp) hd
        cases hs : aget e.oid S with
        | none => simp [hs] at hsome
        | some t' =>
          have hne' := child_nonempty hh hS htok (by simp) hd hs
          obtain ⟨q', hq'⟩ := ih e (by simp) hd t' hs hne'
          have hqne : q' ≠ [] := by
            intro h0; subst h0; simp [absStore, lookupIn] at hq'
          refine ⟨e.name :: q', ?_⟩
          rw [absStore_cons_dir hfe hd (htok.good e (by simp) hd).1 hs hqne]
          exact hq'
      · refine ⟨[e.name], ?_⟩
        have hd' : e.isTree = false := by cases h : e.isTree <;> simp_all
        have hn : (e.oid == nullId) = false := by
          cases h : e.oid == nullId with
          | false => rfl
          | true => exact absurd (by simpa using h) (hnn e (by simp))
        simp [absStore, lookupIn, hfe, leafOf, hd', hn]

/-- if looking up `n :: qs` (`qs ≠ []`) succeeds, `n` is a directory entry whose tree is stored -/
theorem absStore_some_dir {S : Assoc Bytes (List Entry)} {t : List Entry} {n : Bytes} {qs : Path}
    (hq : qs ≠ []) (h : (absStore S t (n :: qs)).isSome = true) :
    ∃ e, findName t n = some e ∧ e.isTree = true := by
  cases qs with
  | nil => exact absurd rfl hq
  | cons m rest =>
    simp only [absStore, lookupIn] at h
    cases hf : findName t n with
    | none => simp [hf] at h
    | some e =>
      by_cases hd : e.isTree = true
      · exact ⟨e, rfl, hd⟩
      · simp [hf, hd] at h

theorem canon_unique {hash : List Entry → Bytes} (hh : HashOk hash)
    {S1 S2 : Assoc Bytes (List Entry)} (h1 : Hashed hash S1) (h2 : Hashed hash S2)
    {t1 : List Entry} (c1 : Canon S1 t1) :
    ∀ {t2 : List Entry}, Canon S2 t2 → (∀ q, absStore S1 t1 q = absStore S2 t2 q) → t1 = t2 := by
  induction c1 with
  | mk t1 hok1 hnn1 hcl1 hch1 ih =>
    intro t2 c2 heq
    have hok2 := c2.treeOk
    -- the two trees hold the same entry under every name
    have hfind : ∀ n, findName t1 n = findName t2 n := by
      intro n
      cases hf1 : findName t1 n with
      | none =>
        cases hf2 : findName t2 n with
        | none => rfl
        | some e2 =>
          exfalso
          obtain ⟨he2, hn2⟩ := (findName_eq_some_iff hok2.uniq).1 hf2
          by_cases hd : e2.isTree = true
          · have hsome := c2.closed e2 he2 hd
            cases hs : aget e2.oid S2 with
            | none => simp [hs] at hsome
            | some t2' =>
              obtain ⟨q', hq'⟩ := canon_has_leaf hh h2 (c2.child e2 he2 hd t2' hs)
                (child_nonempty hh h2 hok2 he2 hd hs)
              have hqne : q' ≠ [] := by intro h0; subst h0; simp [absStore, lookupIn] at hq'
              have := heq (n :: q')
              rw [absStore_cons_dir hf2 hd (hok2.good e2 he2 hd).1 hs hqne] at this
              rw [← this] at hq'
              obtain ⟨e1, hfe1, _⟩ := absStore_some_dir hqne hq'
              rw [hf1] at hfe1; cases hfe1
          · have hd' : e2.isTree = false := by cases h : e2.isTree <;> simp_all
            have hn : (e2.oid == nullId) = false := by
              cases h : e2.oid == nullId with
              | false => rfl
              | true => exact absurd (by simpa using h) (c2.nonnull e2 he2)
            have := heq [n]
            simp [absStore, lookupIn, hf1, hf2, leafOf, hd', hn] at this
      | some e1 =>
        obtain ⟨he1, hn1⟩ := (findName_eq_some_iff hok1.uniq).1 hf1
        by_cases hd : e1.isTree = true
        · have hsome := hcl1 e1 he1 hd
          cases hs : aget e1.oid S1 with
          | none => simp [hs] at hsome
          | some t1' =>
            have hne1 := child_nonempty hh h1 hok1 he1 hd hs
            obtain ⟨q', hq'⟩ := canon_has_leaf hh h1 (hch1 e1 he1 hd t1' hs) hne1
            have hqne : q' ≠ [] := by intro h0; subst h0; simp [absStore, lookupIn] at hq'
            have hq2 := heq (n :: q')
            rw [absStore_cons_dir hf1 hd (hok1.good e1 he1 hd).1 hs hqne] at hq2
            rw [hq2] at hq'
            obtain ⟨e2, hf2, hd2⟩ := absStore_some_dir hqne hq'
            obtain ⟨he2, hn2⟩ := (findName_eq_some_iff hok2.uniq).1 hf2
            have hsome2 := c2.closed e2 he2 hd2
            cases hs2 : aget e2.oid S2 with
            | none => simp [hs2] at hsome2
            | some t2' =>
              have hchild : ∀ r, absStore S1 t1' r = absStore S2 t2' r := by
                intro r
                cases r with
                | nil => rfl
                | cons m rest =>
                  have := heq (n :: m :: rest)
                  rwa [absStore_cons_dir hf1 hd (hok1.good e1 he1 hd).1 hs (by simp),
                    absStore_cons_dir hf2 hd2 (hok2.good e2 he2 hd2).1 hs2 (by simp)] at this
              have htt := ih e1 he1 hd t1' hs (c2.child e2 he2 hd2 t2' hs2) hchild
              subst htt
              have ho : e1.oid = e2.oid := (h1 _ _ hs).symm.trans (h2 _ _ hs2)
              have hm : e1.mode = e2.mode := by
                rw [(hok1.good e1 he1 hd).2, (hok2.good e2 he2 hd2).2]
              rw [hf2]
              congr 1
              cases e1; cases e2
              simp_all
        · have hd' : e1.isTree = false := by cases h : e1.isTree <;> simp_all
          have hn : (e1.oid == nullId) = false := by
            cases h : e1.oid == nullId with
            | false => rfl
            | true => exact absurd (by simpa using h) (hnn1 e1 he1)
          have h3 := heq [n]
          simp only [absStore, lookupIn, hf1, Option.bind_some, leafOf, hd', Bool.false_eq_true,
            if_false, hn] at h3
          cases hf2 : findName t2 n with
          | none => simp [hf2] at h3
          | some e2 =>
            obtain ⟨he2, hn2⟩ := (findName_eq_some_iff hok2.uniq).1 hf2
            simp only [hf2, Option.bind_some, leafOf] at h3
            by_cases hd2 : e2.isTree = true
            · simp [hd2] at h3
            · by_cases hnull2 : e2.oid == nullId
              · simp [hd2, hnull2] at h3
              · simp only [hd2, Bool.false_eq_true, if_false, hnull2, Option.some.injEq,
                  Prod.mk.injEq] at h3
                congr 1
                cases e1; cases e2
                simp_all
    -- same entries, both sorted: same list
    have hmem : ∀ x, x ∈ t1 ↔ x ∈ t2 := by
      intro x
      constructor
      · intro hx
        have := (findName_eq_some_iff hok1.uniq).2 ⟨hx, rfl⟩
        rw [hfind] at this
        exact ((findName_eq_some_iff hok2.uniq).1 this).1
      · intro hx
        have := (findName_eq_some_iff hok2.uniq).2 ⟨hx, rfl⟩
        rw [← hfind] at this
        exact ((findName_eq_some_iff hok1.uniq).1 this).1
    have hnd : ∀ {t : List Entry}, (t.map (·.name)).Nodup → t.Nodup := by
      intro t h
      exact (List.pairwise_map.1 h).imp (fun hne heq => hne (by rw [heq]))
    have hperm : t1.Perm t2 :=
      (List.perm_ext_iff_of_nodup (hnd hok1.uniq) (hnd hok2.uniq)).2 hmem
    refine List.Perm.eq_of_pairwise ?_ hok1.sorted hok2.sorted hperm
    intro a b _ _ hab hba
    rw [← entryCmp_swap a b, hab] at hba
    cases hba

end GixModel.C04
