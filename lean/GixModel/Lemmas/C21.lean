import GixModel.Model.C21
/-
C21 — helper lemmas: byte search, line splitting, and the invariant of the sliding-window
reverse reader (`Inv`) with its single-step lemma (`next_good`).
-/
namespace GixModel.C21
open GixModel

/-! ### `rfind_byte` / `find_byte` -/

theorem rfindByte_none {c : UInt8} : ∀ {l : Bytes}, rfindByte c l = none ↔ c ∉ l := by
  intro l
  induction l with
  | nil => simp [rfindByte]
  | cons b rest ih =>
    unfold rfindByte
    cases h : rfindByte c rest with
    | some i =>
      simp
      intro _
      apply Classical.byContradiction
      intro hc
      have := ih.2 hc
      simp [h] at this
    | none =>
      have := ih.1 h
      by_cases hb : b = c
      · simp [hb]
      · simp [hb, this]; exact fun h => hb h.symm

theorem rfindByte_some {c : UInt8} : ∀ {l : Bytes} {i : Nat}, rfindByte c l = some i →
    ∃ a b, l = a ++ c :: b ∧ a.length = i ∧ c ∉ b := by
  intro l
  induction l with
  | nil => intro i h; simp [rfindByte] at h
  | cons x rest ih =>
    intro i h
    unfold rfindByte at h
    cases hr : rfindByte c rest with
    | some j =>
      simp only [hr, Option.some.injEq] at h
      obtain ⟨a, b, hab, hlen, hnot⟩ := ih hr
      exact ⟨x :: a, b, by simp [hab], by simp [hlen, h], hnot⟩
    | none =>
      simp only [hr] at h
      by_cases hx : x = c
      · simp only [hx, if_true, Option.some.injEq] at h
        exact ⟨[], rest, by simp [hx], by simp [← h], rfindByte_none.1 hr⟩
      · simp [hx] at h

theorem findByte_none {c : UInt8} : ∀ {l : Bytes}, findByte c l = none ↔ c ∉ l := by
  intro l
  induction l with
  | nil => simp [findByte]
  | cons b rest ih =>
    unfold findByte
    by_cases hb : b = c
    · simp [hb]
    · simp only [hb, if_false]
      cases h : findByte c rest with
      | some i =>
        simp
        intro _
        apply Classical.byContradiction
        intro hc
        have := ih.2 hc
        simp [h] at this
      | none =>
        have := ih.1 h
        simp [this]; exact fun h => hb h.symm

theorem findByte_some {c : UInt8} : ∀ {l : Bytes} {i : Nat}, findByte c l = some i →
    ∃ a b, l = a ++ c :: b ∧ a.length = i ∧ c ∉ a := by
  intro l
  induction l with
  | nil => intro i h; simp [findByte] at h
  | cons x rest ih =>
    intro i h
    unfold findByte at h
    by_cases hx : x = c
    · simp only [hx, if_true, Option.some.injEq] at h
      exact ⟨[], rest, by simp [hx], by simp [← h], by simp⟩
    · simp only [hx, if_false] at h
      cases hr : findByte c rest with
      | none => simp [hr] at h
      | some j =>
        simp only [hr, Option.some.injEq] at h
        obtain ⟨a, b, hab, hlen, hnot⟩ := ih hr
        refine ⟨x :: a, b, by simp [hab], by simp [hlen, h], ?_⟩
        simp only [List.mem_cons, not_or]
        exact ⟨fun h => hx h.symm, hnot⟩

/-- the first occurrence: a prefix without `c`, then `c` -/
theorem findByte_append {c : UInt8} {a b : Bytes} (ha : c ∉ a) :
    findByte c (a ++ c :: b) = some a.length := by
  induction a with
  | nil => simp [findByte]
  | cons x a ih =>
    simp only [List.mem_cons, not_or] at ha
    have hx : ¬ x = c := fun h => ha.1 h.symm
    simp only [List.cons_append, findByte, hx, if_false, ih ha.2, List.length_cons]

/-- the last occurrence: `c`, then a suffix without `c` -/
theorem rfindByte_append {c : UInt8} {a b : Bytes} (hb : c ∉ b) :
    rfindByte c (a ++ c :: b) = some a.length := by
  induction a with
  | nil =>
    simp only [List.nil_append, rfindByte, rfindByte_none.2 hb, if_true, List.length_nil]
  | cons x a ih =>
    simp only [List.cons_append, rfindByte, ih, List.length_cons]

/-! ### splitting at newlines -/

/-- the lines, last line first, glued back with single newlines between them -/
def content : List Bytes → Bytes
  | [] => []
  | [l] => l
  | l :: l' :: rest => content (l' :: rest) ++ 10 :: l

/-- the same for lines in file order -/
def joinNl : List Bytes → Bytes
  | [] => []
  | [l] => l
  | l :: l' :: rest => l ++ 10 :: joinNl (l' :: rest)

theorem nl_split_unique {a b l m : Bytes} (hl : (10 : UInt8) ∉ l) (hm : (10 : UInt8) ∉ m)
    (h : a ++ 10 :: l = b ++ 10 :: m) : a = b ∧ l = m := by
  rcases List.append_eq_append_iff.1 h with ⟨c, hb, hc⟩ | ⟨c, ha, hc⟩
  · cases c with
    | nil => simp at hb hc; exact ⟨hb.symm, hc⟩
    | cons x c =>
      simp only [List.cons_append, List.cons.injEq] at hc
      exact absurd (by rw [hc.2]; simp) hl
  · cases c with
    | nil => simp at ha hc; exact ⟨ha, hc.symm⟩
    | cons x c =>
      simp only [List.cons_append, List.cons.injEq] at hc
      exact absurd (by rw [hc.2]; simp) hm

/-- a newline-free tail of `a ++ "\n" ++ l` is a tail of `l` -/
theorem nl_free_suffix {a l y w : Bytes} (hw : (10 : UInt8) ∉ w)
    (h : a ++ 10 :: l = y ++ w) : ∃ t, l = t ++ w ∧ y = a ++ 10 :: t := by
  rcases List.append_eq_append_iff.1 h with ⟨c, hy, hc⟩ | ⟨c, ha, hc⟩
  · cases c with
    | nil =>
      simp only [List.nil_append] at hc
      exact absurd (by rw [← hc]; simp) hw
    | cons x c =>
      simp only [List.cons_append, List.cons.injEq] at hc
      exact ⟨c, hc.2, by rw [hy, hc.1]⟩
  · exact absurd (by rw [hc]; simp) hw

theorem content_single_free {l : Bytes} : content [l] = l := rfl

theorem content_cons2 {l l' : Bytes} {rest : List Bytes} :
    content (l :: l' :: rest) = content (l' :: rest) ++ 10 :: l := rfl

theorem content_has_nl {l : Bytes} {rest : List Bytes} (h : rest ≠ []) :
    (10 : UInt8) ∈ content (l :: rest) := by
  cases rest with
  | nil => exact absurd rfl h
  | cons l' r => simp [content_cons2]

theorem joinNl_snoc (xs : List Bytes) (l : Bytes) :
    joinNl (xs ++ [l]) = if xs = [] then l else joinNl xs ++ 10 :: l := by
  induction xs with
  | nil => simp [joinNl]
  | cons x xs ih =>
    cases xs with
    | nil => simp [joinNl]
    | cons y ys =>
      simp only [List.cons_append] at ih ⊢
      have : joinNl (x :: y :: (ys ++ [l])) = x ++ 10 :: joinNl (y :: (ys ++ [l])) := by
        simp [joinNl]
      rw [this, ih]
      simp [joinNl]

theorem content_eq_joinNl (rl : List Bytes) : content rl = joinNl rl.reverse := by
  induction rl with
  | nil => rfl
  | cons l rest ih =>
    cases rest with
    | nil => simp [content, joinNl]
    | cons l' r =>
      rw [content_cons2, ih, List.reverse_cons (a := l), joinNl_snoc]
      simp

theorem joinNl_cons_cons (b : UInt8) (l : Bytes) (ls : List Bytes) :
    joinNl ((b :: l) :: ls) = b :: joinNl (l :: ls) := by
  cases ls with
  | nil => rfl
  | cons l' r => simp [joinNl]

/-- one trailing newline, if the file ends with one -/
def trail (file : Bytes) : Bytes := if file.getLast? = some 10 then [10] else []

theorem splitLines_ne_nil {file : Bytes} (h : file ≠ []) : splitLines file ≠ [] := by
  cases file with
  | nil => exact absurd rfl h
  | cons b rest =>
    unfold splitLines
    by_cases hb : b = 10
    · simp [hb]
    · simp only [hb, if_false]
      cases splitLines rest <;> simp

theorem trail_cons {b : UInt8} {rest : Bytes} (h : rest ≠ []) : trail (b :: rest) = trail rest := by
  unfold trail
  cases rest with
  | nil => exact absurd rfl h
  | cons c r => simp [List.getLast?_cons_cons]

theorem splitLines_join : ∀ file : Bytes, joinNl (splitLines file) ++ trail file = file := by
  intro file
  induction file with
  | nil => simp [splitLines, joinNl, trail]
  | cons b rest ih =>
    unfold splitLines
    by_cases hrest : rest = []
    · subst hrest
      by_cases hb : b = 10
      · simp [hb, splitLines, joinNl, trail]
      · simp [hb, splitLines, joinNl, trail]
    · have hne := splitLines_ne_nil hrest
      rw [trail_cons hrest]
      by_cases hb : b = 10
      · simp only [hb, if_true]
        cases hs : splitLines rest with
        | nil => exact absurd hs hne
        | cons l ls =>
          rw [hs] at ih
          simp only [joinNl, List.nil_append, List.cons_append]
          rw [ih]
      · simp only [hb, if_false]
        cases hs : splitLines rest with
        | nil => exact absurd hs hne
        | cons l ls =>
          rw [hs] at ih
          simp only [joinNl_cons_cons, List.cons_append]
          rw [ih]

theorem splitLines_nlfree : ∀ (file : Bytes) (l : Bytes), l ∈ splitLines file → (10 : UInt8) ∉ l := by
  intro file
  induction file with
  | nil => intro l h; simp [splitLines] at h
  | cons b rest ih =>
    intro l h
    unfold splitLines at h
    by_cases hb : b = 10
    · simp only [hb, if_true, List.mem_cons] at h
      rcases h with h | h
      · subst h; simp
      · exact ih l h
    · simp only [hb, if_false] at h
      cases hs : splitLines rest with
      | nil =>
        simp only [hs, List.mem_singleton] at h
        subst h
        simp only [List.mem_singleton]
        exact fun h => hb h.symm
      | cons l' ls =>
        simp only [hs, List.mem_cons] at h
        rcases h with h | h
        · subst h
          have := ih l' (by simp [hs])
          simp only [List.mem_cons, not_or]
          exact ⟨fun h => hb h.symm, this⟩
        · exact ih l (by simp [hs, h])

/-- a concatenation of newline-terminated, newline-free lines splits back into those lines -/
theorem splitLines_terminated : ∀ (ls : List Bytes), (∀ l ∈ ls, (10 : UInt8) ∉ l) →
    splitLines (ls.flatMap (· ++ [10])) = ls := by
  intro ls
  induction ls with
  | nil => intro _; rfl
  | cons l ls ih =>
    intro h
    have hl := h l (by simp)
    have ih' := ih (fun x hx => h x (by simp [hx]))
    simp only [List.flatMap_cons]
    generalize hrest : ls.flatMap (· ++ [10]) = restb at ih'
    clear hrest
    induction l with
    | nil => simp [splitLines, ih']
    | cons b l ihl =>
      simp only [List.mem_cons, not_or] at hl
      have hb : ¬ b = 10 := fun h => hl.1 h.symm
      have := ihl (fun x hx => by
        rcases List.mem_cons.1 hx with hx | hx
        · subst hx; exact hl.2
        · exact h x (by simp [hx])) hl.2
      simp only [List.cons_append, List.append_assoc] at this ⊢
      rw [splitLines]
      simp only [hb, if_false]
      rw [this]

/-- … and a last line without newline is a line as well -/
theorem splitLines_unterminated (ls : List Bytes) (last : Bytes) (h : ∀ l ∈ ls, (10 : UInt8) ∉ l)
    (hlast : (10 : UInt8) ∉ last) (hne : last ≠ []) :
    splitLines (ls.flatMap (· ++ [10]) ++ last) = ls ++ [last] := by
  have hlastsplit : splitLines last = [last] := by
    clear h
    induction last with
    | nil => exact absurd rfl hne
    | cons b l ihl =>
      simp only [List.mem_cons, not_or] at hlast
      have hb : ¬ b = 10 := fun h => hlast.1 h.symm
      rw [splitLines]
      simp only [hb, if_false]
      by_cases hl : l = []
      · subst hl; simp [splitLines]
      · rw [ihl hlast.2 hl]
  induction ls with
  | nil => simpa using hlastsplit
  | cons l ls ih =>
    have hl := h l (by simp)
    have ih' := ih (fun x hx => h x (by simp [hx]))
    simp only [List.flatMap_cons, List.cons_append]
    generalize hrest : ls.flatMap (· ++ [10]) ++ last = restb at ih'
    have : (l ++ [10] ++ ls.flatMap (· ++ [10])) ++ last = l ++ 10 :: restb := by
      simp [← hrest]
    rw [this]
    clear hrest this
    induction l with
    | nil => simp [splitLines, ih']
    | cons b l ihl =>
      simp only [List.mem_cons, not_or] at hl
      have hb : ¬ b = 10 := fun h => hl.1 h.symm
      have := ihl (fun x hx => by
        rcases List.mem_cons.1 hx with hx | hx
        · subst hx; exact hl.2
        · exact h x (by simp [hx])) hl.2
      simp only [List.cons_append] at this ⊢
      rw [splitLines]
      simp only [hb, if_false]
      rw [this]

/-! ### what the reverse iterator must yield -/

/-- lines (last line first) that fit the window are yielded with a running count; the first
line that does not fit ends the iteration with one `buffer too small` error -/
def expected (B : Nat) : Nat → List Bytes → List Item
  | _, [] => []
  | c, l :: rest => if l.length ≤ B then .raw l c :: expected B (c + 1) rest else [.ioSmall]

/-- all of `rl` as raw items, counting from `c` -/
def rawFrom : Nat → List Bytes → List Item
  | _, [] => []
  | c, l :: rest => .raw l c :: rawFrom (c + 1) rest

theorem expected_all_fit (B : Nat) : ∀ (c : Nat) (rl : List Bytes), (∀ l ∈ rl, l.length ≤ B) →
    expected B c rl = rawFrom c rl := by
  intro c rl
  induction rl generalizing c with
  | nil => intro _; rfl
  | cons l rest ih =>
    intro h
    have hl := h l (by simp)
    simp only [expected, hl, if_true, rawFrom]
    rw [ih (c + 1) (fun x hx => h x (by simp [hx]))]

/-- the general shape: the fitting prefix, then one error iff some line does not fit -/
theorem expected_shape (B : Nat) : ∀ (c : Nat) (rl : List Bytes),
    expected B c rl = rawFrom c (rl.takeWhile (·.length ≤ B))
      ++ (if rl.all (·.length ≤ B) then [] else [.ioSmall]) := by
  intro c rl
  induction rl generalizing c with
  | nil => rfl
  | cons l rest ih =>
    by_cases hl : l.length ≤ B
    · simp only [expected, hl, if_true, List.takeWhile_cons, decide_true, rawFrom, List.all_cons,
        Bool.true_and, List.cons_append]
      rw [ih (c + 1)]
    · simp [expected, hl, rawFrom]

/-! ### the invariant of the sliding window -/

/-- The state `s` is "between two lines": `rl` (last first, non-empty in every use) are the lines
still to be yielded; the file is `pre ++ w ++ post` where `pre ++ w` is exactly those lines, `w`
(`e` bytes) is what the window holds of them, and `rp = |pre|` is the position of the window. -/
structure Inv (file : Bytes) (B : Nat) (s : Rev) (rl : List Bytes) (e rp : Nat)
    (pre w tail post : Bytes) : Prop where
  hnl : s.lastNl = some e
  hrp : s.readPos = some rp
  hB : s.buf.length = B
  hfree : ∀ l ∈ rl, (10 : UInt8) ∉ l
  hfile : file = pre ++ w ++ post
  hpre : pre.length = rp
  hw : w.length = e
  hbuf : s.buf = w ++ tail
  hcontent : pre ++ w = content rl

/-- What one call of `next` must achieve in a state whose next line is `l`. -/
def Good (file : Bytes) (B c : Nat) (l : Bytes) (rest : List Bytes) (r : Option Item × Rev) : Prop :=
  if l.length ≤ B then
    r.1 = some (.raw l c) ∧
      (match rest with
       | [] => r.2.lastNl = none ∧ r.2.readPos = none
       | _ :: _ => r.2.count = c + 1 ∧ ∃ e rp pre w tail post, Inv file B r.2 rest e rp pre w tail post)
  else r.1 = some .ioSmall ∧ r.2.lastNl = none ∧ r.2.readPos = none

theorem readExact_mid (a d c : Bytes) : readExact (a ++ d ++ c) a.length d.length = some d := by
  unfold readExact
  have : a.length + d.length ≤ (a ++ d ++ c).length := by simp
  rw [if_pos this, List.append_assoc, List.drop_left, List.take_left]

/-! ### one step of `next` from a state satisfying the invariant -/

theorem Inv.le {file B s rl e rp pre w tail post} (h : Inv file B s rl e rp pre w tail post) : e ≤ B := by
  have := h.hB
  rw [h.hbuf, List.length_append, h.hw] at this
  omega

theorem Inv.take {file B s rl e rp pre w tail post} (h : Inv file B s rl e rp pre w tail post) :
    s.buf.take e = w := by
  rw [h.hbuf]; exact List.take_left' h.hw

theorem next_found {file : Bytes} {B : Nat} {s : Rev} {l : Bytes} {rest : List Bytes} {e rp : Nat}
    {pre w tail post : Bytes} (h : Inv file B s (l :: rest) e rp pre w tail post)
    (hnl : (10 : UInt8) ∈ w) (f : Nat) : Good file B s.count l rest (next file (f + 1) s) := by
  have hle := h.le
  have htake := h.take
  cases hr : rfindByte 10 w with
  | none => exact absurd hnl (rfindByte_none.1 hr)
  | some start =>
    obtain ⟨a, b, hab, hlen, hnot⟩ := rfindByte_some hr
    have hl := h.hfree l (by simp)
    cases rest with
    | nil =>
      have hc := h.hcontent
      simp only [content] at hc
      exact absurd (by rw [← hc]; simp [hnl]) hl
    | cons l' r =>
      have hc := h.hcontent
      rw [content_cons2, hab, ← List.append_assoc] at hc
      obtain ⟨h1, h2⟩ := nl_split_unique hnot hl hc
      subst h2
      have hblen : b.length ≤ B := by
        have := h.hw; rw [hab] at this; simp at this; omega
      rw [next]
      simp only [h.hnl, h.hrp, htake, hr]
      have hnot_lt : ¬ s.buf.length < e := by rw [h.hB]; omega
      rw [if_neg hnot_lt]
      have hdrop : w.drop (start + 1) = b := by
        rw [hab, ← hlen]
        have : a ++ 10 :: b = (a ++ [10]) ++ b := by simp
        rw [this]
        exact List.drop_left' (by simp)
      unfold Good
      rw [if_pos hblen, hdrop]
      refine ⟨rfl, rfl, start, rp, pre, a, 10 :: b ++ tail, 10 :: b ++ post, ?_⟩
      exact {
        hnl := rfl
        hrp := rfl
        hB := h.hB
        hfree := fun x hx => h.hfree x (by simp [hx])
        hfile := by rw [h.hfile, hab]; simp
        hpre := h.hpre
        hw := hlen
        hbuf := by show s.buf = _; rw [h.hbuf, hab]; simp
        hcontent := h1 }


theorem next_first {file : Bytes} {B : Nat} {s : Rev} {l : Bytes} {rest : List Bytes} {e rp : Nat}
    {pre w tail post : Bytes} (h : Inv file B s (l :: rest) e rp pre w tail post)
    (hnl : (10 : UInt8) ∉ w) (hrp0 : rp = 0) (f : Nat) :
    Good file B s.count l rest (next file (f + 1) s) := by
  have hle := h.le
  have htake := h.take
  have hpre : pre = [] := List.eq_nil_of_length_eq_zero (by rw [h.hpre, hrp0])
  have hc := h.hcontent
  rw [hpre, List.nil_append] at hc
  cases rest with
  | cons l' r => exact absurd (by rw [hc]; exact content_has_nl (by simp)) hnl
  | nil =>
    simp only [content] at hc
    subst hc
    have hnot_lt : ¬ s.buf.length < e := by rw [h.hB]; omega
    rw [next]
    simp only [h.hnl, h.hrp, htake, rfindByte_none.2 hnl, hrp0, if_true]
    rw [if_neg hnot_lt]
    unfold Good
    rw [if_pos (by rw [h.hw]; exact hle)]
    exact ⟨rfl, rfl, rfl⟩

theorem next_full {file : Bytes} {B : Nat} {s : Rev} {l : Bytes} {rest : List Bytes} {e rp : Nat}
    {pre w tail post : Bytes} (h : Inv file B s (l :: rest) e rp pre w tail post)
    (hnl : (10 : UInt8) ∉ w) (hrp0 : rp ≠ 0) (heB : e = B) (f : Nat) :
    Good file B s.count l rest (next file (f + 1) s) := by
  have htake := h.take
  have hl := h.hfree l (by simp)
  have hprene : pre ≠ [] := by
    intro hp; rw [hp] at h; exact hrp0 (by rw [← h.hpre]; rfl)
  obtain ⟨pre', x, hpx⟩ : ∃ pre' x, pre = pre' ++ [x] :=
    ⟨pre.dropLast, pre.getLast hprene, (List.dropLast_concat_getLast hprene).symm⟩
  have hplen : pre'.length = rp - 1 := by
    have := h.hpre; rw [hpx] at this; simp at this; omega
  have hread : readExact file (rp - 1) 1 = some [x] := by
    rw [h.hfile, hpx, ← hplen]
    have : pre' ++ [x] ++ w ++ post = pre' ++ [x] ++ (w ++ post) := by simp
    rw [this]
    exact readExact_mid pre' [x] (w ++ post)
  have hnot_lt : ¬ s.buf.length < e := by rw [h.hB]; omega
  have hnpos : rp - (s.buf.length - e) = rp := by rw [h.hB, heB]; omega
  rw [next]
  simp only [h.hnl, h.hrp, htake, rfindByte_none.2 hnl, hrp0, if_false, hnpos, if_true, hread]
  rw [if_neg hnot_lt]
  have hc := h.hcontent
  by_cases hx : x = 10
  · subst hx
    simp only [if_true]
    rw [hpx, List.append_assoc, List.singleton_append] at hc
    cases rest with
    | nil =>
      simp only [content] at hc
      exact absurd (by rw [← hc]; simp) hl
    | cons l' r =>
      rw [content_cons2] at hc
      obtain ⟨h1, h2⟩ := nl_split_unique hnl hl hc
      subst h2
      unfold Good
      rw [if_pos (by rw [h.hw, heB]; exact Nat.le_refl _)]
      refine ⟨rfl, rfl, 0, rp - 1, pre', [], s.buf, 10 :: w ++ post, ?_⟩
      exact {
        hnl := rfl
        hrp := rfl
        hB := h.hB
        hfree := fun y hy => h.hfree y (by simp [hy])
        hfile := by rw [h.hfile, hpx]; simp
        hpre := hplen
        hw := rfl
        hbuf := by simp
        hcontent := by simpa using h1 }
  · simp only [hx, if_false]
    have hbig : ¬ l.length ≤ B := by
      intro hlen
      cases rest with
      | nil =>
        simp only [content] at hc
        have : l.length = rp + e := by rw [← hc, List.length_append, h.hpre, h.hw]
        omega
      | cons l' r =>
        rw [content_cons2] at hc
        obtain ⟨t, ht1, ht2⟩ := nl_free_suffix hnl hc.symm
        have : t = [] := by
          have : l.length = t.length + e := by rw [ht1, List.length_append, h.hw]
          exact List.eq_nil_of_length_eq_zero (by omega)
        subst this
        rw [hpx] at ht2
        have := congrArg List.getLast? ht2
        simp at this
        exact hx this
    unfold Good
    rw [if_neg hbig]
    exact ⟨rfl, rfl, rfl⟩


theorem next_load {file : Bytes} {B : Nat} {s : Rev} {rl : List Bytes} {e rp : Nat}
    {pre w tail post : Bytes} (h : Inv file B s rl e rp pre w tail post)
    (hnl : (10 : UInt8) ∉ w) (hrp0 : rp ≠ 0) (heB : e ≠ B) (f : Nat) :
    ∃ s1 e1 rp1 pre1 w1 tail1, next file (f + 1) s = next file f s1 ∧
      Inv file B s1 rl e1 rp1 pre1 w1 tail1 post ∧ s1.count = s.count ∧ (e1 = B ∨ rp1 = 0) := by
  have hle := h.le
  have htake := h.take
  have hnot_lt : ¬ s.buf.length < e := by rw [h.hB]; omega
  -- the amount read and the new position
  let npos := rp - (B - e)
  let n := rp - npos
  have hn_pos : 0 < n := by show 0 < rp - (rp - (B - e)); omega
  have hn_le : n + e ≤ B := by show rp - (rp - (B - e)) + e ≤ B; omega
  have hnpos_ne : npos ≠ rp := by show rp - (B - e) ≠ rp; omega
  have hsum : npos + n = rp := by show rp - (B - e) + (rp - (rp - (B - e))) = rp; omega
  have hp : pre = pre.take npos ++ pre.drop npos := (List.take_append_drop npos pre).symm
  have hp1 : (pre.take npos).length = npos := by rw [List.length_take, h.hpre]; omega
  have hp2 : (pre.drop npos).length = n := by rw [List.length_drop, h.hpre]
  have hread : readExact file npos n = some (pre.drop npos) := by
    have hf : file = pre.take npos ++ pre.drop npos ++ (w ++ post) := by
      rw [← hp, h.hfile]; simp
    have := readExact_mid (pre.take npos) (pre.drop npos) (w ++ post)
    rw [hp1, hp2, ← hf] at this
    exact this
  have hnot_lt2 : ¬ s.buf.length < n + e := by rw [h.hB]; omega
  have hbuftake : (s.buf.take n).length = n := by rw [List.length_take, h.hB]; omega
  refine ⟨{ s with buf := pre.drop npos ++ (s.buf.take n ++ w ++ s.buf.drop (n + e)).drop n,
                   readPos := some npos, lastNl := some (n + e) },
          n + e, npos, pre.take npos, pre.drop npos ++ w, s.buf.drop (n + e), ?_, ?_, rfl, ?_⟩
  · rw [next]
    simp only [h.hnl, h.hrp, htake, rfindByte_none.2 hnl, hrp0, if_false, h.hB]
    rw [if_neg (by omega : ¬ B < e)]
    show (if npos = rp then _ else _) = _
    rw [if_neg hnpos_ne]
    show (if B < n + e then _ else _) = _
    rw [if_neg (by omega : ¬ B < n + e)]
    show (match readExact file npos n with | none => _ | some data => _) = _
    rw [hread]
  · exact {
      hnl := rfl
      hrp := rfl
      hB := by
        show (pre.drop npos ++ (s.buf.take n ++ w ++ s.buf.drop (n + e)).drop n).length = B
        rw [List.append_assoc, List.drop_left' hbuftake]
        simp only [List.length_append, List.length_drop, hp2, h.hw, h.hB]
        omega
      hfree := h.hfree
      hfile := by
        rw [← List.append_assoc, ← hp]; exact h.hfile
      hpre := hp1
      hw := by rw [List.length_append, hp2, h.hw]
      hbuf := by
        show pre.drop npos ++ (s.buf.take n ++ w ++ s.buf.drop (n + e)).drop n = _
        rw [List.append_assoc (s.buf.take n), List.drop_left' hbuftake]
        simp
      hcontent := by
        rw [← List.append_assoc, ← hp]; exact h.hcontent }
  · show n + e = B ∨ npos = 0
    show rp - (rp - (B - e)) + e = B ∨ rp - (B - e) = 0
    omega

theorem next_good {file : Bytes} {B : Nat} {s : Rev} {l : Bytes} {rest : List Bytes} {e rp : Nat}
    {pre w tail post : Bytes} (h : Inv file B s (l :: rest) e rp pre w tail post) (f : Nat) :
    Good file B s.count l rest (next file (f + 2) s) := by
  by_cases hnl : (10 : UInt8) ∈ w
  · exact next_found h hnl (f + 1)
  · by_cases hrp0 : rp = 0
    · exact next_first h hnl hrp0 (f + 1)
    · by_cases heB : e = B
      · exact next_full h hnl hrp0 heB (f + 1)
      · obtain ⟨s1, e1, rp1, pre1, w1, tail1, hstep, hinv, hcount, hor⟩ := next_load h hnl hrp0 heB (f + 1)
        rw [hstep, ← hcount]
        by_cases hnl1 : (10 : UInt8) ∈ w1
        · exact next_found hinv hnl1 f
        · by_cases hrp1 : rp1 = 0
          · exact next_first hinv hnl1 hrp1 f
          · have : e1 = B := by rcases hor with h | h; exact h; exact absurd h hrp1
            exact next_full hinv hnl1 hrp1 this f


/-! ### collecting -/

def collectFrom (file : Bytes) (k : Nat) : Option Item × Rev → List Item
  | (none, _) => []
  | (some it, s') => it :: collect file k s'

theorem collect_succ (file : Bytes) (k : Nat) (s : Rev) :
    collect file (k + 1) s = collectFrom file k (next file nextFuel s) := by
  rw [collect]
  cases next file nextFuel s with
  | mk a b => cases a <;> rfl

theorem next_depleted (file : Bytes) (f : Nat) (s : Rev) (h1 : s.lastNl = none) (h2 : s.readPos = none) :
    next file (f + 1) s = (none, s) := by
  rw [next]; simp only [h1, h2]

theorem collect_depleted (file : Bytes) (k : Nat) (s : Rev) (h1 : s.lastNl = none)
    (h2 : s.readPos = none) : collect file (k + 1) s = [] := by
  rw [collect_succ, nextFuel, next_depleted file 3 s h1 h2]; rfl

theorem collectFrom_good {file : Bytes} {B : Nat} : ∀ (rest : List Bytes) (l : Bytes) (c k : Nat)
    (r : Option Item × Rev), Good file B c l rest r → rest.length + 1 ≤ k →
    collectFrom file k r = expected B c (l :: rest) := by
  intro rest
  induction rest with
  | nil =>
    intro l c k r hg hk
    obtain ⟨k', rfl⟩ : ∃ k', k = k' + 1 := ⟨k - 1, by simp at hk; omega⟩
    unfold Good at hg
    by_cases hl : l.length ≤ B
    · rw [if_pos hl] at hg
      obtain ⟨h1, h2, h3⟩ := hg
      obtain ⟨r1, r2⟩ := r
      simp only at h1 h2 h3
      subst h1
      simp only [collectFrom, collect_depleted file k' r2 h2 h3, expected, hl, if_true]
    · rw [if_neg hl] at hg
      obtain ⟨h1, h2, h3⟩ := hg
      obtain ⟨r1, r2⟩ := r
      simp only at h1 h2 h3
      subst h1
      simp only [collectFrom, collect_depleted file k' r2 h2 h3, expected, hl, if_false]
  | cons l' rest' ih =>
    intro l c k r hg hk
    obtain ⟨k', rfl⟩ : ∃ k', k = k' + 1 := ⟨k - 1, by simp at hk; omega⟩
    unfold Good at hg
    by_cases hl : l.length ≤ B
    · rw [if_pos hl] at hg
      obtain ⟨h1, hcount, e, rp, pre, w, tail, post, hinv⟩ := hg
      obtain ⟨r1, r2⟩ := r
      simp only at h1 hcount hinv
      subst h1
      have hgood := next_good hinv 2
      rw [hcount] at hgood
      have := ih l' (c + 1) k' (next file nextFuel r2) hgood (by simp at hk ⊢; omega)
      show Item.raw l c :: collect file (k' + 1) r2 = _
      rw [collect_succ, this]
      conv => rhs; rw [expected, if_pos hl]
    · rw [if_neg hl] at hg
      obtain ⟨h1, h2, h3⟩ := hg
      obtain ⟨r1, r2⟩ := r
      simp only at h1 h2 h3
      subst h1
      simp only [collectFrom, collect_depleted file k' r2 h2 h3, expected, hl, if_false]

theorem splitLines_length_le : ∀ file : Bytes, (splitLines file).length ≤ file.length := by
  intro file
  induction file with
  | nil => simp [splitLines]
  | cons b rest ih =>
    unfold splitLines
    by_cases hb : b = 10
    · simp [hb]; exact ih
    · simp only [hb, if_false]
      cases hs : splitLines rest with
      | nil => simp
      | cons l ls => rw [hs] at ih; simp at ih ⊢; omega


/-- The first call of `next` on a non-empty file loads the last block and continues in a state
satisfying the invariant for all lines of the file. -/
theorem next_init {file buf : Bytes} (hb : buf ≠ []) (hfile : file ≠ []) (f : Nat) :
    ∃ s1 e rp pre w tail post, 
      next file (f + 1) { buf := buf, count := 0, readPos := some file.length, lastNl := none }
        = next file f s1 ∧
      Inv file buf.length s1 (splitLines file).reverse e rp pre w tail post ∧ s1.count = 0 := by
  let B := buf.length
  have hBpos : 0 < B := List.length_pos_iff.2 hb
  have hlen : 0 < file.length := List.length_pos_iff.2 hfile
  let npos := file.length - B
  let n := file.length - npos
  have hn_pos : n ≠ 0 := by show file.length - (file.length - B) ≠ 0; omega
  have hn_le : ¬ B < n := by show ¬ B < file.length - (file.length - B); omega
  have hsum : npos + n = file.length := by
    show file.length - B + (file.length - (file.length - B)) = file.length; omega
  let J := joinNl (splitLines file)
  have hJ : J ++ trail file = file := splitLines_join file
  have hread : readExact file npos n = some (file.drop npos) := by
    unfold readExact
    rw [if_pos (by omega)]
    rw [List.take_of_length_le (by rw [List.length_drop]; omega)]
  have htrail_len : (trail file).length ≤ 1 := by unfold trail; split <;> simp
  have hJlen : J.length + (trail file).length = file.length := by
    rw [← List.length_append, hJ]
  have hnposJ : npos ≤ J.length := by
    show file.length - B ≤ J.length; omega
  have hdata : file.drop npos = J.drop npos ++ trail file := by
    conv => lhs; rw [← hJ]
    exact List.drop_append_of_le_length hnposJ
  have he : (if (file.drop npos).getLast? = some 10 then n - 1 else n) = (J.drop npos).length := by
    rw [List.length_drop]
    by_cases ht : file.getLast? = some 10
    · have : trail file = [10] := by unfold trail; rw [if_pos ht]
      rw [hdata, this]
      simp only [List.getLast?_append, List.getLast?_singleton, Option.some_or, if_true]
      rw [this] at hJlen; simp at hJlen
      show file.length - (file.length - B) - 1 = J.length - (file.length - B)
      omega
    · have htn : trail file = [] := by unfold trail; rw [if_neg ht]
      have hne : file.drop npos ≠ [] := by
        intro h
        have := congrArg List.length h
        rw [List.length_drop] at this
        simp at this; omega
      have hlast : (file.drop npos).getLast? = file.getLast? := by
        conv => rhs; rw [← List.take_append_drop npos file]
        rw [List.getLast?_append]
        cases hg : (file.drop npos).getLast? with
        | none => exact absurd (List.getLast?_eq_none_iff.1 hg) hne
        | some x => simp
      rw [hlast, if_neg ht]
      rw [htn] at hJlen; simp at hJlen
      show file.length - (file.length - B) = J.length - (file.length - B)
      omega
  refine ⟨{ buf := file.drop npos ++ buf.drop n, count := 0, readPos := some npos,
            lastNl := some (J.drop npos).length },
          (J.drop npos).length, npos, J.take npos, J.drop npos, trail file ++ buf.drop n, trail file,
          ?_, ?_, rfl⟩
  · rw [next]
    simp only []
    show (if n = 0 then _ else _) = _
    rw [if_neg hn_pos]
    show (if B < n then _ else _) = _
    rw [if_neg hn_le]
    show (match readExact file npos n with | none => _ | some data => _) = _
    rw [hread]
    have he' : some (if (file.drop npos).getLast? = some 10 then n - 1 else n)
        = some (J.drop npos).length := by rw [he]
    exact congrArg (fun x => next file f
      ({ buf := file.drop npos ++ buf.drop n, count := 0, readPos := some npos, lastNl := x } : Rev)) he'
  · exact {
      hnl := rfl
      hrp := rfl
      hB := by
        show (file.drop npos ++ buf.drop n).length = buf.length
        rw [List.length_append, List.length_drop, List.length_drop]
        show file.length - (file.length - B) + (B - (file.length - (file.length - B))) = B
        omega
      hfree := fun l hl => splitLines_nlfree file l (List.mem_reverse.1 hl)
      hfile := by rw [List.take_append_drop]; exact hJ.symm
      hpre := by rw [List.length_take]; omega
      hw := rfl
      hbuf := by
        show file.drop npos ++ buf.drop n = _
        rw [hdata]; simp
      hcontent := by
        rw [List.take_append_drop, content_eq_joinNl, List.reverse_reverse] }


/-- **The reverse iterator, completely**: for every file and every non-empty window, what it
yields is determined by the forward line split alone. -/
theorem revAll_eq (file buf : Bytes) (hb : buf ≠ []) :
    revAll file buf = some (expected buf.length 0 (splitLines file).reverse) := by
  unfold revAll reverse
  have : buf.isEmpty = false := by cases buf with | nil => exact absurd rfl hb | cons _ _ => rfl
  simp only [this, Bool.false_eq_true, if_false]
  congr 1
  rw [collect_succ]
  by_cases hfile : file = []
  · subst hfile
    rw [nextFuel, next]
    simp [splitLines, expected, collectFrom]
  · obtain ⟨s1, e, rp, pre, w, tail, post, hstep, hinv, hcount⟩ := next_init hb hfile 3
    rw [nextFuel, hstep]
    have hne : (splitLines file).reverse ≠ [] := by
      simpa using splitLines_ne_nil hfile
    cases hrl : (splitLines file).reverse with
    | nil => exact absurd hrl hne
    | cons l rest =>
      rw [hrl] at hinv
      have hg := next_good hinv 1
      rw [hcount] at hg
      apply collectFrom_good rest l 0 _ _ hg
      have h1 := splitLines_length_le file
      have h2 : (splitLines file).reverse.length = rest.length + 1 := by rw [hrl]; rfl
      rw [List.length_reverse] at h2
      omega

/-! ### the written line parses back -/
/-! ### decimal rendering parses back -/

def decVal (bs : Bytes) : Nat := bs.foldl (fun acc b => acc * 10 + (b.toNat - 48)) 0

theorem digit_ofNat : ∀ d : Nat, d < 10 →
    isDigit (UInt8.ofNat (48 + d)) = true ∧ (UInt8.ofNat (48 + d)).toNat - 48 = d
      ∧ UInt8.ofNat (48 + d) ≠ 43 ∧ UInt8.ofNat (48 + d) ≠ 45 ∧ UInt8.ofNat (48 + d) ≠ 32 
      ∧ UInt8.ofNat (48 + d) ≠ 10 ∧ UInt8.ofNat (48 + d) ≠ 9 ∧ UInt8.ofNat (48 + d) ≠ 62 := by
  decide +kernel

theorem digitsFuel_spec : ∀ (fuel n : Nat), n < 10 ^ (fuel + 1) →
    digitsFuel 10 (fuel + 1) n ≠ [] ∧ (digitsFuel 10 (fuel + 1) n).all isDigit = true
      ∧ decVal (digitsFuel 10 (fuel + 1) n) = n := by
  intro fuel
  induction fuel with
  | zero =>
    intro n hn
    have hn' : n < 10 := by simpa using hn
    have := digit_ofNat n hn'
    simp only [digitsFuel, hn', if_true]
    refine ⟨List.cons_ne_nil _ _, ?_, ?_⟩
    · simp only [List.all_cons, List.all_nil, this.1, Bool.and_true]
    · simp only [decVal, List.foldl_cons, List.foldl_nil, this.2.1]; omega
  | succ fuel ih =>
    intro n hn
    rw [digitsFuel]
    by_cases h10 : n < 10
    · have := digit_ofNat n h10
      simp only [h10, if_true]
      refine ⟨List.cons_ne_nil _ _, ?_, ?_⟩
      · simp only [List.all_cons, List.all_nil, this.1, Bool.and_true]
      · simp only [decVal, List.foldl_cons, List.foldl_nil, this.2.1]; omega
    · simp only [h10, if_false]
      have hdiv : n / 10 < 10 ^ (fuel + 1) := by
        rw [Nat.div_lt_iff_lt_mul (by omega)]
        rw [Nat.pow_succ] at hn; exact hn
      obtain ⟨h1, h2, h3⟩ := ih (n / 10) hdiv
      have hd := digit_ofNat (n % 10) (Nat.mod_lt _ (by omega))
      refine ⟨by simp, ?_, ?_⟩
      · rw [List.all_append, h2]; simp only [List.all_cons, List.all_nil, hd.1, Bool.and_true]
      · unfold decVal at h3 ⊢
        rw [List.foldl_append, h3]
        simp only [List.foldl_cons, List.foldl_nil, hd.2.1]
        omega

theorem natDec_spec (n : Nat) :
    natDec n ≠ [] ∧ (natDec n).all isDigit = true ∧ decVal (natDec n) = n := by
  unfold natDec
  apply digitsFuel_spec
  have h1 : n < 2 ^ (n.log2 + 1) := Nat.lt_log2_self
  have h2 : 2 ^ (n.log2 + 1) ≤ 10 ^ (n.log2 + 1) := Nat.pow_le_pow_left (by omega) _
  omega

theorem parseNatDec_of_digits {bs : Bytes} (h1 : bs ≠ []) (h2 : bs.all isDigit = true) :
    parseNatDec? bs = some (decVal bs) := by
  unfold parseNatDec?
  have : bs.isEmpty = false := by cases bs with | nil => exact absurd rfl h1 | cons _ _ => rfl
  simp [this, h2, decVal]

theorem parseNatDec_natDec (n : Nat) : parseNatDec? (natDec n) = some n := by
  obtain ⟨h1, h2, h3⟩ := natDec_spec n
  rw [parseNatDec_of_digits h1 h2, h3]

theorem toSigned_intDec (lo hi : Int) (i : Int) (h1 : lo ≤ i) (h2 : i ≤ hi) :
    toSigned lo hi (intDec i) = some i := by
  unfold intDec
  by_cases hneg : i < 0
  · simp only [hneg, if_true, toSigned]
    simp only [show ((45 : UInt8) = 43) = False by decide, if_false, parseNatDec_natDec]
    have : -(i.natAbs : Int) = i := by omega
    simp only [this, h1, if_true]
  · simp only [hneg, if_false]
    obtain ⟨hne, hall, hval⟩ := natDec_spec i.natAbs
    cases hd : natDec i.natAbs with
    | nil => exact absurd hd hne
    | cons b r =>
      rw [hd] at hall
      simp only [List.all_cons, Bool.and_eq_true] at hall
      have hb : isDigit b = true := hall.1
      have hb43 : ¬ b = 43 := by intro h; subst h; simp [isDigit] at hb
      have hb45 : ¬ b = 45 := by intro h; subst h; simp [isDigit] at hb
      simp only [toSigned, hb43, hb45, if_false]
      rw [← hd, parseNatDec_natDec]
      have : (i.natAbs : Int) = i := by omega
      simp only [this, h2, if_true]


theorem intDec_mem (s : Int) : ∀ x ∈ intDec s, x = 45 ∨ isDigit x = true := by
  intro x hx
  have hall := (natDec_spec s.natAbs).2.1
  rw [List.all_eq_true] at hall
  unfold intDec at hx
  by_cases hneg : s < 0
  · simp only [hneg, if_true, List.mem_cons] at hx
    rcases hx with h | h
    · exact Or.inl h
    · exact Or.inr (hall x h)
  · simp only [hneg, if_false] at hx
    exact Or.inr (hall x hx)

theorem twoDigits_table : ∀ h : Nat, h < 100 →
    twoDigits h = [UInt8.ofNat (48 + h / 10), UInt8.ofNat (48 + h % 10)]
    ∧ isDigit (UInt8.ofNat (48 + h / 10)) = true ∧ isDigit (UInt8.ofNat (48 + h % 10)) = true
    ∧ toSigned i32Min i32Max [UInt8.ofNat (48 + h / 10), UInt8.ofNat (48 + h % 10)] = some (h : Int) := by
  decide +kernel

theorem isDigit_ne {x : UInt8} (h : isDigit x = true) :
    x ≠ 32 ∧ x ≠ 45 ∧ x ≠ 43 ∧ x ≠ 62 ∧ x ≠ 10 ∧ x ≠ 9 := by
  refine ⟨?_, ?_, ?_, ?_, ?_, ?_⟩ <;> (intro he; subst he; revert h; decide)

theorem takeWhileMN_hhmm {a b c d : UInt8} (ha : isDigit a = true) (hb : isDigit b = true)
    (hc : isDigit c = true) (hd : isDigit d = true) :
    takeWhileMN 2 2 isDigit [a, b, c, d] = some ([a, b], [c, d])
    ∧ takeWhileMN 1 2 isDigit [c, d] = some ([c, d], []) := by
  simp [takeWhileMN, List.takeWhile, ha, hb, hc, hd]

/-- the time grammar reads back what `Time::write_to` wrote, on the canonical domain -/
def TimeCanonical (t : Time) : Prop :=
  i64Min ≤ t.seconds ∧ t.seconds ≤ i64Max ∧ t.offset % 60 = 0 ∧
    (t.offset < 0 → t.minus = true) ∧ (0 < t.offset → t.minus = false)

instance (t : Time) : Decidable (TimeCanonical t) := by unfold TimeCanonical; infer_instance

theorem parseTime_written (t : Time) (tb : Bytes) (hw : t.write = some tb) (hc : TimeCanonical t) :
    parseTime tb = some (t, []) := by
  obtain ⟨hlo, hhi, hmod, hneg, hpos⟩ := hc
  unfold Time.write at hw
  simp only at hw
  by_cases hh : t.offset.natAbs / 3600 > 99
  · simp [hh] at hw
  · simp only [hh, if_false, Option.some.injEq] at hw
    generalize hH : t.offset.natAbs / 3600 = H at hw hh
    generalize hM : (t.offset.natAbs - H * 3600) / 60 = M at hw
    have hH100 : H < 100 := by omega
    have hM100 : M < 100 := by omega
    obtain ⟨hHeq, hHa, hHb, hHval⟩ := twoDigits_table H hH100
    obtain ⟨hMeq, hMa, hMb, hMval⟩ := twoDigits_table M hM100
    rw [hHeq, hMeq] at hw
    generalize UInt8.ofNat (48 + H / 10) = a at hw hHa hHval
    generalize UInt8.ofNat (48 + H % 10) = b at hw hHb hHval
    generalize UInt8.ofNat (48 + M / 10) = c at hw hMa hMval
    generalize UInt8.ofNat (48 + M % 10) = d at hw hMb hMval
    generalize hsg : (if t.minus = true then (45 : UInt8) else 43) = sg at hw
    have htb : tb = intDec t.seconds ++ 32 :: sg :: [a, b, c, d] := by rw [← hw]; simp
    have h32 : (32 : UInt8) ∉ intDec t.seconds := by
      intro hm
      rcases intDec_mem _ _ hm with h | h
      · exact absurd h (by decide)
      · exact absurd h (by decide)
    have hfind : findByte 32 tb = some (intDec t.seconds).length := by
      rw [htb]; exact findByte_append h32
    have htake : tb.take (intDec t.seconds).length = intDec t.seconds := by
      rw [htb]; exact List.take_left
    have hdrop : tb.drop ((intDec t.seconds).length + 1) = sg :: [a, b, c, d] := by
      rw [htb]
      have : intDec t.seconds ++ 32 :: sg :: [a, b, c, d] = (intDec t.seconds ++ [32]) ++ sg :: [a, b, c, d] := by simp
      rw [this]; exact List.drop_left' (by simp)
    have hsecs := toSigned_intDec i64Min i64Max t.seconds hlo hhi
    have ha := isDigit_ne hHa
    -- the offset read back
    have hA : H * 3600 + M * 60 = t.offset.natAbs := by
      have : t.offset.natAbs % 60 = 0 := by omega
      omega
    have hoff : ((H : Int) * 3600 + (M : Int) * 60) * (if t.minus = true then -1 else 1) = t.offset := by
      have hA' : (H : Int) * 3600 + (M : Int) * 60 = (t.offset.natAbs : Int) := by
        rw [← hA]; simp
      rw [hA']
      cases hmin : t.minus with
      | true =>
        simp only [if_true]
        have : ¬ 0 < t.offset := fun h => by have := hpos h; simp [hmin] at this
        omega
      | false =>
        simp only [Bool.false_eq_true, if_false]
        have : ¬ t.offset < 0 := fun h => by have := hneg h; simp [hmin] at this
        omega
    unfold parseTime
    simp only [hfind, htake, hsecs, hdrop]
    obtain ⟨htw1, htw2⟩ := takeWhileMN_hhmm hHa hHb hMa hMb
    cases hmin : t.minus with
    | true =>
      simp only [hmin, if_true] at hsg hoff
      subst hsg
      simp only [if_true, List.dropWhile_cons, beq_self_eq_true,
        show (a == 45) = false from by rw [beq_eq_false_iff_ne]; exact ha.2.1, Bool.false_eq_true,
        if_false, htw1, hHval, htw2, hMval, List.takeWhile_nil, List.isEmpty_nil, hoff,
        List.length_nil, List.drop_nil]
      rw [← hmin]
    | false =>
      simp only [hmin, Bool.false_eq_true, if_false] at hsg hoff
      subst hsg
      simp only [show ((43 : UInt8) = 45) = False by decide, if_false, if_true, List.dropWhile_cons,
        beq_self_eq_true,
        show (a == 43) = false from by rw [beq_eq_false_iff_ne]; exact ha.2.2.1, Bool.false_eq_true,
        htw1, hHval, htw2, hMval, List.takeWhile_nil, List.isEmpty_nil, hoff,
        List.length_nil, List.drop_nil]
      rw [← hmin]


theorem takeWhile_prefix {p : UInt8 → Bool} {a r : Bytes} {y : UInt8} (ha : ∀ x ∈ a, p x = true)
    (hy : p y = false) : (a ++ y :: r).takeWhile p = a := by
  rw [List.takeWhile_append_of_pos ha, List.takeWhile_cons_of_neg (by simp [hy])]
  simp

theorem takeWhile_all {p : UInt8 → Bool} {a : Bytes} (ha : ∀ x ∈ a, p x = true) :
    a.takeWhile p = a := by
  have := List.takeWhile_append_of_pos (l₂ := []) ha
  simpa using this

theorem hexNibble_spec : ∀ n : Nat, n < 16 →
    isHexLc (if n < 10 then UInt8.ofNat (48 + n) else UInt8.ofNat (87 + n)) = true := by
  decide +kernel

theorem hexBytes_all (id : Bytes) : ∀ x ∈ hexBytes id, isHexLc x = true := by
  induction id with
  | nil => intro x hx; simp [hexBytes] at hx
  | cons b id ih =>
    intro x hx
    unfold hexBytes at hx
    rw [List.flatMap_cons] at hx
    rcases List.mem_append.1 hx with h | h
    · have h1 := hexNibble_spec (b.toNat / 16) (by have := b.toNat_lt; omega)
      have h2 := hexNibble_spec (b.toNat % 16) (Nat.mod_lt _ (by omega))
      simp only [List.mem_cons, List.not_mem_nil, or_false] at h
      rcases h with h | h
      · rw [h]; exact h1
      · rw [h]; exact h2
    · exact ih x h

theorem hexBytes_length (id : Bytes) : (hexBytes id).length = 2 * id.length := by
  induction id with
  | nil => rfl
  | cons b id ih =>
    unfold hexBytes at ih ⊢
    rw [List.flatMap_cons, List.length_append, ih]
    simp only [List.length_cons, List.length_nil]; omega

theorem isHexLc_ne {x : UInt8} (h : isHexLc x = true) :
    x ≠ 32 ∧ x ≠ 62 ∧ x ≠ 60 ∧ x ≠ 10 ∧ x ≠ 9 := by
  refine ⟨?_, ?_, ?_, ?_, ?_⟩ <;> (intro he; subst he; revert h; decide)

theorem hexHash_written {H r : Bytes} {y : UInt8} (hall : ∀ x ∈ H, isHexLc x = true)
    (hlen : H.length = 40) (hy : isHexLc y = false) : hexHash (H ++ y :: r) = some (H, y :: r) := by
  unfold hexHash takeWhileMN
  simp only [takeWhile_prefix hall hy]
  rw [List.take_of_length_le (by omega)]
  simp only [hlen, Nat.lt_irrefl, if_false]
  rw [← hlen, List.drop_left]


theorem illegalToken_false {bs : Bytes} (h : illegalToken bs = false) :
    (60 : UInt8) ∉ bs ∧ (62 : UInt8) ∉ bs ∧ (10 : UInt8) ∉ bs := by
  unfold illegalToken at h
  rw [List.any_eq_false] at h
  refine ⟨?_, ?_, ?_⟩ <;> (intro hm; have := h _ hm; simp at this)

/-- the email has no whitespace at either end (and, being a legal token, no `<` / `>`) -/
def EmailTrimmed (email : Bytes) : Prop :=
  (∀ x, email.head? = some x → isWs x = false) ∧ (∀ x, email.getLast? = some x → isWs x = false)

theorem identity_written (name email T : Bytes) (hn : illegalToken name = false)
    (he : illegalToken email = false) (htrim : EmailTrimmed email)
    (hT : (62 : UInt8) ∉ T ∧ (10 : UInt8) ∉ T) :
    identity (name ++ 32 :: 60 :: (email ++ 62 :: 32 :: T)) = some (name, email, 32 :: T) := by
  obtain ⟨hn60, hn62, hn10⟩ := illegalToken_false hn
  obtain ⟨he60, he62, he10⟩ := illegalToken_false he
  -- the whole input and its pieces
  generalize hS : name ++ 32 :: 60 :: (email ++ 62 :: 32 :: T) = S
  have hS1 : S = (name ++ 32 :: 60 :: email) ++ 62 :: (32 :: T) := by rw [← hS]; simp
  have hnae_len : (name ++ 32 :: 60 :: email).length = name.length + 2 + email.length := by
    simp; omega
  have h10 : findByte 10 S = none := by
    rw [findByte_none, ← hS]
    simp only [List.mem_append, List.mem_cons, not_or]
    exact ⟨hn10, by decide, by decide, he10, by decide, by decide, hT.2⟩
  have hrf : rfindByte 62 (S.take S.length) = some (name.length + 2 + email.length) := by
    rw [List.take_length, hS1, rfindByte_append (by simp [hT.1]), hnae_len]
  have hnae : S.take (name.length + 2 + email.length) = name ++ 32 :: 60 :: email := by
    rw [hS1]; exact List.take_left' hnae_len
  have hskipR : ((name ++ 32 :: 60 :: email).reverse.takeWhile (fun b => isWs b || b == 62)) = [] := by
    simp only [List.reverse_append, List.reverse_cons]
    cases hrev : email.reverse with
    | nil => simp [isWs]
    | cons x xs =>
      have hx : email.getLast? = some x := by
        rw [List.getLast?_eq_head?_reverse, hrev]; rfl
      have hxws := htrim.2 x hx
      have hxmem : x ∈ email := by
        have : x ∈ email.reverse := by rw [hrev]; simp
        exact List.mem_reverse.1 this
      have hx62 : (x == 62) = false := by
        rw [beq_eq_false_iff_ne]; intro h; subst h; exact he62 hxmem
      simp [hxws, hx62]
  have hfind60 : findByte 60 (name ++ 32 :: 60 :: email) = some (name.length + 1) := by
    have : name ++ 32 :: 60 :: email = (name ++ [32]) ++ 60 :: email := by simp
    rw [this, findByte_append (by simp [hn60])]
    simp
  have hdropL : S.drop (name.length + 1) = 60 :: (email ++ 62 :: 32 :: T) := by
    rw [← hS]
    have : name ++ 32 :: 60 :: (email ++ 62 :: 32 :: T) = (name ++ [32]) ++ 60 :: (email ++ 62 :: 32 :: T) := by simp
    rw [this]; exact List.drop_left' (by simp)
  have hskipL : ((60 :: (email ++ 62 :: 32 :: T)).takeWhile (fun b => isWs b || b == 60)).length = 1 := by
    rw [List.takeWhile_cons_of_pos (by decide)]
    cases email with
    | nil => simp [isWs]
    | cons x xs =>
      have hxws := htrim.1 x rfl
      have hx60 : (x == 60) = false := by
        rw [beq_eq_false_iff_ne]; intro h; subst h; exact he60 (by simp)
      simp [hxws, hx60]
  have hname0 : S.take (name.length + 1) = name ++ [32] := by
    rw [← hS]
    have : name ++ 32 :: 60 :: (email ++ 62 :: 32 :: T) = (name ++ [32]) ++ 60 :: (email ++ 62 :: 32 :: T) := by simp
    rw [this]; exact List.take_left' (by simp)
  have hrest : S.drop (name.length + 2 + email.length + 1) = 32 :: T := by
    rw [hS1]
    have : name ++ 32 :: 60 :: email ++ 62 :: 32 :: T = (name ++ 32 :: 60 :: email ++ [62]) ++ 32 :: T := by simp
    rw [this]; exact List.drop_left' (by simp; omega)
  have hemail : (name ++ 32 :: 60 :: email).drop (name.length + 1 + 1) = email := by
    have : name ++ 32 :: 60 :: email = (name ++ [32, 60]) ++ email := by simp
    rw [this]; exact List.drop_left' (by simp)
  unfold identity
  simp only [h10, hrf, hnae, hskipR, List.length_nil, hfind60, hdropL, hskipL, hname0,
    List.getLast?_append, List.getLast?_singleton, Option.some_or, if_true, List.dropLast_concat,
    Nat.sub_zero, hemail, hrest]
  rw [if_pos (by omega)]


theorem timeBytes_mem (t : Time) (tb : Bytes) (hw : t.write = some tb) :
    ∀ x ∈ tb, x = 45 ∨ x = 43 ∨ x = 32 ∨ isDigit x = true := by
  unfold Time.write at hw
  simp only at hw
  by_cases hh : t.offset.natAbs / 3600 > 99
  · simp [hh] at hw
  · simp only [hh, if_false, Option.some.injEq] at hw
    have hH100 : t.offset.natAbs / 3600 < 100 := by omega
    have hM100 : (t.offset.natAbs - t.offset.natAbs / 3600 * 3600) / 60 < 100 := by omega
    obtain ⟨hHeq, hHa, hHb, _⟩ := twoDigits_table _ hH100
    obtain ⟨hMeq, hMa, hMb, _⟩ := twoDigits_table _ hM100
    rw [hHeq, hMeq] at hw
    intro x hx
    rw [← hw] at hx
    simp only [List.mem_append, List.mem_cons, List.not_mem_nil, or_false] at hx
    rcases hx with ((((h | h) | h) | h | h) | h | h)
    · rcases intDec_mem _ _ h with h | h
      · exact Or.inl h
      · exact Or.inr (Or.inr (Or.inr h))
    · exact Or.inr (Or.inr (Or.inl h))
    · by_cases hm : t.minus = true
      · simp only [hm, if_true] at h; exact Or.inl h
      · simp only [hm] at h; exact Or.inr (Or.inl h)
    · rw [h]; exact Or.inr (Or.inr (Or.inr hHa))
    · rw [h]; exact Or.inr (Or.inr (Or.inr hHb))
    · rw [h]; exact Or.inr (Or.inr (Or.inr hMa))
    · rw [h]; exact Or.inr (Or.inr (Or.inr hMb))

theorem timeBytes_free (t : Time) (tb : Bytes) (hw : t.write = some tb) :
    (62 : UInt8) ∉ tb ∧ (10 : UInt8) ∉ tb ∧ (9 : UInt8) ∉ tb := by
  have h := timeBytes_mem t tb hw
  refine ⟨?_, ?_, ?_⟩ <;>
  · intro hm
    rcases h _ hm with h | h | h | h
    · exact absurd h (by decide)
    · exact absurd h (by decide)
    · exact absurd h (by decide)
    · exact absurd h (by decide)

/-- Everything `parseLine` needs to know about a line assembled by the writers: two 40-digit hex
ids, a signature written by `writeSig` on the canonical domain, and either nothing or a tab and a
newline-free message. -/
theorem parseLine_assembled (H1 H2 name email tb sfx msg : Bytes) (t : Time)
    (hH1 : ∀ x ∈ H1, isHexLc x = true) (hH1len : H1.length = 40)
    (hH2 : ∀ x ∈ H2, isHexLc x = true) (hH2len : H2.length = 40)
    (hn : illegalToken name = false) (he : illegalToken email = false) (htrim : EmailTrimmed email)
    (hw : t.write = some tb) (hc : TimeCanonical t)
    (hsfx : (sfx = [] ∧ msg = []) ∨ (sfx = 9 :: msg ∧ (10 : UInt8) ∉ msg)) :
    parseLine (H1 ++ 32 :: (H2 ++ 32 :: (name ++ 32 :: 60 :: (email ++ 62 :: 32 :: tb))) ++ sfx)
      = some { old := H1, new := H2, name := name, email := email, time := t, msg := msg } := by
  obtain ⟨hn60, hn62, hn10⟩ := illegalToken_false hn
  obtain ⟨he60, he62, he10⟩ := illegalToken_false he
  obtain ⟨ht62, ht10, ht9⟩ := timeBytes_free t tb hw
  have hex_free : ∀ {H : Bytes}, (∀ x ∈ H, isHexLc x = true) → ∀ c : UInt8,
      (c = 32 ∨ c = 62 ∨ c = 60 ∨ c = 10 ∨ c = 9) → c ∉ H := by
    intro H hH c hc hm
    have := isHexLc_ne (hH c hm)
    rcases hc with h | h | h | h | h <;> simp_all
  generalize hS : name ++ 32 :: 60 :: (email ++ 62 :: 32 :: tb) = S
  generalize hhead : H1 ++ 32 :: (H2 ++ 32 :: S) = head
  -- the signature part has no newline and no tab after its `>`
  have hsfx10 : (10 : UInt8) ∉ sfx := by
    rcases hsfx with ⟨h, _⟩ | ⟨h, h2⟩
    · rw [h]; simp
    · rw [h]; simp only [List.mem_cons, not_or]; exact ⟨by decide, h2⟩
  have hS10 : (10 : UInt8) ∉ S := by
    rw [← hS]; simp only [List.mem_append, List.mem_cons, not_or]
    exact ⟨hn10, by decide, by decide, he10, by decide, by decide, ht10⟩
  have hhead10 : (10 : UInt8) ∉ head := by
    rw [← hhead]; simp only [List.mem_append, List.mem_cons, not_or]
    exact ⟨hex_free hH1 10 (by simp), by decide, hex_free hH2 10 (by simp), by decide, hS10⟩
  have hfind10 : findByte 10 (head ++ sfx) = none := by
    rw [findByte_none]; simp only [List.mem_append, not_or]; exact ⟨hhead10, hsfx10⟩
  -- the first `>`
  let P := H1 ++ 32 :: (H2 ++ 32 :: (name ++ 32 :: 60 :: email))
  have hP62 : (62 : UInt8) ∉ P := by
    show (62 : UInt8) ∉ H1 ++ 32 :: (H2 ++ 32 :: (name ++ 32 :: 60 :: email))
    simp only [List.mem_append, List.mem_cons, not_or]
    exact ⟨hex_free hH1 62 (by simp), by decide, hex_free hH2 62 (by simp), by decide, hn62,
      by decide, by decide, he62⟩
  have hheadP : head = P ++ 62 :: (32 :: tb) := by
    rw [← hhead, ← hS]; show _ = (H1 ++ 32 :: (H2 ++ 32 :: (name ++ 32 :: 60 :: email))) ++ _; simp
  have hfind62 : findByte 62 (head ++ sfx) = some P.length := by
    rw [hheadP, List.append_assoc, List.cons_append]; exact findByte_append hP62
  have hdropP : (head ++ sfx).drop P.length = 62 :: 32 :: tb ++ sfx := by
    rw [hheadP, List.append_assoc]; exact List.drop_left
  have hheadlen : head.length = P.length + (2 + tb.length) := by
    rw [hheadP]; simp; omega
  -- the separator
  have hsep : beforeMessageLen (head ++ sfx) = head.length := by
    unfold beforeMessageLen
    simp only [hfind10, hfind62, hdropP]
    rcases hsfx with ⟨h, _⟩ | ⟨h, _⟩
    · subst h
      have : findByte 9 (62 :: 32 :: tb) = none := by
        rw [findByte_none]; simp only [List.mem_cons, not_or]
        exact ⟨by decide, by decide, ht9⟩
      simp only [List.append_nil, this]
    · subst h
      have : findByte 9 (62 :: 32 :: tb ++ 9 :: msg) = some (2 + tb.length) := by
        have := findByte_append (c := 9) (a := 62 :: 32 :: tb) (b := msg)
          (by simp only [List.mem_cons, not_or]; exact ⟨by decide, by decide, ht9⟩)
        rw [this]; simp only [List.length_cons]; congr 1; omega
      simp only [this, hheadlen]
  have htakehead : (head ++ sfx).take head.length = head := List.take_left
  have hdrophead : (head ++ sfx).drop head.length = sfx := List.drop_left
  -- the pieces of the head
  have hhash1 : hexHash head = some (H1, 32 :: (H2 ++ 32 :: S)) := by
    rw [← hhead]; exact hexHash_written hH1 hH1len (by decide)
  have hhash2 : hexHash (H2 ++ 32 :: S) = some (H2, 32 :: S) :=
    hexHash_written hH2 hH2len (by decide)
  have hident : identity S = some (name, email, 32 :: tb) := by
    rw [← hS]; exact identity_written name email tb hn he htrim ⟨ht62, ht10⟩
  have htime := parseTime_written t tb hw hc
  have hsig : signature S = some (name, email, t, []) := by
    unfold signature
    simp only [hident, if_true, htime]
  unfold parseLine
  simp only [hsep, htakehead, hhash1, lit, if_true, hhash2, hsig, List.length_nil, Nat.sub_zero,
    hdrophead]
  rcases hsfx with ⟨h, h2⟩ | ⟨h, h2⟩
  · subst h; subst h2; rfl
  · subst h
    simp only [if_true]
    have : msg.takeWhile (· != 10) = msg := by
      apply takeWhile_all
      intro x hx
      simp only [bne_iff_ne, ne_eq]
      intro h; subst h; exact h2 hx
    rw [this]


/-- `writeSig` succeeds exactly on legal tokens and a writable time -/
theorem writeSig_some {name email sig : Bytes} {t : Time} (h : writeSig name email t = some sig) :
    illegalToken name = false ∧ illegalToken email = false ∧
      ∃ tb, t.write = some tb ∧ sig = name ++ [32, 60] ++ email ++ [62, 32] ++ tb := by
  unfold writeSig at h
  cases hn : illegalToken name with
  | true => simp [hn] at h
  | false =>
    cases he : illegalToken email with
    | true => simp [hn, he] at h
    | false =>
      cases ht : t.write with
      | none => simp [hn, he, ht] at h
      | some tb =>
        simp only [hn, he, ht, Bool.false_eq_true, if_false, Option.some.injEq] at h
        exact ⟨rfl, rfl, tb, rfl, h.symm⟩

/-- the signature part of a written line contains no newline -/
theorem assembled_nlfree {H1 H2 name email tb : Bytes} {t : Time}
    (hH1 : ∀ x ∈ H1, isHexLc x = true) (hH2 : ∀ x ∈ H2, isHexLc x = true)
    (hn : illegalToken name = false) (he : illegalToken email = false) (hw : t.write = some tb) :
    (10 : UInt8) ∉ H1 ++ 32 :: (H2 ++ 32 :: (name ++ 32 :: 60 :: (email ++ 62 :: 32 :: tb))) := by
  obtain ⟨_, _, hn10⟩ := illegalToken_false hn
  obtain ⟨_, _, he10⟩ := illegalToken_false he
  obtain ⟨_, ht10, _⟩ := timeBytes_free t tb hw
  have h1 : (10 : UInt8) ∉ H1 := fun hm => (isHexLc_ne (hH1 _ hm)).2.2.2.1 rfl
  have h2 : (10 : UInt8) ∉ H2 := fun hm => (isHexLc_ne (hH2 _ hm)).2.2.2.1 rfl
  simp only [List.mem_append, List.mem_cons, not_or]
  exact ⟨h1, by decide, h2, by decide, hn10, by decide, by decide, he10, by decide, by decide, ht10⟩

end GixModel.C21
