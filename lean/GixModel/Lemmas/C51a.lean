import GixModel.Model.C51
/-
Helper lemmas for C51 (a): `InOrderIter`. The invariant `Good` says that the buffered sequence
ids and the ids still to arrive are exactly `next .. n-1`, each once.
-/
namespace GixModel.C51

variable {T : Type}

def keys (b : Buf T) : List Nat := b.map Prod.fst

theorem lookup_none_iff (k : Nat) (b : Buf T) : lookup k b = none ↔ k ∉ keys b := by
  induction b with
  | nil => simp [lookup, keys]
  | cons p rest ih =>
    obtain ⟨k', v⟩ := p
    by_cases h : k' = k
    · simp [lookup, keys, h]
    · simp only [lookup, h, if_false, ih, keys, List.map_cons, List.mem_cons, not_or]
      constructor
      · intro h2; exact ⟨fun e => h e.symm, h2⟩
      · intro h2; exact h2.2

theorem lookup_some_mem {k : Nat} {b : Buf T} {v : T} (h : lookup k b = some v) : (k, v) ∈ b := by
  induction b with
  | nil => simp [lookup] at h
  | cons p rest ih =>
    obtain ⟨k', v'⟩ := p
    by_cases hk : k' = k
    · simp only [lookup, hk, if_true, Option.some.injEq] at h
      subst h; subst hk; simp
    · simp only [lookup, hk, if_false] at h
      exact List.mem_cons_of_mem _ (ih h)

theorem mem_keys_erase (k i : Nat) (b : Buf T) : i ∈ keys (erase k b) ↔ i ∈ keys b ∧ i ≠ k := by
  induction b with
  | nil => simp [erase, keys]
  | cons p rest ih =>
    obtain ⟨k', v⟩ := p
    simp only [keys] at ih
    by_cases h : k' = k
    · subst h
      simp only [erase, if_true, keys, List.map_cons, List.mem_cons, ih]
      constructor
      · rintro ⟨h1, h2⟩; exact ⟨Or.inr h1, h2⟩
      · rintro ⟨h1 | h1, h2⟩
        · exact absurd h1 h2
        · exact ⟨h1, h2⟩
    · simp only [erase, h, if_false, keys, List.map_cons, List.mem_cons, ih]
      constructor
      · rintro (h1 | ⟨h1, h2⟩)
        · subst h1; exact ⟨Or.inl rfl, h⟩
        · exact ⟨Or.inr h1, h2⟩
      · rintro ⟨h1 | h1, h2⟩
        · exact Or.inl h1
        · exact Or.inr ⟨h1, h2⟩

theorem mem_erase {k : Nat} {b : Buf T} {p : Nat × T} (h : p ∈ erase k b) : p ∈ b := by
  induction b with
  | nil => simp [erase] at h
  | cons q rest ih =>
    obtain ⟨k', v⟩ := q
    by_cases hk : k' = k
    · simp only [erase, hk, if_true] at h
      exact List.mem_cons_of_mem _ (ih h)
    · simp only [erase, hk, if_false, List.mem_cons] at h
      cases h with
      | inl h1 => subst h1; simp
      | inr h1 => exact List.mem_cons_of_mem _ (ih h1)

theorem nodup_keys_erase (k : Nat) (b : Buf T) (h : (keys b).Nodup) : (keys (erase k b)).Nodup := by
  induction b with
  | nil => simp [erase, keys]
  | cons p rest ih =>
    obtain ⟨k', v⟩ := p
    simp only [keys, List.map_cons, List.nodup_cons] at h
    by_cases hk : k' = k
    · simp only [erase, hk, if_true]
      exact ih h.2
    · simp only [erase, hk, if_false, keys, List.map_cons, List.nodup_cons]
      refine ⟨?_, ih h.2⟩
      intro hm
      exact h.1 ((mem_keys_erase k k' rest).mp hm).1

theorem erase_length_lt {k : Nat} {b : Buf T} (h : k ∈ keys b) : (erase k b).length < b.length := by
  induction b with
  | nil => simp [keys] at h
  | cons p rest ih =>
    obtain ⟨k', v⟩ := p
    have hle : ∀ (b : Buf T), (erase k b).length ≤ b.length := by
      intro b
      induction b with
      | nil => simp [erase]
      | cons q r ihr =>
        obtain ⟨k2, v2⟩ := q
        by_cases h2 : k2 = k
        · simp only [erase, h2, if_true, List.length_cons]; omega
        · simp only [erase, h2, if_false, List.length_cons]; omega
    by_cases hk : k' = k
    · simp only [erase, hk, if_true, List.length_cons]
      have := hle rest; omega
    · simp only [keys, List.map_cons, List.mem_cons] at h
      cases h with
      | inl h1 => exact absurd h1.symm hk
      | inr h1 =>
        simp only [erase, hk, if_false, List.length_cons]
        have := ih h1; omega

/-- buffered ids and ids still to arrive are exactly `next .. n-1`, each once; buffered values are
the values that arrived with their id (`f id`) -/
structure Good (f : Nat → T) (n : Nat) (store : Buf T) (next : Nat) (rest : List Nat) : Prop where
  nd_keys : (keys store).Nodup
  nd_rest : rest.Nodup
  disj : ∀ i, i ∈ keys store → i ∉ rest
  mem : ∀ i, (i ∈ keys store ∨ i ∈ rest) ↔ (next ≤ i ∧ i < n)
  vals : ∀ p ∈ store, p.2 = f p.1
  le : next ≤ n

def mkItems (f : Nat → T) (l : List Nat) : List (Item T) := l.map fun i => Item.ok i (f i)

def outRange (f : Nat → T) (a len : Nat) : List (Out T) := (List.range' a len).map fun i => Out.val (f i)

theorem outRange_succ (f : Nat → T) (a len : Nat) :
    outRange f a (len + 1) = Out.val (f a) :: outRange f (a + 1) len := by
  simp [outRange, List.range'_succ]

theorem feed_good (f : Nat → T) (n : Nat) (rest : List Nat) : ∀ (store : Buf T) (next : Nat),
    Good f n store next rest →
    ∃ store' next', next ≤ next' ∧
      feed (mkItems f rest) { store := store, next := next }
        = (outRange f next (next' - next), some { store := store', next := next' })
      ∧ Good f n store' next' [] := by
  induction rest with
  | nil =>
    intro store next h
    exact ⟨store, next, Nat.le_refl _, by simp [mkItems, feed, outRange], h⟩
  | cons c rest ih =>
    intro store next h
    have hc : next ≤ c ∧ c < n := (h.mem c).mp (Or.inr (by simp))
    have hcr : c ∉ rest := (List.nodup_cons.mp h.nd_rest).1
    have hck : c ∉ keys store := fun hk => h.disj c hk (by simp)
    simp only [mkItems, List.map_cons, feed]
    by_cases heq : c = next
    · subst heq
      simp only [if_true]
      have hg : Good f n store (c + 1) rest := by
        refine ⟨h.nd_keys, (List.nodup_cons.mp h.nd_rest).2, ?_, ?_, h.vals, by omega⟩
        · intro i hi hir; exact h.disj i hi (List.mem_cons_of_mem _ hir)
        · intro i
          constructor
          · intro hi
            have h1 : i ∈ keys store ∨ i ∈ c :: rest := by
              cases hi with
              | inl a => exact Or.inl a
              | inr a => exact Or.inr (List.mem_cons_of_mem _ a)
            have h2 := (h.mem i).mp h1
            have hne : i ≠ c := by
              intro e; subst e
              cases hi with
              | inl a => exact hck a
              | inr a => exact hcr a
            omega
          · intro hi
            have := (h.mem i).mpr ⟨by omega, hi.2⟩
            cases this with
            | inl a => exact Or.inl a
            | inr a =>
              cases List.mem_cons.mp a with
              | inl e => omega
              | inr e => exact Or.inr e
      obtain ⟨store', next', hle, hfeed, hgood⟩ := ih store (c + 1) hg
      refine ⟨store', next', by omega, ?_, hgood⟩
      simp only [mkItems] at hfeed
      rw [hfeed]
      have : next' - c = (next' - (c + 1)) + 1 := by omega
      rw [this, outRange_succ]
    · have hlt : ¬ c < next := by omega
      have hlk : lookup c store = none := (lookup_none_iff c store).mpr hck
      simp only [heq, if_false, hlt, hlk, Option.isSome_none, Bool.false_eq_true]
      have hlook : lookup next ((c, f c) :: store) = lookup next store := by
        simp [lookup, heq]
      rw [hlook]
      cases hl : lookup next store with
      | some v' =>
        simp only
        have hmem := lookup_some_mem hl
        have hv : v' = f next := h.vals _ hmem
        have hnk : next ∈ keys store := List.mem_map.mpr ⟨(next, v'), hmem, rfl⟩
        have hnr : next ∉ rest := fun hr => h.disj next hnk (List.mem_cons_of_mem _ hr)
        have hg : Good f n (erase next ((c, f c) :: store)) (next + 1) rest := by
          refine ⟨?_, (List.nodup_cons.mp h.nd_rest).2, ?_, ?_, ?_, by omega⟩
          · apply nodup_keys_erase
            simp only [keys, List.map_cons, List.nodup_cons]
            exact ⟨hck, h.nd_keys⟩
          · intro i hi hir
            have := ((mem_keys_erase next i _).mp hi).1
            simp only [keys, List.map_cons, List.mem_cons] at this
            cases this with
            | inl e => subst e; exact hcr hir
            | inr e => exact h.disj i e (List.mem_cons_of_mem _ hir)
          · intro i
            rw [mem_keys_erase]
            simp only [keys, List.map_cons, List.mem_cons]
            constructor
            · intro hi
              have h1 : i ∈ keys store ∨ i ∈ c :: rest := by
                rcases hi with ⟨a | a, _⟩ | a
                · exact Or.inr (by simp [a])
                · exact Or.inl a
                · exact Or.inr (List.mem_cons_of_mem _ a)
              have h2 := (h.mem i).mp h1
              have hne : i ≠ next := by
                rcases hi with ⟨_, b⟩ | a
                · exact b
                · intro e; subst e; exact hnr a
              omega
            · intro hi
              have := (h.mem i).mpr ⟨by omega, hi.2⟩
              cases this with
              | inl a => exact Or.inl ⟨Or.inr a, by omega⟩
              | inr a =>
                cases List.mem_cons.mp a with
                | inl e => exact Or.inl ⟨Or.inl e, by omega⟩
                | inr e => exact Or.inr e
          · intro p hp
            have := mem_erase hp
            cases List.mem_cons.mp this with
            | inl e => subst e; rfl
            | inr e => exact h.vals p e
        obtain ⟨store', next', hle, hfeed, hgood⟩ := ih _ (next + 1) hg
        refine ⟨store', next', by omega, ?_, hgood⟩
        simp only [mkItems] at hfeed
        rw [hfeed]
        have : next' - next = (next' - (next + 1)) + 1 := by omega
        rw [this, outRange_succ, hv]
      | none =>
        simp only
        have hnk : next ∉ keys store := (lookup_none_iff next store).mp hl
        have hg : Good f n ((c, f c) :: store) next rest := by
          refine ⟨?_, (List.nodup_cons.mp h.nd_rest).2, ?_, ?_, ?_, h.le⟩
          · simp only [keys, List.map_cons, List.nodup_cons]
            exact ⟨hck, h.nd_keys⟩
          · intro i hi hir
            simp only [keys, List.map_cons, List.mem_cons] at hi
            cases hi with
            | inl e => subst e; exact hcr hir
            | inr e => exact h.disj i e (List.mem_cons_of_mem _ hir)
          · intro i
            rw [← h.mem i]
            simp only [keys, List.map_cons, List.mem_cons]
            constructor
            · rintro ((a | a) | a)
              · exact Or.inr (Or.inl a)
              · exact Or.inl a
              · exact Or.inr (Or.inr a)
            · rintro (a | a | a)
              · exact Or.inl (Or.inr a)
              · exact Or.inl (Or.inl a)
              · exact Or.inr a
          · intro p hp
            cases List.mem_cons.mp hp with
            | inl e => subst e; rfl
            | inr e => exact h.vals p e
        obtain ⟨store', next', hle, hfeed, hgood⟩ := ih _ next hg
        refine ⟨store', next', hle, ?_, hgood⟩
        simp only [mkItems] at hfeed
        exact hfeed

theorem drain_good (f : Nat → T) (n : Nat) (fuel : Nat) : ∀ (store : Buf T) (next : Nat),
    Good f n store next [] → store.length ≤ fuel →
    drain fuel { store := store, next := next } = outRange f next (n - next) := by
  induction fuel with
  | zero =>
    intro store next h hf
    have hs : store = [] := List.length_eq_zero_iff.mp (by omega)
    subst hs
    have : n - next = 0 := by
      by_cases hlt : next < n
      · have := (h.mem next).mpr ⟨Nat.le_refl _, hlt⟩
        simp [keys] at this
      · omega
    simp [drain, this, outRange]
  | succ fuel ih =>
    intro store next h hf
    simp only [drain]
    cases hl : lookup next store with
    | none =>
      simp only
      have hnk : next ∉ keys store := (lookup_none_iff next store).mp hl
      -- then the buffer is empty and next = n
      have hnn : ¬ next < n := by
        intro hlt
        have := (h.mem next).mpr ⟨Nat.le_refl _, hlt⟩
        cases this with
        | inl a => exact hnk a
        | inr a => cases a
      have hempty : store = [] := by
        cases store with
        | nil => rfl
        | cons p r =>
          have := (h.mem p.1).mp (Or.inl (by simp [keys]))
          have hk1 : p.1 ∈ keys (p :: r) := by simp [keys]
          have hne : p.1 ≠ next := fun e => hnk (e ▸ hk1)
          omega
      subst hempty
      have : n - next = 0 := by omega
      simp [this, outRange]
    | some v =>
      simp only
      have hmem := lookup_some_mem hl
      have hv : v = f next := h.vals _ hmem
      have hnk : next ∈ keys store := List.mem_map.mpr ⟨(next, v), hmem, rfl⟩
      have hlt : next < n := ((h.mem next).mp (Or.inl hnk)).2
      have hg : Good f n (erase next store) (next + 1) [] := by
        refine ⟨nodup_keys_erase _ _ h.nd_keys, List.nodup_nil, by simp, ?_, ?_, by omega⟩
        · intro i
          rw [mem_keys_erase]
          constructor
          · rintro (⟨a, b⟩ | a)
            · have := (h.mem i).mp (Or.inl a); omega
            · cases a
          · intro hi
            have := (h.mem i).mpr ⟨by omega, hi.2⟩
            cases this with
            | inl a => exact Or.inl ⟨a, by omega⟩
            | inr a => cases a
        · intro p hp; exact h.vals p (mem_erase hp)
      have hlen := erase_length_lt hnk
      rw [ih _ (next + 1) hg (by omega)]
      have : n - next = (n - (next + 1)) + 1 := by omega
      rw [this, outRange_succ, hv]

theorem outRange_append (f : Nat → T) (a m k : Nat) :
    outRange f a m ++ outRange f (a + m) k = outRange f a (m + k) := by
  simp only [outRange, ← List.map_append]
  congr 1
  rw [List.range'_append_1]

/-- after an error in the stream nothing else is pulled or yielded -/
theorem feed_err_append (pre : List (Item T)) (e : Nat) (post : List (Item T)) : ∀ (st : IOState T),
    (feed pre st).2.isSome = true →
    feed (pre ++ Item.err e :: post) st = ((feed pre st).1 ++ [Out.err e], none) := by
  induction pre with
  | nil => intro st _; simp [feed]
  | cons it pre ih =>
    intro st hlive
    cases it with
    | err e' => simp [feed] at hlive
    | ok c v =>
      simp only [List.cons_append, feed] at hlive ⊢
      by_cases h1 : c = st.next
      · simp only [h1, if_true] at hlive ⊢
        rw [ih _ hlive]; simp
      · simp only [h1, if_false] at hlive ⊢
        by_cases h2 : c < st.next
        · simp [h2] at hlive
        · simp only [h2, if_false] at hlive ⊢
          by_cases h3 : (lookup c st.store).isSome = true
          · simp [h3] at hlive
          · simp only [h3, Bool.false_eq_true, if_false] at hlive ⊢
            cases hl : lookup st.next ((c, v) :: st.store) with
            | some v' =>
              simp only [hl] at hlive ⊢
              rw [ih _ hlive]; simp
            | none =>
              simp only [hl] at hlive ⊢
              exact ih _ hlive

end GixModel.C51
