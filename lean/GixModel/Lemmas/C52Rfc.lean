import GixModel.Lemmas.C52Raw
/-
C52 — RFC2822 and GIT_RFC2822: the text `strftime` writes is read back by jiff's RFC 2822 parser (relaxed
weekday), for years 0..9999 and offsets of whole minutes.
-/
namespace GixModel.C52
open GixModel GixModel.Civil

theorem needWs_sp (rest : Bytes) (h : ∀ x r, rest = x :: r → isWs2822 x = false) : needWs (32 :: rest) = some rest := by
  have h32 : isWs2822 32 = true := by decide
  simp only [needWs, h32, if_true, skipWs, List.dropWhile_cons]
  rw [dropWhile_head_false isWs2822 rest h]

theorem digit_not_ws2822 {b : UInt8} (h : isDigit b = true) : isWs2822 b = false := by
  have := (digit_not_sign h).2.2.1
  simp only [isWs, Bool.or_eq_false_iff] at this
  simp [isWs2822, this.1.1.1.1, this.1.1.1.2]

theorem rfcWeekday_fmt : ∀ w, w < 7 → ∀ rest : Bytes, (∀ x r, rest = x :: r → isWs2822 x = false) →
    rfcWeekday (weekdayNames.getD w [] ++ 44 :: 32 :: rest) = some rest := by
  intro w hw rest hr
  have hn := needWs_sp rest hr
  have : w = 0 ∨ w = 1 ∨ w = 2 ∨ w = 3 ∨ w = 4 ∨ w = 5 ∨ w = 6 := by omega
  rcases this with rfl | rfl | rfl | rfl | rfl | rfl | rfl <;>
    (simp [rfcWeekday, weekdayNames, isDigitB, isDigit, lower3, indexOf3, asciiLower, hn]; try rfl)

theorem rfcMonth_fmt : ∀ m, 1 ≤ m → m ≤ 12 → ∀ rest : Bytes, (∀ x r, rest = x :: r → isWs2822 x = false) →
    rfcMonth (monthNames.getD (m - 1) [] ++ 32 :: rest) = some (m - 1, rest) := by
  intro m h1 h2 rest hr
  have hn := needWs_sp rest hr
  have : m = 1 ∨ m = 2 ∨ m = 3 ∨ m = 4 ∨ m = 5 ∨ m = 6 ∨ m = 7 ∨ m = 8 ∨ m = 9 ∨ m = 10 ∨ m = 11 ∨ m = 12 := by omega
  rcases this with rfl | rfl | rfl | rfl | rfl | rfl | rfl | rfl | rfl | rfl | rfl | rfl <;>
    (simp [rfcMonth, monthNames, lower3, indexOf3, asciiLower, hn]; try rfl)

theorem rfcDay_pad2 (d : Nat) (h1 : 1 ≤ d) (h31 : d ≤ 31) (rest : Bytes) (hr : ∀ x r, rest = x :: r → isWs2822 x = false) :
    rfcDay (pad2 d ++ 32 :: rest) = some (d, rest) := by
  rw [pad2_eq d (by omega)]
  have da := dig_facts (d / 10) (by omega)
  have db := dig_facts (d % 10) (by omega)
  have hn := needWs_sp rest hr
  have hval : (0 * 10 + ((dig (d / 10)).toNat - 48)) * 10 + ((dig (d % 10)).toNat - 48) = d := by
    rw [da.2.1, db.2.1]; omega
  simp only [rfcDay, List.cons_append, List.nil_append, isDigitB, db.1, if_true, List.headD_cons, List.all_cons, da.1,
    List.all_nil, Bool.and_self, Bool.not_true, Bool.false_eq_true, if_false, decimal, List.foldl_cons, List.foldl_nil,
    hval, List.drop_succ_cons, List.drop_zero, hn]
  have : ¬ ((decide (d < 1) || decide (d > 31)) = true) := by simp; omega
  rw [if_neg this]

theorem rfcDay_nopad (d : Nat) (h1 : 1 ≤ d) (h31 : d ≤ 31) (rest : Bytes) (hr : ∀ x r, rest = x :: r → isWs2822 x = false) :
    rfcDay (natDec d ++ 32 :: rest) = some (d, rest) := by
  rw [natDec_small d (by omega)]
  have hn := needWs_sp rest hr
  by_cases h10 : d < 10
  · have dd := dig_facts d h10
    have h32 : isDigit 32 = false := by decide
    have hval : 0 * 10 + ((dig d).toNat - 48) = d := by rw [dd.2.1]; omega
    simp only [h10, if_true, rfcDay, List.cons_append, List.nil_append, isDigitB, h32, Bool.false_eq_true, if_false,
      List.all_cons, dd.1, List.all_nil, Bool.and_self, Bool.not_true, decimal, List.foldl_cons, List.foldl_nil, hval, hn]
    have : ¬ ((decide (d < 1) || decide (d > 31)) = true) := by simp; omega
    rw [if_neg this]
  · have : pad2 d = [dig (d / 10), dig (d % 10)] := pad2_eq d (by omega)
    simp only [h10, if_false]
    rw [← this]
    exact rfcDay_pad2 d h1 h31 rest hr

theorem takeWhile_digits4 (a b c d : UInt8) (rest : Bytes) (ha : isDigit a = true) (hb : isDigit b = true)
    (hc : isDigit c = true) (hd : isDigit d = true) :
    ((a :: b :: c :: d :: rest).take 4).takeWhile isDigitB = [a, b, c, d] := by
  simp [isDigitB, ha, hb, hc, hd]

theorem rfcYear_pad4 (y : Nat) (hy : y ≤ 9999) (rest : Bytes) (hr : ∀ x r, rest = x :: r → isWs2822 x = false) :
    rfcYear (pad4 y ++ 32 :: rest) = some (y, rest) := by
  unfold pad4
  rw [pad2_eq (y / 100) (by omega), pad2_eq (y % 100) (by omega)]
  have d1 := dig_facts (y / 100 / 10) (by omega)
  have d2 := dig_facts (y / 100 % 10) (by omega)
  have d3 := dig_facts (y % 100 / 10) (by omega)
  have d4 := dig_facts (y % 100 % 10) (by omega)
  have hn := needWs_sp rest hr
  have htw := takeWhile_digits4 _ _ _ _ (32 :: rest) d1.1 d2.1 d3.1 d4.1
  have hval : decimal [dig (y / 100 / 10), dig (y / 100 % 10), dig (y % 100 / 10), dig (y % 100 % 10)] = y := by
    simp only [decimal, List.foldl_cons, List.foldl_nil, d1.2.1, d2.2.1, d3.2.1, d4.2.1]; omega
  unfold rfcYear
  simp only [List.cons_append, List.nil_append, htw, List.length_cons, List.length_nil, hval]
  simp only [Nat.zero_add, Nat.reduceAdd, Nat.reduceLeDiff, if_false, Nat.reduceEqDiff, List.drop_succ_cons, List.drop_zero, hn]

theorem rfcTime_fmt (h mi s : Nat) (hh : h ≤ 23) (hm : mi ≤ 59) (hs : s ≤ 59) (rest : Bytes)
    (hr : ∀ x r, rest = x :: r → isWs2822 x = false) :
    rfcTime (pad2 h ++ 58 :: (pad2 mi ++ 58 :: (pad2 s ++ 32 :: rest))) = some (h, mi, s, rest) := by
  rw [pad2_eq h (by omega), pad2_eq mi (by omega), pad2_eq s (by omega)]
  have t1 := twoDigits_dig (h / 10) (h % 10) (by omega) (by omega)
  have t2 := twoDigits_dig (mi / 10) (mi % 10) (by omega) (by omega)
  have t3 := twoDigits_dig (s / 10) (s % 10) (by omega) (by omega)
  have e1 : h / 10 * 10 + h % 10 = h := by omega
  have e2 : mi / 10 * 10 + mi % 10 = mi := by omega
  have e3 : s / 10 * 10 + s % 10 = s := by omega
  rw [e1] at t1; rw [e2] at t2; rw [e3] at t3
  have hn := needWs_sp rest hr
  have g1 : ¬ h > 23 := by omega
  have g2 : ¬ mi > 59 := by omega
  have g3 : ¬ s = 60 := by omega
  have g4 : ¬ s > 59 := by omega
  simp only [rfcTime, List.cons_append, List.nil_append, List.take_succ_cons, List.take_zero, t1, g1, if_false,
    List.drop_succ_cons, List.drop_zero, t2, g2, t3, g3, g4, hn]

theorem rfcOffset_fmt (off : Int) (hoff : off.natAbs ≤ 93599) (hmin : off % 60 = 0) :
    rfcOffset (fmtOffset off false) = some (off, []) := by
  have hhh : off.natAbs / 3600 < 100 := by omega
  have hmm : off.natAbs % 3600 / 60 < 100 := by omega
  have hs0 : off.natAbs % 60 = 0 := by omega
  have t1 := twoDigits_dig (off.natAbs / 3600 / 10) (off.natAbs / 3600 % 10) (by omega) (by omega)
  have t2 := twoDigits_dig (off.natAbs % 3600 / 60 / 10) (off.natAbs % 3600 / 60 % 10) (by omega) (by omega)
  have e1 : off.natAbs / 3600 / 10 * 10 + off.natAbs / 3600 % 10 = off.natAbs / 3600 := by omega
  have e2 : off.natAbs % 3600 / 60 / 10 * 10 + off.natAbs % 3600 / 60 % 10 = off.natAbs % 3600 / 60 := by omega
  rw [e1] at t1; rw [e2] at t2
  have hne : ¬ (off.natAbs % 60 ≠ 0) := by simpa using hs0
  unfold fmtOffset
  simp only [pad2_eq _ hhh, pad2_eq _ hmm, hne, Bool.false_eq_true, if_false, List.append_nil, List.cons_append, List.nil_append]
  have g1 : ¬ (off.natAbs / 3600 > 25) := by omega
  have g2 : ¬ (off.natAbs % 3600 / 60 > 59) := by omega
  have hdec : off.natAbs / 3600 * 3600 + off.natAbs % 3600 / 60 * 60 = off.natAbs := by omega
  by_cases hneg : off < 0
  · simp only [hneg, if_true, rfcOffset, show ((45 : UInt8) == 43 || (45 : UInt8) == 45) = true by decide,
      List.length_cons, List.length_nil, Nat.zero_add, Nat.reduceAdd, Nat.lt_irrefl, List.take_succ_cons, List.take_zero,
      List.drop_succ_cons, List.drop_zero, t1, t2, g1, g2, decide_false, Bool.or_self, Bool.false_eq_true,
      beq_self_eq_true, hdec]
    have hv : -(off.natAbs : Int) = off := by omega
    simp [hv]
  · simp only [hneg, if_false, rfcOffset, show ((43 : UInt8) == 43 || (43 : UInt8) == 45) = true by decide,
      List.length_cons, List.length_nil, Nat.zero_add, Nat.reduceAdd, Nat.lt_irrefl, List.take_succ_cons, List.take_zero,
      List.drop_succ_cons, List.drop_zero, t1, t2, g1, g2, decide_false, Bool.or_self, Bool.false_eq_true,
      show ((43 : UInt8) == 45) = false by decide, hdec]
    have hv : (off.natAbs : Int) = off := by omega
    simp [hv]

end GixModel.C52

namespace GixModel.C52
open GixModel GixModel.Civil

theorem pad2_head2822 (n : Nat) (hn : n < 100) (tail : Bytes) : ∀ x r, pad2 n ++ tail = x :: r → isWs2822 x = false := by
  intro x r h
  rw [pad2_eq n hn] at h
  simp only [List.cons_append, List.cons.injEq] at h
  rw [← h.1]; exact digit_not_ws2822 (dig_facts (n / 10) (by omega)).1

theorem natDec_head2822 (n : Nat) (hn : n < 32) (tail : Bytes) : ∀ x r, natDec n ++ tail = x :: r → isWs2822 x = false := by
  intro x r h
  rw [natDec_small n hn] at h
  split at h
  · simp only [List.cons_append, List.cons.injEq] at h
    rw [← h.1]; exact digit_not_ws2822 (dig_facts n (by omega)).1
  · simp only [List.cons_append, List.cons.injEq] at h
    rw [← h.1]; exact digit_not_ws2822 (dig_facts (n / 10) (by omega)).1

theorem month_head2822 (m : Nat) (h1 : 1 ≤ m) (h2 : m ≤ 12) (tail : Bytes) :
    ∀ x r, monthNames.getD (m - 1) [] ++ tail = x :: r → isWs2822 x = false := by
  intro x r h
  have : m = 1 ∨ m = 2 ∨ m = 3 ∨ m = 4 ∨ m = 5 ∨ m = 6 ∨ m = 7 ∨ m = 8 ∨ m = 9 ∨ m = 10 ∨ m = 11 ∨ m = 12 := by omega
  rcases this with rfl | rfl | rfl | rfl | rfl | rfl | rfl | rfl | rfl | rfl | rfl | rfl <;>
    (have h' : ∀ a b c : UInt8, ([a, b, c] : Bytes) ++ tail = x :: r → x = a := by
       intro a b c hh; simp only [List.cons_append, List.cons.injEq] at hh; exact hh.1.symm
     rw [h' _ _ _ h]; decide)

theorem offset_head2822 (off : Int) (colon : Bool) : ∀ x r, fmtOffset off colon = x :: r → isWs2822 x = false := by
  intro x r h
  simp only [fmtOffset, List.cons_append, List.nil_append, List.append_assoc, List.cons.injEq] at h
  rw [← h.1]; split <;> decide

theorem weekday_head_nows (w : Nat) (hw : w < 7) (tail : Bytes) :
    skipWs (weekdayNames.getD w [] ++ tail) = weekdayNames.getD w [] ++ tail ∧
    (weekdayNames.getD w [] ++ tail).isEmpty = false := by
  have : w = 0 ∨ w = 1 ∨ w = 2 ∨ w = 3 ∨ w = 4 ∨ w = 5 ∨ w = 6 := by omega
  rcases this with rfl | rfl | rfl | rfl | rfl | rfl | rfl <;> exact ⟨rfl, rfl⟩

/-- the RFC 2822 text of a broken-down time (year ≥ 0), with the day written by `dayTxt` -/
def rfcText (b : Broken) (dayTxt : Bytes) : Bytes :=
  weekdayNames.getD b.weekday [] ++ 44 :: 32 :: (dayTxt ++ 32 :: (monthNames.getD (b.month - 1) [] ++ 32 ::
    (pad4 b.year.natAbs ++ 32 :: (pad2 b.hour ++ 58 :: (pad2 b.minute ++ 58 :: (pad2 b.second ++ 32 ::
      fmtOffset b.offset false))))))

theorem parseRfc2822_text (b : Broken) (hb : BrokenOk b) (hy : 0 ≤ b.year) (hmin : b.offset % 60 = 0) (dayTxt : Bytes)
    (hday : ∀ rest, (∀ x r, rest = x :: r → isWs2822 x = false) → rfcDay (dayTxt ++ 32 :: rest) = some (b.day, rest))
    (hdayHead : ∀ tail, ∀ x r, dayTxt ++ tail = x :: r → isWs2822 x = false)
    (hlo : tsMin ≤ daysFromCivil b.year b.month b.day * 86400 + ((b.hour * 3600 + b.minute * 60 + b.second : Nat) : Int) - b.offset)
    (hhi : daysFromCivil b.year b.month b.day * 86400 + ((b.hour * 3600 + b.minute * 60 + b.second : Nat) : Int) - b.offset ≤ tsMax) :
    parseRfc2822 (rfcText b dayTxt) =
      some { seconds := daysFromCivil b.year b.month b.day * 86400 + ((b.hour * 3600 + b.minute * 60 + b.second : Nat) : Int) - b.offset,
             offset := b.offset, minus := decide (b.offset < 0) } := by
  have hm1 := hb.date.1
  have hm2 := hb.date.2.1
  have hd1 := hb.date.2.2.1
  have hd31 : b.day ≤ 31 := Nat.le_trans hb.date.2.2.2 (daysInMonth_le31 _ _)
  obtain ⟨hsk, hne⟩ := weekday_head_nows b.weekday hb.weekday
    (44 :: 32 :: (dayTxt ++ 32 :: (monthNames.getD (b.month - 1) [] ++ 32 ::
    (pad4 b.year.natAbs ++ 32 :: (pad2 b.hour ++ 58 :: (pad2 b.minute ++ 58 :: (pad2 b.second ++ 32 ::
      fmtOffset b.offset false)))))))
  unfold parseRfc2822 rfcText
  rw [hne]
  simp only [Bool.false_eq_true, if_false, hsk]
  rw [rfcWeekday_fmt b.weekday hb.weekday _ (hdayHead _)]
  simp only
  rw [hday _ (month_head2822 b.month hm1 hm2 _)]
  simp only
  have hyhead : ∀ x r, pad4 b.year.natAbs ++ 32 :: (pad2 b.hour ++ 58 :: (pad2 b.minute ++ 58 :: (pad2 b.second ++ 32 ::
      fmtOffset b.offset false))) = x :: r → isWs2822 x = false := by
    intro x r h
    unfold pad4 at h
    rw [List.append_assoc] at h
    exact pad2_head2822 _ (by have := hb.year; omega) _ x r h
  rw [rfcMonth_fmt b.month hm1 hm2 _ hyhead]
  simp only
  rw [rfcYear_pad4 b.year.natAbs hb.year _ (pad2_head2822 b.hour (by have := hb.hour; omega) _)]
  simp only
  rw [rfcTime_fmt b.hour b.minute b.second hb.hour hb.minute hb.second _ (offset_head2822 b.offset false)]
  simp only
  have hyear : ((b.year.natAbs : Nat) : Int) = b.year := by omega
  have hmon : b.month - 1 + 1 = b.month := by omega
  have hvalid : ¬ ((decide (b.year.natAbs > 9999) || decide (b.day > daysInMonth (b.year.natAbs : Int) (b.month - 1 + 1))) = true) := by
    rw [hyear, hmon]
    have := hb.year
    have := hb.date.2.2.2
    simp; omega
  rw [if_neg hvalid, rfcOffset_fmt b.offset hb.offset hmin]
  simp only [rfcTail, skipWs, List.dropWhile_nil, Bool.not_true, Bool.false_eq_true, if_false, hyear, hmon]
  have hr : ¬ (daysFromCivil b.year b.month b.day * 86400 + ((b.hour * 3600 + b.minute * 60 + b.second : Nat) : Int) - b.offset < tsMin ∨
      daysFromCivil b.year b.month b.day * 86400 + ((b.hour * 3600 + b.minute * 60 + b.second : Nat) : Int) - b.offset > tsMax) := by
    omega
  rw [if_neg hr]

end GixModel.C52

namespace GixModel.C52
open GixModel GixModel.Civil

theorem breakDown_epoch (s o : Int) :
    daysFromCivil (breakDown s o).year (breakDown s o).month (breakDown s o).day * 86400 +
      (((breakDown s o).hour * 3600 + (breakDown s o).minute * 60 + (breakDown s o).second : Nat) : Int) -
      (breakDown s o).offset = s := by
  have hdc := (days_civil_days ((s + o) / 86400)).2
  show daysFromCivil (civilFromDays ((s + o) / 86400)).1 (civilFromDays ((s + o) / 86400)).2.1
      (civilFromDays ((s + o) / 86400)).2.2 * 86400 +
    ((((s + o) % 86400).toNat / 3600 * 3600 + ((s + o) % 86400).toNat % 3600 / 60 * 60 +
      ((s + o) % 86400).toNat % 60 : Nat) : Int) - o = s
  rw [hdc]
  omega

def rfcItems (noPad : Bool) : List Item :=
  [.a, .lit 44, .lit 32, (if noPad then .dNoPad else .d), .lit 32, .b, .lit 32, .Y, .lit 32, .H, .lit 58, .M, .lit 58, .S,
   .lit 32, .z]

theorem strftime_rfc (b : Broken) (hy : 0 ≤ b.year) (noPad : Bool) :
    strftime (rfcItems noPad) b = rfcText b (if noPad then natDec b.day else pad2 b.day) := by
  have hneg : ¬ b.year < 0 := by omega
  cases noPad <;>
    simp [strftime, rfcItems, fmtItem, rfcText, hneg, List.append_assoc]

/-- the round trip through jiff's RFC 2822 parser, for any format string that parses to the RFC 2822 shape -/
theorem rfc2822_roundtrip (fmt : Bytes) (noPad : Bool) (hpf : parseFormat fmt = some (rfcItems noPad))
    (t : Time) (hr : InRange t) (hs : SignOk t) (hy : 0 ≤ (breakDown t.seconds t.offset).year) (hmin : t.offset % 60 = 0) :
    ∃ text, format (.custom fmt) t = .ok text ∧ parseRfc2822 text = some t := by
  have hb := brokenOk_breakDown t hr
  refine ⟨strftime (rfcItems noPad) (breakDown t.seconds t.offset), ?_, ?_⟩
  · obtain ⟨h1, h2, h3, h4⟩ := hr
    unfold format
    simp only
    have g1 : ¬ (t.offset < -offMax ∨ t.offset > offMax) := by omega
    have g2 : ¬ (t.seconds < tsMin ∨ t.seconds > tsMax) := by omega
    rw [if_neg g1, if_neg g2, hpf]
  · rw [strftime_rfc _ hy]
    have hd1 := hb.date.2.2.1
    have hd31 : (breakDown t.seconds t.offset).day ≤ 31 := Nat.le_trans hb.date.2.2.2 (daysInMonth_le31 _ _)
    have hep := breakDown_epoch t.seconds t.offset
    obtain ⟨h1, h2, h3, h4⟩ := hr
    have hoff : (breakDown t.seconds t.offset).offset = t.offset := rfl
    have hres : parseRfc2822 (rfcText (breakDown t.seconds t.offset)
        (if noPad then natDec (breakDown t.seconds t.offset).day else pad2 (breakDown t.seconds t.offset).day)) =
        some { seconds := t.seconds, offset := t.offset, minus := decide (t.offset < 0) } := by
      have := parseRfc2822_text (breakDown t.seconds t.offset) hb hy (by rw [hoff]; exact hmin)
        (if noPad then natDec (breakDown t.seconds t.offset).day else pad2 (breakDown t.seconds t.offset).day)
        (by
          intro rest hrest
          cases noPad
          · exact rfcDay_pad2 _ hd1 hd31 rest hrest
          · exact rfcDay_nopad _ hd1 hd31 rest hrest)
        (by
          intro tail
          cases noPad
          · exact pad2_head2822 _ (by omega) tail
          · exact natDec_head2822 _ (by omega) tail)
        (by rw [hep]; exact h1) (by rw [hep]; exact h2)
      rw [hep, hoff] at this
      exact this
    rw [hres]
    unfold SignOk at hs
    cases t with
    | mk s o mi =>
      simp only at hs ⊢
      rw [hs]

end GixModel.C52
