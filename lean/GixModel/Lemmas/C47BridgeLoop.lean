import GixModel.Lemmas.C47Bridge
/-
C47 — lemmas, part 15: the counter loop of `gitCount` in lock-step with `kLoop`: a counter is
1 + the number of selected children not yet shown (+1 while the commit being expanded still has to
visit the parent), so it drops to 1 exactly when `ready` holds.
-/
namespace GixModel.C47
open GixModel GixModel.CG GixModel.Spec.C47
open GixModel.C46 (filter_length_flip filter_length_mono)

/-- number of selected children of `p` not yet shown -/
def ucnt (g : Dag) (sel : Nat → Bool) (n : Nat) (out : List Nat) (p : Nat) : Nat :=
  ((List.range n).filter (fun c => sel c && (g.parents c).contains p && !out.contains c)).length

theorem ready_iff_ucnt (g : Dag) (sel : Nat → Bool) (n : Nat) (out : List Nat) (p : Nat) :
    ready g sel (List.range n) out p = true ↔ (sel p = true ∧ ucnt g sel n out p = 0) := by
  simp only [ready, ucnt, Bool.and_eq_true, List.all_eq_true, List.length_eq_zero_iff, List.filter_eq_nil_iff]
  constructor
  · intro ⟨h1, h2⟩
    refine ⟨h1, ?_⟩
    intro c hc hh
    have := h2 c hc
    simp at this hh
    rcases this with (h | h) | h
    · rw [hh.1.1] at h; cases h
    · exact h hh.1.2
    · exact hh.2 h
  · intro ⟨h1, h2⟩
    refine ⟨h1, ?_⟩
    intro c hc
    have := h2 c hc
    simp at this ⊢
    by_cases a : sel c = true
    · by_cases b : p ∈ g.parents c
      · exact Or.inr (this a b)
      · exact Or.inl (Or.inr b)
    · left; left; simpa using a

theorem ucnt_snoc (g : Dag) (sel : Nat → Bool) (n : Nat) (out : List Nat) (c : Nat) (hc : c < n)
    (hs : sel c = true) (hno : c ∉ out) (p : Nat) :
    ucnt g sel n out p = ucnt g sel n (out ++ [c]) p + (if (g.parents c).contains p then 1 else 0) := by
  unfold ucnt
  by_cases hp : (g.parents c).contains p = true
  · rw [if_pos hp]
    refine (filter_length_flip (List.range n) List.nodup_range c (List.mem_range.mpr hc) ?_ ?_ ?_).symm
    · have hp' : p ∈ g.parents c := by simpa using hp
      simp [hs, hp', hno]
    · simp
    · intro x hx
      have : (out ++ [c]).contains x = out.contains x := by
        simp [hx]
      rw [this]
  · rw [if_neg hp, Nat.add_zero]
    congr 1
    apply List.filter_congr
    intro x _
    by_cases hx : x = c
    · subst hx
      simp at hp
      simp [hp]
    · have : (out ++ [c]).contains x = out.contains x := by
        simp [hx]
      rw [this]

theorem ucnt_mono (g : Dag) (sel : Nat → Bool) (n : Nat) (out : List Nat) (c p : Nat) :
    ucnt g sel n (out ++ [c]) p ≤ ucnt g sel n out p := by
  unfold ucnt
  apply filter_length_mono
  intro x _ hx
  simp at hx ⊢
  exact ⟨hx.1, hx.2.1⟩

/-! ### the queues of the two transcriptions -/

def qids (d : Bool) (s : KahnState) : List Nat := if d then s.dateQ.map (·.2.2) else s.stack

def QRc (d : Bool) (s : KahnState) (k : KQ) : Prop := if d then DQ s.dateQ k else s.stack = k.stack

theorem cPush_frame (g : Dag) (d : Bool) (s : KahnState) (p : Nat) :
    (cPush g d s p).indeg = s.indeg ∧ (cPush g d s p).out = s.out := by
  cases d <;> exact ⟨rfl, rfl⟩

theorem cPush_qids (g : Dag) (d : Bool) (s : KahnState) (p : Nat) :
    (qids d (cPush g d s p)).Perm (p :: qids d s) := by
  cases d
  · exact List.Perm.refl _
  · simp only [qids, cPush, if_true]
    exact (dateInsert_perm _ _).map _

theorem cPush_rel (g : Dag) (d : Bool) {s : KahnState} {k : KQ} (h : QRc d s k) (p : Nat) :
    QRc d (cPush g d s p) (kPush g d k p) := by
  cases d
  · simp only [QRc, cPush, kPush, Bool.false_eq_true, if_false] at h ⊢
    rw [h]
  · simp only [QRc, cPush, kPush, if_true] at h ⊢
    exact h.push _ _ _

theorem cNext_rel (d : Bool) {s : KahnState} {k : KQ} (h : QRc d s k) :
    (cNext d s = none ∧ kPop d k = none) ∨
    ∃ c s1 k1, cNext d s = some (c, s1) ∧ kPop d k = some (c, k1) ∧ QRc d s1 k1 ∧
      qids d s = c :: qids d s1 ∧ s1.indeg = s.indeg ∧ s1.out = s.out := by
  cases d
  · simp only [QRc, Bool.false_eq_true, if_false] at h
    simp only [cNext, kPop, qids, Bool.false_eq_true, if_false]
    rw [← h]
    cases hs : s.stack with
    | nil => left; exact ⟨rfl, rfl⟩
    | cons c rest =>
      right
      refine ⟨c, { s with stack := rest }, { k with stack := rest }, rfl, rfl, ?_, rfl, rfl, rfl⟩
      simp only [QRc, Bool.false_eq_true, if_false]
  · simp only [QRc, if_true] at h
    simp only [cNext, kPop, qids, if_true]
    cases hs : s.dateQ with
    | nil =>
      left
      rw [hs] at h
      rw [h.pop_nil]
      exact ⟨rfl, rfl⟩
    | cons e rest =>
      right
      rw [hs] at h
      obtain ⟨m, rest', h1, h2, h3⟩ := h.pop_cons
      rw [h1]
      refine ⟨e.2.2, { s with dateQ := rest }, { k with dq := rest' }, rfl, ?_, ?_, rfl, rfl, rfl⟩
      · simp only [h2]
      · simp only [QRc, if_true]
        exact h3

/-! ### the counters -/

structure CInv (g : Dag) (sel : Nat → Bool) (n : Nat) (d : Bool) (s : KahnState) (ps : List Nat) : Prop where
  size : s.indeg.size = n
  deg : ∀ p, sel p = true →
    s.indeg[p]? = some (1 + ucnt g sel n s.out p + (if ps.contains p then 1 else 0))
  q_sel : ∀ q, q ∈ qids d s → sel q = true ∧ q ∉ s.out
  q_nodup : (qids d s).Nodup
  settled : ∀ q, (q ∈ qids d s ∨ q ∈ s.out) → ucnt g sel n s.out q = 0 ∧ q ∉ ps

section
variable {g : Dag} {sel : Nat → Bool} {n : Nat} {d : Bool}

theorem cStep_sim (hlt : ∀ x, sel x = true → x < n) {s : KahnState} {k : KQ} {p : Nat} {ps : List Nat}
    (hp : p ∉ ps) (hi : CInv g sel n d s (p :: ps)) (hq : QRc d s k) :
    CInv g sel n d (cStep g sel d s p) ps ∧
    QRc d (cStep g sel d s p) (if ready g sel (List.range n) s.out p then kPush g d k p else k) ∧
    (cStep g sel d s p).out = s.out := by
  have hcont : ∀ q, q ≠ p → (p :: ps).contains q = ps.contains q := by
    intro q hq'
    simp [hq']
  unfold cStep
  by_cases hs : sel p = true
  · rw [if_pos hs]
    have hdeg := hi.deg p hs
    have hpc : (p :: ps).contains p = true := by simp
    rw [if_pos hpc] at hdeg
    rw [hdeg]
    dsimp only
    have hpn : p < s.indeg.size := by rw [hi.size]; exact hlt p hs
    have hd1 : 1 + ucnt g sel n s.out p + 1 - 1 = 1 + ucnt g sel n s.out p := by omega
    have hdegs : ∀ q, sel q = true →
        (s.indeg.setIfInBounds p (1 + ucnt g sel n s.out p + 1 - 1))[q]?
          = some (1 + ucnt g sel n s.out q + (if ps.contains q then 1 else 0)) := by
      intro q hsq
      rw [Array.getElem?_setIfInBounds]
      by_cases hpq : p = q
      · subst hpq
        rw [if_pos rfl, if_pos hpn, hd1]
        have : ps.contains p = false := by simpa using hp
        rw [this]
        simp
      · rw [if_neg hpq, hi.deg q hsq, hcont q (fun h => hpq h.symm)]
    have hpset : p ∉ qids d s ∧ p ∉ s.out := by
      constructor
      · intro h
        exact (hi.settled p (Or.inl h)).2 List.mem_cons_self
      · intro h
        exact (hi.settled p (Or.inr h)).2 List.mem_cons_self
    by_cases hz : ucnt g sel n s.out p = 0
    · have hr : ready g sel (List.range n) s.out p = true := (ready_iff_ucnt g sel n s.out p).mpr ⟨hs, hz⟩
      rw [hr]
      have hcond : 1 + ucnt g sel n s.out p + 1 - 1 = 1 := by omega
      rw [if_pos hcond, if_pos rfl]
      obtain ⟨f1, f2⟩ := cPush_frame g d { s with indeg := s.indeg.setIfInBounds p (1 + ucnt g sel n s.out p + 1 - 1) } p
      have hperm := cPush_qids g d { s with indeg := s.indeg.setIfInBounds p (1 + ucnt g sel n s.out p + 1 - 1) } p
      have hqs : qids d { s with indeg := s.indeg.setIfInBounds p (1 + ucnt g sel n s.out p + 1 - 1) } = qids d s := by
        cases d <;> rfl
      rw [hqs] at hperm
      refine ⟨?_, ?_, f2⟩
      · refine ⟨?_, ?_, ?_, ?_, ?_⟩
        · rw [f1]; show (s.indeg.setIfInBounds _ _).size = n; rw [Array.size_setIfInBounds]; exact hi.size
        · intro q hsq
          rw [f1, f2]
          exact hdegs q hsq
        · intro q hq'
          rw [f2]
          cases List.mem_cons.mp (hperm.subset hq') with
          | inl h => subst h; exact ⟨hs, hpset.2⟩
          | inr h => exact hi.q_sel q h
        · exact (hperm.nodup_iff).mpr (List.nodup_cons.mpr ⟨hpset.1, hi.q_nodup⟩)
        · intro q hq'
          rw [f2]
          have hq'' : q = p ∨ q ∈ qids d s ∨ q ∈ s.out := by
            cases hq' with
            | inl h =>
              cases List.mem_cons.mp (hperm.subset h) with
              | inl h' => exact Or.inl h'
              | inr h' => exact Or.inr (Or.inl h')
            | inr h => rw [f2] at h; exact Or.inr (Or.inr h)
          cases hq'' with
          | inl h => subst h; exact ⟨hz, hp⟩
          | inr h =>
            have := hi.settled q h
            exact ⟨this.1, fun h' => this.2 (List.mem_cons_of_mem _ h')⟩
      · exact cPush_rel g d (by cases d <;> exact hq) p
    · have hr : ready g sel (List.range n) s.out p = false := by
        cases h : ready g sel (List.range n) s.out p with
        | false => rfl
        | true => exact absurd ((ready_iff_ucnt g sel n s.out p).mp h).2 hz
      rw [hr]
      have hcond : ¬ (1 + ucnt g sel n s.out p + 1 - 1 = 1) := by omega
      rw [if_neg hcond, if_neg (by simp)]
      refine ⟨?_, by cases d <;> exact hq, rfl⟩
      refine ⟨?_, ?_, ?_, ?_, ?_⟩
      · show (s.indeg.setIfInBounds _ _).size = n; rw [Array.size_setIfInBounds]; exact hi.size
      · exact hdegs
      · intro q hq'
        have : q ∈ qids d s := by cases d <;> exact hq'
        exact hi.q_sel q this
      · have : qids d { s with indeg := s.indeg.setIfInBounds p (1 + ucnt g sel n s.out p + 1 - 1) } = qids d s := by
          cases d <;> rfl
        rw [this]; exact hi.q_nodup
      · intro q hq'
        have hq'' : q ∈ qids d s ∨ q ∈ s.out := by
          cases hq' with
          | inl h => left; cases d <;> exact h
          | inr h => exact Or.inr h
        have := hi.settled q hq''
        exact ⟨this.1, fun h' => this.2 (List.mem_cons_of_mem _ h')⟩
  · have hs' : sel p = false := by simpa using hs
    rw [if_neg hs]
    have hr : ready g sel (List.range n) s.out p = false := by
      simp [ready, hs']
    rw [hr, if_neg (by simp)]
    refine ⟨?_, hq, rfl⟩
    refine ⟨hi.size, ?_, hi.q_sel, hi.q_nodup, ?_⟩
    · intro q hsq
      have hne : q ≠ p := by intro h; rw [h, hs'] at hsq; cases hsq
      rw [hi.deg q hsq, hcont q hne]
    · intro q hq'
      have := hi.settled q hq'
      exact ⟨this.1, fun h' => this.2 (List.mem_cons_of_mem _ h')⟩

theorem cFold_sim (hlt : ∀ x, sel x = true → x < n) : ∀ (ps : List Nat) (s : KahnState) (k : KQ),
    ps.Nodup → CInv g sel n d s ps → QRc d s k →
    CInv g sel n d (ps.foldl (cStep g sel d) s) [] ∧
    QRc d (ps.foldl (cStep g sel d) s) (kExpand g sel (List.range n) d s.out ps k) ∧
    (ps.foldl (cStep g sel d) s).out = s.out := by
  intro ps
  induction ps with
  | nil => intro s k _ hi hq; exact ⟨hi, hq, rfl⟩
  | cons p ps ih =>
    intro s k hnd hi hq
    obtain ⟨hp, hnd'⟩ := List.nodup_cons.mp hnd
    obtain ⟨a1, a2, a3⟩ := cStep_sim hlt hp hi hq
    simp only [List.foldl_cons]
    unfold kExpand
    obtain ⟨b1, b2, b3⟩ := ih _ _ hnd' a1 a2
    rw [a3] at b2 b3
    refine ⟨b1, ?_, b3⟩
    cases hr : ready g sel (List.range n) s.out p with
    | true => rw [hr] at b2; simpa using b2
    | false => rw [hr] at b2; simpa using b2

theorem cPop_inv (hlt : ∀ x, sel x = true → x < n) {s s1 : KahnState} {c : Nat}
    (hi : CInv g sel n d s []) (hq : qids d s = c :: qids d s1) (h1 : s1.indeg = s.indeg) (h2 : s1.out = s.out) :
    CInv g sel n d { s1 with out := s1.out ++ [c] } (g.parents c) := by
  have hcq : c ∈ qids d s := by rw [hq]; exact List.mem_cons_self
  obtain ⟨hcs, hco⟩ := hi.q_sel c hcq
  have hcn := hlt c hcs
  have hnd : (c :: qids d s1).Nodup := hq ▸ hi.q_nodup
  obtain ⟨hc1, hnd1⟩ := List.nodup_cons.mp hnd
  have hqs : qids d { s1 with out := s1.out ++ [c] } = qids d s1 := by cases d <;> rfl
  refine ⟨by show s1.indeg.size = n; rw [h1]; exact hi.size, ?_, ?_, by rw [hqs]; exact hnd1, ?_⟩
  · intro p hsp
    show s1.indeg[p]? = some (1 + ucnt g sel n (s1.out ++ [c]) p + _)
    rw [h1, h2, hi.deg p hsp, ucnt_snoc g sel n s.out c hcn hcs hco p]
    simp [Nat.add_assoc]
  · intro q hq'
    rw [hqs] at hq'
    have hqq : q ∈ qids d s := by rw [hq]; exact List.mem_cons_of_mem _ hq'
    obtain ⟨a, b⟩ := hi.q_sel q hqq
    refine ⟨a, ?_⟩
    show q ∉ s1.out ++ [c]
    rw [h2]
    intro h
    cases List.mem_append.mp h with
    | inl h' => exact b h'
    | inr h' =>
      have : q = c := by simpa using h'
      subst this
      exact hc1 hq'
  · intro q hq'
    show ucnt g sel n (s1.out ++ [c]) q = 0 ∧ _
    rw [h2]
    have hold : q ∈ qids d s ∨ q ∈ s.out := by
      cases hq' with
      | inl h => rw [hqs] at h; left; rw [hq]; exact List.mem_cons_of_mem _ h
      | inr h =>
        have h' : q ∈ s1.out ++ [c] := h
        rw [h2] at h'
        cases List.mem_append.mp h' with
        | inl h'' => exact Or.inr h''
        | inr h'' =>
          have : q = c := by simpa using h''
          subst this
          exact Or.inl hcq
    have hz := (hi.settled q hold).1
    have hsn := ucnt_snoc g sel n s.out c hcn hcs hco q
    constructor
    · have := ucnt_mono g sel n s.out c q
      omega
    · intro hmem
      have : (g.parents c).contains q = true := by simpa using hmem
      rw [if_pos this] at hsn
      omega

theorem cLoop_sim (hlt : ∀ x, sel x = true → x < n) (hnd : ∀ c, (g.parents c).Nodup) :
    ∀ (fuel : Nat) (s : KahnState) (k : KQ), CInv g sel n d s [] → QRc d s k →
      cLoop g sel d fuel s = kLoop g sel (List.range n) d fuel k s.out := by
  intro fuel
  induction fuel with
  | zero => intro s k _ _; rfl
  | succ f ih =>
    intro s k hi hq
    unfold cLoop kLoop
    cases cNext_rel d hq with
    | inl h => rw [h.1, h.2]
    | inr h =>
      obtain ⟨c, s1, k1, e1, e2, hq1, hids, f1, f2⟩ := h
      rw [e1, e2]
      dsimp only
      have hi2 := cPop_inv hlt hi hids f1 f2
      have hq2 : QRc d { s1 with out := s1.out ++ [c] } k1 := by cases d <;> exact hq1
      obtain ⟨b1, b2, b3⟩ := cFold_sim hlt (g.parents c) _ k1 (hnd c) hi2 hq2
      rw [ih _ _ b1 b2, b3]
      show kLoop g sel (List.range n) d f (kExpand g sel (List.range n) d (s1.out ++ [c]) (g.parents c) k1) (s1.out ++ [c]) = _
      rw [f2]

end

end GixModel.C47
