import GixModel.Lemmas.C20Modes
/-
C20 helper lemmas, part 9 (all packed-refs modes): the steps of `txnStepsM` without directory and
reflog operations (`coreM`), membership classification, and the derivation of "no directory
operation touches an edited ref or lock" from the input condition `NoDF`.
-/
namespace GixModel.C20
open GixModel

def prepCoreEditM (m : Mode) (c : Cfg) (global : Bool) : Edit → List FsOp
  | .update n (.id h) => if m = .r && global then [] else prepCoreEdit c global (.update n (.id h))
  | e => prepCoreEdit c global e

def renameCoreM (m : Mode) : Edit → List FsOp
  | .update n (.id _) => if m = .r then [] else [.rename (lockPath n) n]
  | e => renameCore e

def delCoreM (m : Mode) (s : Store) (global : Bool) : Edit → List FsOp
  | .update n (.id _) => if m = .r && (s.looseOf n).isSome then [.unlink n] else []
  | e => delCore s global e

def coreM (m : Mode) (c : Cfg) (s : Store) (txn : List Edit) : List FsOp :=
  let global := s.hasGlobalLockM m txn
  pk0 global ++ txn.flatMap (prepCoreEditM m c global) ++ txn.flatMap (renameCoreM m) ++
    packedCommitM m c s txn ++ txn.flatMap (delCoreM m s global)

theorem strip_reflogOps (c : Cfg) (s : Store) (g : G) (n : Name) (h : Bytes) : strip (reflogOps c s g n h) = [] := by
  apply List.filter_eq_nil_iff.mpr
  intro op ho
  rcases reflogOps_quiet c s g n h op ho with h1 | h1 <;> simp [h1]

theorem strip_prepEditM (m : Mode) (c : Cfg) (global : Bool) (g : G) (e : Edit) (h : isRefName e.name = true) :
    strip (prepEditM m c global g e) = prepCoreEditM m c global e := by
  cases e with
  | delete n => exact strip_prepEdit c global g _ h
  | update n new =>
    cases new with
    | sym t => exact strip_prepEdit c global g _ h
    | id hx =>
      simp only [prepEditM, prepCoreEditM]
      split
      · rfl
      · exact strip_prepEdit c global g _ h

theorem strip_prepEditsM (m : Mode) (c : Cfg) (global : Bool) (g : G) (es : List Edit)
    (h : ∀ e ∈ es, isRefName e.name = true) :
    strip (prepEditsM m c global g es) = es.flatMap (prepCoreEditM m c global) := by
  induction es generalizing g with
  | nil => simp [prepEditsM, strip]
  | cons e es ih =>
    simp only [prepEditsM, strip_append, List.flatMap_cons]
    rw [strip_prepEditM m c global g e (h e (List.mem_cons_self ..)),
      ih _ (fun x hx => h x (List.mem_cons_of_mem _ hx))]

theorem strip_commitUpdateM (m : Mode) (c : Cfg) (s : Store) (g : G) (e : Edit) (h : isRefName e.name = true) :
    strip (commitUpdateM m c s g e) = renameCoreM m e := by
  cases e with
  | delete n => exact strip_commitUpdate c s g _ h
  | update n new =>
    cases new with
    | sym t => exact strip_commitUpdate c s g _ h
    | id hx =>
      have hn : isRefName n = true := h
      simp only [commitUpdateM, renameCoreM, strip_append, strip_reflogOps, List.nil_append]
      split
      · rfl
      · apply strip_keep
        intro op ho; simp at ho; subst ho
        simp [FsOp.isDirOp, isLogOp, FsOp.touches, not_isLogPath_lockPath hn]

theorem strip_commitUpdatesM (m : Mode) (c : Cfg) (s : Store) (g : G) (es : List Edit)
    (h : ∀ e ∈ es, isRefName e.name = true) :
    strip (commitUpdatesM m c s g es) = es.flatMap (renameCoreM m) := by
  induction es generalizing g with
  | nil => simp [commitUpdatesM, strip]
  | cons e es ih =>
    simp only [commitUpdatesM, strip_append, List.flatMap_cons]
    rw [strip_commitUpdateM m c s g e (h e (List.mem_cons_self ..)),
      ih _ (fun x hx => h x (List.mem_cons_of_mem _ hx))]

theorem strip_looseDeleteM (m : Mode) (s : Store) (global : Bool) (g : G) (e : Edit)
    (h : isRefName e.name = true) : strip (looseDeleteM m s global g e) = delCoreM m s global e := by
  cases e with
  | delete n => exact strip_looseDelete s global g _ h
  | update n new =>
    cases new with
    | sym t => exact strip_looseDelete s global g _ h
    | id hx =>
      have hn : isRefName n = true := h
      simp only [looseDeleteM, delCoreM]
      split
      · apply strip_keep
        intro op ho; simp at ho; subst ho
        simp [FsOp.isDirOp, isLogOp, FsOp.touches, not_isLogPath_refName hn]
      · rfl

theorem strip_looseDeletesM (m : Mode) (s : Store) (global : Bool) (g : G) (es : List Edit)
    (h : ∀ e ∈ es, isRefName e.name = true) :
    strip (looseDeletesM m s global g es) = es.flatMap (delCoreM m s global) := by
  induction es generalizing g with
  | nil => simp [looseDeletesM, strip]
  | cons e es ih =>
    simp only [looseDeletesM, strip_append, List.flatMap_cons]
    rw [strip_looseDeleteM m s global g e (h e (List.mem_cons_self ..)),
      ih _ (fun x hx => h x (List.mem_cons_of_mem _ hx))]

theorem strip_packedCommitM (m : Mode) (c : Cfg) (s : Store) (txn : List Edit) :
    strip (packedCommitM m c s txn) = packedCommitM m c s txn := by
  apply strip_keep
  intro op ho
  have hp := not_isLogPath_packed
  have ht := packedCommitM_touches m c s txn op ho
  constructor
  · cases op with
    | mkdir p =>
      exfalso
      simp only [packedCommitM] at ho
      split at ho
      · cases ho
      · split at ho
        · simp at ho
        · simp only [List.mem_append, writeOps, List.mem_map] at ho
          rcases ho with ⟨x, _, hx⟩ | ho
          · cases hx
          · split at ho <;> simp at ho
    | rmdir p =>
      exfalso
      simp only [packedCommitM] at ho
      split at ho
      · cases ho
      · split at ho
        · simp at ho
        · simp only [List.mem_append, writeOps, List.mem_map] at ho
          rcases ho with ⟨x, _, hx⟩ | ho
          · cases hx
          · split at ho <;> simp at ho
    | _ => rfl
  · cases hts : op.touches with
    | nil => cases op <;> simp [FsOp.touches] at hts
    | cons t ts =>
      simp only [isLogOp, hts, List.all_cons, Bool.and_eq_false_imp]
      intro hl
      rcases ht t (by simp [hts]) with rfl | rfl
      · rw [hp.1] at hl; cases hl
      · rw [hp.2] at hl; cases hl

theorem strip_pk0 (global : Bool) : strip (pk0 global) = pk0 global := by
  apply strip_keep
  intro op ho
  simp only [pk0] at ho
  split at ho
  · simp at ho; subst ho
    simp [FsOp.isDirOp, isLogOp, FsOp.touches, not_isLogPath_packed.2]
  · cases ho

theorem strip_txnStepsM (m : Mode) (c : Cfg) (s : Store) (txn : List Edit)
    (h : ∀ e ∈ txn, isRefName e.name = true) : strip (txnStepsM m c s txn) = coreM m c s txn := by
  have hp0 := strip_pk0 (s.hasGlobalLockM m txn)
  simp only [pk0] at hp0
  simp only [txnStepsM, coreM, pk0, strip_append, strip_prepEditsM m c _ _ _ h, strip_commitUpdatesM m c s _ _ h,
    strip_logDeletes, strip_packedCommitM, strip_looseDeletesM m s _ _ _ h, hp0, List.append_nil]

theorem mem_steps_casesM (m : Mode) (c : Cfg) (s : Store) (txn : List Edit)
    (h : ∀ e ∈ txn, isRefName e.name = true) {op : FsOp} (ho : op ∈ txnStepsM m c s txn) :
    op.isDirOp = true ∨ isLogOp op = true ∨ op ∈ coreM m c s txn := by
  by_cases h1 : op.isDirOp = true
  · exact .inl h1
  · by_cases h2 : isLogOp op = true
    · exact .inr (.inl h2)
    · right; right
      rw [← strip_txnStepsM m c s txn h]
      simp only [strip, List.mem_filter]
      exact ⟨ho, by simp [h1, h2]⟩

/-- the core operations of one edit touch only the ref and its lock -/
theorem edit_core_touchesM (m : Mode) (c : Cfg) (s : Store) (global : Bool) (e : Edit) :
    ∀ op ∈ prepCoreEditM m c global e ++ renameCoreM m e ++ delCoreM m s global e,
      ∀ t ∈ op.touches, t = e.name ∨ t = lockPath e.name := by
  intro op ho t ht
  have base := edit_core_touches c s global e
  cases e with
  | delete n => exact base op (by simpa [prepCoreEditM, renameCoreM, delCoreM] using ho) t ht
  | update n new =>
    cases new with
    | sym x => exact base op (by simpa [prepCoreEditM, renameCoreM, delCoreM] using ho) t ht
    | id hx =>
      simp only [prepCoreEditM, renameCoreM, delCoreM, List.mem_append] at ho
      rcases ho with (ho | ho) | ho
      · split at ho
        · cases ho
        · exact base op (by simp [ho]) t ht
      · split at ho
        · cases ho
        · simp at ho; exact base op (by simp [renameCore, ho]) t ht
      · split at ho
        · simp at ho; subst ho; simp [FsOp.touches] at ht; exact .inl ht
        · cases ho

theorem mem_core_casesM (m : Mode) (c : Cfg) (s : Store) (txn : List Edit) {op : FsOp} (ho : op ∈ coreM m c s txn) :
    op = .create (lockPath packedPath) ∨ op ∈ packedCommitM m c s txn ∨
      ∃ e ∈ txn, op ∈ prepCoreEditM m c (s.hasGlobalLockM m txn) e ++ renameCoreM m e ++
        delCoreM m s (s.hasGlobalLockM m txn) e := by
  simp only [coreM, List.mem_append, List.mem_flatMap] at ho
  rcases ho with (((ho | ⟨e, he, ho⟩) | ⟨e, he, ho⟩) | ho) | ⟨e, he, ho⟩
  · simp only [pk0] at ho
    split at ho
    · simp at ho; exact .inl ho
    · cases ho
  · exact .inr (.inr ⟨e, he, by simp [ho]⟩)
  · exact .inr (.inr ⟨e, he, by simp [ho]⟩)
  · exact .inr (.inl ho)
  · exact .inr (.inr ⟨e, he, by simp [ho]⟩)

/-! ### directory operations -/

theorem dir_prepEdit {txn : List Edit} {c : Cfg} {global : Bool} {g : G} {e : Edit} (he : e ∈ txn) {op : FsOp}
    (h' : op ∈ prepEdit c global g e) (hd : op.isDirOp = true) : DirOf txn op := by
  cases e with
  | delete n =>
    simp only [prepEdit] at h'
    split at h'
    · cases h'
    · rcases List.mem_append.mp h' with h' | h'
      · obtain ⟨d, hdm, hne, rfl⟩ := mem_mkdirAll h'
        exact dirOf_mk he (.inl rfl) ⟨d, hdm, hne, .inl rfl⟩
      · simp at h'; subst h'; simp [FsOp.isDirOp] at hd
  | update n new =>
    simp only [prepEdit, List.mem_append] at h'
    rcases h' with (h' | h') | h'
    · obtain ⟨d, hdm, hne, rfl⟩ := mem_mkdirAll h'
      exact dirOf_mk he (.inl rfl) ⟨d, hdm, hne, .inl rfl⟩
    · simp at h'; subst h'; simp [FsOp.isDirOp] at hd
    · simp only [writeOps, List.mem_map] at h'
      obtain ⟨x, _, rfl⟩ := h'; simp [FsOp.isDirOp] at hd

theorem dir_logDelete {txn : List Edit} {g : G} {e : Edit} (he : e ∈ txn) {op : FsOp}
    (h' : op ∈ logDelete g e) (hd : op.isDirOp = true) : DirOf txn op := by
  cases e with
  | update n new => simp [logDelete] at h'
  | delete n =>
    simp only [logDelete] at h'
    split at h'
    · rcases List.mem_cons.mp h' with rfl | h'
      · simp [FsOp.isDirOp] at hd
      · obtain ⟨d, hdm, hne, rfl⟩ := mem_rmdirUp h'
        exact dirOf_mk he (.inr rfl) ⟨d, hdm, hne, .inr rfl⟩
    · cases h'

theorem dir_looseDelete {txn : List Edit} {s : Store} {global : Bool} {g : G} {e : Edit} (he : e ∈ txn)
    {op : FsOp} (h' : op ∈ looseDelete s global g e) (hd : op.isDirOp = true) : DirOf txn op := by
  cases e with
  | update n new => simp [looseDelete] at h'
  | delete n =>
    simp only [looseDelete] at h'
    split at h'
    · split at h'
      · simp at h'; subst h'; simp [FsOp.isDirOp] at hd
      · cases h'
    · simp only [List.mem_append] at h'
      rcases h' with (h' | h') | h'
      · split at h'
        · simp at h'; subst h'; simp [FsOp.isDirOp] at hd
        · cases h'
      · simp at h'; subst h'; simp [FsOp.isDirOp] at hd
      · obtain ⟨d, hdm, hne, rfl⟩ := mem_rmdirUp h'
        exact dirOf_mk he (.inl rfl) ⟨d, hdm, hne, .inr rfl⟩

theorem mem_prepEditsM {m : Mode} {c : Cfg} {global : Bool} {g : G} {es : List Edit} {op : FsOp}
    (h : op ∈ prepEditsM m c global g es) : ∃ e ∈ es, ∃ g', op ∈ prepEditM m c global g' e := by
  induction es generalizing g with
  | nil => simp [prepEditsM] at h
  | cons e es ih =>
    simp only [prepEditsM, List.mem_append] at h
    rcases h with h | h
    · exact ⟨e, List.mem_cons_self .., g, h⟩
    · obtain ⟨e', he', g', h'⟩ := ih h
      exact ⟨e', List.mem_cons_of_mem _ he', g', h'⟩

theorem mem_commitUpdatesM {m : Mode} {c : Cfg} {s : Store} {g : G} {es : List Edit} {op : FsOp}
    (h : op ∈ commitUpdatesM m c s g es) : ∃ e ∈ es, ∃ g', op ∈ commitUpdateM m c s g' e := by
  induction es generalizing g with
  | nil => simp [commitUpdatesM] at h
  | cons e es ih =>
    simp only [commitUpdatesM, List.mem_append] at h
    rcases h with h | h
    · exact ⟨e, List.mem_cons_self .., g, h⟩
    · obtain ⟨e', he', g', h'⟩ := ih h
      exact ⟨e', List.mem_cons_of_mem _ he', g', h'⟩

theorem mem_looseDeletesM {m : Mode} {s : Store} {global : Bool} {g : G} {es : List Edit} {op : FsOp}
    (h : op ∈ looseDeletesM m s global g es) : ∃ e ∈ es, ∃ g', op ∈ looseDeleteM m s global g' e := by
  induction es generalizing g with
  | nil => simp [looseDeletesM] at h
  | cons e es ih =>
    simp only [looseDeletesM, List.mem_append] at h
    rcases h with h | h
    · exact ⟨e, List.mem_cons_self .., g, h⟩
    · obtain ⟨e', he', g', h'⟩ := ih h
      exact ⟨e', List.mem_cons_of_mem _ he', g', h'⟩

theorem steps_dirOpsM (m : Mode) (c : Cfg) (s : Store) (txn : List Edit) {op : FsOp}
    (ho : op ∈ txnStepsM m c s txn) (hd : op.isDirOp = true) : DirOf txn op := by
  simp only [txnStepsM, List.mem_append] at ho
  rcases ho with ((((ho | ho) | ho) | ho) | ho) | ho
  · split at ho
    · simp at ho; subst ho; simp [FsOp.isDirOp] at hd
    · cases ho
  · obtain ⟨e, he, g', h'⟩ := mem_prepEditsM ho
    cases e with
    | delete n => exact dir_prepEdit he (by simpa [prepEditM] using h') hd
    | update n new =>
      cases new with
      | sym t => exact dir_prepEdit he (by simpa [prepEditM] using h') hd
      | id hx =>
        simp only [prepEditM] at h'
        split at h'
        · cases h'
        · exact dir_prepEdit he h' hd
  · obtain ⟨e, he, g', h'⟩ := mem_commitUpdatesM ho
    cases e with
    | delete n => simp [commitUpdateM, commitUpdate] at h'
    | update n new =>
      cases new with
      | sym t => simp [commitUpdateM, commitUpdate] at h'; subst h'; simp [FsOp.isDirOp] at hd
      | id hx =>
        simp only [commitUpdateM, List.mem_append] at h'
        rcases h' with h' | h'
        · obtain ⟨d, hdm, hne, rfl⟩ := mem_mkdirAll (mem_reflogOps_dir h' hd)
          exact dirOf_mk he (.inr rfl) ⟨d, hdm, hne, .inl rfl⟩
        · split at h'
          · cases h'
          · simp at h'; subst h'; simp [FsOp.isDirOp] at hd
  · obtain ⟨e, he, g', h'⟩ := mem_logDeletes ho
    exact dir_logDelete he h' hd
  · have := (List.filter_eq_self.mp (strip_packedCommitM m c s txn)) op ho
    simp [hd] at this
  · obtain ⟨e, he, g', h'⟩ := mem_looseDeletesM ho
    cases e with
    | delete n => exact dir_looseDelete he (by simpa [looseDeleteM] using h') hd
    | update n new =>
      cases new with
      | sym t => exact dir_looseDelete he (by simpa [looseDeleteM] using h') hd
      | id hx =>
        simp only [looseDeleteM] at h'
        split at h'
        · simp at h'; subst h'; simp [FsOp.isDirOp] at hd
        · cases h'

/-- no directory operation of the steps touches an edited ref, a lock, packed-refs or its lock -/
theorem no_dir_clashM (m : Mode) (c : Cfg) (s : Store) (txn : List Edit)
    (href : ∀ e ∈ txn, isRefName e.name = true) (hdf : NoDF txn) :
    ∀ op ∈ txnStepsM m c s txn, op.isDirOp = true → ∀ t ∈ op.touches, inW txn t = false := by
  intro op ho hd t ht
  obtain ⟨e, he, x, hx, d, hdm, hne, htouch⟩ := steps_dirOpsM m c s txn ho hd
  rw [htouch] at ht
  simp at ht; subst ht
  have hpre := dirsOf_prefix hdm hne
  have hhead := head_of_prefix hpre hne
  simp only [inW, names, Bool.or_eq_false_iff, List.contains_eq_mem, List.mem_map, decide_eq_false_iff_not,
    beq_eq_false_iff_ne]
  rcases hx with rfl | rfl
  · rw [head_refName (href e he)] at hhead
    refine ⟨⟨⟨?_, ?_⟩, ?_⟩, ?_⟩
    · rintro ⟨e', he', rfl⟩; exact (hdf e he e' he').1 hpre
    · rintro ⟨m', ⟨e', he', rfl⟩, rfl⟩; exact (hdf e he e' he').2 hpre
    · intro e'; rw [e'] at hhead; revert hhead; decide
    · intro e'; rw [e'] at hhead; revert hhead; decide
  · rw [head_logPath] at hhead
    refine ⟨⟨⟨?_, ?_⟩, ?_⟩, ?_⟩
    · rintro ⟨e', he', rfl⟩; rw [head_refName (href e' he')] at hhead; revert hhead; decide
    · rintro ⟨m', ⟨e', he', rfl⟩, rfl⟩; rw [head_lockPath (href e' he')] at hhead; revert hhead; decide
    · intro e'; rw [e'] at hhead; revert hhead; decide
    · intro e'; rw [e'] at hhead; revert hhead; decide

end GixModel.C20
