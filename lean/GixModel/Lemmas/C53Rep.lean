import GixModel.Lemmas.C53Vec
/-
C53 — representation invariant between gitoxide's sorted snapshot and the spec's git map:
both have the same view for every email (and, below it, for every name), as long as all keys
stored in the mailmap are valid UTF-8 (the domain in which `EncodedString::cmp_ref` is the
case-folding order; see known-findings `deviation:non-utf8-key`).
-/
namespace GixModel.C53
open GixModel
open GixModel.Spec.C53 (Entry Info Me Map addEntry mapUser mapUserNormalized slLookup slUpsert build)

def K (b : Bytes) : Prop := isUtf8 b = true

theorem cmpRef_K {a b : Bytes} (ha : K a) (hb : K b) : cmpRef a b = lexCmp (foldB a) (foldB b) := by
  unfold K at ha hb
  simp [cmpRef, ha, hb]

theorem cmpRef_nonK {a b : Bytes} (hb : ¬ K b) : cmpRef a b = lexCmp a b := by
  unfold K at hb
  have : isUtf8 b = false := by simpa using hb
  simp [cmpRef, this]

def nameTriple (ne : NameEntry) : Bytes × Option Bytes × Option Bytes := (ne.oldName, ne.newName, ne.newEmail)
def infoTriple (kv : Bytes × Info) : Bytes × Option Bytes × Option Bytes := (kv.1, kv.2.name, kv.2.email)

def NamesRel (ns : List NameEntry) (nm : List (Bytes × Info)) : Prop :=
  Sorted NameEntry.oldName ns ∧ (∀ x ∈ ns, K x.oldName) ∧
  ∀ q, (view NameEntry.oldName ns q).map nameTriple = (view Prod.fst nm q).map infoTriple

def EmailRel (ee : EmailEntry) (kv : Bytes × Me) : Prop :=
  ee.oldEmail = kv.1 ∧ ee.newName = kv.2.name ∧ ee.newEmail = kv.2.email ∧ NamesRel ee.names kv.2.namemap

def OptRel {α β : Type} (R : α → β → Prop) : Option α → Option β → Prop
  | none, none => True
  | some a, some b => R a b
  | _, _ => False

def SnapRel (s : Snapshot) (m : Map) : Prop :=
  Sorted EmailEntry.oldEmail s ∧ (∀ x ∈ s, K x.oldEmail) ∧
  ∀ q, OptRel EmailRel (view EmailEntry.oldEmail s q) (view Prod.fst m q)

/-- what `Snapshot::merge` requires of an entry, plus: its keys are valid UTF-8 -/
def EntryOk (e : Entry) : Prop :=
  K e.oldEmail ∧ (∀ n, e.oldName = some n → K n) ∧ (e.newName.isSome = true ∨ e.newEmail.isSome = true)

/-- the same as a decidable check -/
def entryOk (e : Entry) : Bool :=
  isUtf8 e.oldEmail && (match e.oldName with | none => true | some n => isUtf8 n) &&
    (e.newName.isSome || e.newEmail.isSome)

theorem entryOk_spec {e : Entry} (h : entryOk e = true) : EntryOk e := by
  unfold entryOk at h
  simp only [Bool.and_eq_true, Bool.or_eq_true] at h
  refine ⟨h.1.1, ?_, h.2⟩
  intro n hn
  have := h.1.2
  rw [hn] at this
  exact this

theorem snapRel_nil : SnapRel [] [] := by
  refine ⟨?_, ?_, ?_⟩
  · simp [Sorted]
  · intro x hx; simp at hx
  · intro q; simp [view, OptRel]

theorem insertAt_mem {α : Type} (xs : List α) (i : Nat) (a y : α) (h : y ∈ insertAt xs i a) : y ∈ xs ∨ y = a := by
  simp only [insertAt, List.mem_append, List.mem_cons] at h
  rcases h with h | h | h
  · left; exact List.mem_of_mem_take h
  · right; exact h
  · left; exact List.mem_of_mem_drop h

theorem upsertSorted_mem {α : Type} (f : α → Ordering) (xs : List α) (fresh : α) (upd : α → α) (y : α)
    (h : y ∈ upsertSorted f xs fresh upd) : y ∈ xs ∨ y = fresh ∨ ∃ x ∈ xs, y = upd x := by
  unfold upsertSorted at h
  split at h
  · rcases modifyAt_mem upd xs _ y h with h1 | ⟨x, hx, rfl⟩
    · left; exact h1
    · right; right; exact ⟨x, List.mem_of_getElem? hx, rfl⟩
  · rcases insertAt_mem xs _ fresh y h with h1 | h1
    · left; exact h1
    · right; left; exact h1

theorem cmpIs_of_K {α : Type} (key : α → Bytes) (xs : List α) (k : Bytes)
    (hK : ∀ x ∈ xs, K (key x)) (hk : K k) : CmpIs key (fun x => cmpRef (key x) k) xs k := by
  intro x hx
  exact cmpRef_K (hK x hx) hk

/-! ### names level -/

theorem namesRel_nil : NamesRel [] [] := by
  refine ⟨?_, ?_, ?_⟩
  · simp [Sorted]
  · intro x hx; simp at hx
  · intro q; simp [view]

theorem namesRel_upsert {ns : List NameEntry} {nm : List (Bytes × Info)} (h : NamesRel ns nm)
    (on : Bytes) (hon : K on) (nn ne : Option Bytes) :
    NamesRel
      (upsertSorted (fun (x : NameEntry) => cmpRef x.oldName on) ns
        { newName := nn, newEmail := ne, oldName := on }
        (fun x => { x with newName := nn, newEmail := ne }))
      (slUpsert nm on { name := none, email := none } (fun _ => { name := nn, email := ne })) := by
  obtain ⟨hs, hK, hv⟩ := h
  have hf := cmpIs_of_K NameEntry.oldName ns on hK hon
  refine ⟨?_, ?_, ?_⟩
  · exact upsertSorted_sorted hs hf _ _ (fun x => rfl) rfl
  · intro y hy
    rcases upsertSorted_mem _ _ _ _ y hy with h1 | rfl | ⟨x, hx, rfl⟩
    · exact hK y h1
    · exact hon
    · exact hK x hx
  · intro q
    have hview := upsertSorted_view hs hf (⟨nn, ne, on⟩ : NameEntry) (fun x => ⟨nn, ne, x.oldName⟩)
      (fun x => rfl) rfl q
    rw [hview, slUpsert_view]
    by_cases hq : (foldB on == foldB q) = true
    · rw [if_pos hq, if_pos hq]
      have := hv on
      cases h1 : view NameEntry.oldName ns on with
      | none =>
        rw [h1] at this
        cases h2 : view Prod.fst nm on with
        | none => simp [nameTriple, infoTriple]
        | some kv => rw [h2] at this; simp at this
      | some x =>
        rw [h1] at this
        cases h2 : view Prod.fst nm on with
        | none => rw [h2] at this; simp at this
        | some kv =>
          rw [h2] at this
          simp only [Option.map_some, Option.some.injEq, nameTriple, infoTriple, Prod.mk.injEq] at this ⊢
          simp [this.1]
    · rw [if_neg hq, if_neg hq]
      exact hv q

/-! ### email level -/

def freshMe : Me := { name := none, email := none, namemap := [] }

/-- the update `add_mapping` applies to the `mailmap_entry` -/
def updMe (e : Entry) (me : Me) : Me :=
  match e.oldName with
  | none =>
    { me with name := (match e.newName with | some n => some n | none => me.name),
              email := (match e.newEmail with | some m => some m | none => me.email) }
  | some on =>
    { me with namemap := slUpsert me.namemap on { name := none, email := none }
                (fun _ => { name := e.newName, email := e.newEmail }) }

theorem addEntry_eq (m : Map) (e : Entry) : addEntry m e = slUpsert m e.oldEmail freshMe (updMe e) := rfl

theorem merge_key (e : Entry) (x : EmailEntry) : (x.merge e).oldEmail = x.oldEmail := by
  unfold EmailEntry.merge
  split
  · rfl
  · split <;> rfl

theorem ofEntry_key (e : Entry) : (EmailEntry.ofEntry e).oldEmail = e.oldEmail := by
  unfold EmailEntry.ofEntry
  split <;> rfl

theorem mergeOne_eq (s : Snapshot) (e : Entry) (h : e.newName.isSome = true ∨ e.newEmail.isSome = true) :
    mergeOne s e = some (upsertSorted (fun (x : EmailEntry) => cmpRef x.oldEmail e.oldEmail) s
      (EmailEntry.ofEntry e) (fun ee => ee.merge e)) := by
  unfold mergeOne upsertSorted
  have : (e.newName.isNone && e.newEmail.isNone) = false := by
    rcases h with h | h
    · cases hn : e.newName with
      | none => rw [hn] at h; simp at h
      | some _ => simp
    · cases hn : e.newEmail with
      | none => rw [hn] at h; simp at h
      | some _ => simp
  rw [this]
  simp only [Bool.false_eq_true, if_false]
  cases bsearch (fun (x : EmailEntry) => cmpRef x.oldEmail e.oldEmail) s <;> rfl

theorem merge_names_eq (x : EmailEntry) (e : Entry) (on : Bytes) (h : e.oldName = some on) :
    x.merge e = { x with names := (upsertSorted (fun (y : NameEntry) => cmpRef y.oldName on) x.names
        { newName := e.newName, newEmail := e.newEmail, oldName := on }
        (fun ne => { ne with newName := e.newName, newEmail := e.newEmail })) } := by
  unfold EmailEntry.merge upsertSorted
  rw [h]
  simp only
  cases bsearch (fun (y : NameEntry) => cmpRef y.oldName on) x.names <;> rfl

theorem emailRel_fresh (e : Entry) (he : EntryOk e) :
    EmailRel (EmailEntry.ofEntry e) (e.oldEmail, updMe e freshMe) := by
  cases hon : e.oldName with
  | none =>
    have h1 : EmailEntry.ofEntry e =
        { newName := e.newName, newEmail := e.newEmail, oldEmail := e.oldEmail, names := [] } := by
      unfold EmailEntry.ofEntry; simp only [hon]
    have h2 : updMe e freshMe = { name := e.newName, email := e.newEmail, namemap := [] } := by
      unfold updMe freshMe; simp only [hon]
      cases e.newName <;> cases e.newEmail <;> rfl
    rw [h1, h2]
    exact ⟨rfl, rfl, rfl, namesRel_nil⟩
  | some on =>
    have h1 : EmailEntry.ofEntry e =
        { newName := none, newEmail := none, oldEmail := e.oldEmail,
          names := [{ newName := e.newName, newEmail := e.newEmail, oldName := on }] } := by
      unfold EmailEntry.ofEntry; simp only [hon]
    have h2 : updMe e freshMe =
        { name := none, email := none, namemap := [(on, { name := e.newName, email := e.newEmail })] } := by
      unfold updMe freshMe; simp only [hon]; rfl
    rw [h1, h2]
    refine ⟨rfl, rfl, rfl, ?_⟩
    have hk : K on := he.2.1 on hon
    have := namesRel_upsert namesRel_nil on hk e.newName e.newEmail
    simpa [upsertSorted, bsearch, insertAt, slUpsert] using this

theorem emailRel_merge (e : Entry) (he : EntryOk e) (x : EmailEntry) (kv : Bytes × Me) (h : EmailRel x kv) :
    EmailRel (x.merge e) (kv.1, updMe e kv.2) := by
  obtain ⟨h1, h2, h3, h4⟩ := h
  cases hon : e.oldName with
  | none =>
    unfold EmailEntry.merge updMe EmailRel
    simp only [hon]
    refine ⟨h1, ?_, ?_, h4⟩
    · cases e.newName <;> simp [h2]
    · cases e.newEmail <;> simp [h3]
  | some on =>
    rw [merge_names_eq x e on hon]
    unfold updMe EmailRel
    simp only [hon]
    exact ⟨h1, h2, h3, namesRel_upsert h4 on (he.2.1 on hon) e.newName e.newEmail⟩

theorem snapRel_step {s : Snapshot} {m : Map} (h : SnapRel s m) (e : Entry) (he : EntryOk e) :
    ∃ s', mergeOne s e = some s' ∧ SnapRel s' (addEntry m e) := by
  refine ⟨_, mergeOne_eq s e he.2.2, ?_⟩
  obtain ⟨hs, hK, hv⟩ := h
  have hf := cmpIs_of_K EmailEntry.oldEmail s e.oldEmail hK he.1
  refine ⟨?_, ?_, ?_⟩
  · exact upsertSorted_sorted hs hf _ _ (merge_key e) (by rw [ofEntry_key])
  · intro y hy
    rcases upsertSorted_mem _ _ _ _ y hy with h1 | rfl | ⟨x, hx, rfl⟩
    · exact hK y h1
    · rw [ofEntry_key]; exact he.1
    · rw [merge_key]; exact hK x hx
  · intro q
    rw [upsertSorted_view hs hf _ _ (merge_key e) (by rw [ofEntry_key]) q, addEntry_eq, slUpsert_view]
    by_cases hq : (foldB e.oldEmail == foldB q) = true
    · rw [if_pos hq, if_pos hq]
      have := hv e.oldEmail
      cases h1 : view EmailEntry.oldEmail s e.oldEmail with
      | none =>
        rw [h1] at this
        cases h2 : view Prod.fst m e.oldEmail with
        | none => exact emailRel_fresh e he
        | some kv => rw [h2] at this; exact this.elim
      | some x =>
        rw [h1] at this
        cases h2 : view Prod.fst m e.oldEmail with
        | none => rw [h2] at this; exact this.elim
        | some kv =>
          rw [h2] at this
          exact emailRel_merge e he x kv this
    · rw [if_neg hq, if_neg hq]
      exact hv q

theorem snapRel_fold (es : List Entry) :
    ∀ (s : Snapshot) (m : Map), SnapRel s m → (∀ e ∈ es, EntryOk e) →
      ∃ s', es.foldl (fun acc e => match acc with | none => none | some s => mergeOne s e) (some s) = some s' ∧
        SnapRel s' (es.foldl addEntry m) := by
  induction es with
  | nil => intro s m h _; exact ⟨s, rfl, h⟩
  | cons e es ih =>
    intro s m h hes
    obtain ⟨s1, h1, h2⟩ := snapRel_step h e (hes e (by simp))
    simp only [List.foldl_cons, h1]
    exact ih s1 (addEntry m e) h2 (fun e' he' => hes e' (by simp [he']))

/-- `Snapshot::new(entries)` never panics on well-formed entries and represents git's map -/
theorem snapshot_rel (es : List Entry) (hes : ∀ e ∈ es, EntryOk e) :
    ∃ s, snapshot es = some s ∧ SnapRel s (build es) :=
  snapRel_fold es [] [] snapRel_nil hes

/-! ### lookups -/

theorem view_nonK {α : Type} (key : α → Bytes) (xs : List α) (k : Bytes)
    (hK : ∀ x ∈ xs, K (key x)) (hk : ¬ K k) : view key xs k = none := by
  unfold view
  rw [List.find?_eq_none]
  intro x hx hfx
  have : foldB (key x) = foldB k := by simpa using hfx
  have h2 := isUtf8_congr this
  exact hk (by unfold K; rw [← h2]; exact hK x hx)

theorem bsearch_nonK {α : Type} (key : α → Bytes) (xs : List α) (k : Bytes)
    (hK : ∀ x ∈ xs, K (key x)) (hk : ¬ K k) :
    ∃ i, bsearch (fun x => cmpRef (key x) k) xs = .insertAt i := by
  cases hb : bsearch (fun x => cmpRef (key x) k) xs with
  | insertAt i => exact ⟨i, rfl⟩
  | found i =>
    obtain ⟨x, hx, hfx⟩ := bsearch_found hb
    simp only [cmpRef_nonK hk] at hfx
    have := (lexCmp_eq_iff _ _).mp hfx
    exact absurd (this ▸ hK x (List.mem_of_getElem? hx)) hk

/-- binary-search lookup with the real comparator = the view, for any probe -/
theorem lookup_cmpRef {α : Type} (key : α → Bytes) (xs : List α) (k : Bytes)
    (hs : Sorted key xs) (hK : ∀ x ∈ xs, K (key x)) :
    (match bsearch (fun x => cmpRef (key x) k) xs with
     | .found i => xs[i]?
     | .insertAt _ => none) = view key xs k := by
  by_cases hk : K k
  · exact lookup_view hs (cmpIs_of_K key xs k hK hk)
  · obtain ⟨i, hi⟩ := bsearch_nonK key xs k hK hk
    rw [hi, view_nonK key xs k hK hk]

def finish (r : Option (Option Bytes × Option Bytes)) (n e : Bytes) : Bytes × Bytes :=
  match r with
  | none => (n, e)
  | some (ne, nn) => (nn.getD n, ne.getD e)

theorem resolve_def (s : Snapshot) (n e : Bytes) : resolve s n e = finish (tryResolve s n e) n e := rfl

theorem resolve_tryNew (newEmail newName : Option Bytes) (matched n e : Bytes) :
    finish (tryNew newEmail matched e newName) n e = (newName.getD n, newEmail.getD matched) := by
  unfold finish tryNew
  cases newEmail with
  | some m => cases newName <;> simp
  | none =>
    by_cases hm : matched = e
    · subst hm
      cases newName <;> simp
    · have : (matched != e) = true := by simpa using hm
      cases newName <;> simp [this]

theorem resolve_eq_normalized {s : Snapshot} {m : Map} (h : SnapRel s m) (n e : Bytes) :
    resolve s n e = mapUserNormalized m n e := by
  obtain ⟨hs, hK, hv⟩ := h
  have hl := lookup_cmpRef EmailEntry.oldEmail s e hs hK
  have hve := hv e
  rw [resolve_def]
  unfold tryResolve mapUserNormalized
  rw [slLookup_eq_view]
  cases hb : bsearch (fun (x : EmailEntry) => cmpRef x.oldEmail e) s with
  | insertAt i =>
    rw [hb] at hl
    simp only at hl
    rw [← hl] at hve
    cases h2 : view Prod.fst m e with
    | none => rfl
    | some kv => rw [h2] at hve; exact hve.elim
  | found pos =>
    rw [hb] at hl
    simp only at hl
    obtain ⟨entry, hentry, _⟩ := bsearch_found hb
    rw [hentry] at hl
    rw [← hl] at hve
    cases h2 : view Prod.fst m e with
    | none => rw [h2] at hve; exact hve.elim
    | some kv =>
      rw [h2] at hve
      obtain ⟨hk1, hk2, hk3, hns, hnK, hnv⟩ := hve
      simp only [hentry]
      have hln := lookup_cmpRef NameEntry.oldName entry.names n hns hnK
      have hvn := hnv n
      rw [slLookup_eq_view]
      cases hbn : bsearch (fun (x : NameEntry) => cmpRef x.oldName n) entry.names with
      | insertAt j =>
        rw [hbn] at hln
        simp only at hln
        rw [← hln] at hvn
        cases h3 : view Prod.fst kv.2.namemap n with
        | some sub => rw [h3] at hvn; simp at hvn
        | none =>
          simp only
          rw [resolve_tryNew, hk1, hk2, hk3]
      | found p =>
        rw [hbn] at hln
        simp only at hln
        obtain ⟨ne, hne, _⟩ := bsearch_found hbn
        rw [hne] at hln
        rw [← hln] at hvn
        cases h3 : view Prod.fst kv.2.namemap n with
        | none => rw [h3] at hvn; simp at hvn
        | some sub =>
          rw [h3] at hvn
          simp only [Option.map_some, Option.some.injEq, nameTriple, infoTriple, Prod.mk.injEq] at hvn
          simp only [hne]
          rw [resolve_tryNew, hk1, hvn.2.1, hvn.2.2]

end GixModel.C53
