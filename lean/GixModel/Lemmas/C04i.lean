import GixModel.Lemmas.C04h
/-
C04 helper lemmas, part i: edits through a cursor. What the editor state denotes below a cached
directory, and outside of it.
-/
namespace GixModel.C04
open GixModel GixModel.Tree
open GixModel.Spec.C04 (Leaf FS)

/-! ### the specification below a prefix -/

theorem spec_upsert_prefix (P p : Path) (v : Option Leaf) (fs : FS) (r : Path) :
    Spec.C04.upsert (P ++ p) v fs (P ++ r) = Spec.C04.upsert p v (fun r' => fs (P ++ r')) r := by
  simp only [Spec.C04.upsert, List.append_right_inj, List.prefix_append_right_inj]

theorem spec_remove_prefix (P p : Path) (fs : FS) (r : Path) :
    Spec.C04.remove (P ++ p) fs (P ++ r) = Spec.C04.remove p (fun r' => fs (P ++ r')) r := by
  simp only [Spec.C04.remove, List.prefix_append_right_inj]

/-- An edit relative to the tree cached at `P`, seen from the root. `spec`/`specP` are the
specification of the edit relative to `P` and to the root; `hin`/`hout` say how they are related. -/
theorem edit_at_prefix {ed : Ed} (hinv : Inv ed) {P : Path} {t : List Entry}
    (hP : aget P ed.trees = some t) {spec : FS → FS} {specRoot : FS → FS}
    (hcong : ∀ (f g : FS) (r : Path), f r = g r → spec f r = spec g r)
    (hin : ∀ (fs : FS) (r : Path), r ≠ [] → specRoot fs (P ++ r) = spec (fun r' => fs (P ++ r')) r)
    (hout : ∀ (fs : FS) (q : Path), (∀ Q, Q <+: P → fs Q = none) → (¬ P <+: q ∨ q = P) →
      specRoot fs q = fs q)
    {r : EditRes} (h : EditOut { ed with pathBuf := P } P t spec r) :
    ∃ ed', r = .ok ed' ∧ Inv ed' ∧ ed'.store = ed.store ∧ (aget P ed'.trees).isSome = true ∧
      abs ed' = specRoot (abs ed) := by
  obtain ⟨ed', t', hr, hinv', hs, hP', hframe, hsem⟩ := h
  refine ⟨ed', hr, hinv', hs, by simp [hP'], ?_⟩
  have hdirs : ∀ Q, Q <+: P → abs ed Q = none := fun Q hQ => abs_dir_none hinv hP Q hQ
  funext q
  by_cases hPq : P <+: q
  · obtain ⟨r', rfl⟩ := hPq
    by_cases hr' : r' = []
    · subst hr'
      simp only [List.append_nil]
      rw [hout (abs ed) P hdirs (Or.inr rfl), abs_dir_none hinv' hP' P (List.prefix_refl _),
        hdirs P (List.prefix_refl _)]
    · rw [abs_under hinv' hP' hr', hsem r', hin (abs ed) r' hr']
      apply hcong
      have hP0 : aget P ({ ed with pathBuf := P } : Ed).trees = some t := hP
      have := abs_under (inv_pathBuf hinv P) hP0 hr'
      rw [abs_pathBuf] at this
      exact this.symm
  · rw [hout (abs ed) q hdirs (Or.inl hPq)]
    by_cases hP0 : P = []
    · subst hP0; exact absurd (List.nil_prefix) hPq
    · have := abs_frame (ed := { ed with pathBuf := P }) (ed' := ed') hs hP0 hframe hPq
      exact this.trans (congrFun (abs_pathBuf ed P) q)

/-- `Cursor::upsert` of a non-tree kind, for a cursor whose tree is cached at `pfx` -/
theorem cursorUpsert_spec {ed : Ed} (hinv : Inv ed) {pfx : Path} {t : List Entry}
    (hP : aget pfx ed.trees = some t) {p : Path} (hp : ValidPath p) {mode : Nat} {id : Bytes}
    (hk : isTreeMode mode = false) :
    ∃ ed', cursorUpsert ed pfx p mode id = .ok ed' ∧ Inv ed' ∧ ed'.store = ed.store ∧
      (aget pfx ed'.trees).isSome = true ∧
      abs ed' = Spec.C04.upsert (pfx ++ p) (leafVal mode id) (abs ed) := by
  have h := editLoop_upsert ⟨mode, id, .normal⟩ rfl hk p hp.1 hp.2 { ed with pathBuf := pfx } pfx t
    (inv_pathBuf hinv pfx) rfl hP
  refine edit_at_prefix hinv hP ?_ ?_ ?_ h
  · intro f g r hfg; exact spec_upsert_congr _ _ r hfg
  · intro fs r _; exact spec_upsert_prefix pfx p _ fs r
  · intro fs q hdirs hq
    unfold Spec.C04.upsert
    have h1 : q ≠ pfx ++ p := by
      rcases hq with h | h
      · intro e; exact h (e ▸ List.prefix_append _ _)
      · intro e; rw [h] at e
        have := congrArg List.length e
        simp at this
        exact hp.1 this
    have h2 : ¬ (pfx ++ p) <+: q := by
      rcases hq with h | h
      · intro e; exact h ((List.prefix_append _ _).trans e)
      · intro e; rw [h] at e
        have := List.IsPrefix.length_le e
        simp at this
        exact hp.1 (List.length_eq_zero_iff.1 (by omega))
    simp only [h1, if_false, h2, false_or]
    by_cases h3 : q <+: pfx ++ p
    · simp only [h3, if_true]
      rcases List.prefix_or_prefix_of_prefix h3 (List.prefix_append pfx p) with h4 | h4
      · exact (hdirs q h4).symm
      · rcases hq with h | h
        · exact absurd h4 h
        · rw [h]; exact (hdirs pfx (List.prefix_refl _)).symm
    · simp [h3]

theorem spec_graft_prefix (P p : Path) (sub : FS) (fs : FS) (r : Path) :
    Spec.C04.graft (P ++ p) sub fs (P ++ r) = Spec.C04.graft p sub (fun r' => fs (P ++ r')) r := by
  have hd : (P ++ r).drop (P ++ p).length = r.drop p.length := by
    rw [List.length_append, ← List.drop_drop]
    simp
  simp only [Spec.C04.graft, List.append_right_inj, List.prefix_append_right_inj, hd]

/-- `Cursor::upsert` of kind Tree with the id of a stored tree -/
theorem cursorUpsert_tree_spec {ed : Ed} (hinv : Inv ed) {pfx : Path} {t : List Entry}
    (hP : aget pfx ed.trees = some t) {p : Path} (hp : ValidPath p) {id : Bytes} {ts : List Entry}
    (hst : Grafts ed.store id ts) (hne : id ≠ emptyTreeId) :
    ∃ ed', cursorUpsert ed pfx p 0o040000 id = .ok ed' ∧ Inv ed' ∧ ed'.store = ed.store ∧
      (aget pfx ed'.trees).isSome = true ∧
      abs ed' = Spec.C04.graft (pfx ++ p) (absStore ed.store ts) (abs ed) := by
  have h := editLoop_upsert_tree ⟨0o040000, id, .normal⟩ rfl rfl hne p hp.1 hp.2
    { ed with pathBuf := pfx } pfx t ts (inv_pathBuf hinv pfx) rfl hP hst
  refine edit_at_prefix hinv hP ?_ ?_ ?_ h
  · intro f g r hfg; exact spec_graft_congr _ _ r hfg
  · intro fs r _; exact spec_graft_prefix pfx p _ fs r
  · intro fs q hdirs hq
    unfold Spec.C04.graft
    have h2 : ¬ (pfx ++ p) <+: q := by
      rcases hq with h | h
      · intro e; exact h ((List.prefix_append _ _).trans e)
      · intro e; rw [h] at e
        have := List.IsPrefix.length_le e
        simp at this
        exact hp.1 (List.length_eq_zero_iff.1 (by omega))
    simp only [h2, if_false]
    by_cases h3 : q <+: pfx ++ p
    · simp only [h3, if_true]
      rcases List.prefix_or_prefix_of_prefix h3 (List.prefix_append pfx p) with h4 | h4
      · exact (hdirs q h4).symm
      · rcases hq with h | h
        · exact absurd h4 h
        · rw [h]; exact (hdirs pfx (List.prefix_refl _)).symm
    · simp [h3]

/-- `Cursor::remove` -/
theorem cursorRemove_spec {ed : Ed} (hinv : Inv ed) {pfx : Path} {t : List Entry}
    (hP : aget pfx ed.trees = some t) {p : Path} (hp : ValidPath p) :
    ∃ ed', cursorRemove ed pfx p = .ok ed' ∧ Inv ed' ∧ ed'.store = ed.store ∧
      (aget pfx ed'.trees).isSome = true ∧
      abs ed' = Spec.C04.remove (pfx ++ p) (abs ed) := by
  have h := editLoop_remove p hp.1 hp.2 { ed with pathBuf := pfx } pfx t (inv_pathBuf hinv pfx) rfl hP
  refine edit_at_prefix hinv hP ?_ ?_ ?_ h
  · intro f g r hfg; exact spec_remove_congr _ r hfg
  · intro fs r _; exact spec_remove_prefix pfx p fs r
  · intro fs q _ hq
    unfold Spec.C04.remove
    have h2 : ¬ (pfx ++ p) <+: q := by
      rcases hq with h | h
      · intro e; exact h ((List.prefix_append _ _).trans e)
      · intro e; rw [h] at e
        have := List.IsPrefix.length_le e
        simp at this
        exact hp.1 (List.length_eq_zero_iff.1 (by omega))
    simp [h2]

/-! ### histories over the full operation set -/

/-- what relates the concrete run state to the abstract one -/
structure GoodF (hash : List Entry → Bytes) (S0 : Assoc Bytes (List Entry)) (r : RunF)
    (s : FS × Option Path) : Prop where
  inv : InvW hash r.ed
  mono : StoreMono S0 r.ed.store
  abs_eq : abs r.ed = s.1
  cursor_eq : r.cursor = s.2
  cached : ∀ pfx, r.cursor = some pfx → (aget pfx r.ed.trees).isSome = true

theorem applyF_spec {hash : List Entry → Bytes} (hh : HashOk hash) {S0 : Assoc Bytes (List Entry)}
    (hS0 : StoreOk S0) {r : RunF} {s : FS × Option Path} (hg : GoodF hash S0 r s) {op : OpF}
    {ops : List OpF} (hv : ValidF S0 r.cursor (op :: ops)) :
    ∃ r', applyF hash r op = some r' ∧ GoodF hash S0 r' (specF S0 s op) ∧ ValidF S0 r'.cursor ops := by
  cases op with
  | base bop =>
    cases bop with
    | cursorAt p =>
      simp only [ValidF] at hv
      obtain ⟨ed', h1, h2, h3, h4, h5, h6⟩ := cursorAt_spec hg.inv.inv hv.1
      refine ⟨⟨ed', some ed'.pathBuf⟩, by simp [applyF, h1], ⟨⟨h2, h3 ▸ hg.inv.hashed, h3 ▸ hg.inv.canon⟩,
        h3 ▸ hg.mono, ?_, ?_, ?_⟩, ?_⟩
      · simp only [specF]; rw [h4, hg.abs_eq]
      · simp only [specF, h5]
      · intro pfx hpfx
        simp only [Option.some.injEq] at hpfx
        rw [← hpfx, h5]; exact h6
      · simp only [h5]; exact hv.2
    | upsert p mode id =>
      simp only [ValidF] at hv
      obtain ⟨ed', h1, h2, h3, h4⟩ := applyOp_spec hh hg.inv hg.mono hS0 hv.1
      refine ⟨⟨ed', none⟩, by simp [applyF, h1], ⟨h2, h3, ?_, rfl, fun _ h => by cases h⟩, hv.2⟩
      simp only [specF]; rw [h4, hg.abs_eq]
    | remove p =>
      simp only [ValidF] at hv
      obtain ⟨ed', h1, h2, h3, h4⟩ := applyOp_spec hh hg.inv hg.mono hS0 hv.1
      refine ⟨⟨ed', none⟩, by simp [applyF, h1], ⟨h2, h3, ?_, rfl, fun _ h => by cases h⟩, hv.2⟩
      simp only [specF]; rw [h4, hg.abs_eq]
    | write =>
      simp only [ValidF] at hv
      obtain ⟨ed', h1, h2, h3, h4⟩ := applyOp_spec hh hg.inv hg.mono hS0 hv.1
      refine ⟨⟨ed', none⟩, by simp [applyF, h1], ⟨h2, h3, ?_, rfl, fun _ h => by cases h⟩, hv.2⟩
      simp only [specF]; rw [h4, hg.abs_eq]
    | setRoot t =>
      simp only [ValidF] at hv
      obtain ⟨ed', h1, h2, h3, h4⟩ := applyOp_spec hh hg.inv hg.mono hS0 hv.1
      refine ⟨⟨ed', none⟩, by simp [applyF, h1], ⟨h2, h3, ?_, rfl, fun _ h => by cases h⟩, hv.2⟩
      simp only [specF]; rw [h4, hg.abs_eq]
  | cUpsert p mode id =>
    simp only [ValidF] at hv
    obtain ⟨hc, hp, hk, hrest⟩ := hv
    cases hcur : r.cursor with
    | none => simp [hcur] at hc
    | some pfx =>
      have hcached := hg.cached pfx hcur
      cases hP : aget pfx r.ed.trees with
      | none => simp [hP] at hcached
      | some t =>
        have hs2 : s.2 = some pfx := by rw [← hg.cursor_eq, hcur]
        rcases hk with hk | ⟨hmode, hne, ts⟩
        · obtain ⟨ed', h1, h2, h3, h4, h5⟩ := cursorUpsert_spec hg.inv.inv hP hp (id := id) hk
          refine ⟨⟨ed', some pfx⟩, by simp [applyF, hcur, h1],
            ⟨⟨h2, h3 ▸ hg.inv.hashed, h3 ▸ hg.inv.canon⟩, h3 ▸ hg.mono, ?_, ?_, ?_⟩, by rw [hcur] at hrest; exact hrest⟩
          · simp only [specF, hs2, hk, Bool.false_eq_true, if_false]; rw [h5, hg.abs_eq]
          · simp only [specF, hs2]
          · intro pfx' h'
            simp only [Option.some.injEq] at h'
            rw [← h']; exact h4
        · subst hmode
          rcases ts with hnull | ⟨ts, hts⟩
          · subst hnull
            obtain ⟨ed', h1, h2, h3, h4, h5⟩ :=
              cursorUpsert_tree_spec hg.inv.inv hP hp (ts := []) (Or.inl ⟨rfl, rfl⟩) hne
            refine ⟨⟨ed', some pfx⟩, by simp [applyF, hcur, h1],
              ⟨⟨h2, h3 ▸ hg.inv.hashed, h3 ▸ hg.inv.canon⟩, h3 ▸ hg.mono, ?_, ?_, ?_⟩, by rw [hcur] at hrest; exact hrest⟩
            · simp only [specF, hs2, isTree_040000, if_true, hS0.nonull]
              rw [h5, hg.abs_eq]
              congr 1
              funext q
              exact lookupIn_nil _ _ _
            · simp only [specF, hs2]
            · intro pfx' h'
              simp only [Option.some.injEq] at h'
              rw [← h']; exact h4
          · have hst := hg.mono _ _ hts
            have hnn : id ≠ nullId := fun e => by rw [e, hg.inv.inv.store.nonull] at hst; cases hst
            obtain ⟨ed', h1, h2, h3, h4, h5⟩ :=
              cursorUpsert_tree_spec hg.inv.inv hP hp (Or.inr ⟨hnn, hst⟩) hne
            refine ⟨⟨ed', some pfx⟩, by simp [applyF, hcur, h1],
              ⟨⟨h2, h3 ▸ hg.inv.hashed, h3 ▸ hg.inv.canon⟩, h3 ▸ hg.mono, ?_, ?_, ?_⟩, by rw [hcur] at hrest; exact hrest⟩
            · simp only [specF, hs2, isTree_040000, if_true, hts]
              rw [h5, hg.abs_eq]
              congr 1
              funext q
              exact lookup_store_mono hS0 hg.mono q ts [] (storeOk_closed hS0 hts)
            · simp only [specF, hs2]
            · intro pfx' h'
              simp only [Option.some.injEq] at h'
              rw [← h']; exact h4
  | cRemove p =>
    simp only [ValidF] at hv
    obtain ⟨hc, hp, hrest⟩ := hv
    cases hcur : r.cursor with
    | none => simp [hcur] at hc
    | some pfx =>
      have hcached := hg.cached pfx hcur
      cases hP : aget pfx r.ed.trees with
      | none => simp [hP] at hcached
      | some t =>
        obtain ⟨ed', h1, h2, h3, h4, h5⟩ := cursorRemove_spec hg.inv.inv hP hp
        refine ⟨⟨ed', some pfx⟩, by simp [applyF, hcur, h1],
          ⟨⟨h2, h3 ▸ hg.inv.hashed, h3 ▸ hg.inv.canon⟩, h3 ▸ hg.mono, ?_, ?_, ?_⟩, by rw [hcur] at hrest; exact hrest⟩
        · have hs2 : s.2 = some pfx := by rw [← hg.cursor_eq, hcur]
          simp only [specF, hs2]; rw [h5, hg.abs_eq]
        · have hs2 : s.2 = some pfx := by rw [← hg.cursor_eq, hcur]
          simp only [specF, hs2]
        · intro pfx' h'
          simp only [Option.some.injEq] at h'
          rw [← h']; exact h4
  | cWrite =>
    simp only [ValidF] at hv
    obtain ⟨hc, hrest⟩ := hv
    cases hcur : r.cursor with
    | none => simp [hcur] at hc
    | some pfx =>
      have hcached := hg.cached pfx hcur
      cases hP : aget pfx r.ed.trees with
      | none => simp [hP] at hcached
      | some t =>
        obtain ⟨calls, ed', root, h1, h2, _, _, _, h6, h7, h8⟩ := cursorWrite_spec hh hg.inv hP
        refine ⟨⟨ed', some pfx⟩, by simp [applyF, hcur, h1],
          ⟨h2, hg.mono.trans h7, ?_, ?_, ?_⟩, by rw [hcur] at hrest; exact hrest⟩
        · simp only [specF]; rw [h6, hg.abs_eq]
        · simp only [specF]; rw [← hg.cursor_eq, hcur]
        · intro pfx' h'
          simp only [Option.some.injEq] at h'
          rw [← h']; exact h8

theorem runF_spec {hash : List Entry → Bytes} (hh : HashOk hash) {S0 : Assoc Bytes (List Entry)}
    (hS0 : StoreOk S0) :
    ∀ (ops : List OpF) (r : RunF) (s : FS × Option Path), GoodF hash S0 r s → ValidF S0 r.cursor ops →
      ∃ r', runF hash r ops = some r' ∧ GoodF hash S0 r' (ops.foldl (specF S0) s) := by
  intro ops
  induction ops with
  | nil => intro r s hg _; exact ⟨r, rfl, hg⟩
  | cons op ops ih =>
    intro r s hg hv
    obtain ⟨r1, h1, h2, h3⟩ := applyF_spec hh hS0 hg hv
    obtain ⟨r2, g1, g2⟩ := ih r1 _ h2 h3
    exact ⟨r2, by simp [runF, h1, g1], g2⟩

end GixModel.C04
