import GixModel.Model.C50
/-
C50 — helper definitions and lemmas about the two walks.
-/
namespace GixModel.C50
open GixModel

/-- the domain on which git and gitoxide are compared: no broken `.git` file on the way (git aborts
there), and no repository at `.git/.git` below a directory that is itself called `.git` (gitoxide
does not look there) -/
def Level.Good (l : Level) : Prop := l.dotGit ≠ .invalid ∧ (l.isDotGit = true → l.dotGit ≠ .repo)

/-- gitoxide finds nothing at this level -/
def Level.Empty (l : Level) : Prop := (l.isDotGit = true ∨ l.dotGit ≠ .repo) ∧ l.self ≠ .repo

/-- gitoxide's `NoGitRepositoryWithinCeiling` and `NoGitRepository` are both "not found" -/
def canon : Res → Res
  | .ceiling => .notFound
  | r => r

theorem walk_eq_none (ls : List Level) : ∀ h, (∀ l ∈ ls, l.Good) →
    gixWalk ls none h = gitWalk ls none h := by
  induction ls with
  | nil => intro h _; rfl
  | cons l ls ih =>
    intro h hg
    have hl := hg l (by simp)
    have ih' := ih (h + 1) (fun x hx => hg x (by simp [hx]))
    obtain ⟨h1, h2⟩ := hl
    simp only [gixWalk, gitWalk, Bool.and_false, Bool.false_eq_true, if_false, ih']
    cases hd : l.dotGit <;> cases hi : l.isDotGit <;> simp_all

theorem walk_eq_some (ls : List Level) : ∀ (h k : Nat), 1 ≤ k → h ≤ k → (∀ l ∈ ls, l.Good) →
    (∀ l, ls[k - h]? = some l → l.Empty) →
    canon (gixWalk ls (some k) h) = gitWalk ls (some k) h := by
  induction ls with
  | nil => intro h k _ _ _ _; rfl
  | cons l ls ih =>
    intro h k hk hle hg hc
    obtain ⟨h1, h2⟩ := hg l (by simp)
    by_cases hlt : h < k
    · have ih' := ih (h + 1) k hk (by omega) (fun x hx => hg x (by simp [hx]))
        (fun x hx => hc x (by
          have : k - h = (k - (h + 1)) + 1 := by omega
          rw [this, List.getElem?_cons_succ]; exact hx))
      have hgt : ¬ h > k := by omega
      have hge : ¬ h ≥ k := by omega
      simp only [gixWalk, gitWalk, hgt, hge, decide_false, Bool.and_false, Bool.false_eq_true, if_false]
      cases hd : l.dotGit <;> cases hi : l.isDotGit <;> by_cases hs : l.self = Cand.repo <;> simp_all [canon]
    · have hkk : h = k := by omega
      subst hkk
      have hemp := hc l (by simp)
      obtain ⟨e1, e2⟩ := hemp
      have hh0 : (h != 0) = true := by simp; omega
      simp only [gixWalk, gitWalk, Nat.lt_irrefl, decide_false, Bool.false_eq_true, if_false, Nat.le_refl,
        decide_true, Bool.and_true, hh0, if_true]
      have hnext : canon (gixWalk ls (some h) (h + 1)) = .notFound := by
        cases ls with
        | nil => rfl
        | cons l' ls' => simp [gixWalk, canon]
      cases hd : l.dotGit <;> cases hi : l.isDotGit <;> by_cases hs : l.self = Cand.repo <;> simp_all

theorem gitWalk_mono (ls : List Level) : ∀ (h k k' : Nat) (i : Nat) (s : Slot), k ≤ k' →
    gitWalk ls (some k) h = .found i s → gitWalk ls (some k') h = .found i s := by
  induction ls with
  | nil => intro h k k' i s _ hf; simp [gitWalk] at hf
  | cons l ls ih =>
    intro h k k' i s hkk hf
    simp only [gitWalk] at hf ⊢
    by_cases hc : (h != 0 && decide (h ≥ k)) = true
    · simp [hc] at hf
    · have hc' : (h != 0 && decide (h ≥ k')) = false := by
        simp only [Bool.and_eq_true, bne_iff_ne, ne_eq, decide_eq_true_eq, not_and, Bool.and_eq_false_iff,
          Bool.not_eq_true, bne_eq_false_iff_eq, decide_eq_false_iff_not] at hc ⊢
        by_cases h0 : h = 0
        · exact Or.inl h0
        · exact Or.inr (by have := hc h0; omega)
      simp only [hc, hc', Bool.false_eq_true, if_false] at hf ⊢
      split
      · simp_all
      · split
        · simp_all
        · split
          · simp_all
          · simp_all
            exact ih (h + 1) k k' i s hkk hf

theorem ceilHeight_eq (start : Path) (cs : List Path) :
    ceilHeight start cs = (longestAncestor start cs).map (fun l => start.length - l) ∧
    ∀ l, longestAncestor start cs = some l → l < start.length := by
  induction cs with
  | nil => exact ⟨rfl, fun _ h => by cases h⟩
  | cons c cs ih =>
    obtain ⟨ih1, ih2⟩ := ih
    simp only [ceilHeight, longestAncestor]
    by_cases hc : (c.isPrefixOf start = true ∧ c.length < start.length)
    · simp only [hc, and_self, if_true]
      cases hr : longestAncestor start cs with
      | none => rw [hr] at ih1; simp [ih1]; exact hc.2
      | some r =>
        rw [hr] at ih1
        have hr' := ih2 r hr
        simp only [ih1, Option.map_some]
        refine ⟨?_, ?_⟩
        · congr 1
          simp only [Nat.min_def, Nat.max_def]
          split <;> split <;> omega
        · intro l hl
          injection hl with hl
          simp only [Nat.max_def] at hl
          split at hl <;> omega
    · simp only [hc, if_false]
      exact ⟨ih1, ih2⟩

end GixModel.C50
