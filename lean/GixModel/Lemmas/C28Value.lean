import GixModel.Lemmas.C28
import GixModel.Lemmas.C27Value
/-
C28 — what `set` / `push` write for a value, read back: `value_impl` scans it as exactly one value
event (whatever the value), `normalize` turns it into the value given, the written line is in the
domain of C27's `value_eq_git`, hence git reads the same value.
-/
namespace GixModel.C28
open GixModel GixModel.C26 GixModel.C27

theorem valueScan_esc_step (d : UInt8) (r acc : Bytes) (inQ part : Bool) (em : List Event)
    (he : isEscapable d = true) (h10 : d ≠ 10) (h13 : d ≠ 13) :
    valueScan (92 :: d :: r) acc inQ part em = valueScan r (acc ++ [92, d]) inQ part em := by
  conv => lhs; unfold valueScan
  simp [he, h10, h13]

/-- scanning over escaped text: every escaped byte is consumed and appended to `acc` -/
theorem valueScan_escInner : ∀ (v tail acc : Bytes) (inQ part : Bool) (em : List Event), tail ≠ [] →
    (inQ = false → ∀ b ∈ v, b ≠ 59 ∧ b ≠ 35) →
    valueScan (escInner v ++ tail) acc inQ part em = valueScan tail (acc ++ escInner v) inQ part em := by
  intro v
  induction v with
  | nil => intro tail acc inQ part em _ _; simp [escInner]
  | cons b t ih =>
    intro tail acc inQ part em htail hcm
    have hrest : inQ = false → ∀ x ∈ t, x ≠ 59 ∧ x ≠ 35 := fun hq x hx => hcm hq x (by simp [hx])
    have hcons : escInner (b :: t) ++ tail = esc1 b ++ (escInner t ++ tail) := by simp [escInner]
    have hne : escInner t ++ tail ≠ [] := by simp [htail]
    obtain ⟨d, r, hdr⟩ : ∃ d r, escInner t ++ tail = d :: r := by
      cases h : escInner t ++ tail with
      | nil => exact absurd h hne
      | cons d r => exact ⟨d, r, rfl⟩
    rw [hcons]
    have hacc : acc ++ escInner (b :: t) = (acc ++ esc1 b) ++ escInner t := by simp [escInner]
    rw [hacc, ← ih tail (acc ++ esc1 b) inQ part em htail hrest]
    -- one escaped byte
    unfold esc1
    by_cases h10 : b = 10
    · subst h10
      simp only [beq_self_eq_true, ↓reduceIte, List.cons_append, List.nil_append]
      exact valueScan_esc_step 110 _ _ _ _ _ (by decide) (by decide) (by decide)
    · by_cases h9 : b = 9
      · subst h9
        simp only [show ((9 : UInt8) == 10) = false by decide, beq_self_eq_true, Bool.false_eq_true, ↓reduceIte,
          List.cons_append, List.nil_append]
        exact valueScan_esc_step 116 _ _ _ _ _ (by decide) (by decide) (by decide)
      · by_cases h34 : b = 34
        · subst h34
          simp only [show ((34 : UInt8) == 10) = false by decide, show ((34 : UInt8) == 9) = false by decide,
            beq_self_eq_true, Bool.false_eq_true, ↓reduceIte, List.cons_append, List.nil_append]
          exact valueScan_esc_step 34 _ _ _ _ _ (by decide) (by decide) (by decide)
        · by_cases h92 : b = 92
          · subst h92
            simp only [show ((92 : UInt8) == 10) = false by decide, show ((92 : UInt8) == 9) = false by decide,
              show ((92 : UInt8) == 34) = false by decide, beq_self_eq_true, Bool.false_eq_true, ↓reduceIte,
              List.cons_append, List.nil_append]
            exact valueScan_esc_step 92 _ _ _ _ _ (by decide) (by decide) (by decide)
          · simp only [beq_iff_eq, h10, h9, h34, h92, ↓reduceIte, List.singleton_append]
            rw [hdr]
            conv => lhs; unfold valueScan
            have hcmb : ((b == 59 || b == 35) && !inQ) = false := by
              cases inQ with
              | true => simp
              | false => have := hcm rfl b (by simp); simp [this.1, this.2]
            simp [h10, h92, h34, hcmb]


theorem escInner_last_not_ws (v : Bytes) (hv : v.getLast?.any isAsciiWs = false) :
    (escInner v).getLast?.all (fun b => !isAsciiWs b) = true := by
  rcases List.eq_nil_or_concat v with rfl | ⟨p, x, rfl⟩
  · simp [escInner]
  · rw [List.concat_eq_append] at hv ⊢
    simp only [List.getLast?_append, List.getLast?_singleton, Option.some_or, Option.any_some] at hv
    have : escInner (p ++ [x]) = escInner p ++ esc1 x := by simp [escInner]
    rw [this]
    have hx : (esc1 x).getLast?.all (fun b => !isAsciiWs b) = true ∧ esc1 x ≠ [] := by
      unfold esc1
      by_cases h10 : x = 10
      · subst h10; simp [isAsciiWs] at hv
      · by_cases h9 : x = 9
        · subst h9; simp [isAsciiWs] at hv
        · by_cases h34 : x = 34
          · subst h34; simp [isAsciiWs]
          · by_cases h92 : x = 92
            · subst h92; simp [isAsciiWs]
            · simp [h10, h9, h34, h92, hv]
    rw [List.getLast?_append]
    cases hl : (esc1 x).getLast? with
    | none => simp [List.getLast?_eq_none_iff] at hl; exact absurd hl hx.2
    | some y => rw [hl] at hx; simpa using hx.1

theorem trimEnd_id (a : Bytes) (h : a.getLast?.all (fun b => !isAsciiWs b) = true) : trimEnd a = a := by
  have := trimEnd_spaces a 0 h
  simpa using this

/-- What `escape_value` writes is scanned back by `value_impl` as exactly ONE value event holding
that very text, whatever follows the end of the line — for every byte string. -/
theorem escapeValue_scans_back (v rest : Bytes) (em : List Event) :
    valueScan (escapeValue v ++ 10 :: rest) [] false false em =
      some (em ++ [.value (escapeValue v)], 10 :: rest) := by
  rw [escapeValue_eq]
  split
  · -- quoted
    have h1 : [34] ++ escInner v ++ [34] ++ 10 :: rest = 34 :: (escInner v ++ (34 :: 10 :: rest)) := by simp
    rw [h1]
    have hstep : ∀ (tl : Bytes), tl ≠ [] → valueScan (34 :: tl) [] false false em = valueScan tl [34] true false em := by
      intro tl htl
      cases tl with
      | nil => exact absurd rfl htl
      | cons d r => conv => lhs; unfold valueScan
                    simp
    rw [hstep _ (by simp), valueScan_escInner v _ _ _ _ _ (by simp) (by intro h; simp at h)]
    conv => lhs; unfold valueScan
    simp only [show ((34 : UInt8) == 10) = false by decide, Bool.false_eq_true, ↓reduceIte,
      show ((34 : UInt8) == 59) = false by decide, show ((34 : UInt8) == 35) = false by decide, Bool.or_self,
      Bool.false_and, show ((34 : UInt8) == 92) = false by decide, beq_self_eq_true, Bool.not_true]
    conv => lhs; unfold valueScan
    have hfin : ∀ (a : Bytes), a.getLast?.all (fun b => !isAsciiWs b) = true →
        valueFinish a (10 :: rest) false false false em = some (em ++ [.value a], 10 :: rest) := by
      intro a ha
      unfold valueFinish
      simp [trimEnd_id a ha]
    have hl : ([34] ++ escInner v ++ [34]).getLast?.all (fun b => !isAsciiWs b) = true := by
      rw [List.getLast?_append]; simp [isAsciiWs]
    cases rest with
    | nil => simp; exact hfin _ (by simpa using hl)
    | cons d r => simp; exact hfin _ (by simpa using hl)
  · rename_i hq
    simp only [Bool.or_eq_true, not_or, Bool.not_eq_true] at hq
    obtain ⟨⟨_, hlast⟩, hcm⟩ := hq
    have hno : ∀ b ∈ v, b ≠ 59 ∧ b ≠ 35 := by
      intro b hb
      have := List.any_eq_false.mp hcm b hb
      simpa using this
    rw [valueScan_escInner v _ _ _ _ _ (by simp) (fun _ => hno)]
    conv => lhs; unfold valueScan
    have hfin : valueFinish ([] ++ escInner v) (10 :: rest) false false false em =
        some (em ++ [.value (escInner v)], 10 :: rest) := by
      unfold valueFinish
      simp [trimEnd_id _ (escInner_last_not_ws v hlast)]
    cases rest with
    | nil => simp; simpa using hfin
    | cons d r => simp; simpa using hfin


/-- walking `plainGo` over escaped text: it never leaves the domain, provided the value holds no
FF / CR, and outside quotes no `;` / `#` and no space before the first other byte -/
theorem plainGo_escInner : ∀ (v tail : Bytes) (st inQ : Bool), tail ≠ [] →
    (∀ b ∈ v, b ≠ 12 ∧ b ≠ 13) → (inQ = false → ∀ b ∈ v, b ≠ 59 ∧ b ≠ 35) →
    (inQ = false → st = false → v.head? ≠ some 32) →
    plainGo (escInner v ++ tail) st inQ = plainGo tail (st || !v.isEmpty) inQ := by
  intro v
  induction v with
  | nil => intro tail st inQ _ _ _ _; simp [escInner]
  | cons b t ih =>
    intro tail st inQ htail hff hcm hsp
    have hcons : escInner (b :: t) ++ tail = esc1 b ++ (escInner t ++ tail) := by simp [escInner]
    have hne : escInner t ++ tail ≠ [] := by simp [htail]
    obtain ⟨d, r, hdr⟩ : ∃ d r, escInner t ++ tail = d :: r := by
      cases h : escInner t ++ tail with
      | nil => exact absurd h hne
      | cons d r => exact ⟨d, r, rfl⟩
    have hb := hff b (by simp)
    have hfft : ∀ x ∈ t, x ≠ 12 ∧ x ≠ 13 := fun x hx => hff x (by simp [hx])
    have hcmt : inQ = false → ∀ x ∈ t, x ≠ 59 ∧ x ≠ 35 := fun hq x hx => hcm hq x (by simp [hx])
    rw [hcons]
    simp only [List.isEmpty_cons, Bool.not_false, Bool.or_true]
    -- after this byte the value has started, unless it is a space read with `st` already true
    have key : plainGo (esc1 b ++ (escInner t ++ tail)) st inQ = plainGo (escInner t ++ tail) true inQ := by
      unfold esc1
      by_cases h10 : b = 10
      · subst h10
        simp only [beq_self_eq_true, ↓reduceIte, List.cons_append, List.nil_append]
        conv => lhs; unfold plainGo
        simp [isEscapable]
      · by_cases h9 : b = 9
        · subst h9
          simp only [show ((9 : UInt8) == 10) = false by decide, beq_self_eq_true, Bool.false_eq_true, ↓reduceIte,
            List.cons_append, List.nil_append]
          conv => lhs; unfold plainGo
          simp [isEscapable]
        · by_cases h34 : b = 34
          · subst h34
            simp only [show ((34 : UInt8) == 10) = false by decide, show ((34 : UInt8) == 9) = false by decide,
              beq_self_eq_true, Bool.false_eq_true, ↓reduceIte, List.cons_append, List.nil_append]
            conv => lhs; unfold plainGo
            simp [isEscapable]
          · by_cases h92 : b = 92
            · subst h92
              simp only [show ((92 : UInt8) == 10) = false by decide, show ((92 : UInt8) == 9) = false by decide,
                show ((92 : UInt8) == 34) = false by decide, beq_self_eq_true, Bool.false_eq_true, ↓reduceIte,
                List.cons_append, List.nil_append]
              conv => lhs; unfold plainGo
              simp [isEscapable]
            · simp only [beq_iff_eq, h10, h9, h34, h92, ↓reduceIte, List.singleton_append]
              rw [hdr]
              conv => lhs; unfold plainGo
              have hcmb : ((b == 59 || b == 35) && !inQ) = false := by
                cases inQ with
                | true => simp
                | false => have := hcm rfl b (by simp); simp [this.1, this.2]
              have hbad : (b == 9 || b == 12 || b == 13) = false := by simp [h9, hb.1, hb.2]
              simp only [beq_iff_eq, h10, ↓reduceIte, hcmb, Bool.false_eq_true, h92, h34]
              rw [hbad]
              simp only [Bool.false_eq_true, ↓reduceIte]
              by_cases h32 : b = 32
              · subst h32
                simp only [↓reduceIte]
                cases inQ with
                | true => simp
                | false =>
                  cases st with
                  | true => simp
                  | false => exact absurd rfl (hsp rfl rfl)
              · simp [h32]
    rw [key, ih tail true inQ htail hfft hcmt (by intro _ h; simp at h)]
    simp


theorem esc1_head (x : UInt8) (hx : isAsciiWs x = false) : (esc1 x).head?.all (fun b => !isSpace b) = true := by
  unfold esc1
  by_cases h10 : x = 10
  · subst h10; simp [isAsciiWs] at hx
  · by_cases h9 : x = 9
    · subst h9; simp [isAsciiWs] at hx
    · by_cases h34 : x = 34
      · subst h34; simp [isSpace]
      · by_cases h92 : x = 92
        · subst h92; simp [isSpace]
        · simp only [beq_iff_eq, h10, h9, h34, h92, ↓reduceIte, List.head?_cons, Option.all_some]
          simp only [isAsciiWs, Bool.or_eq_false_iff, beq_eq_false_iff_ne, ne_eq] at hx
          simp [isSpace, hx.1.1.1.1, h9]

theorem escapeValue_head (v : Bytes) : (escapeValue v).head?.all (fun b => !isSpace b) = true := by
  rw [escapeValue_eq]
  split
  · simp [isSpace]
  · rename_i hq
    simp only [Bool.or_eq_true, not_or, Bool.not_eq_true] at hq
    cases v with
    | nil => simp [escInner]
    | cons x t =>
      have hx : isAsciiWs x = false := by simpa using hq.1.1
      have : escInner (x :: t) = esc1 x ++ escInner t := by simp [escInner]
      rw [this]
      have h1 := esc1_head x hx
      cases he : esc1 x with
      | nil => unfold esc1 at he; split at he <;> (try simp at he) <;> split at he <;> (try simp at he) <;>
                 split at he <;> (try simp at he) <;> split at he <;> simp at he
      | cons y r => rw [he] at h1; simpa using h1

theorem dropWhile_blanks (w x : Bytes) (hw : w.all isSpace = true) (hx : x.head?.all (fun b => !isSpace b) = true) :
    (w ++ x).dropWhile isSpace = x := by
  induction w with
  | nil =>
    cases x with
    | nil => rfl
    | cons y r => simp at hx; simp [List.dropWhile_cons, hx]
  | cons c t ih =>
    simp only [List.all_cons, Bool.and_eq_true] at hw
    simp [List.dropWhile_cons, hw.1, ih hw.2]

/-- gitoxide reads back what `set` / `push` wrote as exactly the value given — for EVERY value and
whatever blanks stand after the `=` and whatever follows the line -/
theorem written_value_gix (w v rest : Bytes) (hw : w.all isSpace = true) :
    gixValueOfText (w ++ escapeValue v ++ 10 :: rest) = some v := by
  unfold gixValueOfText
  rw [optSpaces_snd, List.append_assoc,
    dropWhile_blanks w _ hw (by
      cases he : escapeValue v with
      | nil => simp [isSpace]
      | cons y r => have := escapeValue_head v; rw [he] at this; simpa using this)]
  rw [escapeValue_scans_back]
  simp [valText, normalize_escapeValue]

/-- the written line is in the domain of `value_eq_git` when the value holds no FF and no CR -/
theorem written_value_plain (v : Bytes) (hv : ∀ b ∈ v, b ≠ 12 ∧ b ≠ 13) :
    plainText ([32] ++ escapeValue v ++ [10]) = true := by
  have hnocr : ([32] ++ escapeValue v ++ [10]).all (· != 13) = true := by
    rw [escapeValue_eq]
    have hin : (escInner v).all (· != 13) = true := by
      unfold escInner
      rw [List.all_flatMap]
      apply List.all_eq_true.mpr
      intro b hb
      have := (hv b hb).2
      unfold esc1
      split <;> (try simp) <;> split <;> (try simp) <;> split <;> (try simp) <;> split <;> simp [this]
    split <;> simp [hin]
  unfold plainText
  rw [hnocr, Bool.true_and]
  have hdrop : ([32] ++ escapeValue v ++ [10]).dropWhile isSpace = escapeValue v ++ [10] := by
    rw [List.append_assoc]
    apply dropWhile_blanks [32] _ (by decide)
    cases he : escapeValue v with
    | nil => simp [isSpace]
    | cons y r => have := escapeValue_head v; rw [he] at this; simpa using this
  rw [hdrop, escapeValue_eq]
  split
  · -- quoted
    have h1 : [34] ++ escInner v ++ [34] ++ [10] = 34 :: (escInner v ++ [34, 10]) := by simp
    rw [h1]
    have hopen : ∀ (tl : Bytes), tl ≠ [] → plainGo (34 :: tl) false false = plainGo tl false true := by
      intro tl htl
      cases tl with
      | nil => exact absurd rfl htl
      | cons d r => conv => lhs; unfold plainGo
                    simp
    rw [hopen _ (by simp), plainGo_escInner v _ _ _ (by simp) hv (by intro h; simp at h) (by intro h; simp at h)]
    conv => lhs; unfold plainGo
    simp [plainGo]
  · rename_i hq
    simp only [Bool.or_eq_true, not_or, Bool.not_eq_true] at hq
    obtain ⟨⟨hhead, _⟩, hcm⟩ := hq
    have hno : ∀ b ∈ v, b ≠ 59 ∧ b ≠ 35 := by
      intro b hb
      have := List.any_eq_false.mp hcm b hb
      simpa using this
    rw [plainGo_escInner v _ _ _ (by simp) hv (fun _ => hno) (by
      intro _ _ h32
      rw [h32] at hhead
      simp [isAsciiWs] at hhead)]
    simp [plainGo]

/-- … and so does git: `parse_value` reads the written line as exactly the value given, for every
value without FF and CR bytes. -/
theorem written_value_git (v : Bytes) (hv : ∀ b ∈ v, b ≠ 12 ∧ b ≠ 13) :
    gitParseValue ([32] ++ escapeValue v ++ [10]) = some v := by
  rw [← value_eq_git_proof _ (written_value_plain v hv)]
  have := written_value_gix [32] v [] (by decide)
  simpa using this

end GixModel.C28
