import GixModel.Model.C06f
import GixModel.Lemmas.C06
import GixModel.Props.C15
namespace GixModel.C06
open GixModel

theorem findByte_none_filter (c : UInt8) : ∀ (l : Bytes), findByte c l = none → (l.filter (· = c)).length = 0
  | [], _ => rfl
  | b :: bs, h => by
    unfold findByte at h
    split at h
    · cases h
    · rename_i hb
      cases hr : findByte c bs with
      | some j => simp [hr] at h
      | none =>
        have := findByte_none_filter c bs hr
        simp [List.filter_cons, hb, this]

theorem validatedFetch_total (spec : Option Bytes) : validatedFetch spec ≠ .panic ∧ validatedFetch spec ≠ .hang := by
  unfold validatedFetch
  cases spec with
  | none => simp
  | some s =>
    simp only
    have hp := fun x => (Props.C15.validate_never_panics _ Props.C15.extracted_table_ok x).1
    split
    · simp
    · split
      · rename_i h1
        cases hf : findByte 42 s with
        | none =>
          have := findByte_none_filter 42 s hf
          omega
        | some pos =>
          have hlt := findByte_lt _ _ _ hf
          have hno : ¬ (pos ≥ s.length) := by omega
          simp only [if_neg hno]
          split
          · simp
          · simp
          · rename_i heq; exact absurd heq (hp _)
      · split
        · simp
        · simp
        · rename_i heq; exact absurd heq (hp _)

theorem refspecFinish_total (neg : Bool) (src dst : Option Bytes) :
    refspecFinish neg src dst ≠ .panic ∧ refspecFinish neg src dst ≠ .hang := by
  unfold refspecFinish
  simp only []
  have h1 := validatedFetch_total (src.map fun s => if s = [64] then bHEAD else s)
  have h2 := validatedFetch_total dst
  split
  · simp
  · rename_i heq; exact absurd heq h1.1
  · rename_i heq; exact absurd heq h1.2
  · split
    · simp
    · rename_i heq; exact absurd heq h2.1
    · rename_i heq; exact absurd heq h2.2
    · repeat' split
      all_goals simp

theorem refspecBody_total (neg : Bool) (spec : Bytes) : refspecBody neg spec ≠ .panic ∧ refspecBody neg spec ≠ .hang := by
  unfold refspecBody
  cases hf : findByte 58 spec with
  | some pos =>
    have hlt := findByte_lt _ _ _ hf
    simp only
    split
    · simp
    · simp only [splitAt, if_pos (Nat.le_of_lt hlt)]
      have h1 : 1 ≤ (List.drop pos spec).length := by rw [List.length_drop]; omega
      simp only [sliceFrom, if_pos h1]
      split <;> exact refspecFinish_total _ _ _
  | none =>
    simp only
    split
    · split
      · simp
      · exact refspecFinish_total _ _ _
    · exact refspecFinish_total _ _ _

theorem refspecFetch_total (spec : Bytes) : refspecFetch spec ≠ .panic ∧ refspecFetch spec ≠ .hang := by
  unfold refspecFetch
  split
  · simp
  · rename_i tl
    have h1 : 1 ≤ ((94 : UInt8) :: tl).length := by simp
    simp only [sliceFrom, if_pos h1]
    exact refspecBody_total _ _
  · rename_i tl
    have h1 : 1 ≤ ((43 : UInt8) :: tl).length := by simp
    simp only [sliceFrom, if_pos h1]
    exact refspecBody_total _ _
  · exact refspecBody_total _ _

theorem findSub3_lt (a b c : UInt8) : ∀ (l : Bytes) (k : Nat), findSub3 a b c l = some k → k + 3 ≤ l.length
  | [], k, h => by simp [findSub3] at h
  | [_], k, h => by simp [findSub3] at h
  | [_, _], k, h => by simp [findSub3] at h
  | x :: y :: z :: rest, k, h => by
    unfold findSub3 at h
    split at h
    · cases h; simp
    · cases hr : findSub3 a b c (y :: z :: rest) with
      | none => simp [hr] at h
      | some j =>
        simp [hr] at h; subst h
        have := findSub3_lt a b c (y :: z :: rest) j hr
        simp at this ⊢; omega

theorem urlSites_total (input : Bytes) : urlSites input ≠ .panic ∧ urlSites input ≠ .hang := by
  unfold urlSites
  cases hf : findSub3 58 47 47 input with
  | some pe =>
    have h := findSub3_lt _ _ _ _ _ hf
    simp only [sliceFrom, if_pos h]
    have n1 : ¬ (input.length < pe) := by omega
    simp only [if_neg n1]
    have h2 : min (pe + 3 + 1024) input.length ≤ input.length := Nat.min_le_right _ _
    simp only [sliceTo, if_pos h2]
    simp
  | none =>
    simp only
    cases hc : findByte 58 input with
    | none => simp
    | some colon =>
      have := findByte_lt _ _ _ hc
      simp only [sliceTo, if_pos (Nat.le_of_lt this)]
      simp

end GixModel.C06

namespace GixModel.C06
open GixModel

theorem rfindNl_lt : ∀ (l : Bytes) (k : Nat), rfindNl l = some k → k < l.length
  | [], k, h => by simp [rfindNl] at h
  | b :: bs, k, h => by
    unfold rfindNl at h
    cases hr : rfindNl bs with
    | some j =>
      simp [hr] at h; subst h
      have := rfindNl_lt bs j hr
      simp; omega
    | none =>
      simp [hr] at h
      obtain ⟨_, rfl⟩ := h
      simp

/-- every probe offset the binary search can produce (`ofs ≤ len`) yields a record start inside
the buffer: none of the three slices panics -/
theorem recordStart_total (a : Bytes) (ofs : Nat) (h : ofs ≤ a.length) :
    recordStart a ofs ≠ .panic ∧ recordStart a ofs ≠ .hang := by
  unfold recordStart
  simp only [sliceTo, if_pos h]
  cases hr : rfindNl (List.take ofs a) with
  | none => simp [sliceFrom]
  | some pos =>
    have hp := rfindNl_lt _ _ hr
    rw [List.length_take] at hp
    have hpa : pos < a.length := by omega
    simp only
    cases hg : a[pos + 1]? with
    | none => simp [sliceFrom]
    | some b =>
      have hlt : pos + 1 < a.length := by
        rcases Nat.lt_or_ge (pos + 1) a.length with h1 | h1
        · exact h1
        · rw [List.getElem?_eq_none h1] at hg; cases hg
      simp only
      by_cases hb : b = 94
      · simp only [if_pos hb, if_pos (Nat.le_of_lt hpa)]
        have hs : (Option.map (· + 1) (rfindNl (List.take pos a))).getD 0 ≤ a.length := by
          cases h2 : rfindNl (List.take pos a) with
          | none => simp
          | some q =>
            have := rfindNl_lt _ _ h2
            rw [List.length_take] at this
            simp; omega
        simp only [sliceFrom, if_pos hs]
        simp
      · simp only [if_neg hb]
        have hs : pos + 1 ≤ a.length := by omega
        simp only [sliceFrom, if_pos hs]
        simp

end GixModel.C06
