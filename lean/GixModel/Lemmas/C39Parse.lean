import GixModel.Lemmas.C39Select
/-
C39 — parsing: on pathspecs without magic, with short magic, or with long magic made of the flag
keywords (`top`, `icase`, `glob`, `literal`, `exclude`, bare `attr`, empty elements), whose path part is
already normalised, gitoxide's `Pattern::from_bytes` + `normalize` yields the spec whose item
(`itemOf`) is exactly what git's `init_pathspec_item` builds — or both refuse the pathspec.
-/
namespace GixModel.Lemmas.C39
open GixModel GixModel.C38 GixModel.C39 GixModel.Spec.C39

/-! ### normalised path parts -/

/-- `p` without one trailing slash -/
def stripSlash (p : Bytes) : Bytes := if p.getLast? == some 47 then p.dropLast else p

def goodComp (c : Bytes) : Bool := !c.isEmpty && c != [46] && c != [46, 46]

/-- the path part of a pathspec that needs no normalisation: relative, at most one trailing slash, no
empty, `.` or `..` components -/
def cleanPath (p : Bytes) : Bool :=
  p.head? != some 47 && ((stripSlash p).isEmpty || (splitSlashAux [] (stripSlash p)).all goodComp)

theorem splitSlash_ne_nil (acc q : Bytes) : splitSlashAux acc q ≠ [] := by
  induction q generalizing acc with
  | nil => simp [splitSlashAux]
  | cons b q ih =>
    unfold splitSlashAux
    split
    · simp
    · exact ih _

theorem dropLast_concat_of_getLast? (p : Bytes) (a : UInt8) (h : p.getLast? = some a) : p.dropLast ++ [a] = p := by
  obtain ⟨ys, rfl⟩ := List.getLast?_eq_some_iff.mp h
  simp

theorem joinSlash_split (acc q : Bytes) : joinSlash (splitSlashAux acc q) = acc.reverse ++ q := by
  induction q generalizing acc with
  | nil => simp [splitSlashAux, joinSlash]
  | cons b q ih =>
    unfold splitSlashAux
    by_cases hb : (b == 47) = true
    · have hb' : b = 47 := by simpa using hb
      simp only [hb, if_true]
      have hne : splitSlashAux [] q ≠ [] := splitSlash_ne_nil [] q
      cases hs : splitSlashAux [] q with
      | nil => exact absurd hs hne
      | cons x xs =>
        have := ih []
        rw [hs] at this
        simp only [joinSlash, this, hb']
        simp
    · simp only [hb, Bool.false_eq_true, if_false]
      rw [ih (b :: acc)]
      simp

theorem resolveDots_good (cs acc : List Bytes) (h : ∀ c ∈ cs, goodComp c = true) :
    resolveDots acc cs = some (acc.reverse ++ cs) := by
  induction cs generalizing acc with
  | nil => simp [resolveDots]
  | cons c cs ih =>
    have hc := h c (by simp)
    unfold goodComp at hc
    simp only [Bool.and_eq_true, bne_iff_ne, ne_eq, Bool.not_eq_true'] at hc
    unfold resolveDots
    have h1 : (c == [46, 46]) = false := by simpa using hc.2
    have h2 : (c == [46]) = false := by simpa using hc.1.2
    simp only [h1, h2, Bool.false_eq_true, if_false]
    rw [ih (c :: acc) (fun x hx => h x (by simp [hx]))]
    simp

theorem filter_good (cs : List Bytes) (h : ∀ c ∈ cs, goodComp c = true) :
    cs.filter (fun c => !c.isEmpty) = cs := by
  apply List.filter_eq_self.mpr
  intro c hc
  have := h c hc
  unfold goodComp at this
  simp only [Bool.and_eq_true] at this
  exact this.1.1

/-- gitoxide's `normalize` leaves a clean, slash-free-at-the-end path alone -/
theorem normalize_clean (s : PSpec) (hh : s.path.head? ≠ some 47)
    (hc : s.path.isEmpty = true ∨ ∀ c ∈ splitSlashAux [] s.path, goodComp c = true) :
    normalize s = some s := by
  unfold normalize
  have hh' : (s.path.head? == some 47) = false := by
    cases hp : s.path.head? with
    | none => rfl
    | some x => rw [hp] at hh; simp; intro hx; exact hh (by rw [hx])
  simp only [hh', Bool.false_eq_true, if_false]
  rcases hc with he | hg
  · have : s.path = [] := by simpa using he
    simp [this, components, splitSlashAux, resolveDots, joinSlash]
    cases s; simp_all
  · unfold components
    rw [filter_good _ hg, resolveDots_good _ [] hg]
    simp only [List.reverse_nil, List.nil_append]
    have hne : splitSlashAux [] s.path ≠ [] := splitSlash_ne_nil [] s.path
    have hie : (splitSlashAux [] s.path).isEmpty = false := by
      cases hsp : splitSlashAux [] s.path with
      | nil => exact absurd hsp hne
      | cons _ _ => rfl
    simp only [hie, Bool.false_and, Bool.false_eq_true, if_false, joinSlash_split]
    simp

theorem splitSlash_concat_slash (acc q : Bytes) :
    splitSlashAux acc (q ++ [47]) = splitSlashAux acc q ++ [[]] := by
  induction q generalizing acc with
  | nil => simp [splitSlashAux]
  | cons b q ih =>
    simp only [List.cons_append]
    unfold splitSlashAux
    split
    · rw [ih]; rfl
    · rw [ih]

theorem stripSlash_of_slash (p : Bytes) (h : p.getLast? = some 47) : stripSlash p = p.dropLast ∧ p = p.dropLast ++ [47] := by
  unfold stripSlash
  simp only [h, beq_self_eq_true, if_true, true_and]
  exact (dropLast_concat_of_getLast? p 47 h).symm

theorem stripSlash_of_not (p : Bytes) (h : p.getLast? ≠ some 47) : stripSlash p = p := by
  unfold stripSlash
  have : (p.getLast? == some 47) = false := by
    cases hp : p.getLast? with
    | none => rfl
    | some x => rw [hp] at h; simp; intro hx; exact h (by rw [hx])
  simp [this]

theorem components_strip (p : Bytes) : components p = components (stripSlash p) := by
  by_cases hl : p.getLast? = some 47
  · obtain ⟨h1, h2⟩ := stripSlash_of_slash p hl
    rw [h1]
    unfold components
    conv => lhs; rw [h2, splitSlash_concat_slash]
    simp
  · rw [stripSlash_of_not p hl]

/-- git's `normalize_path_copy` leaves a clean path part alone (trailing slash included) -/
theorem normalizeGit_clean (p : Bytes) (hc : cleanPath p = true) : normalizeGit p = some p := by
  unfold cleanPath at hc
  simp only [Bool.and_eq_true, bne_iff_ne, ne_eq, Bool.or_eq_true] at hc
  obtain ⟨hh, hq⟩ := hc
  unfold normalizeGit
  have hh' : (p.head? == some 47) = false := by
    cases hp : p.head? with
    | none => rfl
    | some x => rw [hp] at hh; simp; intro hx; exact hh (by rw [hx])
  simp only [hh', Bool.false_eq_true, if_false]
  rw [components_strip]
  have hbody : ∃ cs, resolveDots [] (components (stripSlash p)) = some cs ∧ joinSlash cs = stripSlash p := by
    rcases hq with he | hg
    · have hs : stripSlash p = [] := by simpa using he
      rw [hs]
      exact ⟨[], by simp [components, splitSlashAux, resolveDots], rfl⟩
    · have hg' : ∀ c ∈ splitSlashAux [] (stripSlash p), goodComp c = true := by simpa using hg
      refine ⟨splitSlashAux [] (stripSlash p), ?_, ?_⟩
      · unfold components
        rw [filter_good _ hg', resolveDots_good _ [] hg']
        simp
      · rw [joinSlash_split]; simp
  obtain ⟨cs, hcs, hj⟩ := hbody
  simp only [hcs, hj]
  by_cases hl : p.getLast? = some 47
  · obtain ⟨h1, h2⟩ := stripSlash_of_slash p hl
    rw [h1]
    have hne : p.dropLast.isEmpty = false := by
      cases hd : p.dropLast with
      | nil =>
        rw [hd] at h2
        simp at h2
        rw [h2] at hh
        simp at hh
      | cons _ _ => rfl
    simp only [hl, beq_self_eq_true, hne, Bool.not_false, Bool.and_true, if_true]
    rw [← h2]
  · rw [stripSlash_of_not p hl]
    have : (p.getLast? == some 47) = false := by
      cases hp : p.getLast? with
      | none => rfl
      | some x => rw [hp] at hl; simp; intro hx; exact hl (by rw [hx])
    simp [this]

/-! ### the path part, on both sides -/

/-- a spec as the magic parsers leave it: no path yet -/
def Bare (p : PSpec) : Prop := p.path = [] ∧ p.nil = false ∧ p.mustBeDir = false

theorem head?_dropLast_ne (p : Bytes) (h : p.head? ≠ some 47) : p.dropLast.head? ≠ some 47 := by
  cases p with
  | nil => simp
  | cons a p =>
    cases p with
    | nil => simp
    | cons b p => simpa using h

theorem finish_normalize (p : PSpec) (hp : Bare p) (path : Bytes) (hc : cleanPath path = true) :
    normalize (finishSpec p path) = some (finishSpec p path) ∧ (itemOf (finishSpec p path)) = { itemOf p with match_ := path } := by
  obtain ⟨hp1, hp2, hp3⟩ := hp
  unfold cleanPath at hc
  simp only [Bool.and_eq_true, bne_iff_ne, ne_eq, Bool.or_eq_true] at hc
  obtain ⟨hh, hq⟩ := hc
  by_cases hl : path.getLast? = some 47
  · obtain ⟨h1, h2⟩ := stripSlash_of_slash path hl
    have hfin : finishSpec p path = { p with mustBeDir := true, path := path.dropLast } := by
      unfold finishSpec; simp [hl]
    rw [hfin]
    have hne : path.dropLast ≠ [] := by
      intro hd; rw [hd] at h2; simp at h2; rw [h2] at hh; simp at hh
    constructor
    · apply normalize_clean
      · exact head?_dropLast_ne path hh
      · rw [h1] at hq
        rcases hq with he | hg
        · exact Or.inl he
        · exact Or.inr (by simpa using hg)
    · unfold itemOf
      have hie : path.dropLast.isEmpty = false := by
        cases hd : path.dropLast with
        | nil => exact absurd hd hne
        | cons _ _ => rfl
      simp only [hp1, hp2, hie, Bool.or_self, Bool.false_eq_true, if_false, if_true, List.isEmpty_nil, Bool.or_true]
      rw [← h2]
  · have hs := stripSlash_of_not path hl
    have hlb : (path.getLast? == some 47) = false := by
      cases hp : path.getLast? with
      | none => rfl
      | some x => rw [hp] at hl; simp; intro hx; exact hl (by rw [hx])
    have hfin : finishSpec p path = { p with path := path } := by
      unfold finishSpec; simp [hlb]
    rw [hfin]
    constructor
    · apply normalize_clean
      · exact hh
      · rw [hs] at hq
        rcases hq with he | hg
        · exact Or.inl he
        · exact Or.inr (by simpa using hg)
    · unfold itemOf
      simp only [hp1, hp2, hp3, List.isEmpty_nil, Bool.or_true, if_true, Bool.false_or, Bool.false_eq_true, if_false,
        List.append_nil]
      cases path with
      | nil => rfl
      | cons a q => rfl

/-- the second half of `init_pathspec_item` -/
def finishItem (it : Item) (copyfrom : Bytes) : Option Item :=
  if it.literal && it.glob then none
  else if it.top then some { it with match_ := copyfrom }
  else (normalizeGit copyfrom).map fun m => { it with match_ := m }

theorem initItem_eq (elem : Bytes) (hne : elem ≠ []) :
    initItem elem = (parseElementMagic elem).bind fun r => finishItem r.1 r.2 := by
  unfold initItem finishItem
  have h1 : elem.isEmpty = false := by cases elem with | nil => exact absurd rfl hne | cons _ _ => rfl
  simp only [h1, Bool.false_eq_true, if_false]
  cases parseElementMagic elem with
  | none => rfl
  | some r => rfl

theorem finishItem_clean (it : Item) (path : Bytes) (hc : cleanPath path = true) (hlg : (it.literal && it.glob) = false) :
    finishItem it path = some { it with match_ := path } := by
  unfold finishItem
  simp only [hlg, Bool.false_eq_true, if_false, normalizeGit_clean path hc, Option.map_some]
  split <;> rfl

theorem itemOf_not_both (p : PSpec) : ((itemOf p).literal && (itemOf p).glob) = false := by
  unfold itemOf
  cases p.mode <;> simp

/-- both sides finish a clean path part in the same way -/
theorem finish_both (p : PSpec) (hp : Bare p) (path : Bytes) (hc : cleanPath path = true) :
    finishItem (itemOf p) path = (normalize (finishSpec p path)).map itemOf := by
  obtain ⟨hn, hi⟩ := finish_normalize p hp path hc
  rw [hn, Option.map_some, hi]
  exact finishItem_clean (itemOf p) path hc (itemOf_not_both p)

theorem parseSpec_eq (elem : Bytes) (hne : elem ≠ []) (hcolon : elem ≠ [58]) :
    parseSpec elem = (parseMagic elem).map fun r => finishSpec r.1 r.2 := by
  unfold parseSpec
  have h1 : elem.isEmpty = false := by cases elem with | nil => exact absurd rfl hne | cons _ _ => rfl
  have h2 : (elem == [58]) = false := by simpa using hcolon
  simp [h1, h2]

/-! ### no magic -/

theorem parse_plain (elem : Bytes) (hne : elem ≠ []) (hh : elem.head? ≠ some 58) (hc : cleanPath elem = true) :
    initItem elem = ((parseSpec elem).bind normalize).map itemOf := by
  have hcolon : elem ≠ [58] := by intro h; rw [h] at hh; simp at hh
  have hm : parseMagic elem = some (PSpec.default, elem) := by
    unfold parseMagic
    cases elem with
    | nil => rfl
    | cons a q =>
      have : ¬ a = 58 := by intro h; apply hh; simp [h]
      split
      · rename_i heq; injection heq with h _; exact absurd h this
      · rfl
  have hg : parseElementMagic elem = some (Item.empty, elem) := by
    unfold parseElementMagic
    cases elem with
    | nil => rfl
    | cons a q =>
      have : ¬ a = 58 := by intro h; apply hh; simp [h]
      split
      · rename_i heq; injection heq with h _; exact absurd h this
      · rename_i heq; injection heq with h _; exact absurd h this
      · rfl
  rw [initItem_eq elem hne, parseSpec_eq elem hne hcolon, hm, hg]
  simp only [Option.bind_some, Option.map_some]
  exact finish_both PSpec.default ⟨rfl, rfl, rfl⟩ elem hc

/-! ### short magic -/

theorem shortLoop_eq (rest : Bytes) : ∀ (it : Item),
    shortLoop it rest = (parseShort rest it.top it.exclude).map fun r => ({ it with top := r.1, exclude := r.2.1 }, r.2.2) := by
  induction rest with
  | nil => intro it; rfl
  | cons b rest ih =>
    intro it
    unfold shortLoop parseShort
    by_cases h58 : (b == 58) = true
    · have hb : b = 58 := by simpa using h58
      subst hb
      simp
    · by_cases h94 : (b == 94) = true
      · have hb : b = 94 := by simpa using h94
        subst hb
        simp [ih]
      · by_cases h47 : (b == 47) = true
        · have hb : b = 47 := by simpa using h47
          subst hb
          simp [ih]
        · by_cases h33 : (b == 33) = true
          · have hb : b = 33 := by simpa using h33
            subst hb
            simp [ih]
          · simp only [h58, h94, h47, h33, Bool.false_eq_true, if_false, Bool.or_self, unimplementedMagic]
            by_cases hu : b ∈ unimplementedChars
            · simp [hu]
            · simp [hu]

theorem afterShort_not40 (p : PSpec) (rest : Bytes) (h : rest.head? ≠ some 40) : afterShort p rest = some (p, rest) := by
  unfold afterShort
  cases rest with
  | nil => rfl
  | cons a q =>
    have : ¬ a = 40 := by intro h'; apply h; simp [h']
    split
    · rename_i heq; injection heq with h' _; exact absurd h' this
    · rfl

/-- short magic whose remainder does not start with `(` (the known finding) and is a clean path -/
theorem parse_short (rest : Bytes) (hne : rest ≠ []) (hp : rest.head? ≠ some 40)
    (hdom : ∀ t e r, parseShort rest false false = some (t, e, r) → r.head? ≠ some 40 ∧ cleanPath r = true) :
    initItem (58 :: rest) = ((parseSpec (58 :: rest)).bind normalize).map itemOf := by
  have hcolon : (58 :: rest) ≠ [58] := by intro h; injection h with _ h; exact hne h
  have hg : parseElementMagic (58 :: rest) = shortLoop Item.empty rest := by
    unfold parseElementMagic
    cases rest with
    | nil => exact absurd rfl hne
    | cons a q =>
      have : ¬ a = 40 := by intro h; apply hp; simp [h]
      split
      · rename_i heq; injection heq with _ h; injection h with h _; exact absurd h this
      · rename_i heq; injection heq with _ h; rw [h]
      · rename_i h1 h2; exact absurd rfl (h2 _)
  rw [initItem_eq _ (by simp), parseSpec_eq _ (by simp) hcolon, hg, shortLoop_eq]
  unfold parseMagic
  simp only [show Item.empty.top = false from rfl, show Item.empty.exclude = false from rfl]
  cases hps : parseShort rest false false with
  | none => rfl
  | some r =>
    obtain ⟨t, e, r'⟩ := r
    obtain ⟨h40, hc⟩ := hdom t e r' hps
    simp only [Option.map_some, Option.bind_some]
    rw [afterShort_not40 _ r' h40]
    simp only [Option.map_some, Option.bind_some]
    have hit : ({ Item.empty with top := t, exclude := e } : Item) = itemOf { PSpec.default with top := t, exclude := e } := rfl
    rw [hit]
    exact finish_both { PSpec.default with top := t, exclude := e } ⟨rfl, rfl, rfl⟩ r' hc

/-! ### long magic made of flag keywords -/

/-- the keywords without argument (and the empty element both sides skip) -/
def flagWords : List Bytes :=
  [[], [97, 116, 116, 114], [116, 111, 112], [105, 99, 97, 115, 101], [101, 120, 99, 108, 117, 100, 101],
   [108, 105, 116, 101, 114, 97, 108], [103, 108, 111, 98]]

def joinComma : List Bytes → Bytes
  | [] => []
  | [w] => w
  | w :: rest => w ++ [44] ++ joinComma rest

/-- no comma, closing parenthesis or backslash -/
def wordOk (w : Bytes) : Prop := ∀ b ∈ w, b ≠ 44 ∧ b ≠ 41 ∧ b ≠ 92

theorem flagWords_ok : ∀ w ∈ flagWords, wordOk w := by
  intro w hw b hb
  simp only [flagWords, List.mem_cons, List.mem_nil_iff, or_false] at hw
  rcases hw with rfl | rfl | rfl | rfl | rfl | rfl | rfl <;> simp at hb <;>
    (try rcases hb with rfl | rfl | rfl | rfl | rfl | rfl | rfl) <;> decide

theorem splitKwAux_cons (prev : UInt8) (acc : Bytes) (b : UInt8) (rest : Bytes) :
    splitKwAux prev acc (b :: rest)
      = if b == 44 && prev != 92 then acc.reverse :: splitKwAux b [] rest else splitKwAux b (b :: acc) rest := by
  rw [splitKwAux.eq_def]

theorem strcspn_cons (b : UInt8) (rest : Bytes) (h : b ≠ 92) :
    strcspnEscaped (b :: rest) = if (b == 44 || b == 41) then 0 else 1 + strcspnEscaped rest := by
  rw [strcspnEscaped.eq_def]
  split
  · rename_i heq; injection heq
  · rename_i heq; injection heq with h1 _; exact absurd h1 h
  · rename_i heq; injection heq with h1 h2; subst h1; subst h2; rfl

theorem longLoop_succ (f : Nat) (item : Item) (pos : Bytes) :
    longLoop (f + 1) item pos =
      if pos.isEmpty then none
      else if pos.head? == some 41 then some (item, pos.drop 1)
      else
        if strcspnEscaped pos == 0 then
          longLoop f item (if pos[strcspnEscaped pos]? == some 44 then pos.drop (strcspnEscaped pos + 1) else pos.drop (strcspnEscaped pos))
        else match longKeyword item (pos.take (strcspnEscaped pos)) with
          | none => none
          | some item' =>
            longLoop f item' (if pos[strcspnEscaped pos]? == some 44 then pos.drop (strcspnEscaped pos + 1) else pos.drop (strcspnEscaped pos)) := by
  rw [longLoop]
  rfl

theorem splitKwAux_word (w : Bytes) (hw : wordOk w) : ∀ (prev : UInt8) (acc rest : Bytes), prev ≠ 92 →
    splitKwAux prev acc (w ++ 44 :: rest) = (acc.reverse ++ w) :: splitKwAux 44 [] rest := by
  induction w with
  | nil =>
    intro prev acc rest hp
    rw [List.nil_append, splitKwAux_cons]
    simp [hp]
  | cons b w ih =>
    intro prev acc rest _
    have hb := hw b (by simp)
    rw [List.cons_append, splitKwAux_cons]
    have h44 : (b == 44) = false := by simpa using hb.1
    simp only [h44, Bool.false_and, Bool.false_eq_true, if_false]
    rw [ih (fun x hx => hw x (by simp [hx])) b (b :: acc) rest hb.2.2]
    simp

theorem splitKwAux_last (w : Bytes) (hw : wordOk w) : ∀ (prev : UInt8) (acc : Bytes),
    splitKwAux prev acc w = [acc.reverse ++ w] := by
  induction w with
  | nil => intro prev acc; simp [splitKwAux]
  | cons b w ih =>
    intro prev acc
    have hb := hw b (by simp)
    rw [splitKwAux_cons]
    have h44 : (b == 44) = false := by simpa using hb.1
    simp only [h44, Bool.false_and, Bool.false_eq_true, if_false]
    rw [ih (fun x hx => hw x (by simp [hx]))]
    simp

theorem splitKw_join (ws : List Bytes) (hne : ws ≠ []) (hw : ∀ w ∈ ws, wordOk w) :
    ∀ (prev : UInt8), prev ≠ 92 → splitKwAux prev [] (joinComma ws) = ws := by
  induction ws with
  | nil => exact absurd rfl hne
  | cons w ws ih =>
    intro prev hp
    cases ws with
    | nil =>
      simp only [joinComma]
      rw [splitKwAux_last w (hw w (by simp))]
      simp
    | cons w2 more =>
      simp only [joinComma, List.append_assoc, List.singleton_append]
      rw [splitKwAux_word w (hw w (by simp)) prev [] _ hp]
      simp only [List.reverse_nil, List.nil_append]
      congr 1
      exact ih (by simp) (fun x hx => hw x (by simp [hx])) 44 (by decide)

theorem strcspn_word (w : Bytes) (hw : wordOk w) (c : UInt8) (hc : c = 44 ∨ c = 41) (rest : Bytes) :
    strcspnEscaped (w ++ c :: rest) = w.length := by
  induction w with
  | nil =>
    have hc92 : c ≠ 92 := by rcases hc with rfl | rfl <;> decide
    rw [List.nil_append, strcspn_cons c rest hc92]
    rcases hc with rfl | rfl <;> simp
  | cons b w ih =>
    have hb := hw b (by simp)
    rw [List.cons_append, strcspn_cons b _ hb.2.2]
    have hne : (b == 44 || b == 41) = false := by simp [hb.1, hb.2.1]
    simp only [hne, Bool.false_eq_true, if_false, List.length_cons]
    rw [ih (fun x hx => hw x (by simp [hx]))]
    omega

/-- git's loop, as a fold over the elements -/
def gitFold : Item → List Bytes → Option Item
  | it, [] => some it
  | it, w :: ws => if w.isEmpty then gitFold it ws else (longKeyword it w).bind fun it' => gitFold it' ws

/-- one element of the long form, followed by `c` (a comma or the closing parenthesis) -/
theorem longLoop_word (f : Nat) (it : Item) (w : Bytes) (hw : wordOk w) (c : UInt8) (hc : c = 44 ∨ c = 41)
    (rest : Bytes) (hne : w ≠ [] ∨ c = 44) :
    longLoop (f + 1) it (w ++ c :: rest) =
      if w.isEmpty then longLoop f it (if c == 44 then rest else c :: rest)
      else (longKeyword it w).bind fun it' => longLoop f it' (if c == 44 then rest else c :: rest) := by
  rw [longLoop_succ]
  have hpos : (w ++ c :: rest).isEmpty = false := by cases w <;> rfl
  have hlen := strcspn_word w hw c hc rest
  have hget : (w ++ c :: rest)[w.length]? = some c := by
    rw [List.getElem?_append_right (Nat.le_refl _)]; simp
  have htake : (w ++ c :: rest).take w.length = w := List.take_left' rfl
  have hdrop0 : (w ++ c :: rest).drop w.length = c :: rest := List.drop_left' rfl
  have hdrop1 : (w ++ c :: rest).drop (w.length + 1) = rest := by
    have : w ++ c :: rest = (w ++ [c]) ++ rest := by simp
    rw [this]; exact List.drop_left' (by simp)
  have hh : ((w ++ c :: rest).head? == some 41) = false := by
    cases w with
    | nil =>
      rcases hne with h | h
      · exact absurd rfl h
      · subst h; simp
    | cons b w' => have := (hw b (by simp)).2.1; simp [this]
  simp only [hpos, Bool.false_eq_true, if_false, hh, hlen, hget, htake, hdrop0, hdrop1]
  have hnext : (if (some c == some (44 : UInt8)) = true then rest else c :: rest) = (if (c == 44) = true then rest else c :: rest) := by
    by_cases h : c = 44
    · simp [h]
    · simp [h]
  rw [hnext]
  cases w with
  | nil => simp
  | cons b w' =>
    simp only [List.length_cons, Nat.add_eq_zero_iff, Nat.succ_ne_self, and_false, beq_iff_eq, if_false, List.isEmpty_cons,
      Bool.false_eq_true]
    cases longKeyword it (b :: w') <;> rfl

theorem longLoop_close (f : Nat) (it : Item) (path : Bytes) : longLoop (f + 1) it (41 :: path) = some (it, path) := by
  rw [longLoop_succ]; simp

theorem longLoop_join (path : Bytes) : ∀ (ws : List Bytes), ws ≠ [] → (∀ w ∈ ws, wordOk w) →
    ∀ (fuel : Nat) (it : Item), ws.length + 1 ≤ fuel →
      longLoop fuel it (joinComma ws ++ 41 :: path) = (gitFold it ws).map fun it' => (it', path) := by
  intro ws
  induction ws with
  | nil => intro h; exact absurd rfl h
  | cons w ws ih =>
    intro _ hw fuel it hf
    have hwk := hw w (by simp)
    cases fuel with
    | zero => omega
    | succ f =>
      cases ws with
      | nil =>
        simp only [joinComma, gitFold]
        cases hwe : w with
        | nil => rw [List.nil_append, longLoop_close]; simp
        | cons b w' =>
          rw [← hwe, longLoop_word f it w hwk 41 (Or.inr rfl) path (Or.inl (by rw [hwe]; simp))]
          have hie : w.isEmpty = false := by rw [hwe]; rfl
          simp only [hie, Bool.false_eq_true, if_false, show ((41 : UInt8) == 44) = false from by decide]
          cases hk : longKeyword it w with
          | none => rfl
          | some it' =>
            simp only [Option.bind_some, Option.map_some]
            cases f with
            | zero => simp at hf
            | succ f' => rw [longLoop_close]
      | cons w2 more =>
        have hfl : (w2 :: more).length + 1 ≤ f := by simp only [List.length_cons] at hf ⊢; omega
        have ih' := fun it => ih (by simp) (fun x hx => hw x (by simp [hx])) f it hfl
        simp only [joinComma, List.append_assoc, List.singleton_append, List.cons_append]
        rw [longLoop_word f it w hwk 44 (Or.inl rfl) _ (Or.inr rfl)]
        simp only [beq_self_eq_true, if_true, gitFold]
        by_cases hie : w.isEmpty = true
        · simp only [hie, if_true]
          exact ih' it
        · simp only [hie, Bool.false_eq_true, if_false]
          cases hk : longKeyword it w with
          | none => rfl
          | some it' =>
            simp only [Option.bind_some]
            exact ih' it'

/-- gitoxide's state (`none` = already refused) against git's item while the keywords are read -/
def Rel (op : Option PSpec) (it : Item) : Prop :=
  match op with
  | some p => Bare p ∧ p.attrs = [] ∧ it = itemOf p
  | none => (it.literal && it.glob) = true

def gixFold : Option PSpec → List Bytes → Option PSpec
  | op, [] => op
  | none, _ :: _ => none
  | some p, w :: ws => gixFold (applyKeyword p w) ws

theorem applyKeywords_eq (ws : List Bytes) : ∀ (p : PSpec), applyKeywords p ws = gixFold (some p) ws := by
  induction ws with
  | nil => intro p; rfl
  | cons w ws ih =>
    intro p
    simp only [applyKeywords, gixFold]
    cases h : applyKeyword p w with
    | none => cases ws <;> rfl
    | some p' => exact ih p'

theorem gixFold_none (ws : List Bytes) : gixFold none ws = none := by cases ws <;> rfl

/-- one flag keyword keeps the two sides related -/
theorem rel_step (op : Option PSpec) (it : Item) (w : Bytes) (hw : w ∈ flagWords) (h : Rel op it) :
    ∃ it', (if w.isEmpty then some it else longKeyword it w) = some it' ∧ Rel (op.bind fun p => applyKeyword p w) it' := by
  simp only [flagWords, List.mem_cons, List.mem_nil_iff, or_false] at hw
  cases op with
  | none =>
    simp only [Rel] at h
    simp only [Bool.and_eq_true] at h
    rcases hw with rfl | rfl | rfl | rfl | rfl | rfl | rfl
    all_goals first
      | exact ⟨it, rfl, by simp [Rel, h.1, h.2]⟩
      | exact ⟨_, rfl, by simp [Rel, h.1, h.2]⟩
  | some p =>
    obtain ⟨hb, ha, hit⟩ := h
    subst hit
    obtain ⟨hb1, hb2, hb3⟩ := hb
    rcases hw with rfl | rfl | rfl | rfl | rfl | rfl | rfl
    · exact ⟨itemOf p, rfl, ⟨⟨hb1, hb2, hb3⟩, ha, rfl⟩⟩
    · exact ⟨itemOf p, rfl, ⟨⟨hb1, hb2, hb3⟩, ha, rfl⟩⟩
    · exact ⟨{ itemOf p with top := true }, rfl, ⟨⟨hb1, hb2, hb3⟩, ha, rfl⟩⟩
    · exact ⟨{ itemOf p with icase := true }, rfl, ⟨⟨hb1, hb2, hb3⟩, ha, rfl⟩⟩
    · exact ⟨{ itemOf p with exclude := true }, rfl, ⟨⟨hb1, hb2, hb3⟩, ha, rfl⟩⟩
    · refine ⟨{ itemOf p with literal := true }, rfl, ?_⟩
      simp only [Option.bind_some]
      have happ : applyKeyword p [108, 105, 116, 101, 114, 97, 108]
          = if p.mode = Mode.glob then none else some { p with mode := Mode.literal } := rfl
      rw [happ]
      by_cases hm : p.mode = Mode.glob
      · simp [hm, Rel, itemOf]
      · simp only [hm, if_false, Rel]
        refine ⟨⟨hb1, hb2, hb3⟩, ha, ?_⟩
        unfold itemOf
        simp [hm]
    · refine ⟨{ itemOf p with glob := true }, rfl, ?_⟩
      simp only [Option.bind_some]
      have happ : applyKeyword p [103, 108, 111, 98]
          = if p.mode = Mode.literal then none else some { p with mode := Mode.glob } := rfl
      rw [happ]
      by_cases hm : p.mode = Mode.literal
      · simp [hm, Rel, itemOf]
      · simp only [hm, if_false, Rel]
        refine ⟨⟨hb1, hb2, hb3⟩, ha, ?_⟩
        unfold itemOf
        simp [hm]

theorem rel_fold (ws : List Bytes) (hws : ∀ w ∈ ws, w ∈ flagWords) : ∀ (op : Option PSpec) (it : Item), Rel op it →
    ∃ it', gitFold it ws = some it' ∧ Rel (gixFold op ws) it' := by
  induction ws with
  | nil => intro op it h; exact ⟨it, rfl, by cases op <;> exact h⟩
  | cons w ws ih =>
    intro op it h
    obtain ⟨it1, h1, hr1⟩ := rel_step op it w (hws w (by simp)) h
    obtain ⟨it2, h2, hr2⟩ := ih (fun x hx => hws x (by simp [hx])) _ it1 hr1
    refine ⟨it2, ?_, ?_⟩
    · simp only [gitFold]
      by_cases he : w.isEmpty = true
      · simp only [he, if_true] at h1 ⊢
        injection h1 with h1; subst h1; exact h2
      · simp only [he, Bool.false_eq_true, if_false] at h1 ⊢
        rw [h1]; exact h2
    · cases op with
      | none => simp only [Option.bind_none] at hr2; rw [gixFold_none] at hr2 ⊢; exact hr2
      | some p => exact hr2

theorem joinComma_no_close (ws : List Bytes) (hw : ∀ w ∈ ws, wordOk w) : ∀ b ∈ joinComma ws, b ≠ 41 := by
  induction ws with
  | nil => intro b hb; simp [joinComma] at hb
  | cons w ws ih =>
    cases ws with
    | nil => intro b hb; exact (hw w (by simp) b hb).2.1
    | cons w2 more =>
      intro b hb
      simp only [joinComma, List.append_assoc, List.singleton_append, List.mem_append, List.mem_cons] at hb
      rcases hb with hb | rfl | hb
      · exact (hw w (by simp) b hb).2.1
      · decide
      · exact ih (fun x hx => hw x (by simp [hx])) b hb

theorem takeWhile_append_stop (a : Bytes) (c : UInt8) (rest : Bytes) (p : UInt8 → Bool)
    (ha : ∀ b ∈ a, p b = true) (hc : p c = false) :
    (a ++ c :: rest).takeWhile p = a ∧ (a ++ c :: rest).dropWhile p = c :: rest := by
  induction a with
  | nil => simp [List.takeWhile, List.dropWhile, hc]
  | cons x a ih =>
    have hx := ha x (by simp)
    obtain ⟨h1, h2⟩ := ih (fun b hb => ha b (by simp [hb]))
    simp [List.takeWhile, List.dropWhile, hx, h1, h2]

theorem length_le_joinComma (ws : List Bytes) : ws.length ≤ (joinComma ws).length + 1 := by
  induction ws with
  | nil => simp
  | cons w ws ih =>
    cases ws with
    | nil => simp [joinComma]
    | cons w2 more =>
      simp only [joinComma, List.append_assoc, List.singleton_append, List.length_append, List.length_cons] at ih ⊢
      omega

/-- gitoxide's long form on a list of well-formed words -/
theorem parseLong_join (p : PSpec) (ws : List Bytes) (hne : ws ≠ []) (hw : ∀ w ∈ ws, wordOk w) (path : Bytes) :
    parseLong p (joinComma ws ++ 41 :: path) = (gixFold (some p) ws).map fun p' => (p', path) := by
  unfold parseLong
  have hno := joinComma_no_close ws hw
  have hcont : (joinComma ws ++ 41 :: path).contains 41 = true := by simp
  obtain ⟨ht, hd⟩ := takeWhile_append_stop (joinComma ws) 41 path (fun b => b != 41)
    (fun b hb => by simpa using hno b hb) (by simp)
  simp only [hcont, Bool.not_true, Bool.false_eq_true, if_false, ht, hd, List.drop_succ_cons, List.drop_zero]
  by_cases he : (joinComma ws).isEmpty = true
  · simp only [he, if_true]
    -- a single empty element
    have hj : joinComma ws = [] := by simpa using he
    cases ws with
    | nil => exact absurd rfl hne
    | cons w ws =>
      cases ws with
      | nil =>
        simp only [joinComma] at hj
        subst hj
        rfl
      | cons w2 more => simp [joinComma] at hj
  · simp only [he, Bool.false_eq_true, if_false]
    unfold splitKw
    rw [splitKw_join ws hne hw 0 (by decide), applyKeywords_eq]

/-- **long magic of flag keywords** -/
theorem parse_long_flags (ws : List Bytes) (hne : ws ≠ []) (hws : ∀ w ∈ ws, w ∈ flagWords) (path : Bytes)
    (hc : cleanPath path = true) :
    initItem (58 :: 40 :: (joinComma ws ++ 41 :: path))
      = ((parseSpec (58 :: 40 :: (joinComma ws ++ 41 :: path))).bind normalize).map itemOf := by
  have hw : ∀ w ∈ ws, wordOk w := fun w h => flagWords_ok w (hws w h)
  have hcolon : (58 :: 40 :: (joinComma ws ++ 41 :: path)) ≠ [58] := by simp
  rw [initItem_eq _ (by simp), parseSpec_eq _ (by simp) hcolon]
  -- git
  have hg : parseElementMagic (58 :: 40 :: (joinComma ws ++ 41 :: path))
      = (gitFold Item.empty ws).map fun it' => (it', path) := by
    unfold parseElementMagic
    simp only
    apply longLoop_join path ws hne hw
    have := length_le_joinComma ws
    simp only [List.length_append, List.length_cons]
    omega
  -- gitoxide
  have hx : parseMagic (58 :: 40 :: (joinComma ws ++ 41 :: path))
      = (gixFold (some PSpec.default) ws).map fun p' => (p', path) := by
    unfold parseMagic
    have hs : parseShort (40 :: (joinComma ws ++ 41 :: path)) false false
        = some (false, false, 40 :: (joinComma ws ++ 41 :: path)) := by
      rw [parseShort.eq_def]
      have : ¬ (40 : UInt8) ∈ unimplementedChars := by decide
      simp [this]
    simp only [hs, afterShort]
    exact parseLong_join _ ws hne hw path
  rw [hg, hx]
  obtain ⟨it', hgf, hrel⟩ := rel_fold ws hws (some PSpec.default) Item.empty ⟨⟨rfl, rfl, rfl⟩, rfl, rfl⟩
  rw [hgf]
  simp only [Option.map_some, Option.bind_some]
  cases hgx : gixFold (some PSpec.default) ws with
  | none =>
    rw [hgx] at hrel
    simp only [Rel] at hrel
    simp [finishItem, hrel]
  | some p =>
    rw [hgx] at hrel
    obtain ⟨hb, _, hit⟩ := hrel
    subst hit
    simp only [Option.map_some, Option.bind_some]
    exact finish_both p hb path hc

end GixModel.Lemmas.C39
