import GixModel.Model.C40
/-
C40 — lemmas, part 1: bytes and UTF-8. git's `pick_one_utf8_char` (mask tests) accepts only what
bstr's `decode_utf8` (range tests, Unicode table 3-7) accepts, with the same scalar value and length.
-/
namespace GixModel.C40
open GixModel

theorem forall_byte {P : UInt8 → Prop} (h : ∀ n, n < 256 → P (UInt8.ofNat n)) (b : UInt8) : P b := by
  have := h b.toNat (UInt8.toNat_lt b)
  simpa using this

/-- git's mask tests are range tests -/
theorem lead2 (b : UInt8) : ((b &&& 0xe0 == 0xc0) && !(b &&& 0xfe == 0xc0)) = inRange 0xc2 0xdf b := by
  revert b; apply forall_byte; decide +kernel
theorem cont_eq (b : UInt8) : Spec.C40.isCont b = isCont b := by
  revert b; apply forall_byte; decide +kernel
theorem ascii_lt (b : UInt8) : decide (b < 0x80) = decide (b ≤ 0x7f) := by
  revert b; apply forall_byte; decide +kernel
theorem lead3 (b : UInt8) : (!(b < 0x80) && !(b &&& 0xe0 == 0xc0) && (b &&& 0xf0 == 0xe0)) = inRange 0xe0 0xef b := by
  revert b; apply forall_byte; decide +kernel
theorem lead4 (b : UInt8) :
    (!(b < 0x80) && !(b &&& 0xe0 == 0xc0) && !(b &&& 0xf0 == 0xe0) && (b &&& 0xf8 == 0xf0) && !(b > 0xf4)) = inRange 0xf0 0xf4 b := by
  revert b; apply forall_byte; decide +kernel
theorem forall_range {P : UInt8 → Prop} (lo len : Nat) (_hl : lo + len ≤ 256)
    (h : ∀ n, n < len → P (UInt8.ofNat (lo + n))) (b : UInt8) (h1 : lo ≤ b.toNat) (h2 : b.toNat < lo + len) : P b := by
  have := h (b.toNat - lo) (by omega)
  have e : lo + (b.toNat - lo) = b.toNat := by omega
  rw [e] at this
  simpa using this

theorem second3_aux : ∀ n, n < 16 → ∀ m, m < 256 →
    (!(isCont (UInt8.ofNat m) && !(UInt8.ofNat (224 + n) == 0xe0 && UInt8.ofNat m &&& 0xe0 == 0x80)
       && !(UInt8.ofNat (224 + n) == 0xed && UInt8.ofNat m &&& 0xe0 == 0xa0))
      || inRange (secondRange (UInt8.ofNat (224 + n))).1 (secondRange (UInt8.ofNat (224 + n))).2 (UInt8.ofNat m)) = true := by
  decide +kernel

theorem inRange_iff (lo hi b : UInt8) : inRange lo hi b = true ↔ lo.toNat ≤ b.toNat ∧ b.toNat ≤ hi.toNat := by
  simp [inRange, UInt8.le_iff_toNat_le]

theorem second3 (s0 s1 : UInt8) (h0 : inRange 0xe0 0xef s0 = true)
    (h : (isCont s1 && !(s0 == 0xe0 && s1 &&& 0xe0 == 0x80) && !(s0 == 0xed && s1 &&& 0xe0 == 0xa0)) = true) :
    inRange (secondRange s0).1 (secondRange s0).2 s1 = true := by
  rw [inRange_iff] at h0
  have key := forall_range (P := fun s0 => ∀ s1 : UInt8,
      (!(isCont s1 && !(s0 == 0xe0 && s1 &&& 0xe0 == 0x80) && !(s0 == 0xed && s1 &&& 0xe0 == 0xa0))
        || inRange (secondRange s0).1 (secondRange s0).2 s1) = true) 224 16 (by omega)
    (fun n hn => forall_byte (fun m hm => second3_aux n hn m hm)) s0 (by simpa using h0.1) (by have := h0.2; simp at this; omega)
  have := key s1
  rw [h] at this
  simpa using this

theorem second4_aux : ∀ n, n < 5 → ∀ m, m < 256 →
    (!(isCont (UInt8.ofNat m) && !(UInt8.ofNat (240 + n) == 0xf0 && UInt8.ofNat m &&& 0xf0 == 0x80)
       && !(UInt8.ofNat (240 + n) == 0xf4 && UInt8.ofNat m > 0x8f))
      || inRange (secondRange (UInt8.ofNat (240 + n))).1 (secondRange (UInt8.ofNat (240 + n))).2 (UInt8.ofNat m)) = true := by
  decide +kernel

theorem second4 (s0 s1 : UInt8) (h0 : inRange 0xf0 0xf4 s0 = true)
    (h : (isCont s1 && !(s0 == 0xf0 && s1 &&& 0xf0 == 0x80) && !(s0 == 0xf4 && s1 > 0x8f)) = true) :
    inRange (secondRange s0).1 (secondRange s0).2 s1 = true := by
  rw [inRange_iff] at h0
  have key := forall_range (P := fun s0 => ∀ s1 : UInt8,
      (!(isCont s1 && !(s0 == 0xf0 && s1 &&& 0xf0 == 0x80) && !(s0 == 0xf4 && s1 > 0x8f))
        || inRange (secondRange s0).1 (secondRange s0).2 s1) = true) 240 5 (by omega)
    (fun n hn => forall_byte (fun m hm => second4_aux n hn m hm)) s0 (by simpa using h0.1) (by have := h0.2; simp at this; omega)
  have := key s1
  rw [h] at this
  simpa using this

theorem range_disj (b : UInt8) :
    (inRange 0xe0 0xef b = true → (decide (b ≤ 0x7f) = false ∧ inRange 0xc2 0xdf b = false))
    ∧ (inRange 0xf0 0xf4 b = true → (decide (b ≤ 0x7f) = false ∧ inRange 0xc2 0xdf b = false ∧ inRange 0xe0 0xef b = false))
    ∧ (inRange 0xc2 0xdf b = true → decide (b ≤ 0x7f) = false) := by
  revert b; apply forall_byte; decide +kernel

theorem bfalse {c : Bool} (h : ¬ c = true) : c = false := by
  cases c
  · rfl
  · exact absurd rfl h

/-- whenever git's decoder reads a character, bstr's reads the same scalar value with the same length -/
theorem pickOne_decode (b : UInt8) (t : Bytes) (ch : Nat) (rest : Bytes)
    (h : Spec.C40.pickOne (b :: t) = some (ch, rest)) :
    ∃ k, decode1 b t = (some ch, k) ∧ 1 ≤ k ∧ t.drop (k - 1) = rest := by
  unfold Spec.C40.pickOne at h
  by_cases h1 : b < 0x80
  · simp only [h1, if_true, Option.some.injEq, Prod.mk.injEq] at h
    have : b ≤ 0x7f := by
      have := ascii_lt b; simp only [h1, decide_true] at this; simpa using this.symm
    exact ⟨1, by simp [decode1, this, h.1], by omega, by simpa using h.2⟩
  have h1' : decide (b ≤ 0x7f) = false := by
    have := ascii_lt b; simp only [h1, decide_false] at this; exact this.symm
  have h1'' : ¬ b ≤ 0x7f := by simpa using h1'
  simp only [h1, if_false] at h
  by_cases h2 : (b &&& 0xe0 == 0xc0) = true
  · simp only [h2, if_true] at h
    cases t with
    | nil => simp at h
    | cons s1 t1 =>
      simp only at h
      by_cases hc : (!Spec.C40.isCont s1 || b &&& 0xfe == 0xc0) = true
      · simp [hc] at h
      · have hc' := bfalse hc
        simp only [hc', Bool.false_eq_true, if_false, Option.some.injEq, Prod.mk.injEq] at h
        simp only [Bool.or_eq_false_iff, Bool.not_eq_eq_eq_not, Bool.not_false] at hc'
        have hr : inRange 0xc2 0xdf b = true := by rw [← lead2, h2, hc'.2]; rfl
        have hcont : isCont s1 = true := by rw [← cont_eq]; exact hc'.1
        refine ⟨2, ?_, by omega, by simpa using h.2⟩
        simp only [decode1, h1'', if_false, hr, if_true, hcont, cp2]
        rw [← h.1]
  have h2' := bfalse h2
  simp only [h2', Bool.false_eq_true, if_false] at h
  by_cases h3 : (b &&& 0xf0 == 0xe0) = true
  · simp only [h3, if_true] at h
    have hr : inRange 0xe0 0xef b = true := by
      rw [← lead3]; simp [h1, h2', h3]
    obtain ⟨_, hd2⟩ := (range_disj b).1 hr
    cases t with
    | nil => simp at h
    | cons s1 t1 =>
      cases t1 with
      | nil => simp at h
      | cons s2 t2 =>
        simp only at h
        split at h
        · cases h
        · rename_i hcond
          simp only [Option.some.injEq, Prod.mk.injEq] at h
          have hcond' := bfalse hcond
          simp only [Bool.or_eq_false_iff, Bool.not_eq_eq_eq_not, Bool.not_false] at hcond'
          obtain ⟨⟨⟨⟨c1, c2⟩, c3⟩, c4⟩, _⟩ := hcond'
          rw [cont_eq] at c1 c2
          have hsec := second3 b s1 hr (by rw [c1, c3, c4]; rfl)
          refine ⟨3, ?_, by omega, by simpa using h.2⟩
          simp only [decode1, h1'', if_false, hd2, Bool.false_eq_true, hr, if_true, hsec, Bool.not_true, c2, cp3]
          rw [← h.1]
  have h3' := bfalse h3
  simp only [h3', Bool.false_eq_true, if_false] at h
  by_cases h4 : (b &&& 0xf8 == 0xf0) = true
  · simp only [h4, if_true] at h
    cases t with
    | nil => simp at h
    | cons s1 t1 =>
      cases t1 with
      | nil => simp at h
      | cons s2 t2 =>
        cases t2 with
        | nil => simp at h
        | cons s3 t3 =>
          simp only at h
          split at h
          · cases h
          · rename_i hcond
            simp only [Option.some.injEq, Prod.mk.injEq] at h
            have hcond' := bfalse hcond
            simp only [Bool.or_eq_false_iff, Bool.not_eq_eq_eq_not, Bool.not_false, decide_eq_false_iff_not] at hcond'
            obtain ⟨⟨⟨⟨⟨c1, c2⟩, c3⟩, c4⟩, c5⟩, c6⟩ := hcond'
            rw [cont_eq] at c1 c2 c3
            have hgt : (decide (b > 0xf4)) = false := by simpa using c6
            have hr : inRange 0xf0 0xf4 b = true := by
              rw [← lead4]; simp only [h1, h2', h3', h4, hgt]; rfl
            obtain ⟨_, hd2, hd3⟩ := (range_disj b).2.1 hr
            have hsec := second4 b s1 hr (by rw [c1, c4, c5]; rfl)
            refine ⟨4, ?_, by omega, by simpa using h.2⟩
            simp only [decode1, h1'', if_false, hd2, hd3, Bool.false_eq_true, hr, if_true, hsec, Bool.not_true, c2, c3, cp4]
            rw [← h.1]
  · have h4' := bfalse h4
    simp [h4'] at h

theorem or_shift_zero {x y n : Nat} (h : (x <<< n) ||| y = 0) : x = 0 ∧ y = 0 := by
  have h' := Nat.or_eq_zero_iff.1 h
  refine ⟨?_, h'.2⟩
  have := h'.1
  rw [Nat.shiftLeft_eq] at this
  rcases Nat.mul_eq_zero.1 this with h0 | h0
  · exact h0
  · exact absurd h0 (by have := Nat.two_pow_pos n; omega)

theorem shift_zero {x n : Nat} (h : x <<< n = 0) : x = 0 :=
  (or_shift_zero (x := x) (y := 0) (n := n) (by simpa using h)).1

theorem nz2 (b : UInt8) : inRange 0xc2 0xdf b = true → (b &&& 0x1f).toNat ≠ 0 := by
  revert b; apply forall_byte; decide +kernel

theorem nz3_aux : ∀ n, n < 16 → ∀ m, m < 256 →
    (!(inRange (secondRange (UInt8.ofNat (224 + n))).1 (secondRange (UInt8.ofNat (224 + n))).2 (UInt8.ofNat m))
      || !((UInt8.ofNat (224 + n) &&& 0x0f).toNat == 0 && (UInt8.ofNat m &&& 0x3f).toNat == 0)) = true := by
  decide +kernel

theorem nz4_aux : ∀ n, n < 5 → ∀ m, m < 256 →
    (!(inRange (secondRange (UInt8.ofNat (240 + n))).1 (secondRange (UInt8.ofNat (240 + n))).2 (UInt8.ofNat m))
      || !((UInt8.ofNat (240 + n) &&& 0x07).toNat == 0 && (UInt8.ofNat m &&& 0x3f).toNat == 0)) = true := by
  decide +kernel

theorem nz3 (s0 s1 : UInt8) (h0 : inRange 0xe0 0xef s0 = true)
    (h : inRange (secondRange s0).1 (secondRange s0).2 s1 = true) :
    ¬ ((s0 &&& 0x0f).toNat = 0 ∧ (s1 &&& 0x3f).toNat = 0) := by
  rw [inRange_iff] at h0
  have key := forall_range (P := fun s0 => ∀ s1 : UInt8,
      (!(inRange (secondRange s0).1 (secondRange s0).2 s1)
        || !((s0 &&& 0x0f).toNat == 0 && (s1 &&& 0x3f).toNat == 0)) = true) 224 16 (by omega)
    (fun n hn => forall_byte (fun m hm => nz3_aux n hn m hm)) s0 (by simpa using h0.1) (by have := h0.2; simp at this; omega)
  have := key s1
  rw [h] at this
  intro ⟨a, b⟩
  rw [a, b] at this
  simp at this

theorem nz4 (s0 s1 : UInt8) (h0 : inRange 0xf0 0xf4 s0 = true)
    (h : inRange (secondRange s0).1 (secondRange s0).2 s1 = true) :
    ¬ ((s0 &&& 0x07).toNat = 0 ∧ (s1 &&& 0x3f).toNat = 0) := by
  rw [inRange_iff] at h0
  have key := forall_range (P := fun s0 => ∀ s1 : UInt8,
      (!(inRange (secondRange s0).1 (secondRange s0).2 s1)
        || !((s0 &&& 0x07).toNat == 0 && (s1 &&& 0x3f).toNat == 0)) = true) 240 5 (by omega)
    (fun n hn => forall_byte (fun m hm => nz4_aux n hn m hm)) s0 (by simpa using h0.1) (by have := h0.2; simp at this; omega)
  have := key s1
  rw [h] at this
  intro ⟨a, b⟩
  rw [a, b] at this
  simp at this

/-- bstr never decodes the scalar value 0 from anything but a NUL byte -/
theorem decode1_zero (b : UInt8) (t : Bytes) (k : Nat) (h : decode1 b t = (some 0, k)) : b = 0 := by
  unfold decode1 at h
  split at h
  · simp only [Prod.mk.injEq, Option.some.injEq] at h
    exact UInt8.toNat_inj.1 (by simpa using h.1)
  split at h
  · rename_i _ hr
    split at h
    · split at h
      · simp only [Prod.mk.injEq, Option.some.injEq, cp2] at h
        exact absurd (or_shift_zero h.1).1 (nz2 b hr)
      · simp at h
    · simp at h
  split at h
  · rename_i _ _ hr
    split at h
    · simp at h
    · split at h
      · simp at h
      · rename_i hs
        split at h
        · simp at h
        · split at h
          · simp only [Prod.mk.injEq, Option.some.injEq, cp3] at h
            have h1 := Nat.or_eq_zero_iff.1 h.1
            have h2 := or_shift_zero h1.1
            exact absurd ⟨h2.1, shift_zero h2.2⟩ (nz3 b _ hr (by simpa using hs))
          · simp at h
  split at h
  · rename_i _ _ _ hr
    split at h
    · simp at h
    · split at h
      · simp at h
      · rename_i hs
        split at h
        · simp at h
        · split at h
          · simp at h
          · split at h
            · simp at h
            · split at h
              · simp only [Prod.mk.injEq, Option.some.injEq, cp4] at h
                have h1 := Nat.or_eq_zero_iff.1 h.1
                have h2 := Nat.or_eq_zero_iff.1 h1.1
                have h3 := or_shift_zero h2.1
                exact absurd ⟨h3.1, shift_zero h3.2⟩ (nz4 b _ hr (by simpa using hs))
              · simp at h
  · simp at h

theorem ge2 (b : UInt8) : inRange 0xc2 0xdf b = true → 2 ≤ (b &&& 0x1f).toNat := by
  revert b; apply forall_byte; decide +kernel

theorem ge3_aux : ∀ n, n < 16 → ∀ m, m < 256 →
    (!(inRange (secondRange (UInt8.ofNat (224 + n))).1 (secondRange (UInt8.ofNat (224 + n))).2 (UInt8.ofNat m))
      || !((UInt8.ofNat (224 + n) &&& 0x0f).toNat == 0 && decide ((UInt8.ofNat m &&& 0x3f).toNat < 2))) = true := by
  decide +kernel

theorem ge3 (s0 s1 : UInt8) (h0 : inRange 0xe0 0xef s0 = true)
    (h : inRange (secondRange s0).1 (secondRange s0).2 s1 = true) :
    ¬ ((s0 &&& 0x0f).toNat = 0 ∧ (s1 &&& 0x3f).toNat < 2) := by
  rw [inRange_iff] at h0
  have key := forall_range (P := fun s0 => ∀ s1 : UInt8,
      (!(inRange (secondRange s0).1 (secondRange s0).2 s1)
        || !((s0 &&& 0x0f).toNat == 0 && decide ((s1 &&& 0x3f).toNat < 2))) = true) 224 16 (by omega)
    (fun n hn => forall_byte (fun m hm => ge3_aux n hn m hm)) s0 (by simpa using h0.1) (by have := h0.2; simp at this; omega)
  have := key s1
  rw [h] at this
  intro ⟨a, b⟩
  rw [a, decide_eq_true b] at this
  simp at this

theorem shl_lt {x n m : Nat} (h : x <<< n < m) : x * 2 ^ n < m := by rw [Nat.shiftLeft_eq] at h; exact h

/-- a scalar value below 128 is decoded from exactly one ASCII byte -/
theorem decode1_small (b : UInt8) (t : Bytes) (ch k : Nat) (h : decode1 b t = (some ch, k)) (hs : ch < 128) :
    ch = b.toNat ∧ k = 1 := by
  unfold decode1 at h
  by_cases c1 : b ≤ 0x7f
  · simp only [c1, if_true, Prod.mk.injEq, Option.some.injEq] at h
    exact ⟨h.1.symm, h.2.symm⟩
  simp only [c1, if_false] at h
  by_cases c2 : inRange 0xc2 0xdf b = true
  · simp only [c2, if_true] at h
    cases t with
    | nil => simp at h
    | cons b1 t1 =>
      simp only at h
      split at h
      · simp only [Prod.mk.injEq, Option.some.injEq, cp2] at h
        have h1 : (b &&& 0x1f).toNat <<< 6 ≤ ch := by rw [← h.1]; exact Nat.left_le_or
        have := shl_lt (Nat.lt_of_le_of_lt h1 hs)
        have := ge2 b c2
        omega
      · simp at h
  simp only [c2, Bool.false_eq_true, if_false] at h
  by_cases c3 : inRange 0xe0 0xef b = true
  · simp only [c3, if_true] at h
    cases t with
    | nil => simp at h
    | cons b1 t1 =>
      simp only at h
      split at h
      · simp at h
      · rename_i hsr
        cases t1 with
        | nil => simp at h
        | cons b2 t2 =>
          simp only at h
          split at h
          · simp only [Prod.mk.injEq, Option.some.injEq, cp3] at h
            have h1 : (b &&& 0x0f).toNat <<< 12 ||| (b1 &&& 0x3f).toNat <<< 6 ≤ ch := by rw [← h.1]; exact Nat.left_le_or
            have h2 : (b &&& 0x0f).toNat <<< 12 ≤ ch := Nat.le_trans Nat.left_le_or h1
            have h3 : (b1 &&& 0x3f).toNat <<< 6 ≤ ch := Nat.le_trans Nat.right_le_or h1
            have a1 := shl_lt (Nat.lt_of_le_of_lt h2 hs)
            have a2 := shl_lt (Nat.lt_of_le_of_lt h3 hs)
            exact absurd ⟨by omega, by omega⟩ (ge3 b b1 c3 (by simpa using hsr))
          · simp at h
  simp only [c3, Bool.false_eq_true, if_false] at h
  by_cases c4 : inRange 0xf0 0xf4 b = true
  · simp only [c4, if_true] at h
    cases t with
    | nil => simp at h
    | cons b1 t1 =>
      simp only at h
      split at h
      · simp at h
      · rename_i hsr
        cases t1 with
        | nil => simp at h
        | cons b2 t2 =>
          simp only at h
          split at h
          · simp at h
          · cases t2 with
            | nil => simp at h
            | cons b3 t3 =>
              simp only at h
              split at h
              · simp only [Prod.mk.injEq, Option.some.injEq, cp4] at h
                have h0 : (b &&& 0x07).toNat <<< 18 ||| (b1 &&& 0x3f).toNat <<< 12 ≤ ch := by
                  rw [← h.1]; exact Nat.le_trans Nat.left_le_or Nat.left_le_or
                have h2 : (b &&& 0x07).toNat <<< 18 ≤ ch := Nat.le_trans Nat.left_le_or h0
                have h3 : (b1 &&& 0x3f).toNat <<< 12 ≤ ch := Nat.le_trans Nat.right_le_or h0
                have a1 := shl_lt (Nat.lt_of_le_of_lt h2 hs)
                have a2 := shl_lt (Nat.lt_of_le_of_lt h3 hs)
                exact absurd ⟨by omega, by omega⟩ (nz4 b b1 c4 (by simpa using hsr))
              · simp at h
  · simp [c4] at h
end GixModel.C40
