import GixModel.Lemmas.C30V2
/-
C30 — protocol v0/v1, part 1: `position` / `swap_remove` facts and what `parse_v1` does with each
kind of line `git upload-pack` writes.
-/
namespace GixModel.C30
open GixModel
open GixModel.Spec.C30

/-! ### `iter().take(k).position(p)` and `swap_remove` -/

theorem position_eq_none (p : IRef → Bool) (k : Nat) (l : List IRef)
    (h : ∀ x ∈ l.take k, p x = false) : position p k l = none := by
  induction l generalizing k with
  | nil => cases k <;> rfl
  | cons x xs ih =>
    cases k with
    | zero => rfl
    | succ n =>
      have hx : p x = false := h x (by simp)
      have := ih n (fun y hy => h y (by simp [hy]))
      simp [position, hx, this]

theorem position_some_of_mem (p : IRef → Bool) (k : Nat) (l : List IRef)
    (h : ∃ x ∈ l.take k, p x = true) : ∃ i, position p k l = some i := by
  induction l generalizing k with
  | nil => simp at h
  | cons x xs ih =>
    cases k with
    | zero => simp at h
    | succ n =>
      by_cases hx : p x = true
      · exact ⟨0, by simp [position, hx]⟩
      · obtain ⟨y, hy, hpy⟩ := h
        simp only [List.take_succ_cons, List.mem_cons] at hy
        rcases hy with rfl | hy
        · exact absurd hpy hx
        · obtain ⟨i, hi⟩ := ih n ⟨y, hy, hpy⟩
          exact ⟨i + 1, by simp [position, hx, hi]⟩

theorem mem_drop_dropLast (l : List IRef) (n : Nat) (y : IRef) (h : y ∈ (l.dropLast).drop n) :
    y ∈ l.drop n := by
  rw [List.dropLast_eq_take, List.drop_take] at h
  exact List.mem_of_mem_take h

theorem dropLast_append_getLast_perm (l : List IRef) (h : l ≠ []) :
    (l.getLast h :: l.dropLast).Perm l := by
  have := List.dropLast_concat_getLast h
  calc (l.getLast h :: l.dropLast).Perm (l.dropLast ++ [l.getLast h]) := by
        simpa using (List.perm_append_comm (l₁ := [l.getLast h]) (l₂ := l.dropLast))
    _ = l := this

/-- the element `position` finds can be `swap_remove`d: it satisfies the predicate, the rest is a
rearrangement of the other elements, and nothing new moves behind the first `k` slots -/
theorem position_swapRemove (p : IRef → Bool) (k : Nat) (l : List IRef) (i : Nat)
    (h : position p k l = some i) :
    ∃ x rest, swapRemove l i = some (x, rest) ∧ p x = true ∧ (x :: rest).Perm l ∧
      ∀ y ∈ rest.drop k, y ∈ l.drop k := by
  induction l generalizing k i with
  | nil => cases k <;> simp [position] at h
  | cons x xs ih =>
    cases k with
    | zero => simp [position] at h
    | succ n =>
      by_cases hx : p x = true
      · simp only [position, hx, if_true, Option.some.injEq] at h
        subst h
        cases xs with
        | nil => exact ⟨x, [], rfl, hx, List.Perm.refl _, by simp⟩
        | cons y ys =>
          refine ⟨x, (y :: ys).getLast (List.cons_ne_nil _ _) :: (y :: ys).dropLast, rfl, hx, ?_, ?_⟩
          · exact List.Perm.cons x (dropLast_append_getLast_perm (y :: ys) (List.cons_ne_nil _ _))
          · intro z hz
            simp only [List.drop_succ_cons] at hz ⊢
            exact mem_drop_dropLast (y :: ys) n z hz
      · cases hp : position p n xs with
        | none => simp [position, hx, hp] at h
        | some j =>
          simp [position, hx, hp] at h
          subst h
          obtain ⟨r, rest, hsr, hpr, hperm, hdrop⟩ := ih n j hp
          refine ⟨r, x :: rest, by simp [swapRemove, hsr], hpr, ?_, ?_⟩
          · exact (List.Perm.swap x r rest).trans (List.Perm.cons x hperm)
          · intro z hz
            simp only [List.drop_succ_cons] at hz ⊢
            exact hdrop z hz

theorem lookupHasPath_eq (path : Bytes) (x : IRef) (h : lookupHasPath path x = true) :
    ∃ t, x = .lookup path t := by
  cases x <;> simp [lookupHasPath] at h
  exact ⟨_, by rw [h]⟩

/-! ### the lines of one advertised reference -/

theorem isEmpty_append_false (a b : Bytes) (h : a ≠ []) : (a ++ b).isEmpty = false := by
  cases a <;> simp_all

theorem not_hex_94 : ¬ IsHexDigit 94 := by decide
theorem not_hex_0 : ¬ IsHexDigit 0 := by decide

/-- `<hex> <name>\n` when no `symref=` capability is waiting for `name`: a new direct ref -/
theorem parseV1_refLine_direct (k : Nat) (out : List IRef) (sh : List Oid) (name : Bytes) (oid : Oid)
    (hn : ValidName name) (ho : oid.length = 20) (hpos : position (lookupHasPath name) k out = none) :
    parseV1 k { refs := out, shallow := sh } (toHex oid ++ 32 :: (name ++ [10])) =
      .ok { refs := out ++ [.direct name oid], shallow := sh } := by
  have e1 : toHex oid ++ 32 :: (name ++ [10]) = (toHex oid ++ 32 :: name) ++ [10] := by simp
  have hsp : (32 : UInt8) ∉ toHex oid := not_mem_toHex _ _ not_hex_32
  have hne := isEmpty_false_of_ne hn.ne
  have hss : stripSuffix bPeelSuffix name = none :=
    stripSuffix_none_of_not_mem _ _ 94 (by decide) hn.noCaret
  unfold parseV1
  simp only [e1, chomp_append_nl, splitOnce_append 32 _ _ hsp, hne, hss, fromHex_toHex oid ho, hpos]
  simp

/-- `<hex> <name>\n` when a `symref=` capability names `name`: its lookup entry is swap_remove'd
and the ref is pushed as a symbolic one -/
theorem parseV1_refLine_symbolic (k : Nat) (out : List IRef) (sh : List Oid) (name : Bytes) (oid : Oid)
    (hn : ValidName name) (ho : oid.length = 20) (pos : Nat)
    (hpos : position (lookupHasPath name) k out = some pos)
    (lp : Bytes) (target : Option Bytes) (rest : List IRef)
    (hsr : swapRemove out pos = some (.lookup lp target, rest)) :
    parseV1 k { refs := out, shallow := sh } (toHex oid ++ 32 :: (name ++ [10])) =
      .ok { refs := rest ++ [.symbolic name target none oid], shallow := sh } := by
  have e1 : toHex oid ++ 32 :: (name ++ [10]) = (toHex oid ++ 32 :: name) ++ [10] := by simp
  have hsp : (32 : UInt8) ∉ toHex oid := not_mem_toHex _ _ not_hex_32
  have hne := isEmpty_false_of_ne hn.ne
  have hss : stripSuffix bPeelSuffix name = none :=
    stripSuffix_none_of_not_mem _ _ 94 (by decide) hn.noCaret
  unfold parseV1
  simp only [e1, chomp_append_nl, splitOnce_append 32 _ _ hsp, hne, hss, fromHex_toHex oid ho, hpos, hsr]
  simp

/-- `<hex> <name>^{}\n` after a direct ref: the ref becomes a peeled one -/
theorem parseV1_peelLine_direct (k : Nat) (init : List IRef) (sh : List Oid) (name : Bytes)
    (tag p : Oid) (hn : ValidName name) (hp : p.length = 20) :
    parseV1 k { refs := init ++ [.direct name tag], shallow := sh }
        (toHex p ++ 32 :: (name ++ bPeelSuffix ++ [10])) =
      .ok { refs := init ++ [.peeled name tag p], shallow := sh } := by
  have e1 : toHex p ++ 32 :: (name ++ bPeelSuffix ++ [10]) = (toHex p ++ 32 :: (name ++ bPeelSuffix)) ++ [10] := by
    simp
  have hsp : (32 : UInt8) ∉ toHex p := not_mem_toHex _ _ not_hex_32
  have hne : (name ++ bPeelSuffix).isEmpty = false := isEmpty_append_false _ _ hn.ne
  unfold parseV1
  simp only [e1, chomp_append_nl, splitOnce_append 32 _ _ hsp, hne, stripSuffix_append, fromHex_toHex p hp]
  simp [hn.notCaps, popLast]

/-- `<hex> <name>^{}\n` after a symbolic ref (HEAD pointing to an annotated tag): the symbolic ref
learns its tag and its peeled object -/
theorem parseV1_peelLine_symbolic (k : Nat) (init : List IRef) (sh : List Oid) (name : Bytes)
    (target : Option Bytes) (tag p : Oid) (hn : ValidName name) (hp : p.length = 20) :
    parseV1 k { refs := init ++ [.symbolic name target none tag], shallow := sh }
        (toHex p ++ 32 :: (name ++ bPeelSuffix ++ [10])) =
      .ok { refs := init ++ [.symbolic name target (some tag) p], shallow := sh } := by
  have e1 : toHex p ++ 32 :: (name ++ bPeelSuffix ++ [10]) = (toHex p ++ 32 :: (name ++ bPeelSuffix)) ++ [10] := by
    simp
  have hsp : (32 : UInt8) ∉ toHex p := not_mem_toHex _ _ not_hex_32
  have hne : (name ++ bPeelSuffix).isEmpty = false := isEmpty_append_false _ _ hn.ne
  unfold parseV1
  simp only [e1, chomp_append_nl, splitOnce_append 32 _ _ hsp, hne, stripSuffix_append, fromHex_toHex p hp]
  simp [hn.notCaps, popLast]

theorem parseV1_shallowLine (k : Nat) (st : V1State) (o : Oid) (ho : o.length = 20) :
    parseV1 k st (bShallowSp ++ toHex o ++ [10]) = .ok { st with shallow := st.shallow ++ [o] } := by
  have e1 : bShallowSp ++ toHex o ++ [10] = (bShallow ++ 32 :: toHex o) ++ [10] := by
    simp [bShallowSp, bShallow]
  have hsp : (32 : UInt8) ∉ bShallow := by decide
  have hne := isEmpty_false_of_ne (toHex_ne_nil o ho)
  have hss : stripSuffix bPeelSuffix (toHex o) = none :=
    stripSuffix_none_of_not_mem _ _ 94 (by decide) (not_mem_toHex _ _ not_hex_94)
  have hfs : fromHex bShallow = none := by decide
  unfold parseV1
  simp only [e1, chomp_append_nl, splitOnce_append 32 _ _ hsp, hne, hss, hfs, fromHex_toHex o ho]
  simp

theorem parseV1_dummyLine (k : Nat) (st : V1State) :
    parseV1 k st (zeros40 ++ 32 :: (bCapabilities ++ bPeelSuffix) ++ [10]) = .ok st := by
  have hsp : (32 : UInt8) ∉ zeros40 := by decide
  have hne : (bCapabilities ++ bPeelSuffix).isEmpty = false := by decide
  have hall : (zeros40.all fun b => decide (b = 48)) = true := by decide
  unfold parseV1
  simp only [chomp_append_nl, splitOnce_append 32 _ _ hsp, hne, stripSuffix_append]
  simp [hall]

theorem startsWith_ERR_shallow (rest : Bytes) : startsWith bERR (bShallowSp ++ rest) = false := by
  simp [startsWith, stripPrefix, bERR, bShallowSp]

theorem startsWith_ERR_zeros (rest : Bytes) : startsWith bERR (zeros40 ++ rest) = false := by
  simp [startsWith, stripPrefix, bERR, zeros40, List.replicate]

/-! ### the read loop -/

theorem parseV1Lines_append (k : Nat) (st : V1State) (a b : List Bytes) :
    parseV1Lines k st (a ++ b) =
      match parseV1Lines k st a with
      | .ok st' => parseV1Lines k st' b
      | other => other := by
  induction a generalizing st with
  | nil => simp [parseV1Lines]
  | cons l ls ih =>
    simp only [List.cons_append, parseV1Lines]
    by_cases he : startsWith bERR l = true
    · simp [he]
    · simp only [he]
      cases hp : parseV1 k st l with
      | ok st' => simp [ih st']
      | err e => simp
      | panic => simp

theorem parseV1Lines_shallow (k : Nat) (refs : List IRef) (sh l : List Oid) (hl : ∀ o ∈ l, o.length = 20) :
    parseV1Lines k { refs := refs, shallow := sh } (shallowLines l) = .ok { refs := refs, shallow := sh ++ l } := by
  induction l generalizing sh with
  | nil => simp [shallowLines, parseV1Lines]
  | cons o l ih =>
    have ho := hl o (by simp)
    have e : bShallowSp ++ toHex o ++ [10] = bShallowSp ++ (toHex o ++ [10]) := by simp
    simp only [shallowLines, List.map_cons, parseV1Lines]
    rw [show startsWith bERR (bShallowSp ++ toHex o ++ [10]) = false from by rw [e]; exact startsWith_ERR_shallow _]
    simp only [parseV1_shallowLine k _ o ho]
    have := ih (sh ++ [o]) (fun x hx => hl x (by simp [hx]))
    simpa [shallowLines] using this

end GixModel.C30
