import GixModel.Lemmas.C52Item
/-
C52 — `strptime(fmt, strftime(fmt, b))` sets exactly the fields `b` has, for every format string whose
directives are followed by text that stops the parser where the formatter stopped (`chainOk`).
-/
namespace GixModel.C52
open GixModel GixModel.Civil

theorem pad2_head (n : Nat) (hn : n < 100) : ∃ x r, pad2 n = x :: r ∧ isDigit x = true ∧ isWs x = false ∧ x ≠ 45 ∧ x ≠ 43 := by
  rw [pad2_eq n hn]
  have := dig_facts (n / 10) (by omega)
  exact ⟨_, _, rfl, this.1, this.2.2.2.1, this.2.2.2.2.1, this.2.2.2.2.2⟩

theorem dropWhile_head_false (p : UInt8 → Bool) (rest : Bytes) (h : ∀ x r, rest = x :: r → p x = false) :
    rest.dropWhile p = rest := by
  cases rest with
  | nil => rfl
  | cons x r => simp [List.dropWhile_cons, h x r rfl]

theorem parseItem_fmt (it : Item) (b : Broken) (hb : BrokenOk b) (f : Fields) (rest : Bytes) (hr : restOk it rest) :
    parseItem it f (fmtItem b it ++ rest) = some (upd it b f, rest) := by
  have hm := hb.date.1
  have hm2 := hb.date.2.1
  have hd1 := hb.date.2.2.1
  have hd31 : b.day ≤ 31 := Nat.le_trans hb.date.2.2.2 (daysInMonth_le31 _ _)
  cases it with
  | lit c =>
    simp only [parseItem, fmtItem, upd, List.cons_append, List.nil_append]
    by_cases hw : isWs c = true
    · simp only [hw, if_true, List.dropWhile_cons]
      rw [dropWhile_head_false isWs rest (hr hw)]
    · simp [hw]
  | Y =>
    have hy := hb.year
    have h100 : b.year.natAbs / 100 < 100 := by omega
    obtain ⟨x, r, hx, hxd, _, hx45, hx43⟩ := pad2_head _ h100
    by_cases hneg : b.year < 0
    · have hinp : fmtItem b .Y ++ rest = 45 :: (pad4 b.year.natAbs ++ rest) := by
        simp [fmtItem, hneg]
      rw [hinp]
      have hval : -(b.year.natAbs : Int) = b.year := by omega
      have hos : optSign (45 :: (pad4 b.year.natAbs ++ rest)) = (true, pad4 b.year.natAbs ++ rest) := rfl
      simp only [parseItem, List.isEmpty_cons, Bool.false_eq_true, if_false, hos, parseNumber_pad4 _ hy, upd, if_true, hval]
    · have hinp : fmtItem b .Y ++ rest = x :: (r ++ (pad2 (b.year.natAbs % 100) ++ rest)) := by
        simp [fmtItem, hneg, pad4, hx, List.append_assoc]
      have hback : x :: (r ++ (pad2 (b.year.natAbs % 100) ++ rest)) = pad4 b.year.natAbs ++ rest := by
        simp [pad4, hx, List.append_assoc]
      have hval : (b.year.natAbs : Int) = b.year := by omega
      have hos : optSign (x :: (r ++ (pad2 (b.year.natAbs % 100) ++ rest))) =
          (false, x :: (r ++ (pad2 (b.year.natAbs % 100) ++ rest))) := by
        unfold optSign
        split
        · rename_i h; exact absurd (List.cons.inj h).1 hx45
        · rename_i h; exact absurd (List.cons.inj h).1 hx43
        · rfl
      rw [hback] at hos
      have hne : (pad4 b.year.natAbs ++ rest).isEmpty = false := by rw [← hback]; rfl
      rw [hinp, hback]
      simp only [parseItem, hne, Bool.false_eq_true, if_false, hos, parseNumber_pad4 _ hy, upd, hval]
  | m =>
    obtain ⟨x, r, hx, _⟩ := pad2_head b.month (by omega)
    have hne : (fmtItem b .m ++ rest).isEmpty = false := by simp [fmtItem, hx]
    simp only [parseItem, hne, Bool.false_eq_true, if_false]
    simp only [fmtItem, parseNumber_pad2 _ (show b.month < 100 by omega), upd]
    simp [hm, hm2]
  | d =>
    obtain ⟨x, r, hx, _⟩ := pad2_head b.day (by omega)
    have hne : (fmtItem b .d ++ rest).isEmpty = false := by simp [fmtItem, hx]
    simp only [parseItem, hne, Bool.false_eq_true, if_false]
    simp only [fmtItem, parseNumber_pad2 _ (show b.day < 100 by omega), upd]
    simp [hd1, hd31]
  | dNoPad =>
    have hnd := natDec_small b.day (by omega)
    have hne : (fmtItem b .dNoPad ++ rest).isEmpty = false := by
      simp only [fmtItem, hnd]; split <;> rfl
    simp only [parseItem, hne, Bool.false_eq_true, if_false]
    simp only [fmtItem, parseNumber_nopad _ hd1 hd31 rest hr, upd]
    simp [hd1, hd31]
  | H =>
    obtain ⟨x, r, hx, _⟩ := pad2_head b.hour (by have := hb.hour; omega)
    have hne : (fmtItem b .H ++ rest).isEmpty = false := by simp [fmtItem, hx]
    simp only [parseItem, hne, Bool.false_eq_true, if_false]
    simp only [fmtItem, parseNumber_pad2 _ (show b.hour < 100 by have := hb.hour; omega), upd]
    simp [hb.hour]
  | M =>
    obtain ⟨x, r, hx, _⟩ := pad2_head b.minute (by have := hb.minute; omega)
    have hne : (fmtItem b .M ++ rest).isEmpty = false := by simp [fmtItem, hx]
    simp only [parseItem, hne, Bool.false_eq_true, if_false]
    simp only [fmtItem, parseNumber_pad2 _ (show b.minute < 100 by have := hb.minute; omega), upd]
    simp [hb.minute]
  | S =>
    obtain ⟨x, r, hx, _⟩ := pad2_head b.second (by have := hb.second; omega)
    have hne : (fmtItem b .S ++ rest).isEmpty = false := by simp [fmtItem, hx]
    simp only [parseItem, hne, Bool.false_eq_true, if_false]
    simp only [fmtItem, parseNumber_pad2 _ (show b.second < 100 by have := hb.second; omega), upd]
    have h60 : ¬ b.second = 60 := by have := hb.second; omega
    simp [h60, hb.second]
  | z =>
    have hr' : rest = [] := hr
    subst hr'
    have hne : (fmtItem b .z ++ []).isEmpty = false := by
      simp [fmtItem, fmtOffset]
    simp only [parseItem, hne, Bool.false_eq_true, if_false]
    simp only [fmtItem, List.append_nil, parseOffset_fmt _ hb.offset, Option.map_some, upd]
  | zColon =>
    have hr' : rest = [] := hr
    subst hr'
    have hne : (fmtItem b .zColon ++ []).isEmpty = false := by
      simp [fmtItem, fmtOffset]
    simp only [parseItem, hne, Bool.false_eq_true, if_false]
    simp only [fmtItem, List.append_nil, parseOffset_fmt _ hb.offset, Option.map_some, upd]
  | a =>
    obtain ⟨x, r, hx, _⟩ := weekday_name_head b.weekday hb.weekday
    have hne : (fmtItem b .a ++ rest).isEmpty = false := by
      rw [show fmtItem b .a = weekdayNames.getD b.weekday [] from rfl, hx]; rfl
    simp only [parseItem, hne, Bool.false_eq_true, if_false]
    simp only [fmtItem, upd]
    exact weekday_item b.weekday hb.weekday f rest
  | b =>
    obtain ⟨x, r, hx, _⟩ := month_name_head b.month hm hm2
    have hne : (fmtItem b .b ++ rest).isEmpty = false := by
      rw [show fmtItem b .b = monthNames.getD (b.month - 1) [] from rfl, hx]; rfl
    simp only [parseItem, hne, Bool.false_eq_true, if_false]
    simp only [fmtItem, upd]
    exact month_item b.month hm hm2 f rest

/-- no directive writes an empty text, and none starts with white space -/
theorem fmtItem_head (it : Item) (b : Broken) (hb : BrokenOk b) (hlit : ∀ c, it = .lit c → isWs c = false) :
    ∃ x r, fmtItem b it = x :: r ∧ isWs x = false := by
  have hd31 : b.day ≤ 31 := Nat.le_trans hb.date.2.2.2 (daysInMonth_le31 _ _)
  cases it with
  | lit c => exact ⟨c, [], rfl, hlit c rfl⟩
  | Y =>
    by_cases hneg : b.year < 0
    · exact ⟨45, pad4 b.year.natAbs, by simp [fmtItem, hneg], by decide⟩
    · obtain ⟨x, r, hx, _, hw, _⟩ := pad2_head (b.year.natAbs / 100) (by have := hb.year; omega)
      exact ⟨x, r ++ pad2 (b.year.natAbs % 100), by simp [fmtItem, hneg, pad4, hx], hw⟩
  | m => obtain ⟨x, r, hx, _, hw, _⟩ := pad2_head b.month (by have := hb.date.2.1; omega); exact ⟨x, r, hx, hw⟩
  | d => obtain ⟨x, r, hx, _, hw, _⟩ := pad2_head b.day (by omega); exact ⟨x, r, hx, hw⟩
  | dNoPad =>
    have hnd := natDec_small b.day (by omega)
    simp only [fmtItem, hnd]
    split
    · exact ⟨_, _, rfl, (dig_facts b.day (by omega)).2.2.2.1⟩
    · exact ⟨_, _, rfl, (dig_facts (b.day / 10) (by omega)).2.2.2.1⟩
  | H => obtain ⟨x, r, hx, _, hw, _⟩ := pad2_head b.hour (by have := hb.hour; omega); exact ⟨x, r, hx, hw⟩
  | M => obtain ⟨x, r, hx, _, hw, _⟩ := pad2_head b.minute (by have := hb.minute; omega); exact ⟨x, r, hx, hw⟩
  | S => obtain ⟨x, r, hx, _, hw, _⟩ := pad2_head b.second (by have := hb.second; omega); exact ⟨x, r, hx, hw⟩
  | z =>
    cases h : fmtItem b .z with
    | nil => simp [fmtItem, fmtOffset] at h
    | cons x r =>
      refine ⟨x, r, rfl, ?_⟩
      simp only [fmtItem, fmtOffset, List.cons_append, List.nil_append, List.append_assoc, List.cons.injEq] at h
      rw [← h.1]; split <;> decide
  | zColon =>
    cases h : fmtItem b .zColon with
    | nil => simp [fmtItem, fmtOffset] at h
    | cons x r =>
      refine ⟨x, r, rfl, ?_⟩
      simp only [fmtItem, fmtOffset, List.cons_append, List.nil_append, List.append_assoc, List.cons.injEq] at h
      rw [← h.1]; split <;> decide
  | a => obtain ⟨x, r, hx, hw⟩ := weekday_name_head b.weekday hb.weekday; exact ⟨x, r, hx, hw⟩
  | b => obtain ⟨x, r, hx, hw⟩ := month_name_head b.month hb.date.1 hb.date.2.1; exact ⟨x, r, hx, hw⟩

/-! ### format strings -/

def startsNonWs : List Item → Bool
  | [] => true
  | .lit c :: _ => !isWs c
  | _ :: _ => true

def startsNonDigit : List Item → Bool
  | [] => true
  | .lit c :: _ => !isDigit c
  | _ :: _ => false

/-- every directive is followed by something that ends it: white space in the format is not followed
by white space, `%-d` is followed by a literal that is not a digit, the offset comes last -/
def chainOk : List Item → Bool
  | [] => true
  | it :: next =>
    chainOk next &&
    match it with
    | .lit c => if isWs c then startsNonWs next else true
    | .dNoPad => startsNonDigit next
    | .z => next.isEmpty
    | .zColon => next.isEmpty
    | _ => true

theorem strftime_cons (it : Item) (next : List Item) (b : Broken) :
    strftime (it :: next) b = fmtItem b it ++ strftime next b := by
  simp [strftime]

theorem restOk_of_chain (it : Item) (next : List Item) (b : Broken) (hb : BrokenOk b)
    (h : chainOk (it :: next) = true) : restOk it (strftime next b) := by
  simp only [chainOk, Bool.and_eq_true] at h
  obtain ⟨_, h2⟩ := h
  cases it with
  | lit c =>
    simp only [restOk]
    intro hw x r hx
    simp only [hw, if_true] at h2
    cases next with
    | nil => simp [strftime] at hx
    | cons it2 next2 =>
      rw [strftime_cons] at hx
      have hlit : ∀ c', it2 = .lit c' → isWs c' = false := by
        intro c' hc'; subst hc'; simpa [startsNonWs] using h2
      obtain ⟨y, ry, hy, hyw⟩ := fmtItem_head it2 b hb hlit
      rw [hy] at hx
      simp only [List.cons_append, List.cons.injEq] at hx
      rw [← hx.1]; exact hyw
  | dNoPad =>
    simp only [restOk]
    intro x r hx
    cases next with
    | nil => simp [strftime] at hx
    | cons it2 next2 =>
      cases it2 with
      | lit c' =>
        rw [strftime_cons] at hx
        simp only [fmtItem, List.cons_append, List.nil_append, List.cons.injEq] at hx
        rw [← hx.1]; simpa [startsNonDigit] using h2
      | _ => simp [startsNonDigit] at h2
  | z => simp only [restOk]; simp only [List.isEmpty_iff] at h2; subst h2; rfl
  | zColon => simp only [restOk]; simp only [List.isEmpty_iff] at h2; subst h2; rfl
  | _ => trivial

def applyAll (items : List Item) (b : Broken) (f : Fields) : Fields := items.foldl (fun acc it => upd it b acc) f

theorem parseItems_strftime (b : Broken) (hb : BrokenOk b) :
    ∀ (items : List Item) (f : Fields), chainOk items = true →
      parseItems items f (strftime items b) = some (applyAll items b f, []) := by
  intro items
  induction items with
  | nil => intro f _; rfl
  | cons it next ih =>
    intro f h
    have hr := restOk_of_chain it next b hb h
    rw [strftime_cons]
    simp only [parseItems, parseItem_fmt it b hb f _ hr]
    have hnext : chainOk next = true := by
      simp only [chainOk, Bool.and_eq_true] at h; exact h.1
    rw [ih (upd it b f) hnext]
    rfl

end GixModel.C52
