import GixModel.Lemmas.C12Le
/-
C12 (liveness) — lookups cannot get stuck, and runs of lookup steps are bounded by the progress measure.
-/
namespace GixModel.C12.Live

/-- the lookup of this handle is over (or was never started) -/
def Pc.isDone : Pc → Bool
  | Pc.idle => true
  | Pc.found => true
  | Pc.notFound => true
  | _ => false

theorem run_T {s s' : S} (inv : Inv s) (sched : List Ev) (hl : ∀ ev ∈ sched, ev.isLookup = true)
    (hr : run s sched = some s') : sched.length + T s' ≤ T s := by
  induction sched generalizing s with
  | nil => cases hr; simp
  | cons e es ih =>
    simp only [run] at hr
    cases hst : step s e with
    | none => rw [hst] at hr; cases hr
    | some s1 =>
      rw [hst] at hr
      have h1 := step_T inv (hl e List.mem_cons_self) hst
      have h2 := ih (step_inv inv hst) (fun ev hev => hl ev (List.mem_cons_of_mem _ hev)) hr
      simp only [List.length_cons]; omega

theorem not_quiet {s : S} {ix : Nat} (hq : ¬quiet s ix = true) :
    ∃ h', (∃ i p, (s.hs h').pc = Pc.lnClaim i p) ∨ (∃ i p k, (s.hs h').pc = Pc.lnLoad i p k) := by
  unfold quiet at hq
  rw [List.all_eq_true] at hq
  have : ∃ h', ¬(!announced s.cfg (s.hs h').pc ix) = true := by
    apply Classical.byContradiction
    intro hc
    apply hq
    intro h' _
    apply Classical.byContradiction
    intro hn
    exact hc ⟨h', hn⟩
  obtain ⟨h', hh⟩ := this
  refine ⟨h', ?_⟩
  cases hpc : (s.hs h').pc <;> rw [hpc] at hh <;> simp [announced] at hh
  · exact Or.inl ⟨_, _, rfl⟩
  · exact Or.inr ⟨_, _, _, rfl⟩

theorem claim_enabled {s : S} {h' i p : Nat} (hpc : (s.hs h').pc = Pc.lnClaim i p) :
    (step s (Ev.claim h')).isSome = true := by
  simp only [step, hpc]; split <;> rfl

theorem load_enabled {s : S} {h' i p k : Nat} (hpc : (s.hs h').pc = Pc.lnLoad i p k) :
    (step s (Ev.load h')).isSome = true := by
  simp only [step, hpc]; rfl

/-- No deadlock: as long as some lookup is not over, some lookup step is possible — the handle's own next
step, or, if it waits for running loads, the step of a thread that is loading. -/
theorem can_proceed {s : S} (inv : Inv s) (h : Nat) (hnd : (s.hs h).pc.isDone = false) :
    ∃ ev, ev.isLookup = true ∧ (step s ev).isSome = true := by
  have hblocked : ∀ ix, ¬quiet s ix = true → ∃ ev, ev.isLookup = true ∧ (step s ev).isSome = true := by
    intro ix hq
    obtain ⟨h', hh | hh⟩ := not_quiet hq
    · obtain ⟨i, p, hp⟩ := hh; exact ⟨Ev.claim h', rfl, claim_enabled hp⟩
    · obtain ⟨i, p, k, hp⟩ := hh; exact ⟨Ev.load h', rfl, load_enabled hp⟩
  cases hpc : (s.hs h).pc with
  | idle => rw [hpc] at hnd; cases hnd
  | found => rw [hpc] at hnd; cases hnd
  | notFound => rw [hpc] at hnd; cases hnd
  | scan => exact ⟨Ev.scan h, rfl, by simp only [step, hpc, ↓reduceIte]; split <;> rfl⟩
  | loi => exact ⟨Ev.loi h, rfl, by simp only [step, hpc, ↓reduceIte]; (repeat' split) <;> rfl⟩
  | lnStart ix => exact ⟨Ev.lnStart h, rfl, by simp only [step, hpc]; rfl⟩
  | lnInner ix prev => exact ⟨Ev.announce h, rfl, by simp only [step, hpc]; rfl⟩
  | lnClaim ix prev => exact ⟨Ev.claim h, rfl, claim_enabled hpc⟩
  | lnLate ix prev k => exact absurd hpc ((inv.h h).noLate ix prev k)
  | lnLoad ix prev k => exact ⟨Ev.load h, rfl, load_enabled hpc⟩
  | lnWait ix prev =>
    by_cases hq : quiet s ix = true
    · exact ⟨Ev.wait h, rfl, by simp only [step, hpc, hq]; rfl⟩
    · exact hblocked ix hq
  | lnEnd ix prev => exact ⟨Ev.lnEnd h, rfl, by simp only [step, hpc]; (repeat' split) <;> rfl⟩
  | cons ix => exact ⟨Ev.cons h, rfl, by simp only [step, hpc]; (repeat' split) <;> rfl⟩
  | recheck ix => exact ⟨Ev.recheck h, rfl, by simp only [step, hpc]; split <;> rfl⟩
  | collLoad => exact ⟨Ev.collLoad h, rfl, by simp only [step, hpc]; rfl⟩
  | collWait ix =>
    by_cases hq : quiet s ix = true
    · exact ⟨Ev.collMarker h, rfl, by simp only [step, hpc, hq]; rfl⟩
    · exact hblocked ix hq
  | collRead ix => exact ⟨Ev.collRead h, rfl, by simp only [step, hpc]; rfl⟩

/-- a started lookup never becomes `idle` again -/
theorem not_idle_kept {s s' : S} {ev : Ev} {h : Nat} (hs : step s ev = some s') (hn : (s.hs h).pc ≠ Pc.idle) :
    (s'.hs h).pc ≠ Pc.idle := by
  cases ev <;> simp only [step] at hs <;> (repeat' split at hs) <;> (try cases hs) <;>
    (try (first
      | exact hn
      | (simp only [S.setH, S.setObj, setAt]; split <;> simp_all)))

theorem not_idle_run {s s' : S} {h : Nat} (sched : List Ev) (hr : run s sched = some s')
    (hn : (s.hs h).pc ≠ Pc.idle) : (s'.hs h).pc ≠ Pc.idle := by
  induction sched generalizing s with
  | nil => cases hr; exact hn
  | cons e es ih =>
    simp only [run] at hr
    cases hst : step s e with
    | none => rw [hst] at hr; cases hr
    | some s1 => rw [hst] at hr; exact ih hr (not_idle_kept hst hn)

theorem start_pc {s s' : S} {h o : Nat} (hs : step s (Ev.start h o) = some s') : (s'.hs h).pc = Pc.scan := by
  simp only [step] at hs
  split at hs
  · cases hs; simp only [S.setH, setAt_same]
  · cases hs

theorem complete_run_aux (n : Nat) : ∀ {s : S}, Inv s → T s ≤ n →
    ∃ post s', (∀ ev ∈ post, ev.isLookup = true) ∧ run s post = some s'
      ∧ (∀ ev, ev.isLookup = true → step s' ev = none) := by
  induction n with
  | zero =>
    intro s inv hn
    refine ⟨[], s, (fun _ h => by cases h), rfl, ?_⟩
    intro ev hl
    cases hst : step s ev with
    | none => rfl
    | some s1 => have := step_T inv hl hst; omega
  | succ n ih =>
    intro s inv hn
    by_cases hex : ∃ ev, ev.isLookup = true ∧ (step s ev).isSome = true
    · obtain ⟨ev, hl, hsome⟩ := hex
      cases hst : step s ev with
      | none => rw [hst] at hsome; cases hsome
      | some s1 =>
        have hlt := step_T inv hl hst
        obtain ⟨post, s', h1, h2, h3⟩ := ih (step_inv inv hst) (by omega)
        refine ⟨ev :: post, s', ?_, ?_, h3⟩
        · intro e he
          rcases List.mem_cons.mp he with he | he
          · rw [he]; exact hl
          · exact h1 e he
        · simp only [run, hst]; exact h2
    · refine ⟨[], s, (fun _ h => by cases h), rfl, ?_⟩
      intro ev hl
      cases hst : step s ev with
      | none => rfl
      | some s1 => exact absurd ⟨ev, hl, by rw [hst]; rfl⟩ hex

/-- every state can be run to completion by lookup steps alone (and only finitely many are possible) -/
theorem complete_run {s : S} (inv : Inv s) :
    ∃ post s', (∀ ev ∈ post, ev.isLookup = true) ∧ run s post = some s'
      ∧ (∀ ev, ev.isLookup = true → step s' ev = none) :=
  complete_run_aux (T s) inv (Nat.le_refl _)

/-- the lookup steps of a schedule -/
def countLookup : List Ev → Nat
  | [] => 0
  | e :: es => (if e.isLookup then 1 else 0) + countLookup es

/-- the progress measure right after every event of the schedule that is NOT a lookup step (a directory
change, a new handle, a new lookup), summed up along the run from `s` -/
def changeBudget (s : S) : List Ev → Nat
  | [] => 0
  | e :: es =>
    match step s e with
    | some s1 => (if e.isLookup then 0 else T s1) + changeBudget s1 es
    | none => 0

/-- the number of non-lookup events -/
def countChanges : List Ev → Nat
  | [] => 0
  | e :: es => (if e.isLookup then 0 else 1) + countChanges es

theorem run_T_changes {s s' : S} (inv : Inv s) (sched : List Ev) (hr : run s sched = some s') :
    countLookup sched + T s' ≤ T s + changeBudget s sched := by
  induction sched generalizing s with
  | nil => cases hr; simp [countLookup, changeBudget]
  | cons e es ih =>
    simp only [run] at hr
    cases hst : step s e with
    | none => rw [hst] at hr; cases hr
    | some s1 =>
      rw [hst] at hr
      have h2 := ih (step_inv inv hst) hr
      simp only [countLookup, changeBudget, hst]
      cases hl : e.isLookup with
      | true =>
        have h1 := step_T inv hl hst
        simp only [if_true]
        have : (if false = true then 0 else T s1) = T s1 := rfl
        simp only [Bool.false_eq_true, if_false] at *
        omega
      | false =>
        simp only [Bool.false_eq_true, if_false]
        omega

/-- if the measure never exceeds `B` right after a change, the changes cost at most `B` each -/
theorem changeBudget_le {s s' : S} (B : Nat) (sched : List Ev) (hr : run s sched = some s')
    (hB : ∀ (pre : List Ev) (e : Ev) (post : List Ev) (s1 : S), sched = pre ++ e :: post → e.isLookup = false →
      run s (pre ++ [e]) = some s1 → T s1 ≤ B) :
    changeBudget s sched ≤ countChanges sched * B := by
  induction sched generalizing s with
  | nil => simp [changeBudget, countChanges]
  | cons e es ih =>
    simp only [run] at hr
    cases hst : step s e with
    | none => rw [hst] at hr; cases hr
    | some s1 =>
      rw [hst] at hr
      have h2 := ih hr (by
        intro pre e' post s2 hsp he' hrun
        apply hB (e :: pre) e' post s2 (by rw [hsp]; rfl) he'
        simp only [List.cons_append, run, hst]; exact hrun)
      simp only [changeBudget, countChanges, hst]
      cases hl : e.isLookup with
      | true => simp only [if_true, Nat.zero_add]; simpa using h2
      | false =>
        have h1 := hB [] e es s1 rfl hl (by simp only [List.nil_append, run, hst])
        simp only [Bool.false_eq_true, if_false, Nat.add_mul, Nat.one_mul]
        omega

end GixModel.C12.Live
