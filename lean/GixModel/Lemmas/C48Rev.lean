import GixModel.Lemmas.C48Nav
import GixModel.Lemmas.C48Total
/-
C48 — the tokenizer on a printed revision `<anchor><navs><end>`, with the all-accepting delegate.
-/
namespace GixModel.C48
open GixModel GixModel.Spec.C48

/-! ### the separator search on a printed name -/

/-- what the printer puts after a name: nothing, `@{`, `..`, or one of `^ ~ :` -/
def SepStart (t : Bytes) : Prop :=
  t = [] ∨ (∃ r, t = 64 :: 123 :: r) ∨ (∃ r, t = 46 :: 46 :: r) ∨
    (∃ b r, t = b :: r ∧ (b = 94 ∨ b = 126 ∨ b = 58))

theorem scan_end (atStart : Bool) (hex : Option Nat) (acc t : Bytes) (ht : SepStart t) :
    scan atStart hex acc t = (acc.reverse, t, hex) := by
  rcases ht with rfl | ⟨r, rfl⟩ | ⟨r, rfl⟩ | ⟨b, r, rfl, hb⟩
  · rfl
  · cases atStart <;> simp [scan, atIsSep]
  · simp [scan, isSep]
  · rcases hb with rfl | rfl | rfl <;> simp [scan, isSep]

theorem nameByte_facts {b : UInt8} (h : nameByte b = true) :
    (b == 64) = false ∧ (isSep b = true → b = 46) := by
  simp only [nameByte, Bool.not_eq_eq_eq_not, Bool.not_true, Bool.or_eq_false_iff, beq_eq_false_iff_ne,
    ne_eq] at h
  obtain ⟨⟨⟨h1, h2⟩, h3⟩, h4⟩ := h
  refine ⟨by simpa using h4, ?_⟩
  intro hs
  simp only [isSep, Bool.or_eq_true, beq_iff_eq] at hs
  rcases hs with ((hs | hs) | hs) | hs
  · exact absurd hs h1
  · exact absurd hs h2
  · exact absurd hs h3
  · exact hs

theorem scan_name : ∀ (n : Bytes), nameOk n = true → ∀ (atStart : Bool) (hex : Option Nat) (acc t : Bytes),
    SepStart t → scan atStart hex acc (n ++ t) = (acc.reverse ++ n, t, nameHex hex n) := by
  intro n
  induction n with
  | nil =>
    intro _ atStart hex acc t ht
    simp [scan_end atStart hex acc t ht, nameHex]
  | cons b n ih =>
    intro hok atStart hex acc t ht
    simp only [nameOk, Bool.and_eq_true] at hok
    obtain ⟨⟨hb, hdot⟩, hn⟩ := hok
    obtain ⟨h64, hsep⟩ := nameByte_facts hb
    simp only [List.cons_append]
    unfold scan
    simp only [h64, Bool.false_eq_true, if_false]
    by_cases hs : isSep b = true
    · have hb46 := hsep hs
      subst hb46
      -- a lone '.' inside the name: the next byte exists and is not '.'
      cases n with
      | nil => simp at hdot
      | cons c n =>
        have hc : c ≠ 46 := by simpa using hdot
        have hc' : (c == 46) = false := by simpa using hc
        simp only [hs, if_true, List.cons_append, List.head?_cons]
        have : ((46 : UInt8) != 46 || some c == some 46) = false := by
          simp [hc]
        simp only [this, Bool.false_eq_true, if_false]
        have := ih hn true hex (46 :: acc) t ht
        simp only [List.cons_append] at this
        rw [this]
        simp [nameHex]
    · simp only [hs, Bool.false_eq_true, if_false]
      rw [ih hn false (hexStep hex b) (b :: acc) t ht]
      have hb46 : (b == 46) = false := by
        cases h : (b == 46) with
        | false => rfl
        | true =>
          have : b = 46 := by simpa using h
          subst this
          exact absurd rfl hs
      simp [nameHex, hb46]

/-! ### the first-level match of `revision` -/

theorem revision_main (D : Delegate) (dateOk : Bytes → Bool) (s : St) (input : Bytes)
    (k : St → Bytes → Res) (h : input.head? ≠ some 58) :
    revision D dateOk s input k = revisionMain D dateOk s (scan true (some 0) [] input) k := by
  unfold revision
  split <;> first | rfl | (simp at h)

/-! ### the anchor resolution chain, all calls accepted -/

theorem trySetPrefix_allYes (s : St) (h : Bytes) (hint : Hint) (hh : HexName h) :
    trySetPrefix allYes s h hint = (s.push (.prefix (h.map lower) hint), .yes) := by
  obtain ⟨h1, h2, h3⟩ := hh
  have hascii := allHex_ascii h h3
  have hp : prefixFromHex h = some (h.map lower) := by
    unfold prefixFromHex
    simp [h1, h2, h3]
  unfold trySetPrefix
  simp [hascii, hp, allYes]

theorem nameChain_ref (s : St) (n : Bytes) (h : RefName n) :
    nameChain allYes s n (nameHex (some 0) n) = (s.push (.findRef n), .ok true) := by
  obtain ⟨hne, _, hhex, hl, hs⟩ := h
  have hc : describeCand n = none := by simp [describeCand, hl, hs]
  have hemp : n.isEmpty = false := by
    cases n with
    | nil => exact absurd rfl hne
    | cons _ _ => rfl
  unfold nameChain
  have : ¬ ((nameHex (some 0) n).getD 0 ≥ 4) := by omega
  simp only [this, if_false]
  unfold describeStep
  rw [hc]
  simp [refStep, hemp, allYes]

theorem nameHex_hex : ∀ (h : Bytes) (k : Nat), h.all isHexDigit = true →
    nameHex (some k) h = some (k + h.length) := by
  intro h
  induction h with
  | nil => intro k _; simp [nameHex]
  | cons b h ih =>
    intro k hall
    simp only [List.all_cons, Bool.and_eq_true] at hall
    have hb46 : (b == 46) = false := by
      cases hb : (b == 46) with
      | false => rfl
      | true =>
        have : b = 46 := by simpa using hb
        subst this
        exact absurd hall.1 (by decide)
    simp only [nameHex, hb46, Bool.false_eq_true, if_false, hexStep, hall.1, if_true]
    rw [ih (k + 1) hall.2]
    simp only [List.length_cons]
    congr 1
    omega

theorem nameChain_hex (s : St) (h : Bytes) (hh : HexName h) :
    nameChain allYes s h (nameHex (some 0) h) = (s.push (.prefix (h.map lower) .none), .ok false) := by
  have hhex := nameHex_hex h 0 hh.2.2
  have hemp : h.isEmpty = false := by
    cases h with
    | nil => have := hh.1; simp at this
    | cons _ _ => rfl
  unfold nameChain
  rw [hhex]
  have : (some (0 + h.length)).getD 0 ≥ 4 := by simpa using hh.1
  simp only [this, if_true]
  rw [trySetPrefix_allYes s h .none hh]
  simp [hemp]

theorem describeCand_nil : describeCand [] = none := by decide

theorem nameChain_empty (s : St) (hex : Option Nat) (hh : hex.getD 0 < 4) :
    nameChain allYes s [] hex = (s, .ok true) := by
  unfold nameChain
  have : ¬ (hex.getD 0 ≥ 4) := by omega
  simp only [this, if_false]
  unfold describeStep
  rw [describeCand_nil]
  simp [refStep]

theorem hexDigit_nameByte (b : UInt8) (h : isHexDigit b = true) : nameByte b = true ∧ b ≠ 46 := by
  simp only [isHexDigit, Bool.or_eq_true, Bool.and_eq_true, decide_eq_true_eq, UInt8.le_iff_toNat_le] at h
  have e : ∀ c : UInt8, b = c → b.toNat = c.toNat := fun c hc => by rw [hc]
  constructor
  · simp only [nameByte, Bool.not_eq_eq_eq_not, Bool.not_true, Bool.or_eq_false_iff, beq_eq_false_iff_ne,
      ne_eq]
    refine ⟨⟨⟨?_, ?_⟩, ?_⟩, ?_⟩ <;> intro hc <;> have := e _ hc <;> simp at h this <;> omega
  · intro hc; have := e _ hc; simp at h this; omega

theorem hex_nameOk : ∀ (h : Bytes), h.all isHexDigit = true → nameOk h = true := by
  intro h
  induction h with
  | nil => intro _; rfl
  | cons b h ih =>
    intro hall
    simp only [List.all_cons, Bool.and_eq_true] at hall
    obtain ⟨h1, h2⟩ := hexDigit_nameByte b hall.1
    have : (b != 46) = true := by simpa using h2
    simp [nameOk, h1, this, ih hall.2]

/-! ### `afterName` -/

theorem afterName_plain (dateOk : Bytes → Bool) (s : St) (name : Bytes) (hasRef z : Bool) (rest : Bytes)
    (k : St → Bytes → Res) (h64 : rest.head? ≠ some 64) (hz : z = false ∨ rest.head? ≠ some 126) :
    afterName allYes dateOk s name hasRef z rest k = navigate allYes (rest.length + 1) s rest k := by
  unfold afterName
  split
  · rename_i pastSep; simp at h64
  · have : (z && rest.head? == some 126) = false := by
      rcases hz with rfl | hz
      · simp
      · cases z <;> simp [hz]
    simp [this]

/-- `…@{<body>}<tail>` for a body without braces or backslashes -/
theorem afterName_brace (dateOk : Bytes → Bool) (s : St) (name : Bytes) (hasRef z : Bool)
    (body tail : Bytes) (k : St → Bytes → Res) (hb : plain body = true) :
    afterName allYes dateOk s name hasRef z (64 :: 123 :: (body ++ 125 :: tail)) k =
      (match tryParseI body with
      | .err e => s.finish (.err e)
      | .panic p => s.finish (.panic p)
      | .some n =>
        if n < 0 then
          if name.isEmpty then navigate allYes (tail.length + 1) (s.push (.nthCheckedOut n.natAbs)) tail k
          else s.finish (.err (.refnameNeedsPositive body))
        else if hasRef then navigate allYes (tail.length + 1) (s.push (.reflogEntry n.natAbs)) tail k
        else s.finish (.err (.reflogNeedsRefName name))
      | .none =>
        match siblingParse body with
        | some push =>
          if hasRef then navigate allYes (tail.length + 1) (s.push (.sibling push)) tail k
          else s.finish (.err (.siblingNeedsBranch name))
        | none =>
          if hasRef then
            if dateOk body then navigate allYes (tail.length + 1) (s.push (.reflogDate body)) tail k
            else s.finish (.err (.time body))
          else s.finish (.err (.reflogNeedsRefName name))) := by
  unfold afterName
  simp only
  rw [parens_plain body tail hb]
  simp only [callK_allYes]
  cases tryParseI body with
  | err e => rfl
  | panic p => rfl
  | some n => rfl
  | none =>
    simp only
    cases siblingParse body <;> rfl

end GixModel.C48
