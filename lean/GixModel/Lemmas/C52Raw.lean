import GixModel.Lemmas.C52Round
/-
C52 — `Format::Raw` (`<seconds> <+|-><hh><mm>`, the form of commit headers) is read back by `parse_raw`
for every i64 second count; `Format::Unix`; `SHORT`.
-/
namespace GixModel.C52
open GixModel GixModel.Civil

theorem digit_ofNat' : ∀ d : Nat, d < 10 →
    isDigit (UInt8.ofNat (48 + d)) = true ∧ (UInt8.ofNat (48 + d)).toNat - 48 = d := by
  decide +kernel

theorem digitsFuel_spec' : ∀ (fuel n : Nat), n < 10 ^ (fuel + 1) →
    digitsFuel 10 (fuel + 1) n ≠ [] ∧ (digitsFuel 10 (fuel + 1) n).all isDigit = true
      ∧ decVal (digitsFuel 10 (fuel + 1) n) = n := by
  intro fuel
  induction fuel with
  | zero =>
    intro n hn
    have hn' : n < 10 := by simpa using hn
    have := digit_ofNat' n hn'
    simp only [digitsFuel, hn', if_true]
    refine ⟨List.cons_ne_nil _ _, ?_, ?_⟩
    · simp only [List.all_cons, List.all_nil, this.1, Bool.and_true]
    · simp only [decVal, List.foldl_cons, List.foldl_nil, this.2]; omega
  | succ fuel ih =>
    intro n hn
    rw [digitsFuel]
    by_cases h10 : n < 10
    · have := digit_ofNat' n h10
      simp only [h10, if_true]
      refine ⟨List.cons_ne_nil _ _, ?_, ?_⟩
      · simp only [List.all_cons, List.all_nil, this.1, Bool.and_true]
      · simp only [decVal, List.foldl_cons, List.foldl_nil, this.2]; omega
    · simp only [h10, if_false]
      have hdiv : n / 10 < 10 ^ (fuel + 1) := by
        rw [Nat.div_lt_iff_lt_mul (by omega)]
        rw [Nat.pow_succ] at hn; exact hn
      obtain ⟨h1, h2, h3⟩ := ih (n / 10) hdiv
      have hd := digit_ofNat' (n % 10) (Nat.mod_lt _ (by omega))
      refine ⟨by simp, ?_, ?_⟩
      · rw [List.all_append, h2]; simp only [List.all_cons, List.all_nil, hd.1, Bool.and_true]
      · unfold decVal at h3 ⊢
        rw [List.foldl_append, h3]
        simp only [List.foldl_cons, List.foldl_nil, hd.2]
        omega

theorem natDec_spec' (n : Nat) :
    natDec n ≠ [] ∧ (natDec n).all isDigit = true ∧ decVal (natDec n) = n := by
  unfold natDec
  apply digitsFuel_spec'
  have h1 : n < 2 ^ (n.log2 + 1) := Nat.lt_log2_self
  have h2 : 2 ^ (n.log2 + 1) ≤ 10 ^ (n.log2 + 1) := Nat.pow_le_pow_left (by omega) _
  omega

theorem digit_not_sign {b : UInt8} (h : isDigit b = true) : b ≠ 45 ∧ b ≠ 43 ∧ isWs b = false ∧ (b == 11) = false ∧ b < 128 := by
  have := forall_u8' (fun b => !isDigit b || (b != 45 && b != 43 && !isWs b && !(b == 11) && decide (b < 128))) (by decide +kernel) b
  simp only [h, Bool.not_true, Bool.false_or, Bool.and_eq_true, bne_iff_ne, ne_eq, Bool.not_eq_true',
    decide_eq_true_eq] at this
  exact ⟨this.1.1.1.1, this.1.1.1.2, this.1.1.2, this.1.2, this.2⟩
where
  forall_u8' (p : UInt8 → Bool) (h : (List.range 256).all (fun n => p (UInt8.ofNat n)) = true) :
      ∀ c : UInt8, p c = true := by
    intro c
    have := List.all_eq_true.mp h c.toNat (by simp [List.mem_range]; exact c.toNat_lt)
    simpa using this

/-- `i64::from_str(&n.to_string())` -/
theorem parseIntIn_intDec (lo hi s : Int) (h1 : lo ≤ s) (h2 : s ≤ hi) : parseIntIn lo hi (intDec s) = some s := by
  obtain ⟨hne, hall, hval⟩ := natDec_spec' s.natAbs
  have hemp : (natDec s.natAbs).isEmpty = false := by
    cases h : natDec s.natAbs with
    | nil => exact absurd h hne
    | cons _ _ => rfl
  have hfold : (natDec s.natAbs).foldl (fun acc b => acc * 10 + (b.toNat - 48)) 0 = s.natAbs := hval
  unfold intDec parseIntIn
  by_cases hneg : s < 0
  · have hos : optSign (45 :: natDec s.natAbs) = (true, natDec s.natAbs) := rfl
    simp only [hneg, if_true, hos, hemp, isDigitB, hall, Bool.not_true, Bool.or_self, Bool.false_eq_true, if_false, hfold]
    have hv : -(s.natAbs : Int) = s := by omega
    rw [hv]
    have : ¬ (s < lo ∨ s > hi) := by omega
    rw [if_neg this]
  · simp only [hneg, if_false]
    have hos : optSign (natDec s.natAbs) = (false, natDec s.natAbs) := by
      cases hd : natDec s.natAbs with
      | nil => exact absurd hd hne
      | cons b r =>
        rw [hd] at hall
        have hb : isDigit b = true := by simp only [List.all_cons, Bool.and_eq_true] at hall; exact hall.1
        obtain ⟨hb45, hb43, _⟩ := digit_not_sign hb
        unfold optSign
        split
        · rename_i h; exact absurd (List.cons.inj h).1 hb45
        · rename_i h; exact absurd (List.cons.inj h).1 hb43
        · rfl
    simp only [hos, hemp, isDigitB, hall, Bool.not_true, Bool.or_self, Bool.false_eq_true, if_false, hfold]
    have hv : (s.natAbs : Int) = s := by omega
    rw [hv]
    have : ¬ (s < lo ∨ s > hi) := by omega
    rw [if_neg this]

end GixModel.C52

namespace GixModel.C52
open GixModel GixModel.Civil

theorem splitWs_go_token (tok : Bytes) (htok : ∀ b ∈ tok, isWs b = false ∧ (b == 11) = false) :
    ∀ (rest cur : Bytes) (acc : List Bytes), splitWs.go (tok ++ rest) cur acc = splitWs.go rest (tok.reverse ++ cur) acc := by
  induction tok with
  | nil => intro rest cur acc; rfl
  | cons b r ih =>
    intro rest cur acc
    have hb := htok b (by simp)
    simp only [List.cons_append, splitWs.go, hb.1, hb.2, Bool.or_self, Bool.false_eq_true, if_false]
    rw [ih (fun x hx => htok x (by simp [hx]))]
    simp

theorem splitWs_two (a b : Bytes) (ha : a ≠ []) (hb : b ≠ [])
    (hta : ∀ x ∈ a, isWs x = false ∧ (x == 11) = false) (htb : ∀ x ∈ b, isWs x = false ∧ (x == 11) = false) :
    splitWs (a ++ [32] ++ b) = [a, b] := by
  unfold splitWs
  rw [List.append_assoc, splitWs_go_token a hta]
  have hae : a.reverse.isEmpty = false := by
    cases a with
    | nil => exact absurd rfl ha
    | cons x r => simp
  have h32 : (isWs 32 || (32 : UInt8) == 11) = true := by decide
  simp only [List.cons_append, List.nil_append, splitWs.go, h32, if_true, hae, Bool.false_eq_true, if_false,
    List.append_nil, List.reverse_reverse]
  have := splitWs_go_token b htb [] [] [a]
  simp only [List.append_nil] at this
  rw [this]
  have hbe : b.reverse.isEmpty = false := by
    cases b with
    | nil => exact absurd rfl hb
    | cons x r => simp
  simp [splitWs.go, hbe]

theorem parseIntIn_two (lo hi : Int) (a b : Nat) (ha : a < 10) (hb : b < 10) (h1 : lo ≤ 0) (h2 : 99 ≤ hi) :
    parseIntIn lo hi [dig a, dig b] = some ((a * 10 + b : Nat) : Int) := by
  have da := dig_facts a ha
  have db := dig_facts b hb
  have hos : optSign [dig a, dig b] = (false, [dig a, dig b]) := by
    unfold optSign
    split
    · rename_i h; exact absurd (List.cons.inj h).1 da.2.2.2.2.1
    · rename_i h; exact absurd (List.cons.inj h).1 da.2.2.2.2.2
    · rfl
  unfold parseIntIn
  simp only [hos, List.isEmpty_cons, isDigitB, List.all_cons, da.1, db.1, List.all_nil, Bool.and_self, Bool.not_true,
    Bool.or_self, Bool.false_eq_true, if_false, List.foldl_cons, List.foldl_nil, da.2.1, db.2.1]
  have : ¬ (((0 * 10 + a) * 10 + b : Nat) : Int) < lo ∧ ¬ (((0 * 10 + a) * 10 + b : Nat) : Int) > hi := by omega
  rw [if_neg (by omega)]
  congr 2; omega

theorem intDec_token (s : Int) : intDec s ≠ [] ∧ ∀ x ∈ intDec s, isWs x = false ∧ (x == 11) = false := by
  obtain ⟨hne, hall, _⟩ := natDec_spec' s.natAbs
  rw [List.all_eq_true] at hall
  unfold intDec
  constructor
  · split
    · simp
    · exact hne
  · intro x hx
    split at hx
    · rcases List.mem_cons.mp hx with rfl | hx
      · decide
      · have := digit_not_sign (hall x hx); exact ⟨this.2.2.1, this.2.2.2.1⟩
    · have := digit_not_sign (hall x hx); exact ⟨this.2.2.1, this.2.2.2.1⟩

/-- the text `Time::write_to` produces is read back by `parse_raw`: seconds exactly (ANY i64), sign
exactly, the offset rounded to whole minutes with the sign of the sign field -/
theorem parseRaw_write (t : Time) (hlo : i64Lo ≤ t.seconds) (hhi : t.seconds ≤ i64Hi) (bs : Bytes)
    (hw : t.write = some bs) :
    parseRaw bs = some { seconds := t.seconds,
                         offset := (if t.minus then -1 else 1) * ((t.offset.natAbs / 60 * 60 : Nat) : Int),
                         minus := t.minus } := by
  unfold GixModel.C01.Time.write at hw
  simp only at hw
  by_cases hh : t.offset.natAbs / 3600 > 99
  · simp [hh] at hw
  · simp only [hh, if_false, Option.some.injEq] at hw
    subst hw
    have hH : t.offset.natAbs / 3600 < 100 := by omega
    have hM : (t.offset.natAbs - t.offset.natAbs / 3600 * 3600) / 60 < 100 := by omega
    have e1 : GixModel.C01.twoDigits (t.offset.natAbs / 3600) = pad2 (t.offset.natAbs / 3600) := rfl
    have e2 : GixModel.C01.twoDigits ((t.offset.natAbs - t.offset.natAbs / 3600 * 3600) / 60) =
        pad2 ((t.offset.natAbs - t.offset.natAbs / 3600 * 3600) / 60) := rfl
    rw [e1, e2, pad2_eq _ hH, pad2_eq _ hM]
    generalize hsg : (if t.minus = true then (45 : UInt8) else 43) = sg
    have hsgv : sg = 45 ∨ sg = 43 := by rw [← hsg]; split <;> simp
    generalize hh1 : t.offset.natAbs / 3600 / 10 = a1
    generalize hh2 : t.offset.natAbs / 3600 % 10 = a2
    generalize hm1 : (t.offset.natAbs - t.offset.natAbs / 3600 * 3600) / 60 / 10 = b1
    generalize hm2 : (t.offset.natAbs - t.offset.natAbs / 3600 * 3600) / 60 % 10 = b2
    have ha1 : a1 < 10 := by omega
    have ha2 : a2 < 10 := by omega
    have hb1 : b1 < 10 := by omega
    have hb2 : b2 < 10 := by omega
    have hshape : intDec t.seconds ++ [32] ++ [sg] ++ [dig a1, dig a2] ++ [dig b1, dig b2] =
        intDec t.seconds ++ [32] ++ [sg, dig a1, dig a2, dig b1, dig b2] := by simp
    rw [hshape]
    obtain ⟨hne, htok⟩ := intDec_token t.seconds
    have d1 := dig_facts a1 ha1
    have d2 := dig_facts a2 ha2
    have d3 := dig_facts b1 hb1
    have d4 := dig_facts b2 hb2
    have htok2 : ∀ x ∈ [sg, dig a1, dig a2, dig b1, dig b2], isWs x = false ∧ (x == 11) = false := by
      intro x hx
      simp only [List.mem_cons, List.mem_nil_iff, or_false] at hx
      rcases hx with rfl | rfl | rfl | rfl | rfl
      · rcases hsgv with rfl | rfl <;> decide
      · have := digit_not_sign d1.1; exact ⟨this.2.2.1, this.2.2.2.1⟩
      · have := digit_not_sign d2.1; exact ⟨this.2.2.1, this.2.2.2.1⟩
      · have := digit_not_sign d3.1; exact ⟨this.2.2.1, this.2.2.2.1⟩
      · have := digit_not_sign d4.1; exact ⟨this.2.2.1, this.2.2.2.1⟩
    unfold parseRaw
    rw [splitWs_two _ _ hne (by simp) htok htok2]
    simp only [parseIntIn_intDec i64Lo i64Hi t.seconds hlo hhi]
    have hall : ([sg, dig a1, dig a2, dig b1, dig b2].all (· < 128)) = true := by
      simp only [List.all_cons, List.all_nil, Bool.and_true, Bool.and_eq_true, decide_eq_true_eq]
      refine ⟨?_, (digit_not_sign d1.1).2.2.2.2, (digit_not_sign d2.1).2.2.2.2, (digit_not_sign d3.1).2.2.2.2,
        (digit_not_sign d4.1).2.2.2.2⟩
      rcases hsgv with rfl | rfl <;> decide
    have hsn : (sg != 43 && sg != 45) = false := by rcases hsgv with rfl | rfl <;> decide
    simp only [List.length_cons, List.length_nil, Nat.zero_add, Nat.reduceAdd, ne_eq, not_true_eq_false, decide_false,
      hall, Bool.not_true, Bool.or_self, Bool.false_eq_true, if_false, List.headD_cons, hsn, List.drop_succ_cons,
      List.drop_zero, List.take_succ_cons, List.take_zero,
      parseIntIn_two (-2147483648) 2147483647 a1 a2 ha1 ha2 (by omega) (by omega),
      parseIntIn_two (-2147483648) 2147483647 b1 b2 hb1 hb2 (by omega) (by omega)]
    have hA : a1 * 10 + a2 = t.offset.natAbs / 3600 := by omega
    have hB : b1 * 10 + b2 = (t.offset.natAbs - t.offset.natAbs / 3600 * 3600) / 60 := by omega
    rw [hA, hB]
    cases hmn : t.minus
    · have : sg = 43 := by rw [← hsg, hmn]; rfl
      subst this
      simp only [show ((43 : UInt8) == 45) = false by decide, Bool.false_eq_true, if_false]
      congr 2; omega
    · have : sg = 45 := by rw [← hsg, hmn]; rfl
      subst this
      simp only [beq_self_eq_true, if_true]
      congr 2; omega

end GixModel.C52
