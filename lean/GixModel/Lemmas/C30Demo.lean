import GixModel.Lemmas.C30Main
/-
C30 — concrete servers for the non-vacuity examples in Props/C30.lean, with their well-formedness.
-/
namespace GixModel.C30.Demo
open GixModel GixModel.C30 GixModel.Spec.C30

def oidA : Oid := List.replicate 20 0x1a

def oidB : Oid := List.replicate 20 0x2b

def oidC : Oid := List.replicate 20 0x3c

def nHEAD : Bytes := bHEAD

def nMain : Bytes := [114, 101, 102, 115, 47, 104, 101, 97, 100, 115, 47, 109, 97, 105, 110]   -- refs/heads/main

def nNbsp : Bytes := [114, 101, 102, 115, 47, 104, 101, 97, 100, 115, 47, 110, 98, 194, 160]   -- refs/heads/nb<U+00A0>

def nTag : Bytes := [114, 101, 102, 115, 47, 116, 97, 103, 115, 47, 116]                       -- refs/tags/t

def capA : Bytes := [109, 117, 108, 116, 105, 95, 97, 99, 107]                                 -- multi_ack

def capB : Bytes := [97, 103, 101, 110, 116, 61, 103, 105, 116, 47, 50]                        -- agent=git/2

/-- HEAD is symbolic and points to an annotated tag; a branch name ends in U+00A0; shallow server -/
def demoV1 : V1Server where
  capsPre := [capA]
  capsPost := [capB]
  symrefs := [(nHEAD, nTag)]
  entries := [⟨nHEAD, oidA, some oidB, some nTag⟩, ⟨nMain, oidC, none, none⟩, ⟨nNbsp, oidB, none, none⟩,
    ⟨nTag, oidA, some oidB, none⟩]
  shallow := [oidC]
  dummy := false

theorem validName_of_dec (n : Bytes)
    (h : (n ≠ [] ∧ (32 : UInt8) ∉ n ∧ (10 : UInt8) ∉ n ∧ (0 : UInt8) ∉ n ∧ (94 : UInt8) ∉ n ∧ n ≠ bCapabilities)) :
    ValidName n := ⟨h.1, h.2.1, h.2.2.1, h.2.2.2.1, h.2.2.2.2.1, h.2.2.2.2.2⟩

theorem validTarget_of_dec (t : Bytes)
    (h : (t ≠ [] ∧ (32 : UInt8) ∉ t ∧ (10 : UInt8) ∉ t ∧ t ≠ bNull)) : ValidTarget t :=
  ⟨h.1, h.2.1, h.2.2.1, h.2.2.2⟩

theorem demoV1_wf : WfV1 demoV1 where
  entries := by
    intro e he
    simp only [demoV1, List.mem_cons, List.not_mem_nil, or_false] at he
    rcases he with rfl | rfl | rfl | rfl
    · exact ⟨validName_of_dec _ (by decide), by decide, (by intro p hp; cases hp; decide),
        (by intro t ht; cases ht; exact validTarget_of_dec _ (by decide))⟩
    · exact ⟨validName_of_dec _ (by decide), by decide, (by intro p hp; cases hp), (by intro t ht; cases ht)⟩
    · exact ⟨validName_of_dec _ (by decide), by decide, (by intro p hp; cases hp), (by intro t ht; cases ht)⟩
    · exact ⟨validName_of_dec _ (by decide), by decide, (by intro p hp; cases hp; decide), (by intro t ht; cases ht)⟩
  namesNodup := by decide
  shallow := by decide
  symrefs := by decide
  symNodup := by decide
  capTokens := by decide
  capsNe := by decide
  emptyShallow := by intro h; cases h

/-- two symref capabilities, the second one for a ref in the middle: `swap_remove` pulls the last
vector element forward, the refs come out in another order than advertised (hence `Perm`) -/
def demoSwap : V1Server where
  capsPre := [capA]
  capsPost := []
  symrefs := [(nHEAD, nMain), (nNbsp, nMain)]
  entries := [⟨nHEAD, oidC, none, some nMain⟩, ⟨nMain, oidC, none, none⟩, ⟨nNbsp, oidC, none, some nMain⟩,
    ⟨nTag, oidA, some oidB, none⟩]
  shallow := []
  dummy := false

/-- unborn HEAD, a symbolic ref to a tag, a prefix filter -/
def demoV2 : V2Server where
  entries := [⟨nMain, oidC, none, none⟩, ⟨nNbsp, oidA, some oidB, some nTag⟩, ⟨nTag, oidA, some oidB, none⟩]
  unbornHead := some nMain
  askedUnborn := true
  prefixes := [[72], [114, 101, 102, 115, 47, 104]]   -- "H", "refs/h"

theorem demoV2_wf : WfV2 demoV2 where
  entries := by
    intro e he
    simp only [demoV2, List.mem_cons, List.not_mem_nil, or_false] at he
    rcases he with rfl | rfl | rfl
    · exact ⟨validName_of_dec _ (by decide), by decide, (by intro p hp; cases hp), (by intro t ht; cases ht)⟩
    · exact ⟨validName_of_dec _ (by decide), by decide, (by intro p hp; cases hp; decide),
        (by intro t ht; cases ht; exact validTarget_of_dec _ (by decide))⟩
    · exact ⟨validName_of_dec _ (by decide), by decide, (by intro p hp; cases hp; decide), (by intro t ht; cases ht)⟩
  unborn := by intro t ht; cases ht; exact validTarget_of_dec _ (by decide)

end GixModel.C30.Demo
