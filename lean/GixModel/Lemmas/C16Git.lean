/-
C16: the loose files stay a map (distinct names) along transactions, and what `git pack-refs` and
`git update-ref` (as modelled in C17Core, validated against git by the harness) do to the
abstract map.
-/
import GixModel.Lemmas.C16

namespace GixModel.C17
open GixModel.C16

/-! ### git pack-refs -/

theorem packCandidates_cons (env : Env) (k : Name) (t : Target) (rest : List (Name × Target)) :
    packCandidates env ((k, t) :: rest) =
      (match t with
        | .object o => if packable k && env.known o then [(k, some o)] else []
        | .symbolic _ => []) ++ packCandidates env rest := by
  unfold packCandidates
  cases t with
  | symbolic r => simp [List.filterMap_cons]
  | object o =>
    by_cases h : (packable k && env.known o) = true
    · have h' : packable k = true ∧ env.known o = true := by simpa using h
      simp [List.filterMap_cons, h, h']
    · have h' : ¬ (packable k = true ∧ env.known o = true) := by simpa using h
      simp [List.filterMap_cons, h, h']

theorem packCandidates_keys (env : Env) (loose : List (Name × Target)) :
    ∀ kv ∈ packCandidates env loose, ∃ o, kv.2 = some o ∧ (kv.1, Target.object o) ∈ loose ∧
      packable kv.1 = true ∧ env.known o = true := by
  induction loose with
  | nil => intro kv h; simp [packCandidates] at h
  | cons x rest ih =>
    obtain ⟨k, t⟩ := x
    intro kv h
    rw [packCandidates_cons] at h
    rcases List.mem_append.mp h with h | h
    · cases t with
      | symbolic r => cases h
      | object o =>
        by_cases hc : (packable k && env.known o) = true
        · simp only [hc, if_true, List.mem_singleton] at h
          subst h
          simp only [Bool.and_eq_true] at hc
          exact ⟨o, rfl, List.mem_cons_self .., hc.1, hc.2⟩
        · simp [hc] at h
    · obtain ⟨o, h1, h2, h3⟩ := ih kv h
      exact ⟨o, h1, List.mem_cons_of_mem _ h2, h3⟩

theorem packCandidates_nodup (env : Env) (loose : List (Name × Target)) (hn : (loose.map (·.1)).Nodup) :
    ((packCandidates env loose).map (·.1)).Nodup := by
  induction loose with
  | nil => simp [packCandidates]
  | cons x rest ih =>
    obtain ⟨k, t⟩ := x
    simp only [List.map_cons, List.nodup_cons] at hn
    rw [packCandidates_cons]
    have hrest := ih hn.2
    have hk : k ∉ (packCandidates env rest).map (·.1) := by
      intro hmem
      obtain ⟨kv, hkv, hkk⟩ := List.mem_map.mp hmem
      obtain ⟨o, _, h2, _⟩ := packCandidates_keys env rest kv hkv
      exact hn.1 (by rw [← hkk]; exact List.mem_map_of_mem (f := (·.1)) h2)
    cases t with
    | symbolic r => simpa using hrest
    | object o =>
      by_cases hc : (packable k && env.known o) = true
      · simp only [hc, if_true, List.cons_append, List.nil_append, List.map_cons, List.nodup_cons]
        exact ⟨hk, hrest⟩
      · simp only [hc, Bool.false_eq_true, if_false, List.nil_append]; exact hrest

theorem packCandidates_lookup (env : Env) (loose : List (Name × Target)) (hn : (loose.map (·.1)).Nodup) (m : Name) :
    lookup (packCandidates env loose) m =
      match lookup loose m with
      | some (.object o) => if packable m && env.known o then some (some o) else none
      | _ => none := by
  induction loose with
  | nil => simp [packCandidates, lookup]
  | cons x rest ih =>
    obtain ⟨k, t⟩ := x
    simp only [List.map_cons, List.nodup_cons] at hn
    rw [packCandidates_cons]
    by_cases hk : k = m
    · subst hk
      have hrest : lookup (packCandidates env rest) k = none := by
        cases h : lookup (packCandidates env rest) k with
        | none => rfl
        | some v =>
          obtain ⟨o, _, h2, _⟩ := packCandidates_keys env rest (k, v) (mem_of_lookup_eq_some _ k v h)
          exact absurd (List.mem_map_of_mem (f := (·.1)) h2) hn.1
      cases t with
      | symbolic r => simp [lookup, hrest]
      | object o =>
        by_cases hc : (packable k && env.known o) = true
        · simp [lookup, hc]
        · simp [lookup, hc, hrest]
    · have : lookup ((k, t) :: rest) m = lookup rest m := by simp [lookup, hk]
      rw [this, ← ih hn.2]
      cases t with
      | symbolic r => simp
      | object o =>
        by_cases hc : (packable k && env.known o) = true
        · simp [hc, lookup, hk]
        · simp [hc]

theorem lookup_bufferList (S : Store) (m : Name) : lookup (bufferList S.packed) m = S.findPacked m := by
  unfold bufferList Store.findPacked
  cases S.packed <;> rfl

theorem sorted_bufferList (S : Store) (hS : StoreOk S) : SortedKeys (bufferList S.packed) := by
  unfold bufferList
  cases h : S.packed with
  | none => trivial
  | some b => exact hS.sorted b h

/-- `git pack-refs --all [--prune]` does not change what the store says -/
theorem gitPackRefs_refines (env : Env) (prune : Bool) (S : Store) (hS : StoreOk S) (hL : NoLocks S)
    (hN : LooseNodup S) :
    abs (gitPackRefs env prune S) = abs S ∧ StoreOk (gitPackRefs env prune S) ∧
      NoLocks (gitPackRefs env prune S) ∧ LooseNodup (gitPackRefs env prune S) := by
  have hcn := packCandidates_nodup env S.loose hN
  have hse := sortEdits_sorted _ hcn
  have hsb := sorted_bufferList S hS
  have hmerged : ∀ m, lookup (mergeAll (bufferList S.packed) (sortEdits (packCandidates env S.loose))) m
      = match lookup (packCandidates env S.loose) m with | some v => v | none => S.findPacked m := by
    intro m
    unfold mergeAll
    rw [mergePacked_lookup _ _ _ m hsb hse (Nat.le_refl _)]
    unfold mergedLookup
    rw [sortEdits_lookup _ hcn m, lookup_bufferList]
    rfl
  refine ⟨?_, ⟨?_, ?_⟩, ?_, ?_⟩
  · funext m
    show (gitPackRefs env prune S).find m = S.find m
    rw [find_eq, find_eq S]
    have hfp : (gitPackRefs env prune S).findPacked m
        = match lookup (packCandidates env S.loose) m with | some v => v | none => S.findPacked m := by
      unfold gitPackRefs Store.findPacked
      simp only []
      exact hmerged m
    rw [hfp, packCandidates_lookup env S.loose hN m]
    cases prune with
    | false =>
      have hl : lookup (gitPackRefs env false S).loose m = lookup S.loose m := by
        unfold gitPackRefs; simp
      rw [hl]
      cases hlm : lookup S.loose m with
      | none => rfl
      | some t => rfl
    | true =>
      have hl : lookup (gitPackRefs env true S).loose m =
          match lookup S.loose m with
          | some v => if (!(packCandidates env S.loose).any (fun c => decide (c.1 = m))) then some v else none
          | none => none := by
        unfold gitPackRefs
        simp only [if_true]
        rw [lookup_filter _ _ hN m]
        cases lookup S.loose m <;> rfl
      rw [hl]
      cases hlm : lookup S.loose m with
      | none => rfl
      | some t =>
        simp only []
        by_cases hany : (packCandidates env S.loose).any (fun c => decide (c.1 = m)) = true
        · -- a candidate: its loose file is an object ref that is now packed with the same id
          simp only [hany, Bool.not_true, Bool.false_eq_true, if_false]
          obtain ⟨c, hc, hcm⟩ := List.any_eq_true.mp hany
          have hcm' : c.1 = m := by simpa using hcm
          obtain ⟨o, ho, hmem, hp, hk⟩ := packCandidates_keys env S.loose c hc
          have : lookup S.loose m = some (.object o) := by
            rw [← hcm']; exact lookup_eq_some_of_mem _ hN _ _ hmem
          rw [hlm] at this
          injection this with this
          subst this
          simp [← hcm', hp, hk]
        · have hany' : (packCandidates env S.loose).any (fun c => decide (c.1 = m)) = false := by
            cases h : (packCandidates env S.loose).any (fun c => decide (c.1 = m)) with
            | false => rfl
            | true => exact absurd h hany
          simp only [hany', Bool.not_false, if_true]
  · intro b hb
    unfold gitPackRefs at hb
    simp only [] at hb
    injection hb with hb
    rw [← hb]
    exact mergePacked_sorted _ _ _ hsb hse
  · intro b hb kv hkv
    unfold gitPackRefs at hb
    simp only [] at hb
    injection hb with hb
    rw [← hb] at hkv
    rcases mergePacked_keys _ _ _ kv hkv with ⟨p1, hp1, hk⟩ | ⟨e1, he1, hk⟩
    · unfold bufferList at hp1
      cases hpk : S.packed with
      | none => rw [hpk] at hp1; cases hp1
      | some b1 => rw [hpk] at hp1; rw [← hk]; exact hS.packable b1 hpk p1 hp1
    · obtain ⟨o, _, _, hp, _⟩ := packCandidates_keys env S.loose e1 ((sortEdits_mem _ e1).mp he1)
      rw [← hk]; exact hp
  · exact ⟨hL.1, hL.2⟩
  · unfold gitPackRefs LooseNodup
    simp only []
    cases prune with
    | false => exact hN
    | true => exact filter_nodup_keys _ _ hN

/-! ### git update-ref -/

theorem sorted_filter {α : Type} (l : List (Name × α)) (p : Name × α → Bool) (h : SortedKeys l) :
    SortedKeys (l.filter p) := by
  induction l with
  | nil => trivial
  | cons a rest ih =>
    have hrest := ih (sorted_tail a rest h)
    simp only [List.filter_cons]
    split
    · apply sorted_cons a _ hrest
      intro kv hkv
      exact sorted_allAbove a rest h kv (List.mem_filter.mp hkv).1
    · exact hrest

theorem abs_erase (S : Store) (target : Name) :
    abs { S with loose := eraseKey S.loose target, packed := S.packed.map fun b => eraseKey b target }
      = (abs S).set target none := by
  funext m
  show Store.find _ m = _
  rw [find_eq]
  have hfp : Store.findPacked { S with loose := eraseKey S.loose target, packed := S.packed.map fun b => eraseKey b target } m
      = if target = m then none else S.findPacked m := by
    unfold Store.findPacked
    cases S.packed with
    | none => simp
    | some b => simp [lookup_eraseKey]
  rw [hfp]
  simp only [RefMap.set, lookup_eraseKey]
  by_cases h : target = m
  · subst h; simp
  · have h' : ¬ m = target := fun hh => h hh.symm
    simp only [h, h', if_false]
    show _ = S.find m
    rw [find_eq]

theorem abs_insert (S : Store) (target : Name) (t : Target) :
    abs { S with loose := insertKey S.loose target t } = (abs S).set target (some t) := by
  funext m
  show Store.find _ m = _
  rw [find_eq]
  simp only [RefMap.set, lookup_insertKey]
  by_cases h : target = m
  · subst h; simp
  · have h' : ¬ m = target := fun hh => h hh.symm
    simp only [h, h', if_false]
    show _ = S.find m
    rw [find_eq]
    rfl

/-- `git update-ref` as modelled refines its transcription on the map -/
theorem gitUpdateRef_refines (S : Store) (hS : StoreOk S) (hL : NoLocks S) (hN : LooseNodup S)
    (del noderef : Bool) (name : Name) (new : Option Oid) (old : Option (Option Oid)) :
    match gitUpdateRef S del noderef name new old with
    | some S' => Spec.gitUpdateRef (abs S) (S.loose.length + 1) del noderef name new old = some (abs S') ∧
        StoreOk S' ∧ NoLocks S' ∧ LooseNodup S'
    | none => Spec.gitUpdateRef (abs S) (S.loose.length + 1) del noderef name new old = none := by
  unfold gitUpdateRef Spec.gitUpdateRef
  show (match (match gitDecide S.find (S.loose.length + 1) del noderef name new old with
      | none => none
      | some (target, .erase) =>
        some { S with loose := eraseKey S.loose target, packed := S.packed.map fun b => eraseKey b target }
      | some (target, .write o) => some { S with loose := insertKey S.loose target (.object o) }
      | some (_, .nothing) => some S) with
    | some S' => (match gitDecide S.find (S.loose.length + 1) del noderef name new old with
        | none => none
        | some (target, .erase) => some ((abs S).set target none)
        | some (target, .write o) => some ((abs S).set target (some (.object o)))
        | some (_, .nothing) => some (abs S)) = some (abs S') ∧ StoreOk S' ∧ NoLocks S' ∧ LooseNodup S'
    | none => (match gitDecide S.find (S.loose.length + 1) del noderef name new old with
        | none => none
        | some (target, .erase) => some ((abs S).set target none)
        | some (target, .write o) => some ((abs S).set target (some (.object o)))
        | some (_, .nothing) => some (abs S)) = none)
  cases gitDecide S.find (S.loose.length + 1) del noderef name new old with
  | none => rfl
  | some r =>
    obtain ⟨target, act⟩ := r
    cases act with
    | nothing => exact ⟨rfl, hS, hL, hN⟩
    | write o =>
      exact ⟨by rw [abs_insert], ⟨hS.sorted, hS.packable⟩, ⟨hL.1, hL.2⟩, nodup_insertKey _ _ _ hN⟩
    | erase =>
      refine ⟨by rw [abs_erase], ⟨?_, ?_⟩, ⟨hL.1, hL.2⟩, nodup_eraseKey _ _ hN⟩
      · intro b hb
        cases hpk : S.packed with
        | none => rw [hpk] at hb; cases hb
        | some b0 =>
          rw [hpk] at hb
          injection hb with hb
          rw [← hb]
          exact sorted_filter _ _ (hS.sorted b0 hpk)
      · intro b hb kv hkv
        cases hpk : S.packed with
        | none => rw [hpk] at hb; cases hb
        | some b0 =>
          rw [hpk] at hb
          injection hb with hb
          rw [← hb] at hkv
          exact hS.packable b0 hpk kv (List.mem_filter.mp hkv).1

end GixModel.C17
