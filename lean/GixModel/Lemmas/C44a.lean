import GixModel.Lemmas.C04g
import GixModel.Model.C44
import GixModel.Spec.C44
/-
C44 helper lemmas, part a: one directory level. The merge walk over two canonical entry lists
reports, for every name, exactly what `Spec.changeAt` prescribes, and queues exactly the pairs of
sub-trees that have to be compared.
-/
namespace GixModel.C44
open GixModel GixModel.Tree
open GixModel.C04 (Assoc aget TreeOk findName ValidName)
open GixModel.Spec.C44 (CChange Node changeAt)

/-- forget the `Relation` bookkeeping -/
def core : Change → CChange
  | .add p m o _ => .add p m o
  | .del p m o _ => .del p m o
  | .mod p pm po m o => .mod p pm po m o

def nodeOf (e : Entry) : Node := (e.mode, e.oid)

/-- what `handle_lhs_and_rhs_with_equal_filenames` reports (without `Relation`) -/
def eqChange (dir : Path) (a b : Entry) : List CChange :=
  let p := dir ++ [a.name]
  match a.isTree, b.isTree with
  | true, true => if a.oid = b.oid then [] else [.mod p a.mode a.oid b.mode b.oid]
  | false, false => if a.oid = b.oid ∧ a.mode = b.mode then [] else [.mod p a.mode a.oid b.mode b.oid]
  | _, _ => [.del p a.mode a.oid, .add p b.mode b.oid]

/-- …and what it queues -/
def eqItem (dir : Path) (a b : Entry) : List (Path × Option Bytes × Option Bytes) :=
  let p := dir ++ [a.name]
  match a.isTree, b.isTree with
  | true, true => [(p, some a.oid, some b.oid)]
  | false, true => [(p, none, some b.oid)]
  | true, false => [(p, some a.oid, none)]
  | false, false => []

def itemCore (it : QItem) : Path × Option Bytes × Option Bytes := (it.path, it.lhs, it.rhs)

def delChange (dir : Path) (a : Entry) : List CChange := [.del (dir ++ [a.name]) a.mode a.oid]
def addChange (dir : Path) (b : Entry) : List CChange := [.add (dir ++ [b.name]) b.mode b.oid]
def delItem (dir : Path) (a : Entry) : List (Path × Option Bytes × Option Bytes) :=
  if a.isTree then [(dir ++ [a.name], some a.oid, none)] else []
def addItem (dir : Path) (b : Entry) : List (Path × Option Bytes × Option Bytes) :=
  if b.isTree then [(dir ++ [b.name], none, some b.oid)] else []

theorem core_deleteEntry (dir : Path) (rel : Rel) (e : Entry) (acc : Acc) :
    (deleteEntry dir rel e acc).recs.map core = acc.recs.map core ++ delChange dir e ∧
    (deleteEntry dir rel e acc).queue.map itemCore = acc.queue.map itemCore ++ delItem dir e := by
  constructor
  · simp [deleteEntry, core, delChange]
  · by_cases h : e.isTree = true
    · simp [deleteEntry, h, itemCore, delItem]
    · simp [deleteEntry, h, delItem]

theorem core_addEntry (dir : Path) (rel : Rel) (e : Entry) (acc : Acc) :
    (addEntry dir rel e acc).recs.map core = acc.recs.map core ++ addChange dir e ∧
    (addEntry dir rel e acc).queue.map itemCore = acc.queue.map itemCore ++ addItem dir e := by
  constructor
  · simp [addEntry, core, addChange]
  · by_cases h : e.isTree = true
    · simp [addEntry, h, itemCore, addItem]
    · simp [addEntry, h, addItem]

theorem core_handleEqual (dir : Path) (rel : Rel) (a b : Entry) (acc : Acc) :
    (handleEqual dir rel a b acc).recs.map core = acc.recs.map core ++ eqChange dir a b ∧
    (handleEqual dir rel a b acc).queue.map itemCore = acc.queue.map itemCore ++ eqItem dir a b := by
  cases ha : a.isTree <;> cases hb : b.isTree
  · constructor
    · by_cases ho : a.oid = b.oid
      · by_cases hm : a.mode = b.mode
        · simp [handleEqual, ha, hb, eqChange, ho, hm]
        · simp [handleEqual, ha, hb, eqChange, ho, hm, core]
      · simp [handleEqual, ha, hb, eqChange, ho, core]
    · simp [handleEqual, ha, hb, eqItem]
  · constructor
    · simp [handleEqual, ha, hb, eqChange, core]
    · simp [handleEqual, ha, hb, eqItem, itemCore]
  · constructor
    · simp [handleEqual, ha, hb, eqChange, core]
    · simp [handleEqual, ha, hb, eqItem, itemCore]
  · constructor
    · by_cases ho : a.oid = b.oid
      · simp [handleEqual, ha, hb, eqChange, ho]
      · simp [handleEqual, ha, hb, eqChange, ho, core]
    · simp [handleEqual, ha, hb, eqItem, itemCore]

/-- two entries that compare `Equal` have the same name and kind (valid names) -/
theorem eq_same {a b : Entry} (ha : SlashFree a.name) (hb : SlashFree b.name) (h : entryCmp a b = .eq) :
    a.name = b.name ∧ a.isTree = b.isTree := by
  rw [entryCmp_eq_key ha hb] at h
  exact key_inj ha hb (cmpBytes_eq h)

/-! ### the generic merge -/

/-- the merge walk, emitting `fL a` for a left entry without partner, `fR b` for a right one, and
`fE a b` for partners -/
def mergeG {β : Type} (fL fR : Entry → List β) (fE : Entry → Entry → List β) :
    Nat → List Entry → List Entry → List β
  | 0, _, _ => []
  | _ + 1, [], [] => []
  | fuel + 1, a :: l, [] => fL a ++ mergeG fL fR fE fuel l []
  | fuel + 1, [], b :: r => fR b ++ mergeG fL fR fE fuel [] r
  | fuel + 1, a :: l, b :: r =>
    match entryCmp a b with
    | .eq => fE a b ++ mergeG fL fR fE fuel l r
    | .lt => fL a ++ mergeG fL fR fE fuel l (b :: r)
    | .gt => fR b ++ mergeG fL fR fE fuel (a :: l) r

/-- `mergeLevel`, seen through `core`/`itemCore`, is two instances of the generic merge -/
theorem mergeLevel_eq (dir : Path) (rel : Rel) : ∀ (fuel : Nat) (l r : List Entry) (acc : Acc),
    (mergeLevel dir rel fuel l r acc).recs.map core =
      acc.recs.map core ++ mergeG (delChange dir) (addChange dir) (eqChange dir) fuel l r ∧
    (mergeLevel dir rel fuel l r acc).queue.map itemCore =
      acc.queue.map itemCore ++ mergeG (delItem dir) (addItem dir) (eqItem dir) fuel l r := by
  intro fuel
  induction fuel with
  | zero => intro l r acc; simp [mergeLevel, mergeG]
  | succ fuel ih =>
    intro l r acc
    cases l with
    | nil =>
      cases r with
      | nil => simp [mergeLevel, mergeG]
      | cons b r =>
        have h1 := core_addEntry dir rel b acc
        have h2 := ih [] r (addEntry dir rel b acc)
        simp only [mergeLevel, mergeG]
        rw [h2.1, h2.2, h1.1, h1.2]
        simp [List.append_assoc]
    | cons a l =>
      cases r with
      | nil =>
        have h1 := core_deleteEntry dir rel a acc
        have h2 := ih l [] (deleteEntry dir rel a acc)
        simp only [mergeLevel, mergeG]
        rw [h2.1, h2.2, h1.1, h1.2]
        simp [List.append_assoc]
      | cons b r =>
        simp only [mergeLevel, mergeG]
        cases entryCmp a b with
        | eq =>
          have h1 := core_handleEqual dir rel a b acc
          have h2 := ih l r (handleEqual dir rel a b acc)
          simp only
          rw [h2.1, h2.2, h1.1, h1.2]
          simp [List.append_assoc]
        | lt =>
          have h1 := core_deleteEntry dir rel a acc
          have h2 := ih l (b :: r) (deleteEntry dir rel a acc)
          simp only
          rw [h2.1, h2.2, h1.1, h1.2]
          simp [List.append_assoc]
        | gt =>
          have h1 := core_addEntry dir rel b acc
          have h2 := ih (a :: l) r (addEntry dir rel b acc)
          simp only
          rw [h2.1, h2.2, h1.1, h1.2]
          simp [List.append_assoc]

/-! ### what the generic merge emits on two sorted lists -/

theorem cmp_lt_of_lt_of_le {a b c : Entry} (ha : SlashFree a.name) (hb : SlashFree b.name)
    (hc : SlashFree c.name) (h1 : entryCmp a b = .lt) (h2 : entryCmp b c ≠ .gt) :
    entryCmp a c = .lt := by
  rw [entryCmp_eq_key ha hb] at h1
  rw [entryCmp_eq_key hb hc] at h2
  rw [entryCmp_eq_key ha hc]
  cases h : cmpBytes b.key c.key with
  | gt => exact absurd h h2
  | lt => exact cmpBytes_trans h1 h
  | eq => rw [← cmpBytes_eq h]; exact h1

theorem cmp_lt_of_le_of_lt {a b c : Entry} (ha : SlashFree a.name) (hb : SlashFree b.name)
    (hc : SlashFree c.name) (h1 : entryCmp a b ≠ .gt) (h2 : entryCmp b c = .lt) :
    entryCmp a c = .lt := by
  rw [entryCmp_eq_key ha hb] at h1
  rw [entryCmp_eq_key hb hc] at h2
  rw [entryCmp_eq_key ha hc]
  cases h : cmpBytes a.key b.key with
  | gt => exact absurd h h1
  | lt => exact cmpBytes_trans h h2
  | eq => rw [cmpBytes_eq h]; exact h2

theorem cmp_gt_iff {a b : Entry} : entryCmp a b = .gt ↔ entryCmp b a = .lt := by
  rw [← entryCmp_swap b a]
  cases entryCmp b a <;> simp [Ordering.swap]

theorem sorted_head_lt {a : Entry} {l : List Entry} (h : Sorted (a :: l)) : ∀ x ∈ l, entryCmp a x = .lt :=
  (List.pairwise_cons.1 h).1

theorem sorted_tail {a : Entry} {l : List Entry} (h : Sorted (a :: l)) : Sorted l :=
  (List.pairwise_cons.1 h).2

theorem mergeG_mem {β : Type} (fL fR : Entry → List β) (fE : Entry → Entry → List β) :
    ∀ (fuel : Nat) (l r : List Entry), l.length + r.length ≤ fuel → Sorted l → Sorted r →
      NamesOk l → NamesOk r → ∀ x, x ∈ mergeG fL fR fE fuel l r ↔
        (∃ a ∈ l, (∀ b ∈ r, entryCmp a b ≠ .eq) ∧ x ∈ fL a) ∨
        (∃ b ∈ r, (∀ a ∈ l, entryCmp a b ≠ .eq) ∧ x ∈ fR b) ∨
        (∃ a ∈ l, ∃ b ∈ r, entryCmp a b = .eq ∧ x ∈ fE a b) := by
  intro fuel
  induction fuel with
  | zero =>
    intro l r hlen _ _ _ _ x
    have hl : l = [] := List.length_eq_zero_iff.1 (by omega)
    have hr : r = [] := List.length_eq_zero_iff.1 (by omega)
    subst hl; subst hr
    simp [mergeG]
  | succ fuel ih =>
    intro l r hlen hsl hsr hnl hnr x
    cases l with
    | nil =>
      cases r with
      | nil => simp [mergeG]
      | cons b r =>
        have hih := ih [] r (by simp at hlen ⊢; omega) hsl (sorted_tail hsr) hnl
          (fun e he => hnr e (List.mem_cons_of_mem _ he)) x
        simp only [mergeG, List.mem_append, hih]
        constructor
        · rintro (h | h | h | h)
          · exact Or.inr (Or.inl ⟨b, by simp, by simp, h⟩)
          · obtain ⟨a, ha, _⟩ := h; cases ha
          · obtain ⟨y, hy, _, hx⟩ := h
            exact Or.inr (Or.inl ⟨y, List.mem_cons_of_mem _ hy, by simp, hx⟩)
          · obtain ⟨a, ha, _⟩ := h; cases ha
        · rintro (h | h | h)
          · obtain ⟨a, ha, _⟩ := h; cases ha
          · obtain ⟨y, hy, _, hx⟩ := h
            rcases List.mem_cons.1 hy with rfl | hy'
            · exact Or.inl hx
            · exact Or.inr (Or.inr (Or.inl ⟨y, hy', by simp, hx⟩))
          · obtain ⟨a, ha, _⟩ := h; cases ha
    | cons a l =>
      have hna : SlashFree a.name := hnl a (by simp)
      have hnl' : NamesOk l := fun e he => hnl e (List.mem_cons_of_mem _ he)
      cases r with
      | nil =>
        have hih := ih l [] (by simp at hlen ⊢; omega) (sorted_tail hsl) hsr hnl' hnr x
        simp only [mergeG, List.mem_append, hih]
        constructor
        · rintro (h | h | h | h)
          · exact Or.inl ⟨a, by simp, by simp, h⟩
          · obtain ⟨y, hy, _, hx⟩ := h
            exact Or.inl ⟨y, List.mem_cons_of_mem _ hy, by simp, hx⟩
          · obtain ⟨b, hb, _⟩ := h; cases hb
          · obtain ⟨_, _, b, hb, _⟩ := h; cases hb
        · rintro (h | h | h)
          · obtain ⟨y, hy, _, hx⟩ := h
            rcases List.mem_cons.1 hy with rfl | hy'
            · exact Or.inl hx
            · exact Or.inr (Or.inl ⟨y, hy', by simp, hx⟩)
          · obtain ⟨b, hb, _⟩ := h; cases hb
          · obtain ⟨_, _, b, hb, _⟩ := h; cases hb
      | cons b r =>
        have hnb : SlashFree b.name := hnr b (by simp)
        have hnr' : NamesOk r := fun e he => hnr e (List.mem_cons_of_mem _ he)
        have hal := sorted_head_lt hsl
        have hbr := sorted_head_lt hsr
        simp only [mergeG]
        cases hc : entryCmp a b with
        | lt =>
          -- `a` has no partner on the right
          have haR : ∀ y ∈ b :: r, entryCmp a y = .lt := by
            intro y hy
            rcases List.mem_cons.1 hy with rfl | hy'
            · exact hc
            · exact cmp_lt_of_lt_of_le hna hnb (hnr' y hy') hc (by rw [hbr y hy']; simp)
          have hih := ih l (b :: r) (by simp at hlen ⊢; omega) (sorted_tail hsl) hsr hnl' hnr x
          simp only [List.mem_append, hih]
          constructor
          · rintro (h | h | h | h)
            · exact Or.inl ⟨a, by simp, fun y hy => by rw [haR y hy]; simp, h⟩
            · obtain ⟨a', ha', hu, hx⟩ := h
              exact Or.inl ⟨a', List.mem_cons_of_mem _ ha', hu, hx⟩
            · obtain ⟨y, hy, hu, hx⟩ := h
              refine Or.inr (Or.inl ⟨y, hy, ?_, hx⟩)
              intro a' ha'
              rcases List.mem_cons.1 ha' with rfl | ha''
              · rw [haR y hy]; simp
              · exact hu a' ha''
            · obtain ⟨a', ha', y, hy, he, hx⟩ := h
              exact Or.inr (Or.inr ⟨a', List.mem_cons_of_mem _ ha', y, hy, he, hx⟩)
          · rintro (h | h | h)
            · obtain ⟨a', ha', hu, hx⟩ := h
              rcases List.mem_cons.1 ha' with rfl | ha''
              · exact Or.inl hx
              · exact Or.inr (Or.inl ⟨a', ha'', hu, hx⟩)
            · obtain ⟨y, hy, hu, hx⟩ := h
              exact Or.inr (Or.inr (Or.inl ⟨y, hy, fun a' ha' => hu a' (List.mem_cons_of_mem _ ha'), hx⟩))
            · obtain ⟨a', ha', y, hy, he, hx⟩ := h
              rcases List.mem_cons.1 ha' with rfl | ha''
              · rw [haR y hy] at he; cases he
              · exact Or.inr (Or.inr (Or.inr ⟨a', ha'', y, hy, he, hx⟩))
        | gt =>
          -- `b` has no partner on the left
          have hba : entryCmp b a = .lt := cmp_gt_iff.1 hc
          have hbL : ∀ a' ∈ a :: l, entryCmp a' b ≠ .eq := by
            intro a' ha'
            have hlt : entryCmp b a' = .lt := by
              rcases List.mem_cons.1 ha' with rfl | ha''
              · exact hba
              · exact cmp_lt_of_lt_of_le hnb hna (hnl' a' ha'') hba (by rw [hal a' ha'']; simp)
            rw [cmp_gt_iff.2 hlt]; simp
          have hih := ih (a :: l) r (by simp at hlen ⊢; omega) hsl (sorted_tail hsr) hnl hnr' x
          simp only [List.mem_append, hih]
          constructor
          · rintro (h | h | h | h)
            · exact Or.inr (Or.inl ⟨b, by simp, hbL, h⟩)
            · obtain ⟨a', ha', hu, hx⟩ := h
              refine Or.inl ⟨a', ha', ?_, hx⟩
              intro y hy
              rcases List.mem_cons.1 hy with rfl | hy'
              · exact hbL a' ha'
              · exact hu y hy'
            · obtain ⟨y, hy, hu, hx⟩ := h
              exact Or.inr (Or.inl ⟨y, List.mem_cons_of_mem _ hy, hu, hx⟩)
            · obtain ⟨a', ha', y, hy, he, hx⟩ := h
              exact Or.inr (Or.inr ⟨a', ha', y, List.mem_cons_of_mem _ hy, he, hx⟩)
          · rintro (h | h | h)
            · obtain ⟨a', ha', hu, hx⟩ := h
              exact Or.inr (Or.inl ⟨a', ha', fun y hy => hu y (List.mem_cons_of_mem _ hy), hx⟩)
            · obtain ⟨y, hy, hu, hx⟩ := h
              rcases List.mem_cons.1 hy with rfl | hy'
              · exact Or.inl hx
              · exact Or.inr (Or.inr (Or.inl ⟨y, hy', hu, hx⟩))
            · obtain ⟨a', ha', y, hy, he, hx⟩ := h
              rcases List.mem_cons.1 hy with rfl | hy'
              · exact absurd he (hbL a' ha')
              · exact Or.inr (Or.inr (Or.inr ⟨a', ha', y, hy', he, hx⟩))
        | eq =>
          -- partners; nobody else can be a partner of either
          have haR : ∀ y ∈ r, entryCmp a y = .lt := by
            intro y hy
            exact cmp_lt_of_le_of_lt hna hnb (hnr' y hy) (by rw [hc]; simp) (hbr y hy)
          have hbL : ∀ a' ∈ l, entryCmp a' b ≠ .eq := by
            intro a' ha'
            have hba : entryCmp b a ≠ .gt := by
              rw [← entryCmp_swap a b, hc]; simp [Ordering.swap]
            have hlt : entryCmp b a' = .lt := cmp_lt_of_le_of_lt hnb hna (hnl' a' ha') hba (hal a' ha')
            rw [cmp_gt_iff.2 hlt]; simp
          have hih := ih l r (by simp at hlen ⊢; omega) (sorted_tail hsl) (sorted_tail hsr) hnl' hnr' x
          simp only [List.mem_append, hih]
          constructor
          · rintro (h | h | h | h)
            · exact Or.inr (Or.inr ⟨a, by simp, b, by simp, hc, h⟩)
            · obtain ⟨a', ha', hu, hx⟩ := h
              refine Or.inl ⟨a', List.mem_cons_of_mem _ ha', ?_, hx⟩
              intro y hy
              rcases List.mem_cons.1 hy with rfl | hy'
              · exact hbL a' ha'
              · exact hu y hy'
            · obtain ⟨y, hy, hu, hx⟩ := h
              refine Or.inr (Or.inl ⟨y, List.mem_cons_of_mem _ hy, ?_, hx⟩)
              intro a' ha'
              rcases List.mem_cons.1 ha' with rfl | ha''
              · rw [haR y hy]; simp
              · exact hu a' ha''
            · obtain ⟨a', ha', y, hy, he, hx⟩ := h
              exact Or.inr (Or.inr ⟨a', List.mem_cons_of_mem _ ha', y, List.mem_cons_of_mem _ hy, he, hx⟩)
          · rintro (h | h | h)
            · obtain ⟨a', ha', hu, hx⟩ := h
              rcases List.mem_cons.1 ha' with rfl | ha''
              · exact absurd hc (hu b (by simp))
              · exact Or.inr (Or.inl ⟨a', ha'', fun y hy => hu y (List.mem_cons_of_mem _ hy), hx⟩)
            · obtain ⟨y, hy, hu, hx⟩ := h
              rcases List.mem_cons.1 hy with rfl | hy'
              · exact absurd hc (hu a (by simp))
              · exact Or.inr (Or.inr (Or.inl ⟨y, hy', fun a' ha' => hu a' (List.mem_cons_of_mem _ ha'), hx⟩))
            · obtain ⟨a', ha', y, hy, he, hx⟩ := h
              rcases List.mem_cons.1 ha' with rfl | ha''
              · rcases List.mem_cons.1 hy with rfl | hy'
                · exact Or.inl hx
                · rw [haR y hy'] at he; cases he
              · rcases List.mem_cons.1 hy with rfl | hy'
                · exact absurd he (hbL a' ha'')
                · exact Or.inr (Or.inr (Or.inr ⟨a', ha'', y, hy', he, hx⟩))

end GixModel.C44
