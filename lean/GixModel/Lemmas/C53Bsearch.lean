import GixModel.Model.C53
/-
C53 — the transcribed `binary_search_by` loop meets its contract on every slice whose comparator
outcomes are monotone (all `Less`, then at most … `Equal`, then `Greater`), without any size bound.
-/
namespace GixModel.C53
open GixModel

/-- for `a` before `b`: if `b` is not above the probe then `a` is below it -/
def Mono {α : Type} (f : α → Ordering) (xs : List α) : Prop :=
  xs.Pairwise (fun a b => f b ≠ .gt → f a = .lt)

theorem mono_before {α : Type} {f : α → Ordering} {xs : List α} (hM : Mono f xs) :
    ∀ {m : Nat} {x : α}, xs[m]? = some x → f x ≠ .gt → ∀ a ∈ xs.take m, f a = .lt := by
  induction xs with
  | nil => intro m x h; simp at h
  | cons y ys ih =>
    intro m x h hx a ha
    cases m with
    | zero => simp at ha
    | succ k =>
      simp only [List.getElem?_cons_succ] at h
      simp only [List.take_succ_cons, List.mem_cons] at ha
      have hp := List.pairwise_cons.mp hM
      rcases ha with rfl | ha
      · exact hp.1 x (List.mem_of_getElem? h) hx
      · exact ih hp.2 h hx a ha

theorem mono_after {α : Type} {f : α → Ordering} {xs : List α} (hM : Mono f xs) :
    ∀ {m : Nat} {x : α}, xs[m]? = some x → f x ≠ .lt → ∀ b ∈ xs.drop (m + 1), f b = .gt := by
  induction xs with
  | nil => intro m x h; simp at h
  | cons y ys ih =>
    intro m x h hx b hb
    have hp := List.pairwise_cons.mp hM
    cases m with
    | zero =>
      simp only [List.getElem?_cons_zero, Option.some.injEq] at h
      subst h
      simp only [Nat.zero_add, List.drop_succ_cons, List.drop_zero] at hb
      have := hp.1 b hb
      cases hfb : f b with
      | gt => rfl
      | lt => exact absurd (this (by simp [hfb])) hx
      | eq => exact absurd (this (by simp [hfb])) hx
    | succ k =>
      simp only [List.getElem?_cons_succ] at h
      simp only [List.drop_succ_cons] at hb
      exact ih hp.2 h hx b hb

theorem mem_drop_cases {α : Type} {xs : List α} :
    ∀ {m : Nat} {x b : α}, xs[m]? = some x → b ∈ xs.drop m → b = x ∨ b ∈ xs.drop (m + 1) := by
  induction xs with
  | nil => intro m x b h; simp at h
  | cons y ys ih =>
    intro m x b h hb
    cases m with
    | zero =>
      simp only [List.getElem?_cons_zero, Option.some.injEq] at h
      subst h
      simpa using hb
    | succ k =>
      simp only [List.getElem?_cons_succ] at h
      simp only [List.drop_succ_cons] at hb ⊢
      exact ih h hb

theorem mem_drop_mono {α : Type} {xs : List α} {m k : Nat} {b : α} (hk : m ≤ k) (hb : b ∈ xs.drop k) :
    b ∈ xs.drop m := by
  obtain ⟨d, rfl⟩ := Nat.exists_eq_add_of_le hk
  rw [← List.drop_drop] at hb
  exact List.mem_of_mem_drop hb

theorem mem_take_succ {α : Type} {xs : List α} :
    ∀ {m : Nat} {x a : α}, xs[m]? = some x → a ∈ xs.take (m + 1) → a ∈ xs.take m ∨ a = x := by
  induction xs with
  | nil => intro m x a h; simp at h
  | cons y ys ih =>
    intro m x a h ha
    cases m with
    | zero =>
      simp only [List.getElem?_cons_zero, Option.some.injEq] at h
      subst h
      right; simpa using ha
    | succ k =>
      simp only [List.getElem?_cons_succ] at h
      simp only [List.take_succ_cons, List.mem_cons] at ha ⊢
      rcases ha with rfl | ha
      · left; left; rfl
      · rcases ih h ha with h1 | h1
        · left; right; exact h1
        · right; exact h1

theorem bsLoop_spec {α : Type} (f : α → Ordering) (xs : List α) (hM : Mono f xs) :
    ∀ (fuel base size : Nat), 1 ≤ size → base + size ≤ xs.length → size ≤ fuel + 1 →
      (∀ a ∈ xs.take base, f a = .lt) → (∀ b ∈ xs.drop (base + size), f b = .gt) →
      bsLoop f xs fuel base size < xs.length ∧
      (∀ a ∈ xs.take (bsLoop f xs fuel base size), f a = .lt) ∧
      (∀ b ∈ xs.drop (bsLoop f xs fuel base size + 1), f b = .gt) := by
  intro fuel
  induction fuel with
  | zero =>
    intro base size h1 h2 h3 hI1 hI2
    have : size = 1 := by omega
    subst this
    simp only [bsLoop]
    exact ⟨by omega, hI1, hI2⟩
  | succ fuel ih =>
    intro base size h1 h2 h3 hI1 hI2
    unfold bsLoop
    by_cases hs : size ≤ 1
    · have : size = 1 := by omega
      subst this
      simp only [Nat.le_refl, if_true]
      exact ⟨by omega, hI1, hI2⟩
    · simp only [hs, if_false]
      have hhalf1 : 1 ≤ size / 2 := by omega
      have hhalf2 : size / 2 ≤ size - size / 2 := by omega
      have hmid : base + size / 2 < xs.length := by omega
      obtain ⟨x, hx⟩ : ∃ x, xs[base + size / 2]? = some x := ⟨xs[base + size / 2], by simp [hmid]⟩
      simp only [hx]
      cases hfx : f x with
      | gt =>
        simp only [beq_self_eq_true, if_true]
        apply ih base (size - size / 2) (by omega) (by omega) (by omega) hI1
        intro b hb
        have hb' : b ∈ xs.drop (base + size / 2) := mem_drop_mono (by omega) hb
        rcases mem_drop_cases hx hb' with rfl | hb''
        · exact hfx
        · exact mono_after hM hx (by simp [hfx]) b hb''
      | lt =>
        have hne : (Ordering.lt == Ordering.gt) = false := by decide
        simp only [hne, Bool.false_eq_true, if_false]
        apply ih (base + size / 2) (size - size / 2) (by omega) (by omega) (by omega)
        · exact mono_before hM hx (by simp [hfx])
        · have : base + size / 2 + (size - size / 2) = base + size := by omega
          rw [this]; exact hI2
      | eq =>
        have hne : (Ordering.eq == Ordering.gt) = false := by decide
        simp only [hne, Bool.false_eq_true, if_false]
        apply ih (base + size / 2) (size - size / 2) (by omega) (by omega) (by omega)
        · exact mono_before hM hx (by simp [hfx])
        · have : base + size / 2 + (size - size / 2) = base + size := by omega
          rw [this]; exact hI2

/-- the final index of the loop, for a non-empty slice -/
theorem bsLoop_top {α : Type} (f : α → Ordering) (xs : List α) (hM : Mono f xs) (hne : xs ≠ []) :
    bsLoop f xs xs.length 0 xs.length < xs.length ∧
    (∀ a ∈ xs.take (bsLoop f xs xs.length 0 xs.length), f a = .lt) ∧
    (∀ b ∈ xs.drop (bsLoop f xs xs.length 0 xs.length + 1), f b = .gt) := by
  have hl : 1 ≤ xs.length := by
    cases xs with
    | nil => exact absurd rfl hne
    | cons _ _ => simp
  apply bsLoop_spec f xs hM xs.length 0 xs.length hl (by omega) (by omega)
  · intro a ha; simp at ha
  · intro b hb; simp at hb

/-- `Ok(i)` always points at an element that compares `Equal` (no assumption on the slice) -/
theorem bsearch_found {α : Type} {f : α → Ordering} {xs : List α} {i : Nat}
    (h : bsearch f xs = .found i) : ∃ x, xs[i]? = some x ∧ f x = .eq := by
  unfold bsearch at h
  split at h
  · cases h
  · simp only at h
    split at h
    · cases h
    · rename_i x hx
      cases hfx : f x with
      | eq => simp only [hfx, BsRes.found.injEq] at h; subst h; exact ⟨x, hx, hfx⟩
      | lt => simp [hfx] at h
      | gt => simp [hfx] at h

theorem bsearch_found_mono {α : Type} {f : α → Ordering} {xs : List α} (hM : Mono f xs) {i : Nat}
    (h : bsearch f xs = .found i) :
    (∀ a ∈ xs.take i, f a = .lt) ∧ (∀ b ∈ xs.drop (i + 1), f b = .gt) := by
  unfold bsearch at h
  split at h
  · cases h
  · rename_i hemp
    have hne : xs ≠ [] := by intro h0; subst h0; simp at hemp
    have hs := bsLoop_top f xs hM hne
    simp only at h
    split at h
    · cases h
    · rename_i x hx
      cases hfx : f x with
      | eq => simp only [hfx, BsRes.found.injEq] at h; subst h; exact ⟨hs.2.1, hs.2.2⟩
      | lt => simp [hfx] at h
      | gt => simp [hfx] at h

theorem bsearch_insertAt_mono {α : Type} {f : α → Ordering} {xs : List α} (hM : Mono f xs) {i : Nat}
    (h : bsearch f xs = .insertAt i) :
    i ≤ xs.length ∧ (∀ a ∈ xs.take i, f a = .lt) ∧ (∀ b ∈ xs.drop i, f b = .gt) := by
  unfold bsearch at h
  split at h
  · rename_i hemp
    simp only [BsRes.insertAt.injEq] at h; subst h
    have : xs = [] := by simpa using hemp
    subst this; simp
  · rename_i hemp
    have hne : xs ≠ [] := by intro h0; subst h0; simp at hemp
    have hs := bsLoop_top f xs hM hne
    simp only at h
    split at h
    · rename_i hnone
      have := hs.1
      simp at hnone
      omega
    · rename_i x hx
      cases hfx : f x with
      | eq => simp [hfx] at h
      | lt =>
        simp only [hfx, BsRes.insertAt.injEq] at h; subst h
        refine ⟨by have := hs.1; omega, ?_, hs.2.2⟩
        intro a ha
        rcases mem_take_succ hx ha with h1 | rfl
        · exact hs.2.1 a h1
        · exact hfx
      | gt =>
        simp only [hfx, BsRes.insertAt.injEq] at h; subst h
        refine ⟨by have := hs.1; omega, hs.2.1, ?_⟩
        intro b hb
        rcases mem_drop_cases hx hb with rfl | hb'
        · exact hfx
        · exact hs.2.2 b hb'

end GixModel.C53
