import GixModel.Lemmas.C38Names
import GixModel.Lemmas.C38Parse
import GixModel.Props.C36
/-
C38 (round 2) — the matcher parameter instantiated with the C36 model.

gitoxide's side: `gixPm` is `gix_glob::Pattern::matches_repo_relative_path(rel, basename_pos, Some(is_dir),
case, NO_MATCH_SLASH_LITERAL)` on top of `C36.Pattern.matches` (the transcription of `Pattern::matches`
with its shortcuts and of `wildmatch`).

git's side: `gitPm` is `path_matches` behind the base check — MUSTBEDIR, then for a pattern without
slash the basename, else the whole name — with `Spec.C36.wildmatch` (the transcription of wildmatch.c)
deciding. NOT transcribed: the three shortcuts git takes before calling wildmatch (`match_basename`'s
plain comparison of wildcard-free patterns and its `*literal` suffix comparison, `match_pathname`'s
comparison of the literal prefix) and the fact that `match_basename` calls wildmatch WITHOUT
WM_PATHNAME (on a basename, which has no slash); as in the rest of C38 the pattern is the one
`C38.parsePat` produced (leading `/` and trailing `/` turned into flags, `\!`/`\#` unescaped).
-/
namespace GixModel.Lemmas.C38
open GixModel GixModel.C38 GixModel.Spec.C38

def toC36 (p : Pat) : C36.Pattern :=
  { text := p.text,
    mode := { noSubDir := p.noSubDir, endsWith := p.endsWith, mustBeDir := p.mustBeDir, negative := p.negative,
              absolute := p.absolute },
    firstWildcardPos := p.fwp }

/-- `&path[basename_start_pos.unwrap_or_default()..]` with `basename_start_pos = rfind('/') + 1` -/
def basenameAux : Bytes → Bytes → Bytes
  | acc, [] => acc.reverse
  | acc, b :: rest => if b == 47 then basenameAux [] rest else basenameAux (b :: acc) rest

def basename (rel : Bytes) : Bytes := basenameAux [] rel

/-- `Pattern::matches_repo_relative_path` -/
def gixPm (p : Pat) (rel : Bytes) (isDir icase : Bool) : Bool :=
  if !isDir && p.mustBeDir then false
  else if p.noSubDir && !p.absolute then (toC36 p).matches (basename rel) ⟨true, icase⟩
  else (toC36 p).matches rel ⟨true, icase⟩

/-- git's `path_matches` behind the base check, deciding by `wildmatch` alone (see the header) -/
def gitPm (p : Pat) (name : Bytes) (isdir icase : Bool) : Bool :=
  if p.mustBeDir && !isdir then false
  else if p.noSubDir && !p.absolute then Spec.C36.wildmatch { pathname := true, casefold := icase } p.text (basename name)
  else Spec.C36.wildmatch { pathname := true, casefold := icase } p.text name

/-! ### `C38.parsePat` is `C36.parsePattern … true` -/

theorem fwp_eq (p : Bytes) : C36.firstWildcardPos p = C38.firstWildcardPos p := by
  induction p with
  | nil => rfl
  | cons c r ih =>
    simp only [C36.firstWildcardPos, C38.firstWildcardPos, ih]
    rfl

theorem stripNegation_eq (raw : Bytes) : C36.stripNegation raw true = C38.stripNegation raw := by
  unfold C36.stripNegation C38.stripNegation
  simp only [if_true]
  split <;> first | rfl | (split <;> simp_all)

theorem stripAbsolute_eq (p : Bytes) : C36.stripAbsolute p = C38.stripAbsolute p := by
  unfold C36.stripAbsolute C38.stripAbsolute
  split <;> first | rfl | (split <;> simp_all)

theorem mkPattern_eq (n a d : Bool) (p : Bytes) :
    C36.mkPattern n a d p = toC36 ⟨p, n, a, d, !p.contains 47, endsWithFlag p, C38.firstWildcardPos p⟩ := by
  unfold C36.mkPattern toC36 endsWithFlag
  simp only [fwp_eq]
  cases p with
  | nil => rfl
  | cons c r =>
    by_cases hc : c = 42
    · subst hc; simp [fwp_eq]
    · congr 2

/-- the pattern parser of C38 is the one of C36 (with `!` handling) -/
theorem parsePat_c36 (raw : Bytes) (p : Pat) (h : parsePat raw = some p) :
    C36.parsePattern raw true = some (toC36 p) := by
  unfold parsePat at h
  unfold C36.parsePattern
  by_cases he : raw.isEmpty = true
  · simp [he] at h
  · simp only [he, Bool.false_eq_true, if_false] at h ⊢
    rw [stripNegation_eq]
    have hws : ∀ l : Bytes, l.all C36.isAsciiWhitespace = l.all C38.isAsciiWhitespace := fun _ => rfl
    simp only [hws]
    cases hn : C38.stripNegation raw with
    | mk neg p1 =>
      simp only [hn] at h ⊢
      by_cases hw : p1.all C38.isAsciiWhitespace = true
      · simp [hw] at h
      · simp only [hw, Bool.false_eq_true, if_false] at h ⊢
        rw [stripAbsolute_eq]
        cases ha : C38.stripAbsolute p1 with
        | mk abs p2 =>
          simp only [ha] at h ⊢
          have hmd : C36.stripMustBeDir p2 = C38.stripMustBeDir p2 := rfl
          rw [hmd]
          cases hm : C38.stripMustBeDir p2 with
          | mk mbd p3 =>
            simp only [hm, Option.some.injEq] at h ⊢
            subst h
            exact mkPattern_eq neg abs mbd p3

/-! ### the two matchers agree where C36 is proved -/

theorem basenameAux_mem : ∀ (s acc : Bytes) (c : UInt8), c ∈ basenameAux acc s → c ∈ acc ∨ c ∈ s := by
  intro s
  induction s with
  | nil => intro acc c h; exact Or.inl (List.mem_reverse.mp h)
  | cons b s ih =>
    intro acc c h
    rw [basenameAux.eq_def] at h
    simp only at h
    by_cases hb : (b == 47) = true
    · simp only [hb, if_true] at h
      rcases ih [] c h with h' | h'
      · simp at h'
      · exact Or.inr (List.mem_cons_of_mem _ h')
    · simp only [hb] at h
      rcases ih (b :: acc) c h with h' | h'
      · rcases List.mem_cons.mp h' with rfl | h''
        · exact Or.inr (by simp)
        · exact Or.inl h''
      · exact Or.inr (List.mem_cons_of_mem _ h')

theorem basename_noNul (s : Bytes) (h : ∀ c ∈ s, c ≠ 0) : ∀ c ∈ basename s, c ≠ 0 := by
  intro c hc
  rcases basenameAux_mem s [] c hc with h' | h'
  · simp at h'
  · exact h c h'

/-- the patterns for which C36 proves gitoxide's `wildmatch` equal to git's: produced by the pattern
parser, no NUL, no `**`, fewer than 64 stars (the recursion bound) and — when case is folded — no
bracket and no escaped upper-case letter (gitoxide's deliberate deviation) -/
def GoodPat (icase : Bool) (p : Pat) : Prop :=
  (∃ raw, parsePat raw = some p) ∧ C36.PatOk ⟨true, icase⟩ p.text ∧ C36.noDS p.text = true
    ∧ (p.text.filter (· == 42)).length < 64

/-- **the real matchers agree** on good patterns and NUL-free names -/
theorem pm_eq (icase : Bool) (p : Pat) (hp : GoodPat icase p) (name : Bytes) (hn : ∀ c ∈ name, c ≠ 0) (isDir : Bool) :
    gixPm p name isDir icase = gitPm p name isDir icase := by
  obtain ⟨⟨raw, hraw⟩, hok, hds, hcnt⟩ := hp
  have hparse := parsePat_c36 raw p hraw
  have key : ∀ value : Bytes, (∀ c ∈ value, c ≠ 0) →
      (toC36 p).matches value ⟨true, icase⟩ = Spec.C36.wildmatch { pathname := true, casefold := icase } p.text value := by
    intro value hv
    rw [Props.C36.shortcuts_sound raw true (toC36 p) hparse value ⟨true, icase⟩]
    exact Props.C36.multi_star_eq ⟨true, icase⟩ p.text value hok hds hcnt hv
  unfold gixPm gitPm
  cases isDir <;> cases hm : p.mustBeDir <;> simp only [Bool.not_false, Bool.not_true, Bool.and_true, Bool.and_false,
    Bool.true_and, Bool.false_and, if_true, if_false, Bool.false_eq_true] <;>
  · split
    · exact key _ (basename_noNul name hn)
    · exact key _ hn

/-! ### `gitCollect` depends on the matcher only through the patterns of the tree -/

theorem foldl_congr' {α β : Type} (f g : β → α → β) (l : List α) (h : ∀ x ∈ l, ∀ b, f b x = g b x) :
    ∀ b, l.foldl f b = l.foldl g b := by
  induction l with
  | nil => intro b; rfl
  | cons x l ih =>
    intro b
    simp only [List.foldl_cons]
    rw [h x (by simp) b]
    exact ih (fun y hy => h y (by simp [hy])) _

/-- every pattern of the attribute files has the property `P` -/
def TreeOk (P : Pat → Prop) (t : PTree) : Prop :=
  (∀ f ∈ t.globals, ∀ l ∈ f, ∀ p, l.kind = Kind.pattern p → P p)
    ∧ (∀ f, t.info = some f → ∀ l ∈ f, ∀ p, l.kind = Kind.pattern p → P p)
    ∧ (∀ d f, t.dirs d = some f → ∀ l ∈ f, ∀ p, l.kind = Kind.pattern p → P p)

theorem stack_patterns (P : Pat → Prop) (t : PTree) (ht : TreeOk P t) (gpath : Bytes) :
    ∀ fr ∈ gitStack t gpath, ∀ l ∈ fr.lines, ∀ p, l.kind = Kind.pattern p → P p := by
  obtain ⟨hg, hi, hd⟩ := ht
  intro fr hfr l hl p hk
  unfold gitStack at hfr
  simp only [List.mem_append, List.mem_cons, List.mem_map, List.mem_reverse, List.mem_nil_iff, or_false] at hfr
  rcases hfr with (((rfl | ⟨d, _, rfl⟩) | rfl) | ⟨f, hf, rfl⟩) | rfl
  · cases hinfo : t.info with
    | none => simp [hinfo] at hl
    | some f => simp only [hinfo, Option.getD_some] at hl; exact hi f hinfo l hl p hk
  · cases hdir : t.dirs d with
    | none => simp [hdir, noMacros] at hl
    | some f =>
      simp only [hdir, Option.getD_some, noMacros] at hl
      exact hd d f hdir l (List.mem_filter.mp hl).1 p hk
  · cases hdir : t.dirs [] with
    | none => simp [hdir] at hl
    | some f => simp only [hdir, Option.getD_some] at hl; exact hd [] f hdir l hl p hk
  · exact hg f hf l hl p hk
  · simp only [builtin, List.mem_cons, List.mem_nil_iff, or_false] at hl
    subst hl
    simp at hk

theorem pathMatches_core (e1 e2 : Env) (p : Pat) (base pathname : Bytes) (isdir icase : Bool)
    (hpn : ∀ c ∈ pathname, c ≠ 0)
    (h : ∀ name isdir, (∀ c ∈ name, c ≠ 0) → e1.pm p name isdir icase = e2.pm p name isdir icase) :
    (if pathname.length < base.length + 1 then false
      else if base.length != 0 && pathname[base.length]? != some 47 then false
      else if !fspathEq (pathname.take base.length) base icase then false
      else e1.pm p (if base.length != 0 then pathname.drop (base.length + 1) else pathname) isdir icase)
    = (if pathname.length < base.length + 1 then false
      else if base.length != 0 && pathname[base.length]? != some 47 then false
      else if !fspathEq (pathname.take base.length) base icase then false
      else e2.pm p (if base.length != 0 then pathname.drop (base.length + 1) else pathname) isdir icase) := by
  have hname : ∀ c ∈ (if base.length != 0 then pathname.drop (base.length + 1) else pathname), c ≠ 0 := by
    intro c hc
    split at hc
    · exact hpn c (List.mem_of_mem_drop hc)
    · exact hpn c hc
  rw [h _ isdir hname]

theorem pathMatches_congr (e1 e2 : Env) (p : Pat) (origin : Option Bytes) (gpath : Bytes) (icase : Bool)
    (hg : ∀ c ∈ gpath, c ≠ 0)
    (h : ∀ name isdir, (∀ c ∈ name, c ≠ 0) → e1.pm p name isdir icase = e2.pm p name isdir icase) :
    pathMatches e1 p origin gpath icase = pathMatches e2 p origin gpath icase := by
  have hpn : ∀ c ∈ (if (gpath.getLast? == some 47) = true then gpath.dropLast else gpath), c ≠ 0 := by
    intro c hc
    split at hc
    · exact hg c ((List.dropLast_sublist _).subset hc)
    · exact hg c hc
  unfold pathMatches
  exact pathMatches_core e1 e2 p (origin.getD []) _ _ icase hpn h

/-- two matchers that agree on the patterns of the tree (for NUL-free names) give the same values -/
theorem gitCollect_congr (e1 e2 : Env) (t : PTree) (gpath : Bytes) (icase : Bool) (P : Pat → Prop)
    (ht : TreeOk P t) (hg : ∀ c ∈ gpath, c ≠ 0)
    (h : ∀ p, P p → ∀ name isdir, (∀ c ∈ name, c ≠ 0) → e1.pm p name isdir icase = e2.pm p name isdir icase) :
    gitCollect e1 t gpath icase = gitCollect e2 t gpath icase := by
  unfold gitCollect
  simp only
  unfold fill
  apply foldl_congr'
  intro fr hfr v
  unfold fillFrame
  apply foldl_congr'
  intro l hl v'
  cases hk : l.kind with
  | «macro» n => rfl
  | pattern p =>
    simp only
    rw [pathMatches_congr e1 e2 p fr.origin gpath icase hg
      (h p (stack_patterns P t ht gpath fr hfr l (List.mem_reverse.mp hl) p hk))]

end GixModel.Lemmas.C38
