import GixModel.Lemmas.C02Git
/-
C02 helper lemmas, part 5: tags — the message / PGP-signature split and the tag decoder on what the
tag writer prints.
-/
namespace GixModel.C02
open GixModel GixModel.C01 GixModel.Spec.C02

/-! ### the message / signature split -/

theorem isPrefixOf_self_append (pat b : Bytes) : pat.isPrefixOf (pat ++ b) = true :=
  List.isPrefixOf_iff_prefix.mpr (List.prefix_append pat b)

theorem hasInfix_of_infix (pat a b : Bytes) (hne : pat ≠ []) : hasInfix pat (a ++ (pat ++ b)) = true := by
  induction a with
  | nil =>
    cases hp : pat with
    | nil => exact absurd hp hne
    | cons p ps =>
      have := isPrefixOf_self_append (p :: ps) b
      simp only [List.nil_append, List.cons_append, hasInfix] at this ⊢
      simp [this]
  | cons x a ih =>
    simp only [List.cons_append, hasInfix, ih, Bool.or_true]

/-- `\n-----BEGIN PGP SIGNATURE-----` -/
def marker : Bytes := 10 :: pgpBegin

theorem pgpBegin_no_nl : ∀ b ∈ pgpBegin, (b == 10) = false := by decide

theorem noEarly_marker (m st : Bytes) (hm : hasInfix marker m = false) :
    NoEarly marker m (marker ++ st) := by
  intro k hk
  cases hpre : marker.isPrefixOf (m.drop k ++ (marker ++ st)) with
  | false => rfl
  | true =>
    exfalso
    obtain ⟨t, ht⟩ := List.isPrefixOf_iff_prefix.mp hpre
    have hsplit : m = m.take k ++ m.drop k := (List.take_append_drop k m).symm
    have hsne : m.drop k ≠ [] := by
      intro h
      have := congrArg List.length h
      simp at this
      omega
    rcases List.append_eq_append_iff.mp ht with ⟨a', hs, _⟩ | ⟨c', hmk, htl⟩
    · have : hasInfix marker m = true := by
        rw [hsplit, hs]
        exact hasInfix_of_infix marker _ a' (by simp [marker])
      rw [hm] at this
      exact absurd this (by simp)
    · cases c' with
      | nil =>
        simp only [List.append_nil] at hmk
        have : hasInfix marker m = true := by
          rw [hsplit, ← hmk]
          have := hasInfix_of_infix marker (m.take k) [] (by simp [marker])
          simpa using this
        rw [hm] at this
        exact absurd this (by simp)
      | cons y c'' =>
        have hy : y = 10 := by
          simp only [marker, List.cons_append, List.cons.injEq] at htl
          exact htl.1.symm
        subst hy
        cases hs : m.drop k with
        | nil => exact hsne hs
        | cons x s' =>
          rw [hs] at hmk
          simp only [marker, List.cons_append, List.cons.injEq] at hmk
          have : (10 : UInt8) ∈ pgpBegin := by rw [hmk.2]; simp
          have := pgpBegin_no_nl 10 this
          exact absurd this (by decide)

theorem tagMessage_plain (m : Bytes) (hm : hasInfix marker m = false) :
    tagMessage (10 :: m) = some (m, none) := by
  have := findSub_none_of_hasInfix marker m hm
  simp only [marker] at this
  simp [tagMessage, this]

theorem tagMessage_signed (m st : Bytes) (hm : hasInfix marker m = false) (hend : hasInfix pgpEnd st = true) :
    tagMessage (10 :: (m ++ 10 :: (pgpBegin ++ st))) = some (m, some (pgpBegin ++ st)) := by
  have h1 := findSub_append marker m (marker ++ st) (noEarly_marker m st hm)
    (isPrefixOf_self_append marker st) (by simp [marker])
  have h2 := findSub_some_of_hasInfix pgpEnd st hend
  simp only [marker, List.cons_append] at h1
  cases h3 : findSub pgpEnd st with
  | none => simp [h3] at h2
  | some xy =>
    simp only [tagMessage, h1, List.drop_succ_cons, List.drop_zero, List.drop_left, h3]
    simp [pgpBegin]

/-! ### the tag -/

/-- the bytes of a tag object, from its pieces (`tw`: the printed tagger signature, `body`:
everything after the headers) -/
def tagBytes (target : Bytes) (kind : Kind) (name : Bytes) (tw : Option Bytes) (body : Bytes) : Bytes :=
  kObject ++ 32 :: (hexBytes target ++ 10 ::
    (kType ++ 32 :: (kind.bytes ++ 10 ::
      (kTag ++ 32 :: (name ++ 10 ::
        ((match tw with
          | none => []
          | some w => kTagger ++ 32 :: (w ++ [10])) ++ body))))))

theorem alpha1_kind (k : Kind) (r : Bytes) : alpha1 (k.bytes ++ 10 :: r) = .ok k.bytes (10 :: r) := by
  have h1 : ∀ b ∈ k.bytes, (!isAlpha b) = false := by cases k <;> decide
  have := spanTill_append (fun b => !isAlpha b) k.bytes (10 :: r) h1 (StopsAt.cons _ (by decide))
  have hne : k.bytes.isEmpty = false := by cases k <;> rfl
  unfold alpha1
  simp [this, hne]

theorem kindOfBytes_bytes (k : Kind) : kindOfBytes k.bytes = some k := by cases k <;> rfl

def taggerWritable : Option Signature → Prop
  | none => True
  | some s => SigWritable s

instance (s : Option Signature) : Decidable (taggerWritable s) := by
  cases s <;> (unfold taggerWritable; infer_instance)

theorem hdr_tagger_nl (p : Bytes → PRes Signature) (rest : Bytes) : hdr kTagger p (10 :: rest) = .fail := by
  apply hdr_strip_none
  simp [kTagger, stripPrefix]

theorem parseTag_bytes (target : Bytes) (kind : Kind) (name : Bytes) (tagger : Option Signature)
    (msg : Bytes) (pgp : Option Bytes) (body : Bytes)
    (ht : target.length = 20) (hne : name ≠ []) (hnl : noNl name = true) (htg : taggerWritable tagger)
    (hbody : tagMessage (10 :: body) = some (msg, pgp)) :
    ∃ tw, taggerLine tagger = some (match tw with | none => [] | some w => kTagger ++ 32 :: (w ++ [10]))
      ∧ (tw.isSome = tagger.isSome) ∧
      parseTag (tagBytes target kind name tw (10 :: body))
        = some { target := hexBytes target, kind := kind, name := name, tagger := tagger,
                 message := msg, pgp := pgp } := by
  have s3 : ∀ r, hdr kTag line1 (kTag ++ 32 :: (name ++ 10 :: r)) = .ok name r :=
    fun r => hdr_ok kTag line1 name r name (line1_ok name r hne ((noNl_iff name).mp hnl))
  have s2 : ∀ r, hdr kType alpha1 (kType ++ 32 :: (kind.bytes ++ 10 :: r)) = .ok kind.bytes r :=
    fun r => hdr_ok kType alpha1 kind.bytes r kind.bytes (alpha1_kind kind r)
  have s1 : ∀ r, hdr kObject hexHash (kObject ++ 32 :: (hexBytes target ++ 10 :: r)) = .ok (hexBytes target) r :=
    fun r => hdr_ok kObject hexHash (hexBytes target) r (hexBytes target) (hexHash_ok target r ht)
  cases tagger with
  | none =>
    refine ⟨none, rfl, rfl, ?_⟩
    simp only [parseTag, tagBytes, s1, s2, s3, kindOfBytes_bytes, List.nil_append, hdr_tagger_nl, popt, hbody]
  | some s =>
    obtain ⟨w, hw, hp⟩ := signature_canonical s htg
    refine ⟨some w, ?_, rfl, ?_⟩
    · simp [taggerLine, hw, kTagger]
    · have s4 := hdr_ok kTagger signature w (10 :: body) s (hp _ (Or.inr ⟨_, rfl⟩))
      simp only [parseTag, tagBytes, s1, s2, s3, kindOfBytes_bytes, List.append_assoc, List.cons_append,
        List.nil_append, s4, popt, hbody]

/-! ### C01's `Tag` -/

def pgpWritable : Option Bytes → Prop
  | none => True
  | some p => pgpBegin.isPrefixOf p = true ∧ hasInfix pgpEnd (p.drop pgpBegin.length) = true

instance (p : Option Bytes) : Decidable (pgpWritable p) := by
  cases p <;> (unfold pgpWritable; infer_instance)

/-- the writable (round-trip) domain for tags: a 20-byte target; a name the writer accepts (valid
per `gix_validate`, non-empty, LF-free, not starting with `-`); a writable tagger if any; a message
without an armour start line of its own; the signature, if any, a `BEGIN … END …` block. -/
def TagWritable (t : Tag) : Prop :=
  t.target.length = 20 ∧ t.nameValid = true ∧ t.name ≠ [] ∧ noNl t.name = true ∧ t.name.head? ≠ some 45
  ∧ taggerWritable t.tagger ∧ hasInfix marker t.message = false ∧ pgpWritable t.pgp

instance (t : Tag) : Decidable (TagWritable t) := by unfold TagWritable; infer_instance

theorem tagMessage_of_writable (msg : Bytes) (pgp : Option Bytes) (hm : hasInfix marker msg = false)
    (hp : pgpWritable pgp) : tagMessage (10 :: (msg ++ pgpPart pgp)) = some (msg, pgp) := by
  cases pgp with
  | none => simpa [pgpPart] using tagMessage_plain msg hm
  | some p =>
    obtain ⟨h1, h2⟩ := hp
    obtain ⟨t, rfl⟩ := List.isPrefixOf_iff_prefix.mp h1
    simp only [List.drop_left] at h2
    simpa [pgpPart] using tagMessage_signed msg t hm h2

theorem tagNameLine_ok (t : Tag) (hv : t.nameValid = true) (hne : t.name ≠ []) (hnl : noNl t.name = true)
    (hd : t.name.head? ≠ some 45) : tagNameLine t = some (kTag ++ 32 :: (t.name ++ [10])) := by
  have h1 : t.name.isEmpty = false := by cases h : t.name <;> simp_all
  have h3 : (10 : UInt8) ∉ t.name := by
    intro hm
    have := ((noNl_iff t.name).mp hnl) 10 hm
    exact absurd this (by decide)
  have h4 : (t.name.head? == some 45) = false := by simpa using hd
  simp [tagNameLine, hv, h4, headerField, h1, h3, kTag]

theorem tag_roundtrip_core (t : Tag) (hw : TagWritable t) :
    ∃ bs, t.write = some bs ∧ decodeTag bs t.nameValid = some t := by
  obtain ⟨ht, hv, hne, hnl, hd, htg, hm, hp⟩ := hw
  obtain ⟨tw, htl, _, hparse⟩ := parseTag_bytes t.target t.targetKind t.name t.tagger t.message t.pgp
    (t.message ++ pgpPart t.pgp) ht hne hnl htg (tagMessage_of_writable _ _ hm hp)
  refine ⟨tagBytes t.target t.targetKind t.name tw (10 :: (t.message ++ pgpPart t.pgp)), ?_, ?_⟩
  · simp only [Tag.write, concatOpts, optAppend, tagNameLine_ok t hv hne hnl hd, htl, tagBytes, kObject, kType]
    simp
  · unfold decodeTag
    rw [hparse]
    simp [TagRef.toOwned, unhex_hexBytes]

/-! ### git's tags -/

theorem gitTag_render_bytes (g : GitTag) :
    g.render = tagBytes g.target g.kind g.name (g.tagger.map GitIdent.render)
      (10 :: (g.message ++ renderSig g.sigTail)) := by
  cases hg : g.tagger <;> simp [GitTag.render, tagBytes, renderTagger, hg, kObject, kType, kTag, kTagger]

theorem tagMessage_git (g : GitTag) (hm : hasInfix (10 :: pgpBegin) g.message = false) (hs : sigWf g.sigTail) :
    tagMessage (10 :: (g.message ++ renderSig g.sigTail)) = some (g.message, g.sigTail.map (fun s => pgpBegin ++ s)) := by
  cases hst : g.sigTail with
  | none => simpa [renderSig] using tagMessage_plain g.message hm
  | some st =>
    rw [hst] at hs
    simpa [renderSig] using tagMessage_signed g.message st hm hs

theorem parse_rendered_tag (g : GitTag) (v : Bool) (hw : g.Wf v) : parseTag g.render = some (absTag g) := by
  obtain ⟨ht, _, hne, hnl, _, htg, hm, hs⟩ := hw
  have htg' : taggerWritable (g.tagger.map absIdent) := by
    cases hg : g.tagger with
    | none => trivial
    | some i =>
      rw [hg] at htg
      exact absIdent_writable i htg
  obtain ⟨tw, htl, _, hparse⟩ := parseTag_bytes g.target g.kind g.name (g.tagger.map absIdent) g.message
    (g.sigTail.map (fun s => pgpBegin ++ s)) (g.message ++ renderSig g.sigTail) ht hne hnl htg'
    (tagMessage_git g hm hs)
  have htw : tw = g.tagger.map GitIdent.render := by
    cases hg : g.tagger with
    | none =>
      rw [hg] at htl
      cases tw with
      | none => rfl
      | some w => simp [taggerLine, kTagger] at htl
    | some i =>
      rw [hg] at htl htg
      cases tw with
      | none => simp [taggerLine, absIdent_write i htg] at htl
      | some w =>
        simp only [Option.map_some, taggerLine, absIdent_write i htg, Option.some.injEq, kTagger] at htl
        have : i.render ++ [10] = w ++ [10] := by simpa using htl
        have := List.append_cancel_right this
        simp [this]
  rw [gitTag_render_bytes, ← htw, hparse]
  rfl

theorem absTag_write (g : GitTag) (v : Bool) (hw : g.Wf v) : (absTag g).write v = some g.render := by
  obtain ⟨_, hv, hne, hnl, hd, htg, _, _⟩ := hw
  have h1 : g.name.isEmpty = false := by cases h : g.name <;> simp_all
  have h3 : (10 : UInt8) ∉ g.name := by
    intro hm
    have := ((noNl_iff g.name).mp hnl) 10 hm
    exact absurd this (by decide)
  have h4 : (g.name.head? == some 45) = false := by simpa using hd
  have htl : taggerLine (g.tagger.map absIdent) = some (renderTagger g.tagger) := by
    cases hg : g.tagger with
    | none => rfl
    | some i =>
      rw [hg] at htg
      simp [taggerLine, absIdent_write i htg, renderTagger]
  have hp : pgpPart (g.sigTail.map (fun s => pgpBegin ++ s)) = renderSig g.sigTail := by
    cases g.sigTail <;> simp [pgpPart, renderSig]
  subst hv
  simp only [TagRef.write, absTag, Bool.not_true, Bool.false_eq_true, if_false, h4, headerField, h1,
    List.contains_eq_mem, h3, decide_false, htl, hp, concatOpts, optAppend, GitTag.render, kObject, kType, kTag]
  simp

end GixModel.C02
